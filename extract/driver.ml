(* Generic model driver: one case per input line, one result per output line.
   The only hand-written glue: OCaml string <-> list of N bytes. *)
let rec pos_of_int (i : int) : Model.positive =
  if i = 1 then Model.XH
  else if i land 1 = 0 then Model.XO (pos_of_int (i lsr 1))
  else Model.XI (pos_of_int (i lsr 1))

let n_of_int (i : int) : Model.n = if i = 0 then Model.N0 else Model.Npos (pos_of_int i)

let rec int_of_pos (p : Model.positive) : int =
  match p with
  | Model.XH -> 1
  | Model.XO q -> 2 * int_of_pos q
  | Model.XI q -> 2 * int_of_pos q + 1

let int_of_n (n : Model.n) : int = match n with Model.N0 -> 0 | Model.Npos p -> int_of_pos p

let table = Array.init 256 n_of_int

let bytes_of_line (s : string) : Model.n list =
  let r = ref [] in
  for i = String.length s - 1 downto 0 do
    r := table.(Char.code s.[i]) :: !r
  done;
  !r

let line_of_bytes (l : Model.n list) : string =
  let b = Buffer.create 256 in
  List.iter (fun n -> Buffer.add_char b (Char.chr ((int_of_n n) land 255))) l;
  Buffer.contents b

let () =
  try
    while true do
      let line = input_line stdin in
      print_string (line_of_bytes (Model.run (bytes_of_line line)));
      print_char '\n'
    done
  with End_of_file -> ()
