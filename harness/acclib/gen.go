package acclib

import (
	"strconv"
	"strings"

	"github.com/mmcloughlin/addchain/acc/ast"

	"verif/harness/lib"
)

// Tokens is the token alphabet of the exhaustive small-scope stream.
var Tokens = []string{
	"1", "[0]", "[1]", "[2]", "x", "y", "add", "shl", "dbl", "return", "+", "<<", "2*", "(", ")", "=",
	"0", "3", "010", "0x1f", "08", " ", "\t", "\n",
}

// TokenSequences calls f on every token sequence of length 1..maxlen joined
// with single spaces and with nothing.
func TokenSequences(maxlen int, f func(src string)) {
	idx := make([]int, maxlen)
	var rec func(k, n int)
	parts := make([]string, maxlen)
	rec = func(k, n int) {
		if k == n {
			f(strings.Join(parts[:n], ""))
			if n > 1 {
				f(strings.Join(parts[:n], " "))
			}
			return
		}
		for i := range Tokens {
			idx[k] = i
			parts[k] = Tokens[i]
			rec(k+1, n)
		}
	}
	f("")
	for n := 1; n <= maxlen; n++ {
		rec(0, n)
	}
}

// RandomTokenSequence draws one sequence of the given length.
func RandomTokenSequence(r *lib.Rand, n int) string {
	parts := make([]string, n)
	for i := range parts {
		parts[i] = Tokens[r.Intn(len(Tokens))]
	}
	if r.Bool() {
		return strings.Join(parts, " ")
	}
	return strings.Join(parts, "")
}

// ---------------------------------------------------------------- trees

// Leaves and unary operators of the exhaustive tree enumeration.
var (
	enumLeaves = []ast.Expr{ast.Operand(0), ast.Operand(1), ast.Operand(12), ast.Identifier("x"), ast.Identifier("return")}
	enumShifts = []uint{1, 10}
)

// TreesOfSize returns every expression tree with exactly n nodes over the
// enumeration alphabet (memoised).
func TreesOfSize(n int, memo map[int][]ast.Expr) []ast.Expr {
	if t, ok := memo[n]; ok {
		return t
	}
	var out []ast.Expr
	if n == 1 {
		out = append(out, enumLeaves...)
	} else {
		for _, x := range TreesOfSize(n-1, memo) {
			out = append(out, ast.Double{X: x})
			for _, s := range enumShifts {
				out = append(out, ast.Shift{X: x, S: s})
			}
		}
		for k := 1; k <= n-2; k++ {
			for _, x := range TreesOfSize(k, memo) {
				for _, y := range TreesOfSize(n-1-k, memo) {
					out = append(out, ast.Add{X: x, Y: y})
				}
			}
		}
	}
	memo[n] = out
	return out
}

// identifier pools
var (
	plainNames = []string{"x", "y", "t0", "_a", "Z9", "i_2", "x10", "_", "acc"}
	// keyword look-alikes that may stand anywhere
	lookalikes = []string{"return", "add", "shl", "dbl", "returnx", "return_", "return1", "returnreturn", "return2x", "addx", "add1", "add_", "shlx", "shl3", "shl_",
		"dbl2", "dbl0", "dbl9x", "db", "dbl8", "xdbl", "_dbl", "d", "a", "s", "r"}
	// identifiers of the dbl class (finding K1): legal only directly under a shift or double
	dblClass = []string{"dblx", "dbl_", "dbl1", "dblreturn", "dbl_1", "dblA", "dbl1x"}
)

func randName(r *lib.Rand) string {
	switch r.Intn(10) {
	case 0, 1, 2, 3, 4:
		return plainNames[r.Intn(len(plainNames))]
	case 5, 6, 7:
		return lookalikes[r.Intn(len(lookalikes))]
	}
	// random identifier over the full alphabet, never of the dbl class
	const first = "abcdefghijklmnopqrstuvwxyzABCDEFGHIJKLMNOPQRSTUVWXYZ_"
	const rest = first + "0123456789"
	n := r.Range(1, 12)
	b := make([]byte, n)
	b[0] = first[r.Intn(len(first))]
	for i := 1; i < n; i++ {
		b[i] = rest[r.Intn(len(rest))]
	}
	s := string(b)
	if IsDblClass(s) {
		s = "q" + s
	}
	return s
}

// IsDblClass: "dbl" followed by a letter, '_' or '1'.
func IsDblClass(s string) bool {
	if len(s) < 4 || s[:3] != "dbl" {
		return false
	}
	c := s[3]
	return c == '1' || c == '_' || (c >= 'a' && c <= 'z') || (c >= 'A' && c <= 'Z')
}

// TreeOpts steers RandExpr.
type TreeOpts struct {
	Names      []string // identifiers that may be used (nil: any name)
	MaxIndex   int      // operands are drawn from [0, MaxIndex]
	BigNumbers bool     // allow operands up to 2^63-1 and shifts up to 2^64-1
	MaxShift   int
	ZeroShift  bool
}

func randLeaf(r *lib.Rand, o *TreeOpts, shiftStart bool) ast.Expr {
	if r.Chance(1, 2) {
		if len(o.Names) > 0 {
			return ast.Identifier(o.Names[r.Intn(len(o.Names))])
		}
		if !shiftStart && r.Chance(1, 3) {
			return ast.Identifier(dblClass[r.Intn(len(dblClass))])
		}
		return ast.Identifier(randName(r))
	}
	if o.BigNumbers && r.Chance(1, 6) {
		switch r.Intn(3) {
		case 0:
			return ast.Operand(1<<63 - 1)
		case 1:
			return ast.Operand(int64(r.Uint64() >> 1))
		}
		return ast.Operand(int64(r.Uint64() >> uint(r.Range(1, 62))))
	}
	if r.Chance(1, 3) {
		return ast.Operand(0)
	}
	return ast.Operand(r.Intn(o.MaxIndex + 1))
}

// RandExpr draws a tree with about n operator nodes. shiftStart says whether
// the position is one where a shift-expression starts (dbl-class identifiers
// are only generated elsewhere).
func RandExpr(r *lib.Rand, n int, o *TreeOpts, shiftStart bool) ast.Expr {
	if n <= 0 {
		return randLeaf(r, o, shiftStart)
	}
	switch r.Intn(4) {
	case 0:
		return ast.Double{X: RandExpr(r, n-1, o, false)}
	case 1:
		s := uint(r.Range(1, o.MaxShift))
		if o.ZeroShift && r.Chance(1, 6) {
			s = 0
		}
		if o.BigNumbers && r.Chance(1, 5) {
			s = uint(r.Uint64() >> uint(r.Intn(64)))
		}
		return ast.Shift{X: RandExpr(r, n-1, o, false), S: s}
	}
	k := r.Intn(n)
	return ast.Add{X: RandExpr(r, k, o, true), Y: RandExpr(r, n-1-k, o, true)}
}

// ---------------------------------------------------------------- rendering a tree as text, with variation

type renderer struct {
	r    *lib.Rand
	b    strings.Builder
	last byte // last byte written (0 at start)
	wild bool // vary spelling, bases, white space and parentheses
	kw   bool // the previous token is a keyword operator that the next token may be glued to
}

func isIDC(c byte) bool {
	return c == '_' || (c >= '0' && c <= '9') || (c >= 'a' && c <= 'z') || (c >= 'A' && c <= 'Z')
}

func (w *renderer) ws(min int) {
	n := min
	if w.wild {
		n += w.r.Intn(3) * w.r.Intn(2)
	}
	for i := 0; i < n; i++ {
		if w.wild && w.r.Chance(1, 5) {
			w.b.WriteByte("\t\r"[w.r.Intn(2)])
			w.last = ' '
		} else {
			w.b.WriteByte(' ')
			w.last = ' '
		}
	}
}

// tok writes a token; sep = separation required when both neighbours are
// identifier characters and gluing would change the reading.
func (w *renderer) tok(t string, glueOK bool) {
	if w.last != 0 && isIDC(w.last) && isIDC(t[0]) && !glueOK {
		w.ws(1)
	} else if w.wild {
		w.ws(0)
	} else if w.last != 0 && w.last != '(' && w.last != '[' && t != ")" && t != "]" && w.last != ' ' {
		w.ws(1)
	}
	w.b.WriteString(t)
	w.last = t[len(t)-1]
	w.kw = false
}

func (w *renderer) number(v uint64) string {
	if !w.wild {
		return strconv.FormatUint(v, 10)
	}
	switch w.r.Intn(4) {
	case 0:
		s := strconv.FormatUint(v, 16)
		if w.r.Bool() {
			s = strings.ToUpper(s)
		}
		return "0x" + s
	case 1:
		z := strings.Repeat("0", w.r.Intn(3))
		return "0" + z + strconv.FormatUint(v, 8)
	}
	return strconv.FormatUint(v, 10)
}

func isOp(e ast.Expr) bool { return ast.IsOp(e) }

func (w *renderer) paren(e ast.Expr) {
	w.tok("(", false)
	w.expr(e)
	w.tok(")", false)
}

// base renders e where the grammar wants a BaseExpr.
func (w *renderer) base(e ast.Expr) {
	if isOp(e) || (w.wild && w.r.Chance(1, 8)) {
		w.paren(e)
		return
	}
	w.expr(e)
}

func (w *renderer) expr(e ast.Expr) {
	if w.wild && w.r.Chance(1, 12) {
		w.paren(e)
		return
	}
	switch e := e.(type) {
	case ast.Operand:
		if e == 0 && (!w.wild || w.r.Chance(2, 3)) {
			// "1" may be glued to a preceding keyword operator (add1, shl... no: shl takes a literal)
			w.tok("1", w.glueAfterKeyword())
			return
		}
		w.tok("[", false)
		w.tok(w.number(uint64(e)), false)
		w.tok("]", false)
	case ast.Identifier:
		w.tok(string(e), w.glueAfterKeyword())
	case ast.Add:
		w.expr(e.X) // left operand: an Add needs no parentheses
		if w.wild && w.r.Chance(1, 3) {
			// "add" glued to a preceding '1', ']' or ')' is still the operator; after an identifier or a
			// literal it needs white space
			w.tok("add", w.last == '1' && w.oneBefore())
			w.kw = w.r.Chance(1, 2)
		} else {
			w.tok("+", false)
		}
		if _, ok := e.Y.(ast.Add); ok {
			w.paren(e.Y)
		} else {
			w.expr(e.Y)
		}
		w.kw = false
	case ast.Shift:
		w.base(e.X)
		if w.wild && w.r.Chance(1, 3) {
			w.tok("shl", w.last == '1' && w.oneBefore())
			// a literal may be glued to shl
			if w.r.Bool() {
				w.b.WriteString(w.number(uint64(e.S)))
				w.last = '0'
				return
			}
		} else {
			w.tok("<<", false)
		}
		w.tok(w.number(uint64(e.S)), false)
	case ast.Double:
		// "dbl shl3" is the identifier dbl shifted by 3, not the doubling of shl3
		id, isID := e.X.(ast.Identifier)
		if w.wild && w.r.Chance(1, 2) && !(isID && strings.HasPrefix(string(id), "shl")) {
			w.tok("dbl", w.glueAfterKeyword())
			w.kw = w.r.Chance(1, 2)
		} else {
			w.tok("2", w.glueAfterKeyword())
			if w.wild {
				w.ws(0)
			}
			w.b.WriteString("*")
			w.last = '*'
		}
		w.base(e.X)
		w.kw = false
	}
}

// glueAfterKeyword: the previous token is a keyword operator (add, dbl) after
// which the next token may be glued on (PEG literals have no word boundary).
func (w *renderer) glueAfterKeyword() bool {
	k := w.kw
	w.kw = false
	return k
}

// oneBefore: the trailing '1' is the operand One, not the end of an identifier or literal.
func (w *renderer) oneBefore() bool {
	s := w.b.String()
	if len(s) < 2 {
		return len(s) == 1
	}
	return !isIDC(s[len(s)-2])
}

// RenderScript writes a tree as source text. With wild = false the text is
// plain (decimal literals, symbolic operators, single spaces).
func RenderScript(r *lib.Rand, c *ast.Chain, wild bool) string {
	// An identifier beginning with "dbl" reads as the doubling operator as soon as something that
	// starts a base expression follows it ("dbl add x", "(dblx)"): such trees are rendered plainly.
	if wild && usesDblIdent(c) {
		wild = false
	}
	var out strings.Builder
	for i, s := range c.Statements {
		w := &renderer{r: r, wild: wild}
		if wild {
			w.ws(0)
		}
		if i == len(c.Statements)-1 {
			// "return" is optional when the expression cannot be mistaken for one
			if !wild || r.Chance(4, 5) || startsWithReturn(s.Expr) {
				w.b.WriteString("return")
				w.last = 'n'
				w.ws(1)
				w.last = ' '
			}
		} else {
			w.b.WriteString(string(s.Name))
			w.last = 'x'
			w.tok("=", false)
		}
		w.expr(s.Expr)
		if wild {
			w.ws(0)
		}
		if i < len(c.Statements)-1 || !wild || r.Chance(2, 3) {
			w.b.WriteString("\n")
		}
		out.WriteString(w.b.String())
	}
	return out.String()
}

// startsWithReturn: the leftmost token of the rendered expression is the identifier "return"
// itself (then the keyword must be written: "return + 1" would read "return" as the keyword).
// A longer identifier with that prefix (returnx, return1) is fine: the keyword needs a blank.
func startsWithReturn(e ast.Expr) bool {
	for {
		switch x := e.(type) {
		case ast.Identifier:
			return string(x) == "return"
		case ast.Add:
			e = x.X
		case ast.Shift:
			e = x.X
		default:
			return false
		}
	}
}

// RandIdent draws a statement name (any legal identifier, never the dbl class).
func RandIdent(r *lib.Rand) string { return randName(r) }

func usesDblIdent(c *ast.Chain) bool {
	var rec func(e ast.Expr) bool
	rec = func(e ast.Expr) bool {
		switch x := e.(type) {
		case ast.Identifier:
			return strings.HasPrefix(string(x), "dbl")
		case ast.Add:
			return rec(x.X) || rec(x.Y)
		case ast.Shift:
			return rec(x.X)
		case ast.Double:
			return rec(x.X)
		}
		return false
	}
	for _, s := range c.Statements {
		if rec(s.Expr) {
			return true
		}
	}
	return false
}

// SmallTokens is the reduced alphabet used for longer exhaustive sequences.
var SmallTokens = []string{"1", "[1]", "x", "add", "shl", "dbl", "return", "+", "<<", "2*", "(", ")", "=", "3"}

// SequencesOver calls f on every sequence of exactly n tokens of the alphabet, joined with nothing and with single spaces.
func SequencesOver(alpha []string, n int, f func(src string)) {
	parts := make([]string, n)
	var rec func(k int)
	rec = func(k int) {
		if k == n {
			f(strings.Join(parts, ""))
			f(strings.Join(parts, " "))
			return
		}
		for _, t := range alpha {
			parts[k] = t
			rec(k + 1)
		}
	}
	rec(0)
}
