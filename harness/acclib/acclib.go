// Package acclib is the part of the harness shared by the acc-language checks
// (C03, C07): line-protocol encodings of syntax trees and IR, running the real
// parser/printer/translator, the property oracles and the case generators.
package acclib

import (
	"bytes"
	"fmt"
	"math/big"
	"reflect"
	"strconv"
	"strings"
	"time"

	"github.com/mmcloughlin/addchain/acc"
	"github.com/mmcloughlin/addchain/acc/ast"
	"github.com/mmcloughlin/addchain/acc/ir"
	"github.com/mmcloughlin/addchain/acc/parse"
	"github.com/mmcloughlin/addchain/acc/pass"
	"github.com/mmcloughlin/addchain/acc/printer"

	"verif/harness/lib"
)

// ---------------------------------------------------------------- encodings

func encExpr(e ast.Expr, out *[]string) {
	switch e := e.(type) {
	case ast.Operand:
		*out = append(*out, "O"+strconv.Itoa(int(e)))
	case ast.Identifier:
		*out = append(*out, "I"+lib.Bytes([]byte(e)))
	case ast.Add:
		*out = append(*out, "A")
		encExpr(e.X, out)
		encExpr(e.Y, out)
	case ast.Shift:
		*out = append(*out, "S"+strconv.FormatUint(uint64(e.S), 10))
		encExpr(e.X, out)
	case ast.Double:
		*out = append(*out, "D")
		encExpr(e.X, out)
	default:
		panic(fmt.Sprintf("harness: unexpected expression type %T", e))
	}
}

// EncExpr is the prefix token form of an expression.
func EncExpr(e ast.Expr) string {
	var toks []string
	encExpr(e, &toks)
	return strings.Join(toks, ",")
}

// EncScript encodes a chain: statements joined by ';', "-" for none.
func EncScript(c *ast.Chain) string {
	if len(c.Statements) == 0 {
		return "-"
	}
	ss := make([]string, len(c.Statements))
	for i, s := range c.Statements {
		ss[i] = lib.Bytes([]byte(s.Name)) + "=" + EncExpr(s.Expr)
	}
	return strings.Join(ss, ";")
}

func decExpr(toks []string, pos *int) ast.Expr {
	if *pos >= len(toks) {
		panic("harness: truncated expression")
	}
	t := toks[*pos]
	*pos++
	switch t[0] {
	case 'O':
		v, err := strconv.ParseInt(t[1:], 10, 64)
		if err != nil {
			panic("harness: bad operand " + t)
		}
		return ast.Operand(v)
	case 'I':
		return ast.Identifier(lib.ParseBytes(t[1:]))
	case 'A':
		x := decExpr(toks, pos)
		y := decExpr(toks, pos)
		return ast.Add{X: x, Y: y}
	case 'S':
		v, err := strconv.ParseUint(t[1:], 10, 64)
		if err != nil {
			panic("harness: bad shift " + t)
		}
		x := decExpr(toks, pos)
		return ast.Shift{X: x, S: uint(v)}
	case 'D':
		return ast.Double{X: decExpr(toks, pos)}
	}
	panic("harness: bad token " + t)
}

// DecExpr decodes EncExpr.
func DecExpr(s string) ast.Expr {
	toks := strings.Split(s, ",")
	pos := 0
	e := decExpr(toks, &pos)
	if pos != len(toks) {
		panic("harness: trailing tokens in " + s)
	}
	return e
}

// DecScript decodes EncScript.
func DecScript(s string) *ast.Chain {
	c := &ast.Chain{}
	if s == "-" {
		return c
	}
	for _, st := range strings.Split(s, ";") {
		i := strings.IndexByte(st, '=')
		if i < 0 {
			panic("harness: bad statement " + st)
		}
		c.Statements = append(c.Statements, ast.Statement{
			Name: ast.Identifier(lib.ParseBytes(st[:i])),
			Expr: DecExpr(st[i+1:]),
		})
	}
	return c
}

func encOperand(o *ir.Operand) string {
	return lib.Bytes([]byte(o.Identifier)) + "@" + strconv.Itoa(o.Index)
}

// EncIR encodes the instruction list with operand names and indexes.
func EncIR(p *ir.Program) string {
	if len(p.Instructions) == 0 {
		return "-"
	}
	ss := make([]string, len(p.Instructions))
	for i, inst := range p.Instructions {
		switch op := inst.Op.(type) {
		case ir.Add:
			ss[i] = "a" + encOperand(inst.Output) + ":" + encOperand(op.X) + "," + encOperand(op.Y)
		case ir.Double:
			ss[i] = "d" + encOperand(inst.Output) + ":" + encOperand(op.X)
		case ir.Shift:
			ss[i] = "s" + encOperand(inst.Output) + ":" + encOperand(op.X) + ":" + strconv.FormatUint(uint64(op.S), 10)
		default:
			panic("harness: unexpected op")
		}
	}
	return strings.Join(ss, ";")
}

func encLoaded(p *ir.Program) string {
	ops := make([]string, len(p.Program))
	for i, o := range p.Program {
		ops[i] = fmt.Sprintf("%d+%d", o.I, o.J)
	}
	o := "-"
	if len(ops) > 0 {
		o = strings.Join(ops, ",")
	}
	return lib.HexList(p.Chain) + " " + o + " " + EncIR(p)
}

// ErrClass maps the repository's error messages to the protocol's classes.
func ErrClass(err error) string {
	m := err.Error()
	switch {
	case strings.Contains(m, "undefined"):
		return "undefined"
	case strings.Contains(m, "cannot redefine"):
		return "redefine"
	case strings.Contains(m, "negative index"), strings.Contains(m, "out of bounds"):
		return "bounds"
	case strings.Contains(m, "incorrect output index"):
		return "outindex"
	}
	return "other"
}

// PanicClass maps a recovered panic to a class.
func PanicClass(v interface{}) string {
	s := fmt.Sprint(v)
	if strings.Contains(s, "index out of range") || strings.Contains(s, "slice bounds") {
		return "index"
	}
	return "other"
}

// ---------------------------------------------------------------- running the implementation

func showParse(src string) string {
	c, err := parse.String(src)
	if err != nil {
		return "!parse"
	}
	return EncScript(c)
}

func loadTree(c *ast.Chain) (*ir.Program, error) {
	p, err := acc.Translate(c)
	if err != nil {
		return nil, err
	}
	if err := pass.Eval(p); err != nil {
		return nil, err
	}
	return p, nil
}

// Run executes one case against the repository code.
func Run(c string) string {
	f := strings.Split(c, " ")
	switch {
	case (f[0] == "parse" && len(f) == 2) || (f[0] == "parsex" && len(f) == 3):
		t, err := parse.String(string(lib.ParseBytes(f[1])))
		if err != nil {
			return "err parse"
		}
		return "ok " + EncScript(t)
	case (f[0] == "load" && len(f) == 2) || (f[0] == "loadx" && len(f) == 3):
		src := string(lib.ParseBytes(f[1]))
		t, err := parse.String(src)
		if err == nil && hugeShift(t) {
			// not evaluated: one element per doubling (see AstProto.v)
			return "ok " + EncScript(t) + " toolarge"
		}
		p, lerr := acc.LoadString(src)
		if err != nil {
			if lerr == nil {
				return "ok LOADED-THOUGH-PARSE-FAILED"
			}
			return "err parse"
		}
		if lerr != nil {
			return "err " + ErrClass(lerr) + " " + EncScript(t)
		}
		return "ok " + EncScript(t) + " " + encLoaded(p)
	case f[0] == "loadtree" && len(f) == 2:
		t := DecScript(f[1])
		if hugeShift(t) {
			return "ok toolarge"
		}
		p, err := loadTree(t)
		if err != nil {
			return "err " + ErrClass(err)
		}
		return "ok " + encLoaded(p)
	case f[0] == "print" && len(f) == 2:
		b, err := printer.Bytes(DecScript(f[1]))
		if err != nil {
			return "err other"
		}
		return "ok " + lib.Bytes(b) + " " + showParse(string(b))
	case f[0] == "fmt" && len(f) == 2:
		t, err := parse.String(string(lib.ParseBytes(f[1])))
		if err != nil {
			return "err parse"
		}
		b, err := printer.Bytes(t)
		if err != nil {
			return "err other"
		}
		return "ok " + EncScript(t) + " " + lib.Bytes(b) + " " + showParse(string(b))
	case f[0] == "printhist" && len(f) == 2:
		return runPrintHist(f[1])
	case f[0] == "parsehist" && len(f) == 2:
		return runParseHist(f[1])
	case f[0] == "large" && len(f) == 3:
		return largeCase(f[1], lib.Atoi(f[2]))
	case f[0] == "deepparse" && len(f) == 2:
		return deepParse(lib.Atoi(f[1]))
	case f[0] == "expr" && len(f) == 2:
		b, err := printer.Bytes(DecExpr(f[1]))
		if err != nil {
			return "err other"
		}
		return "ok " + lib.Bytes(b)
	case f[0] == "stmt" && len(f) == 2:
		b, err := printer.Bytes(DecScript(f[1]).Statements[0])
		if err != nil {
			return "err other"
		}
		return "ok " + lib.Bytes(b)
	}
	return "badcase"
}

// DeepSource is "return 1 + 1" with the expression wrapped in n pairs of parentheses.
func DeepSource(n int) string {
	return "return " + strings.Repeat("(", n) + "1 + 1" + strings.Repeat(")", n)
}

// deepParse parses DeepSource(n) with a deadline: the parser must be (and, with
// memoisation, is) linear in the nesting depth. Without memoisation the PEG
// re-parses every parenthesised expression in each alternative of ShiftExpr,
// i.e. about 2.3^n steps.
func deepParse(n int) string {
	type res struct {
		c   *ast.Chain
		err error
	}
	ch := make(chan res, 1)
	go func() {
		c, err := parse.String(DeepSource(n))
		ch <- res{c, err}
	}()
	select {
	case r := <-ch:
		if r.err != nil {
			return "err parse"
		}
		want := &ast.Chain{Statements: []ast.Statement{{Expr: ast.Add{X: ast.Operand(0), Y: ast.Operand(0)}}}}
		if !reflect.DeepEqual(r.c, want) {
			return "err tree"
		}
		return "ok"
	case <-time.After(20 * time.Second): // linear when memoised (0.2 s for 2000 pairs); exponential otherwise
		return "err slow"
	}
}

// ---------------------------------------------------------------- C03 oracle: in-order semantics

// Interp is an independent reading of the language's semantics: statements in
// order, operands left to right, one new element per add/double, s doublings
// per shift by s >= 1, shift by 0 denotes its operand.
func Interp(c *ast.Chain) (vals []*big.Int, ops [][2]int, reject string) {
	vals = []*big.Int{big.NewInt(1)}
	env := map[string]int{}
	var eval func(e ast.Expr) (int, string)
	exists := func(i int) bool { return i >= 0 && i < len(vals) }
	eval = func(e ast.Expr) (int, string) {
		switch e := e.(type) {
		case ast.Operand:
			return int(e), ""
		case ast.Identifier:
			i, ok := env[string(e)]
			if !ok {
				return 0, "undefined"
			}
			return i, ""
		case ast.Add:
			x, r := eval(e.X)
			if r != "" {
				return 0, r
			}
			y, r := eval(e.Y)
			if r != "" {
				return 0, r
			}
			if !exists(x) || !exists(y) {
				return 0, "future"
			}
			vals = append(vals, new(big.Int).Add(vals[x], vals[y]))
			if x > y {
				x, y = y, x
			}
			ops = append(ops, [2]int{x, y})
			return len(vals) - 1, ""
		case ast.Double:
			x, r := eval(e.X)
			if r != "" {
				return 0, r
			}
			if !exists(x) {
				return 0, "future"
			}
			vals = append(vals, new(big.Int).Lsh(vals[x], 1))
			ops = append(ops, [2]int{x, x})
			return len(vals) - 1, ""
		case ast.Shift:
			x, r := eval(e.X)
			if r != "" {
				return 0, r
			}
			if e.S == 0 {
				return x, ""
			}
			if !exists(x) {
				return 0, "future"
			}
			if e.S > 4096 { // same bound as hugeShift: never materialise more
				return 0, "toolarge"
			}
			for k := uint(0); k < e.S; k++ {
				vals = append(vals, new(big.Int).Lsh(vals[x], 1))
				ops = append(ops, [2]int{x, x})
				x = len(vals) - 1
			}
			return x, ""
		}
		panic("oracle: unexpected expression")
	}
	for _, s := range c.Statements {
		i, r := eval(s.Expr)
		if r != "" {
			return nil, nil, r
		}
		if _, dup := env[string(s.Name)]; dup {
			return nil, nil, "redefine"
		}
		env[string(s.Name)] = i
	}
	return vals, ops, ""
}

func cloneChain(c *ast.Chain) *ast.Chain {
	return DecScript(EncScript(c))
}

// checkLoaded compares an accepted/rejected load with the interpreter.
func checkLoaded(t *ast.Chain, accepted bool, payload []string) string {
	vals, ops, rej := Interp(t)
	if rej == "toolarge" {
		return ""
	}
	if rej != "" {
		if accepted {
			return "script accepted although the in-order semantics rejects it (" + rej + ")"
		}
		return ""
	}
	if !accepted {
		return "script rejected although the in-order semantics accepts it"
	}
	if len(payload) < 2 {
		return "malformed result"
	}
	if payload[0] != lib.HexList(vals) {
		return "chain differs from the in-order semantics: want " + lib.HexList(vals)
	}
	os := make([]string, len(ops))
	for i, o := range ops {
		os[i] = fmt.Sprintf("%d+%d", o[0], o[1])
	}
	want := "-"
	if len(os) > 0 {
		want = strings.Join(os, ",")
	}
	if payload[1] != want {
		return "program differs from the in-order semantics: want " + want
	}
	return ""
}

// checkGrammar compares the implementation's accept/reject decision and tree with the oracle's own
// reading of the published grammar (RefParse).
func checkGrammar(src string, accepted bool, tree string) string {
	if NestingDepth(src) > 16 {
		return "" // the reference reading is exponential in the nesting depth
	}
	want, ok := RefParse(src)
	switch {
	case ok && !accepted:
		return "text rejected although the published grammar accepts it as " + EncScript(want)
	case !ok && accepted:
		return "text accepted (as " + tree + ") although the published grammar rejects it"
	case ok && EncScript(want) != tree:
		return "tree " + tree + " differs from the one the published grammar assigns: " + EncScript(want)
	}
	return ""
}

// treeOfResult extracts the tree from a parse/parsex/load result line ("" if rejected by the parser).
func treeOfResult(r []string) (string, bool) {
	switch {
	case r[0] == "ok" && len(r) >= 2:
		return r[1], true
	case r[0] == "err" && len(r) == 3:
		return r[2], true
	}
	return "", false
}

// OracleC03 states C03 on one case.
func OracleC03(c, res string) string {
	f := strings.Split(c, " ")
	r := strings.Split(res, " ")
	if r[0] == "panic" {
		return "panic: " + res
	}
	switch f[0] {
	case "parsehist":
		return oracleParseHist(c, res)
	case "large":
		return OracleLarge(c, res)
	case "parse", "parsex", "load", "loadx":
		tree, accepted := treeOfResult(r)
		if msg := checkGrammar(string(lib.ParseBytes(f[1])), accepted, tree); msg != "" {
			return msg
		}
	}
	switch f[0] {
	case "deepparse":
		if res != "ok" {
			return "parsing " + f[1] + " nested parentheses around 1 + 1: " + res + " (must succeed within 2 s)"
		}
	case "parsex":
		if res != "ok "+f[2] {
			return "text does not parse to the tree the grammar assigns: want " + f[2]
		}
	case "load", "loadx":
		if f[0] == "loadx" {
			// the generator states the verdict of the semantics; the oracle's interpreter must agree with it
			t, ok := RefParse(string(lib.ParseBytes(f[1])))
			if f[2] == "parse" {
				// intended verdict: outside the grammar
				if ok {
					return "generator: loadx text with intended verdict parse is inside the grammar"
				}
				if res != "err parse" {
					return "text outside the grammar (non-ASCII rune or invalid UTF-8 where the grammar has ASCII terminals) was not rejected by the parser: " + r[0] + " " + strings.Join(r[1:], " ")
				}
				return ""
			}
			if !ok {
				return "generator: loadx text is outside the grammar"
			}
			_, _, rej := Interp(t)
			if rej == "" {
				rej = "accept"
			}
			if rej != f[2] {
				return "oracle interpreter says " + rej + ", the generator intended " + f[2]
			}
			if (f[2] == "accept") != (r[0] == "ok") {
				return "script with intended verdict " + f[2] + " (name resolution order) got: " + r[0] + " " + strings.Join(r[1:2], "")
			}
		}
		if res == "err parse" {
			return ""
		}
		if r[0] == "ok" && len(r) == 3 && r[2] == "toolarge" {
			return ""
		}
		if r[0] == "ok" && len(r) == 5 {
			return checkLoaded(DecScript(r[1]), true, r[2:])
		}
		if r[0] == "err" && len(r) == 3 {
			return checkLoaded(DecScript(r[2]), false, nil)
		}
		return "malformed result line"
	case "loadtree":
		t := DecScript(f[1])
		if hugeShift(t) {
			return ""
		}
		before := cloneChain(t)
		p, err := loadTree(t)
		if !reflect.DeepEqual(before, t) {
			return "Translate modified its argument"
		}
		if err != nil {
			return checkLoaded(t, false, nil)
		}
		return checkLoaded(t, true, strings.Split(encLoaded(p), " "))
	}
	return ""
}

// ---------------------------------------------------------------- C07 oracle: print/parse round trip

func isIdent(s string) bool {
	if s == "" {
		return false
	}
	for i := 0; i < len(s); i++ {
		ch := s[i]
		letter := (ch >= 'a' && ch <= 'z') || (ch >= 'A' && ch <= 'Z') || ch == '_'
		if !(letter || (i > 0 && ch >= '0' && ch <= '9')) {
			return false
		}
	}
	return true
}

func exprInScope(e ast.Expr) bool {
	switch e := e.(type) {
	case ast.Operand:
		return e >= 0
	case ast.Identifier:
		return isIdent(string(e))
	case ast.Add:
		return exprInScope(e.X) && exprInScope(e.Y)
	case ast.Shift:
		return exprInScope(e.X)
	case ast.Double:
		return exprInScope(e.X)
	}
	return false
}

// InScope reports whether a tree is one the property speaks about: at least one
// statement, exactly the last unnamed, the others named by identifiers; add,
// double and shift nodes over non-negative operands and identifiers.
// (The dbl-prefix exclusion of known finding K1 is deliberately NOT part of it.)
func InScope(c *ast.Chain) bool {
	n := len(c.Statements)
	if n == 0 {
		return false
	}
	for i, s := range c.Statements {
		if i == n-1 {
			if s.Name != "" {
				return false
			}
		} else if !isIdent(string(s.Name)) {
			return false
		}
		if !exprInScope(s.Expr) {
			return false
		}
	}
	return true
}

func roundTrip(t *ast.Chain) string {
	before := cloneChain(t)
	b, err := printer.Bytes(t)
	if !reflect.DeepEqual(before, t) {
		return "printer modified its argument"
	}
	if err != nil {
		return "printer failed: " + err.Error()
	}
	u, err := parse.String(string(b))
	if err != nil {
		return fmt.Sprintf("printed text %q is rejected by the parser", b)
	}
	if !reflect.DeepEqual(t, u) {
		return fmt.Sprintf("printed text %q parses to a different tree %s", b, EncScript(u))
	}
	b2, err := printer.Bytes(u)
	if err != nil || string(b2) != string(b) {
		return "formatting is not idempotent"
	}
	return ""
}

func sameLoad(a, b string) string {
	p, e1 := acc.LoadString(a)
	q, e2 := acc.LoadString(b)
	if (e1 == nil) != (e2 == nil) {
		return "formatting changed whether the script loads"
	}
	if e1 != nil {
		return ""
	}
	if !lib.EqualInts(p.Chain, q.Chain) || !reflect.DeepEqual(p.Program, q.Program) {
		return "formatting changed the chain the script evaluates to"
	}
	return ""
}

// OracleC07 states C07 on one case.
func OracleC07(c, res string) string {
	f := strings.Split(c, " ")
	if strings.HasPrefix(res, "panic") {
		return "panic: " + res
	}
	switch f[0] {
	case "expr", "stmt":
		return oracleNode(f[0], f[1])
	case "printhist":
		return oraclePrintHist(c, res)
	case "parsehist":
		return oracleParseHist(c, res)
	case "large":
		return OracleLarge(c, res)
	case "print":
		t := DecScript(f[1])
		if !InScope(t) {
			return ""
		}
		return roundTrip(t)
	case "fmt":
		src := string(lib.ParseBytes(f[1]))
		t, err := parse.String(src)
		if err != nil {
			return ""
		}
		if msg := roundTrip(t); msg != "" {
			return msg
		}
		b, _ := printer.Bytes(t)
		if hugeShift(t) {
			return ""
		}
		return sameLoad(src, string(b))
	}
	return ""
}

func hugeShift(t *ast.Chain) bool {
	var rec func(e ast.Expr) bool
	rec = func(e ast.Expr) bool {
		switch e := e.(type) {
		case ast.Add:
			return rec(e.X) || rec(e.Y)
		case ast.Double:
			return rec(e.X)
		case ast.Shift:
			return e.S > 4096 || rec(e.X)
		}
		return false
	}
	for _, s := range t.Statements {
		if rec(s.Expr) {
			return true
		}
	}
	return false
}

// CountOps is the number of operator nodes of a tree.
func CountOps(c *ast.Chain) int {
	var rec func(e ast.Expr) int
	rec = func(e ast.Expr) int {
		switch e := e.(type) {
		case ast.Add:
			return 1 + rec(e.X) + rec(e.Y)
		case ast.Double:
			return 1 + rec(e.X)
		case ast.Shift:
			return 1 + rec(e.X)
		}
		return 0
	}
	n := 0
	for _, s := range c.Statements {
		n += rec(s.Expr)
	}
	return n
}

// oracleNode: a bare expression or statement node printed through every entry point (Bytes, String,
// Fprint into a caller-owned buffer) gives the same, non-empty text, and that text means the node:
// "return <text>" parses to the chain returning the expression; a named statement's text followed by
// "return 1" parses to that statement and the return.
func oracleNode(kind, enc string) string {
	var node interface{}
	var e ast.Expr
	var st ast.Statement
	if kind == "expr" {
		e = DecExpr(enc)
		node = e
	} else {
		st = DecScript(enc).Statements[0]
		node = st
	}
	b, err1 := printer.Bytes(node)
	s, err2 := printer.String(node)
	var buf bytes.Buffer
	err3 := printer.Fprint(&buf, node)
	if err1 != nil || err2 != nil || err3 != nil {
		return "printing a bare " + kind + " node failed"
	}
	if string(b) != s || buf.String() != s {
		return fmt.Sprintf("printer entry points disagree on a bare %s node: Bytes %q, String %q, Fprint %q", kind, b, s, buf.String())
	}
	if s == "" {
		return "printing a bare " + kind + " node returned empty text and no error"
	}
	if kind == "expr" {
		if !exprInScope(e) {
			return ""
		}
		want := &ast.Chain{Statements: []ast.Statement{{Expr: e}}}
		if !InScope(want) {
			return ""
		}
		got, err := parse.String("return " + s)
		if err != nil {
			return fmt.Sprintf("text %q printed for a bare expression is rejected by the parser (as 'return %s')", s, s)
		}
		if !reflect.DeepEqual(got, want) && !k1Shape(e) {
			return fmt.Sprintf("text %q printed for a bare expression parses to a different tree %s", s, EncScript(got))
		}
		return ""
	}
	if !exprInScope(st.Expr) || k1Shape(st.Expr) {
		return ""
	}
	var want *ast.Chain
	text := s
	if st.Name == "" {
		want = &ast.Chain{Statements: []ast.Statement{st}}
	} else if isIdent(string(st.Name)) {
		want = &ast.Chain{Statements: []ast.Statement{st, {Expr: ast.Operand(0)}}}
		text += "return 1\n"
	} else {
		return ""
	}
	got, err := parse.String(text)
	if err != nil || !reflect.DeepEqual(got, want) {
		return fmt.Sprintf("text %q printed for a bare statement does not parse back to it", s)
	}
	return ""
}

// k1Shape: a dbl-class identifier where a shift-expression starts (known finding K1).
func k1Shape(e ast.Expr) bool {
	var rec func(e ast.Expr, start bool) bool
	rec = func(e ast.Expr, start bool) bool {
		switch x := e.(type) {
		case ast.Identifier:
			return start && IsDblClass(string(x))
		case ast.Add:
			return rec(x.X, true) || rec(x.Y, true)
		case ast.Shift:
			return rec(x.X, false)
		case ast.Double:
			return rec(x.X, false)
		}
		return false
	}
	return rec(e, true)
}
