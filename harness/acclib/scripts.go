package acclib

import (
	"github.com/mmcloughlin/addchain/acc/ast"

	"verif/harness/lib"
)

// ScriptOpts steers GenScript.
type ScriptOpts struct {
	Faults     bool // now and then: undefined name, redefinition, forward / too large index
	BigNumbers bool
	MaxShift   int
	ZeroShift  bool
}

// GenScript draws a mostly valid script: named intermediates, aliases, index
// operands, keyword look-alike names, arbitrary nesting.
func GenScript(r *lib.Rand, o ScriptOpts) *ast.Chain {
	c := &ast.Chain{}
	nst := r.Range(1, 6)
	var names []string
	used := map[string]bool{}
	length := 1
	for i := 0; i < nst; i++ {
		final := i == nst-1
		opts := &TreeOpts{Names: names, MaxIndex: length - 1, BigNumbers: o.BigNumbers, MaxShift: o.MaxShift, ZeroShift: o.ZeroShift}
		if len(names) == 0 || r.Chance(1, 4) {
			opts.Names = nil // operands only ... unless faults are wanted
		}
		var e ast.Expr
		switch {
		case len(names) > 0 && r.Chance(1, 8):
			e = ast.Identifier(names[r.Intn(len(names))]) // alias
		case r.Chance(1, 12):
			e = ast.Operand(r.Intn(length)) // plain operand
		default:
			size := r.Intn(4)
			if r.Chance(1, 5) {
				size = r.Range(4, 12)
			}
			if opts.Names == nil {
				e = randOperandExpr(r, size, opts)
			} else {
				e = RandExpr(r, size, opts, true)
			}
		}
		if o.Faults && r.Chance(1, 10) {
			e = injectFault(r, e, length)
		}
		name := ""
		if !final {
			for {
				name = randName(r)
				if !used[name] || (o.Faults && r.Chance(1, 6)) {
					break
				}
			}
			if IsDblClass(name) {
				name = "n" + name
			}
		}
		c.Statements = append(c.Statements, ast.Statement{Name: ast.Identifier(name), Expr: e})
		if !o.BigNumbers {
			if vals, _, rej := Interp(c); rej == "" {
				length = len(vals)
			}
		}
		if name != "" && !used[name] {
			used[name] = true
			names = append(names, name)
		}
	}
	return c
}

// randOperandExpr: a tree whose leaves are index operands only.
func randOperandExpr(r *lib.Rand, n int, o *TreeOpts) ast.Expr {
	if n <= 0 {
		if r.Chance(1, 2) {
			return ast.Operand(0)
		}
		return ast.Operand(r.Intn(o.MaxIndex + 1))
	}
	switch r.Intn(4) {
	case 0:
		return ast.Double{X: randOperandExpr(r, n-1, o)}
	case 1:
		s := uint(r.Range(1, o.MaxShift))
		if o.ZeroShift && r.Chance(1, 6) {
			s = 0
		}
		return ast.Shift{X: randOperandExpr(r, n-1, o), S: s}
	}
	k := r.Intn(n)
	return ast.Add{X: randOperandExpr(r, k, o), Y: randOperandExpr(r, n-1-k, o)}
}

// injectFault replaces one leaf by an undefined name or a forward / far index.
func injectFault(r *lib.Rand, e ast.Expr, length int) ast.Expr {
	bad := func() ast.Expr {
		switch r.Intn(4) {
		case 0:
			return ast.Identifier("undef" + string(rune('a'+r.Intn(3))))
		case 1:
			return ast.Operand(length) // the element about to be computed
		case 2:
			return ast.Operand(length + r.Range(1, 3))
		}
		return ast.Operand(1000 + r.Intn(5))
	}
	switch x := e.(type) {
	case ast.Add:
		if r.Bool() {
			return ast.Add{X: injectFault(r, x.X, length), Y: x.Y}
		}
		return ast.Add{X: x.X, Y: injectFault(r, x.Y, length)}
	case ast.Double:
		return ast.Double{X: injectFault(r, x.X, length)}
	case ast.Shift:
		return ast.Shift{X: injectFault(r, x.X, length), S: x.S}
	}
	return bad()
}

// Mutate applies one byte-level mutation.
func Mutate(r *lib.Rand, s string) string {
	b := []byte(s)
	ins := []string{"\x00", "\x80", "\xff", "\xc3\xa9", "\xe2\x82\xac", "\r", "\n", "\t", " ", "(", ")", "=", "+", "<<", "*", "2", "1", "0", "x",
		"[", "]", "add", "shl", "dbl", "return", "\n\n", "\r\n", "-", "_", "9", "08", "0x", "18446744073709551616", "9223372036854775808"}
	t := ins[r.Intn(len(ins))]
	pos := 0
	if len(b) > 0 {
		pos = r.Intn(len(b) + 1)
	}
	switch r.Intn(3) {
	case 0: // insert
		return string(b[:pos]) + t + string(b[pos:])
	case 1: // replace
		if pos < len(b) {
			return string(b[:pos]) + t + string(b[pos+1:])
		}
		return string(b) + t
	}
	// delete
	if pos < len(b) {
		return string(b[:pos]) + string(b[pos+1:])
	}
	return string(b)
}

// Rejections: one or more scripts per rejection class and per boundary of the literal syntax.
var Rejections = []string{
	"", "\n", " ", "x = 1 + 1\n", "x = 1 + 1", "return", "return ", "return\n", "return 1\n\n", "return 1\n \n", "x = 1 + 1\n\nreturn x",
	"return zz", "a = 1 + 1\nreturn a + b", "a = 1 + 1\na = a + 1\nreturn a", "x = 1\nx = 1\nreturn x",
	"return [1] + 1", "return 1 + [1]", "return [2] << 1", "return 2*[1]", "a = 1 << 3\nreturn a + [2]", "a = 1 << 3\nreturn a + [4]",
	"return [9] + 1 + zz", "return [1]", "return [5] << 0", "return ([5] << 0) + 1", "return [1000]",
	"return 1 << 08", "return 1 << 09", "return 1 << 010", "return 1 << 00", "return 1 << 0", "return 1 << 0x", "return 1 << 0x1F", "return 1 << 0X1f",
	"return 1 << 0b1", "return 1 << 0o7", "return 1 << 1_0", "return 1 << 0778", "return 1 << 18446744073709551615", "return 1 << 18446744073709551616",
	"return 1 << 0xffffffffffffffff", "return 1 << 0x10000000000000000", "return 1 << 01777777777777777777777", "return 1 << 02000000000000000000000",
	"return [9223372036854775807]", "return [9223372036854775808]", "return [18446744073709551615]", "return [18446744073709551616]",
	"return [0x7fffffffffffffff]", "return [0x8000000000000000]", "return [08]", "return [ 1", "return [1", "return []", "return [x]", "return [-1]",
	"return (1", "return 1)", "return ()", "return (1))", "return ((1)", "return 1 +", "return + 1", "return 1 + + 1", "return 1 << ", "return << 1",
	"return 2*", "return 2 2", "return 11", "return 1 1", "return 1x", "return x1", "return 2*2*1", "return 1 << 1 << 1", "return dbl dbl 1", "return 2*1 << 1",
	"= 1\nreturn 1", "1 = 1\nreturn 1", "x = \nreturn 1", "x == 1\nreturn 1", "x = 1 = 1\nreturn 1", "x = 1\r\nreturn x\r\n", "x = 1\rreturn x",
	"return = 1 + 1\nreturn return", "return = 1", "return=1\nreturn return", "returnx", "return return", "return return return", "return1", "return(1)", "return[0]",
	"return dblx", "x = 1+1\nreturn dblx", "return dbl1", "return dbl_", "return dbl2", "return dbl", "return dbl + 1", "dblx = 1 + 1\nreturn dblx << 1", "dblx = 1 + 1\nreturn dblx + 1",
	"x = 1+1\nreturn x addx", "x=1+1\nreturn x shl3", "x=1+1\nreturn xadd x", "return 1add1", "return 1shl1", "return 1 shl1 add 1", "return 1addadd", "add = 1+1\nreturn add add add",
	"x = 1 + 1\nreturn x\n\x00", "x = 1 + 1\nreturn x\xff", "\xef\xbb\xbfreturn 1", "return \xc3\xa9", "caf\xc3\xa9 = 1+1\nreturn 1", "return 1 \x80", "x = 1 // c\nreturn x", "# c\nreturn 1",
	"a = 1 + 1\nb = a\nreturn b + a", "a = 1 + 1\nb = a\nc = b\nreturn c + a + b", "a = 1\nb = [0]\nreturn a + b", "a = 1 + 1\nreturn a", "a = 1 + 1\nb = a << 0\nreturn b + a",
	"a = 2*1\nb = a + 1\nreturn (b << 2) + (a + [2])", "return (1 + 1) + (1 + 1)", "return 1 + (1 + 1)", "return 1 + 1 + 1", "return ((1 << 1) << 2) + 2*(2*1)",
	"_10 = 2*1\n_11 = 1 + _10\n_1100 = _11 << 2\nreturn _1100 + _11",
}

// NestedTrees returns trees whose printed form nests parentheses about k deep:
// right-nested additions, shift of shift, double of double, and a mix.
func NestedTrees(k int) []ast.Expr {
	var radd, sh, db, mix ast.Expr = ast.Add{X: ast.Operand(0), Y: ast.Operand(0)}, ast.Operand(0), ast.Operand(0), ast.Identifier("x")
	for i := 0; i < k; i++ {
		radd = ast.Add{X: ast.Operand(0), Y: radd}
		sh = ast.Shift{X: sh, S: 1}
		db = ast.Double{X: db}
		if i%2 == 0 {
			switch (i / 2) % 3 {
			case 0:
				mix = ast.Shift{X: ast.Add{X: mix, Y: ast.Operand(0)}, S: 2}
			case 1:
				mix = ast.Double{X: mix}
			default:
				mix = ast.Add{X: ast.Operand(0), Y: ast.Add{X: ast.Operand(0), Y: mix}}
			}
		}
	}
	return []ast.Expr{radd, sh, db, mix}
}
