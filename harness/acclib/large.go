package acclib

import (
	"reflect"
	"strconv"
	"strings"
	"time"

	"github.com/mmcloughlin/addchain/acc"
	"github.com/mmcloughlin/addchain/acc/ast"
	"github.com/mmcloughlin/addchain/acc/parse"
	"github.com/mmcloughlin/addchain/acc/printer"

	"verif/harness/lib"
)

// LargeShapes and LargeSizes define the large-size stream (same trees as large_tree in AstProto.v).
var LargeShapes = []string{"a", "b", "c", "d", "e"}

// LargeSizes returns the sizes of a tier.
func LargeSizes(tier string) []int {
	s := []int{4, 12, 50, 200, 1000, 3000}
	if tier == "thorough" {
		s = append(s, 10000, 30000)
	}
	return s
}

var two = ast.Add{X: ast.Operand(0), Y: ast.Operand(0)}

// LargeTree builds the script of a shape and size:
//
//	a  x = 1 + 1; return t0 + t1 + ... (n terms: 1, x << s, 2*x, left-nested)
//	b  a = 1 + 1; return a + (a + (a + ...))            (n additions, right-nested)
//	c  x = 1 + 1; return ...(2*((2*x) << 1)) << 1 ...   (nesting depth n)
//	d  x0 = 1 + 1; x1 = x0 + 1; ...; return x(n-1)       (n statements)
//	e  as d with n/3 statements, one of them named by 120 characters
func LargeTree(shape string, n int) *ast.Chain {
	x := ast.Identifier("x")
	switch shape {
	case "a":
		term := func(k int) ast.Expr {
			switch k % 3 {
			case 0:
				return ast.Operand(0)
			case 1:
				return ast.Shift{X: x, S: uint(k%4 + 1)}
			}
			return ast.Double{X: x}
		}
		e := term(0)
		for k := 1; k < n; k++ {
			e = ast.Add{X: e, Y: term(k)}
		}
		return &ast.Chain{Statements: []ast.Statement{{Name: "x", Expr: two}, {Expr: e}}}
	case "b":
		a := ast.Identifier("a")
		var e ast.Expr = a
		for k := 0; k < n; k++ {
			e = ast.Add{X: a, Y: e}
		}
		return &ast.Chain{Statements: []ast.Statement{{Name: "a", Expr: two}, {Expr: e}}}
	case "c":
		var e ast.Expr = x
		for k := 0; k < n; k++ {
			if k%2 == 0 {
				e = ast.Double{X: e}
			} else {
				e = ast.Shift{X: e, S: 1}
			}
		}
		return &ast.Chain{Statements: []ast.Statement{{Name: "x", Expr: two}, {Expr: e}}}
	case "d", "e":
		m := n
		if shape == "e" {
			m = n / 3
		}
		if m < 2 {
			m = 2
		}
		name := func(k int) ast.Identifier {
			if shape == "e" && k == m/2 {
				return ast.Identifier("L" + strings.Repeat("a", 119))
			}
			return ast.Identifier("x" + strconv.Itoa(k))
		}
		c := &ast.Chain{Statements: []ast.Statement{{Name: name(0), Expr: two}}}
		for k := 1; k < m; k++ {
			c.Statements = append(c.Statements, ast.Statement{Name: name(k), Expr: ast.Add{X: name(k - 1), Y: ast.Operand(0)}})
		}
		c.Statements = append(c.Statements, ast.Statement{Expr: name(m - 1)})
		return c
	}
	panic("harness: unknown large shape " + shape)
}

// largeCase: compact source -> parse -> intended tree; print -> parse -> identical tree; printing
// idempotent; LoadString of source and of formatted text agree with the in-order interpreter
// (where the chain stays small). Everything within a deadline.
func largeCase(shape string, n int) string {
	done := make(chan string, 1)
	go func() { done <- largeSteps(shape, n) }()
	select {
	case r := <-done:
		return r
	case <-time.After(largeDeadline(n)):
		return "err slow"
	}
}

// largeDeadline: the bound exists to expose super-linear blow-ups (minutes to years), not to time the
// code: 30 s up to 3 000 nodes (normally well under a second), growing linearly beyond, so that a busy
// machine does not turn the largest thorough-tier cases (a few seconds when idle) into an alarm.
func largeDeadline(n int) time.Duration {
	d := 30 * time.Second
	if n > 3000 {
		d = time.Duration(n/100) * time.Second
	}
	return d
}

func largeSteps(shape string, n int) string {
	t := LargeTree(shape, n)
	src := RenderScript(lib.NewRand(1), t, false)
	c, err := parse.String(src)
	if err != nil {
		return "err parse"
	}
	if !reflect.DeepEqual(c, t) {
		return "err tree"
	}
	b, err := printer.Bytes(c)
	if err != nil {
		return "err print"
	}
	c2, err := parse.String(string(b))
	if err != nil {
		return "err reparse"
	}
	if !reflect.DeepEqual(c2, c) {
		return "err retree"
	}
	b2, err := printer.Bytes(c2)
	if err != nil || string(b2) != string(b) {
		return "err idem"
	}
	if shape == "c" && n > 3000 {
		return "ok" // values of 2^n: not evaluated
	}
	vals, ops, rej := Interp(t)
	p, err := acc.LoadString(src)
	q, err2 := acc.LoadString(string(b))
	if rej != "" || err != nil || err2 != nil {
		return "err load"
	}
	if !lib.EqualInts(p.Chain, vals) || !lib.EqualInts(q.Chain, vals) || len(p.Program) != len(ops) || !reflect.DeepEqual(p.Program, q.Program) {
		return "err load"
	}
	for i, o := range ops {
		if p.Program[i].I != o[0] || p.Program[i].J != o[1] {
			return "err load"
		}
	}
	return "ok"
}

// OracleLarge: the result of a large case must be "ok".
func OracleLarge(c, res string) string {
	if res == "ok" {
		return ""
	}
	what := map[string]string{
		"err parse":   "the compact source is rejected by the parser",
		"err tree":    "the compact source parses to a different tree",
		"err reparse": "the formatted text is rejected by the parser although its source parses",
		"err retree":  "the formatted text parses to a different tree",
		"err idem":    "formatting is not idempotent",
		"err load":    "LoadString disagrees with the in-order semantics (or between source and formatted text)",
		"err slow":    "no answer within the deadline (30 s up to 3000 nodes, 1 s per 100 nodes beyond)",
	}[res]
	return "large script (" + c + "): " + res + " - " + what
}
