package acclib

import (
	"strings"
	"unicode"

	"verif/harness/lib"
)

// FoldRunes are all non-ASCII runes whose ToLower / ToUpper / SimpleFold orbit contains an ASCII
// character (U+212A KELVIN SIGN -> k, U+0130 -> i, U+017F -> s, U+0131 -> I, ...), computed from the
// unicode package, each with the ASCII letter it resembles.
func FoldRunes() map[rune]rune {
	out := map[rune]rune{}
	for r := rune(0x80); r <= 0x1FFFF; r++ {
		if l := unicode.ToLower(r); l < 0x80 {
			out[r] = l
			continue
		}
		if u := unicode.ToUpper(r); u < 0x80 {
			out[r] = unicode.ToLower(u)
			continue
		}
		for f := unicode.SimpleFold(r); f != r; f = unicode.SimpleFold(f) {
			if f < 0x80 {
				out[r] = unicode.ToLower(f)
				break
			}
		}
	}
	return out
}

// other letters, digits, operators and blanks that look like or play the role of ASCII ones
var (
	uniLetters = []string{"é", "а", "α", "Ａ", "ａ", "ｘ", "ß", "ǆ", "ℓ", "𝐱", "_́", "ª"}
	uniDigits  = []string{"１", "０", "３", "١", "٣", "²", "①", "߁"}
	uniOps     = map[string][]string{"+": {"＋", "➕"}, "<<": {"«", "＜＜", "≪"}, "*": {"＊", "×", "∗"}, "=": {"＝", "꞊"},
		"(": {"（"}, ")": {"）"}, "[": {"［"}, "]": {"］"}}
	uniBlanks = []string{"\u00a0", "\u2028", "\u2029", "\u3000", "\ufeff", "\u0085", "\u2003", "\u200b", "\v", "\f"}
	badUTF8   = []string{"\x80", "\xff", "\xc3", "\xed\xa0\x80", "\xc0\xaf", "\xf8\x88\x80\x80\x80", "\xe2\x82"}
)

// UnicodeCases calls f with texts that are valid scripts except for one non-ASCII rune (or invalid
// UTF-8 sequence) in an identifier, keyword, operator, digit or white-space position. The grammar's
// terminals are all ASCII, so every one of them must be rejected.
func UnicodeCases(f func(src string)) {
	var letters []string
	fold := FoldRunes()
	for r := range fold {
		letters = append(letters, string(r))
	}
	letters = append(letters, uniLetters...)
	letters = append(letters, badUTF8...)
	// identifier positions: the whole name, first, middle, last character; in the definition and in uses
	for _, l := range letters {
		for _, name := range []string{l, l + "x", "x" + l, "x" + l + "1", "_" + l + "_"} {
			f(name + " = 1 + 1\nreturn " + name + " + 1")
			f(name + " = 1 + 1\n" + name + " << 2\n")
			f("y = 1 + 1\n" + name + " = y\nreturn " + name)
		}
		f("x = 1 + 1\nreturn x" + l)
		f("x = 1 + 1\nreturn x + " + l)
		f("return " + l)
	}
	// keyword positions: each letter of each keyword replaced by a look-alike
	base := map[string]string{"return": "x = 1 + 1\n%s x + 1", "add": "x = 1 + 1\nreturn x %s 1", "shl": "x = 1 + 1\nreturn x %s 3", "dbl": "x = 1 + 1\nreturn %s x"}
	for kw, tmpl := range base {
		for i := 0; i < len(kw); i++ {
			subs := []string{string(rune(0xFF41 + int(kw[i]-'a'))), string(rune(0xFF21 + int(kw[i]-'a')))}
			for r, a := range fold {
				if byte(a) == kw[i] {
					subs = append(subs, string(r))
				}
			}
			subs = append(subs, "\xff")
			for _, s := range subs {
				f(strings.Replace(tmpl, "%s", kw[:i]+s+kw[i+1:], 1))
			}
		}
	}
	// operator and bracket positions
	for op, alts := range uniOps {
		for _, a := range append(alts, "\x80") {
			for _, t := range []string{"x = 1 + 1\nreturn (x + [1]) << 2 + 2*x", "x=1+1\nreturn (x+[1])<<2+2*x"} {
				if strings.Contains(t, op) {
					f(strings.Replace(t, op, a, 1))
					if i := strings.LastIndex(t, op); i >= 0 {
						f(t[:i] + a + t[i+len(op):])
					}
				}
			}
		}
	}
	// digit positions: the operand One, index literals, shift amounts, the 2 of "2*"
	for _, d := range append(uniDigits, "\xc3") {
		f("return " + d)
		f("x = 1 + " + d + "\nreturn x")
		f("x = 1 + 1\nreturn [" + d + "] + x")
		f("x = 1 + 1\nreturn [1" + d + "] + x")
		f("x = 1 + 1\nreturn x << " + d)
		f("x = 1 + 1\nreturn x << 1" + d)
		f("x = 1 + 1\nreturn x << 0x" + d)
		f("x = 1 + 1\nreturn " + d + "*x")
		f("x" + d + " = 1 + 1\nreturn x" + d)
	}
	// white-space positions
	for _, b := range append(uniBlanks, "\xa0", "\xff") {
		f(b + "x = 1 + 1\nreturn x")
		f("x" + b + "= 1 + 1\nreturn x")
		f("x = 1" + b + "+ 1\nreturn x")
		f("x = 1 + 1" + b + "\nreturn x")
		f("x = 1 + 1\n" + b + "return x")
		f("x = 1 + 1\nreturn" + b + "x")
		f("x = 1 + 1\nreturn x" + b)
		f("x = 1 + 1\nreturn x\n" + b)
		f("x = 1 + 1" + b + "return x") // as a line separator
	}
}

// unicodePerturb replaces one ASCII character of a text by a non-ASCII look-alike (hunt mode).
func unicodePerturb(r *lib.Rand, s string) string {
	if len(s) == 0 {
		return s
	}
	i := r.Intn(len(s))
	c := s[i]
	var sub string
	switch {
	case c == 'k' || c == 'K':
		sub = "K"
	case c == 'i' || c == 'I':
		sub = []string{"İ", "ı"}[r.Intn(2)]
	case c == 's' || c == 'S':
		sub = "ſ"
	case c >= 'a' && c <= 'z':
		sub = string(rune(0xFF41 + int(c-'a')))
	case c >= 'A' && c <= 'Z':
		sub = string(rune(0xFF21 + int(c-'A')))
	case c >= '0' && c <= '9':
		sub = string(rune(0xFF10 + int(c-'0')))
	case c == ' ' || c == '\t':
		sub = uniBlanks[r.Intn(len(uniBlanks))]
	default:
		sub = badUTF8[r.Intn(len(badUTF8))]
	}
	if r.Chance(1, 4) { // insert next to it instead of replacing
		return s[:i+1] + sub + s[i+1:]
	}
	return s[:i] + sub + s[i+1:]
}
