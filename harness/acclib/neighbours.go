package acclib

import (
	"strings"

	"github.com/mmcloughlin/addchain/acc/ast"

	"verif/harness/lib"
)

// ---------------------------------------------------------------- keyword look-alikes, every position

// LookalikeNames are identifiers that begin with (or are) a keyword of the grammar.
var LookalikeNames = []string{
	"return", "returnx", "return_", "return1", "return2", "returnreturn", "returnadd", "Return", "xreturn",
	"add", "addx", "add1", "add_", "adddbl", "shl", "shlx", "shl3", "shl_1", "dbl", "dbl0", "dbl2x", "dbl9",
}

// DblClassNames may only stand directly under a shift or a doubling (known finding K1).
var DblClassNames = []string{"dblx", "dbl_", "dbl1", "dblreturn", "dbladd"}

// LookalikeCases calls f with (text, intended tree) for every look-alike name in every statement
// position: named statement, middle statement, and the final statement written with and without the
// optional keyword, as first token and behind operators, plus texts with keywords glued to the
// next token. The intended trees follow from the grammar by construction.
func LookalikeCases(f func(src string, want *ast.Chain)) {
	one := ast.Operand(0)
	two := ast.Add{X: one, Y: one}
	for _, n := range LookalikeNames {
		id := ast.Identifier(n)
		def := ast.Statement{Name: id, Expr: two}
		finals := []struct {
			text string
			e    ast.Expr
		}{
			{n, id},
			{n + " + 1", ast.Add{X: id, Y: one}},
			{n + "+1", ast.Add{X: id, Y: one}},
			{n + " << 3", ast.Shift{X: id, S: 3}},
			{n + " shl 3 add " + n, ast.Add{X: ast.Shift{X: id, S: 3}, Y: id}},
			{"(" + n + " + 1) << 2", ast.Shift{X: ast.Add{X: id, Y: one}, S: 2}},
			{"1 + " + n, ast.Add{X: one, Y: id}},
			{"1 add" + n, ast.Add{X: one, Y: id}}, // keyword glued to the identifier
			{"1add " + n, ast.Add{X: one, Y: id}}, // keyword glued to the operand One
			{"2*" + n, ast.Double{X: id}},
			{"2 * " + n + " + " + n, ast.Add{X: ast.Double{X: id}, Y: id}},
			{n + " + (" + n + " + " + n + ")", ast.Add{X: id, Y: ast.Add{X: id, Y: id}}},
		}
		if n != "shl" && !strings.HasPrefix(n, "shl") {
			// "dbl shl3" would be the identifier dbl shifted by 3
			finals = append(finals, struct {
				text string
				e    ast.Expr
			}{"dbl " + n, ast.Double{X: id}}, struct {
				text string
				e    ast.Expr
			}{"dbl" + n + " + 1", ast.Add{X: ast.Double{X: id}, Y: one}})
		}
		for _, fin := range finals {
			// the identifier dbl followed by a blank and something that starts a base expression reads as a doubling
			if n == "dbl" && (strings.HasPrefix(fin.text, "dbl shl") || strings.HasPrefix(fin.text, "dbl + (")) {
				continue
			}
			want := &ast.Chain{Statements: []ast.Statement{def, {Expr: fin.e}}}
			head := n + " = 1 + 1\n"
			f(head+"return "+fin.text+"\n", want)
			f(head+"return\t"+fin.text, want)
			// without the keyword: legal unless the line starts with the word "return" followed by a blank
			if !(n == "return" && strings.HasPrefix(fin.text, "return ")) {
				f(head+fin.text+"\n", want)
				f(head+"  "+fin.text, want)
			}
			// as a middle statement
			mid := &ast.Chain{Statements: []ast.Statement{def, {Name: "y", Expr: fin.e}, {Expr: ast.Identifier("y")}}}
			f(head+"y = "+fin.text+"\nreturn y\n", mid)
			f(head+"y="+fin.text+"\ny", mid)
		}
		// alias of a look-alike name, and the name as a statement name only
		f(n+" = 1\nz = "+n+"\nreturn z + "+n, &ast.Chain{Statements: []ast.Statement{{Name: id, Expr: one}, {Name: "z", Expr: id}, {Expr: ast.Add{X: ast.Identifier("z"), Y: id}}}})
	}
	for _, n := range DblClassNames {
		id := ast.Identifier(n)
		def := ast.Statement{Name: id, Expr: two}
		for _, fin := range []struct {
			text string
			e    ast.Expr
		}{
			{n + " << 3", ast.Shift{X: id, S: 3}},
			{n + " shl 1 + 1", ast.Add{X: ast.Shift{X: id, S: 1}, Y: one}},
			{"2*" + n, ast.Double{X: id}},
			{"dbl " + n, ast.Double{X: id}},
			{"1 + 2 * " + n, ast.Add{X: one, Y: ast.Double{X: id}}},
			{"(" + n + " << 0) + 1", ast.Add{X: ast.Shift{X: id, S: 0}, Y: one}},
		} {
			want := &ast.Chain{Statements: []ast.Statement{def, {Expr: fin.e}}}
			head := n + " = 1 + 1\n"
			f(head+"return "+fin.text+"\n", want)
			f(head+fin.text, want)
		}
	}
}

// ---------------------------------------------------------------- neighbourhood of a text

type token struct {
	text string
	kind byte // 'i' identifier-like, 'n' number, 'w' blanks, 'l' newline, 'o' other
}

func tokenize(s string) []token {
	var out []token
	for i := 0; i < len(s); {
		j := i + 1
		k := byte('o')
		switch {
		case letter(s[i]):
			for j < len(s) && (letter(s[j]) || digit(s[j])) {
				j++
			}
			k = 'i'
		case digit(s[i]):
			for j < len(s) && (digit(s[j]) || letter(s[j])) {
				j++
			}
			k = 'n'
		case blank(s[i]):
			for j < len(s) && blank(s[j]) {
				j++
			}
			k = 'w'
		case s[i] == '\n':
			k = 'l'
		case s[i] == '<' && j < len(s) && s[j] == '<':
			j++
		}
		out = append(out, token{s[i:j], k})
		i = j
	}
	return out
}

func join(ts []token) string {
	var b strings.Builder
	for _, t := range ts {
		b.WriteString(t.text)
	}
	return b.String()
}

var respell = []string{"returnx", "return1", "return_", "returnreturn", "return", "addx", "add1", "shl3", "shlx", "dbl0", "dbl", "dblx", "dbl1", "x", "t0"}

// perturb applies one token-level perturbation: re-spell an identifier everywhere (often with a
// keyword prefix), toggle the optional return keyword, glue or unglue white space.
func perturb(r *lib.Rand, s string) string {
	ts := tokenize(s)
	if len(ts) == 0 {
		return "return 1"
	}
	switch r.Intn(6) {
	case 0, 1: // re-spell one identifier consistently
		var ids []string
		for _, t := range ts {
			if t.kind == 'i' {
				ids = append(ids, t.text)
			}
		}
		if len(ids) == 0 {
			return s
		}
		old := ids[r.Intn(len(ids))]
		nw := respell[r.Intn(len(respell))]
		if r.Chance(1, 3) {
			nw = []string{"return", "add", "shl", "dbl"}[r.Intn(4)] + old
		}
		for i := range ts {
			if ts[i].kind == 'i' && ts[i].text == old {
				ts[i].text = nw
			}
		}
	case 2: // toggle the return keyword on the last line
		start := 0
		for i, t := range ts {
			if t.kind == 'l' && i+1 < len(ts) {
				start = i + 1
			}
		}
		i := start
		for i < len(ts) && ts[i].kind == 'w' {
			i++
		}
		if i < len(ts) && ts[i].text == "return" {
			k := i + 1
			for k < len(ts) && ts[k].kind == 'w' {
				k++
			}
			if r.Bool() {
				ts = append(ts[:i:i], ts[k:]...) // drop keyword and blanks
			} else {
				ts = append(ts[:i+1:i+1], ts[k:]...) // glue the keyword to what follows
			}
		} else {
			ts = append(ts[:i:i], append([]token{{"return", 'i'}, {" ", 'w'}}, ts[i:]...)...)
		}
	case 3: // glue: drop one run of blanks
		var ws []int
		for i, t := range ts {
			if t.kind == 'w' {
				ws = append(ws, i)
			}
		}
		if len(ws) == 0 {
			return s
		}
		i := ws[r.Intn(len(ws))]
		ts = append(ts[:i:i], ts[i+1:]...)
	case 4: // unglue: insert a blank at a token boundary
		i := r.Intn(len(ts) + 1)
		ts = append(ts[:i:i], append([]token{{[]string{" ", "\t"}[r.Intn(2)], 'w'}}, ts[i:]...)...)
	default: // swap operator spelling
		for i := range ts {
			if r.Chance(1, 2) {
				switch ts[i].text {
				case "+":
					ts[i].text = "add"
				case "add":
					ts[i].text = "+"
				case "<<":
					ts[i].text = "shl"
				case "shl":
					ts[i].text = "<<"
				case "dbl":
					ts[i].text = "2*"
				}
			}
		}
	}
	return join(ts)
}

// Neighbours emits text cases near the text of a case (functions load, parse, parsex, fmt); the
// oracle judges them with its own reading of the grammar, so no intended tree is needed.
func Neighbours(fn string) func(c string, r *lib.Rand, emit func(string)) {
	return func(c string, r *lib.Rand, emit func(string)) {
		f := strings.Split(c, " ")
		if len(f) < 2 {
			return
		}
		switch f[0] {
		case "load", "parse", "parsex", "fmt":
		default:
			return
		}
		src := string(lib.ParseBytes(f[1]))
		for k := 0; k < 40; k++ {
			s := perturb(r, src)
			for r.Chance(1, 2) {
				s = perturb(r, s)
			}
			if NestingDepth(s) > 14 {
				continue
			}
			emit(fn + " " + lib.Bytes([]byte(s)))
		}
	}
}
