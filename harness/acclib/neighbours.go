package acclib

import (
	"strings"

	"github.com/mmcloughlin/addchain/acc/ast"

	"verif/harness/lib"
)

// ---------------------------------------------------------------- keyword look-alikes, every position

// LookalikeNames are identifiers that begin with (or are) a keyword of the grammar.
var LookalikeNames = []string{
	"return", "returnx", "return_", "return1", "return2", "returnreturn", "returnadd", "Return", "xreturn",
	"add", "addx", "add1", "add_", "adddbl", "shl", "shlx", "shl3", "shl_1", "dbl", "dbl0", "dbl2x", "dbl9",
}

// DblClassNames may only stand directly under a shift or a doubling (known finding K1).
var DblClassNames = []string{"dblx", "dbl_", "dbl1", "dblreturn", "dbladd"}

// LookalikeCases calls f with (text, intended tree) for every look-alike name in every statement
// position: named statement, middle statement, and the final statement written with and without the
// optional keyword, as first token and behind operators, plus texts with keywords glued to the
// next token. The intended trees follow from the grammar by construction.
func LookalikeCases(f func(src string, want *ast.Chain)) {
	one := ast.Operand(0)
	two := ast.Add{X: one, Y: one}
	for _, n := range LookalikeNames {
		id := ast.Identifier(n)
		def := ast.Statement{Name: id, Expr: two}
		finals := []struct {
			text string
			e    ast.Expr
		}{
			{n, id},
			{n + " + 1", ast.Add{X: id, Y: one}},
			{n + "+1", ast.Add{X: id, Y: one}},
			{n + " << 3", ast.Shift{X: id, S: 3}},
			{n + " shl 3 add " + n, ast.Add{X: ast.Shift{X: id, S: 3}, Y: id}},
			{"(" + n + " + 1) << 2", ast.Shift{X: ast.Add{X: id, Y: one}, S: 2}},
			{"1 + " + n, ast.Add{X: one, Y: id}},
			{"1 add" + n, ast.Add{X: one, Y: id}}, // keyword glued to the identifier
			{"1add " + n, ast.Add{X: one, Y: id}}, // keyword glued to the operand One
			{"2*" + n, ast.Double{X: id}},
			{"2 * " + n + " + " + n, ast.Add{X: ast.Double{X: id}, Y: id}},
			{n + " + (" + n + " + " + n + ")", ast.Add{X: id, Y: ast.Add{X: id, Y: id}}},
		}
		if n != "shl" && !strings.HasPrefix(n, "shl") {
			// "dbl shl3" would be the identifier dbl shifted by 3
			finals = append(finals, struct {
				text string
				e    ast.Expr
			}{"dbl " + n, ast.Double{X: id}}, struct {
				text string
				e    ast.Expr
			}{"dbl" + n + " + 1", ast.Add{X: ast.Double{X: id}, Y: one}})
		}
		for _, fin := range finals {
			// the identifier dbl followed by a blank and something that starts a base expression reads as a doubling
			if n == "dbl" && (strings.HasPrefix(fin.text, "dbl shl") || strings.HasPrefix(fin.text, "dbl + (")) {
				continue
			}
			want := &ast.Chain{Statements: []ast.Statement{def, {Expr: fin.e}}}
			head := n + " = 1 + 1\n"
			f(head+"return "+fin.text+"\n", want)
			f(head+"return\t"+fin.text, want)
			// without the keyword: legal unless the line starts with the word "return" followed by a blank
			if !(n == "return" && strings.HasPrefix(fin.text, "return ")) {
				f(head+fin.text+"\n", want)
				f(head+"  "+fin.text, want)
			}
			// as a middle statement
			mid := &ast.Chain{Statements: []ast.Statement{def, {Name: "y", Expr: fin.e}, {Expr: ast.Identifier("y")}}}
			f(head+"y = "+fin.text+"\nreturn y\n", mid)
			f(head+"y="+fin.text+"\ny", mid)
		}
		// alias of a look-alike name, and the name as a statement name only
		f(n+" = 1\nz = "+n+"\nreturn z + "+n, &ast.Chain{Statements: []ast.Statement{{Name: id, Expr: one}, {Name: "z", Expr: id}, {Expr: ast.Add{X: ast.Identifier("z"), Y: id}}}})
	}
	for _, n := range DblClassNames {
		id := ast.Identifier(n)
		def := ast.Statement{Name: id, Expr: two}
		for _, fin := range []struct {
			text string
			e    ast.Expr
		}{
			{n + " << 3", ast.Shift{X: id, S: 3}},
			{n + " shl 1 + 1", ast.Add{X: ast.Shift{X: id, S: 1}, Y: one}},
			{"2*" + n, ast.Double{X: id}},
			{"dbl " + n, ast.Double{X: id}},
			{"1 + 2 * " + n, ast.Add{X: one, Y: ast.Double{X: id}}},
			{"(" + n + " << 0) + 1", ast.Add{X: ast.Shift{X: id, S: 0}, Y: one}},
		} {
			want := &ast.Chain{Statements: []ast.Statement{def, {Expr: fin.e}}}
			head := n + " = 1 + 1\n"
			f(head+"return "+fin.text+"\n", want)
			f(head+fin.text, want)
		}
	}
}

// ---------------------------------------------------------------- name resolution order

// NameOrderCases calls f with (tree, verdict) for scripts about the order of definition and use:
// (a) self-reference  n = E[n], n not defined earlier            -> undefined
// (b) use before definition  u = E[n]; ...; n = 1 + 1             -> undefined
// (c) second definition using the first  n = 1 + 1; n = E[n]      -> redefine
// (d) alias cycles  b = a; a = b                                   -> undefined
// and the legal look-alikes  n = 1 + 1; y = E[n]                  -> accept
// with E[.] ranging over every depth/position of an expression and the statement in first, middle and
// last named position.
func NameOrderCases(f func(t *ast.Chain, verdict string)) {
	one := ast.Operand(0)
	ctx := func(h ast.Expr) []ast.Expr {
		return []ast.Expr{
			h,
			ast.Add{X: h, Y: one}, ast.Add{X: one, Y: h}, ast.Double{X: h}, ast.Shift{X: h, S: 3}, ast.Shift{X: h, S: 0},
			ast.Shift{X: ast.Add{X: h, Y: one}, S: 2}, ast.Add{X: one, Y: ast.Add{X: one, Y: h}}, ast.Double{X: ast.Double{X: h}},
			ast.Add{X: ast.Shift{X: ast.Add{X: ast.Identifier("a"), Y: one}, S: 2}, Y: ast.Identifier("a")},
			ast.Add{X: ast.Add{X: one, Y: ast.Double{X: one}}, Y: ast.Shift{X: h, S: 1}},
			ast.Add{X: ast.Shift{X: h, S: 2}, Y: ast.Identifier("a")},
			ast.Add{X: ast.Identifier("a"), Y: ast.Add{X: ast.Shift{X: h, S: 2}, Y: h}},
		}
	}
	usesHole := func(e ast.Expr, n string) bool { return strings.Contains(EncExpr(e), "I"+lib.Bytes([]byte(n))) }
	stA := ast.Statement{Name: "a", Expr: two}
	for _, n := range []string{"x", "b", "returnx", "add1", "shl", "_"} {
		id := ast.Identifier(n)
		for _, e := range ctx(id) {
			if !usesHole(e, n) {
				continue
			}
			stN := ast.Statement{Name: id, Expr: e}
			defN := ast.Statement{Name: id, Expr: two}
			retN := ast.Statement{Expr: id}
			retA := ast.Statement{Expr: ast.Add{X: ast.Identifier("a"), Y: one}}
			mk := func(ss ...ast.Statement) *ast.Chain { return &ast.Chain{Statements: ss} }
			// (a) self-reference: second, last-named, middle position (a is defined first: the contexts use it)
			f(mk(stA, stN, retN), "undefined")
			f(mk(stA, stN, retA), "undefined")
			f(mk(stA, stN, ast.Statement{Name: "z", Expr: two}, retN), "undefined")
			f(mk(stA, ast.Statement{Name: "z", Expr: two}, stN, ast.Statement{Expr: ast.Identifier("z")}), "undefined")
			// (b) use before definition
			u := ast.Statement{Name: "u", Expr: e}
			f(mk(stA, u, defN, ast.Statement{Expr: ast.Add{X: ast.Identifier("u"), Y: id}}), "undefined")
			f(mk(stA, u, ast.Statement{Name: "z", Expr: two}, defN, retN), "undefined")
			// (c) redefinition whose expression legally uses the first definition
			f(mk(stA, defN, stN, retN), "redefine")
			f(mk(stA, defN, ast.Statement{Name: "z", Expr: id}, stN, retA), "redefine")
			// legal look-alikes
			f(mk(stA, defN, ast.Statement{Name: "y", Expr: e}, ast.Statement{Expr: ast.Add{X: ast.Identifier("y"), Y: id}}), "accept")
			f(mk(stA, defN, ast.Statement{Expr: e}), "accept")
		}
		// first statement self-referential, no other name around
		for _, e := range []ast.Expr{id, ast.Add{X: id, Y: one}, ast.Shift{X: id, S: 3}, ast.Double{X: id}, ast.Add{X: one, Y: ast.Add{X: id, Y: id}}} {
			f(&ast.Chain{Statements: []ast.Statement{{Name: id, Expr: e}, {Expr: id}}}, "undefined")
			f(&ast.Chain{Statements: []ast.Statement{{Name: id, Expr: e}, {Expr: one}}}, "undefined")
		}
	}
	// (d) alias cycles
	a, b, c := ast.Identifier("a"), ast.Identifier("b"), ast.Identifier("c")
	f(&ast.Chain{Statements: []ast.Statement{{Name: b, Expr: a}, {Name: a, Expr: b}, {Expr: a}}}, "undefined")
	f(&ast.Chain{Statements: []ast.Statement{{Name: a, Expr: b}, {Name: b, Expr: a}, {Expr: ast.Add{X: a, Y: b}}}}, "undefined")
	f(&ast.Chain{Statements: []ast.Statement{{Name: a, Expr: b}, {Name: b, Expr: c}, {Name: c, Expr: a}, {Expr: c}}}, "undefined")
	f(&ast.Chain{Statements: []ast.Statement{{Name: "x", Expr: two}, {Name: b, Expr: a}, {Name: a, Expr: ast.Identifier("x")}, {Expr: a}}}, "undefined")
	// legal alias chains
	f(&ast.Chain{Statements: []ast.Statement{{Name: a, Expr: two}, {Name: b, Expr: a}, {Name: c, Expr: b}, {Expr: ast.Add{X: c, Y: a}}}}, "accept")
	f(&ast.Chain{Statements: []ast.Statement{{Name: "x", Expr: two}, {Name: "y", Expr: ast.Add{X: ast.Identifier("x"), Y: ast.Identifier("x")}}, {Expr: ast.Identifier("y")}}}, "accept")
}

// ---------------------------------------------------------------- neighbourhood of a text

type token struct {
	text string
	kind byte // 'i' identifier-like, 'n' number, 'w' blanks, 'l' newline, 'o' other
}

func tokenize(s string) []token {
	var out []token
	for i := 0; i < len(s); {
		j := i + 1
		k := byte('o')
		switch {
		case letter(s[i]):
			for j < len(s) && (letter(s[j]) || digit(s[j])) {
				j++
			}
			k = 'i'
		case digit(s[i]):
			for j < len(s) && (digit(s[j]) || letter(s[j])) {
				j++
			}
			k = 'n'
		case blank(s[i]):
			for j < len(s) && blank(s[j]) {
				j++
			}
			k = 'w'
		case s[i] == '\n':
			k = 'l'
		case s[i] == '<' && j < len(s) && s[j] == '<':
			j++
		}
		out = append(out, token{s[i:j], k})
		i = j
	}
	return out
}

func join(ts []token) string {
	var b strings.Builder
	for _, t := range ts {
		b.WriteString(t.text)
	}
	return b.String()
}

var respell = []string{"returnx", "return1", "return_", "returnreturn", "return", "addx", "add1", "shl3", "shlx", "dbl0", "dbl", "dblx", "dbl1", "x", "t0"}

// perturb applies one token-level perturbation: re-spell an identifier everywhere (often with a
// keyword prefix), toggle the optional return keyword, glue or unglue white space.
func perturb(r *lib.Rand, s string) string {
	ts := tokenize(s)
	if len(ts) == 0 {
		return "return 1"
	}
	switch r.Intn(11) {
	case 9, 10: // a non-ASCII look-alike in place of an ASCII character; also re-spell names with k, i, s
		if r.Bool() {
			for i := range ts {
				if ts[i].kind == 'i' && ts[i].text != "return" && r.Chance(1, 2) {
					old := ts[i].text
					nw := []string{"k", "K", "i", "sk", "ki", "xk1", "Is"}[r.Intn(7)]
					for j := range ts {
						if ts[j].kind == 'i' && ts[j].text == old {
							ts[j].text = nw
						}
					}
					break
				}
			}
			s = join(ts)
		}
		return unicodePerturb(r, s)
	case 6, 7: // name resolution order: self-reference, swapped or duplicated definition lines
		lines := strings.Split(s, "\n")
		var defs []int
		for i, l := range lines {
			if strings.Contains(l, "=") {
				defs = append(defs, i)
			}
		}
		if len(defs) == 0 {
			return s
		}
		i := defs[r.Intn(len(defs))]
		switch r.Intn(3) {
		case 0: // an identifier of the expression becomes the statement's own name
			eq := strings.Index(lines[i], "=")
			name := strings.TrimSpace(lines[i][:eq])
			lt := tokenize(lines[i][eq+1:])
			var ids []int
			for k, t := range lt {
				if t.kind == 'i' && t.text != "add" && t.text != "shl" && t.text != "dbl" {
					ids = append(ids, k)
				}
			}
			if len(ids) == 0 || name == "" {
				lines[i] = lines[i] + " + " + name
			} else {
				lt[ids[r.Intn(len(ids))]].text = name
				lines[i] = lines[i][:eq+1] + join(lt)
			}
		case 1: // swap two lines
			j := r.Intn(len(lines))
			lines[i], lines[j] = lines[j], lines[i]
		default: // duplicate a definition just before the end
			k := len(lines) - 1
			lines = append(lines[:k:k], append([]string{lines[i]}, lines[k:]...)...)
		}
		return strings.Join(lines, "\n")
	case 8: // rename the defined name of one statement only (uses keep the old name)
		for i, t := range ts {
			if t.kind == 'i' && r.Chance(1, 3) {
				ts[i].text = respell[r.Intn(len(respell))]
				break
			}
		}
	case 0, 1: // re-spell one identifier consistently
		var ids []string
		for _, t := range ts {
			if t.kind == 'i' {
				ids = append(ids, t.text)
			}
		}
		if len(ids) == 0 {
			return s
		}
		old := ids[r.Intn(len(ids))]
		nw := respell[r.Intn(len(respell))]
		if r.Chance(1, 3) {
			nw = []string{"return", "add", "shl", "dbl"}[r.Intn(4)] + old
		}
		for i := range ts {
			if ts[i].kind == 'i' && ts[i].text == old {
				ts[i].text = nw
			}
		}
	case 2: // toggle the return keyword on the last line
		start := 0
		for i, t := range ts {
			if t.kind == 'l' && i+1 < len(ts) {
				start = i + 1
			}
		}
		i := start
		for i < len(ts) && ts[i].kind == 'w' {
			i++
		}
		if i < len(ts) && ts[i].text == "return" {
			k := i + 1
			for k < len(ts) && ts[k].kind == 'w' {
				k++
			}
			if r.Bool() {
				ts = append(ts[:i:i], ts[k:]...) // drop keyword and blanks
			} else {
				ts = append(ts[:i+1:i+1], ts[k:]...) // glue the keyword to what follows
			}
		} else {
			ts = append(ts[:i:i], append([]token{{"return", 'i'}, {" ", 'w'}}, ts[i:]...)...)
		}
	case 3: // glue: drop one run of blanks
		var ws []int
		for i, t := range ts {
			if t.kind == 'w' {
				ws = append(ws, i)
			}
		}
		if len(ws) == 0 {
			return s
		}
		i := ws[r.Intn(len(ws))]
		ts = append(ts[:i:i], ts[i+1:]...)
	case 4: // unglue: insert a blank at a token boundary
		i := r.Intn(len(ts) + 1)
		ts = append(ts[:i:i], append([]token{{[]string{" ", "\t"}[r.Intn(2)], 'w'}}, ts[i:]...)...)
	default: // swap operator spelling
		for i := range ts {
			if r.Chance(1, 2) {
				switch ts[i].text {
				case "+":
					ts[i].text = "add"
				case "add":
					ts[i].text = "+"
				case "<<":
					ts[i].text = "shl"
				case "shl":
					ts[i].text = "<<"
				case "dbl":
					ts[i].text = "2*"
				}
			}
		}
	}
	return join(ts)
}

// Neighbours emits text cases near the text of a case (functions load, parse, parsex, fmt); the
// oracle judges them with its own reading of the grammar, so no intended tree is needed.
func Neighbours(fn string) func(c string, r *lib.Rand, emit func(string)) {
	return func(c string, r *lib.Rand, emit func(string)) {
		f := strings.Split(c, " ")
		if len(f) < 2 {
			return
		}
		switch f[0] {
		case "load", "loadx", "parse", "parsex", "fmt":
		default:
			return
		}
		src := string(lib.ParseBytes(f[1]))
		for k := 0; k < 40; k++ {
			s := perturb(r, src)
			for r.Chance(1, 2) {
				s = perturb(r, s)
			}
			if NestingDepth(s) > 14 {
				continue
			}
			emit(fn + " " + lib.Bytes([]byte(s)))
		}
	}
}
