package acclib

import (
	"bytes"
	"reflect"
	"strings"

	"github.com/mmcloughlin/addchain/acc/ast"
	"github.com/mmcloughlin/addchain/acc/parse"
	"github.com/mmcloughlin/addchain/acc/printer"

	"verif/harness/lib"
)

// runPrintHist prints several trees in one process with printer.Bytes (keeping every returned slice
// alive), printer.String and printer.Fprint into caller-owned buffers, and only after the last print
// re-reads all outputs. "!" is a print of an unexpected node type.
func runPrintHist(arg string) string {
	type kept struct {
		bad  bool
		b    []byte
		s    string
		f    bytes.Buffer
		errs bool
	}
	elems := strings.Split(arg, "|")
	ks := make([]*kept, len(elems))
	for i, e := range elems {
		k := &kept{}
		ks[i] = k
		if e == "!" {
			k.bad = true
			_, err := printer.Bytes(struct{}{})
			k.errs = err != nil
			continue
		}
		t := DecScript(e)
		var err error
		k.b, err = printer.Bytes(t) // NOT copied: the caller owns what Bytes returns
		if err != nil {
			k.errs = true
		}
		if k.s, err = printer.String(t); err != nil {
			k.errs = true
		}
		if err = printer.Fprint(&k.f, t); err != nil {
			k.errs = true
		}
	}
	outs := make([]string, len(ks))
	for i, k := range ks {
		switch {
		case k.bad && k.errs:
			outs[i] = "!err"
		case k.bad:
			outs[i] = "!noerr"
		case k.errs:
			outs[i] = "!printerr"
		default:
			outs[i] = lib.Bytes(k.b) + ":" + showParse(string(k.b))
			if k.s != string(k.b) {
				outs[i] += ":!string"
			}
			if k.f.String() != string(k.b) {
				outs[i] += ":!fprint"
			}
		}
	}
	return "ok " + strings.Join(outs, "|")
}

// runParseHist parses several texts, keeps all trees, and encodes them after the last parse.
func runParseHist(arg string) string {
	elems := strings.Split(arg, "|")
	trees := make([]*ast.Chain, len(elems))
	for i, e := range elems {
		t, err := parse.String(string(lib.ParseBytes(e)))
		if err == nil {
			trees[i] = t
		}
	}
	outs := make([]string, len(elems))
	for i, t := range trees {
		if t == nil {
			outs[i] = "!parse"
		} else {
			outs[i] = EncScript(t)
		}
	}
	return "ok " + strings.Join(outs, "|")
}

// oraclePrintHist: every output re-read after the last print must equal what an isolated print of its
// own tree gives (copied at once), parse back to its own tree and be stable.
func oraclePrintHist(c, res string) string {
	f := strings.SplitN(c, " ", 2)
	r := strings.SplitN(res, " ", 2)
	if r[0] != "ok" || len(r) != 2 {
		return "print history failed: " + res
	}
	elems := strings.Split(f[1], "|")
	outs := strings.Split(r[1], "|")
	if len(outs) != len(elems) {
		return "malformed result"
	}
	for i, e := range elems {
		if e == "!" {
			if outs[i] != "!err" {
				return "printing an unexpected node type did not return an error"
			}
			continue
		}
		t := DecScript(e)
		b, err := printer.Bytes(t)
		if err != nil {
			return "printer failed on element " + itoa(i)
		}
		fresh := string(append([]byte(nil), b...)) // copied before any other print
		parts := strings.Split(outs[i], ":")
		if parts[0] != lib.Bytes([]byte(fresh)) {
			return "output " + itoa(i) + " of the history changed after later prints: an isolated print gives " + quote(fresh) +
				", the text kept from the history now reads " + quote(string(lib.ParseBytes(parts[0])))
		}
		if len(parts) > 2 {
			return "output " + itoa(i) + ": Bytes, String and Fprint disagree (" + strings.Join(parts[2:], ",") + ")"
		}
		if InScope(t) {
			u, err := parse.String(fresh)
			if err != nil || !reflect.DeepEqual(u, t) {
				return "output " + itoa(i) + " does not parse back to its tree"
			}
			if len(parts) < 2 || parts[1] != EncScript(t) {
				return "output " + itoa(i) + " kept from the history parses to " + strings.Join(parts[1:], ":") + ", not to its own tree"
			}
		}
	}
	return ""
}

// oracleParseHist: every tree kept from the history must be the tree the grammar assigns to its text.
func oracleParseHist(c, res string) string {
	f := strings.SplitN(c, " ", 2)
	r := strings.SplitN(res, " ", 2)
	if r[0] != "ok" || len(r) != 2 {
		return "parse history failed: " + res
	}
	elems := strings.Split(f[1], "|")
	outs := strings.Split(r[1], "|")
	if len(outs) != len(elems) {
		return "malformed result"
	}
	for i, e := range elems {
		src := string(lib.ParseBytes(e))
		if NestingDepth(src) > 16 {
			continue
		}
		want := "!parse"
		if t, ok := RefParse(src); ok {
			want = EncScript(t)
		}
		if outs[i] != want {
			return "tree " + itoa(i) + " kept from the parse history is " + outs[i] + ", the grammar assigns " + want
		}
	}
	return ""
}

func itoa(i int) string { return lib.IntList([]int{i}) }
func quote(s string) string {
	return "'" + strings.NewReplacer("\n", "\\n", "\t", "\\t").Replace(s) + "'"
}

// HistCases emits print and parse histories: every ordered pair of a pool of different trees (short
// then long, long then short, the same twice), triples A B A, a failing print between good ones, and
// random longer histories.
func HistCases(tier string, r *lib.Rand, emit func(string)) {
	one := ast.Operand(0)
	x := ast.Identifier("x")
	pool := []*ast.Chain{
		{Statements: []ast.Statement{{Expr: one}}},
		{Statements: []ast.Statement{{Expr: ast.Add{X: one, Y: ast.Add{X: one, Y: one}}}}},
		{Statements: []ast.Statement{{Name: "x", Expr: two}, {Expr: ast.Shift{X: ast.Double{X: x}, S: 3}}}},
		{Statements: []ast.Statement{{Name: "return", Expr: two}, {Name: "add", Expr: ast.Identifier("return")}, {Expr: ast.Add{X: ast.Identifier("add"), Y: ast.Identifier("return")}}}},
		{Statements: []ast.Statement{{Name: "a_rather_long_name_1", Expr: two}, {Name: "b", Expr: ast.Double{X: ast.Double{X: ast.Identifier("a_rather_long_name_1")}}}, {Expr: ast.Add{X: ast.Identifier("b"), Y: ast.Add{X: ast.Identifier("b"), Y: one}}}}},
		{Statements: []ast.Statement{{Expr: ast.Shift{X: ast.Shift{X: one, S: 1}, S: 18446744073709551615}}}},
		LargeTree("a", 40), LargeTree("d", 25), LargeTree("c", 9),
	}
	enc := make([]string, len(pool))
	var srcs []string
	for i, t := range pool {
		enc[i] = EncScript(t)
		b, _ := printer.Bytes(t)
		srcs = append(srcs, lib.Bytes(b), lib.Bytes([]byte(RenderScript(r, t, true))))
	}
	srcs = append(srcs, lib.Bytes([]byte("return")), lib.Bytes([]byte("x = 1 +")), lib.Bytes([]byte("return [08]")), lib.Bytes([]byte("returnx")))
	for i := range enc {
		for j := range enc {
			emit("printhist " + enc[i] + "|" + enc[j])
		}
		emit("printhist " + enc[i] + "|!|" + enc[(i+1)%len(enc)])
		emit("printhist " + enc[i] + "|" + enc[(i+3)%len(enc)] + "|" + enc[i])
	}
	n := 150
	if tier == "thorough" {
		n = 20000
	}
	for k := 0; k < n; k++ {
		m := r.Range(2, 6)
		ps := make([]string, m)
		qs := make([]string, m)
		for i := range ps {
			switch {
			case r.Chance(1, 3):
				ps[i] = enc[r.Intn(len(enc))]
			case r.Chance(1, 12):
				ps[i] = "!"
			default:
				ps[i] = EncScript(GenScript(r, ScriptOpts{MaxShift: 9, ZeroShift: true, BigNumbers: r.Chance(1, 4)}))
			}
			if r.Chance(1, 2) {
				qs[i] = srcs[r.Intn(len(srcs))]
			} else {
				qs[i] = lib.Bytes([]byte(Mutate(r, RenderScript(r, GenScript(r, ScriptOpts{MaxShift: 9}), r.Bool()))))
			}
		}
		emit("printhist " + strings.Join(ps, "|"))
		emit("parsehist " + strings.Join(qs, "|"))
	}
}
