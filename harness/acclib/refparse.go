package acclib

import (
	"math"
	"strconv"
	"strings"

	"github.com/mmcloughlin/addchain/acc/ast"
)

// RefParse is the oracle's own reading of the published grammar (acc/parse/acc.peg), written
// directly from the grammar text as an index-based backtracking recogniser. It shares no code
// with the repository's generated parser nor with the Coq model.
//
//	Chain      <- Assignment* Return _ EOF
//	Assignment <- _ Identifier _ '=' _ Expr _ EOL
//	Return     <- _ ("return" __)? Expr _ EOL?
//	Expr       <- AddExpr
//	AddExpr    <- _ ShiftExpr (_ AddOperator _ ShiftExpr)* _
//	ShiftExpr  <- _ BaseExpr _ ShiftOperator _ UintLiteral _ / _ DoubleOperator _ BaseExpr / BaseExpr
//	BaseExpr   <- '(' _ Expr _ ')' / Operand
//	Operand    <- '1' / '[' _ UintLiteral _ ']' / Identifier
//	operators  <- '+' / "add"     "<<" / "shl"     '2' _ '*' / "dbl"
//	UintLiteral<- "0x" [0-9a-fA-F]+ / '0' [0-7]+ / [0-9]+   {strconv.ParseUint(text, 0, 64)}
//	_ <- [ \t\r]*    __ <- [ \t\r]+    EOL <- '\n'
//
// PEG: ordered choice, greedy repetition, no back-off, literals are plain prefixes. An error
// returned by an action (ParseUint, the operand range check) does not fail the match but makes
// the whole parse an error; it is never undone by backtracking (field bad).
func RefParse(src string) (*ast.Chain, bool) {
	p := &refParser{s: src}
	i := 0
	c := &ast.Chain{}
	for {
		st, j, ok := p.assignment(i)
		if !ok {
			break
		}
		c.Statements = append(c.Statements, st)
		i = j
	}
	st, i, ok := p.ret(i)
	if !ok {
		return nil, false
	}
	c.Statements = append(c.Statements, st)
	if p.blanks(i) != len(src) || p.bad {
		return nil, false
	}
	return c, true
}

// NestingDepth is the maximal parenthesis depth of a text (RefParse is exponential in it).
func NestingDepth(src string) int {
	d, m := 0, 0
	for i := 0; i < len(src); i++ {
		switch src[i] {
		case '(':
			d++
			if d > m {
				m = d
			}
		case ')':
			if d > 0 {
				d--
			}
		}
	}
	return m
}

type refParser struct {
	s   string
	bad bool
}

func blank(b byte) bool { return b == ' ' || b == '\t' || b == '\r' }

func (p *refParser) blanks(i int) int {
	for i < len(p.s) && blank(p.s[i]) {
		i++
	}
	return i
}

func (p *refParser) lit(i int, l string) (int, bool) {
	if strings.HasPrefix(p.s[i:], l) {
		return i + len(l), true
	}
	return i, false
}

func letter(b byte) bool { return b == '_' || (b >= 'a' && b <= 'z') || (b >= 'A' && b <= 'Z') }
func digit(b byte) bool  { return b >= '0' && b <= '9' }

func (p *refParser) ident(i int) (string, int, bool) {
	if i >= len(p.s) || !letter(p.s[i]) {
		return "", i, false
	}
	j := i + 1
	for j < len(p.s) && (letter(p.s[j]) || digit(p.s[j])) {
		j++
	}
	return p.s[i:j], j, true
}

func (p *refParser) class(i int, in func(byte) bool) int {
	for i < len(p.s) && in(p.s[i]) {
		i++
	}
	return i
}

func (p *refParser) uintLit(i int) (uint64, int, bool) {
	end := -1
	if j, ok := p.lit(i, "0x"); ok {
		k := p.class(j, func(b byte) bool { return digit(b) || (b >= 'a' && b <= 'f') || (b >= 'A' && b <= 'F') })
		if k > j {
			end = k
		}
	}
	if end < 0 {
		if j, ok := p.lit(i, "0"); ok {
			k := p.class(j, func(b byte) bool { return b >= '0' && b <= '7' })
			if k > j {
				end = k
			}
		}
	}
	if end < 0 {
		k := p.class(i, digit)
		if k > i {
			end = k
		}
	}
	if end < 0 {
		return 0, i, false
	}
	v, err := strconv.ParseUint(p.s[i:end], 0, 64)
	if err != nil {
		p.bad = true
	}
	return v, end, true
}

func (p *refParser) operand(i int) (ast.Expr, int, bool) {
	if j, ok := p.lit(i, "1"); ok {
		return ast.Operand(0), j, true
	}
	if j, ok := p.lit(i, "["); ok {
		if v, k, ok := p.uintLit(p.blanks(j)); ok {
			if m, ok := p.lit(p.blanks(k), "]"); ok {
				if v > math.MaxInt64 {
					p.bad = true
				}
				return ast.Operand(int(v)), m, true
			}
		}
	}
	if name, j, ok := p.ident(i); ok {
		return ast.Identifier(name), j, true
	}
	return nil, i, false
}

func (p *refParser) base(i int) (ast.Expr, int, bool) {
	if j, ok := p.lit(i, "("); ok {
		if e, k, ok := p.expr(p.blanks(j)); ok {
			if m, ok := p.lit(p.blanks(k), ")"); ok {
				return e, m, true
			}
		}
	}
	return p.operand(i)
}

func (p *refParser) either(i int, a, b string) (int, bool) {
	if j, ok := p.lit(i, a); ok {
		return j, true
	}
	return p.lit(i, b)
}

func (p *refParser) shift(i int) (ast.Expr, int, bool) {
	// _ BaseExpr _ ShiftOperator _ UintLiteral _
	if x, j, ok := p.base(p.blanks(i)); ok {
		if k, ok := p.either(p.blanks(j), "<<", "shl"); ok {
			if v, m, ok := p.uintLit(p.blanks(k)); ok {
				return ast.Shift{X: x, S: uint(v)}, p.blanks(m), true
			}
		}
	}
	// _ DoubleOperator _ BaseExpr
	j0 := p.blanks(i)
	k, ok := -1, false
	if j, ok2 := p.lit(j0, "2"); ok2 {
		k, ok = p.lit(p.blanks(j), "*")
	}
	if !ok {
		k, ok = p.lit(j0, "dbl")
	}
	if ok {
		if x, m, ok := p.base(p.blanks(k)); ok {
			return ast.Double{X: x}, m, true
		}
	}
	// BaseExpr
	return p.base(i)
}

func (p *refParser) expr(i int) (ast.Expr, int, bool) {
	x, j, ok := p.shift(p.blanks(i))
	if !ok {
		return nil, i, false
	}
	for {
		k, ok := p.either(p.blanks(j), "+", "add")
		if !ok {
			break
		}
		y, m, ok := p.shift(p.blanks(k))
		if !ok {
			break
		}
		x = ast.Add{X: x, Y: y}
		j = m
	}
	return x, p.blanks(j), true
}

func (p *refParser) assignment(i int) (ast.Statement, int, bool) {
	name, j, ok := p.ident(p.blanks(i))
	if !ok {
		return ast.Statement{}, i, false
	}
	k, ok := p.lit(p.blanks(j), "=")
	if !ok {
		return ast.Statement{}, i, false
	}
	e, m, ok := p.expr(p.blanks(k))
	if !ok {
		return ast.Statement{}, i, false
	}
	n, ok := p.lit(p.blanks(m), "\n")
	if !ok {
		return ast.Statement{}, i, false
	}
	return ast.Statement{Name: ast.Identifier(name), Expr: e}, n, true
}

func (p *refParser) ret(i int) (ast.Statement, int, bool) {
	j := p.blanks(i)
	if k, ok := p.lit(j, "return"); ok {
		if m := p.blanks(k); m > k { // __ : at least one blank
			j = m
		}
	}
	e, k, ok := p.expr(j)
	if !ok {
		return ast.Statement{}, i, false
	}
	k = p.blanks(k)
	if m, ok := p.lit(k, "\n"); ok {
		k = m
	}
	return ast.Statement{Expr: e}, k, true
}
