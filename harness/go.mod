module verif/harness

go 1.16

require github.com/mmcloughlin/addchain v0.0.0

replace github.com/mmcloughlin/addchain => /repo
