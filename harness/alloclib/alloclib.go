// Package alloclib is shared by the C05 and C17 harnesses: text encoding of IR
// programs, case generators, calls into acc/pass and acc/eval, and the
// independent oracle (own well-formedness test, own liveness, own chain
// evaluation, own register machine).
package alloclib

import (
	"fmt"
	"math/big"
	"sort"
	"strconv"
	"strings"

	"github.com/mmcloughlin/addchain"
	"github.com/mmcloughlin/addchain/acc"
	"github.com/mmcloughlin/addchain/acc/eval"
	"github.com/mmcloughlin/addchain/acc/ir"
	"github.com/mmcloughlin/addchain/acc/parse"
	"github.com/mmcloughlin/addchain/acc/ast"
	"github.com/mmcloughlin/addchain/acc/pass"
	"verif/harness/acclib"
	"verif/harness/lib"
)

// ---------------------------------------------------------------- IR as values

// Opd is an operand: index and identifier.
type Opd struct {
	Idx  int
	Name string
}

// Ins is one instruction; Kind is 'a', 'd' or 's'.
type Ins struct {
	Kind byte
	Out  Opd
	X, Y Opd
	S    uint
}

// Prog is a program.
type Prog []Ins

// Inputs lists the input operands in Op.Inputs() order.
func (i Ins) Inputs() []Opd {
	if i.Kind == 'a' {
		return []Opd{i.X, i.Y}
	}
	return []Opd{i.X}
}

func encOpd(o Opd) string {
	s := strconv.Itoa(o.Idx)
	if o.Name != "" {
		s += "@" + lib.Bytes([]byte(o.Name))
	}
	return s
}

func decOpd(s string) Opd {
	f := strings.SplitN(s, "@", 2)
	o := Opd{Idx: lib.Atoi(f[0])}
	if len(f) == 2 {
		o.Name = string(lib.ParseBytes(f[1]))
	}
	return o
}

// Encode prints a program in the case-line encoding.
func Encode(p Prog) string {
	if len(p) == 0 {
		return "-"
	}
	ss := make([]string, len(p))
	for k, i := range p {
		switch i.Kind {
		case 'a':
			ss[k] = "a" + encOpd(i.Out) + ":" + encOpd(i.X) + "," + encOpd(i.Y)
		case 'd':
			ss[k] = "d" + encOpd(i.Out) + ":" + encOpd(i.X)
		case 's':
			ss[k] = "s" + encOpd(i.Out) + ":" + encOpd(i.X) + ":" + strconv.FormatUint(uint64(i.S), 10)
		}
	}
	return strings.Join(ss, ";")
}

// Decode parses the case-line encoding.
func Decode(s string) Prog {
	if s == "-" {
		return Prog{}
	}
	var p Prog
	for _, t := range strings.Split(s, ";") {
		f := strings.Split(t[1:], ":")
		i := Ins{Kind: t[0], Out: decOpd(f[0])}
		switch t[0] {
		case 'a':
			xy := strings.Split(f[1], ",")
			i.X, i.Y = decOpd(xy[0]), decOpd(xy[1])
		case 'd':
			i.X = decOpd(f[1])
		case 's':
			i.X = decOpd(f[1])
			n, err := strconv.ParseUint(f[2], 10, 64)
			if err != nil {
				panic("harness: bad shift " + t)
			}
			i.S = uint(n)
		default:
			panic("harness: bad instruction " + t)
		}
		p = append(p, i)
	}
	return p
}

// ToIR builds an ir.Program in which every operand occurrence is a fresh object.
func ToIR(p Prog) *ir.Program {
	r := &ir.Program{}
	for _, i := range p {
		inst := &ir.Instruction{Output: ir.NewOperand(i.Out.Name, i.Out.Idx)}
		switch i.Kind {
		case 'a':
			inst.Op = ir.Add{X: ir.NewOperand(i.X.Name, i.X.Idx), Y: ir.NewOperand(i.Y.Name, i.Y.Idx)}
		case 'd':
			inst.Op = ir.Double{X: ir.NewOperand(i.X.Name, i.X.Idx)}
		case 's':
			inst.Op = ir.Shift{X: ir.NewOperand(i.X.Name, i.X.Idx), S: i.S}
		}
		r.AddInstruction(inst)
	}
	return r
}

func fromOperand(o *ir.Operand) Opd { return Opd{Idx: o.Index, Name: o.Identifier} }

// FromIR reads the instructions of an ir.Program.
func FromIR(r *ir.Program) Prog {
	var p Prog
	for _, inst := range r.Instructions {
		i := Ins{Out: fromOperand(inst.Output)}
		switch op := inst.Op.(type) {
		case ir.Add:
			i.Kind, i.X, i.Y = 'a', fromOperand(op.X), fromOperand(op.Y)
		case ir.Double:
			i.Kind, i.X = 'd', fromOperand(op.X)
		case ir.Shift:
			i.Kind, i.X, i.S = 's', fromOperand(op.X), op.S
		default:
			panic("harness: unexpected op type")
		}
		p = append(p, i)
	}
	return p
}

// Strip removes all identifiers.
func Strip(p Prog) Prog {
	q := make(Prog, len(p))
	for k, i := range p {
		i.Out.Name, i.X.Name, i.Y.Name = "", "", ""
		q[k] = i
	}
	return q
}

func encNames(ns []string) string {
	if len(ns) == 0 {
		return "-"
	}
	ss := make([]string, len(ns))
	for i, n := range ns {
		ss[i] = lib.Bytes([]byte(n))
	}
	return strings.Join(ss, ",")
}

func decNames(s string) []string {
	if s == "-" {
		return nil
	}
	var ns []string
	for _, f := range strings.Split(s, ",") {
		ns = append(ns, string(lib.ParseBytes(f)))
	}
	return ns
}

// ---------------------------------------------------------------- configurations

// Cfg is an Allocator configuration.
type Cfg struct{ In, Out, Format string }

// GoodCfgs have pairwise distinct input/output/temporary names. The formats cover the modelled
// format language: every verb, zero and space padding, text after the verb, %%.
var GoodCfgs = []Cfg{
	{"x", "z", "t%d"},
	{"in", "out", "tmp%d"},
	{"a", "b", "%d"},
	{"t", "t_", "t%d"},
	{"Z", "A", "_%d"},
	{"x", "z", "t%02d"},
	{"in", "out", "r%v"},
	{"x", "z", "v%x"},
	{"x", "z", "%dk"},
	{"in", "out", "x%03b"},
	{"x", "z", "T%X_"},
	{"p", "q", "o%o"},
	{"x", "z", "t%3d"},
	{"x", "z", "%%%04x%%"},
}

// UnsupportedFormats are outside the modelled format language: both sides answer err badformat.
var UnsupportedFormats = []string{"t", "", "t%s", "t%d%d", "%", "t%", "t%+d", "t%-3d", "t%#x", "t%65d", "t% d", "%c", "t%q",
	"%5.2d", "%[1]d", "%*d", "t%0%d", "t%1%", "%e", "t%dx%v"}

// SupportedFormat says whether a format is in the modelled language: literal bytes, %% and exactly
// one directive % 0* [width <= 64, no leading zero] verb, verb one of d v x X o b.
func SupportedFormat(f string) bool {
	verbs := 0
	for i := 0; i < len(f); i++ {
		if f[i] != '%' {
			continue
		}
		i++
		if i < len(f) && f[i] == '%' {
			continue
		}
		for i < len(f) && f[i] == '0' {
			i++
		}
		w, nd := 0, 0
		for i < len(f) && f[i] >= '0' && f[i] <= '9' {
			w = w*10 + int(f[i]-'0')
			nd++
			if w > 64 {
				return false
			}
			i++
		}
		if i >= len(f) || !strings.ContainsRune("dvxXob", rune(f[i])) {
			return false
		}
		verbs++
	}
	return verbs == 1
}

// BadCfgs violate distinctness or non-emptiness (compared with the model, outside the oracle).
var BadCfgs = []Cfg{
	{"t0", "z", "t%d"},
	{"x", "t0", "t%d"},
	{"x", "t1", "t%d"},
	{"x", "x", "t%d"},
	{"", "z", "t%d"},
	{"x", "", "t%d"},
	{"1", "0", "%d"},
}

// AllocCase builds an allocate case line.
func AllocCase(p Prog, c Cfg) string {
	return fmt.Sprintf("allocate %s %s %s %s", Encode(p), lib.Bytes([]byte(c.In)), lib.Bytes([]byte(c.Out)), lib.Bytes([]byte(c.Format)))
}

// InterpCase builds an interp case line.
func InterpCase(p Prog, in, out string, aliased bool, x *big.Int) string {
	mode := "separate"
	if aliased {
		mode = "aliased"
	}
	return fmt.Sprintf("interp %s %s %s %s %s", Encode(p), lib.Bytes([]byte(in)), lib.Bytes([]byte(out)), mode, lib.Hex(x))
}

// ---------------------------------------------------------------- running the implementation

func allocErrClass(err error) string {
	m := err.Error()
	switch {
	case strings.Contains(m, "without instructions"):
		return "empty"
	case strings.Contains(m, "identifier conflict"):
		return "conflict"
	}
	return "other"
}

func interpErrClass(err error) string {
	m := err.Error()
	switch {
	case strings.Contains(m, "missing identifier"):
		return "missing"
	case strings.Contains(m, "is not defined"):
		return "undefined"
	}
	return "other"
}

// Allocate runs pass.Allocator on a fresh program built from p.
func Allocate(p Prog, c Cfg) (Prog, []string, error) {
	r := ToIR(p)
	a := pass.Allocator{Input: c.In, Output: c.Out, Format: c.Format}
	if err := a.Execute(r); err != nil {
		return nil, nil, err
	}
	return FromIR(r), r.Temporaries, nil
}

func optHex(x *big.Int, ok bool) string {
	if !ok {
		return "undef"
	}
	return lib.Hex(x)
}

// Run executes a case line against the implementation.
func Run(c string) string {
	f := strings.Split(c, " ")
	switch f[0] {
	case "allocate":
		p := Decode(f[1])
		cfg := Cfg{string(lib.ParseBytes(f[2])), string(lib.ParseBytes(f[3])), string(lib.ParseBytes(f[4]))}
		if !SupportedFormat(cfg.Format) {
			return "err badformat"
		}
		q, temps, err := Allocate(p, cfg)
		if err != nil {
			return "err " + allocErrClass(err)
		}
		return "ok " + Encode(q) + " " + encNames(temps)
	case "interp":
		p := Decode(f[1])
		in, out := string(lib.ParseBytes(f[2])), string(lib.ParseBytes(f[3]))
		x := lib.ParseHex(f[5])
		it := eval.NewInterpreter()
		it.Store(in, x)
		if f[4] == "aliased" {
			it.Store(out, x)
		}
		if err := it.Execute(ToIR(p)); err != nil {
			return "err " + interpErrClass(err)
		}
		ov, ook := it.Load(out)
		iv, iok := it.Load(in)
		// the state, by name: every name that can be defined is an output name, in or out
		names := map[string]bool{in: true, out: true}
		for _, i := range p {
			names[i.Out.Name] = true
			for _, o := range i.Inputs() {
				names[o.Name] = true
			}
		}
		var keys []string
		for n := range names {
			if _, ok := it.Load(n); ok {
				keys = append(keys, n)
			}
		}
		sort.Strings(keys)
		es := make([]string, len(keys))
		for k, n := range keys {
			v, _ := it.Load(n)
			es[k] = lib.Bytes([]byte(n)) + ":" + lib.Hex(v)
		}
		st := "-"
		if len(es) > 0 {
			st = strings.Join(es, ",")
		}
		return "ok " + optHex(ov, ook) + " " + optHex(iv, iok) + " " + st
	case "history":
		return runHistory(f)
	case "multi":
		return runMulti(f)
	case "salloc":
		return runSalloc(f)
	}
	panic("unknown case " + c)
}

func encCfg(c Cfg) string {
	return lib.Bytes([]byte(c.In)) + "," + lib.Bytes([]byte(c.Out)) + "," + lib.Bytes([]byte(c.Format))
}

func decCfg(s string) Cfg {
	f := strings.Split(s, ",")
	return Cfg{string(lib.ParseBytes(f[0])), string(lib.ParseBytes(f[1])), string(lib.ParseBytes(f[2]))}
}

// HistoryCase builds a history case line: ops over i (Indexes on the original), r (ReadCounts on
// the original), a (Allocator A on the original), c (clone the latest clone, or the original),
// b (Allocator B on the latest clone), x (Allocator B on the original), y (Allocator A on the latest clone).
func HistoryCase(p Prog, a, b Cfg, ops []string) string {
	return fmt.Sprintf("history %s %s %s %s", Encode(Strip(p)), encCfg(a), encCfg(b), strings.Join(ops, ","))
}

func interpOut(r *ir.Program, c Cfg, aliased bool) string {
	it := eval.NewInterpreter()
	x := big.NewInt(1)
	it.Store(c.In, x)
	if aliased {
		it.Store(c.Out, x)
	}
	if err := it.Execute(r); err != nil {
		return "err:" + interpErrClass(err)
	}
	v, ok := it.Load(c.Out)
	return optHex(v, ok)
}

// replayHistory runs the operations on a fresh program object. after is called after every
// allocation with the object allocated, its configuration, and whether it is the original.
// Returns the original, the latest clone, the configuration last applied to the clone, the first error.
func replayHistory(p Prog, ca, cb Cfg, ops string, after func(obj *ir.Program, c Cfg, isOrig bool) string) (*ir.Program, *ir.Program, Cfg, string, error) {
	orig := ToIR(p)
	var clone *ir.Program
	var cc Cfg
	alloc := func(obj *ir.Program, c Cfg, isOrig bool) (string, error) {
		if err := (pass.Allocator{Input: c.In, Output: c.Out, Format: c.Format}).Execute(obj); err != nil {
			return "", err
		}
		if after != nil {
			return after(obj, c, isOrig), nil
		}
		return "", nil
	}
	for _, op := range strings.Split(ops, ",") {
		var err error
		msg := ""
		switch op {
		case "i":
			err = pass.Indexes(orig)
		case "r":
			err = pass.ReadCounts(orig)
		case "a":
			msg, err = alloc(orig, ca, true)
		case "x":
			msg, err = alloc(orig, cb, true)
		case "c":
			if clone == nil {
				clone = orig.Clone()
			} else {
				clone = clone.Clone()
			}
		case "b":
			cc = cb
			msg, err = alloc(clone, cb, false)
		case "y":
			cc = ca
			msg, err = alloc(clone, ca, false)
		default:
			panic("harness: bad history op " + op)
		}
		if err != nil {
			return orig, clone, cc, "", err
		}
		if msg != "" {
			return orig, clone, cc, "after " + op + ": " + msg, nil
		}
	}
	return orig, clone, cc, "", nil
}

func runHistory(f []string) string {
	p := Decode(f[1])
	orig, clone, cc, _, err := replayHistory(p, decCfg(f[2]), decCfg(f[3]), f[4], nil)
	if err != nil {
		return "err " + allocErrClass(err)
	}
	return "ok " + Encode(FromIR(clone)) + " " + encNames(clone.Temporaries) + " " +
		Encode(FromIR(orig)) + " " + encNames(orig.Temporaries) + " " +
		interpOut(clone, cc, false) + " " + interpOut(clone, cc, true)
}

// CheckHistory: after every allocation the allocated object satisfies the whole of C05 and the
// C17 bound for the configuration just applied (nothing left over from earlier runs on it or on
// the object it was cloned from); at the end the original is what the last configuration applied
// to it makes of a fresh copy (or untouched), and so is the clone.
func CheckHistory(c, res string) string {
	if strings.HasPrefix(res, "panic") {
		return "history panicked: " + res
	}
	f := strings.Split(c, " ")
	p := Decode(f[1])
	ca, cb := decCfg(f[2]), decCfg(f[3])
	if len(p) == 0 {
		if res != "err empty" {
			return "program without instructions must be refused, got " + res
		}
		return ""
	}
	if !strings.HasPrefix(res, "ok ") {
		return "history on a non-empty unnamed program failed: " + res
	}
	g := strings.Split(res, " ")
	// replay, judging every allocation as a fresh one
	_, _, cc, msg, err := replayHistory(p, ca, cb, f[4], func(obj *ir.Program, c Cfg, isOrig bool) string {
		return CheckAllocation(AllocCase(p, c), "ok "+Encode(FromIR(obj))+" "+encNames(obj.Temporaries), true)
	})
	if err != nil {
		return "replay failed: " + err.Error()
	}
	if msg != "" {
		return msg
	}
	// final states against fresh allocations under the last configuration applied
	fresh := func(c Cfg) (string, string) {
		q, temps, err := Allocate(Strip(p), c)
		if err != nil {
			return "error", err.Error()
		}
		return Encode(q), encNames(temps)
	}
	if w, wt := fresh(cc); g[1] != w || g[2] != wt {
		return "the clone is not the fresh allocation under the configuration last applied to it: " + g[1] + " " + g[2]
	}
	want, wantTemps := Encode(Strip(p)), "-"
	for _, op := range strings.Split(f[4], ",") {
		if op == "a" || op == "x" {
			if op == "a" {
				want, wantTemps = fresh(ca)
			} else {
				want, wantTemps = fresh(cb)
			}
		}
	}
	if g[3] != want || g[4] != wantTemps {
		return "the original program is not what its own operations make of it: " + g[3] + " " + g[4]
	}
	distinct := cc.In != "" && cc.Out != "" && cc.In != cc.Out
	for _, t := range decNames(g[2]) {
		if t == cc.In || t == cc.Out {
			distinct = false
		}
	}
	if WellFormed(p) && distinct {
		wantv := lib.Hex(ChainValues(p, big.NewInt(1))[p[len(p)-1].Out.Idx])
		if g[5] != wantv || g[6] != wantv {
			return fmt.Sprintf("interpreter on the clone: %s / %s, last chain element %s", g[5], g[6], wantv)
		}
	}
	return ""
}

// ---------------------------------------------------------------- several programs from the real producers

// Source says how a program object is produced: by acc.Decompile of an op list or by
// parse + acc.Translate of a script.
type Source struct {
	Ops    addchain.Program
	Script string
}

func (s Source) encode() string {
	if s.Script != "" {
		return "s" + lib.Bytes([]byte(s.Script))
	}
	ss := make([]string, len(s.Ops))
	for k, op := range s.Ops {
		ss[k] = fmt.Sprintf("%d+%d", op.I, op.J)
	}
	return "o" + strings.Join(ss, ",")
}

func decodeSource(t string) Source {
	if t[0] == 's' {
		return Source{Script: string(lib.ParseBytes(t[1:]))}
	}
	var ops addchain.Program
	for _, f := range strings.Split(t[1:], ",") {
		ij := strings.Split(f, "+")
		ops = append(ops, addchain.Op{I: lib.Atoi(ij[0]), J: lib.Atoi(ij[1])})
	}
	return Source{Ops: ops}
}

// Produce builds the program object with the real producer.
func (s Source) Produce() (*ir.Program, bool) {
	if s.Script != "" {
		ch, err := parse.String(s.Script)
		if err != nil {
			return nil, false
		}
		r, err := acc.Translate(ch)
		return r, err == nil
	}
	r, err := acc.Decompile(s.Ops)
	return r, err == nil
}

// Event: the allocator with configuration C runs on program K.
type Event struct{ K, C int }

// MultiCase builds a multi case line; ok is false when a producer refuses its source.
func MultiCase(srcs []Source, cfgs []Cfg, evs []Event) (string, bool) {
	ss, irs, cs, es := []string{}, []string{}, []string{}, []string{}
	for _, s := range srcs {
		r, ok := s.Produce()
		if !ok || len(r.Instructions) == 0 {
			return "", false
		}
		ss = append(ss, s.encode())
		irs = append(irs, Encode(FromIR(r)))
	}
	for _, c := range cfgs {
		cs = append(cs, encCfg(c))
	}
	for _, e := range evs {
		es = append(es, fmt.Sprintf("%d:%d", e.K, e.C))
	}
	return "multi " + strings.Join(ss, "|") + " " + strings.Join(irs, "|") + " " + strings.Join(cs, "|") + " " + strings.Join(es, ","), true
}

type multiCase struct {
	srcs []Source
	irs  []Prog
	cfgs []Cfg
	evs  []Event
}

func parseMulti(f []string) multiCase {
	var m multiCase
	for _, t := range strings.Split(f[1], "|") {
		m.srcs = append(m.srcs, decodeSource(t))
	}
	for _, t := range strings.Split(f[2], "|") {
		m.irs = append(m.irs, Decode(t))
	}
	for _, t := range strings.Split(f[3], "|") {
		m.cfgs = append(m.cfgs, decCfg(t))
	}
	for _, t := range strings.Split(f[4], ",") {
		kc := strings.Split(t, ":")
		m.evs = append(m.evs, Event{lib.Atoi(kc[0]), lib.Atoi(kc[1])})
	}
	return m
}

func runMulti(f []string) string {
	m := parseMulti(f)
	progs := make([]*ir.Program, len(m.srcs))
	for k, s := range m.srcs {
		r, ok := s.Produce()
		if !ok || Encode(FromIR(r)) != Encode(m.irs[k]) {
			return "err producer"
		}
		progs[k] = r
	}
	last := make([]int, len(progs))
	for k := range last {
		last[k] = -1
	}
	for _, e := range m.evs {
		c := m.cfgs[e.C]
		if err := (pass.Allocator{Input: c.In, Output: c.Out, Format: c.Format}).Execute(progs[e.K]); err != nil {
			return "err " + allocErrClass(err)
		}
		last[e.K] = e.C
	}
	// every program re-examined after all allocations
	out := make([]string, len(progs))
	for k, r := range progs {
		if last[k] < 0 {
			panic("harness: multi case leaves a program unallocated")
		}
		c := m.cfgs[last[k]]
		out[k] = Encode(FromIR(r)) + "~" + encNames(r.Temporaries) + "~" + interpOut(r, c, false) + "~" + interpOut(r, c, true)
	}
	return "ok " + strings.Join(out, "|")
}

// CheckMulti: at the end every program still satisfies the whole of C05 (and the C17 bound) for the
// configuration last applied to it, whatever was allocated afterwards.
func CheckMulti(c, res string) string {
	if strings.HasPrefix(res, "panic") {
		return "multi panicked: " + res
	}
	f := strings.Split(c, " ")
	m := parseMulti(f)
	last := make([]int, len(m.irs))
	for _, e := range m.evs {
		last[e.K] = e.C
	}
	named := true
	for _, p := range m.irs {
		named = named && ConsistentNames(p)
	}
	if !strings.HasPrefix(res, "ok ") {
		if named {
			return "allocation of produced programs failed: " + res
		}
		return ""
	}
	parts := strings.Split(strings.TrimPrefix(res, "ok "), "|")
	if len(parts) != len(m.irs) {
		return "wrong number of programs in the result"
	}
	for k, part := range parts {
		g := strings.Split(part, "~")
		cfg := m.cfgs[last[k]]
		p := m.irs[k]
		if msg := CheckAllocation(AllocCase(p, cfg), "ok "+g[0]+" "+g[1], true); msg != "" {
			return fmt.Sprintf("program %d at the end: %s", k, msg)
		}
		distinct := cfg.In != "" && cfg.Out != "" && cfg.In != cfg.Out
		for _, t := range decNames(g[1]) {
			if t == cfg.In || t == cfg.Out {
				distinct = false
			}
		}
		if WellFormed(p) && ConsistentNames(p) && distinct {
			wantv := lib.Hex(ChainValues(p, big.NewInt(1))[p[len(p)-1].Out.Idx])
			if g[2] != wantv || g[3] != wantv {
				return fmt.Sprintf("program %d at the end: interpreter %s / %s, last chain element %s", k, g[2], g[3], wantv)
			}
		}
	}
	return ""
}

// ---------------------------------------------------------------- scripts through the whole pipeline

// SallocCase builds a script-level case: parse, Translate, Allocator, interpreter.
func SallocCase(script string, c Cfg) string {
	return "salloc " + lib.Bytes([]byte(script)) + " " + encCfg(c)
}

func runSalloc(f []string) string {
	src := string(lib.ParseBytes(f[1]))
	cfg := decCfg(f[2])
	ch, err := parse.String(src)
	if err != nil {
		return "err parse"
	}
	r, err := acc.Translate(ch)
	if err != nil {
		return "err " + acclib.ErrClass(err)
	}
	if err := (pass.Allocator{Input: cfg.In, Output: cfg.Out, Format: cfg.Format}).Execute(r); err != nil {
		return "err " + allocErrClass(err)
	}
	return "ok " + Encode(FromIR(r)) + " " + encNames(r.Temporaries) + " " + interpOut(r, cfg, false) + " " + interpOut(r, cfg, true)
}

// bareOperand: the expression denotes an existing element through a fresh, unnamed operand object
// (a literal 1, an index [k], or one of those shifted by zero).
func bareOperand(e ast.Expr) bool {
	switch e := e.(type) {
	case ast.Operand:
		return true
	case ast.Shift:
		return e.S == 0 && bareOperand(e.X)
	}
	return false
}

// CheckSalloc: a script that loads (by the independent in-order semantics acclib.Interp), has at
// least one instruction, and in which no named statement binds a bare operand, must allocate without
// error and satisfy every clause of C05; the output variable must hold the last element the script
// computes. Scripts that bind a name to a bare operand create a second operand object for an
// existing element and may be refused with an identifier conflict: left to the correspondence.
func CheckSalloc(c, res string) string {
	if strings.HasPrefix(res, "panic") {
		return "pipeline panicked: " + res
	}
	f := strings.Split(c, " ")
	src := string(lib.ParseBytes(f[1]))
	cfg := decCfg(f[2])
	ch, err := parse.String(src)
	if err != nil {
		return ""
	}
	vals, ops, reject := acclib.Interp(ch)
	if reject != "" || len(ops) == 0 {
		return ""
	}
	for _, st := range ch.Statements {
		if st.Name != "" && bareOperand(st.Expr) {
			return ""
		}
	}
	if !strings.HasPrefix(res, "ok ") {
		return "script without bare-operand bindings was not allocated: " + res
	}
	g := strings.Split(res, " ")
	q := Decode(g[1])
	p := Strip(q)
	if !WellFormed(p) {
		return "" // an index operand refers to an element no instruction outputs (inside a shift)
	}
	want := vals[len(vals)-1]
	if got := ChainValues(p, big.NewInt(1))[p[len(p)-1].Out.Idx]; got.Cmp(want) != 0 {
		return "translated program does not end in the last element the script computes"
	}
	if m := CheckAllocation(AllocCase(p, cfg), "ok "+g[1]+" "+g[2], true); m != "" {
		return m
	}
	distinct := cfg.In != "" && cfg.Out != "" && cfg.In != cfg.Out
	for _, t := range decNames(g[2]) {
		if t == cfg.In || t == cfg.Out {
			distinct = false
		}
	}
	if distinct && (g[3] != lib.Hex(want) || g[4] != lib.Hex(want)) {
		return fmt.Sprintf("interpreter: %s / %s, last element of the script %s", g[3], g[4], lib.Hex(want))
	}
	return ""
}

// AliasScripts are hand-written scripts around names bound to already named values.
var AliasScripts = []string{
	"a = 2*1\nb = a\nreturn b + 1\n",
	"a = 2*1\nb = a\nreturn a + b\n",
	"a = 2*1\nb = a\nc = b\nreturn c + a\n",
	"a = 2*1\nb = a\nc = a\nreturn b + c\n",
	"a = 1 + 1\nb = a\nc = 2*b\nd = c\nreturn d + a\n",
	"a = 2*1\nb = a\nreturn a + 1\n",
	"a = 2*1\nb = a\nc = b + 1\nreturn 2*c\n",
	"a = 2*1\nb = a << 0\nreturn b + 1\n",
	"a = 2*1\nb = (a << 0) << 0\nreturn b + a\n",
	"a = 1 << 3\nb = a\nreturn b + 1\n",
	"a = 2*1\nb = a\nreturn b << 2\n",
	"a = 2*1\nb = a\nreturn b\n",
	"x = 2*1\nz = x\nt0 = z + 1\nreturn t0 + x\n",
	"in = 1 + 1\nout = in\nreturn out + in\n",
	"a = 2*1\nb = 2*a\nc = a\nd = b\nreturn (c + d) + (a + b)\n",
	"a = 2*1\nb = a + a\nreturn (b + a) + (a + b)\n",
	"a = 2*1\ndead = a + 1\nb = a\nreturn b + b\n",
	"a = 2*1\nb = a\nreturn [1] + b\n",
	"a = 1 + 1\nb = a + [1]\nc = b\nreturn c + [2]\n",
	"a = 2*1\nb = a\nc = [1]\nreturn c + b\n",
	// bindings of bare operands: a second operand object for an existing element (correspondence decides)
	"a = 1\nb = 1\nreturn a + b\n",
	"a = 1\nreturn a + a\n",
	"a = 1\nb = a\nreturn b + 1\n",
	"a = 2*1\nb = [1]\nreturn a + b\n",
	"a = 1 << 0\nb = 1 << 0\nreturn a + b\n",
	"a = 2*1\nb = [0]\nc = b\nreturn c + a\n",
	// errors
	"a = 2*1\na = a\nreturn a\n",
	"b = a\nreturn b\n",
	"return 1\n",
	"a = 2*1\nb = a\nreturn\n",
}

// RandomAliasScript: statements that compute, interleaved with aliases of earlier names, alias
// chains, aliases of a shift by zero, dead statements, names re-used in nested expressions.
func RandomAliasScript(r *lib.Rand, nstmt int) string {
	var b strings.Builder
	var names []string
	pick := func() string {
		if len(names) == 0 || r.Chance(1, 6) {
			return "1"
		}
		if r.Bool() {
			return names[len(names)-1]
		}
		return names[r.Intn(len(names))]
	}
	pool := []string{"a", "b", "c", "x", "z", "t0", "t1", "in", "out", "_1", "v"}
	n := 1
	for k := 0; k < nstmt; k++ {
		var e string
		switch {
		case len(names) > 0 && r.Chance(2, 5):
			e = names[r.Intn(len(names))] // alias
			if r.Chance(1, 4) {
				e = "(" + e + " << 0)"
			}
		default:
			switch r.Intn(5) {
			case 0:
				e = "2*" + pick()
				n++
			case 1:
				s := r.Range(1, 5)
				e = fmt.Sprintf("%s << %d", pick(), s)
				n += s
			case 2:
				e = fmt.Sprintf("(%s + %s) + %s", pick(), pick(), pick())
				n += 2
			case 3:
				if r.Chance(1, 3) {
					e = fmt.Sprintf("%s + [%d]", pick(), r.Intn(n))
				} else {
					e = pick() + " + " + pick()
				}
				n++
			default:
				e = fmt.Sprintf("2*(%s + %s)", pick(), pick())
				n += 2
			}
		}
		if k == nstmt-1 {
			if r.Chance(1, 3) {
				e = pick() + " + " + e
			}
			fmt.Fprintf(&b, "return %s\n", e)
		} else {
			nm := fmt.Sprintf("%s%d", pool[r.Intn(len(pool))], k)
			fmt.Fprintf(&b, "%s = %s\n", nm, e)
			names = append(names, nm)
		}
	}
	return b.String()
}

// Histories are the operation sequences of the history stream.
var Histories = [][]string{
	{"c", "b"}, {"i", "c", "b"}, {"r", "c", "b"}, {"a", "c", "b"}, {"i", "r", "a", "c", "b"},
	{"c", "c", "b"}, {"c", "b", "c", "b"}, {"a", "c", "b", "c", "b"}, {"c", "b", "a"}, {"i", "c", "b", "a"},
	{"c", "i", "b"}, {"c", "a", "b"}, {"a", "c", "c", "b"}, {"r", "c", "b", "i"},
	// the same object allocated several times, same and different configurations
	{"a", "a", "c", "b"}, {"a", "x", "c", "b"}, {"x", "a", "c", "y"}, {"c", "b", "b"}, {"c", "b", "y"}, {"c", "y", "b", "b"},
	{"a", "c", "a", "b"}, {"a", "c", "x", "b", "a"}, {"a", "a", "x", "c", "b", "c", "y", "b"}, {"c", "b", "a", "x", "a"},
	{"i", "a", "r", "a", "c", "c", "b", "y"}, {"a", "c", "y", "x"},
}

// ---------------------------------------------------------------- neighbourhoods (hunt mode)

// Perturb returns a program near p: one operand index or one shift amount changed, an instruction
// made dead, or a value kept alive longer.
func Perturb(r *lib.Rand, p Prog) Prog {
	q := append(Prog{}, p...)
	if len(q) == 0 {
		return Prog{Ins{Kind: 'd', Out: Opd{Idx: 1}, X: Opd{Idx: 0}}}
	}
	earlier := func(t int) int { // 0 or the output of an instruction before t
		if t == 0 || r.Chance(1, 4) {
			return 0
		}
		return q[r.Intn(t)].Out.Idx
	}
	t := r.Intn(len(q))
	switch r.Intn(6) {
	case 0: // one operand index
		if q[t].Kind == 'a' && r.Bool() {
			q[t].Y.Idx = earlier(t)
		} else {
			q[t].X.Idx = earlier(t)
		}
	case 1: // one shift amount (or a double turned into a shift)
		if q[t].Kind == 's' {
			q[t].S = uint(r.Range(1, int(q[t].S)+3))
		} else if q[t].Kind == 'd' {
			q[t].Kind, q[t].S = 's', uint(r.Range(2, 5))
		} else {
			q[t].Y.Idx = q[t].X.Idx
		}
	case 2: // make instruction t dead: its readers read element 0 instead
		for u := t + 1; u < len(q); u++ {
			if q[u].X.Idx == q[t].Out.Idx {
				q[u].X.Idx = 0
			}
			if q[u].Kind == 'a' && q[u].Y.Idx == q[t].Out.Idx {
				q[u].Y.Idx = 0
			}
		}
	case 3: // keep the value of instruction t alive until the end
		last := len(q) - 1
		if q[last].Kind == 'a' && t < last {
			q[last].Y.Idx = q[t].Out.Idx
		} else {
			n := q[last].Out.Idx + 1
			q = append(q, Ins{Kind: 'a', Out: Opd{Idx: n}, X: Opd{Idx: q[last].Out.Idx}, Y: Opd{Idx: q[t].Out.Idx}})
		}
	case 4: // drop the last instruction
		if len(q) > 1 {
			q = q[:len(q)-1]
		}
	case 5: // one more reader of the input at the end
		last := q[len(q)-1].Out.Idx
		q = append(q, Ins{Kind: 'a', Out: Opd{Idx: last + 1}, X: Opd{Idx: last}, Y: Opd{Idx: 0}})
	}
	return q
}

// Neighbours emits cases near c: the same function and configuration on a perturbed program.
func Neighbours(c string, r *lib.Rand, emit func(string)) {
	f := strings.Split(c, " ")
	if len(f) < 2 {
		return
	}
	p := Decode(f[1])
	for k := 0; k < 6; k++ {
		q := Perturb(r, p)
		if r.Bool() {
			q = Perturb(r, q)
		}
		g := append([]string{}, f...)
		switch f[0] {
		case "allocate", "interp":
			g[1] = Encode(q)
			emit(strings.Join(g, " "))
		case "multi":
			// same programs, another order of the same events
			evs := strings.Split(f[4], ",")
			i, j := r.Intn(len(evs)), r.Intn(len(evs))
			evs[i], evs[j] = evs[j], evs[i]
			g[4] = strings.Join(evs, ",")
			emit(strings.Join(g, " "))
		case "history":
			g[1] = Encode(Strip(q))
			emit(strings.Join(g, " "))
			g[4] = strings.Join(Histories[r.Intn(len(Histories))], ",")
			emit(strings.Join(g, " "))
		}
	}
}

// ---------------------------------------------------------------- independent definitions (oracle)

// WellFormed: outputs strictly increasing starting at >= 1; every input is 0 or an earlier output.
func WellFormed(p Prog) bool {
	defined := map[int]bool{0: true}
	last := 0
	for _, i := range p {
		for _, o := range i.Inputs() {
			if !defined[o.Idx] {
				return false
			}
		}
		if i.Out.Idx <= last {
			return false
		}
		last = i.Out.Idx
		defined[last] = true
	}
	return true
}

// ConsistentNames: no index carries two different non-empty identifiers.
func ConsistentNames(p Prog) bool {
	nm := map[int]string{}
	ok := true
	see := func(o Opd) {
		if o.Name == "" {
			return
		}
		if prev, found := nm[o.Idx]; found && prev != o.Name {
			ok = false
		}
		nm[o.Idx] = o.Name
	}
	for _, i := range p {
		for _, o := range i.Inputs() {
			see(o)
		}
		see(i.Out)
	}
	return ok
}

// LiveAt returns, for every point t in 0..len(p) (t = before instruction t, len(p) = at the end),
// the set of element indexes that are live: defined before t and read at or after t, or the final output.
func LiveAt(p Prog) []map[int]bool {
	n := len(p)
	live := make([]map[int]bool, n+1)
	cur := map[int]bool{}
	if n > 0 {
		cur[p[n-1].Out.Idx] = true
	}
	copySet := func(s map[int]bool) map[int]bool {
		c := map[int]bool{}
		for k := range s {
			c[k] = true
		}
		return c
	}
	live[n] = copySet(cur)
	for t := n - 1; t >= 0; t-- {
		delete(cur, p[t].Out.Idx)
		for _, o := range p[t].Inputs() {
			cur[o.Idx] = true
		}
		live[t] = copySet(cur)
	}
	return live
}

// PeakLive is the largest number of simultaneously live elements.
func PeakLive(p Prog) int {
	m := 0
	for _, s := range LiveAt(p) {
		if len(s) > m {
			m = len(s)
		}
	}
	return m
}

// NoDeadValues: every output except the last one is read by a later instruction.
func NoDeadValues(p Prog) bool {
	for t := 0; t+1 < len(p); t++ {
		used := false
		for _, j := range p[t+1:] {
			for _, o := range j.Inputs() {
				if o.Idx == p[t].Out.Idx {
					used = true
				}
			}
		}
		if !used {
			return false
		}
	}
	return true
}

// ChainValues evaluates a well-formed program by index with element 0 = x.
func ChainValues(p Prog, x *big.Int) map[int]*big.Int {
	v := map[int]*big.Int{0: new(big.Int).Set(x)}
	for _, i := range p {
		switch i.Kind {
		case 'a':
			v[i.Out.Idx] = new(big.Int).Add(v[i.X.Idx], v[i.Y.Idx])
		case 'd':
			v[i.Out.Idx] = new(big.Int).Mul(v[i.X.Idx], big.NewInt(2))
		case 's':
			v[i.Out.Idx] = new(big.Int).Mul(v[i.X.Idx], new(big.Int).Exp(big.NewInt(2), new(big.Int).SetUint64(uint64(i.S)), nil))
		}
	}
	return v
}

// Reg is a register of the oracle's machine.
type Reg struct {
	V      *big.Int
	Writes int
}

// Machine runs p on registers keyed by name: the output register is found or created first,
// then the operands are read (error for "" or an undefined name), then the result is written.
// In aliased mode the names in and out denote the same register.
func Machine(p Prog, in, out string, aliased bool, x *big.Int) (map[string]*Reg, string) {
	regs := map[string]*Reg{}
	r0 := &Reg{V: new(big.Int).Set(x)}
	regs[in] = r0
	if aliased {
		regs[out] = r0
	}
	for _, i := range p {
		dst, ok := regs[i.Out.Name]
		if !ok {
			dst = &Reg{V: new(big.Int)}
			regs[i.Out.Name] = dst
		}
		var vals []*big.Int
		for _, o := range i.Inputs() {
			if o.Name == "" {
				return regs, "missing"
			}
			r, ok := regs[o.Name]
			if !ok {
				return regs, "undefined"
			}
			vals = append(vals, r.V)
		}
		var res *big.Int
		switch i.Kind {
		case 'a':
			res = new(big.Int).Add(vals[0], vals[1])
		case 'd':
			res = new(big.Int).Add(vals[0], vals[0])
		case 's':
			res = new(big.Int).Mul(vals[0], new(big.Int).Exp(big.NewInt(2), new(big.Int).SetUint64(uint64(i.S)), nil))
		}
		dst.V = res
		dst.Writes++
	}
	return regs, ""
}

// ParseAllocResult splits "ok <IR> <temps>".
func ParseAllocResult(res string) (Prog, []string) {
	f := strings.Split(res, " ")
	return Decode(f[1]), decNames(f[2])
}

// CheckAllocation states C05 (and, with c17 set, C17) on one allocate case and its result.
// Returns "" when the property holds or does not apply.
func CheckAllocation(c, res string, c17 bool) string {
	if strings.HasPrefix(res, "panic") {
		return "allocator panicked: " + res
	}
	f := strings.Split(c, " ")
	p := Decode(f[1])
	cfg := Cfg{string(lib.ParseBytes(f[2])), string(lib.ParseBytes(f[3])), string(lib.ParseBytes(f[4]))}
	if res == "err badformat" {
		return ""
	}
	if len(p) == 0 {
		if res != "err empty" {
			return "program without instructions must be refused, got " + res
		}
		return ""
	}
	if !WellFormed(p) || !ConsistentNames(p) || cfg.In == "" || cfg.Out == "" || cfg.In == cfg.Out {
		return ""
	}
	if !strings.HasPrefix(res, "ok ") {
		return "well-formed program not allocated: " + res
	}
	q, temps := ParseAllocResult(res)
	for _, t := range temps {
		if t == cfg.In || t == cfg.Out {
			return "" // configuration without pairwise distinct names
		}
	}
	// same instructions, only identifiers changed
	if len(q) != len(p) {
		return "instruction count changed"
	}
	name := map[int]string{}
	check := func(a, b Opd) string {
		if a.Idx != b.Idx {
			return "operand index changed"
		}
		if b.Name == "" {
			return fmt.Sprintf("operand %d has no name", b.Idx)
		}
		if n, ok := name[b.Idx]; ok && n != b.Name {
			return fmt.Sprintf("operand %d named %q and %q", b.Idx, n, b.Name)
		}
		name[b.Idx] = b.Name
		return ""
	}
	for t := range p {
		if p[t].Kind != q[t].Kind || p[t].S != q[t].S {
			return "instruction changed"
		}
		if m := check(p[t].Out, q[t].Out); m != "" {
			return m
		}
		pi, qi := p[t].Inputs(), q[t].Inputs()
		for k := range pi {
			if m := check(pi[k], qi[k]); m != "" {
				return m
			}
		}
	}
	// the input name denotes element 0 only, and is never written
	for idx, n := range name {
		if (idx == 0) != (n == cfg.In) {
			return fmt.Sprintf("element %d is named %q (input name %q)", idx, n, cfg.In)
		}
	}
	if name[q[len(q)-1].Out.Idx] != cfg.Out {
		return "the last output is not in the output variable"
	}
	// simultaneously live elements are in different variables; an instruction's output
	// shares its variable with nothing that is live after the instruction
	live := LiveAt(p)
	for t := 0; t <= len(p); t++ {
		seen := map[string]int{}
		for k := range live[t] {
			if j, dup := seen[name[k]]; dup {
				return fmt.Sprintf("elements %d and %d are live before instruction %d and share variable %q", j, k, t, name[k])
			}
			seen[name[k]] = k
		}
		if t > 0 {
			o := p[t-1].Out.Idx
			if j, dup := seen[name[o]]; dup && j != o {
				return fmt.Sprintf("instruction %d writes %q which holds live element %d", t-1, name[o], j)
			}
		}
	}
	// aliasing rule: input and output variable are never live together
	for t := 0; t <= len(p); t++ {
		hasIn, hasOut := false, false
		for k := range live[t] {
			hasIn = hasIn || name[k] == cfg.In
			hasOut = hasOut || name[k] == cfg.Out
		}
		if hasIn && hasOut {
			return fmt.Sprintf("input and output variables both live before instruction %d", t)
		}
	}
	// temporaries = names used other than input and output, no duplicates
	used := map[string]bool{}
	for _, n := range name {
		if n != cfg.In && n != cfg.Out {
			used[n] = true
		}
	}
	tset := map[string]bool{}
	for _, t := range temps {
		if tset[t] {
			return "duplicate temporary " + t
		}
		tset[t] = true
		if !used[t] {
			return "declared temporary " + t + " is not used"
		}
	}
	for n := range used {
		if !tset[n] {
			return "used name " + n + " is not declared as temporary"
		}
	}
	// execution on the oracle's machine and on the real interpreter, both modes
	for _, x := range []*big.Int{big.NewInt(1), big.NewInt(0x1234567)} {
		cv := ChainValues(p, x)
		want := cv[p[len(p)-1].Out.Idx]
		for _, aliased := range []bool{false, true} {
			regs, e := Machine(q, cfg.In, cfg.Out, aliased, x)
			if e != "" {
				return "oracle machine: operand " + e
			}
			if regs[cfg.Out] == nil || regs[cfg.Out].V.Cmp(want) != 0 {
				return fmt.Sprintf("aliased=%v: output variable does not hold the last chain element", aliased)
			}
			if !aliased && (regs[cfg.In].Writes != 0 || regs[cfg.In].V.Cmp(x) != 0) {
				return "input variable written"
			}
			it := eval.NewInterpreter()
			xx := new(big.Int).Set(x)
			it.Store(cfg.In, xx)
			if aliased {
				it.Store(cfg.Out, xx)
			}
			if err := it.Execute(ToIR(q)); err != nil {
				return "interpreter: " + interpErrClass(err)
			}
			got, ok := it.Load(cfg.Out)
			if !ok || got.Cmp(want) != 0 {
				return fmt.Sprintf("aliased=%v: interpreter output is not the last chain element", aliased)
			}
			if iv, _ := it.Load(cfg.In); !aliased && iv.Cmp(x) != 0 {
				return "interpreter: input variable changed"
			}
		}
	}
	if c17 && NoDeadValues(p) {
		if pk := PeakLive(p); len(temps) > pk {
			return fmt.Sprintf("%d temporaries for peak liveness %d", len(temps), pk)
		}
	}
	return ""
}

// CheckInterp compares an interp result with the oracle's machine.
func CheckInterp(c, res string) string {
	if strings.HasPrefix(res, "panic") {
		return "interpreter panicked: " + res
	}
	f := strings.Split(c, " ")
	p := Decode(f[1])
	in, out := string(lib.ParseBytes(f[2])), string(lib.ParseBytes(f[3]))
	x := lib.ParseHex(f[5])
	x0 := new(big.Int).Set(x)
	regs, e := Machine(p, in, out, f[4] == "aliased", x)
	if x.Cmp(x0) != 0 {
		return "oracle modified x"
	}
	if e != "" {
		if res != "err "+e {
			return "expected err " + e + ", got " + res
		}
		return ""
	}
	g := strings.Split(res, " ")
	if g[0] != "ok" {
		return "expected a result, got " + res
	}
	val := func(n string) string {
		if r, ok := regs[n]; ok {
			return lib.Hex(r.V)
		}
		return "undef"
	}
	if g[1] != val(out) || g[2] != val(in) {
		return fmt.Sprintf("output/input values %s %s, oracle machine %s %s", g[1], g[2], val(out), val(in))
	}
	var keys []string
	for n := range regs {
		keys = append(keys, n)
	}
	sort.Strings(keys)
	es := []string{}
	for _, n := range keys {
		es = append(es, lib.Bytes([]byte(n))+":"+lib.Hex(regs[n].V))
	}
	if strings.Join(es, ",") != g[3] {
		return "register state differs from the oracle machine"
	}
	return ""
}

// ---------------------------------------------------------------- generators

// OpLists enumerates all op lists of the given length (op k adds positions i <= j <= k).
func OpLists(n int, f func(addchain.Program)) {
	cur := make(addchain.Program, 0, n)
	var rec func()
	rec = func() {
		if len(cur) == n {
			f(append(addchain.Program{}, cur...))
			return
		}
		k := len(cur)
		for j := 0; j <= k; j++ {
			for i := 0; i <= j; i++ {
				cur = append(cur, addchain.Op{I: i, J: j})
				rec()
				cur = cur[:len(cur)-1]
			}
		}
	}
	rec()
}

// Decompiled returns the IR of an op list via acc.Decompile.
func Decompiled(ops addchain.Program) Prog {
	r, err := acc.Decompile(ops)
	if err != nil {
		panic(err)
	}
	return FromIR(r)
}

// RandomProgram builds a well-formed program of n instructions. dead is the probability (in
// percent) that an instruction does not read the previous output.
func RandomProgram(r *lib.Rand, n, dead int) Prog {
	var p Prog
	outs := []int{0}
	next := 1
	pick := func() int {
		// bias towards recent values and the input
		switch r.Intn(4) {
		case 0:
			return 0
		case 1:
			return outs[r.Intn(len(outs))]
		default:
			lo := len(outs) - 4
			if lo < 0 {
				lo = 0
			}
			return outs[r.Range(lo, len(outs)-1)]
		}
	}
	for k := 0; k < n; k++ {
		prev := outs[len(outs)-1]
		x := prev
		if r.Intn(100) < dead {
			x = pick()
		}
		var i Ins
		switch r.Intn(5) {
		case 0:
			i = Ins{Kind: 'd', X: Opd{Idx: x}}
			i.Out.Idx = next
			next++
		case 1:
			s := uint(r.Range(2, 9))
			if r.Chance(1, 10) {
				s = uint(r.Range(10, 70))
			}
			i = Ins{Kind: 's', X: Opd{Idx: x}, S: s}
			next += int(s)
			i.Out.Idx = next - 1
		default:
			y := pick()
			if r.Bool() {
				x, y = y, x
			}
			i = Ins{Kind: 'a', X: Opd{Idx: x}, Y: Opd{Idx: y}}
			i.Out.Idx = next
			next++
		}
		if r.Chance(1, 12) { // gaps in the index sequence are allowed
			next += r.Range(1, 3)
		}
		p = append(p, i)
		outs = append(outs, i.Out.Idx)
	}
	return p
}

// RandomScript writes an acc script with shifts, dead statements, copies, repeated operands,
// named aliases, index operands and nested expressions.
func RandomScript(r *lib.Rand, nstmt int) string {
	var b strings.Builder
	var names []string
	n := 1 // next element index, as Translate counts
	var expr func(depth int) string
	atom := func() string {
		switch {
		case len(names) > 0 && r.Chance(3, 5):
			if r.Bool() {
				return names[len(names)-1]
			}
			return names[r.Intn(len(names))]
		case n > 1 && r.Chance(1, 4):
			return fmt.Sprintf("[%d]", r.Intn(n))
		default:
			return "1"
		}
	}
	expr = func(depth int) string {
		if depth <= 0 {
			return atom()
		}
		switch r.Intn(6) {
		case 0:
			n++
			return "2*" + paren(expr(depth-1))
		case 1:
			s := r.Range(0, 6)
			e := paren(expr(depth - 1))
			n += s
			return fmt.Sprintf("%s << %d", e, s)
		case 2, 3:
			x := expr(depth - 1)
			y := expr(depth - 1)
			n++
			return paren(x) + " + " + paren(y)
		default:
			return atom()
		}
	}
	for k := 0; k < nstmt; k++ {
		e := expr(r.Range(0, 2))
		if k == nstmt-1 {
			fmt.Fprintf(&b, "return %s\n", e)
		} else {
			nm := fmt.Sprintf("v%d", k)
			fmt.Fprintf(&b, "%s = %s\n", nm, e)
			names = append(names, nm)
		}
	}
	return b.String()
}

func paren(e string) string {
	if strings.ContainsAny(e, " *") {
		return "(" + e + ")"
	}
	return e
}

// Translated parses and translates a script. The second result is the program as acc.Translate
// built it (operand objects shared), for the sharing self-check.
func Translated(script string) (Prog, *ir.Program, bool) {
	ch, err := parse.String(script)
	if err != nil {
		return nil, nil, false
	}
	r, err := acc.Translate(ch)
	if err != nil {
		return nil, nil, false
	}
	return FromIR(r), r, true
}

// SharingAgrees checks that allocating the program as built by Translate (shared operand
// objects) gives the same identifiers as allocating its value-level copy (fresh objects).
func SharingAgrees(shared *ir.Program, p Prog, c Cfg) bool {
	q, temps, err := Allocate(p, c)
	a := pass.Allocator{Input: c.In, Output: c.Out, Format: c.Format}
	err2 := a.Execute(shared)
	if (err == nil) != (err2 == nil) {
		return false
	}
	if err != nil {
		return allocErrClass(err) == allocErrClass(err2)
	}
	return Encode(q) == Encode(FromIR(shared)) && encNames(temps) == encNames(shared.Temporaries)
}

// IllFormed mutates a well-formed program into one that (usually) is not.
func IllFormed(r *lib.Rand, p Prog) Prog {
	q := append(Prog{}, p...)
	if len(q) == 0 {
		return q
	}
	for m := r.Range(1, 2); m > 0; m-- {
		t := r.Intn(len(q))
		i := q[t]
		switch r.Intn(9) {
		case 0: // dangling input: an index never produced
			i.X.Idx = q[len(q)-1].Out.Idx + r.Range(1, 3)
		case 1: // input defined later
			i.X.Idx = q[r.Range(t, len(q)-1)].Out.Idx
		case 2: // duplicate / non-increasing output
			i.Out.Idx = q[r.Intn(len(q))].Out.Idx
		case 3:
			i.Out.Idx = 0
		case 4:
			i.Out.Idx = -r.Range(1, 3)
		case 5:
			i.Y.Idx = -1
			i.X.Idx = -1
		case 6: // swap two instructions
			u := r.Intn(len(q))
			q[t], q[u] = q[u], q[t]
			continue
		case 7: // conflicting or partial names
			i.X.Name = []string{"p", "q", "x", "z", "t0"}[r.Intn(5)]
			if r.Bool() {
				i.Out.Name = []string{"p", "q", "x", "z", "t0"}[r.Intn(5)]
			}
		case 8:
			i.Out.Idx = i.X.Idx
		}
		q[t] = i
	}
	return q
}

// Rename gives operands arbitrary identifiers from a small pool (for interp cases).
func Rename(r *lib.Rand, p Prog, pool []string) Prog {
	q := append(Prog{}, p...)
	byIdx := map[int]string{}
	pickFor := func(idx int) string {
		if r.Chance(1, 8) {
			return pool[r.Intn(len(pool))]
		}
		if n, ok := byIdx[idx]; ok {
			return n
		}
		n := pool[r.Intn(len(pool))]
		byIdx[idx] = n
		return n
	}
	for t := range q {
		q[t].Out.Name = pickFor(q[t].Out.Idx)
		q[t].X.Name = pickFor(q[t].X.Idx)
		if q[t].Kind == 'a' {
			q[t].Y.Name = pickFor(q[t].Y.Idx)
		}
	}
	return q
}
