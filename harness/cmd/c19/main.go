// C19: multi-precision helper functions meet their arithmetic specifications.
package main

import (
	"fmt"
	"math/big"
	"sort"
	"strings"

	"github.com/mmcloughlin/addchain/verifhook"
	"verif/harness/lib"
)

var (
	hx  = lib.Hex
	phx = lib.ParseHex
)

func gen(tier string, r *lib.Rand, emit func(string)) {
	small, listlen, nrand := 12, 5, 300
	if tier == "thorough" {
		small, listlen, nrand = 24, 6, 6000
	}
	bounds := []int{0, 1, 2, 31, 32, 33, 63, 64, 65, 127, 128, 129, 200}
	// integers of interest
	xs := []*big.Int{}
	for _, v := range []int64{0, 1, 2, 3, 4, 5, 6, 7, 8, 15, 16, 17, 255, 256, -1, -2, -3, -4, -5, -8, -255, -256} {
		xs = append(xs, big.NewInt(v))
	}
	for _, k := range []uint{31, 32, 63, 64, 65, 127, 128, 129, 200, 599} {
		p := new(big.Int).Lsh(big.NewInt(1), k)
		xs = append(xs, p, new(big.Int).Sub(p, big.NewInt(1)), new(big.Int).Add(p, big.NewInt(1)), new(big.Int).Neg(p))
	}
	for i := 0; i < nrand; i++ {
		x := r.Bits(r.Range(1, 600))
		if r.Chance(1, 8) {
			x.Neg(x)
		}
		xs = append(xs, x)
	}
	// bit helpers
	for l := 0; l <= small; l++ {
		emit(fmt.Sprintf("pow2 %d", l))
		emit(fmt.Sprintf("ones %d", l))
		for h := 0; h <= small; h++ {
			emit(fmt.Sprintf("mask %d %d", l, h))
		}
	}
	for _, l := range bounds {
		emit(fmt.Sprintf("pow2 %d", l))
		emit(fmt.Sprintf("ones %d", l))
		for _, h := range bounds {
			emit(fmt.Sprintf("mask %d %d", l, h))
		}
	}
	for v := int64(-70); v <= 300; v++ {
		xs = append(xs, big.NewInt(v))
	}
	for _, x := range xs {
		emit("ispow2 " + hx(x))
		emit("pow2upto " + hx(x))
		emit("bitsset " + hx(x))
		emit("bytesle " + hx(x))
		if x.Sign() >= 0 {
			emit("uint64s " + hx(x))
		}
		y := xs[r.Intn(len(xs))]
		emit("minmax " + hx(x) + " " + hx(y))
		emit("minmax " + hx(x) + " " + hx(x))
		for k := 0; k < 3; k++ {
			l := r.Intn(x.BitLen() + 3)
			h := l + r.Intn(x.BitLen()+3)
			if r.Chance(1, 10) {
				l, h = h, l
			}
			emit(fmt.Sprintf("extract %s %d %d", hx(x), l, h))
		}
	}
	for v := int64(0); v < 64; v++ {
		for l := 0; l <= 7; l++ {
			for h := l; h <= 7; h++ {
				emit(fmt.Sprintf("extract %x %d %d", v, l, h))
			}
		}
	}
	// hex / binary literals
	lits := []string{"", "_", "0", "1f", "1F", "dead_beef", "_a_", "__", "-1", "+1", "-", "+", "0x1f", "g", "1 ", " 1", "12", "102", "-0", "0_0", "1_0_1", "é", "1\x00", "٣"}
	alpha := "0123456789abcdefABCDEF_"
	for i := 0; i < nrand; i++ {
		n := r.Range(1, 40)
		var b strings.Builder
		for j := 0; j < n; j++ {
			if r.Chance(1, 60) {
				b.WriteByte("gG xz-+.\n"[r.Intn(9)])
			} else {
				b.WriteByte(alpha[r.Intn(len(alpha))])
			}
		}
		lits = append(lits, b.String())
		var c strings.Builder
		for j := 0; j < n; j++ {
			if r.Chance(1, 60) {
				c.WriteByte("2a -+"[r.Intn(5)])
			} else {
				c.WriteByte("01_"[r.Intn(3)])
			}
		}
		lits = append(lits, c.String())
	}
	for _, s := range lits {
		emit("hex " + lib.Bytes([]byte(s)))
		emit("binary " + lib.Bytes([]byte(s)))
	}
	// lists over 0..4 up to listlen
	var lists [][]int64
	var rec func(cur []int64)
	rec = func(cur []int64) {
		lists = append(lists, append([]int64{}, cur...))
		if len(cur) == listlen {
			return
		}
		for v := int64(0); v <= 4; v++ {
			rec(append(cur, v))
		}
	}
	rec(nil)
	enc := func(l []int64) string {
		bs := make([]*big.Int, len(l))
		for i, v := range l {
			bs[i] = big.NewInt(v)
		}
		return lib.HexList(bs)
	}
	sd := func(l []int64) bool { // sorted distinct
		for i := 1; i < len(l); i++ {
			if l[i-1] >= l[i] {
				return false
			}
		}
		return true
	}
	var sds [][]int64
	for _, l := range lists {
		e := enc(l)
		emit("sort " + e)
		emit("unique " + e)
		if len(l) <= 4 {
			for v := int64(0); v <= 5; v++ {
				emit(fmt.Sprintf("index %x %s", v, e))
				emit(fmt.Sprintf("contains %x %s", v, e))
				emit(fmt.Sprintf("containssorted %x %s", v, e))
			}
		}
		if sd(l) {
			sds = append(sds, l)
		}
	}
	for _, a := range sds {
		for v := int64(0); v <= 5; v++ {
			emit(fmt.Sprintf("insert %s %x", enc(a), v))
		}
		for _, b := range sds {
			emit("merge " + enc(a) + " " + enc(b))
		}
	}
	// precondition-violating merges: compared with the model, outside the theorems
	for i := 0; i < nrand/3; i++ {
		a, b := lists[r.Intn(len(lists))], lists[r.Intn(len(lists))]
		emit("merge " + enc(a) + " " + enc(b))
	}
	// random longer lists with big values
	for i := 0; i < nrand; i++ {
		n := r.Range(0, 30)
		l := make([]*big.Int, n)
		for j := range l {
			if r.Chance(1, 3) && j > 0 {
				l[j] = l[r.Intn(j)]
			} else {
				l[j] = r.Bits(r.Range(1, 130))
				if r.Chance(1, 10) {
					l[j] = new(big.Int).Neg(l[j])
				}
			}
		}
		e := lib.HexList(l)
		emit("sort " + e)
		emit("unique " + e)
		s := lib.CloneInts(l)
		sort.Slice(s, func(i, j int) bool { return s[i].Cmp(s[j]) < 0 })
		emit("unique " + lib.HexList(s))
		var x *big.Int
		if n > 0 && r.Bool() {
			x = l[r.Intn(n)]
		} else {
			x = r.Bits(r.Range(1, 130))
		}
		emit("index " + hx(x) + " " + e)
		emit("contains " + hx(x) + " " + e)
		emit("containssorted " + hx(x) + " " + lib.HexList(s))
		u := verifhook.BigintsUnique(s)
		emit("insert " + lib.HexList(u) + " " + hx(x))
		m := r.Range(0, 20)
		l2 := make([]*big.Int, m)
		for j := range l2 {
			if n > 0 && r.Bool() {
				l2[j] = l[r.Intn(n)]
			} else {
				l2[j] = r.Bits(r.Range(1, 130))
			}
		}
		sort.Slice(l2, func(i, j int) bool { return l2[i].Cmp(l2[j]) < 0 })
		emit("merge " + lib.HexList(u) + " " + lib.HexList(verifhook.BigintsUnique(l2)))
		// vectors
		v2 := make([]*big.Int, n)
		for j := range v2 {
			v2[j] = r.Bits(r.Range(1, 100))
		}
		emit("vadd " + e + " " + lib.HexList(v2))
		emit(fmt.Sprintf("vlsh %s %d", e, r.Intn(130)))
	}
	emit("vadd 1,2 1")
	emit("vadd - 1")
	for n := 0; n <= 6; n++ {
		for i := 0; i <= 7; i++ {
			emit(fmt.Sprintf("basis %d %d", n, i))
		}
	}
}

func vecList(v verifhook.BigVector) []*big.Int {
	out := make([]*big.Int, v.Len())
	for i := range out {
		out[i] = v.Idx(i)
	}
	return out
}

func run(c string) string {
	f := strings.Split(c, " ")
	switch f[0] {
	case "pow2":
		return "ok " + hx(verifhook.BigintPow2(uint(lib.Atoi(f[1]))))
	case "ispow2":
		return "ok " + lib.Bool(verifhook.BigintIsPow2(phx(f[1])))
	case "pow2upto":
		return "ok " + lib.HexList(verifhook.BigintPow2UpTo(phx(f[1])))
	case "ones":
		return "ok " + hx(verifhook.BigintOnes(uint(lib.Atoi(f[1]))))
	case "mask":
		return "ok " + hx(verifhook.BigintMask(uint(lib.Atoi(f[1])), uint(lib.Atoi(f[2]))))
	case "bitsset":
		return "ok " + lib.IntList(verifhook.BigintBitsSet(phx(f[1])))
	case "minmax":
		mn, mx := verifhook.BigintMinMax(phx(f[1]), phx(f[2]))
		return "ok " + hx(mn) + " " + hx(mx)
	case "extract":
		return "ok " + hx(verifhook.BigintExtract(phx(f[1]), uint(lib.Atoi(f[2])), uint(lib.Atoi(f[3]))))
	case "uint64s":
		ws := verifhook.BigintUint64s(phx(f[1]))
		bs := make([]*big.Int, len(ws))
		for i, w := range ws {
			bs[i] = new(big.Int).SetUint64(w)
		}
		return "ok " + lib.HexList(bs)
	case "bytesle":
		return "ok " + lib.Bytes(verifhook.BigintBytesLittleEndian(phx(f[1])))
	case "hex", "binary":
		fn := verifhook.BigintHex
		if f[0] == "binary" {
			fn = verifhook.BigintBinary
		}
		x, ok := fn(string(lib.ParseBytes(f[1])))
		if !ok {
			return "err parse"
		}
		return "ok " + hx(x)
	case "sort":
		l := lib.ParseHexList(f[1])
		verifhook.BigintsSort(l)
		return "ok " + lib.HexList(l)
	case "index":
		return fmt.Sprintf("ok %d", verifhook.BigintsIndex(phx(f[1]), lib.ParseHexList(f[2])))
	case "contains":
		return "ok " + lib.Bool(verifhook.BigintsContains(phx(f[1]), lib.ParseHexList(f[2])))
	case "containssorted":
		return "ok " + lib.Bool(verifhook.BigintsContainsSorted(phx(f[1]), lib.ParseHexList(f[2])))
	case "unique":
		return "ok " + lib.HexList(verifhook.BigintsUnique(lib.ParseHexList(f[1])))
	case "insert":
		return "ok " + lib.HexList(verifhook.BigintsInsertSortedUnique(lib.ParseHexList(f[1]), phx(f[2])))
	case "merge":
		return "ok " + lib.HexList(verifhook.BigintsMergeUnique(lib.ParseHexList(f[1]), lib.ParseHexList(f[2])))
	case "vadd":
		a, b := lib.ParseHexList(f[1]), lib.ParseHexList(f[2])
		return "ok " + lib.HexList(vecList(verifhook.BigvectorAdd(toVec(a), toVec(b))))
	case "vlsh":
		return "ok " + lib.HexList(vecList(verifhook.BigvectorLsh(toVec(lib.ParseHexList(f[1])), uint(lib.Atoi(f[2])))))
	case "basis":
		return "ok " + lib.HexList(vecList(verifhook.BigvectorNewBasis(lib.Atoi(f[1]), lib.Atoi(f[2]))))
	}
	panic("unknown case " + c)
}

// toVec builds a bigvector from a list by summing shifted basis vectors' worth
// of values: New(n) then Add of single-element contributions is not exported,
// so use Lsh/Add on basis vectors scaled by repeated addition is too slow;
// instead wrap the list directly.
type listVec []*big.Int

func (v listVec) Len() int           { return len(v) }
func (v listVec) Idx(i int) *big.Int { return v[i] }
func toVec(l []*big.Int) verifhook.BigVector { return listVec(l) }

// ---- oracle: the mathematical definitions, written independently ----

func sortedCopy(l []*big.Int) []*big.Int {
	s := lib.CloneInts(l)
	sort.SliceStable(s, func(i, j int) bool { return s[i].Cmp(s[j]) < 0 })
	return s
}

func isSD(l []*big.Int) bool {
	for i := 1; i < len(l); i++ {
		if l[i-1].Cmp(l[i]) >= 0 {
			return false
		}
	}
	return true
}

func member(x *big.Int, l []*big.Int) bool {
	for _, y := range l {
		if x.Cmp(y) == 0 {
			return true
		}
	}
	return false
}

func pow(e int) *big.Int { return new(big.Int).Exp(big.NewInt(2), big.NewInt(int64(e)), nil) }

func oracle(c, res string) string {
	f := strings.Split(c, " ")
	if strings.HasPrefix(res, "panic") {
		if c == "vadd 1,2 1" || c == "vadd - 1" || (f[0] == "vadd" && len(lib.ParseHexList(f[1])) != len(lib.ParseHexList(f[2]))) {
			return ""
		}
		return "panic: " + res
	}
	payload := strings.TrimPrefix(res, "ok ")
	// argument immutability: re-run on fresh copies and compare the copies afterwards
	switch f[0] {
	case "pow2":
		if phx(payload).Cmp(pow(lib.Atoi(f[1]))) != 0 {
			return "pow2 != 2^e"
		}
	case "ones":
		want := new(big.Int).Sub(pow(lib.Atoi(f[1])), big.NewInt(1))
		if phx(payload).Cmp(want) != 0 {
			return "ones(n) != 2^n-1"
		}
	case "mask":
		l, h := lib.Atoi(f[1]), lib.Atoi(f[2])
		if l > h {
			return ""
		}
		m := phx(payload)
		if m.Sign() < 0 {
			return "mask negative"
		}
		for i := 0; i <= h+2; i++ {
			want := uint(0)
			if l <= i && i < h {
				want = 1
			}
			if m.Bit(i) != want {
				return fmt.Sprintf("mask bit %d wrong", i)
			}
		}
		if m.BitLen() > h {
			return "mask has high bits"
		}
	case "extract":
		x, l, h := phx(f[1]), lib.Atoi(f[2]), lib.Atoi(f[3])
		x0 := new(big.Int).Set(x)
		if x.Sign() < 0 || l > h {
			return ""
		}
		got := verifhook.BigintExtract(x, uint(l), uint(h))
		if x.Cmp(x0) != 0 {
			return "extract modified its argument"
		}
		q := new(big.Int).Div(x, pow(l))
		want := q.Mod(q, pow(h-l))
		if got.Cmp(want) != 0 || phx(payload).Cmp(want) != 0 {
			return "extract != floor(x/2^l) mod 2^(h-l)"
		}
	case "ispow2":
		x := phx(f[1])
		want := false
		if x.Sign() > 0 {
			cnt := 0
			for i := 0; i < x.BitLen(); i++ {
				cnt += int(x.Bit(i))
			}
			want = cnt == 1
		}
		if payload != lib.Bool(want) {
			return "ispow2 wrong"
		}
	case "pow2upto":
		x := phx(f[1])
		got := lib.ParseHexList(payload)
		k := 0
		for ; pow(k).Cmp(x) <= 0; k++ {
			if k >= len(got) || got[k].Cmp(pow(k)) != 0 {
				return "pow2upto misses a power"
			}
		}
		if len(got) != k {
			return "pow2upto has extra elements"
		}
	case "bitsset":
		x := phx(f[1])
		if x.Sign() < 0 {
			return ""
		}
		got := lib.ParseIntList(payload)
		sum := new(big.Int)
		for i, b := range got {
			if i > 0 && got[i-1] >= b {
				return "bitsset not ascending"
			}
			sum.Add(sum, pow(b))
		}
		if sum.Cmp(x) != 0 {
			return "bitsset does not sum to x"
		}
	case "minmax":
		x, y := phx(f[1]), phx(f[2])
		p := strings.Split(payload, " ")
		mn, mx := phx(p[0]), phx(p[1])
		if mn.Cmp(mx) > 0 || !((mn.Cmp(x) == 0 && mx.Cmp(y) == 0) || (mn.Cmp(y) == 0 && mx.Cmp(x) == 0)) {
			return "minmax wrong"
		}
	case "uint64s":
		x := phx(f[1])
		x0 := new(big.Int).Set(x)
		ws := verifhook.BigintUint64s(x)
		if x.Cmp(x0) != 0 {
			return "uint64s modified its argument"
		}
		sum := new(big.Int)
		for i := len(ws) - 1; i >= 0; i-- {
			sum.Lsh(sum, 64)
			sum.Add(sum, new(big.Int).SetUint64(ws[i]))
		}
		if sum.Cmp(x) != 0 {
			return "uint64s limbs do not sum to x"
		}
		if len(ws) > 0 && ws[len(ws)-1] == 0 {
			return "uint64s top limb zero"
		}
		got := lib.ParseHexList(payload)
		if len(got) != len(ws) {
			return "uint64s unstable"
		}
	case "bytesle":
		x := phx(f[1])
		b := lib.ParseBytes(payload)
		sum := new(big.Int)
		for i := len(b) - 1; i >= 0; i-- {
			sum.Lsh(sum, 8)
			sum.Add(sum, big.NewInt(int64(b[i])))
		}
		if sum.CmpAbs(x) != 0 {
			return "bytesle does not represent |x|"
		}
		if len(b) > 0 && b[len(b)-1] == 0 {
			return "bytesle top byte zero"
		}
	case "hex", "binary":
		base := 16
		digits := "0123456789abcdef"
		if f[0] == "binary" {
			base, digits = 2, "01"
		}
		s := strings.ToLower(strings.ReplaceAll(string(lib.ParseBytes(f[1])), "_", ""))
		neg := false
		if strings.HasPrefix(s, "-") {
			neg, s = true, s[1:]
		} else if strings.HasPrefix(s, "+") {
			s = s[1:]
		}
		valid := len(s) > 0
		v := new(big.Int)
		for _, ch := range []byte(s) {
			d := strings.IndexByte(digits, ch)
			if d < 0 {
				valid = false
				break
			}
			v.Mul(v, big.NewInt(int64(base)))
			v.Add(v, big.NewInt(int64(d)))
		}
		if neg {
			v.Neg(v)
		}
		if !valid {
			if res != "err parse" {
				return "accepted a malformed literal"
			}
			return ""
		}
		if res == "err parse" {
			return "rejected a well-formed literal"
		}
		if phx(payload).Cmp(v) != 0 {
			return "literal value wrong"
		}
	case "sort":
		l := lib.ParseHexList(f[1])
		if !lib.EqualInts(lib.ParseHexList(payload), sortedCopy(l)) {
			return "sort result is not the sorted permutation"
		}
	case "index", "contains", "containssorted":
		x, l := phx(f[1]), lib.ParseHexList(f[2])
		l0 := lib.CloneInts(l)
		first := -1
		for i, y := range l {
			if y.Cmp(x) == 0 {
				first = i
				break
			}
		}
		switch f[0] {
		case "index":
			if payload != fmt.Sprint(first) {
				return "index is not the first occurrence"
			}
		case "contains":
			if payload != lib.Bool(first >= 0) {
				return "contains wrong"
			}
		case "containssorted":
			if sort.SliceIsSorted(l, func(i, j int) bool { return l[i].Cmp(l[j]) < 0 }) && payload != lib.Bool(first >= 0) {
				return "containssorted wrong on a sorted list"
			}
		}
		if !lib.EqualInts(l, l0) {
			return "argument modified"
		}
	case "unique":
		l := lib.ParseHexList(f[1])
		want := []*big.Int{}
		for i, x := range l {
			if i == 0 || x.Cmp(l[i-1]) != 0 {
				want = append(want, x)
			}
		}
		if !lib.EqualInts(lib.ParseHexList(payload), want) {
			return "unique is not consecutive de-duplication"
		}
	case "insert", "merge":
		var a, b []*big.Int
		if f[0] == "insert" {
			a, b = lib.ParseHexList(f[1]), []*big.Int{phx(f[2])}
		} else {
			a, b = lib.ParseHexList(f[1]), lib.ParseHexList(f[2])
		}
		if !isSD(a) || !isSD(b) {
			return ""
		}
		a0, b0 := lib.CloneInts(a), lib.CloneInts(b)
		var got []*big.Int
		if f[0] == "insert" {
			got = verifhook.BigintsInsertSortedUnique(a, b[0])
		} else {
			got = verifhook.BigintsMergeUnique(a, b)
		}
		if !lib.EqualInts(a, a0) || !lib.EqualInts(b, b0) {
			return "argument modified"
		}
		if !lib.EqualInts(got, lib.ParseHexList(payload)) {
			return "unstable"
		}
		if !isSD(got) {
			return "result not sorted distinct"
		}
		for _, x := range got {
			if !member(x, a) && !member(x, b) {
				return "result has a foreign element"
			}
		}
		for _, x := range append(lib.CloneInts(a), b...) {
			if !member(x, got) {
				return "result misses an element"
			}
		}
	case "vadd":
		a, b := lib.ParseHexList(f[1]), lib.ParseHexList(f[2])
		if len(a) != len(b) {
			return "vadd accepted a length mismatch"
		}
		got := lib.ParseHexList(payload)
		for i := range a {
			if got[i].Cmp(new(big.Int).Add(a[i], b[i])) != 0 {
				return "vadd wrong"
			}
		}
	case "vlsh":
		a, s := lib.ParseHexList(f[1]), lib.Atoi(f[2])
		got := lib.ParseHexList(payload)
		if len(got) != len(a) {
			return "vlsh length"
		}
		for i := range a {
			if got[i].Cmp(new(big.Int).Mul(a[i], pow(s))) != 0 {
				return "vlsh wrong"
			}
		}
	case "basis":
		n, i := lib.Atoi(f[1]), lib.Atoi(f[2])
		got := lib.ParseHexList(payload)
		if len(got) != n {
			return "basis length"
		}
		for j := range got {
			want := int64(0)
			if j == i {
				want = 1
			}
			if got[j].Cmp(big.NewInt(want)) != 0 {
				return "basis wrong"
			}
		}
	}
	return ""
}

func main() {
	lib.Main(lib.Prop{
		ID:     "C19",
		Gen:    gen,
		Run:    run,
		Oracle: oracle,
		Nontrivial: func(c, res string) bool {
			return strings.HasPrefix(res, "ok ") && len(c) > 12
		},
		PanicClass: func(v interface{}) string {
			if s, ok := v.(string); ok && strings.Contains(s, "length mismatch") {
				return "lenmismatch"
			}
			return "other"
		},
	})
}
