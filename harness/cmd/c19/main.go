// C19: multi-precision helper functions meet their arithmetic specifications.
package main

import (
	"fmt"
	"math/big"
	"sort"
	"strings"

	"github.com/mmcloughlin/addchain/verifhook"
	"verif/harness/lib"
)

var (
	hx  = lib.Hex
	phx = lib.ParseHex
)

// withUnderscores inserts '_' at random places of s (possibly none, possibly runs).
func withUnderscores(r *lib.Rand, s string) string {
	var b strings.Builder
	for i := 0; i <= len(s); i++ {
		for r.Chance(1, 5) {
			b.WriteByte('_')
		}
		if i < len(s) {
			b.WriteByte(s[i])
		}
	}
	return b.String()
}

// allLists enumerates every list over alphabet of length <= maxlen, shortest first per prefix.
func allLists(alphabet []int64, maxlen int, pred func(prev, v int64, first bool) bool, f func([]int64)) {
	var rec func(cur []int64)
	rec = func(cur []int64) {
		f(append([]int64{}, cur...))
		if len(cur) == maxlen {
			return
		}
		for _, v := range alphabet {
			if pred == nil || len(cur) == 0 || pred(cur[len(cur)-1], v, false) {
				rec(append(cur, v))
			}
		}
	}
	rec(nil)
}

func enc(l []int64) string {
	bs := make([]*big.Int, len(l))
	for i, v := range l {
		bs[i] = big.NewInt(v)
	}
	return lib.HexList(bs)
}

func gen(tier string, r *lib.Rand, emit func(string)) {
	thorough := tier == "thorough"
	nrand := 300
	if thorough {
		nrand = 6000
	}
	bounds := []int{0, 1, 2, 31, 32, 33, 63, 64, 65, 127, 128, 129, 191, 192, 193, 200}

	// ---- (l, h, n): every pair up to 200 ----
	for l := 0; l <= 200; l++ {
		emit(fmt.Sprintf("pow2 %d", l))
		emit(fmt.Sprintf("ones %d", l))
		for h := 0; h <= 200; h++ {
			emit(fmt.Sprintf("mask %d %d", l, h))
		}
	}
	for _, l := range []int{255, 256, 257, 511, 512, 600, 1000} {
		emit(fmt.Sprintf("pow2 %d", l))
		emit(fmt.Sprintf("ones %d", l))
		emit(fmt.Sprintf("mask %d %d", l/2, l))
		emit(fmt.Sprintf("mask %d %d", l, l))
		emit(fmt.Sprintf("mask %d %d", l, l/2)) // l > h: out of range, compared with the model only
	}

	// ---- integers of interest: small, 2^k, 2^k-1, 2^k+1, negatives, random up to 2^600 ----
	xs := []*big.Int{}
	for v := int64(-70); v <= 300; v++ {
		xs = append(xs, big.NewInt(v))
	}
	ks := []int{}
	for k := 0; k <= 132; k++ {
		ks = append(ks, k)
	}
	ks = append(ks, 190, 191, 192, 193, 194, 199, 200, 201, 255, 256, 257, 319, 320, 321, 511, 512, 513, 599, 600)
	if thorough {
		for k := 133; k <= 600; k++ {
			ks = append(ks, k)
		}
	}
	for _, k := range ks {
		p := pow(k)
		xs = append(xs, p, new(big.Int).Sub(p, big.NewInt(1)), new(big.Int).Add(p, big.NewInt(1)))
		if k%8 == 0 || k%64 == 63 || k%64 == 1 {
			xs = append(xs, new(big.Int).Neg(p), new(big.Int).Sub(big.NewInt(1), p))
		}
	}
	for i := 0; i < nrand; i++ {
		x := r.Bits(r.Range(1, 600))
		if r.Chance(1, 8) {
			x.Neg(x)
		}
		xs = append(xs, x)
		// limb-structured: random limbs that are 0, 1, 2^64-1 or random
		y := new(big.Int)
		for j, n := 0, r.Range(1, 5); j < n; j++ {
			y.Lsh(y, 64)
			switch r.Intn(4) {
			case 0:
			case 1:
				y.Or(y, big.NewInt(1))
			case 2:
				y.Or(y, new(big.Int).Sub(pow(64), big.NewInt(1)))
			default:
				y.Or(y, r.Bits(64))
			}
		}
		xs = append(xs, y)
	}
	for i, x := range xs {
		emit("ispow2 " + hx(x))
		emit("pow2upto " + hx(x))
		emit("bitsset " + hx(x))
		emit("bytesle " + hx(x))
		if x.Sign() >= 0 {
			emit("uint64s " + hx(x)) // x < 0 never terminates in Go: out of range, never generated
		}
		y := xs[r.Intn(len(xs))]
		emit("minmax " + hx(x) + " " + hx(y))
		emit("minmax " + hx(x) + " " + hx(x))
		for k := 0; k < 3; k++ {
			l := r.Intn(x.BitLen() + 3)
			h := l + r.Intn(x.BitLen()+3)
			if r.Chance(1, 10) {
				l, h = h, l
			}
			emit(fmt.Sprintf("extract %s %d %d", hx(x), l, h))
		}
		// literals: rendering of x with underscores anywhere, either case, explicit '+'
		if x.BitLen() > 8 || i%4 == 0 {
			t := x.Text(16)
			emit("hex " + lib.Bytes([]byte(withUnderscores(r, t))))
			emit("hex " + lib.Bytes([]byte(withUnderscores(r, strings.ToUpper(t)))))
			if x.Sign() >= 0 {
				emit("hex " + lib.Bytes([]byte("+"+withUnderscores(r, t))))
			}
			if x.BitLen() <= 260 {
				emit("binary " + lib.Bytes([]byte(withUnderscores(r, x.Text(2)))))
			}
		}
	}
	// extract at the limb boundaries
	ex := []*big.Int{new(big.Int).Sub(pow(64), big.NewInt(1)), pow(64), new(big.Int).Add(pow(64), big.NewInt(1)),
		new(big.Int).Sub(pow(128), big.NewInt(1)), new(big.Int).Add(pow(128), big.NewInt(1)),
		new(big.Int).Sub(pow(200), big.NewInt(1)), r.BitsExact(200), r.BitsExact(129), r.BitsExact(65)}
	for _, x := range ex {
		for _, l := range bounds {
			for _, h := range bounds {
				if l <= h {
					emit(fmt.Sprintf("extract %s %d %d", hx(x), l, h))
				}
			}
		}
	}
	for v := int64(0); v < 64; v++ {
		for l := 0; l <= 7; l++ {
			for h := l; h <= 7; h++ {
				emit(fmt.Sprintf("extract %x %d %d", v, l, h))
			}
		}
	}

	// ---- malformed and hand-picked literals ----
	lits := []string{"", "_", "0", "1f", "1F", "dead_beef", "_a_", "__", "-1", "+1", "-", "+", "-_", "_-1", "-_1", "+-1", "--1", "1-", "1+1",
		"0x1f", "0X1F", "0b1", "g", "G", "z", "1 ", " 1", "12", "102", "-0", "+0", "0_0", "1_0_1", "é", "1\x00", "٣", "1.0", "1e3", "\x7f", "/", ":", "@", "`", "[", "{"}
	alpha := "0123456789abcdefABCDEF_"
	for i := 0; i < nrand; i++ {
		n := r.Range(1, 40)
		var b strings.Builder
		for j := 0; j < n; j++ {
			if r.Chance(1, 60) {
				b.WriteByte("gG xz-+.\n/:@`"[r.Intn(13)])
			} else {
				b.WriteByte(alpha[r.Intn(len(alpha))])
			}
		}
		lits = append(lits, b.String())
		var c strings.Builder
		for j := 0; j < n; j++ {
			if r.Chance(1, 60) {
				c.WriteByte("2a -+"[r.Intn(5)])
			} else {
				c.WriteByte("01_"[r.Intn(3)])
			}
		}
		lits = append(lits, c.String())
	}
	for _, s := range lits {
		emit("hex " + lib.Bytes([]byte(s)))
		emit("binary " + lib.Bytes([]byte(s)))
	}
	// every single byte as a one-character literal and next to a digit
	for c := 0; c < 256; c++ {
		emit("hex " + lib.Bytes([]byte{byte(c)}))
		emit("hex " + lib.Bytes([]byte{'1', byte(c), '2'}))
		emit("binary " + lib.Bytes([]byte{'1', byte(c)}))
	}

	// ---- integer lists, exhaustive small scope ----
	alphaA := []int64{-2, -1, 0, 1, 2}
	maxA, maxIdx := 5, 4
	if thorough {
		maxA, maxIdx = 6, 5
	}
	var lists [][]int64
	perList := func(l []int64) {
		lists = append(lists, l)
		e := enc(l)
		emit("sort " + e)
		emit("unique " + e)
		if len(l) <= 3 {
			emit("clone " + e)
		}
		if len(l) <= maxIdx {
			for v := int64(-3); v <= 2; v++ {
				emit(fmt.Sprintf("index %s %s", hx(big.NewInt(v)), e))
				emit(fmt.Sprintf("contains %s %s", hx(big.NewInt(v)), e))
				emit(fmt.Sprintf("containssorted %s %s", hx(big.NewInt(v)), e)) // unsorted ones: model comparison only
			}
		}
	}
	allLists(alphaA, maxA, nil, perList)
	// length 6 (8 in thorough) over a 4-letter (3-letter) alphabet
	if thorough {
		allLists([]int64{0, 1, 2}, 8, nil, func(l []int64) {
			if len(l) > maxA {
				emit("sort " + enc(l))
				emit("unique " + enc(l))
			}
		})
	} else {
		allLists([]int64{-1, 0, 1, 3}, 6, nil, func(l []int64) {
			if len(l) > maxA {
				emit("sort " + enc(l))
				emit("unique " + enc(l))
			}
		})
	}
	// ascending lists (duplicates allowed) up to length 7: bisection, unique, index
	allLists([]int64{0, 1, 2, 3, 4}, 7, func(prev, v int64, _ bool) bool { return prev <= v }, func(l []int64) {
		e := enc(l)
		emit("unique " + e)
		for v := int64(-1); v <= 5; v++ {
			emit(fmt.Sprintf("containssorted %s %s", hx(big.NewInt(v)), e))
		}
		emit(fmt.Sprintf("index %x %s", r.Intn(5), e))
	})
	// strictly ascending lists over 0..5 (0..6 in thorough): insert, merge, concat
	alphaS := []int64{0, 1, 2, 3, 4, 5}
	if thorough {
		alphaS = append(alphaS, 6)
	}
	var sds [][]int64
	allLists(alphaS, len(alphaS), func(prev, v int64, _ bool) bool { return prev < v }, func(l []int64) { sds = append(sds, l) })
	for _, a := range sds {
		for v := int64(-1); v <= int64(len(alphaS))+1; v++ {
			emit(fmt.Sprintf("insert %s %s", enc(a), hx(big.NewInt(v))))
		}
		for _, b := range sds {
			emit("merge " + enc(a) + " " + enc(b))
			if len(a)+len(b) <= 4 {
				emit("concat " + enc(a) + " " + enc(b))
			}
		}
	}
	// precondition-violating merges and inserts: compared with the model, outside the theorems
	for i := 0; i < nrand; i++ {
		a, b := lists[r.Intn(len(lists))], lists[r.Intn(len(lists))]
		emit("merge " + enc(a) + " " + enc(b))
		emit(fmt.Sprintf("insert %s %s", enc(a), hx(big.NewInt(int64(r.Range(-3, 3))))))
		emit("concat " + enc(a) + " " + enc(b))
	}

	// ---- random longer lists with big values ----
	for i := 0; i < nrand; i++ {
		n := r.Range(0, 30)
		l := make([]*big.Int, n)
		for j := range l {
			if r.Chance(1, 3) && j > 0 {
				l[j] = l[r.Intn(j)]
			} else {
				l[j] = r.Bits(r.Range(1, 130))
				if r.Chance(1, 10) {
					l[j] = new(big.Int).Neg(l[j])
				}
			}
		}
		e := lib.HexList(l)
		emit("sort " + e)
		emit("unique " + e)
		emit("clone " + e)
		s := lib.CloneInts(l)
		sort.Slice(s, func(i, j int) bool { return s[i].Cmp(s[j]) < 0 })
		emit("unique " + lib.HexList(s))
		var x *big.Int
		switch {
		case n > 0 && r.Chance(1, 2):
			x = l[r.Intn(n)]
		case n > 0 && r.Chance(1, 2): // just beside an element
			x = new(big.Int).Add(l[r.Intn(n)], big.NewInt(int64(r.Range(-1, 1))))
		default:
			x = r.Bits(r.Range(1, 130))
		}
		emit("index " + hx(x) + " " + e)
		emit("contains " + hx(x) + " " + e)
		emit("containssorted " + hx(x) + " " + lib.HexList(s))
		u := dedup(s)
		emit("insert " + lib.HexList(u) + " " + hx(x))
		m := r.Range(0, 20)
		l2 := make([]*big.Int, m)
		for j := range l2 {
			if n > 0 && r.Bool() {
				l2[j] = l[r.Intn(n)]
			} else {
				l2[j] = r.Bits(r.Range(1, 130))
			}
		}
		emit("concat " + e + " " + lib.HexList(l2))
		sort.Slice(l2, func(i, j int) bool { return l2[i].Cmp(l2[j]) < 0 })
		emit("merge " + lib.HexList(u) + " " + lib.HexList(dedup(l2)))
		// vectors
		v2 := make([]*big.Int, n)
		for j := range v2 {
			v2[j] = r.Bits(r.Range(1, 100))
			if r.Chance(1, 6) {
				v2[j].Neg(v2[j])
			}
		}
		emit("vadd " + e + " " + lib.HexList(v2))
		if r.Chance(1, 4) { // length mismatch: panics
			emit("vadd " + e + " " + lib.HexList(l2))
		}
		emit(fmt.Sprintf("vlsh %s %d", e, r.Intn(130)))
	}

	// ---- vectors, small scope ----
	var vs [][]int64
	allLists([]int64{-1, 0, 1, 2}, 2, nil, func(l []int64) { vs = append(vs, l) })
	for _, a := range vs {
		for _, b := range vs {
			emit("vadd " + enc(a) + " " + enc(b))
		}
		for _, s := range []int{0, 1, 63, 64, 65} {
			emit(fmt.Sprintf("vlsh %s %d", enc(a), s))
		}
	}
	emit("vadd 1,2 1")
	emit("vadd - 1")
	emit("vadd 1 -")
	for n := 0; n <= 8; n++ {
		emit(fmt.Sprintf("vnew %d", n))
	}
	for n := 0; n <= 6; n++ {
		for i := 0; i <= 7; i++ {
			emit(fmt.Sprintf("basis %d %d", n, i))
			for j := 0; j <= 7 && n <= 4; j++ {
				emit(fmt.Sprintf("basisidx %d %d %d", n, i, j))
			}
		}
	}
	genHist(thorough, nrand, r, emit)
	genBhist(thorough, nrand, r, emit)
	genShapes(thorough, nrand, r, emit)
}

// dedup removes repeated values from an ascending list (the harness's own code).
func dedup(s []*big.Int) []*big.Int {
	out := []*big.Int{}
	for i, x := range s {
		if i == 0 || x.Cmp(s[i-1]) != 0 {
			out = append(out, x)
		}
	}
	return out
}

func vecList(v verifhook.BigVector) []*big.Int {
	out := make([]*big.Int, v.Len())
	for i := range out {
		out[i] = v.Idx(i)
	}
	return out
}

// listVec is a bigvector.Vector over a given list.
type listVec []*big.Int

func (v listVec) Len() int           { return len(v) }
func (v listVec) Idx(i int) *big.Int { return v[i] }

// call runs the implementation on a case. It returns the result line and, when an argument
// was modified by the call (other than Sort's in-place contract), a description of it.
func call(c string) (line string, mutated string) {
	f := strings.Split(c, " ")
	// integer and list arguments, with deep copies taken before the call
	var ints []*big.Int
	var lsts [][]*big.Int
	I := func(s string) *big.Int { x := phx(s); ints = append(ints, x); return x }
	L := func(s string) []*big.Int { l := lib.ParseHexList(s); lsts = append(lsts, l); return l }
	var ints0 []*big.Int
	var lsts0 [][]*big.Int
	var ptrs0 [][]*big.Int
	snap := func() {
		ints0 = lib.CloneInts(ints)
		for _, l := range lsts {
			lsts0 = append(lsts0, lib.CloneInts(l))
			ptrs0 = append(ptrs0, append([]*big.Int{}, l...))
		}
	}
	check := func() {
		for i := range ints {
			if ints[i].Cmp(ints0[i]) != 0 {
				mutated = fmt.Sprintf("integer argument %d modified", i)
			}
		}
		for i := range lsts {
			if !lib.EqualInts(lsts[i], lsts0[i]) {
				mutated = fmt.Sprintf("list argument %d modified", i)
			}
			for j := range lsts[i] {
				if lsts[i][j] != ptrs0[i][j] {
					mutated = fmt.Sprintf("list argument %d re-pointed", i)
				}
			}
		}
	}
	switch f[0] {
	case "pow2":
		return "ok " + hx(verifhook.BigintPow2(uint(lib.Atoi(f[1])))), ""
	case "ones":
		return "ok " + hx(verifhook.BigintOnes(uint(lib.Atoi(f[1])))), ""
	case "mask":
		return "ok " + hx(verifhook.BigintMask(uint(lib.Atoi(f[1])), uint(lib.Atoi(f[2])))), ""
	case "ispow2":
		x := I(f[1])
		snap()
		line = "ok " + lib.Bool(verifhook.BigintIsPow2(x))
	case "pow2upto":
		x := I(f[1])
		snap()
		ps := verifhook.BigintPow2UpTo(x)
		line = "ok " + lib.HexList(ps)
		for i := range ps { // results must be distinct objects (Clone(p) each round)
			for j := 0; j < i; j++ {
				if ps[i] == ps[j] {
					mutated = "pow2upto returns aliased integers"
				}
			}
		}
	case "bitsset":
		x := I(f[1])
		snap()
		line = "ok " + lib.IntList(verifhook.BigintBitsSet(x))
	case "minmax":
		x, y := I(f[1]), I(f[2])
		snap()
		mn, mx := verifhook.BigintMinMax(x, y)
		line = "ok " + hx(mn) + " " + hx(mx)
	case "extract":
		x := I(f[1])
		snap()
		line = "ok " + hx(verifhook.BigintExtract(x, uint(lib.Atoi(f[2])), uint(lib.Atoi(f[3]))))
	case "uint64s":
		x := I(f[1])
		snap()
		ws := verifhook.BigintUint64s(x)
		bs := make([]*big.Int, len(ws))
		for i, w := range ws {
			bs[i] = new(big.Int).SetUint64(w)
		}
		line = "ok " + lib.HexList(bs)
	case "bytesle":
		x := I(f[1])
		snap()
		line = "ok " + lib.Bytes(verifhook.BigintBytesLittleEndian(x))
	case "hex", "binary":
		fn := verifhook.BigintHex
		if f[0] == "binary" {
			fn = verifhook.BigintBinary
		}
		x, ok := fn(string(lib.ParseBytes(f[1])))
		if !ok {
			return "err parse", ""
		}
		return "ok " + hx(x), ""
	case "sort":
		l := lib.ParseHexList(f[1])
		verifhook.BigintsSort(l)
		return "ok " + lib.HexList(l), ""
	case "index":
		x, l := I(f[1]), L(f[2])
		snap()
		line = fmt.Sprintf("ok %d", verifhook.BigintsIndex(x, l))
	case "contains":
		x, l := I(f[1]), L(f[2])
		snap()
		line = "ok " + lib.Bool(verifhook.BigintsContains(x, l))
	case "containssorted":
		x, l := I(f[1]), L(f[2])
		snap()
		line = "ok " + lib.Bool(verifhook.BigintsContainsSorted(x, l))
	case "clone":
		l := L(f[1])
		snap()
		got := verifhook.BigintsClone(l)
		line = "ok " + lib.HexList(got)
		if len(got) > 0 {
			got[0] = big.NewInt(424242) // the clone must not share its backing array
		}
	case "concat":
		a, b := L(f[1]), L(f[2])
		snap()
		got := verifhook.BigintsConcat(a, b)
		line = "ok " + lib.HexList(got)
		for i := range got {
			got[i] = big.NewInt(424242)
		}
	case "unique":
		l := L(f[1])
		snap()
		got := verifhook.BigintsUnique(l)
		line = "ok " + lib.HexList(got)
		for i := range got {
			got[i] = big.NewInt(424242)
		}
	case "insert":
		l, x := L(f[1]), I(f[2])
		snap()
		got := verifhook.BigintsInsertSortedUnique(l, x)
		line = "ok " + lib.HexList(got)
		for i := range got {
			got[i] = big.NewInt(424242)
		}
	case "merge":
		a, b := L(f[1]), L(f[2])
		snap()
		got := verifhook.BigintsMergeUnique(a, b)
		line = "ok " + lib.HexList(got)
		for i := range got {
			got[i] = big.NewInt(424242)
		}
	case "vadd":
		a, b := L(f[1]), L(f[2])
		snap()
		line = "ok " + lib.HexList(vecList(verifhook.BigvectorAdd(listVec(a), listVec(b))))
	case "vlsh":
		a := L(f[1])
		snap()
		line = "ok " + lib.HexList(vecList(verifhook.BigvectorLsh(listVec(a), uint(lib.Atoi(f[2])))))
	case "vnew":
		return "ok " + lib.HexList(vecList(verifhook.BigvectorNew(lib.Atoi(f[1])))), ""
	case "basis":
		return "ok " + lib.HexList(vecList(verifhook.BigvectorNewBasis(lib.Atoi(f[1]), lib.Atoi(f[2])))), ""
	case "basisidx":
		return "ok " + hx(verifhook.BigvectorNewBasis(lib.Atoi(f[1]), lib.Atoi(f[2])).Idx(lib.Atoi(f[3]))), ""
	case "indexat", "containsat", "containssortedat", "insertat":
		l := shaped(f[2], f[3])
		lsts = append(lsts, l)
		n := l[lib.Atoi(f[1])]
		snap()
		switch f[0] {
		case "indexat":
			line = fmt.Sprintf("ok %d", verifhook.BigintsIndex(n, l))
		case "containsat":
			line = "ok " + lib.Bool(verifhook.BigintsContains(n, l))
		case "containssortedat":
			line = "ok " + lib.Bool(verifhook.BigintsContainsSorted(n, l))
		default:
			got := verifhook.BigintsInsertSortedUnique(l, n)
			line = "ok " + lib.HexList(got)
			for i := range got {
				got[i] = big.NewInt(424242)
			}
		}
	case "minmaxat":
		l := shaped(f[3], f[4])
		lsts = append(lsts, l)
		snap()
		mn, mx := verifhook.BigintMinMax(l[lib.Atoi(f[1])], l[lib.Atoi(f[2])])
		line = "ok " + hx(mn) + " " + hx(mx)
	case "mergeat", "concatat":
		l := shaped(f[2], f[3])
		m := l // mode 0: the same slice twice
		if f[1] == "1" {
			m = append([]*big.Int(nil), l...) // mode 1: another slice holding the same objects
		}
		lsts = append(lsts, l, m)
		snap()
		var got []*big.Int
		if f[0] == "mergeat" {
			got = verifhook.BigintsMergeUnique(l, m)
		} else {
			got = verifhook.BigintsConcat(l, m)
		}
		line = "ok " + lib.HexList(got)
		for i := range got {
			got[i] = big.NewInt(424242)
		}
	case "vhist":
		return runVhist(f[1]), ""
	case "lhist":
		return runLhist(f[1]), ""
	case "bhist":
		return runBhist(f[1]), ""
	default:
		panic("unknown case " + c)
	}
	check()
	return line, mutated
}

func run(c string) string {
	line, _ := call(c)
	return line
}

// ---- call histories: a straight-line program over registers; all registers are read at the end ----

func fmtRegs(regs [][]*big.Int) string {
	parts := make([]string, len(regs))
	for i, r := range regs {
		parts[i] = lib.HexList(r)
	}
	return "ok " + strings.Join(parts, "/")
}

// runVhist executes a vector program with the package's own constructors and operations. Only
// at the end is every register read (Idx of each coordinate), so a call that disturbs the
// storage of an earlier value shows up.
func runVhist(prog string) string {
	var regs []verifhook.BigVector
	for _, ins := range strings.Split(prog, ";") {
		f := strings.Split(ins, ":")
		a := func(k int) int { return lib.Atoi(f[k]) }
		switch f[0] {
		case "new":
			regs = append(regs, verifhook.BigvectorNew(a(1)))
		case "basis":
			regs = append(regs, verifhook.BigvectorNewBasis(a(1), a(2)))
		case "add":
			if a(1) >= len(regs) || a(2) >= len(regs) {
				return "err badreg"
			}
			regs = append(regs, verifhook.BigvectorAdd(regs[a(1)], regs[a(2)]))
		case "lsh":
			if a(1) >= len(regs) {
				return "err badreg"
			}
			regs = append(regs, verifhook.BigvectorLsh(regs[a(1)], uint(a(2))))
		case "idx":
			if a(1) >= len(regs) {
				return "err badreg"
			}
			regs = append(regs, listVec{regs[a(1)].Idx(a(2))}) // keeps the returned pointer
		default:
			panic("unknown vhist instruction " + ins)
		}
	}
	out := make([][]*big.Int, len(regs))
	for i, r := range regs {
		out[i] = vecList(r)
	}
	return fmtRegs(out)
}

// refVhist: the mathematical value of every register (fresh integers, nothing shared), or the
// expected panic/error line.
func refVhist(prog string) ([][]*big.Int, string) {
	var regs [][]*big.Int
	for _, ins := range strings.Split(prog, ";") {
		f := strings.Split(ins, ":")
		a := func(k int) int { return lib.Atoi(f[k]) }
		switch f[0] {
		case "new":
			v := make([]*big.Int, a(1))
			for i := range v {
				v[i] = new(big.Int)
			}
			regs = append(regs, v)
		case "basis":
			v := make([]*big.Int, a(1))
			for i := range v {
				v[i] = new(big.Int)
				if i == a(2) {
					v[i].SetInt64(1)
				}
			}
			regs = append(regs, v)
		case "add":
			if a(1) >= len(regs) || a(2) >= len(regs) {
				return nil, "err badreg"
			}
			u, w := regs[a(1)], regs[a(2)]
			if len(u) != len(w) {
				return nil, "panic lenmismatch"
			}
			v := make([]*big.Int, len(u))
			for i := range v {
				v[i] = new(big.Int).Add(u[i], w[i])
			}
			regs = append(regs, v)
		case "lsh":
			if a(1) >= len(regs) {
				return nil, "err badreg"
			}
			u := regs[a(1)]
			v := make([]*big.Int, len(u))
			for i := range v {
				v[i] = new(big.Int).Mul(u[i], pow(a(2)))
			}
			regs = append(regs, v)
		case "idx":
			if a(1) >= len(regs) {
				return nil, "err badreg"
			}
			u := regs[a(1)]
			if a(2) >= len(u) {
				return nil, "panic index"
			}
			regs = append(regs, []*big.Int{new(big.Int).Set(u[a(2)])})
		}
	}
	return regs, ""
}

// runLhist executes a program over integer-list registers. "lit" builds a fresh list with spare
// capacity, "sub" is a Go sub-slice sharing its parent's array (so a helper that appends into
// or filters its argument in place disturbs the parent), "sort" sorts its register in place and
// yields a harness-made copy, "minmax" keeps the two pointers MinMax returns.
func runLhist(prog string) string {
	var regs [][]*big.Int
	for _, ins := range strings.Split(prog, ";") {
		f := strings.Split(ins, ":")
		a := func(k int) int { return lib.Atoi(f[k]) }
		if f[0] != "lit" && a(1) >= len(regs) {
			return "err badreg"
		}
		switch f[0] {
		case "lit":
			l := lib.ParseHexList(f[1])
			s := make([]*big.Int, len(l), len(l)+3)
			copy(s, l)
			regs = append(regs, s)
		case "clone":
			regs = append(regs, verifhook.BigintsClone(regs[a(1)]))
		case "unique":
			regs = append(regs, verifhook.BigintsUnique(regs[a(1)]))
		case "sort":
			verifhook.BigintsSort(regs[a(1)])
			regs = append(regs, append([]*big.Int(nil), regs[a(1)]...))
		case "concat", "merge":
			if a(2) >= len(regs) {
				return "err badreg"
			}
			if f[0] == "concat" {
				regs = append(regs, verifhook.BigintsConcat(regs[a(1)], regs[a(2)]))
			} else {
				regs = append(regs, verifhook.BigintsMergeUnique(regs[a(1)], regs[a(2)]))
			}
		case "insert":
			regs = append(regs, verifhook.BigintsInsertSortedUnique(regs[a(1)], phx(f[2])))
		case "sub":
			u := regs[a(1)]
			if a(2) > a(3) || a(3) > len(u) {
				return "err badreg"
			}
			regs = append(regs, u[a(2):a(3)])
		case "minmax":
			u := regs[a(1)]
			if a(2) >= len(u) || a(3) >= len(u) {
				return "err badreg"
			}
			mn, mx := verifhook.BigintMinMax(u[a(2)], u[a(3)])
			regs = append(regs, []*big.Int{mn, mx})
		default:
			panic("unknown lhist instruction " + ins)
		}
	}
	return fmtRegs(regs)
}

// lref is the reference state of an lhist program: immutable values plus which registers share
// an array through "sub" (sorting those in place is outside the stream's contract).
type lref struct {
	regs    [][]*big.Int
	shared  []bool
	unspec  bool // a helper was used outside its precondition: no mathematical value
	badline string
}

func sortedInts(l []*big.Int) []*big.Int {
	s := lib.CloneInts(l)
	for i := 1; i < len(s); i++ { // insertion sort, the harness's own
		for j := i; j > 0 && s[j-1].Cmp(s[j]) > 0; j-- {
			s[j-1], s[j] = s[j], s[j-1]
		}
	}
	return s
}

func (st *lref) step(ins string) {
	f := strings.Split(ins, ":")
	a := func(k int) int { return lib.Atoi(f[k]) }
	push := func(l []*big.Int, sh bool) { st.regs = append(st.regs, l); st.shared = append(st.shared, sh) }
	if f[0] != "lit" && a(1) >= len(st.regs) {
		st.badline = "err badreg"
		return
	}
	switch f[0] {
	case "lit":
		push(lib.ParseHexList(f[1]), false)
	case "clone":
		push(lib.CloneInts(st.regs[a(1)]), false)
	case "unique":
		push(dedup(lib.CloneInts(st.regs[a(1)])), false)
	case "sort":
		if st.shared[a(1)] {
			st.unspec = true
		}
		st.regs[a(1)] = sortedInts(st.regs[a(1)])
		push(lib.CloneInts(st.regs[a(1)]), false)
	case "concat", "merge":
		if a(2) >= len(st.regs) {
			st.badline = "err badreg"
			return
		}
		u, v := st.regs[a(1)], st.regs[a(2)]
		if f[0] == "concat" {
			push(append(lib.CloneInts(u), lib.CloneInts(v)...), false)
		} else {
			if !isSD(u) || !isSD(v) {
				st.unspec = true
			}
			push(dedup(sortedInts(append(lib.CloneInts(u), v...))), false)
		}
	case "insert":
		u := st.regs[a(1)]
		if !isSD(u) {
			st.unspec = true
		}
		push(dedup(sortedInts(append(lib.CloneInts(u), phx(f[2])))), false)
	case "sub":
		u := st.regs[a(1)]
		if a(2) > a(3) || a(3) > len(u) {
			st.badline = "err badreg"
			return
		}
		st.shared[a(1)] = true
		push(lib.CloneInts(u[a(2):a(3)]), true)
	case "minmax":
		u := st.regs[a(1)]
		if a(2) >= len(u) || a(3) >= len(u) {
			st.badline = "err badreg"
			return
		}
		x, y := u[a(2)], u[a(3)]
		if x.Cmp(y) > 0 {
			x, y = y, x
		}
		push([]*big.Int{new(big.Int).Set(x), new(big.Int).Set(y)}, false)
	}
}

func refLhist(prog string) *lref {
	st := &lref{}
	for _, ins := range strings.Split(prog, ";") {
		st.step(ins)
		if st.badline != "" {
			break
		}
	}
	return st
}

func genHist(thorough bool, nrand int, r *lib.Rand, emit func(string)) {
	// vectors, exhaustive: registers e0, e1, zero of dimension 2, then every sequence of three
	// operations (four in thorough) from {add ra rb, lsh ra 1} over all registers so far
	depth := 3
	if thorough {
		depth = 4
	}
	var rec func(prog []string, k, d int)
	rec = func(prog []string, k, d int) {
		if d == 0 {
			emit("vhist " + strings.Join(prog, ";"))
			return
		}
		for a := 0; a < k; a++ {
			for b := 0; b < k; b++ {
				rec(append(prog[:len(prog):len(prog)], fmt.Sprintf("add:%d:%d", a, b)), k+1, d-1)
			}
			rec(append(prog[:len(prog):len(prog)], fmt.Sprintf("lsh:%d:1", a)), k+1, d-1)
		}
	}
	rec([]string{"basis:2:0", "basis:2:1", "new:2"}, 3, depth)
	// vectors, random: dimensions 1..4, shifts at the limb boundary, occasional length mismatch
	// and out-of-range Idx (panics), basis index outside the vector
	for t := 0; t < 6*nrand; t++ {
		n := r.Range(1, 4)
		var prog []string
		var dims []int
		cons := func() {
			d := n
			if r.Chance(1, 25) {
				d = r.Range(0, 4)
			}
			if r.Chance(1, 4) {
				prog = append(prog, fmt.Sprintf("new:%d", d))
			} else {
				i := r.Intn(d + 1)
				if d > 0 && !r.Chance(1, 15) {
					i = r.Intn(d)
				}
				prog = append(prog, fmt.Sprintf("basis:%d:%d", d, i))
			}
			dims = append(dims, d)
		}
		for k, m := 0, r.Range(1, 3); k < m; k++ {
			cons()
		}
		for k, m := 0, r.Range(2, 9); k < m; k++ {
			a := r.Intn(len(dims))
			switch c := r.Intn(20); {
			case c < 11:
				b := r.Intn(len(dims))
				if r.Chance(1, 3) && len(prog) > 0 { // repeat the previous operand pair: "add u e_i" twice
					if f := strings.Split(prog[len(prog)-1], ":"); f[0] == "add" {
						a, b = lib.Atoi(f[1]), lib.Atoi(f[2])
					}
				}
				if dims[a] != dims[b] && !r.Chance(1, 4) {
					b = a
				}
				prog = append(prog, fmt.Sprintf("add:%d:%d", a, b))
				dims = append(dims, dims[a])
				if dims[a] != dims[b] {
					k = m // panics here
				}
			case c < 16:
				prog = append(prog, fmt.Sprintf("lsh:%d:%d", a, []int{0, 1, 2, 3, 31, 63, 64, 65, 127}[r.Intn(9)]))
				dims = append(dims, dims[a])
			case c < 18:
				j := r.Intn(dims[a] + 1)
				if dims[a] > 0 && !r.Chance(1, 8) {
					j = r.Intn(dims[a])
				}
				prog = append(prog, fmt.Sprintf("idx:%d:%d", a, j))
				dims = append(dims, 1)
				if j >= dims[a] {
					k = m
				}
			default:
				cons()
			}
		}
		emit("vhist " + strings.Join(prog, ";"))
	}

	// lists, template over every small list: sub-slices with spare capacity behind them, two
	// concats on the same prefix, clone/sort/unique/insert/merge chain, everything re-read
	allLists([]int64{0, 1, 2}, 4, nil, func(l []int64) {
		allLists([]int64{0, 3}, 2, nil, func(m []int64) {
			h := len(l) / 2
			emit(fmt.Sprintf("lhist lit:%s;lit:%s;sub:0:0:%d;concat:2:1;concat:2:0;concat:0:1;concat:0:0;clone:0;sort:7;unique:8;insert:9:1;merge:9:10;unique:0;unique:2;merge:9:9;clone:2;insert:9:7",
				enc(l), enc(m), h))
		})
	})
	// lists, random programs; merge/insert only on strictly ascending registers, sort never on
	// a register that shares its array through sub
	for t := 0; t < 6*nrand; t++ {
		st := &lref{}
		var prog []string
		do := func(ins string) { prog = append(prog, ins); st.step(ins) }
		lit := func() {
			n := r.Range(0, 5)
			l := make([]int64, n)
			for i := range l {
				l[i] = int64(r.Range(-2, 5))
			}
			if r.Chance(1, 3) {
				sort.Slice(l, func(i, j int) bool { return l[i] < l[j] })
			}
			do("lit:" + enc(l))
		}
		for k, m := 0, r.Range(1, 3); k < m; k++ {
			lit()
		}
		for k, m := 0, r.Range(3, 9); k < m; k++ {
			n := len(st.regs)
			a, b := r.Intn(n), r.Intn(n)
			var sds []int
			for i, l := range st.regs {
				if isSD(l) {
					sds = append(sds, i)
				}
			}
			switch c := r.Intn(20); {
			case c < 3:
				do(fmt.Sprintf("clone:%d", a))
			case c < 7:
				if r.Chance(1, 3) && len(prog) > 0 { // the same first operand as the previous concat
					if f := strings.Split(prog[len(prog)-1], ":"); f[0] == "concat" {
						a = lib.Atoi(f[1])
					}
				}
				do(fmt.Sprintf("concat:%d:%d", a, b))
			case c < 9:
				do(fmt.Sprintf("unique:%d", a))
			case c < 11:
				if !st.shared[a] {
					do(fmt.Sprintf("sort:%d", a))
					do(fmt.Sprintf("unique:%d", len(st.regs)-1))
				}
			case c < 13:
				lo := r.Intn(len(st.regs[a]) + 1)
				hi := lo + r.Intn(len(st.regs[a])-lo+1)
				do(fmt.Sprintf("sub:%d:%d:%d", a, lo, hi))
			case c < 16:
				if len(sds) > 0 {
					do(fmt.Sprintf("merge:%d:%d", sds[r.Intn(len(sds))], sds[r.Intn(len(sds))]))
				}
			case c < 18:
				if len(sds) > 0 {
					do(fmt.Sprintf("insert:%d:%s", sds[r.Intn(len(sds))], hx(big.NewInt(int64(r.Range(-3, 6))))))
				}
			case c < 19:
				if len(st.regs[a]) > 0 {
					do(fmt.Sprintf("minmax:%d:%d:%d", a, r.Intn(len(st.regs[a])), r.Intn(len(st.regs[a]))))
				}
			default:
				lit()
			}
		}
		emit("lhist " + strings.Join(prog, ";"))
	}
}

// ---- bhist: big-integer registers; the caller may overwrite ("scribble") a value it was given ----
//
// Every register is a list of integers (single results are one-element lists). "scribble:a:k:m"
// writes to element k of register a IN PLACE, as a caller using a returned value as its own
// accumulator would; afterwards every later call must still return its mathematical value and
// every other register must be unchanged. Results that are documented to share integers with
// their arguments (MinMax returns its arguments; Unique/MergeUnique/Concat return their
// arguments' elements) are expected to alias: such registers, and the registers they were
// computed from, are never scribbled by the generator (the reference marks that as unspecified).

func runBhist(prog string) string {
	var regs [][]*big.Int
	elem := func(a, k int) *big.Int {
		if a >= len(regs) || k >= len(regs[a]) {
			return nil
		}
		return regs[a][k]
	}
	for _, ins := range strings.Split(prog, ";") {
		f := strings.Split(ins, ":")
		a := func(k int) int { return lib.Atoi(f[k]) }
		switch f[0] {
		case "lit":
			regs = append(regs, []*big.Int{phx(f[1])})
		case "pow2":
			regs = append(regs, []*big.Int{verifhook.BigintPow2(uint(a(1)))})
		case "ones":
			regs = append(regs, []*big.Int{verifhook.BigintOnes(uint(a(1)))})
		case "mask":
			regs = append(regs, []*big.Int{verifhook.BigintMask(uint(a(1)), uint(a(2)))})
		case "extract":
			x := elem(a(1), a(2))
			if x == nil {
				return "err badreg"
			}
			regs = append(regs, []*big.Int{verifhook.BigintExtract(x, uint(a(3)), uint(a(4)))})
		case "minmax":
			x, y := elem(a(1), a(2)), elem(a(3), a(4))
			if x == nil || y == nil {
				return "err badreg"
			}
			mn, mx := verifhook.BigintMinMax(x, y)
			regs = append(regs, []*big.Int{mn, mx})
		case "pow2upto":
			x := elem(a(1), a(2))
			if x == nil {
				return "err badreg"
			}
			regs = append(regs, verifhook.BigintPow2UpTo(x))
		case "uint64s":
			x := elem(a(1), a(2))
			if x == nil {
				return "err badreg"
			}
			if x.Sign() < 0 {
				return "err negative" // never terminates in Go
			}
			ws := verifhook.BigintUint64s(x)
			bs := make([]*big.Int, len(ws))
			for i, w := range ws {
				bs[i] = new(big.Int).SetUint64(w)
			}
			regs = append(regs, bs)
		case "unique":
			if a(1) >= len(regs) {
				return "err badreg"
			}
			regs = append(regs, verifhook.BigintsUnique(regs[a(1)]))
		case "merge", "concat":
			if a(1) >= len(regs) || a(2) >= len(regs) {
				return "err badreg"
			}
			if f[0] == "merge" {
				regs = append(regs, verifhook.BigintsMergeUnique(regs[a(1)], regs[a(2)]))
			} else {
				regs = append(regs, verifhook.BigintsConcat(regs[a(1)], regs[a(2)]))
			}
		case "scribble":
			r := elem(a(1), a(2))
			if r == nil {
				return "err badreg"
			}
			switch a(3) {
			case 0:
				r.Add(r, one)
			case 1:
				r.Lsh(r, 8)
			case 2:
				r.SetInt64(0)
			default:
				r.Not(r)
			}
			regs = append(regs, []*big.Int{new(big.Int).Set(r)})
		default:
			panic("unknown bhist instruction " + ins)
		}
	}
	return fmtRegs(regs)
}

type bref struct {
	regs    [][]*big.Int
	aliased []bool // shares integers with another register by contract
	unspec  bool
	badline string
}

func (st *bref) step(ins string) {
	f := strings.Split(ins, ":")
	a := func(k int) int { return lib.Atoi(f[k]) }
	push := func(l ...*big.Int) {
		if l == nil {
			l = []*big.Int{}
		}
		st.regs = append(st.regs, l)
		st.aliased = append(st.aliased, false)
	}
	elem := func(ra, k int) *big.Int {
		if ra >= len(st.regs) || k >= len(st.regs[ra]) {
			st.badline = "err badreg"
			return nil
		}
		return st.regs[ra][k]
	}
	list := func(ra int) []*big.Int {
		if ra >= len(st.regs) {
			st.badline = "err badreg"
			return nil
		}
		return st.regs[ra]
	}
	share := func(rs ...int) {
		for _, r := range rs {
			st.aliased[r] = true
		}
	}
	switch f[0] {
	case "lit":
		push(phx(f[1]))
	case "pow2":
		push(pow(a(1)))
	case "ones":
		push(new(big.Int).Sub(pow(a(1)), one))
	case "mask":
		if a(1) > a(2) {
			st.unspec = true
		}
		push(new(big.Int).Sub(pow(a(2)), pow(a(1))))
	case "extract":
		if x := elem(a(1), a(2)); x != nil {
			if x.Sign() < 0 || a(3) > a(4) {
				st.unspec = true
				push(new(big.Int))
				return
			}
			q := new(big.Int).Div(x, pow(a(3)))
			push(q.Mod(q, pow(a(4)-a(3))))
		}
	case "minmax":
		x := elem(a(1), a(2))
		y := elem(a(3), a(4))
		if x != nil && y != nil {
			if x.Cmp(y) > 0 {
				x, y = y, x
			}
			push(new(big.Int).Set(x), new(big.Int).Set(y))
			share(a(1), a(3), len(st.regs)-1)
		}
	case "pow2upto":
		if x := elem(a(1), a(2)); x != nil {
			var l []*big.Int
			for k := 0; pow(k).Cmp(x) <= 0; k++ {
				l = append(l, pow(k))
			}
			push(l...)
		}
	case "uint64s":
		if x := elem(a(1), a(2)); x != nil {
			if x.Sign() < 0 {
				st.badline = "err negative"
				return
			}
			var l []*big.Int
			for y := new(big.Int).Set(x); y.Sign() > 0; y.Div(y, pow(64)) {
				l = append(l, new(big.Int).Mod(y, pow(64)))
			}
			push(l...)
		}
	case "unique":
		if u := list(a(1)); u != nil {
			push(dedup(lib.CloneInts(u))...)
			share(a(1), len(st.regs)-1)
		}
	case "merge", "concat":
		u, v := list(a(1)), list(a(2))
		if u != nil && v != nil {
			if f[0] == "concat" {
				push(append(lib.CloneInts(u), lib.CloneInts(v)...)...)
			} else {
				if !isSD(u) || !isSD(v) {
					st.unspec = true
				}
				push(dedup(sortedInts(append(lib.CloneInts(u), v...)))...)
			}
			share(a(1), a(2), len(st.regs)-1)
		}
	case "scribble":
		if x := elem(a(1), a(2)); x != nil {
			if st.aliased[a(1)] {
				st.unspec = true
			}
			v := new(big.Int)
			switch a(3) {
			case 0:
				v.Add(x, one)
			case 1:
				v.Mul(x, big.NewInt(256))
			case 2:
			default:
				v.Neg(x)
				v.Sub(v, one)
			}
			l := lib.CloneInts(st.regs[a(1)])
			l[a(2)] = v
			st.regs[a(1)] = l
			push(new(big.Int).Set(v))
		}
	}
}

func refBhist(prog string) *bref {
	st := &bref{}
	for _, ins := range strings.Split(prog, ";") {
		st.step(ins)
		if st.badline != "" {
			break
		}
	}
	return st
}

func genBhist(thorough bool, nrand int, r *lib.Rand, emit func(string)) {
	// every n in 0..70, every kind of write: the same n requested before and after the caller
	// scribbles on what it was given; knock-on users of Ones (Uint64s masks with Ones(64))
	big70 := hx(new(big.Int).Add(pow(70), big.NewInt(0x1234567)))
	for n := 0; n <= 70; n++ {
		for m := 0; m <= 3; m++ {
			emit(fmt.Sprintf("bhist ones:%d;pow2:%d;mask:0:%d;scribble:0:0:%d;ones:%d;scribble:1:0:%d;pow2:%d;scribble:2:0:%d;mask:0:%d;"+
				"lit:%s;extract:9:0:0:%d;uint64s:9:0;ones:64;scribble:12:0:%d;uint64s:9:0;extract:9:0:3:%d;ones:%d;ones:64;scribble:10:0:%d;extract:9:0:0:%d",
				n, n, n, m, n, m, n, m, n, big70, n, m, n+3, n, m, n))
			emit(fmt.Sprintf("bhist ones:%d;scribble:0:0:%d;ones:%d;scribble:2:0:%d;ones:%d;ones:%d", n, m, n, (m+1)%4, n, n))
		}
		// the repunit idiom: r := Ones(n); r.Lsh(r, 8); then Ones(n) again
		emit(fmt.Sprintf("bhist ones:%d;scribble:0:0:1;ones:%d;mask:%d:%d;scribble:3:0:1;mask:%d:%d;pow2upto:2:0;scribble:6:0:2;pow2upto:2:0;uint64s:2:0;scribble:9:0:0;uint64s:2:0",
			n, n, n/2, n, n/2, n))
	}
	// random programs
	for t := 0; t < 6*nrand; t++ {
		st := &bref{}
		var prog []string
		do := func(ins string) { prog = append(prog, ins); st.step(ins) }
		small := func() int {
			if r.Chance(1, 6) {
				return r.Range(60, 70)
			}
			return r.Range(0, 70)
		}
		pick := func(nonneg bool) (int, int, bool) { // a register element
			for tries := 0; tries < 8; tries++ {
				a := r.Intn(len(st.regs))
				if len(st.regs[a]) == 0 {
					continue
				}
				k := r.Intn(len(st.regs[a]))
				if nonneg && st.regs[a][k].Sign() < 0 {
					continue
				}
				return a, k, true
			}
			return 0, 0, false
		}
		last := small()
		do(fmt.Sprintf("ones:%d", last))
		for k, m := 0, r.Range(4, 12); k < m; k++ {
			n := small()
			if r.Chance(1, 2) {
				n = last // the same n around a scribble
			}
			last = n
			switch c := r.Intn(24); {
			case c < 5:
				do(fmt.Sprintf("ones:%d", n))
			case c < 7:
				do(fmt.Sprintf("pow2:%d", n))
			case c < 9:
				l := r.Intn(n + 1)
				do(fmt.Sprintf("mask:%d:%d", l, n))
			case c < 15:
				if a, e, ok := pick(false); ok && !st.aliased[a] {
					do(fmt.Sprintf("scribble:%d:%d:%d", a, e, r.Intn(4)))
				}
			case c < 17:
				if a, e, ok := pick(true); ok {
					l := r.Intn(n + 1)
					do(fmt.Sprintf("extract:%d:%d:%d:%d", a, e, l, n))
				}
			case c < 19:
				if a, e, ok := pick(true); ok {
					do(fmt.Sprintf("uint64s:%d:%d", a, e))
				}
			case c < 20:
				if a, e, ok := pick(false); ok && st.regs[a][e].BitLen() <= 200 {
					do(fmt.Sprintf("pow2upto:%d:%d", a, e))
				}
			case c < 21:
				a, e, ok1 := pick(false)
				b, g, ok2 := pick(false)
				if ok1 && ok2 {
					do(fmt.Sprintf("minmax:%d:%d:%d:%d", a, e, b, g))
				}
			case c < 22:
				do(fmt.Sprintf("unique:%d", r.Intn(len(st.regs))))
			case c < 23:
				do(fmt.Sprintf("concat:%d:%d", r.Intn(len(st.regs)), r.Intn(len(st.regs))))
			default:
				var sds []int
				for i, l := range st.regs {
					if isSD(l) {
						sds = append(sds, i)
					}
				}
				do(fmt.Sprintf("merge:%d:%d", sds[r.Intn(len(sds))], sds[r.Intn(len(sds))]))
			}
		}
		emit("bhist " + strings.Join(prog, ";"))
	}
}

// ---- argument identity shapes ----
// A list is given by its values plus an id per position: positions with the same id hold the
// SAME *big.Int object. "<fn>at j list ids" passes the very object stored at position j as the
// integer argument (a later duplicate, an object shared by several positions, ...). The
// specification only speaks about values, so must the implementation.

func shaped(listField, idsField string) []*big.Int {
	vals := lib.ParseHexList(listField)
	ids := lib.ParseIntList(idsField)
	if len(ids) != len(vals) {
		panic("harness: shape length")
	}
	objs := map[int]*big.Int{}
	out := make([]*big.Int, len(vals))
	for i := range vals {
		if o, ok := objs[ids[i]]; ok {
			if o.Cmp(vals[i]) != 0 {
				panic("harness: shape shares unequal values")
			}
			out[i] = o
		} else {
			objs[ids[i]] = vals[i]
			out[i] = vals[i]
		}
	}
	return out
}

// idShapes: all objects distinct; one object per value; a random mixture.
func idShapes(r *lib.Rand, vals []*big.Int) []string {
	n := len(vals)
	distinct, byval, mixed := make([]int, n), make([]int, n), make([]int, n)
	for i := range vals {
		distinct[i] = i
		byval[i] = i
		for j := 0; j < i; j++ {
			if vals[j].Cmp(vals[i]) == 0 {
				byval[i] = byval[j]
				break
			}
		}
		mixed[i] = i
		if r.Bool() {
			mixed[i] = byval[i]
		}
	}
	out := []string{lib.IntList(distinct)}
	for _, s := range []string{lib.IntList(byval), lib.IntList(mixed)} {
		dup := false
		for _, o := range out {
			dup = dup || o == s
		}
		if !dup {
			out = append(out, s)
		}
	}
	return out
}

func genShapes(thorough bool, nrand int, r *lib.Rand, emit func(string)) {
	perList := func(l []*big.Int) {
		e := lib.HexList(l)
		for _, ids := range idShapes(r, l) {
			for j := range l {
				emit(fmt.Sprintf("indexat %d %s %s", j, e, ids))
				emit(fmt.Sprintf("containsat %d %s %s", j, e, ids))
				if isSorted(l) {
					emit(fmt.Sprintf("containssortedat %d %s %s", j, e, ids))
				}
				if isSD(l) {
					emit(fmt.Sprintf("insertat %d %s %s", j, e, ids))
				}
				for i := 0; i <= j; i++ {
					if len(l) <= 3 || i == j || l[i].Cmp(l[j]) == 0 {
						emit(fmt.Sprintf("minmaxat %d %d %s %s", i, j, e, ids))
						emit(fmt.Sprintf("minmaxat %d %d %s %s", j, i, e, ids))
					}
				}
			}
			if isSD(l) {
				emit(fmt.Sprintf("mergeat 0 %s %s", e, ids))
				emit(fmt.Sprintf("mergeat 1 %s %s", e, ids))
			}
			if len(l) <= 3 {
				emit(fmt.Sprintf("concatat 0 %s %s", e, ids))
				emit(fmt.Sprintf("concatat 1 %s %s", e, ids))
			}
		}
	}
	maxlen := 4
	if thorough {
		maxlen = 6
	}
	allLists([]int64{-1, 0, 2}, maxlen, nil, func(l []int64) {
		bs := make([]*big.Int, len(l))
		for i, v := range l {
			bs[i] = big.NewInt(v)
		}
		perList(bs)
	})
	allLists([]int64{0, 1, 2, 3, 4, 5}, 6, func(prev, v int64, _ bool) bool { return prev < v }, func(l []int64) {
		if len(l) > maxlen {
			bs := make([]*big.Int, len(l))
			for i, v := range l {
				bs[i] = big.NewInt(v)
			}
			perList(bs)
		}
	})
	for t := 0; t < nrand; t++ { // multi-limb values, many duplicates, sometimes ascending
		n := r.Range(1, 8)
		l := make([]*big.Int, n)
		for j := range l {
			if j > 0 && r.Chance(1, 2) {
				l[j] = new(big.Int).Set(l[r.Intn(j)])
			} else {
				l[j] = r.Bits(r.Range(1, 130))
			}
		}
		if r.Chance(1, 3) {
			l = sortedInts(l)
		}
		perList(l)
	}
}

// ---- oracle: the mathematical definitions, written independently ----

func isSD(l []*big.Int) bool {
	for i := 1; i < len(l); i++ {
		if l[i-1].Cmp(l[i]) >= 0 {
			return false
		}
	}
	return true
}

func isSorted(l []*big.Int) bool {
	for i := 1; i < len(l); i++ {
		if l[i-1].Cmp(l[i]) > 0 {
			return false
		}
	}
	return true
}

func member(x *big.Int, l []*big.Int) bool {
	for _, y := range l {
		if x.Cmp(y) == 0 {
			return true
		}
	}
	return false
}

// sameMultiset: equal as bags of values.
func sameMultiset(a, b []*big.Int) bool {
	if len(a) != len(b) {
		return false
	}
	cnt := map[string]int{}
	for _, x := range a {
		cnt[x.String()]++
	}
	for _, x := range b {
		cnt[x.String()]--
	}
	for _, n := range cnt {
		if n != 0 {
			return false
		}
	}
	return true
}

func pow(e int) *big.Int { return new(big.Int).Exp(big.NewInt(2), big.NewInt(int64(e)), nil) }

var one = big.NewInt(1)

func oracle(c, res string) string {
	f := strings.Split(c, " ")
	if strings.HasPrefix(res, "panic") {
		switch f[0] {
		case "vadd":
			if res == "panic lenmismatch" && len(lib.ParseHexList(f[1])) != len(lib.ParseHexList(f[2])) {
				return ""
			}
		case "basisidx":
			if res == "panic index" && lib.Atoi(f[3]) >= lib.Atoi(f[1]) {
				return ""
			}
		case "vhist":
			if _, want := refVhist(f[1]); want == res {
				return ""
			}
		}
		return "unexpected " + res
	}
	// arguments unmodified, result reproducible: run again on fresh copies
	if f[0] != "sort" && !strings.HasSuffix(f[0], "hist") { // histories: the value check below is complete
		line, mut := call(c)
		if mut != "" {
			return mut
		}
		if line != res {
			return "result not reproducible"
		}
	}
	payload := strings.TrimPrefix(res, "ok ")
	switch f[0] {
	case "pow2":
		if phx(payload).Cmp(pow(lib.Atoi(f[1]))) != 0 {
			return "pow2 != 2^e"
		}
	case "ones":
		want := new(big.Int).Sub(pow(lib.Atoi(f[1])), one)
		if phx(payload).Cmp(want) != 0 {
			return "ones(n) != 2^n-1"
		}
	case "mask":
		l, h := lib.Atoi(f[1]), lib.Atoi(f[2])
		if l > h {
			return "" // out of range
		}
		m := phx(payload)
		if m.Sign() < 0 {
			return "mask negative"
		}
		for i := 0; i <= h+2; i++ {
			want := uint(0)
			if l <= i && i < h {
				want = 1
			}
			if m.Bit(i) != want {
				return fmt.Sprintf("mask bit %d wrong", i)
			}
		}
		if m.BitLen() > h {
			return "mask has high bits"
		}
	case "extract":
		x, l, h := phx(f[1]), lib.Atoi(f[2]), lib.Atoi(f[3])
		if x.Sign() < 0 || l > h {
			return "" // out of range
		}
		q := new(big.Int).Div(x, pow(l))
		want := q.Mod(q, pow(h-l))
		if phx(payload).Cmp(want) != 0 {
			return "extract != floor(x/2^l) mod 2^(h-l)"
		}
	case "ispow2":
		x := phx(f[1])
		want := false
		for e := 0; e <= x.BitLen(); e++ {
			if pow(e).Cmp(x) == 0 {
				want = true
			}
		}
		if payload != lib.Bool(want) {
			return "ispow2 wrong"
		}
	case "pow2upto":
		x := phx(f[1])
		got := lib.ParseHexList(payload)
		k := 0
		for ; pow(k).Cmp(x) <= 0; k++ {
			if k >= len(got) || got[k].Cmp(pow(k)) != 0 {
				return "pow2upto misses a power"
			}
		}
		if len(got) != k {
			return "pow2upto has extra elements"
		}
	case "bitsset":
		x := phx(f[1])
		if x.Sign() < 0 {
			return "" // out of range
		}
		got := lib.ParseIntList(payload)
		sum := new(big.Int)
		for i, b := range got {
			if b < 0 || (i > 0 && got[i-1] >= b) {
				return "bitsset not ascending"
			}
			sum.Add(sum, pow(b))
		}
		if sum.Cmp(x) != 0 {
			return "bitsset does not sum to x"
		}
	case "minmax":
		x, y := phx(f[1]), phx(f[2])
		p := strings.Split(payload, " ")
		mn, mx := phx(p[0]), phx(p[1])
		if mn.Cmp(mx) > 0 || !((mn.Cmp(x) == 0 && mx.Cmp(y) == 0) || (mn.Cmp(y) == 0 && mx.Cmp(x) == 0)) {
			return "minmax wrong"
		}
	case "uint64s":
		x := phx(f[1])
		ws := lib.ParseHexList(payload)
		sum := new(big.Int)
		for i := len(ws) - 1; i >= 0; i-- {
			if ws[i].Sign() < 0 || ws[i].Cmp(pow(64)) >= 0 {
				return "uint64s limb out of range"
			}
			sum.Mul(sum, pow(64))
			sum.Add(sum, ws[i])
		}
		if sum.Cmp(x) != 0 {
			return "uint64s limbs do not sum to x"
		}
		if len(ws) > 0 && ws[len(ws)-1].Sign() == 0 {
			return "uint64s top limb zero"
		}
	case "bytesle":
		x := phx(f[1])
		b := lib.ParseBytes(payload)
		sum := new(big.Int)
		for i := len(b) - 1; i >= 0; i-- {
			sum.Mul(sum, big.NewInt(256))
			sum.Add(sum, big.NewInt(int64(b[i])))
		}
		if sum.CmpAbs(x) != 0 {
			return "bytesle does not represent |x|"
		}
		if len(b) > 0 && b[len(b)-1] == 0 {
			return "bytesle top byte zero"
		}
	case "hex", "binary":
		base := 16
		digits := "0123456789abcdef"
		if f[0] == "binary" {
			base, digits = 2, "01"
		}
		raw := lib.ParseBytes(f[1])
		s := make([]byte, 0, len(raw))
		for _, ch := range raw {
			if ch != '_' {
				if 'A' <= ch && ch <= 'Z' {
					ch += 'a' - 'A'
				}
				s = append(s, ch)
			}
		}
		neg := false
		if len(s) > 0 && (s[0] == '-' || s[0] == '+') {
			neg, s = s[0] == '-', s[1:]
		}
		valid := len(s) > 0
		v := new(big.Int)
		for _, ch := range s {
			d := strings.IndexByte(digits, ch)
			if d < 0 {
				valid = false
				break
			}
			v.Mul(v, big.NewInt(int64(base)))
			v.Add(v, big.NewInt(int64(d)))
		}
		if neg {
			v.Neg(v)
		}
		if !valid {
			if res != "err parse" {
				return "accepted a malformed literal"
			}
			return ""
		}
		if res == "err parse" {
			return "rejected a well-formed literal"
		}
		if phx(payload).Cmp(v) != 0 {
			return "literal value wrong"
		}
	case "sort":
		l, got := lib.ParseHexList(f[1]), lib.ParseHexList(payload)
		if !isSorted(got) {
			return "sort result not ascending"
		}
		if !sameMultiset(l, got) {
			return "sort result is not a permutation of the input"
		}
	case "index", "contains", "containssorted":
		x, l := phx(f[1]), lib.ParseHexList(f[2])
		first := -1
		for i, y := range l {
			if y.Cmp(x) == 0 {
				first = i
				break
			}
		}
		switch f[0] {
		case "index":
			if payload != fmt.Sprint(first) {
				return "index is not the first occurrence"
			}
		case "contains":
			if payload != lib.Bool(first >= 0) {
				return "contains wrong"
			}
		case "containssorted":
			if isSorted(l) && payload != lib.Bool(first >= 0) {
				return "containssorted wrong on a sorted list"
			}
		}
	case "clone":
		if !lib.EqualInts(lib.ParseHexList(payload), lib.ParseHexList(f[1])) {
			return "clone differs"
		}
	case "concat":
		want := append(lib.ParseHexList(f[1]), lib.ParseHexList(f[2])...)
		if !lib.EqualInts(lib.ParseHexList(payload), want) {
			return "concat is not xs followed by ys"
		}
	case "unique":
		l := lib.ParseHexList(f[1])
		want := []*big.Int{}
		for i, x := range l {
			if i == 0 || x.Cmp(l[i-1]) != 0 {
				want = append(want, x)
			}
		}
		got := lib.ParseHexList(payload)
		if !lib.EqualInts(got, want) {
			return "unique is not consecutive de-duplication"
		}
		if isSorted(l) && !isSD(got) {
			return "unique of a sorted list is not strictly ascending"
		}
	case "insert", "merge":
		var a, b []*big.Int
		if f[0] == "insert" {
			a, b = lib.ParseHexList(f[1]), []*big.Int{phx(f[2])}
		} else {
			a, b = lib.ParseHexList(f[1]), lib.ParseHexList(f[2])
		}
		if !isSD(a) || !isSD(b) {
			return "" // out of range
		}
		got := lib.ParseHexList(payload)
		if !isSD(got) {
			return "result not sorted distinct"
		}
		for _, x := range got {
			if !member(x, a) && !member(x, b) {
				return "result has a foreign element"
			}
		}
		for _, x := range append(lib.CloneInts(a), b...) {
			if !member(x, got) {
				return "result misses an element"
			}
		}
	case "vadd":
		a, b := lib.ParseHexList(f[1]), lib.ParseHexList(f[2])
		if len(a) != len(b) {
			return "vadd accepted a length mismatch"
		}
		got := lib.ParseHexList(payload)
		if len(got) != len(a) {
			return "vadd length"
		}
		for i := range a {
			if got[i].Cmp(new(big.Int).Add(a[i], b[i])) != 0 {
				return "vadd wrong"
			}
		}
	case "vlsh":
		a, s := lib.ParseHexList(f[1]), lib.Atoi(f[2])
		got := lib.ParseHexList(payload)
		if len(got) != len(a) {
			return "vlsh length"
		}
		for i := range a {
			if got[i].Cmp(new(big.Int).Mul(a[i], pow(s))) != 0 {
				return "vlsh wrong"
			}
		}
	case "vnew":
		got := lib.ParseHexList(payload)
		if len(got) != lib.Atoi(f[1]) {
			return "vnew length"
		}
		for _, x := range got {
			if x.Sign() != 0 {
				return "vnew not zero"
			}
		}
	case "basis":
		n, i := lib.Atoi(f[1]), lib.Atoi(f[2])
		got := lib.ParseHexList(payload)
		if len(got) != n {
			return "basis length"
		}
		for j := range got {
			want := int64(0)
			if j == i {
				want = 1
			}
			if got[j].Cmp(big.NewInt(want)) != 0 {
				return "basis wrong"
			}
		}
	case "basisidx":
		n, i, j := lib.Atoi(f[1]), lib.Atoi(f[2]), lib.Atoi(f[3])
		if j >= n {
			return "basis Idx out of range did not panic"
		}
		want := "0"
		if j == i {
			want = "1"
		}
		if payload != want {
			return "basis Idx wrong"
		}
	case "vhist":
		regs, want := refVhist(f[1])
		if want == "" {
			want = fmtRegs(regs)
		}
		if res != want {
			return "a register does not hold its mathematical value at the end: want " + want
		}
	case "indexat", "containsat", "containssortedat", "insertat":
		l := lib.ParseHexList(f[2])
		x := l[lib.Atoi(f[1])]
		first := 0
		for l[first].Cmp(x) != 0 {
			first++
		}
		switch f[0] {
		case "indexat":
			if payload != fmt.Sprint(first) {
				return "index is not the first occurrence of the value (the argument is the object at a later position)"
			}
		case "containsat":
			if payload != "1" {
				return "contains false for an element of the list"
			}
		case "containssortedat":
			if isSorted(l) && payload != "1" {
				return "containssorted false for an element of a sorted list"
			}
		case "insertat":
			if isSD(l) && !lib.EqualInts(lib.ParseHexList(payload), l) {
				return "inserting an element of the list changed its contents"
			}
		}
	case "minmaxat":
		l := lib.ParseHexList(f[3])
		x, y := l[lib.Atoi(f[1])], l[lib.Atoi(f[2])]
		if x.Cmp(y) > 0 {
			x, y = y, x
		}
		if payload != hx(x)+" "+hx(y) {
			return "minmax wrong"
		}
	case "mergeat":
		l := lib.ParseHexList(f[2])
		if isSD(l) && !lib.EqualInts(lib.ParseHexList(payload), l) {
			return "merging a sorted distinct list with itself is not that list"
		}
	case "concatat":
		l := lib.ParseHexList(f[2])
		if !lib.EqualInts(lib.ParseHexList(payload), append(lib.CloneInts(l), l...)) {
			return "concat is not xs followed by xs"
		}
	case "bhist":
		st := refBhist(f[1])
		if st.unspec {
			return "" // out of range
		}
		want := st.badline
		if want == "" {
			want = fmtRegs(st.regs)
		}
		if res != want {
			return "a register or a later result does not hold its mathematical value: want " + want
		}
	case "lhist":
		st := refLhist(f[1])
		if st.unspec {
			return "" // out of range
		}
		want := st.badline
		if want == "" {
			want = fmtRegs(st.regs)
		}
		if res != want {
			return "a register does not hold its mathematical value at the end: want " + want
		}
	default:
		return "no oracle for " + f[0]
	}
	return ""
}

// ---- neighbours (hunt mode): same function, perturbed arguments ----

// argKinds: d = decimal, x = hex integer, n = non-negative hex integer, l = hex list, b = byte string.
var argKinds = map[string]string{
	"pow2": "d", "ones": "d", "mask": "dd", "ispow2": "x", "pow2upto": "x", "bitsset": "x", "bytesle": "x",
	"uint64s": "n", "minmax": "xx", "extract": "xdd", "hex": "b", "binary": "b", "sort": "l", "unique": "l",
	"clone": "l", "vnew": "d", "index": "xl", "contains": "xl", "containssorted": "xl", "insert": "lx",
	"merge": "ll", "concat": "ll", "vadd": "ll", "vlsh": "ld", "basis": "dd", "basisidx": "ddd",
}

func neighbours(c string, r *lib.Rand, emit func(string)) {
	f := strings.Split(c, " ")
	if f[0] == "vhist" || f[0] == "lhist" || f[0] == "bhist" {
		// every prefix (registers only refer backwards, so prefixes stay well-formed) and the
		// program with each instruction repeated at the end
		ins := strings.Split(f[1], ";")
		for k := 1; k <= len(ins); k++ {
			emit(f[0] + " " + strings.Join(ins[:k], ";"))
		}
		for _, i := range ins {
			if !strings.HasPrefix(i, "sort:") && !strings.HasPrefix(i, "scribble:") {
				emit(f[0] + " " + f[1] + ";" + i)
			}
		}
		return
	}
	if strings.HasSuffix(f[0], "at") && f[0] != "minmaxat" && f[0] != "mergeat" && f[0] != "concatat" {
		l := lib.ParseHexList(f[2]) // every position as the argument, every identity shape
		for _, ids := range idShapes(r, l) {
			for j := range l {
				emit(fmt.Sprintf("%s %d %s %s", f[0], j, f[2], ids))
			}
		}
		return
	}
	kinds, ok := argKinds[f[0]]
	if !ok || len(kinds) != len(f)-1 {
		return
	}
	with := func(k int, v string) {
		g := append([]string{}, f...)
		g[k] = v
		emit(strings.Join(g, " "))
	}
	ints := func(x *big.Int, nonneg bool) []*big.Int {
		out := []*big.Int{new(big.Int).Add(x, one), new(big.Int).Sub(x, one), new(big.Int).Lsh(x, 1), new(big.Int).Rsh(x, 1),
			new(big.Int).Neg(x), new(big.Int).Xor(x, pow(r.Intn(x.BitLen()+2)))}
		var keep []*big.Int
		for _, y := range out {
			if !nonneg || y.Sign() >= 0 {
				keep = append(keep, y)
			}
		}
		return keep
	}
	for k := 1; k < len(f); k++ {
		switch kinds[k-1] {
		case 'd':
			v := lib.Atoi(f[k])
			for _, w := range []int{v - 1, v + 1, v / 2, v + 64} {
				if w >= 0 && w <= 2000 {
					with(k, fmt.Sprint(w))
				}
			}
		case 'x', 'n':
			for _, y := range ints(phx(f[k]), kinds[k-1] == 'n') {
				with(k, hx(y))
			}
		case 'l':
			l := lib.ParseHexList(f[k])
			for i := range l {
				with(k, lib.HexList(append(append([]*big.Int{}, l[:i]...), l[i+1:]...))) // drop
				for _, y := range ints(l[i], false)[:2] {
					m := append([]*big.Int{}, l...)
					m[i] = y
					with(k, lib.HexList(m))
				}
				with(k, lib.HexList(append(append([]*big.Int{}, l[:i+1]...), l[i:]...))) // duplicate
			}
			with(k, lib.HexList(sortedInts(l)))
		case 'b':
			b := lib.ParseBytes(f[k])
			for i := 0; i <= len(b); i++ {
				with(k, lib.Bytes(append(append(append([]byte{}, b[:i]...), '_'), b[i:]...)))
				if i < len(b) {
					with(k, lib.Bytes(append(append([]byte{}, b[:i]...), b[i+1:]...)))
					m := append([]byte{}, b...)
					m[i] = "0123456789abcdefABCDEFgG-+ _"[r.Intn(28)]
					with(k, lib.Bytes(m))
				}
			}
		}
	}
}

func main() {
	lib.Main(lib.Prop{
		ID:         "C19",
		Neighbours: neighbours,
		Gen:        gen,
		Run:        run,
		Oracle:     oracle,
		Nontrivial: func(c, res string) bool {
			// the result is not the degenerate one (empty list, zero, false on an empty input)
			if strings.HasPrefix(res, "panic") || res == "err parse" {
				return true
			}
			return res != "ok -" && res != "ok 0" && !strings.HasSuffix(c, " -")
		},
		PanicClass: func(v interface{}) string {
			s := fmt.Sprint(v) // package panics are strings, slice index panics runtime errors
			switch {
			case strings.Contains(s, "length mismatch"):
				return "lenmismatch"
			case strings.Contains(s, "index out of range"):
				return "index"
			}
			return "other"
		},
	})
}
