// C16: names in built scripts are unique, legal and say what the value is.
package main

import (
	"fmt"
	"math/big"
	"strconv"
	"strings"

	"github.com/mmcloughlin/addchain"
	"github.com/mmcloughlin/addchain/acc"
	"github.com/mmcloughlin/addchain/acc/ast"
	"verif/harness/c04c16"
	"verif/harness/lib"
)

func oracle(c, res string) string {
	f := strings.Split(c, " ")
	if f[0] == "cbuild" {
		return c04c16.CheckConcurrent(c, res, func(_ addchain.Program, s *ast.Chain) string { return c04c16.CheckNames(s) })
	}
	p := c04c16.ParseOps(f[1])
	if !c04c16.Valid(p) {
		return "" // outside the quantifier; compared with the model only
	}
	if !strings.HasPrefix(res, "ok ") {
		return "valid program not processed: " + res
	}
	payload := strings.TrimPrefix(res, "ok ")
	vals := c04c16.Values(p)
	switch f[0] {
	case "build":
		q, err := acc.Decompile(p)
		if err != nil {
			return "Decompile: " + err.Error()
		}
		s, err := acc.Build(q)
		if err != nil {
			return "Build: " + err.Error()
		}
		if c04c16.EncodeAST(s) != payload {
			return "Build is not deterministic"
		}
		return c04c16.CheckNames(s)
	case "rebuild":
		// the same decompiled program built repeatedly (Build x3, acc.String, acc.Write): every
		// script must satisfy the property, and the program's chain must not be disturbed
		q, err := acc.Decompile(p)
		if err != nil {
			return "Decompile: " + err.Error()
		}
		r, msg := c04c16.Rebuild(q)
		if r == nil {
			return "rebuilding failed: " + msg
		}
		for k, s := range r.Trees {
			if m := c04c16.CheckNames(s); m != "" {
				return fmt.Sprintf("build %d of the same program: %s", k+1, m)
			}
		}
		if msg != "" {
			return msg
		}
		if !lib.EqualInts(r.Chain, vals) {
			return "building changed the chain values of the program"
		}
		if c04c16.EncodeAST(r.Trees[0]) != payload {
			return "Build is not deterministic"
		}
	case "names":
		// identifiers the passes attach to operands: each one describes the element at its index
		if payload == "-" {
			return ""
		}
		for _, e := range strings.Split(payload, ",") {
			kv := strings.Split(e, ":")
			idx := lib.Atoi(kv[0])
			name := string(lib.ParseBytes(kv[1]))
			if idx < 0 || idx >= len(vals) {
				return "identifier on an index outside the chain"
			}
			v := vals[idx]
			switch {
			case name == "":
			case strings.HasPrefix(name, "_"):
				w, ok := new(big.Int).SetString(name[1:], 2)
				if !ok || w.Cmp(v) != 0 || strings.ContainsAny(name[1:], "+-_") {
					return fmt.Sprintf("identifier %s on value %s", name, v.Text(2))
				}
			case strings.HasPrefix(name, "x"):
				n, err := strconv.Atoi(name[1:])
				if err != nil || n < 0 {
					return "identifier of no known scheme: " + name
				}
				w := new(big.Int).Lsh(big.NewInt(1), uint(n))
				if w.Sub(w, big.NewInt(1)).Cmp(v) != 0 {
					return fmt.Sprintf("identifier %s on value %s", name, v.Text(2))
				}
			default:
				return "identifier of no known scheme: " + name
			}
		}
	}
	return ""
}

func main() {
	lib.Main(lib.Prop{
		ID:     "C16",
		Gen:    c04c16.Gen([]string{"build", "names"}, []string{"rebuild"}, 16),
		Neighbours: c04c16.Neighbours,
		Run:    c04c16.Run,
		Oracle: oracle,
		Nontrivial: func(c, res string) bool {
			if strings.HasPrefix(c, "cbuild ") {
				return strings.HasPrefix(res, "ok ")
			}
			p := c04c16.ParseOps(strings.Split(c, " ")[1])
			return strings.HasPrefix(res, "ok ") && len(p) >= 3 && c04c16.Valid(p)
		},
		PanicClass: c04c16.PanicClass,
	})
}
