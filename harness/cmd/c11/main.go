// C11: a chain of run lengths becomes a valid chain of the runs themselves.
package main

import (
	"fmt"
	"math/big"
	"sort"
	"strings"

	"github.com/mmcloughlin/addchain"
	"github.com/mmcloughlin/addchain/alg/dict"
	"verif/harness/lib"
)

// ---- own definition of "addition chain" (the judge; does not call the repo's validators) ----
func isChain(c []*big.Int) bool {
	if len(c) == 0 || c[0].Cmp(big.NewInt(1)) != 0 {
		return false
	}
	seen := map[string]bool{}
	s := new(big.Int)
	for k, x := range c {
		if x.Sign() == 0 || seen[x.String()] {
			return false
		}
		seen[x.String()] = true
		if k == 0 {
			continue
		}
		found := false
		for i := 0; i < k && !found; i++ {
			for j := i; j < k; j++ {
				if s.Add(c[i], c[j]).Cmp(x) == 0 {
					found = true
					break
				}
			}
		}
		if !found {
			return false
		}
	}
	return true
}

// the same for long derived chains: hash lookup of x - c[i] among earlier elements, newest first
func key(x *big.Int) string {
	if x.Sign() < 0 {
		return "-" + string(x.Bytes())
	}
	return string(x.Bytes())
}

func isChainFast(c []*big.Int) bool {
	if len(c) == 0 || c[0].Cmp(big.NewInt(1)) != 0 {
		return false
	}
	pos := map[string]int{}
	d := new(big.Int)
	for k, x := range c {
		if x.Sign() == 0 {
			return false
		}
		if _, dup := pos[key(x)]; dup {
			return false
		}
		if k > 0 {
			found := false
			for i := k - 1; i >= 0; i-- {
				d.Sub(x, c[i])
				if _, ok := pos[key(d)]; ok { // an earlier element (all keys so far have position < k)
					found = true
					break
				}
			}
			if !found {
				return false
			}
		}
		pos[key(x)] = k
	}
	return true
}

func allChains(maxlen int, sampleFrom int, num, den int, r *lib.Rand, f func([]int64)) {
	var rec func(c []int64)
	rec = func(c []int64) {
		f(c)
		if len(c) == maxlen {
			return
		}
		in := map[int64]bool{}
		for _, x := range c {
			in[x] = true
		}
		next := map[int64]bool{}
		for i := range c {
			for j := i; j < len(c); j++ {
				if v := c[i] + c[j]; !in[v] {
					next[v] = true
				}
			}
		}
		vs := []int64{}
		for v := range next {
			vs = append(vs, v)
		}
		sort.Slice(vs, func(a, b int) bool { return vs[a] < vs[b] })
		for _, v := range vs {
			if len(c) >= sampleFrom && !r.Chance(num, den) {
				continue
			}
			rec(append(append([]int64{}, c...), v))
		}
	}
	rec([]int64{1})
}

func ints(c []int64) []*big.Int {
	xs := make([]*big.Int, len(c))
	for i, v := range c {
		xs[i] = big.NewInt(v)
	}
	return xs
}

// random valid chain in generation order (any element order), values <= bound
func randomChain(n int, bound int64, r *lib.Rand) []int64 {
	c := []int64{1}
	in := map[int64]bool{1: true}
	for tries := 0; len(c) < n && tries < 40*n; tries++ {
		i, j := r.Intn(len(c)), r.Intn(len(c))
		if r.Chance(1, 2) { // prefer recent elements so that values grow
			i = len(c) - 1 - r.Intn(min(3, len(c)))
		}
		v := c[i] + c[j]
		if v > bound || in[v] {
			continue
		}
		in[v] = true
		c = append(c, v)
	}
	return c
}

func min(a, b int) int {
	if a < b {
		return a
	}
	return b
}

func gen(tier string, r *lib.Rand, emit func(string)) {
	maxlen, sampleFrom, num, den := 7, 99, 1, 1
	nrand, bound, maxn, nbig := 400, int64(300), 40, 0
	if tier == "thorough" {
		maxlen, sampleFrom, num, den = 9, 8, 1, 12
		nrand, bound, maxn, nbig = 3000, 1000, 50, 48
	}
	e := func(c []*big.Int) { emit("runschain " + lib.HexList(c)) }

	// (c) malformed: every error class of Program, and values that do not fit a machine word
	e(nil)
	for _, c := range [][]int64{{1}, {7}, {0}, {-1}, {1, 2}, {1, 3}, {2, 1}, {1, 1}, {1, 2, 2}, {1, 2, 0, 3}, {1, 2, 4, 4, 8},
		{1, 2, 3, 7}, {1, 2, -1, 1, 3}, {3, 1, 2, 4}, {1, 2, 4, 3, 0, 7}, {1, 5, 6, 11}, {1, 2, 3, 5, 3, 8}, {1, 2, 4, 9}} {
		e(ints(c))
	}
	// A valid chain cannot reach 2^64 without a shift loop of >= 2^63 iterations, so the "far too
	// large" refusal is not reachable by running the code; the big values below are rejected by Program.
	big64 := new(big.Int).Lsh(big.NewInt(1), 64)
	big63 := new(big.Int).Lsh(big.NewInt(1), 63)
	e([]*big.Int{big.NewInt(1), big64})
	e([]*big.Int{big.NewInt(1), big.NewInt(2), big64, new(big.Int).Add(big64, big.NewInt(1))})
	e([]*big.Int{big.NewInt(1), big63, big64})
	e([]*big.Int{big.NewInt(1), big.NewInt(2), new(big.Int).Neg(big64)})

	// (a) every valid chain of lengths in every element order; a sample with the 1 moved / one value perturbed
	var pool [][]*big.Int // chains for the storage-shape and history streams
	allChains(maxlen, sampleFrom, num, den, r, func(c []int64) {
		e(ints(c))
		if len(c) >= 2 && (len(c) <= 6 || r.Chance(1, 12)) {
			pool = append(pool, ints(c))
		}
		if len(c) >= 3 && r.Chance(1, 40) {
			d := append([]int64{}, c...)
			p := r.Range(1, len(d)-1)
			if r.Bool() {
				d[0], d[p] = d[p], d[0]
			} else {
				d[p] += int64(r.Range(1, 3))
			}
			e(ints(d))
		}
	})

	// (b) random longer chains of lengths, generation order and ascending
	for i := 0; i < nrand+nbig; i++ {
		n := r.Range(5, maxn)
		b := bound
		if r.Chance(1, 2) {
			b = int64(r.Range(20, int(bound)))
		}
		if i >= nrand { // a few chains with values up to a few thousand (the model prints slowly)
			b = int64(r.Range(1000, 3000))
		}
		c := randomChain(n, b, r)
		e(ints(c))
		if b <= 120 && r.Chance(1, 3) {
			pool = append(pool, ints(c))
		}
		if r.Chance(1, 3) {
			d := append([]int64{}, c...)
			sort.Slice(d, func(a, b int) bool { return d[a] < d[b] })
			e(ints(d))
		}
	}

	// (e) storage shapes: the same chains held with spare capacity, as a prefix of a longer slice,
	// and made of integers shared with a second chain; (f) call histories in one process: the same
	// input object twice, equal chains, a related chain in between, a refused input first
	// (invalid chain, empty chain, or a value that does not fit a machine word)
	if tier != "thorough" && len(pool) > 700 {
		pool = pool[:700]
	}
	for i, c := range pool {
		m.emitShapes(c, r, emit)
		other := pool[r.Intn(len(pool))]
		if r.Chance(1, 2) {
			other = lib.CloneInts(c)
			sort.Slice(other, func(a, b int) bool { return other[a].Cmp(other[b]) < 0 })
		}
		bad := lib.CloneInts(c)
		p := r.Range(0, len(bad)-1)
		bad[p].Add(bad[p], big.NewInt(int64(r.Range(1, 3))))
		switch i % 4 {
		case 0:
			bad = []*big.Int{}
		case 1:
			bad = []*big.Int{big.NewInt(1), big.NewInt(2), big64}
		}
		m.emitHistories(c, other, bad, r, emit)
	}
}

func errClass(err error) string {
	m := err.Error()
	switch {
	case strings.Contains(m, "chain empty"):
		return "empty"
	case strings.Contains(m, "must start with 1"):
		return "first"
	case strings.Contains(m, "contains zero"):
		return "zero"
	case strings.Contains(m, "contains duplicate"):
		return "dup"
	case strings.Contains(m, "is not the sum of previous entries"):
		return "notsum"
	case strings.Contains(m, "far too large"):
		return "toolarge"
	}
	return "other"
}

func line(out []*big.Int, err error) string {
	if err != nil {
		return "err " + errClass(err)
	}
	return "ok " + lib.HexList(out)
}

func judge(in, out []*big.Int, err error) string {
	if !isChain(in) {
		// not a chain of lengths: must be refused, never turned into some chain
		if err == nil {
			return "input is not a valid chain but a chain was returned"
		}
		return ""
	}
	word := new(big.Int).Lsh(big.NewInt(1), 64)
	for _, l := range in {
		if l.Cmp(word) >= 0 {
			if err == nil {
				return "length beyond the machine-word range accepted"
			}
			return ""
		}
	}
	if err != nil {
		return "valid chain of lengths refused: " + err.Error()
	}
	if !isChainFast(out) {
		return "derived chain is not a valid addition chain"
	}
	have := map[string]bool{}
	for _, x := range out {
		have[key(x)] = true
	}
	one := big.NewInt(1)
	for _, l := range in {
		run := new(big.Int).Lsh(one, uint(l.Uint64()))
		run.Sub(run, one)
		if !have[key(run)] {
			return fmt.Sprintf("derived chain lacks 2^%v - 1", l)
		}
	}
	return ""
}

var m = impl{
	plainFn: "runschain", shapeFn: "runsshape", histFn: "runshist",
	call:  func(in addchain.Chain) (addchain.Chain, error) { return dict.RunsChain(in) },
	line:  line,
	judge: judge,
	// RunsChain builds every element of its result itself: nothing is shared with the input
	sharesElems: false,
}

func nontrivial(c, res string) bool {
	in := m.subject(c)
	return len(in) >= 3 && isChain(in) && strings.HasPrefix(res, "ok ")
}

func main() {
	lib.Main(lib.Prop{ID: "C11", Gen: gen, Run: m.run, Oracle: m.oracle, Nontrivial: nontrivial, Neighbours: m.neighbours,
		PanicClass: func(v interface{}) string {
			if strings.Contains(fmt.Sprint(v), "index out of range") {
				return "index"
			}
			return "other"
		}})
}
