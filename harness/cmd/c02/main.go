// C02: chain validation accepts exactly the addition chains and Ops lists
// exactly the index pairs; Program() of a valid chain evaluates back to it.
package main

import (
	"fmt"
	"math/big"
	"runtime"
	"strings"

	"github.com/mmcloughlin/addchain"
	"verif/harness/lib"
)

// ---------- encodings ----------

func encOps(p []addchain.Op) string {
	if len(p) == 0 {
		return "-"
	}
	ss := make([]string, len(p))
	for i, o := range p {
		ss[i] = fmt.Sprintf("%d+%d", o.I, o.J)
	}
	return strings.Join(ss, ",")
}

func decOps(s string) addchain.Program {
	p := addchain.Program{}
	if s == "-" {
		return p
	}
	for _, f := range strings.Split(s, ",") {
		ij := strings.Split(f, "+")
		p = append(p, addchain.Op{I: lib.Atoi(ij[0]), J: lib.Atoi(ij[1])})
	}
	return p
}

func ints(vs ...int64) []*big.Int {
	out := make([]*big.Int, len(vs))
	for i, v := range vs {
		out[i] = big.NewInt(v)
	}
	return out
}

// errClass maps the implementation's error values to the protocol's classes.
func errClass(err error) string {
	m := err.Error()
	switch {
	case m == "chain empty":
		return "empty"
	case m == "chain must start with 1":
		return "first"
	case m == "chain contains zero":
		return "zero"
	case strings.HasPrefix(m, "chain contains duplicate"):
		return "dup"
	case strings.HasSuffix(m, "is not the sum of previous entries"):
		return "notsum"
	case m == "chain does not end with target":
		return "end"
	case strings.HasPrefix(m, "chain does not contain"):
		return "missing"
	}
	return "other"
}

func unitResult(err error) string {
	if err != nil {
		return "err " + errClass(err)
	}
	return "ok -"
}

// ---------- generators ----------

// ascending valid chains of exactly the given length, by closure
func ascChains(n int) [][]int64 {
	cur := [][]int64{{1}}
	for l := 1; l < n; l++ {
		var next [][]int64
		for _, c := range cur {
			last := c[len(c)-1]
			seen := map[int64]bool{}
			for i := range c {
				for j := i; j < len(c); j++ {
					s := c[i] + c[j]
					if s > last && !seen[s] {
						seen[s] = true
					}
				}
			}
			for s := last + 1; s <= 2*last; s++ {
				if seen[s] {
					next = append(next, append(append([]int64{}, c...), s))
				}
			}
		}
		cur = next
	}
	return cur
}

func permutations(xs []int64, f func([]int64)) {
	a := append([]int64{}, xs...)
	var rec func(k int)
	rec = func(k int) {
		if k == len(a) {
			f(a)
			return
		}
		for i := k; i < len(a); i++ {
			a[k], a[i] = a[i], a[k]
			rec(k + 1)
			a[k], a[i] = a[i], a[k]
		}
	}
	rec(0)
}

func enc64(l []int64) string { return lib.HexList(ints(l...)) }

func emitAllFor(emit func(string), e string, n int, last *big.Int, allK bool) {
	emit("validate " + e)
	emit("asc " + e)
	emit("program " + e)
	if allK {
		for k := 0; k <= n+1; k++ {
			emit(fmt.Sprintf("ops %s %d", e, k))
		}
		for k := 0; k <= n; k++ {
			emit(fmt.Sprintf("op %s %d", e, k))
		}
	}
	if last != nil {
		emit("produces " + e + " " + lib.Hex(last))
		emit("produces " + e + " " + lib.Hex(new(big.Int).Add(last, big.NewInt(1))))
	} else {
		emit("produces " + e + " 1")
	}
}

func gen(tier string, r *lib.Rand, emit func(string)) {
	seqLen, chainLen, permLen, nrand, progLen := 5, 6, 5, 400, 3
	if tier == "thorough" {
		seqLen, chainLen, permLen, nrand, progLen = 6, 7, 6, 8000, 4
	}

	// (a) every sequence over {-1..6} up to seqLen
	var rec func(cur []int64)
	rec = func(cur []int64) {
		e := enc64(cur)
		var last *big.Int
		if len(cur) > 0 {
			last = big.NewInt(cur[len(cur)-1])
		}
		// beyond length 5 (thorough tier) the per-position listings are limited to sequences starting
		// with 1: with another first element no prefix is ascending and only the quadratic path runs,
		// which the shorter lengths already cover exhaustively
		allK := len(cur) <= 5 || cur[0] == 1
		emitAllFor(emit, e, len(cur), last, allK)
		// supersets: single targets and one pair
		if len(cur) <= 3 {
			for t := int64(-1); t <= 6; t++ {
				emit(fmt.Sprintf("superset %s %s", e, lib.Hex(big.NewInt(t))))
			}
			emit("superset " + e + " -")
		}
		if len(cur) >= 2 && allK {
			emit("superset " + e + " " + enc64([]int64{cur[len(cur)-1], cur[0]}))
			emit("superset " + e + " " + enc64([]int64{cur[1], 7}))
			emit("superset " + e + " " + e)
		}
		if len(cur) == seqLen {
			return
		}
		for v := int64(-1); v <= 6; v++ {
			rec(append(cur, v))
		}
	}
	rec(nil)

	// (a') signed alphabet: every sequence of length <= 4 over {-9,-8,-5,-4,-3,-2,-1,0,1,2,3,4,8}
	// (magnitudes of different bit lengths, both signs): the orderings and sums of negative
	// elements are part of "every finite sequence of integers"
	signed := []int64{-9, -8, -5, -4, -3, -2, -1, 0, 1, 2, 3, 4, 8}
	var recs func(cur []int64)
	recs = func(cur []int64) {
		if len(cur) > 0 {
			emitAllFor(emit, enc64(cur), len(cur), big.NewInt(cur[len(cur)-1]), true)
		}
		if len(cur) == 4 || (len(cur) >= 1 && cur[0] != 1 && len(cur) == 3) {
			return
		}
		for _, v := range signed {
			recs(append(cur, v))
		}
	}
	recs(nil)

	// (a'') the position argument at machine-word boundaries (Go int): all fail with an index panic
	for _, e := range []string{"-", "1", "1,2,3", "1,2,4,3", "2,1"} {
		for _, k := range []int{-1, -2, -1 << 31, -1 << 63, 1<<31 - 1, 1 << 31, 1 << 32, 1<<63 - 1, 1<<63 - 2, 1000} {
			emit(fmt.Sprintf("ops %s %d", e, k))
			emit(fmt.Sprintf("op %s %d", e, k))
		}
	}

	// (b) every ascending valid chain up to chainLen; every order of those up to permLen,
	// a sample of orders beyond; also with the 1 moved off the front
	for n := 1; n <= chainLen; n++ {
		for _, c := range ascChains(n) {
			e := enc64(c)
			emitAllFor(emit, e, n, big.NewInt(c[n-1]), true)
			emit("superset " + e + " " + e)
			emit("superset " + e + " " + enc64([]int64{c[n-1], c[n/2]}))
			emit("superset " + e + " " + enc64([]int64{c[n-1], c[n-1] + 1}))
			if n <= permLen {
				permutations(c[1:], func(p []int64) {
					q := append([]int64{1}, p...)
					emitAllFor(emit, enc64(q), n, big.NewInt(q[n-1]), true)
				})
			} else {
				for t := 0; t < 6; t++ {
					q := append([]int64{}, c...)
					for i := len(q) - 1; i > 1; i-- {
						j := r.Range(1, i)
						q[i], q[j] = q[j], q[i]
					}
					emitAllFor(emit, enc64(q), n, big.NewInt(q[n-1]), true)
				}
			}
			if n >= 2 {
				q := append([]int64{}, c...)
				j := r.Range(1, n-1)
				q[0], q[j] = q[j], q[0]
				emitAllFor(emit, enc64(q), n, big.NewInt(q[n-1]), n <= 4)
			}
		}
	}

	// (c) random long sequences: valid chains with big values, then disturbed
	for t := 0; t < nrand; t++ {
		n := r.Range(3, 40)
		c := []*big.Int{big.NewInt(1)}
		ascending := r.Bool()
		for len(c) < n {
			var x *big.Int
			i, j := r.Intn(len(c)), r.Intn(len(c))
			if ascending || r.Chance(2, 3) {
				i = len(c) - 1
				if r.Chance(1, 2) {
					j = i
				}
			}
			x = new(big.Int).Add(c[i], c[j])
			dup := false
			for _, y := range c {
				if y.Cmp(x) == 0 {
					dup = true
				}
			}
			if !dup {
				c = append(c, x)
			}
		}
		mode := r.Intn(6)
		switch mode {
		case 0: // as is
		case 1, 2: // transpositions
			for k := r.Range(1, 3); k > 0; k-- {
				i, j := r.Range(1, n-1), r.Range(1, n-1)
				c[i], c[j] = c[j], c[i]
			}
		case 3: // duplicate injected
			i, j := r.Range(0, n-1), r.Range(1, n-1)
			c[j] = new(big.Int).Set(c[i])
		case 4: // one element perturbed
			j := r.Range(1, n-1)
			c[j] = new(big.Int).Add(c[j], big.NewInt(int64(r.Range(-2, 2))))
		case 5: // zero or negative injected
			j := r.Range(0, n-1)
			c[j] = big.NewInt(int64(-r.Intn(2)))
		}
		e := lib.HexList(c)
		emitAllFor(emit, e, n, c[n-1], false)
		for q := 0; q < 4; q++ {
			k := r.Range(0, n+1)
			emit(fmt.Sprintf("ops %s %d", e, k))
			emit(fmt.Sprintf("op %s %d", e, k))
		}
		ts := []*big.Int{}
		for q := r.Intn(4); q > 0; q-- {
			ts = append(ts, c[r.Intn(n)])
		}
		if r.Chance(1, 3) {
			ts = append(ts, r.Bits(r.Range(1, 20)))
		}
		emit("superset " + e + " " + lib.HexList(ts))
		emit("produces " + e + " " + lib.Hex(c[r.Intn(n)]))
	}

	// (d) programs for Evaluate: every program up to progLen over operands 0..len+1,
	// random long well-formed ones, and long ones with one bad operand
	var prec func(cur []addchain.Op)
	prec = func(cur []addchain.Op) {
		emit("evaluate " + encOps(cur))
		if len(cur) == progLen {
			return
		}
		n := len(cur)
		for i := 0; i <= n+1; i++ {
			for j := 0; j <= n+1; j++ {
				prec(append(append([]addchain.Op{}, cur...), addchain.Op{I: i, J: j}))
			}
		}
	}
	prec(nil)
	for t := 0; t < nrand; t++ {
		n := r.Range(1, 60)
		p := make([]addchain.Op, n)
		for k := range p {
			i, j := r.Intn(k+1), r.Intn(k+1)
			if r.Chance(1, 2) {
				j = k
			}
			if r.Chance(1, 4) {
				i = j
			}
			p[k] = addchain.Op{I: i, J: j}
		}
		if r.Chance(1, 5) {
			k := r.Intn(n)
			if r.Bool() {
				p[k].I = k + 1 + r.Intn(3)
			} else {
				p[k].J = k + 1 + r.Intn(3)
			}
		}
		emit("evaluate " + encOps(p))
	}
}

// ---------- storage shapes ----------
//
// Go slices alias: a function that appends into (or writes through) an argument can corrupt
// storage the caller still holds even when the returned value looks right.  Every case is therefore
// also run with its chain / program arguments laid out differently:
//   shape 0  exact capacity (fresh slice)
//   shape 1  spare capacity: make(len, cap+3), the tail holds nil / zero ops
//   shape 2  prefix full[:len] of a longer chain or program with live elements behind it
//   shape 3  like 1, and the second chain argument re-uses the first one's *big.Int elements
// and the watcher checks afterwards that the whole backing array (up to cap) and every element value
// are what they were.  The result line must not depend on the shape.

type watch struct {
	fulls [][]*big.Int // full-capacity views of every chain handed out
	ptrs  [][]*big.Int // element pointers at hand-out time
	vals  [][]*big.Int // element values at hand-out time (nil stays nil)
	pf    []addchain.Program
	pv    []addchain.Program
}

// chain lays xs out in the given shape; with shape 3 its elements are first replaced by the
// equal-valued element objects of shareWith.
func (w *watch) chain(xs []*big.Int, shape int, shareWith ...[]*big.Int) []*big.Int {
	if shape == 3 {
		xs = append([]*big.Int{}, xs...)
		for _, o := range shareWith {
			share(xs, o)
		}
	}
	var full []*big.Int
	switch shape {
	case 1, 3:
		full = make([]*big.Int, len(xs)+3)
		copy(full, xs)
	case 2:
		full = make([]*big.Int, len(xs), len(xs)+3)
		copy(full, xs)
		for k := int64(0); k < 3; k++ {
			full = append(full, big.NewInt(1000003+k))
		}
	default:
		full = make([]*big.Int, len(xs))
		copy(full, xs)
	}
	arg := full[:len(xs):len(full)]
	if w != nil {
		w.fulls = append(w.fulls, full)
		w.ptrs = append(w.ptrs, append([]*big.Int{}, full...))
		vs := make([]*big.Int, len(full))
		for i, x := range full {
			if x != nil {
				vs[i] = new(big.Int).Set(x)
			}
		}
		w.vals = append(w.vals, vs)
	}
	return arg
}

func (w *watch) prog(p addchain.Program, shape int) addchain.Program {
	var full addchain.Program
	switch shape {
	case 1, 3:
		full = make(addchain.Program, len(p)+3)
		copy(full, p)
	case 2:
		full = append(append(addchain.Program{}, p...), addchain.Op{I: 77, J: 78}, addchain.Op{I: 79, J: 80}, addchain.Op{I: 81, J: 82})
	default:
		full = append(addchain.Program{}, p...)
	}
	arg := full[:len(p):len(full)]
	if w != nil {
		w.pf = append(w.pf, full)
		w.pv = append(w.pv, append(addchain.Program{}, full...))
	}
	return arg
}

// share makes b re-use a's element objects wherever the values coincide.
func share(b, a []*big.Int) {
	for i, y := range b {
		for _, x := range a {
			if y != nil && x != nil && x.Cmp(y) == 0 {
				b[i] = x
				break
			}
		}
	}
}

func (w *watch) check() string {
	for n, full := range w.fulls {
		for i := range full {
			if full[i] != w.ptrs[n][i] {
				return fmt.Sprintf("argument storage overwritten: slot %d of the backing array of chain argument %d now holds another element", i, n)
			}
			if full[i] != nil && full[i].Cmp(w.vals[n][i]) != 0 {
				return fmt.Sprintf("argument element modified in place: slot %d of chain argument %d", i, n)
			}
		}
	}
	for n, full := range w.pf {
		for i := range full {
			if full[i] != w.pv[n][i] {
				return fmt.Sprintf("argument storage overwritten: op slot %d of program argument %d", i, n)
			}
		}
	}
	return ""
}

func panicClass(v interface{}) string {
	if e, ok := v.(runtime.Error); ok {
		m := e.Error()
		if strings.Contains(m, "index out of range") || strings.Contains(m, "slice bounds out of range") {
			return "index"
		}
	}
	return "other"
}

func safely(f func() string) (res string) {
	defer func() {
		if v := recover(); v != nil {
			res = "panic " + panicClass(v)
		}
	}()
	return f()
}

// shapeCheck re-runs the case in other storage shapes: same result line, no storage touched.
func shapeCheck(c, res string, shapes []int) string {
	for _, sh := range shapes {
		w := &watch{}
		got := safely(func() string { return runShaped(c, sh, w) })
		if got != res {
			return fmt.Sprintf("result depends on how the argument is stored (shape %d): %s instead of %s", sh, got, res)
		}
		if msg := w.check(); msg != "" {
			return fmt.Sprintf("%s (shape %d)", msg, sh)
		}
	}
	return ""
}

func pickShape(c string) int {
	h := uint32(2166136261)
	for i := 0; i < len(c); i++ {
		h = (h ^ uint32(c[i])) * 16777619
	}
	return 1 + int(h%3)
}

// ---------- implementation ----------

func run(c string) string { return runShaped(c, 0, nil) }

func runShaped(c string, shape int, w *watch) string {
	f := strings.Split(c, " ")
	if f[0] == "evaluate" {
		return "ok " + lib.HexList(w.prog(decOps(f[1]), shape).Evaluate())
	}
	seq := addchain.Chain(w.chain(lib.ParseHexList(f[1]), shape))
	switch f[0] {
	case "validate":
		return unitResult(seq.Validate())
	case "asc":
		return "ok " + lib.Bool(seq.IsAscending())
	case "produces":
		t := w.chain([]*big.Int{lib.ParseHex(f[2])}, shape, seq)
		return unitResult(seq.Produces(t[0]))
	case "superset":
		return unitResult(seq.Superset(w.chain(lib.ParseHexList(f[2]), shape, seq)))
	case "ops":
		return "ok " + encOps(seq.Ops(lib.Atoi(f[2])))
	case "op":
		o, err := seq.Op(lib.Atoi(f[2]))
		if err != nil {
			return "err " + errClass(err)
		}
		return "ok " + encOps([]addchain.Op{o})
	case "program":
		p, err := seq.Program()
		if err != nil {
			return "err " + errClass(err)
		}
		return "ok " + encOps(p)
	}
	panic("unknown case " + c)
}

// ---------- oracle: the definitions, written directly ----------

// isChain: non-empty, starts with 1, no zero, no repeated value, every later
// element is the sum of two earlier ones.
func isChain(c []*big.Int) bool {
	if len(c) == 0 || c[0].Cmp(big.NewInt(1)) != 0 {
		return false
	}
	for i, x := range c {
		if x.Sign() == 0 {
			return false
		}
		for j := 0; j < i; j++ {
			if c[j].Cmp(x) == 0 {
				return false
			}
		}
	}
	for k := 1; k < len(c); k++ {
		if len(sumPairs(c, k)) == 0 {
			return false
		}
	}
	return true
}

// sumPairs: all (i,j) with i <= j < k and c[i]+c[j] = c[k].
func sumPairs(c []*big.Int, k int) [][2]int {
	out := [][2]int{}
	for i := 0; i < k; i++ {
		for j := i; j < k; j++ {
			if new(big.Int).Add(c[i], c[j]).Cmp(c[k]) == 0 {
				out = append(out, [2]int{i, j})
			}
		}
	}
	return out
}

func isAsc(c []*big.Int) bool {
	if len(c) == 0 || c[0].Cmp(big.NewInt(1)) != 0 {
		return false
	}
	for i := 0; i+1 < len(c); i++ {
		if c[i].Cmp(c[i+1]) >= 0 {
			return false
		}
	}
	return true
}

func member(x *big.Int, c []*big.Int) bool {
	for _, y := range c {
		if x.Cmp(y) == 0 {
			return true
		}
	}
	return false
}

func accept(res string, want bool, what string) string {
	got := strings.HasPrefix(res, "ok")
	if strings.HasPrefix(res, "panic") {
		return what + ": panicked (" + res + ")"
	}
	if got && !want {
		return what + ": accepted although the condition does not hold"
	}
	if !got && want {
		return what + ": rejected (" + res + ") although the condition holds"
	}
	return ""
}

func oracle(c, res string) string {
	if msg := oracle1(c, res); msg != "" {
		return msg
	}
	f := strings.Split(c, " ")
	if (f[0] == "ops" || f[0] == "op") && strings.HasPrefix(res, "panic") {
		// a position outside the sequence: with spare capacity c[:k] succeeds and Go reads the slots
		// behind the slice (nil elements); outside the property, not compared across shapes
		return ""
	}
	return shapeCheck(c, res, []int{pickShape(c)})
}

func oracle1(c, res string) string {
	f := strings.Split(c, " ")
	if f[0] == "evaluate" {
		p := decOps(f[1])
		q := append(addchain.Program{}, p...)
		wf := true
		want := []*big.Int{big.NewInt(1)}
		for k, o := range p {
			if o.I < 0 || o.J < 0 || o.I > k || o.J > k {
				wf = false
				break
			}
			want = append(want, new(big.Int).Add(want[o.I], want[o.J]))
		}
		if !wf {
			if !strings.HasPrefix(res, "panic") {
				return "evaluate of a program with a forward reference did not fail"
			}
			return ""
		}
		if !strings.HasPrefix(res, "ok ") {
			return "evaluate of a well-formed program failed: " + res
		}
		got := lib.ParseHexList(res[3:])
		if !lib.EqualInts(got, want) {
			return "evaluate: wrong chain"
		}
		if len(got) != len(p)+1 {
			return "evaluate: chain is not one longer than the program"
		}
		p.Evaluate()
		for i := range p {
			if p[i] != q[i] {
				return "evaluate modified the program"
			}
		}
		return ""
	}

	seq := lib.ParseHexList(f[1])
	orig := lib.CloneInts(seq)
	valid := isChain(seq)
	msg := ""
	switch f[0] {
	case "validate":
		msg = accept(res, valid, "validate")
		addchain.Chain(seq).Validate()
	case "asc":
		if strings.HasPrefix(res, "panic") || res != "ok "+lib.Bool(isAsc(seq)) {
			msg = "IsAscending differs from 'starts with 1 and strictly increasing'"
		}
		addchain.Chain(seq).IsAscending()
	case "produces":
		n := lib.ParseHex(f[2])
		n0 := new(big.Int).Set(n)
		msg = accept(res, valid && seq[len(seq)-1].Cmp(n) == 0, "produces")
		addchain.Chain(seq).Produces(n)
		if n.Cmp(n0) != 0 {
			return "produces modified the target"
		}
	case "superset":
		ts := lib.ParseHexList(f[2])
		ts0 := lib.CloneInts(ts)
		all := true
		for _, t := range ts {
			all = all && member(t, seq)
		}
		msg = accept(res, valid && all, "superset")
		addchain.Chain(seq).Superset(ts)
		if !lib.EqualInts(ts, ts0) {
			return "superset modified the targets"
		}
	case "ops", "op":
		k := lib.Atoi(f[2])
		if k < 0 || (k >= len(seq) && k > 0) {
			break // not a position of the sequence: outside the property, compared with the model only
		}
		want := [][2]int{}
		if k > 0 {
			want = sumPairs(seq, k)
		}
		if strings.HasPrefix(res, "panic") {
			return f[0] + " panicked for a position inside the sequence"
		}
		if f[0] == "op" {
			if len(want) == 0 {
				if res != "err notsum" {
					msg = "op: returned an operation although no pair sums to the element"
				}
			} else if !strings.HasPrefix(res, "ok ") {
				msg = "op: no operation returned although a pair sums to the element"
			} else {
				o := decOps(res[3:])[0]
				found := false
				for _, w := range want {
					found = found || (w[0] == o.I && w[1] == o.J)
				}
				if !found {
					msg = "op: returned pair does not sum to the element (or is not i <= j < k)"
				}
			}
			func() {
				defer func() { recover() }()
				addchain.Chain(seq).Op(k)
			}()
			break
		}
		got := decOps(res[3:])
		if len(got) != len(want) {
			msg = fmt.Sprintf("ops: %d pairs listed, %d index pairs i <= j < k sum to element k", len(got), len(want))
			break
		}
		seen := map[[2]int]bool{}
		for _, o := range got {
			key := [2]int{o.I, o.J}
			if seen[key] {
				msg = "ops: pair listed twice"
			}
			seen[key] = true
		}
		for _, w := range want {
			if !seen[w] {
				msg = fmt.Sprintf("ops: pair %d+%d missing", w[0], w[1])
			}
		}
		func() {
			defer func() { recover() }()
			addchain.Chain(seq).Ops(k)
		}()
	case "program":
		msg = accept(res, valid, "program")
		if msg == "" && valid {
			p := decOps(res[3:])
			if len(p) != len(seq)-1 {
				return "program: length is not len(chain)-1"
			}
			for k, o := range p {
				if !(0 <= o.I && o.I <= o.J && o.J <= k) {
					return "program: operands not i <= j < position"
				}
				if new(big.Int).Add(seq[o.I], seq[o.J]).Cmp(seq[k+1]) != 0 {
					return "program: op does not produce its element"
				}
			}
			back := p.Evaluate()
			if !lib.EqualInts(back, seq) {
				return "program of a valid chain does not evaluate back to the chain"
			}
		}
		addchain.Chain(seq).Program()
	}
	if msg != "" {
		return msg
	}
	if !lib.EqualInts(seq, orig) {
		return f[0] + " modified the chain"
	}
	return ""
}

// ---------- neighbours (hunt mode) ----------

func perturbSeq(s string, r *lib.Rand) string {
	xs := lib.ParseHexList(s)
	if len(xs) == 0 {
		return "1"
	}
	switch r.Intn(4) {
	case 0:
		i := r.Intn(len(xs))
		xs[i] = new(big.Int).Add(xs[i], big.NewInt(int64(r.Range(-2, 2))))
	case 1:
		i, j := r.Intn(len(xs)), r.Intn(len(xs))
		xs[i], xs[j] = xs[j], xs[i]
	case 2:
		i, j := r.Intn(len(xs)), r.Intn(len(xs))
		xs = append(xs, new(big.Int).Add(xs[i], xs[j]))
	default:
		xs = xs[:len(xs)-1]
	}
	return lib.HexList(xs)
}

func neighbours(c string, r *lib.Rand, emit func(string)) {
	f := strings.Split(c, " ")
	for t := 0; t < 12; t++ {
		if f[0] == "evaluate" {
			p := decOps(f[1])
			if len(p) == 0 || r.Chance(1, 5) {
				k := len(p)
				p = append(p, addchain.Op{I: r.Intn(k + 1), J: r.Intn(k + 1)})
			} else {
				k := r.Intn(len(p))
				if r.Bool() {
					p[k].I = r.Intn(k + 2)
				} else {
					p[k].J = r.Intn(k + 2)
				}
			}
			emit("evaluate " + encOps(p))
			continue
		}
		seq := perturbSeq(f[1], r)
		n := strings.Count(seq, ",") + 1
		switch f[0] {
		case "validate", "asc", "program":
			emit(f[0] + " " + seq)
		case "ops", "op":
			if r.Bool() {
				emit(fmt.Sprintf("%s %s %d", f[0], f[1], r.Intn(strings.Count(f[1], ",")+1)))
			} else {
				emit(fmt.Sprintf("%s %s %d", f[0], seq, r.Intn(n)))
			}
		case "produces":
			xs := lib.ParseHexList(seq)
			emit("produces " + seq + " " + lib.Hex(xs[len(xs)-1]))
			emit("produces " + seq + " " + f[2])
		case "superset":
			emit("superset " + seq + " " + f[2])
			emit("superset " + f[1] + " " + perturbSeq(f[2], r))
		}
	}
}

func nontrivial(c, res string) bool {
	f := strings.Split(c, " ")
	if f[0] == "evaluate" {
		return strings.HasPrefix(res, "ok ") && strings.Count(f[1], ",") >= 2
	}
	// the sequence passes the cheap checks' first hurdle and is long enough for the sum condition to matter
	return strings.Count(f[1], ",") >= 2 && strings.HasPrefix(f[1], "1,") && !strings.HasPrefix(res, "panic")
}

func main() {
	lib.Main(lib.Prop{
		ID:         "C02",
		Gen:        gen,
		Run:        run,
		Oracle:     oracle,
		Nontrivial: nontrivial,
		PanicClass: panicClass,
		Neighbours: neighbours,
	})
}
