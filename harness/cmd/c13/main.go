// C13: target expressions evaluate by the standard rules of integer arithmetic.
//
// Case lines:
//
//	calc <bytes>       -> ok <hex value> | err <class>     (internal/calc.Eval)
//	setstring <bytes>  -> ok <hex value> | err number      (math/big SetString(s, 0), the
//	                                                        library call number() relies on)
//
// The oracle is an independent evaluator: its own lexer for the literal classes named by the
// property and a recursive-descent evaluator for the conventional grammar, with Euclidean
// division and exponentiation written out by hand.
package main

import (
	"errors"
	"fmt"
	"math/big"
	"os"
	"runtime"
	"sort"
	"strings"
	"sync"
	"sync/atomic"
	"time"

	"github.com/mmcloughlin/addchain/verifhook"
	"verif/harness/lib"
)

// ---------------------------------------------------------------------------------------
// implementation side

func errClass(err error) string {
	switch err.Error() {
	case "too few operands":
		return "toofew"
	case "division by zero":
		return "divzero"
	case "wrong operand count":
		return "count"
	case "expected operator":
		return "operator"
	case "expected number":
		return "number"
	}
	return "other"
}

func run(c string) string {
	f := strings.Split(c, " ")
	if len(f) != 2 {
		return "badcase"
	}
	s := string(lib.ParseBytes(f[1]))
	switch f[0] {
	case "calc":
		return evalGuarded(s)
	case "setstring":
		v, ok := new(big.Int).SetString(s, 0)
		if !ok {
			return "err number"
		}
		return "ok " + lib.Hex(v)
	}
	return "badcase"
}

// hangs counts evaluations that did not return in time. The goroutine of such a call cannot be
// stopped, so after a few of them the generator stops emitting (see gen) and the run ends with
// the failing rows it has.
var hangs int32

const hangAfter = 10 * time.Second

// evalGuarded runs the evaluator with a watchdog: result "hang" after hangAfter. A panic in the
// evaluator is reported as "panic <class>" here because it happens on another goroutine.
func evalGuarded(s string) string {
	ch := make(chan string, 1)
	go func() { ch <- safeEval(s) }()
	t := time.NewTimer(hangAfter)
	defer t.Stop()
	select {
	case r := <-ch:
		return r
	case <-t.C:
		atomic.AddInt32(&hangs, 1)
		return "hang"
	}
}

func tooManyHangs() bool { return atomic.LoadInt32(&hangs) >= 3 }

func evalImpl(s string) string {
	v, err := verifhook.CalcEval(s)
	if err != nil {
		return "err " + errClass(err)
	}
	if v == nil {
		return "err nil"
	}
	return "ok " + lib.Hex(v)
}

// ---------------------------------------------------------------------------------------
// oracle: the property stated directly

type otok struct {
	op  byte     // 0 for a literal
	val *big.Int // literal value
}

type status int

const (
	wellFormed  status = iota
	malformed          // missing operand/operator, bad literal, stray character
	unspecified        // contains a decimal literal with a superfluous leading zero
)

var (
	errTooBig = errors.New("too big for the test budget")
)

const maxBits = 8192 // budget for a power: exponent * bitlen(base)

func horner(digits string, base int64) *big.Int {
	v := new(big.Int)
	b := big.NewInt(base)
	for i := 0; i < len(digits); i++ {
		c := digits[i]
		var d int64
		if c >= '0' && c <= '9' {
			d = int64(c - '0')
		} else {
			d = int64(c-'a') + 10
		}
		v.Mul(v, b)
		v.Add(v, big.NewInt(d))
	}
	return v
}

func digitsWhile(s string, i int, ok func(byte) bool) int {
	for i < len(s) && ok(s[i]) {
		i++
	}
	return i
}

func isDec(c byte) bool { return c >= '0' && c <= '9' }
func isHexLower(c byte) bool {
	return (c >= '0' && c <= '9') || (c >= 'a' && c <= 'f')
}
func isBin(c byte) bool { return c == '0' || c == '1' }
func isOp(c byte) bool  { return c == '+' || c == '-' || c == '*' || c == '/' || c == '^' }

// olit reads a literal of the property's classes at s[i:]: optional '-', then 0x-hex,
// 0b-binary or decimal. Returns value, next index and status.
func olit(s string, i int) (*big.Int, int, status) {
	neg := false
	if i < len(s) && s[i] == '-' {
		neg = true
		i++
	}
	var v *big.Int
	switch {
	case strings.HasPrefix(s[i:], "0x"):
		j := digitsWhile(s, i+2, isHexLower)
		if j == i+2 {
			return nil, i, malformed
		}
		v, i = horner(s[i+2:j], 16), j
	case strings.HasPrefix(s[i:], "0b"):
		j := digitsWhile(s, i+2, isBin)
		if j == i+2 {
			return nil, i, malformed
		}
		v, i = horner(s[i+2:j], 2), j
	default:
		j := digitsWhile(s, i, isDec)
		if j == i {
			return nil, i, malformed
		}
		if j-i > 1 && s[i] == '0' {
			return nil, i, unspecified
		}
		v, i = horner(s[i:j], 10), j
	}
	if neg {
		v.Neg(v)
	}
	return v, i, wellFormed
}

// olex splits an expression into alternating literal/operator tokens. For a malformed
// expression the tokens read so far are returned (used only for the test budget). A decimal
// literal with a superfluous leading zero makes the status unspecified; its token carries the
// decimal reading, again only for the budget.
func olex(s string) ([]otok, status) {
	ts, st, _ := olexFull(s)
	return ts, st
}

// olexFull is olex that also reports whether the whole text was lexed (no lexical error).
func olexFull(s string) ([]otok, status, bool) {
	var ts []otok
	operand := true
	st := wellFormed
	for i := 0; i < len(s); {
		if s[i] == ' ' {
			i++
			continue
		}
		if operand {
			v, j, ls := olit(s, i)
			if ls == unspecified {
				// keep scanning past the digits: the rest may still be judged malformed, but the
				// expression as a whole is outside the property's literal classes
				st = unspecified
				if s[i] == '-' {
					i++
				}
				j = digitsWhile(s, i, isDec)
				v = horner(s[i:j], 10)
			} else if ls == malformed {
				return ts, worst(st, malformed), false
			}
			ts = append(ts, otok{val: v})
			i = j
			operand = false
			continue
		}
		if !isOp(s[i]) {
			return ts, worst(st, malformed), false
		}
		ts = append(ts, otok{op: s[i]})
		i++
		operand = true
	}
	if operand { // empty, or trailing operator
		return ts, worst(st, malformed), true
	}
	return ts, st, true
}

func worst(a, b status) status {
	if a == unspecified {
		return a
	}
	return b
}

// Euclidean division: x = q*y + r with 0 <= r < |y|.
func ediv(x, y *big.Int) *big.Int {
	q, r := new(big.Int), new(big.Int)
	q.QuoRem(x, y, r) // truncated
	if r.Sign() < 0 {
		if y.Sign() > 0 {
			q.Sub(q, big.NewInt(1))
		} else {
			q.Add(q, big.NewInt(1))
		}
	}
	return q
}

// pow: x^y by square and multiply; a non-positive exponent yields 1.
func pow(x, y *big.Int) (*big.Int, error) {
	if y.Sign() <= 0 {
		return big.NewInt(1), nil
	}
	if y.BitLen() > 20 {
		return nil, errTooBig
	}
	if x.BitLen() > 1 && y.Int64()*int64(x.BitLen()) > maxBits { // |x| >= 2
		return nil, errTooBig
	}
	r := big.NewInt(1)
	for i := y.BitLen() - 1; i >= 0; i-- {
		r.Mul(r, r)
		if y.Bit(i) == 1 {
			r.Mul(r, x)
		}
	}
	return r, nil
}

type parser struct {
	ts      []otok
	i       int
	divzero bool // a division by zero occurred (evaluation continues with 0 for the budget)
}

func (p *parser) peek() byte {
	if p.i < len(p.ts) {
		return p.ts[p.i].op
	}
	return 0
}

// factor: literal | literal ^ factor   (right associative, binds tightest)
func (p *parser) factor() (*big.Int, error) {
	n := p.ts[p.i].val
	p.i++
	if p.peek() == '^' {
		p.i++
		e, err := p.factor()
		if err != nil {
			return nil, err
		}
		return pow(n, e)
	}
	return n, nil
}

// term: factor { (*|/) factor }   (left associative)
func (p *parser) term() (*big.Int, error) {
	v, err := p.factor()
	if err != nil {
		return nil, err
	}
	for p.peek() == '*' || p.peek() == '/' {
		op := p.peek()
		p.i++
		w, err := p.factor()
		if err != nil {
			return nil, err
		}
		if op == '*' {
			v = new(big.Int).Mul(v, w)
		} else {
			if w.Sign() == 0 {
				p.divzero = true
				v = new(big.Int)
			} else {
				v = ediv(v, w)
			}
		}
	}
	return v, nil
}

// expr: term { (+|-) term }   (left associative)
func (p *parser) expr() (*big.Int, error) {
	v, err := p.term()
	if err != nil {
		return nil, err
	}
	for p.peek() == '+' || p.peek() == '-' {
		op := p.peek()
		p.i++
		w, err := p.term()
		if err != nil {
			return nil, err
		}
		if op == '+' {
			v = new(big.Int).Add(v, w)
		} else {
			v = new(big.Int).Sub(v, w)
		}
	}
	return v, nil
}

// judge returns "" or what is wrong with result res for expression s.
func judge(s, res string) string {
	if strings.HasPrefix(res, "panic") {
		return "evaluator panicked"
	}
	if res == "hang" {
		return "evaluator did not return within " + hangAfter.String()
	}
	ts, st := olex(s)
	switch st {
	case unspecified:
		return ""
	case malformed:
		if !strings.HasPrefix(res, "err ") {
			return "malformed expression did not yield an error"
		}
		return ""
	}
	p := &parser{ts: ts}
	v, err := p.expr()
	if err == errTooBig {
		return ""
	}
	if p.divzero {
		if !strings.HasPrefix(res, "err ") {
			return "division by zero did not yield an error"
		}
		return ""
	}
	if p.i != len(ts) {
		return "oracle did not consume all tokens"
	}
	if want := "ok " + lib.Hex(v); res != want {
		return "value differs from the standard rules: want " + clip(want)
	}
	return ""
}

func clip(s string) string {
	if len(s) > 200 {
		return s[:200] + "..."
	}
	return s
}

// tooBig reports whether evaluating the text would involve a power outside the test budget.
// Generator-side only (it decides which cases are emitted, it judges nothing): a guarded
// replay of the textbook shunting yard on the tokens read up to the first lexical error.
// It has to follow the yard rather than the grammar because on a malformed text the evaluator
// still applies operators before it reports the error: "3 - 536870912 ^" computes
// 3^536870912 and only then fails with "too few operands". Leading-zero decimals are read as
// decimal here, an upper bound of their octal reading.
func tooBig(s string) bool {
	ts, _, complete := olexFull(s)
	var vs []*big.Int
	var os []byte
	prec := func(op byte) int {
		if op == '+' || op == '-' {
			return 2
		}
		return 3
	}
	// apply returns (continue, tooBig)
	apply := func(op byte) (bool, bool) {
		n := len(vs)
		if n < 2 {
			return false, false
		}
		x, y := vs[n-2], vs[n-1]
		var z *big.Int
		switch op {
		case '^':
			v, err := pow(x, y)
			if err != nil {
				return false, true
			}
			z = v
		case '*':
			z = new(big.Int).Mul(x, y)
		case '/':
			if y.Sign() == 0 {
				return false, false
			}
			z = ediv(x, y)
		case '+':
			z = new(big.Int).Add(x, y)
		default:
			z = new(big.Int).Sub(x, y)
		}
		vs = append(vs[:n-2], z)
		return true, false
	}
	for _, t := range ts {
		if t.op == 0 {
			vs = append(vs, t.val)
			continue
		}
		for len(os) > 0 {
			top := os[len(os)-1]
			if prec(top) < prec(t.op) || (prec(top) == prec(t.op) && t.op == '^') {
				break
			}
			cont, big := apply(top)
			if big {
				return true
			}
			if !cont {
				return false
			}
			os = os[:len(os)-1]
		}
		os = append(os, t.op)
	}
	if !complete {
		return false
	}
	for len(os) > 0 {
		top := os[len(os)-1]
		os = os[:len(os)-1]
		cont, big := apply(top)
		if big {
			return true
		}
		if !cont {
			return false
		}
	}
	return false
}

func oracle(c, res string) string {
	f := strings.Split(c, " ")
	if len(f) != 2 {
		return ""
	}
	s := string(lib.ParseBytes(f[1]))
	switch f[0] {
	case "calc":
		if msg := judge(s, res); msg != "" {
			return msg
		}
		// evaluation is a function of the text
		if again := run(c); again != res && res != "hang" {
			return "second evaluation differs: " + clip(again)
		}
	case "setstring":
		if strings.HasPrefix(res, "panic") {
			return "SetString panicked"
		}
		// on the property's literal classes the value is the usual one
		v, j, st := olit(s, 0)
		if st == wellFormed && j == len(s) {
			if want := "ok " + lib.Hex(v); res != want {
				return "literal value: want " + clip(want)
			}
		}
	}
	return ""
}

// ---------------------------------------------------------------------------------------
// generators

var (
	smallLits = []string{"0", "1", "2", "3", "-2", "7"}
	opChars   = []byte("^*/+-")
)

func calcCase(s string) string { return "calc " + lib.Bytes([]byte(s)) }

// render joins tokens with a spacing style: 0 none, 1 single spaces around operators,
// 2 random 0..2 spaces in every gap (also leading/trailing).
func render(toks []string, style int, r *lib.Rand) string {
	var b strings.Builder
	gap := func() {
		switch style {
		case 1:
			b.WriteByte(' ')
		case 2:
			for n := r.Intn(3); n > 0; n-- {
				b.WriteByte(' ')
			}
		}
	}
	if style == 2 {
		gap()
	}
	for i, t := range toks {
		if i > 0 {
			gap()
		}
		b.WriteString(t)
	}
	if style == 2 {
		gap()
	}
	return b.String()
}

// seqTokens decodes index idx into the k-operator sequence number idx over smallLits/opChars.
func seqTokens(k int, idx uint64) []string {
	toks := make([]string, 0, 2*k+1)
	toks = append(toks, smallLits[idx%6])
	idx /= 6
	for j := 0; j < k; j++ {
		toks = append(toks, string(opChars[idx%5]))
		idx /= 5
		toks = append(toks, smallLits[idx%6])
		idx /= 6
	}
	return toks
}

func seqCount(k int) uint64 {
	n := uint64(6)
	for j := 0; j < k; j++ {
		n *= 30
	}
	return n
}

// sweep evaluates every sequence with exactly k operators (no spaces) in-process against the
// oracle and returns the expressions the oracle rejects (at most 50). A worker stuck in one
// evaluation for longer than hangAfter is abandoned and its expression reported.
func sweep(k int) (bad []string, skipped uint64) {
	total := seqCount(k)
	nw := runtime.NumCPU()
	if nw > 16 {
		nw = 16
	}
	type worker struct {
		mu    sync.Mutex
		cur   string
		since time.Time
		done  bool
		bad   []string
		skip  uint64
	}
	ws := make([]*worker, nw)
	for w := 0; w < nw; w++ {
		ws[w] = &worker{since: time.Now()}
		go func(w int, me *worker) {
			for idx := uint64(w); idx < total; idx += uint64(nw) {
				if tooManyHangs() {
					break
				}
				s := strings.Join(seqTokens(k, idx), "")
				if tooBig(s) {
					me.skip++
					continue
				}
				me.mu.Lock()
				me.cur, me.since = s, time.Now()
				me.mu.Unlock()
				res := safeEval(s)
				if judge(s, res) != "" {
					me.mu.Lock()
					if len(me.bad) < 50 {
						me.bad = append(me.bad, s)
					}
					me.mu.Unlock()
				}
			}
			me.mu.Lock()
			me.done = true
			me.mu.Unlock()
		}(w, ws[w])
	}
	for pending := nw; pending > 0; {
		time.Sleep(50 * time.Millisecond)
		pending = 0
		for _, me := range ws {
			me.mu.Lock()
			if !me.done {
				if time.Since(me.since) > hangAfter {
					me.done = true // abandoned: its goroutine never returns
					me.bad = append(me.bad, me.cur)
					atomic.AddInt32(&hangs, 1)
				} else {
					pending++
				}
			}
			me.mu.Unlock()
		}
	}
	for _, me := range ws {
		me.mu.Lock()
		bad = append(bad, me.bad...)
		skipped += me.skip
		me.mu.Unlock()
	}
	sort.Strings(bad)
	if len(bad) > 50 {
		bad = bad[:50]
	}
	return bad, skipped
}

func safeEval(s string) (res string) {
	defer func() {
		if v := recover(); v != nil {
			res = "panic " + panicClass(v)
		}
	}()
	return evalImpl(s)
}

func panicClass(v interface{}) string {
	msg := fmt.Sprint(v)
	if strings.Contains(msg, "division by zero") {
		return "divzero"
	}
	if strings.Contains(msg, "index out of range") || strings.Contains(msg, "slice bounds") {
		return "index"
	}
	return "other"
}

// randLiteral returns a literal of up to `bits` bits in a random base, optionally negative.
func randLiteral(r *lib.Rand, bits int) string {
	var v *big.Int
	switch r.Intn(6) {
	case 0:
		v = big.NewInt(int64(r.Intn(4)))
	case 1:
		v = big.NewInt(int64(r.Intn(300)))
	default:
		v = r.Bits(r.Range(1, bits))
	}
	var s string
	switch r.Intn(3) {
	case 0:
		s = v.Text(10)
	case 1:
		s = "0x" + v.Text(16)
	default:
		s = "0b" + v.Text(2)
	}
	if r.Chance(1, 4) {
		s = "-" + s
	}
	return s
}

func randExponent(r *lib.Rand) string {
	v := int64(r.Intn(8))
	if r.Chance(1, 6) {
		v = int64(r.Intn(65))
	}
	s := []string{fmt.Sprint(v), fmt.Sprintf("0x%x", v), fmt.Sprintf("0b%b", v)}[r.Intn(3)]
	if r.Chance(1, 8) {
		s = "-" + s
	}
	return s
}

// randExpr builds a well-formed expression of nops operators within the budget.
func randExpr(r *lib.Rand, nops, bits int) []string {
	for {
		toks := []string{randLiteral(r, bits)}
		for j := 0; j < nops; j++ {
			var op byte
			switch x := r.Intn(10); {
			case x < 2:
				op = '^'
			case x < 4:
				op = '*'
			case x < 6:
				op = '/'
			case x < 8:
				op = '+'
			default:
				op = '-'
			}
			toks = append(toks, string(op))
			if op == '^' {
				// the base of a power is the literal before it: keep it moderate
				if r.Chance(3, 4) {
					toks[len(toks)-2] = randLiteral(r, 40)
				}
				toks = append(toks, randExponent(r))
			} else {
				toks = append(toks, randLiteral(r, bits))
			}
		}
		if !tooBig(strings.Join(toks, "")) {
			return toks
		}
	}
}

var malformedFixed = []string{
	"", " ", "   ", "+", "-", "*", "^", "/", "1+", "1 +", "1+ ", "2*", "2^", "2/", "2-", "1+2*",
	"1++2", "1+*2", "1*/2", "1^^2", "1//2", "1**2", "1 2", "1 2 3", "1 0x2", "12 34", "1 -2", "1- -2", "1 - - 2", "- 2", "-",
	"--5", "--", "1---2", "1--2", "+5", "+", "1+-+2",
	"0x", "0x ", "-0x", "0x+1", "0b", "-0b", "0b2", "0b12", "0b1 2", "0xg", "0x1g", "0xG", "0X1f", "0B11", "0o17", "0O17",
	"0xFF", "0xAb", "0xaB", "0XFF", "1A", "1a", "a", "x", "0xx1", "0bb1", "00x1", "0x0x1", "0b0b1",
	"09", "08", "019", "-09", "1+09", "09+1", "010", "007", "00", "000", "-00", "-010", "01+1", "0777", "0778",
	"1_0", "1_000", "_1", "1_", "0x_1", "0x1_f", "0b1_0", "0_7",
	"1\t+2", "\t1", "1\t", "1\n", "1\r\n", "\n", "1 +\t2", "1\v+2", "1\f+2", "1\x00", "\x001",
	"\xc3\xa9", "1+\xc3\xa9", "\xef\xbc\x91", "1\xc2\xa0+2", "\xff", "1+\x80", "\xe2\x88\x922", "2\xc3\x972", "2\xe2\x81\x84",
	"(1)", "(1+2)", "1+(2*3)", "2**3", "1e5", "1.5", "1,5", "0.5", ".5", "1.", "5!", "5%2", "1<<2", "1&1", "1|1", "~1", "1=1",
	"1 + 2 = 3", "0x1.8p1", "1e", "0e0", "inf", "NaN", "1i", "'1'", "\"1\"",
	"2 - 5 ^", "5 - 0 /", "5 - 3 *", "2*3^2^", "2 - 3*4 ^", "2^3^", "7 + 2 * 3 ^ 2 ^",
	"1/0", "1/0+", "1/0+*", "0/0", "1/-0", "1/0x0", "1/0b0", "1/00", "2^3/0", "1/0/0", "1+1/0", "1/0 2", "1/0 x", "1/0^0", "1/0^1", "0^0", "0^-1",
}

func gen(tier string, r *lib.Rand, emit func(string)) {
	thorough := tier == "thorough"
	e := func(s string) {
		if !tooManyHangs() {
			emit(calcCase(s))
		}
	}
	t0 := time.Now()
	progress := func(what string) {
		fmt.Fprintf(os.Stderr, "c13: %-28s done at %6.1fs\n", what, time.Since(t0).Seconds())
	}

	// corpus-like anchors: the expressions whose reading the property spells out
	for _, s := range []string{"2*3^2", "2^3*2", "2^3^2", "8/2^2", "2^2*3^2", "2*3^2*5", "7-2-3", "7-2+3", "64/4/2", "64/4*2",
		"2+3*4", "2*3+4", "2+3*4^2", "-7/2", "7/-2", "-7/-2", "7/2", "-8/2", "-1/7", "1/-7", "2^-1", "2^0", "0^0", "-2^2", "-2^3",
		"2--2", "2 - -2", "0x10*0b11+7", "-0x10", "-0b11", "2^64", "2^0x40", "10/3*3", "10*3/3", "100/7/2", "3^3^3", "2^2^2^2"} {
		e(s)
	}

	// (a) exhaustive small scope: all sequences over smallLits with every operator.
	for k := 0; k <= 3; k++ {
		total := seqCount(k)
		for idx := uint64(0); idx < total; idx++ {
			toks := seqTokens(k, idx)
			if tooBig(strings.Join(toks, "")) {
				continue
			}
			if k <= 2 {
				e(render(toks, 0, r))
				e(render(toks, 1, r))
				e(render(toks, 2, r))
			} else {
				e(render(toks, r.Intn(3), r))
			}
		}
	}
	progress("exhaustive <= 3 operators")
	// sampled sequences of 4 and 5 operators as lines (model and implementation both run them)
	nsample := 4000
	if thorough {
		nsample = 150000
	}
	for k := 4; k <= 5; k++ {
		total := seqCount(k)
		for n := 0; n < nsample; n++ {
			toks := seqTokens(k, r.Uint64()%total)
			if tooBig(strings.Join(toks, "")) {
				continue
			}
			e(render(toks, r.Intn(3), r))
		}
	}
	progress("sampled 4, 5 operators")
	// in-process sweep of every sequence (implementation against the oracle only); anything the
	// oracle rejects becomes a case line so that it is reported with its input
	sweepTo := 4
	if thorough {
		sweepTo = 5
	}
	if os.Getenv("C13_NOSWEEP") != "" { // profiling aid only
		sweepTo = 0
	}
	for k := 4; k <= sweepTo; k++ {
		bad, skipped := sweep(k)
		fmt.Fprintf(os.Stderr, "c13: swept all %d sequences of %d operators in-process (%d over budget skipped), %d rejected by the oracle\n",
			seqCount(k), k, skipped, len(bad))
		for _, s := range bad {
			e(s)
		}
	}

	progress("in-process sweep")
	// (b) random well-formed expressions: up to 12 operators, literals up to 2^300, three bases
	nrand := 1500
	if thorough {
		nrand = 40000
	}
	for n := 0; n < nrand; n++ {
		bits := []int{8, 64, 300}[r.Intn(3)]
		toks := randExpr(r, r.Range(0, 12), bits)
		e(render(toks, r.Intn(3), r))
	}
	// single literals of every shape
	for n := 0; n < 200; n++ {
		e(randLiteral(r, 300))
	}

	progress("random expressions")
	// (c) malformed classes
	for _, s := range malformedFixed {
		e(s)
	}
	// Unicode: stray non-ASCII characters and invalid UTF-8 in every position
	unicodeStream(e)
	progress("unicode")
	// every string over a small alphabet
	alpha := []byte("019abx-+^/ _")
	maxlen := 4
	if thorough {
		maxlen = 5
	}
	var rec func(prefix []byte)
	rec = func(prefix []byte) {
		if len(prefix) > 0 {
			s := string(prefix)
			if !tooBig(s) {
				e(s)
			}
		}
		if len(prefix) == maxlen {
			return
		}
		for _, c := range alpha {
			rec(append(prefix, c))
		}
	}
	rec(nil)
	progress("small alphabet")
	// mutations of well-formed expressions
	nmut := 3000
	if thorough {
		nmut = 60000
	}
	junk := []byte("0123456789abcdefxABCDEFX_+-*/^ \t()%.,eE\x00\x7f\x80\xc3\xa9g")
	for n := 0; n < nmut; n++ {
		s := []byte(render(randExpr(r, r.Range(0, 5), 40), r.Intn(3), r))
		for m := r.Range(1, 2); m > 0; m-- {
			switch r.Intn(4) {
			case 0: // delete
				if len(s) > 0 {
					i := r.Intn(len(s))
					s = append(s[:i:i], s[i+1:]...)
				}
			case 1: // insert
				i := r.Intn(len(s) + 1)
				s = append(s[:i:i], append([]byte{junk[r.Intn(len(junk))]}, s[i:]...)...)
			case 2: // replace
				if len(s) > 0 {
					s[r.Intn(len(s))] = junk[r.Intn(len(junk))]
				}
			default: // duplicate a byte
				if len(s) > 0 {
					i := r.Intn(len(s))
					s = append(s[:i:i], append([]byte{s[i]}, s[i:]...)...)
				}
			}
		}
		if !tooBig(string(s)) {
			e(string(s))
		}
	}

	progress("mutations")
	// (d) math/big SetString(s, 0) on its own
	es := func(s string) {
		if !tooManyHangs() {
			emit("setstring " + lib.Bytes([]byte(s)))
		}
	}
	for _, s := range malformedFixed {
		es(s)
	}
	salpha := []byte("0178abx_-+Bo")
	smax := 4
	if thorough {
		smax = 5
	}
	var srec func(prefix []byte)
	srec = func(prefix []byte) {
		es(string(prefix))
		if len(prefix) == smax {
			return
		}
		for _, c := range salpha {
			srec(append(prefix, c))
		}
	}
	srec(nil)
	sjunk := []byte("0123456789abcdefxzABCDEFXZbBoO_+-. g")
	for n := 0; n < nrand; n++ {
		if r.Bool() {
			es(randLiteral(r, 300))
			continue
		}
		b := make([]byte, r.Range(1, 12))
		for i := range b {
			b[i] = sjunk[r.Intn(len(sjunk))]
		}
		es(string(b))
	}
}

// ---------------------------------------------------------------------------------------
// Unicode stream: a non-ASCII character (or an invalid UTF-8 sequence) is a stray character
// wherever it stands, whatever its code point or its encoding bytes look like modulo 256.

// lowByteRunes returns runes above U+007F whose code point modulo 256 is b.
func lowByteRunes(b byte) []rune {
	var rs []rune
	for _, base := range []rune{0x100, 0x200, 0x2100, 0x4E00, 0xFF00, 0x10000, 0x1F600, 0x10FF00} {
		rs = append(rs, base+rune(b))
	}
	return rs
}

// contRunes returns runes whose last UTF-8 byte is 0x80|b&0x3F for b < 0x40 (the encoding byte
// with the top bit stripped is b), in 2-, 3- and 4-byte encodings.
func contRunes(b byte) []rune {
	if b >= 0x40 {
		return nil
	}
	return []rune{0x80 + rune(b), 0x4E00 + rune(b), 0x1F600 + rune(b)}
}

func unicodeInserts() []string {
	seen := map[string]bool{}
	var out []string
	add := func(s string) {
		if !seen[s] {
			seen[s] = true
			out = append(out, s)
		}
	}
	// (a) operators, (b) digits, x, b, _, hex letters, (c) space and tab: by low byte of the code
	// point and by stripped encoding byte
	for _, b := range []byte("*+-/^0123456789xb_af \t") {
		for _, r := range lowByteRunes(b) {
			add(string(r))
		}
		for _, r := range contRunes(b) {
			add(string(r))
		}
	}
	// look-alikes: operators, digits, letters of literals, spaces, case-fold orbits
	for _, r := range []rune{
		0x00D7, 0x2212, 0xFF0B, 0x00F7, 0x2215, 0x2044, 0xFF0A, 0x2217, 0xFF3E, 0x02C6, 0x2010, 0x2013, 0x2014, 0x207A, 0x207B, 0xFF0D, 0xFF0F, 0x2795, 0x2796, 0x2716,
		0xFF10, 0xFF11, 0xFF19, 0x0660, 0x0661, 0x0669, 0x06F0, 0x06F1, 0x0966, 0x0967, 0x00B2, 0x00B9, 0x2070, 0x2080, 0x2460, 0x1D7CE, 0x1D7D8,
		0xFF58, 0xFF38, 0x0445, 0x0425, 0xFF42, 0xFF41, 0xFF46, 0xFF21, 0x0430, 0x0435, 0x03B1, 0xFF3F, 0x203F,
		0x00A0, 0x1680, 0x2000, 0x2003, 0x2009, 0x200A, 0x200B, 0x2028, 0x2029, 0x202F, 0x205F, 0x3000, 0xFEFF, 0x0085, 0x180E, 0x200E, 0x2060,
		0x212A, 0x017F, 0x0130, 0x0131, 0x212B, 0x1E9E, 0x00DF, 0xFB00, 0x0345,
		0x0301, 0x20E3, 0xFE0F, 0xFFFD, 0xFFFE, 0xFFFF, 0x10FFFF, 0xE000, 0xD7FF,
	} {
		add(string(r))
	}
	// (e) invalid UTF-8: lone continuation bytes (operator/digit/space byte with the top bit
	// set), lone lead bytes, truncated sequences, overlong encodings of operators, digits and
	// space, surrogates, beyond U+10FFFF
	for _, b := range []byte("*+-/^019x_ ") {
		add(string([]byte{b | 0x80}))
		add(string([]byte{0xC0 | b>>6, 0x80 | b&0x3F}))             // overlong, 2 bytes
		add(string([]byte{0xE0, 0x80 | b>>6, 0x80 | b&0x3F}))       // overlong, 3 bytes
		add(string([]byte{0xF0, 0x80, 0x80 | b>>6, 0x80 | b&0x3F})) // overlong, 4 bytes
	}
	for _, q := range []string{"\x80", "\xbf", "\xc2", "\xe4", "\xf0", "\xe4\xb8", "\xf0\x9f\x98", "\xed\xa0\x80", "\xed\xbf\xbf",
		"\xf4\x90\x80\x80", "\xf8\x88\x80\x80\x80", "\xfe", "\xff", "\xc4", "\xc4\x2b", "\xe4\xb8\x2d", "\xef\xbb\xbf"} {
		add(q)
	}
	return out
}

var unicodeTemplates = []string{
	// operator position
	"2@3", "7 @ 10", "2@10", "2@3+1", "1+2@3", "0x1f@0b11", "2@-3", "2@", "2@@3", "12 @3", "12@ 3", "2*3@4^2",
	// operand position
	"@", "@2", "@2+3", "2+@", "2+@3", "-@", "-@2", "2^@", "2 * @ 3",
	// inside literals
	"1@0", "1@0+5", "0x@1", "0@x1", "0x1@f", "0b1@0", "0@b1", "2^1@0", "-@1", "0@",
	// whitespace positions
	"2 @+ 3", "2 +@ 3", "@ 2+3", "2+3 @", "2+3@", " @ ", "2 @ + 3",
}

func unicodeStream(e func(string)) {
	for _, ins := range unicodeInserts() {
		for _, t := range unicodeTemplates {
			e(strings.ReplaceAll(t, "@", ins))
		}
	}
	// every code point above U+007F in operator, operand and in-literal position, in-process;
	// what the oracle rejects is emitted as a case line (plus a thin sample either way)
	var bad []string
	n := 0
	for r := rune(0x80); r <= 0x10FFFF && !tooManyHangs(); r++ {
		if r >= 0xD800 && r <= 0xDFFF {
			continue
		}
		for ti, t := range []string{"2@3", "@", "1@0", "2 @ 10"} {
			if ti > 0 && r > 0xFFFF && r%16 != 0 { // astral planes: the other positions thinned
				continue
			}
			s := strings.ReplaceAll(t, "@", string(r))
			if r%4099 == 0 {
				e(s)
			}
			if len(bad) < 40 && judge(s, safeEval(s)) != "" {
				bad = append(bad, s)
			}
			n++
		}
	}
	fmt.Fprintf(os.Stderr, "c13: swept %d texts with every code point above U+007F in-process, %d rejected by the oracle\n", n, len(bad))
	for _, s := range bad {
		e(s)
	}
}

// neighbours: perturbations of an expression that must keep or make it an error (non-ASCII
// characters with the low byte of the byte they replace, stray characters from the Unicode
// inserts) and plain byte edits.
func neighbours(c string, r *lib.Rand, emit func(string)) {
	f := strings.Split(c, " ")
	if len(f) != 2 || f[0] != "calc" {
		return
	}
	s := lib.ParseBytes(f[1])
	out := func(b []byte) {
		if t := string(b); !tooBig(t) {
			emit(calcCase(t))
		}
	}
	ins := unicodeInserts()
	bases := []rune{0x100, 0x200, 0x4E00, 0xFF00, 0x1F600}
	for k := 0; k < 24; k++ {
		switch r.Intn(4) {
		case 0: // replace an ASCII byte by a character with the same low byte
			if len(s) > 0 {
				i := r.Intn(len(s))
				if s[i] < 0x80 {
					ch := string(bases[r.Intn(len(bases))] + rune(s[i]))
					out(append(append(append([]byte{}, s[:i]...), ch...), s[i+1:]...))
				}
			}
		case 1: // insert a character with the low byte of an operator, digit or space
			i := r.Intn(len(s) + 1)
			lb := []byte("*+-/^05x ")[r.Intn(9)]
			ch := string(bases[r.Intn(len(bases))] + rune(lb))
			out(append(append(append([]byte{}, s[:i]...), ch...), s[i:]...))
		case 2: // insert one of the Unicode inserts
			i := r.Intn(len(s) + 1)
			out(append(append(append([]byte{}, s[:i]...), ins[r.Intn(len(ins))]...), s[i:]...))
		default: // replace a byte by an operator-low-byte character (keeps the token shape)
			if len(s) > 0 {
				i := r.Intn(len(s))
				lb := []byte("*+-/^")[r.Intn(5)]
				ch := string(bases[r.Intn(len(bases))] + rune(lb))
				out(append(append(append([]byte{}, s[:i]...), ch...), s[i+1:]...))
			}
		}
	}
}

func main() {
	lib.Main(lib.Prop{
		ID:     "C13",
		Gen:    gen,
		Run:    run,
		Oracle: oracle,
		Nontrivial: func(c, res string) bool {
			f := strings.Split(c, " ")
			if len(f) != 2 {
				return false
			}
			s := string(lib.ParseBytes(f[1]))
			if f[0] == "setstring" {
				return len(s) >= 2
			}
			// an expression with at least one operator, or a rejected one of at least two bytes
			ts, st := olex(s)
			if st == wellFormed {
				return len(ts) >= 3
			}
			return len(s) >= 2
		},
		PanicClass: panicClass,
		Neighbours: neighbours,
	})
}
