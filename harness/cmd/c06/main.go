// Harness for C06: generated listings, run literally, compute the script's
// chain or are refused.
//
//	gen <listing|chain|ops|script> <script bytes>  -> ok <output bytes> | err <class>
//	runlisting <script bytes> <separate|aliased>   -> ok <value of z> <x written 0|1> <registers> | err <class>
//
//	genstdout <type> <script bytes>                -> ok <exit status> <stdout bytes>     (real binary)
//	genout <type|tmpl:type|tmpl:broken> <script bytes> ...
//	    the real binary run as `addchain gen (-type T | -tmpl FILE) -out F script` once per script, always
//	    into the same F (scripts alternately as a file argument and on standard input)
//	                                               -> ok <exit statuses> <final bytes of F | nofile>
//
// Error classes: parse, toolarge (a shift above 4096: not evaluated by either
// side), undefined, redefine, dangling, empty (no instruction), conflict,
// bounds, outindex; for runlisting also badlisting, unwritten.
package main

import (
	"bytes"
	"context"
	"fmt"
	"math/big"
	"os"
	"os/exec"
	"path/filepath"
	"reflect"
	"regexp"
	"sort"
	"strconv"
	"strings"
	"time"

	"github.com/mmcloughlin/addchain"
	"github.com/mmcloughlin/addchain/acc"
	"github.com/mmcloughlin/addchain/acc/ast"
	"github.com/mmcloughlin/addchain/acc/parse"
	"github.com/mmcloughlin/addchain/acc/pass"
	"github.com/mmcloughlin/addchain/acc/printer"
	"github.com/mmcloughlin/addchain/alg/ensemble"
	"github.com/mmcloughlin/addchain/verifhook"

	"verif/harness/acclib"
	"verif/harness/lib"
)

// the configuration of cmd/addchain/gen.go
const (
	inName  = "x"
	outName = "z"
	tmpFmt  = "t%d"
)

var templates = []string{"listing", "chain", "ops", "script"}

func config() verifhook.GenConfig {
	return verifhook.GenConfig{Allocator: pass.Allocator{Input: inName, Output: outName, Format: tmpFmt}}
}

func errClass(err error) string {
	m := err.Error()
	switch {
	case strings.Contains(m, "undefined"):
		return "undefined"
	case strings.Contains(m, "cannot redefine"):
		return "redefine"
	case strings.Contains(m, "no output instruction for input index"):
		return "dangling"
	case strings.Contains(m, "program without instructions"):
		return "empty"
	case strings.Contains(m, "identifier conflict"):
		return "conflict"
	case strings.Contains(m, "negative index"), strings.Contains(m, "out of bounds"):
		return "bounds"
	case strings.Contains(m, "incorrect output index"):
		return "outindex"
	}
	return "other"
}

func hugeShift(t *ast.Chain) bool {
	var rec func(e ast.Expr) bool
	rec = func(e ast.Expr) bool {
		switch e := e.(type) {
		case ast.Add:
			return rec(e.X) || rec(e.Y)
		case ast.Double:
			return rec(e.X)
		case ast.Shift:
			return e.S > 4096 || rec(e.X)
		}
		return false
	}
	for _, s := range t.Statements {
		if rec(s.Expr) {
			return true
		}
	}
	return false
}

// generate runs the real generator: parse, PrepareData, Generate.
func generate(tmplName, src string) (out string, class string) {
	t, err := parse.String(src)
	if err != nil {
		return "", "parse"
	}
	if hugeShift(t) {
		return "", "toolarge"
	}
	d, err := verifhook.GenPrepareData(config(), t)
	if err != nil {
		return "", errClass(err)
	}
	tmpl, err := verifhook.GenBuiltinTemplate(tmplName)
	if err != nil {
		return "", "template"
	}
	var buf bytes.Buffer
	if err := verifhook.GenGenerate(&buf, tmpl, d); err != nil {
		return "", "template"
	}
	return buf.String(), ""
}

// ---------------------------------------------------------------- the documented reading of a listing

type lins struct {
	kind    string
	dst     string
	srcs    []string
	n       uint64
	rawline string
}

// readListing reads a listing as doc/gen.md documents it: a `tmp v ...` line,
// then add/double/shift lines; fields are separated by tabs.
func readListing(text string) (temps []string, prog []lins, problem string) {
	if !strings.HasSuffix(text, "\n") {
		return nil, nil, "listing does not end with a newline"
	}
	lines := strings.Split(strings.TrimSuffix(text, "\n"), "\n")
	if len(lines) == 0 {
		return nil, nil, "empty listing"
	}
	f := strings.Split(lines[0], "\t")
	if f[0] != "tmp" || len(f) < 2 {
		return nil, nil, "first line is not a tmp directive"
	}
	for _, v := range f[1:] {
		if v == "" {
			if len(f) == 2 {
				break // `tmp` followed by nothing: no temporaries
			}
			return nil, nil, "empty temporary name"
		}
		temps = append(temps, v)
	}
	for _, l := range lines[1:] {
		f := strings.Split(l, "\t")
		for _, v := range f {
			if v == "" {
				return nil, nil, "empty field in " + strconv.Quote(l)
			}
		}
		switch {
		case f[0] == "add" && len(f) == 4:
			prog = append(prog, lins{kind: "add", dst: f[1], srcs: f[2:4], rawline: l})
		case f[0] == "double" && len(f) == 3:
			prog = append(prog, lins{kind: "double", dst: f[1], srcs: f[2:3], rawline: l})
		case f[0] == "shift" && len(f) == 4:
			n, err := strconv.ParseUint(f[3], 10, 64)
			if err != nil {
				return nil, nil, "bad shift amount in " + strconv.Quote(l)
			}
			prog = append(prog, lins{kind: "shift", dst: f[1], srcs: f[2:3], n: n, rawline: l})
		default:
			return nil, nil, "unknown directive " + strconv.Quote(l)
		}
	}
	return temps, prog, ""
}

// regmachine is a register file keyed by name. With aliasing the input and
// output names denote one register (kept under the input name).
type regmachine struct {
	aliased bool
	cell    map[string]*big.Int
	written map[string]bool // destination names as they appear in the text
}

func newMachine(aliased bool) *regmachine {
	m := &regmachine{aliased: aliased, cell: map[string]*big.Int{}, written: map[string]bool{}}
	m.cell[inName] = big.NewInt(1)
	return m
}

func (m *regmachine) reg(name string) string {
	if m.aliased && name == outName {
		return inName
	}
	return name
}

func (m *regmachine) get(name string) (*big.Int, bool) {
	c, ok := m.cell[m.reg(name)]
	return c, ok
}

// step executes one instruction; "unwritten" when a register is read that holds nothing.
func (m *regmachine) step(i lins) string {
	vals := make([]*big.Int, len(i.srcs))
	for k, s := range i.srcs {
		c, ok := m.get(s)
		if !ok {
			return "unwritten"
		}
		vals[k] = c
	}
	var v *big.Int
	switch i.kind {
	case "add":
		v = new(big.Int).Add(vals[0], vals[1])
	case "double":
		v = new(big.Int).Lsh(vals[0], 1)
	case "shift":
		v = new(big.Int).Lsh(vals[0], uint(i.n))
	}
	m.cell[m.reg(i.dst)] = v
	m.written[i.dst] = true
	return ""
}

func (m *regmachine) dump() string {
	var names []string
	for n := range m.cell {
		names = append(names, n)
	}
	sort.Strings(names)
	ss := make([]string, len(names))
	for k, n := range names {
		ss[k] = lib.Bytes([]byte(n)) + ":" + lib.Hex(m.cell[n])
	}
	return strings.Join(ss, ",")
}

func runListing(text string, aliased bool) string {
	_, prog, problem := readListing(text)
	if problem != "" {
		return "err badlisting"
	}
	m := newMachine(aliased)
	for _, i := range prog {
		if e := m.step(i); e != "" {
			return "err " + e
		}
	}
	z, ok := m.get(outName)
	zs := "undef"
	if ok {
		zs = lib.Hex(z)
	}
	return "ok " + zs + " " + lib.Bool(m.written[inName]) + " " + m.dump()
}

// ---------------------------------------------------------------- the real binary

var scratchSeq int

func scratch() string {
	base := os.Getenv("VERIF_BUILD")
	if base == "" {
		base = os.TempDir()
	}
	scratchSeq++
	d := filepath.Join(base, fmt.Sprintf("genout-%d-%d", os.Getpid(), scratchSeq))
	if err := os.MkdirAll(d, 0o755); err != nil {
		panic(err)
	}
	return d
}

// addchainGen runs `addchain gen args...`; the script is passed as a file (asFile) or on standard input.
func addchainGen(dir string, args []string, script string, asFile bool) (exit int, stdout string) {
	bin := os.Getenv("ADDCHAIN_BIN")
	if bin == "" {
		panic("ADDCHAIN_BIN not set")
	}
	ctx, cancel := context.WithTimeout(context.Background(), 60*time.Second)
	defer cancel()
	a := append([]string{"gen"}, args...)
	var stdin *strings.Reader
	if asFile {
		f := filepath.Join(dir, "in.acc")
		if err := os.WriteFile(f, []byte(script), 0o644); err != nil {
			panic(err)
		}
		a = append(a, f)
		stdin = strings.NewReader("")
	} else {
		stdin = strings.NewReader(script)
	}
	cmd := exec.CommandContext(ctx, bin, a...)
	cmd.Stdin = stdin
	var out bytes.Buffer
	cmd.Stdout = &out
	err := cmd.Run()
	if ctx.Err() != nil {
		return -1, out.String()
	}
	if err != nil {
		if ee, ok := err.(*exec.ExitError); ok {
			return ee.ExitCode(), out.String()
		}
		panic(err)
	}
	return 0, out.String()
}

// templateArgs turns the type token of a case into command-line arguments (-type T, or -tmpl FILE with
// the text of builtin template T, or -tmpl FILE with a text that text/template cannot parse).
func templateArgs(dir, sel string) []string {
	if strings.HasPrefix(sel, "tmpl:") {
		name := strings.TrimPrefix(sel, "tmpl:")
		text := "{{ .Nope"
		if name != "broken" {
			t, err := verifhook.GenBuiltinTemplate(name)
			if err != nil {
				panic("harness: no builtin template " + name)
			}
			text = t
		}
		f := filepath.Join(dir, "custom.tmpl")
		if err := os.WriteFile(f, []byte(text), 0o644); err != nil {
			panic(err)
		}
		return []string{"-tmpl", f}
	}
	return []string{"-type", sel}
}

func anyHuge(srcs []string) bool {
	for _, s := range srcs {
		if t, err := parse.String(s); err == nil && hugeShift(t) {
			return true
		}
	}
	return false
}

// genOut runs the history and returns the exit statuses and the final file (nil = it does not exist).
func genOut(sel string, srcs []string) (exits []int, file []byte) {
	dir := scratch()
	defer os.RemoveAll(dir)
	out := filepath.Join(dir, "out.txt")
	targs := templateArgs(dir, sel)
	for k, src := range srcs {
		e, _ := addchainGen(dir, append(append([]string{}, targs...), "-out", out), src, k%2 == 0)
		exits = append(exits, e)
	}
	b, err := os.ReadFile(out)
	if err != nil {
		return exits, nil
	}
	if b == nil {
		b = []byte{}
	}
	return exits, b
}

func genStdout(sel, src string) (int, string) {
	dir := scratch()
	defer os.RemoveAll(dir)
	return addchainGen(dir, templateArgs(dir, sel), src, len(src)%2 == 0)
}

// ---------------------------------------------------------------- Run

func run(c string) string {
	f := strings.Split(c, " ")
	switch {
	case f[0] == "gen" && len(f) == 3:
		out, cls := generate(f[1], string(lib.ParseBytes(f[2])))
		if cls != "" {
			return "err " + cls
		}
		return "ok " + lib.Bytes([]byte(out))
	case f[0] == "genstdout" && len(f) == 3:
		src := string(lib.ParseBytes(f[2]))
		if anyHuge([]string{src}) {
			return "err toolarge"
		}
		e, out := genStdout(f[1], src)
		return "ok " + strconv.Itoa(e) + " " + lib.Bytes([]byte(out))
	case f[0] == "genout" && len(f) >= 3:
		srcs := make([]string, len(f)-2)
		for k := range srcs {
			srcs[k] = string(lib.ParseBytes(f[k+2]))
		}
		if anyHuge(srcs) {
			return "err toolarge"
		}
		exits, file := genOut(f[1], srcs)
		fs := "nofile"
		if file != nil {
			fs = lib.Bytes(file)
		}
		return "ok " + lib.IntList(exits) + " " + fs
	case f[0] == "runlisting" && len(f) == 3 && (f[2] == "separate" || f[2] == "aliased"):
		out, cls := generate("listing", string(lib.ParseBytes(f[1])))
		if cls != "" {
			return "err " + cls
		}
		return runListing(out, f[2] == "aliased")
	}
	return "badcase"
}

// ---------------------------------------------------------------- Oracle

// reference evaluates the script by the in-order semantics of the language
// (acclib.Interp: own evaluator, no repository code beyond the parser).
func reference(t *ast.Chain) (vals []*big.Int, ops [][2]int, ok bool) {
	vals, ops, rej := acclib.Interp(t)
	return vals, ops, rej == ""
}

var (
	chainLine = regexp.MustCompile(`^ *([0-9]+): 0x([0-9a-f]+)$`)
	opsLine   = regexp.MustCompile(`^\[ *([0-9]+)\] +([0-9]+)\+([0-9]+) +0x([0-9a-f]+)$`)
)

func checkListing(text string, want *big.Int) string {
	temps, prog, problem := readListing(text)
	if problem != "" {
		return "listing is not in the documented format: " + problem
	}
	declared := map[string]bool{}
	for _, v := range temps {
		if declared[v] {
			return "temporary " + v + " declared twice"
		}
		if v == inName || v == outName {
			return "temporary named like the input/output"
		}
		declared[v] = true
	}
	if len(prog) == 0 {
		return "listing without instructions"
	}
	for _, i := range prog {
		if i.dst == inName {
			return "instruction writes the input register: " + strconv.Quote(i.rawline)
		}
		if i.dst != outName && !declared[i.dst] {
			return "instruction writes an undeclared register: " + strconv.Quote(i.rawline)
		}
		for _, s := range i.srcs {
			if s != inName && s != outName && !declared[s] {
				return "instruction reads an undeclared register: " + strconv.Quote(i.rawline)
			}
		}
	}
	for _, aliased := range []bool{false, true} {
		mode := "separate"
		if aliased {
			mode = "aliased"
		}
		m := newMachine(aliased)
		for _, i := range prog {
			if e := m.step(i); e != "" {
				return "register read before it is written (" + mode + "): " + strconv.Quote(i.rawline)
			}
		}
		z, ok := m.get(outName)
		if !ok {
			return "output register never written"
		}
		if z.Cmp(want) != 0 {
			return fmt.Sprintf("listing run literally (%s) leaves %s in %s, the script's chain ends in %s", mode, lib.Hex(z), outName, lib.Hex(want))
		}
		if !aliased && m.cell[inName].Cmp(big.NewInt(1)) != 0 {
			return "input register modified in separate mode"
		}
	}
	return ""
}

func checkChain(text string, vals []*big.Int) string {
	if text == "" {
		return "empty chain output"
	}
	lines := strings.Split(strings.TrimSuffix(text, "\n"), "\n")
	if !strings.HasSuffix(text, "\n") || len(lines) != len(vals) {
		return fmt.Sprintf("chain output has %d lines, the chain has %d elements", len(lines), len(vals))
	}
	for k, l := range lines {
		m := chainLine.FindStringSubmatch(l)
		if m == nil {
			return "chain line not in the expected shape: " + strconv.Quote(l)
		}
		if lib.Atoi(m[1]) != k+1 || lib.ParseHex(m[2]).Cmp(vals[k]) != 0 {
			return fmt.Sprintf("chain line %d is %q, element is %s", k+1, l, lib.Hex(vals[k]))
		}
	}
	return ""
}

func checkOps(text string, vals []*big.Int, ops [][2]int) string {
	lines := []string{}
	if text != "" {
		if !strings.HasSuffix(text, "\n") {
			return "ops output does not end with a newline"
		}
		lines = strings.Split(strings.TrimSuffix(text, "\n"), "\n")
	}
	if len(lines) != len(ops) {
		return fmt.Sprintf("ops output has %d lines, the program has %d operations", len(lines), len(ops))
	}
	for k, l := range lines {
		m := opsLine.FindStringSubmatch(l)
		if m == nil {
			return "ops line not in the expected shape: " + strconv.Quote(l)
		}
		i, j := lib.Atoi(m[2]), lib.Atoi(m[3])
		if lib.Atoi(m[1]) != k || i != ops[k][0] || j != ops[k][1] {
			return fmt.Sprintf("ops line %d is %q, operation is %d+%d", k, l, ops[k][0], ops[k][1])
		}
		v := lib.ParseHex(m[4])
		if v.Cmp(vals[k+1]) != 0 || new(big.Int).Add(vals[i], vals[j]).Cmp(v) != 0 {
			return fmt.Sprintf("ops line %d shows value %s, element is %s", k, lib.Hex(v), lib.Hex(vals[k+1]))
		}
	}
	return ""
}

func checkScript(text string, vals []*big.Int) string {
	p, err := acc.LoadString(text)
	if err != nil {
		return "script output does not load: " + err.Error()
	}
	if !lib.EqualInts(p.Chain, vals) {
		return "script output loads to a different chain " + lib.HexList(p.Chain)
	}
	return ""
}

// checkOutput states the property on one delivered output of template tmpl for script src.
func checkOutput(tmpl, src, text string) string {
	t, err := parse.String(src)
	if err != nil {
		return "output generated for a script that does not parse"
	}
	vals, ops, ok := reference(t)
	if !ok {
		return "output generated for a script that does not denote a chain"
	}
	switch tmpl {
	case "listing":
		return checkListing(text, vals[len(vals)-1])
	case "chain":
		return checkChain(text, vals)
	case "ops":
		return checkOps(text, vals, ops)
	case "script":
		return checkScript(text, vals)
	}
	return ""
}

// oracleBinary: what `addchain gen` delivers (standard output, or the -out file after a history of
// invocations) is the output for the last accepted script, and that output meets the property.
func oracleBinary(f, r []string) string {
	if r[0] != "ok" || len(r) != 3 {
		return ""
	}
	sel := f[1]
	tmpl := strings.TrimPrefix(sel, "tmpl:")
	builtin := false
	for _, t := range templates {
		builtin = builtin || t == tmpl
	}
	if f[0] == "genstdout" {
		if !builtin {
			return ""
		}
		src := string(lib.ParseBytes(f[2]))
		if r[1] != "0" {
			if r[2] != "-" {
				return "output printed although the command failed"
			}
			return ""
		}
		lib_, cls := generate(tmpl, src)
		if cls != "" {
			return "the command succeeded on a script the library refuses (" + cls + ")"
		}
		text := string(lib.ParseBytes(r[2]))
		if text != lib_ {
			return "standard output differs from gen.Generate"
		}
		return checkOutput(tmpl, src, text)
	}
	// genout
	if !builtin {
		return "" // custom template that does not parse / unknown type: outside the property
	}
	exits := lib.ParseIntList(r[1])
	last := -1
	for k, e := range exits {
		if e == 0 {
			last = k
		}
	}
	if last < 0 {
		if r[2] != "nofile" {
			return "an output file exists although every invocation failed"
		}
		return ""
	}
	if r[2] == "nofile" {
		return "no output file although an invocation succeeded"
	}
	src := string(lib.ParseBytes(f[2+last]))
	file := string(lib.ParseBytes(r[2]))
	e, want := genStdout(sel, src)
	if e != 0 {
		return "gen to standard output fails on a script that gen -out accepted"
	}
	if file != want {
		return fmt.Sprintf("the -out file (%d bytes) is not what gen prints for the last accepted script (%d bytes)", len(file), len(want))
	}
	return checkOutput(tmpl, src, file)
}

func oracle(c, res string) string {
	f := strings.Split(c, " ")
	r := strings.Split(res, " ")
	if r[0] == "panic" {
		return "panic: " + res
	}
	if f[0] == "genstdout" || f[0] == "genout" {
		return oracleBinary(f, r)
	}
	if r[0] != "ok" {
		return "" // refused: allowed (a refusal never yields code)
	}
	var src string
	switch f[0] {
	case "gen":
		src = string(lib.ParseBytes(f[2]))
	case "runlisting":
		src = string(lib.ParseBytes(f[1]))
	default:
		return ""
	}
	t, err := parse.String(src)
	if err != nil {
		return "output generated for a script that does not parse"
	}
	vals, ops, ok := reference(t)
	if !ok {
		return "output generated for a script that does not denote a chain"
	}
	// the loader must agree with the reference on the chain
	if p, err := acc.LoadString(src); err != nil {
		return "output generated for a script that does not load: " + err.Error()
	} else if !lib.EqualInts(p.Chain, vals) {
		return "loader and in-order semantics disagree on the chain"
	}
	want := vals[len(vals)-1]
	// argument immutability of PrepareData / Generate
	before, _ := printer.String(t)
	enc := acclib.EncScript(t)
	d, err := verifhook.GenPrepareData(config(), t)
	if err != nil {
		return "PrepareData is not deterministic: second call failed"
	}
	if acclib.EncScript(t) != enc {
		return "PrepareData modified the syntax tree"
	}
	if d.Script != t {
		return "Data.Script is not the given script"
	}
	if !lib.EqualInts(d.Chain, vals) {
		return "Data.Chain differs from the script's chain"
	}
	if !reflect.DeepEqual([]addchain.Op(d.Ops), toOps(ops)) && !(len(d.Ops) == 0 && len(ops) == 0) {
		return "Data.Ops differs from the script's operations"
	}
	if after, _ := printer.String(t); after != before {
		return "PrepareData changed what the script prints as"
	}
	switch f[0] {
	case "gen":
		text := string(lib.ParseBytes(r[1]))
		switch f[1] {
		case "listing":
			return checkListing(text, want)
		case "chain":
			return checkChain(text, vals)
		case "ops":
			return checkOps(text, vals, ops)
		case "script":
			return checkScript(text, vals)
		}
	case "runlisting":
		if len(r) != 4 {
			return "malformed result"
		}
		if r[1] != lib.Hex(want) {
			return fmt.Sprintf("listing run literally (%s) leaves %s in %s, the script's chain ends in %s", f[2], r[1], outName, lib.Hex(want))
		}
		if r[2] != "0" {
			return "listing writes the input register"
		}
		text, _ := generate("listing", src)
		return checkListing(text, want)
	}
	return ""
}

func toOps(ops [][2]int) []addchain.Op {
	out := make([]addchain.Op, len(ops))
	for k, o := range ops {
		out[k] = addchain.Op{I: o[0], J: o[1]}
	}
	return out
}

// ---------------------------------------------------------------- Gen

func hex(s string) string { return lib.Bytes([]byte(s)) }

// scriptOfProgram prints a chain program the way `addchain search` does:
// Decompile, Build, printer.
func scriptOfProgram(p addchain.Program) (string, bool) {
	irp, err := acc.Decompile(p)
	if err != nil {
		return "", false
	}
	t, err := acc.Build(irp)
	if err != nil {
		return "", false
	}
	s, err := printer.String(t)
	if err != nil {
		return "", false
	}
	return s, true
}

func randProgram(r *lib.Rand, n int) addchain.Program {
	p := addchain.Program{}
	for k := 0; k < n; k++ {
		var i, j int
		switch r.Intn(6) {
		case 0, 1: // doubling of the newest
			i, j = k, k
		case 2, 3: // newest plus something
			i, j = r.Intn(k+1), k
		case 4: // star step with a recent one
			i, j = k-r.Intn(min(k+1, 3)), k
			if i > j {
				i, j = j, i
			}
		default:
			i = r.Intn(k + 1)
			j = r.Range(i, k)
		}
		p = append(p, addchain.Op{I: i, J: j})
	}
	return p
}

func min(a, b int) int {
	if a < b {
		return a
	}
	return b
}

// all programs of exactly n operations
func allPrograms(n int, f func(p addchain.Program)) {
	p := make(addchain.Program, n)
	var rec func(k int)
	rec = func(k int) {
		if k == n {
			f(append(addchain.Program{}, p...))
			return
		}
		for i := 0; i <= k; i++ {
			for j := i; j <= k; j++ {
				p[k] = addchain.Op{I: i, J: j}
				rec(k + 1)
			}
		}
	}
	rec(0)
}

// shiftMiddle builds scripts with an index operand that points into a shift
// (at its start, strictly inside, at its end, just beyond).
func shiftMiddle(r *lib.Rand) string {
	s := r.Range(1, 9)
	pre := r.Intn(3)
	var b strings.Builder
	n := 0 // newest index
	last := "1"
	for k := 0; k < pre; k++ {
		name := "p" + strconv.Itoa(k)
		switch r.Intn(3) {
		case 0:
			fmt.Fprintf(&b, "%s = %s + 1\n", name, last)
		case 1:
			fmt.Fprintf(&b, "%s = 2*%s\n", name, last)
		default:
			fmt.Fprintf(&b, "%s = %s + %s\n", name, last, last)
		}
		n++
		last = name
	}
	fmt.Fprintf(&b, "a = %s << %d\n", last, s)
	lo := n
	n += s
	k := r.Range(lo, n+1)
	if r.Chance(1, 8) {
		k = r.Range(0, n+2)
	}
	switch r.Intn(5) {
	case 0:
		fmt.Fprintf(&b, "return a + [%d]\n", k)
	case 1:
		fmt.Fprintf(&b, "return [%d] + a\n", k)
	case 2:
		fmt.Fprintf(&b, "b = [%d] << %d\nreturn a + b\n", k, r.Range(1, 3))
	case 3:
		fmt.Fprintf(&b, "b = 2*[%d]\nreturn (b + a) << %d\n", k, r.Range(0, 2))
	default:
		fmt.Fprintf(&b, "b = a + 1\nreturn [%d] + b + [%d]\n", k, r.Range(0, n+1))
	}
	return b.String()
}

// fixed scripts: one or more per branch the property names
var fixed = []string{
	"return 1", "return 1\n", "a = 1\nreturn a", "return [0]", "return 1 << 0", "return (1 << 0) << 0",
	"return 1 + 1", "return 2*1", "return 1 << 1", "return 1 << 5", "return (1 << 3) + 1",
	"a = 1 << 3\nreturn a + [2]", "a = 1 << 3\nreturn a + [3]", "a = 1 << 3\nreturn a + [1]", "a = 1 << 3\nreturn a + [0]", "a = 1 << 3\nreturn a + [4]",
	"a = 1 << 3\nreturn [2] + a", "a = 1 << 3\nb = 2*[2]\nreturn a + b", "a = 1 << 3\nreturn [2] << 1",
	"x = 1+1\nreturn x << 0", "x = 1+1\nreturn (x << 0) + 1", "x = 1+1\ny = x << 0\nreturn y + x", "x = 1 << 0\nreturn x + x", "return ((1 + 1) << 0) << 2",
	"a = 1 + 1\nb = a\nreturn b + a", "a = 1 + 1\nb = a\nc = b\nreturn c + a + b", "a = 1\nb = [0]\nreturn a + b", "a = 1 + 1\nb = [1]\nreturn a + b", "a = 1 + 1\nb = [1]\nreturn b + 1",
	"a = 1 + 1\nreturn a", "a = 1 + 1\nb = a + 1\nreturn a", "a = 1 + 1\nb = a + 1\nreturn [1]", "a = 1 + 1\nb = 2*a\nc = b + a\nreturn b",
	"x = 1 + 1\nz = x + 1\nt0 = z + x\nreturn t0 + z", "z = 1 + 1\nx = z + 1\nreturn x + z", "t0 = 1 + 1\nt1 = t0 + 1\nreturn t1 + t0 + 1",
	"a = 1 + 1\na = a + 1\nreturn a", "a = 1 + 1\nreturn a + b", "return [1] + 1", "return [5] << 0", "return ([5] << 0) + 1", "return [1000] + 1",
	"_10 = 2*1\n_11 = 1 + _10\n_1100 = _11 << 2\nreturn _1100 + _11",
	"_10 = 2*1\n_11 = 1 + _10\n_1100 = _11 << 2\n_1111 = _11 + _1100\n_11110000 = _1111 << 4\n_11111111 = _1111 + _11110000\nx10 = _11111111 << 2 + _11\nx20 = x10 << 10 + x10\nx30 = x20 << 10 + x10\nx60 = x30 << 30 + x30\nx120 = x60 << 60 + x60\nx240 = x120 << 120 + x120\nx250 = x240 << 10 + x10\nreturn (x250 << 2 + 1) << 3 + _11",
	"return (1 + 1) + (1 + 1)", "return 1 + (1 + 1)", "return ((1 << 1) << 2) + 2*(2*1)", "a = 2*1\nb = a + 1\nreturn (b << 2) + (a + [2])",
	"a = 1 + 1\nb = a + [1]\nreturn b + [2] + [0]", "a = 1+1\nreturn [1] + [1]", "a = 1+1\nb = [1] + [1]\nreturn a + b", "return 1 << 300", "return 1 << 4097",
	"a = 1 << 200\nreturn a + 1", "d = 1 + 1\ne = d + 1\nf = e + d\nreturn 1 + 1",
}

func gen(tier string, r *lib.Rand, emit func(string)) {
	exhaust, ntree, nrand, nsearch, nmut := 4, 4, 2500, 40, 2000
	if tier == "thorough" {
		exhaust, ntree, nrand, nsearch, nmut = 6, 6, 25000, 250, 25000
	}
	all := func(src string) {
		h := hex(src)
		for _, t := range templates {
			emit("gen " + t + " " + h)
		}
		emit("runlisting " + h + " separate")
		emit("runlisting " + h + " aliased")
	}
	some := func(src string) {
		h := hex(src)
		emit("gen listing " + h)
		switch r.Intn(4) {
		case 0:
			emit("gen " + templates[1+r.Intn(3)] + " " + h)
		case 1:
			emit("runlisting " + h + " separate")
			emit("runlisting " + h + " aliased")
		case 2:
			emit("runlisting " + h + " aliased")
		}
	}
	for _, s := range fixed {
		all(s)
	}
	emit("gen listing " + hex("return 1 << 1500")) // long shifts: listing only (the chain output would be megabytes)
	// (a) exhaustive: the search-like script of every chain program up to `exhaust` operations
	for n := 0; n <= exhaust; n++ {
		allPrograms(n, func(p addchain.Program) {
			if s, ok := scriptOfProgram(p); ok {
				if n <= 3 {
					all(s)
				} else {
					some(s)
				}
			}
		})
	}
	// (a') every single-statement tree up to ntree nodes over 1, [1], [12] (index operands, bounds, dangling)
	memo := map[int][]ast.Expr{}
	for n := 1; n <= ntree; n++ {
		for _, e := range acclib.TreesOfSize(n, memo) {
			if usesIdent(e) {
				continue
			}
			c := &ast.Chain{Statements: []ast.Statement{{Expr: e}}}
			emit("gen listing " + hex(acclib.RenderScript(r, c, false)))
		}
	}
	// (b) generated scripts: names, nesting, dead statements, aliases, index operands, << 0
	var srcs []string
	for i := 0; i < nrand; i++ {
		t := acclib.GenScript(r, acclib.ScriptOpts{Faults: i%7 == 0, MaxShift: 1 + r.Intn(12), ZeroShift: i%3 == 0})
		var src string
		if r.Chance(1, 5) {
			src = acclib.RenderScript(r, t, true)
		} else {
			src = acclib.RenderScript(r, t, false)
		}
		srcs = append(srcs, src)
		some(src)
		// index operands pointing into the middle of a shift
		sm := shiftMiddle(r)
		srcs = append(srcs, sm)
		some(sm)
		// longer random chain programs, printed like search output
		if i%2 == 0 {
			n := r.Range(5, 14)
			if r.Chance(1, 6) {
				n = r.Range(15, 60)
			}
			if s, ok := scriptOfProgram(randProgram(r, n)); ok {
				srcs = append(srcs, s)
				some(s)
			}
		}
	}
	// search output for random targets
	algs := ensemble.Ensemble()
	for i := 0; i < nsearch; i++ {
		bits := r.Range(2, 40)
		if r.Chance(1, 4) {
			bits = r.Range(41, 200)
		}
		target := r.BitsExact(bits)
		a := algs[r.Intn(len(algs))]
		ch, err := a.FindChain(target)
		if err != nil {
			continue
		}
		p, err := ch.Program()
		if err != nil {
			continue
		}
		if s, ok := scriptOfProgram(p); ok {
			all(s)
		}
	}
	// (c) malformed: rejection classes, byte-level mutations, token soup
	for _, s := range acclib.Rejections {
		emit("gen listing " + hex(s))
	}
	for i := 0; i < nmut; i++ {
		var s string
		switch r.Intn(8) {
		case 0:
			s = acclib.Rejections[r.Intn(len(acclib.Rejections))]
		case 1:
			s = fixed[r.Intn(len(fixed))]
		default:
			s = srcs[r.Intn(len(srcs))]
		}
		s = acclib.Mutate(r, s)
		if r.Chance(1, 4) {
			s = acclib.Mutate(r, s)
		}
		emit("gen " + templates[r.Intn(4)] + " " + hex(s))
	}
	for i := 0; i < nmut/4; i++ {
		emit("gen listing " + hex(acclib.RandomTokenSequence(r, 2+r.Intn(6))))
	}
	genBinary(tier, r, emit, srcs)
}

// genBinary: the stream through the real binary. Histories of `gen -out F` into the same file: a longer
// output followed by a shorter one (also a line-aligned prefix of it), the reverse, a refused script in the
// middle / first / last, all builtin templates by -type and by -tmpl, a template file that does not parse,
// an unknown type; and gen to standard output.
func genBinary(tier string, r *lib.Rand, emit func(string), srcs []string) {
	nhist, nstd := 90, 120
	if tier == "thorough" {
		nhist, nstd = 2500, 3000
	}
	refused := []string{"return 1", "a = 1 << 3\nreturn a + [2]", "return zz", "a = 1 + 1\nb = [1]\nreturn a + b", "return (", ""}
	sels := []string{"listing", "chain", "ops", "script", "tmpl:listing", "tmpl:chain", "tmpl:ops", "tmpl:script"}
	// the seeded shape: the chain for 391 = 23*17 extends the chain for 23
	long23 := "_10 = 2*1\n_100 = 2*_10\n_101 = 1 + _100\n_1010 = 2*_101\n_1011 = 1 + _1010\n_10111 = 2*_1011 + 1\ni = _10111 << 4\nreturn i + _10111\n"
	short23 := "_10 = 2*1\n_100 = 2*_10\n_101 = 1 + _100\n_1010 = 2*_101\n_1011 = 1 + _1010\nreturn 2*_1011 + 1\n"
	for _, sel := range sels {
		emit("genout " + sel + " " + hex(long23) + " " + hex(short23))
		emit("genout " + sel + " " + hex(short23) + " " + hex(long23))
		emit("genout " + sel + " " + hex(long23) + " " + hex("return 1") + " " + hex(short23))
		emit("genout " + sel + " " + hex(long23) + " " + hex("return 1"))
		emit("genout " + sel + " " + hex("return zz") + " " + hex(short23))
		emit("genout " + sel + " " + hex(short23))
		emit("genstdout " + sel + " " + hex(long23))
	}
	for _, sel := range []string{"nosuch", "tmpl:broken", "", "Listing"} {
		if sel == "" {
			continue
		}
		emit("genout " + sel + " " + hex(long23) + " " + hex(short23))
		emit("genout " + sel + " " + hex("return 1") + " " + hex(short23) + " " + hex("return zz"))
		emit("genstdout " + sel + " " + hex(short23))
	}
	emit("genout listing " + hex(long23) + " " + hex(short23))
	emit("genout tmpl:broken " + hex("return 1"))
	pick := func() string {
		if r.Chance(1, 5) {
			return refused[r.Intn(len(refused))]
		}
		if r.Chance(1, 3) {
			return srcs[r.Intn(len(srcs))]
		}
		s, _ := scriptOfProgram(randProgram(r, r.Range(1, 12)))
		return s
	}
	for i := 0; i < nhist; i++ {
		sel := sels[r.Intn(len(sels))]
		if r.Chance(1, 12) {
			sel = []string{"nosuch", "tmpl:broken"}[r.Intn(2)]
		}
		var hist []string
		switch r.Intn(3) {
		case 0: // a program and a proper prefix of it, long first
			p := randProgram(r, r.Range(3, 16))
			q := p[:r.Range(1, len(p)-1)]
			a, _ := scriptOfProgram(p)
			b, _ := scriptOfProgram(q)
			hist = []string{a, b}
			if r.Chance(1, 3) {
				hist = []string{a, refused[r.Intn(len(refused))], b}
			} else if r.Chance(1, 4) {
				hist = []string{b, a}
			}
		case 1:
			hist = []string{pick(), pick()}
		default:
			hist = []string{pick(), pick(), pick()}
		}
		hs := make([]string, len(hist))
		for k, s := range hist {
			hs[k] = hex(s)
		}
		emit("genout " + sel + " " + strings.Join(hs, " "))
	}
	for i := 0; i < nstd; i++ {
		sel := sels[r.Intn(len(sels))]
		if r.Chance(1, 15) {
			sel = "nosuch"
		}
		emit("genstdout " + sel + " " + hex(pick()))
	}
}

func usesIdent(e ast.Expr) bool {
	switch x := e.(type) {
	case ast.Identifier:
		return true
	case ast.Add:
		return usesIdent(x.X) || usesIdent(x.Y)
	case ast.Shift:
		return usesIdent(x.X)
	case ast.Double:
		return usesIdent(x.X)
	}
	return false
}

func nontrivial(c, res string) bool {
	f := strings.Split(c, " ")
	src := ""
	switch f[0] {
	case "gen":
		src = string(lib.ParseBytes(f[2]))
	case "runlisting":
		src = string(lib.ParseBytes(f[1]))
	case "genout":
		// a history with at least two invocations of which one succeeded
		r := strings.Split(res, " ")
		return len(f) >= 4 && len(r) == 3 && strings.Contains(","+r[1]+",", ",0,")
	case "genstdout":
		return strings.HasPrefix(res, "ok 0 ")
	default:
		return false
	}
	t, err := parse.String(src)
	if err != nil {
		return false
	}
	// an accepted script with at least two operators, or a refusal of a dangling input / name conflict
	if strings.HasPrefix(res, "ok ") {
		return acclib.CountOps(t) >= 2
	}
	return res == "err dangling" || res == "err conflict"
}

// ---------------------------------------------------------------- Neighbours (hunt mode)

// mapLeaf rewrites the k-th leaf (in-order) of e with f; returns the new tree and the number of leaves seen.
func mapLeaf(e ast.Expr, k *int, f func(ast.Expr) ast.Expr) ast.Expr {
	switch x := e.(type) {
	case ast.Add:
		l := mapLeaf(x.X, k, f)
		return ast.Add{X: l, Y: mapLeaf(x.Y, k, f)}
	case ast.Double:
		return ast.Double{X: mapLeaf(x.X, k, f)}
	case ast.Shift:
		return ast.Shift{X: mapLeaf(x.X, k, f), S: x.S}
	}
	*k--
	if *k == -1 {
		return f(e)
	}
	return e
}

func countLeaves(e ast.Expr) int {
	switch x := e.(type) {
	case ast.Add:
		return countLeaves(x.X) + countLeaves(x.Y)
	case ast.Double:
		return countLeaves(x.X)
	case ast.Shift:
		return countLeaves(x.X)
	}
	return 1
}

// mapShift rewrites the k-th shift node.
func mapShift(e ast.Expr, k *int, f func(ast.Shift) ast.Expr) ast.Expr {
	switch x := e.(type) {
	case ast.Add:
		l := mapShift(x.X, k, f)
		return ast.Add{X: l, Y: mapShift(x.Y, k, f)}
	case ast.Double:
		return ast.Double{X: mapShift(x.X, k, f)}
	case ast.Shift:
		in := ast.Shift{X: mapShift(x.X, k, f), S: x.S}
		*k--
		if *k == -1 {
			return f(in)
		}
		return in
	}
	return e
}

func freshName(t *ast.Chain, base string) string {
	used := map[string]bool{}
	for _, s := range t.Statements {
		used[string(s.Name)] = true
	}
	for i := 0; ; i++ {
		n := base + strconv.Itoa(i)
		if !used[n] {
			return n
		}
	}
}

// perturb returns a copy of t with one statement changed: an operand index moved, a leaf replaced by
// an index operand, a shift amount changed, a dead statement or an alias inserted, a statement dropped.
func perturb(r *lib.Rand, t *ast.Chain) *ast.Chain {
	c := acclib.DecScript(acclib.EncScript(t))
	n := len(c.Statements)
	if n == 0 {
		return c
	}
	length := 1
	if vals, _, rej := acclib.Interp(t); rej == "" {
		length = len(vals)
	}
	i := r.Intn(n)
	st := &c.Statements[i]
	switch r.Intn(7) {
	case 0, 1: // operand index changed / leaf replaced by an index operand
		k := r.Intn(countLeaves(st.Expr))
		st.Expr = mapLeaf(st.Expr, &k, func(e ast.Expr) ast.Expr {
			if o, ok := e.(ast.Operand); ok && r.Bool() {
				d := int(o) + r.Range(-2, 2)
				if d < 0 {
					d = 0
				}
				return ast.Operand(d)
			}
			return ast.Operand(r.Intn(length + 1))
		})
	case 2: // shift amount changed (also to zero)
		k := r.Intn(4)
		st.Expr = mapShift(st.Expr, &k, func(s ast.Shift) ast.Expr {
			d := int(s.S) + r.Range(-2, 2)
			if d < 0 || r.Chance(1, 4) {
				d = 0
			}
			return ast.Shift{X: s.X, S: uint(d)}
		})
	case 3: // a dead statement: a copy of statement i under a fresh name, in front of it
		dead := ast.Statement{Name: ast.Identifier(freshName(c, "dead")), Expr: st.Expr}
		c.Statements = append(c.Statements[:i], append([]ast.Statement{dead}, c.Statements[i:]...)...)
	case 4: // an alias of an earlier name, used by one leaf of statement i
		if i == 0 {
			break
		}
		j := r.Intn(i)
		al := ast.Statement{Name: ast.Identifier(freshName(c, "al")), Expr: c.Statements[j].Name}
		k := r.Intn(countLeaves(st.Expr))
		ne := mapLeaf(st.Expr, &k, func(ast.Expr) ast.Expr { return al.Name })
		c.Statements[i].Expr = ne
		c.Statements = append(c.Statements[:i], append([]ast.Statement{al}, c.Statements[i:]...)...)
	case 5: // the final statement becomes a bare operand / name (everything before may become dead)
		last := &c.Statements[n-1]
		if n > 1 && r.Bool() {
			last.Expr = c.Statements[r.Intn(n-1)].Name
		} else {
			last.Expr = ast.Operand(r.Intn(length + 1))
		}
	default: // wrap statement i in one more operation
		switch r.Intn(3) {
		case 0:
			st.Expr = ast.Add{X: st.Expr, Y: ast.Operand(r.Intn(length + 1))}
		case 1:
			st.Expr = ast.Double{X: st.Expr}
		default:
			st.Expr = ast.Shift{X: st.Expr, S: uint(r.Intn(4))}
		}
	}
	return c
}

func neighbours(c string, r *lib.Rand, emit func(string)) {
	f := strings.Split(c, " ")
	var src, tmpl string
	switch {
	case f[0] == "gen" && len(f) == 3:
		tmpl, src = f[1], string(lib.ParseBytes(f[2]))
	case f[0] == "runlisting" && len(f) == 3:
		tmpl, src = "listing", string(lib.ParseBytes(f[1]))
	default:
		return
	}
	out := func(s string) {
		h := hex(s)
		emit("gen " + tmpl + " " + h)
		if tmpl != "listing" {
			emit("gen listing " + h)
		}
		emit("runlisting " + h + " separate")
		emit("runlisting " + h + " aliased")
	}
	t, err := parse.String(src)
	if err != nil || hugeShift(t) {
		for k := 0; k < 8; k++ {
			out(acclib.Mutate(r, src))
		}
		return
	}
	for k := 0; k < 12; k++ {
		u := perturb(r, t)
		if r.Chance(1, 3) {
			u = perturb(r, u)
		}
		if hugeShift(u) {
			continue
		}
		out(acclib.RenderScript(r, u, false))
	}
}

func main() {
	lib.Main(lib.Prop{ID: "C06", Gen: gen, Run: run, Oracle: oracle, Nontrivial: nontrivial, PanicClass: acclib.PanicClass,
		Neighbours: neighbours})
}
