// C20: release metadata files survive a write/read round trip; Get/Add/Set behave like an
// ordered map.
package main

import (
	"bytes"
	"fmt"
	"go/ast"
	"go/format"
	"go/parser"
	"go/scanner"
	"go/token"
	"os"
	"path/filepath"
	"sort"
	"strconv"
	"strings"
	"unicode"
	"unicode/utf8"

	"github.com/mmcloughlin/addchain/verifhook"
	"verif/harness/lib"
)

type P = verifhook.MetavarsProperty
type F = verifhook.MetavarsFile

func hx(s string) string   { return lib.Bytes([]byte(s)) }
func unhx(s string) string { return string(lib.ParseBytes(s)) }

func encProps(ps []P) string {
	if len(ps) == 0 {
		return "-"
	}
	ss := make([]string, len(ps))
	for i, p := range ps {
		ss[i] = hx(p.Name) + ":" + hx(p.Doc) + ":" + hx(p.Value)
	}
	return strings.Join(ss, ",")
}

func decProps(s string) []P {
	if s == "-" {
		return nil
	}
	var ps []P
	for _, e := range strings.Split(s, ",") {
		f := strings.Split(e, ":")
		ps = append(ps, P{Name: unhx(f[0]), Doc: unhx(f[1]), Value: unhx(f[2])})
	}
	return ps
}

// classTab lists the class of every multi-byte rune of the strings, taken from the Go run time on
// every call: bit 0 strconv.IsPrint, bit 1 unicode.IsLetter, bit 2 unicode.IsDigit.
func classTab(strs ...string) string {
	seen := map[rune]bool{}
	var rs []int
	for _, s := range strs {
		for i := 0; i < len(s); {
			r, w := utf8.DecodeRuneInString(s[i:])
			if w > 1 && !seen[r] {
				seen[r] = true
				rs = append(rs, int(r))
			}
			i += w
		}
	}
	if len(rs) == 0 {
		return "-"
	}
	sort.Ints(rs)
	ss := make([]string, len(rs))
	for i, v := range rs {
		r := rune(v)
		c := 0
		if strconv.IsPrint(r) {
			c |= 1
		}
		if unicode.IsLetter(r) {
			c |= 2
		}
		if unicode.IsDigit(r) {
			c |= 4
		}
		ss[i] = fmt.Sprintf("%x:%x", v, c)
	}
	return strings.Join(ss, ",")
}

func fileTab(f *F) string {
	strs := []string{f.Package}
	for _, p := range f.Properties {
		strs = append(strs, p.Name, p.Doc, p.Value)
	}
	return classTab(strs...)
}

func fileCase(fn string, f *F) string {
	return fn + " " + hx(f.Package) + " " + encProps(f.Properties) + " " + fileTab(f)
}

func cloneFile(f *F) *F {
	g := &F{Package: f.Package}
	g.Properties = append([]P(nil), f.Properties...)
	return g
}

func sameFile(a, b *F) bool {
	if a.Package != b.Package || len(a.Properties) != len(b.Properties) {
		return false
	}
	for i := range a.Properties {
		if a.Properties[i] != b.Properties[i] {
			return false
		}
	}
	return true
}

func write(f *F) ([]byte, error) {
	var b bytes.Buffer
	err := verifhook.MetavarsWrite(&b, f)
	return b.Bytes(), err
}

// roundTrips: Write succeeds, its output is a fixed point of go/format, and Read returns f.
func roundTrips(f *F) bool {
	out, err := write(cloneFile(f))
	if err != nil {
		return false
	}
	if s, err := format.Source(out); err != nil || !bytes.Equal(s, out) {
		return false
	}
	g, err := verifhook.MetavarsRead(bytes.NewReader(out))
	return err == nil && sameFile(f, g)
}

// ---------------------------------------------------------------- file level

var scratchDir string

// scratchPath is the one path that every file-level case writes to (removed at the start of a case).
func scratchPath() string {
	if scratchDir == "" {
		base := os.Getenv("VERIF_BUILD")
		d, err := os.MkdirTemp(base, "c20files")
		if err != nil {
			d, err = os.MkdirTemp("", "c20files")
			if err != nil {
				panic(err)
			}
		}
		scratchDir = d
	}
	return filepath.Join(scratchDir, "vars.go")
}

func encDesc(f *F) string { return hx(f.Package) + "/" + encProps(f.Properties) }

func decDesc(s string) *F {
	p := strings.Split(s, "/")
	return &F{Package: unhx(p[0]), Properties: decProps(p[1])}
}

func descTab(fs []*F, extra ...string) string {
	strs := append([]string(nil), extra...)
	for _, f := range fs {
		strs = append(strs, f.Package)
		for _, p := range f.Properties {
			strs = append(strs, p.Name, p.Doc, p.Value)
		}
	}
	return classTab(strs...)
}

func filesCase(fs []*F) string {
	ss := make([]string, len(fs))
	for i, f := range fs {
		ss[i] = encDesc(f)
	}
	return "files " + strings.Join(ss, "|") + " " + descTab(fs)
}

// runFiles: WriteFile every description to the same path, then ReadFile.
func runFiles(path string, fs []*F) (*F, string) {
	os.Remove(path)
	for _, f := range fs {
		if err := verifhook.MetavarsWriteFile(path, cloneFile(f)); err != nil {
			return nil, "err write"
		}
	}
	g, err := verifhook.MetavarsReadFile(path)
	if err != nil {
		return nil, "err read"
	}
	return g, ""
}

// runEdit: WriteFile, then for every operation ReadFile -> Add/Set -> WriteFile (the release tool's
// sequence; nothing is written when the operation fails), finally ReadFile.
func runEdit(path string, f0 *F, ops []string) (*F, string) {
	os.Remove(path)
	if err := verifhook.MetavarsWriteFile(path, cloneFile(f0)); err != nil {
		return nil, "err write"
	}
	for _, op := range ops {
		g, err := verifhook.MetavarsReadFile(path)
		if err != nil {
			return nil, "err read"
		}
		o := strings.Split(op, ":")
		switch o[0] {
		case "g":
			continue
		case "a":
			err = g.Add(P{Name: unhx(o[1]), Doc: unhx(o[2]), Value: unhx(o[3])})
		case "s":
			err = g.Set(unhx(o[1]), unhx(o[2]))
		default:
			panic("bad op")
		}
		if err != nil {
			continue
		}
		if err := verifhook.MetavarsWriteFile(path, g); err != nil {
			return nil, "err write"
		}
	}
	g, err := verifhook.MetavarsReadFile(path)
	if err != nil {
		return nil, "err read"
	}
	return g, ""
}

// ---------------------------------------------------------------- generators

var keywords = []string{"break", "case", "chan", "const", "continue", "default", "defer", "else",
	"fallthrough", "for", "func", "go", "goto", "if", "import", "interface", "map", "package",
	"range", "return", "select", "struct", "switch", "type", "var"}

type pools struct {
	letters, digits, prints, nonprints []rune
	edges                              []rune // runes next to a change of strconv.IsPrint
}

func mkPools() *pools {
	p := &pools{}
	prev := false
	for c := rune(0); c <= unicode.MaxRune; c++ {
		if c >= 0xd800 && c <= 0xdfff {
			continue
		}
		pr := strconv.IsPrint(c)
		if c >= 0x80 {
			if unicode.IsLetter(c) {
				p.letters = append(p.letters, c)
			}
			if unicode.IsDigit(c) {
				p.digits = append(p.digits, c)
			}
			if pr {
				p.prints = append(p.prints, c)
			} else {
				p.nonprints = append(p.nonprints, c)
			}
		}
		if pr != prev && c > 0 {
			p.edges = append(p.edges, c-1, c)
		}
		prev = pr
	}
	return p
}

const specials = "\"\\\n\x00'`%\t \r\a\b\f\v\x7f\x1b"
const mutants = "\\\"xuU0178afg\n\x80\xff "

func pick(r *lib.Rand, rs []rune) rune { return rs[r.Intn(len(rs))] }

func (p *pools) name(r *lib.Rand) string {
	for {
		n := r.Range(1, 7)
		var s []rune
		for i := 0; i < n; i++ {
			switch k := r.Intn(8); {
			case k == 0 && i > 0:
				s = append(s, pick(r, p.digits))
			case k == 1 && i > 0:
				s = append(s, rune('0'+r.Intn(10)))
			case k == 2:
				s = append(s, '_')
			case k == 3:
				s = append(s, pick(r, p.letters))
			case k == 4:
				s = append(s, []rune("éπЖ日𝐀")[r.Intn(5)])
			default:
				s = append(s, rune("abcxyzABCXYZ"[r.Intn(12)]))
			}
		}
		if r.Chance(1, 30) {
			s = []rune(keywords[r.Intn(len(keywords))] + "x")
		}
		if !token.IsKeyword(string(s)) {
			return string(s)
		}
	}
}

func (p *pools) value(r *lib.Rand) string {
	n := r.Intn(14)
	var b []byte
	for i := 0; i < n; i++ {
		switch r.Intn(8) {
		case 0:
			b = append(b, byte(r.Intn(256)))
		case 1:
			b = append(b, specials[r.Intn(len(specials))])
		case 2:
			b = append(b, string(pick(r, p.prints))...)
		case 3:
			b = append(b, string(pick(r, p.nonprints))...)
		case 4:
			b = append(b, []string{"\u2028", "\ufeff", "\ufffd", "\xed\xa0\x80", "\xed\xbf\xbf", "\xc0\x80",
				"\xf4\x90\x80\x80", "\U0010ffff", "\u00ad", "\u0085", "\xe2\x80", "\xf0\x9f\x98", "\u00a0"}[r.Intn(13)]...)
		case 5:
			b = append(b, string(pick(r, p.edges))...)
		default:
			b = append(b, byte(32+r.Intn(95)))
		}
	}
	return string(b)
}

func (p *pools) doc(r *lib.Rand) string {
	if r.Chance(2, 5) {
		return ""
	}
	n := r.Range(1, 14)
	var s []rune
	for i := 0; i < n; i++ {
		switch r.Intn(6) {
		case 0:
			s = append(s, pick(r, p.prints))
		case 1:
			s = append(s, ' ')
		default:
			s = append(s, rune(33+r.Intn(94)))
		}
	}
	for len(s) > 0 && s[len(s)-1] == ' ' {
		s = s[:len(s)-1]
	}
	d := string(s)
	if isBuildLine(d) {
		return "x" + d
	}
	return d
}

// isBuildLine: what go/build/constraint.IsPlusBuild accepts for the comment "// "+doc.
func isBuildLine(doc string) bool {
	t := strings.TrimSpace(doc)
	if !strings.HasPrefix(t, "+build") {
		return false
	}
	t = t[len("+build"):]
	return t == "" || t[0] == ' ' || t[0] == '\t'
}

func gen(tier string, r *lib.Rand, emit func(string)) {
	nrand, mapLen := 1500, 3
	if tier == "thorough" {
		nrand, mapLen = 120000, 4
	}
	pl := mkPools()

	// ---- quote / unquote ----
	emitQ := func(v string) {
		emit("quote " + hx(v) + " " + classTab(v))
		emit("unquote " + hx(fmt.Sprintf("%q", v)))
	}
	for b := 0; b < 256; b++ {
		emitQ(string([]byte{byte(b)}))
	}
	b2 := []byte{0x00, 0x0a, 0x22, 0x5c, 0x20, 0x41, 0x7f, 0x80, 0xbf, 0xc0, 0xc1, 0xc2, 0xdf, 0xe0, 0xed, 0xef, 0xf0, 0xf4, 0xf5, 0xff, 0xa0, 0x9f, 0x90, 0x8f}
	for _, x := range b2 {
		for _, y := range b2 {
			emitQ(string([]byte{x, y}))
		}
	}
	b3 := []byte{0x41, 0x80, 0x9f, 0xa0, 0xbf, 0xc2, 0xe0, 0xed, 0xef, 0xf0}
	for _, x := range b3 {
		for _, y := range b3 {
			for _, z := range b3 {
				emitQ(string([]byte{x, y, z}))
			}
		}
	}
	b4 := []byte{0x41, 0x80, 0x8f, 0x90, 0xbf, 0xf0, 0xf4}
	for _, x := range b4 {
		for _, y := range b4 {
			for _, z := range b4 {
				for _, w := range b4 {
					emitQ(string([]byte{x, y, z, w}))
				}
			}
		}
	}
	for c := rune(0); c < 0x300; c++ {
		emitQ(string(c))
	}
	for _, c := range pl.edges {
		emitQ(string(c))
	}
	for _, c := range []rune{0x7ff, 0x800, 0xd7ff, 0xe000, 0xfffd, 0xfffe, 0xffff, 0x10000, 0x10ffff, 0x2028, 0x2029, 0xfeff, 0x1f600, 0xe0001} {
		emitQ(string(c))
		emitQ("a" + string(c) + "\"")
	}
	for hi := 0xa0; hi <= 0xbf; hi++ { // surrogates encoded as bytes
		emitQ(string([]byte{0xed, byte(hi), 0x80}))
		emitQ(string([]byte{0xed, byte(hi), 0xbf}))
	}
	for i := 0; i < nrand; i++ {
		emitQ(pl.value(r))
	}
	// unquote on text that Quote never produces
	uq := func(s string) { emit("unquote " + hx(s)) }
	for x := 0; x < 256; x++ {
		uq("\"\\" + string([]byte{byte(x)}) + "\"")
		uq("\"\\" + string([]byte{byte(x)}) + "41\"")
		uq("\"" + string([]byte{byte(x)}) + "\"")
		uq("\"a" + string([]byte{byte(x)}))
	}
	hexish := "09afAFgG /:@`"
	for _, a := range []byte(hexish) {
		for _, b := range []byte(hexish) {
			uq("\"\\x" + string([]byte{a, b}) + "\"")
			uq("\"\\u00" + string([]byte{a, b}) + "\"")
			uq("\"\\U000000" + string([]byte{a, b}) + "\"")
		}
	}
	for _, v := range []string{"0000", "0041", "007f", "0080", "07ff", "0800", "d7ff", "d800", "dbff", "dc00", "dfff", "e000", "fffd", "ffff", "FFFF", "12", "123", "123g"} {
		uq("\"\\u" + v + "\"")
		uq("\"x\\u" + v + "y\"")
	}
	for _, v := range []string{"00000000", "00000041", "0000d7ff", "0000d800", "0000dfff", "0000e000", "0000ffff", "00010000", "0010ffff", "0010FFFF", "00110000", "7fffffff", "80000000", "ffffffff", "0010fff", "0010fffg"} {
		uq("\"\\U" + v + "\"")
	}
	for a := 0; a < 8; a++ {
		for b := 0; b < 10; b++ {
			for c := 0; c < 10; c++ {
				if b < 8 && c < 8 && (b+c)%3 != 0 && a != 3 && a != 4 {
					continue
				}
				uq(fmt.Sprintf("\"\\%d%d%d\"", a, b, c))
			}
		}
	}
	full := "\"a\\u12e4\\x41\\101\\n\\U0001f600é\\\"\\\\\""
	for i := 0; i <= len(full); i++ {
		uq(full[:i])
		uq(full[:i] + "\"")
	}
	for _, s := range []string{"", "a", "\"", "\"\"", "\"a\"b", "\"a\"b\"", "\"a\nb\"", "\"a'b\"", "\"a\\'b\"", "\"a`b\"", "\"\xff\"", "\"\xed\xa0\x80\"",
		"\"\\\n\"", "\"a\" ", " \"a\"", "\"\"\"", "\"\\\"", "\"\\\\\"", "\"\u2028\"", "\"\ufeff\"", "\"\x00\"", "x\"a\"", "\"é\\\"", "\"\\xé\""} {
		uq(s)
	}
	for i := 0; i < nrand; i++ {
		q := []byte(fmt.Sprintf("%q", pl.value(r)))
		for k := r.Range(1, 2); k > 0; k-- {
			j := r.Intn(len(q))
			switch r.Intn(3) {
			case 0:
				q[j] = mutants[r.Intn(len(mutants))]
			case 1:
				q = append(q[:j], q[j+1:]...)
			default:
				q = append(q[:j], append([]byte{mutants[r.Intn(len(mutants))]}, q[j:]...)...)
			}
			if len(q) == 0 {
				q = []byte("\"")
			}
		}
		if q[0] == '\'' || q[0] == '`' {
			continue
		}
		uq(string(q))
	}

	// ---- write / read / rt on files within the hypotheses ----
	emitF := func(f *F) {
		emit(fileCase("write", f))
		emit(fileCase("rt", f))
		if out, err := write(cloneFile(f)); err == nil {
			emit("read " + lib.Bytes(out))
		}
	}
	// small scope: up to 3 properties over 3 names x {no doc, doc}
	names := []string{"a", "bbb", "é1"}
	var rec func(ps []P, k int)
	rec = func(ps []P, k int) {
		emitF(&F{Package: "p", Properties: append([]P(nil), ps...)})
		if k == 0 {
			return
		}
		for _, n := range names {
			for _, d := range []string{"", "d"} {
				rec(append(ps, P{Name: n, Doc: d, Value: "v" + strconv.Itoa(len(ps))}), k-1)
			}
		}
	}
	rec(nil, 3)
	// alignment: 4..6 properties, every doc pattern, name lengths from a fixed menu
	menu := []string{"a", "bb", "cccc", "é", "日本語", "d1234567", "_", "𝐀b"}
	for n := 4; n <= 6; n++ {
		for pat := 0; pat < 1<<uint(n); pat++ {
			f := &F{Package: "meta"}
			for i := 0; i < n; i++ {
				d := ""
				if pat>>uint(i)&1 == 1 {
					d = "doc " + strconv.Itoa(i)
				}
				f.Properties = append(f.Properties, P{Name: menu[r.Intn(len(menu))], Doc: d, Value: strconv.Itoa(i)})
			}
			emitF(f)
		}
	}
	// the release tool's own file shape
	emitF(&F{Package: "meta", Properties: []P{
		{Name: "releaseversion", Doc: "ReleaseVersion is the version of the most recent release.", Value: "v0.4.0"},
		{Name: "releasedate", Doc: "ReleaseDate is the date of the most recent release. (RFC3339 date format.)", Value: "2021-10-30"},
		{Name: "conceptdoi", Doc: "ConceptDOI is the DOI for all versions.", Value: "10.5281/zenodo.4625263"},
		{Name: "doi", Doc: "DOI for the most recent release.", Value: "10.5281/zenodo.5622943"},
		{Name: "zenodoid", Doc: "ZenodoID is the Zenodo deposit ID for the most recent release.", Value: "5622943"},
	}})
	// every byte class as a value, in a file
	for b := 0; b < 256; b++ {
		emitF(&F{Package: "p", Properties: []P{{Name: "x", Value: "a" + string([]byte{byte(b)}) + "b"}}})
	}
	// docs that look special but are plain prose
	for _, d := range []string{"+builder", "x +build linux", "go:build linux", "line 5", "Deprecated: x", "/* x */", "// y", "%d %s %%", " lead", "a  b", "é日本", "\ufffd", "\"q\"", "\\n", "`", ")", "x = \"y\"", "TODO(x): y", "export x", "#cgo"} {
		emitF(&F{Package: "p", Properties: []P{{Name: "a", Doc: d, Value: "v"}, {Name: "bb", Value: "w"}}})
	}
	for i := 0; i < nrand; i++ {
		f := &F{Package: pl.name(r)}
		for n := r.Intn(7); n > 0; n-- {
			f.Properties = append(f.Properties, P{Name: pl.name(r), Doc: pl.doc(r), Value: pl.value(r)})
		}
		emitF(f)
	}

	// ---- outside the hypotheses: the round trip is expected to fail (class only) ----
	base := func() *F {
		return &F{Package: "p", Properties: []P{{Name: "a", Doc: "d", Value: "x"}, {Name: "b", Value: "y"}}}
	}
	badNames := append([]string{"", "1a", "a b", "a-b", "a.b", "a\xff", "\xc3", "a×", "٣a", "a\u0301", "a=b", "a\n", "a,b", "a\tb", " a", "a ",
		"//a", "a//b", "a\"", "a\x00", "\ufeffa", "a\u2028", "9", "a(", ")"}, keywords...)
	for _, n := range badNames {
		f := base()
		f.Package = n
		emit(fileCase("rtclass", f))
		g := base()
		g.Properties[1].Name = n
		emit(fileCase("rtclass", g))
		h := base()
		h.Properties[0].Name = n
		emit(fileCase("rtclass", h))
	}
	// identifiers that are fine although they look odd
	for _, n := range []string{"_", "__", "a٣", "π", "nil", "true", "string", "init", "main", "iota", "Var", "gox", "_1", "日本語", "𝐀"} {
		f := base()
		f.Package = n
		f.Properties[1].Name = n
		emit(fileCase("rt", f))
	}
	badDocs := []string{" ", "x ", "x  ", "x\t", "x\u00a0", "x\u2028", "x\u3000", "x\u0085", "a\rb", "\rb", "b\r", "a\nb", "x\n", "\n", "x\n// y",
		"a\nb = \"1\"", "a\x00b", "\x00", "a\xffb", "\xed\xa0\x80", "a\xc3", "\ufeff", "a\ufeffb",
		"+build", "+build linux", " +build x", "  +build !x,y z", "+build ignore"}
	for _, d := range badDocs {
		f := base()
		f.Properties[0].Doc = d
		emit(fileCase("rtclass", f))
		g := base()
		g.Properties[1].Doc = d
		emit(fileCase("rtclass", g))
	}
	// read on text that is not what Write emits: both sides must refuse
	if out, err := write(base()); err == nil {
		s := string(out)
		for _, m := range []string{
			strings.Replace(s, "\"x\"", "\"\\q\"", 1),
			strings.Replace(s, "\"x\"", "\"\\x4\"", 1),
			strings.Replace(s, "\"x\"", "\"\\ud800\"", 1),
			strings.Replace(s, "\"x\"", "\"a\nb\"", 1),
			strings.Replace(s, "\"x\"", "\"x", 1),
			strings.Replace(s, "\"x\"", "x\"", 1),
			strings.Replace(s, "\"y\"\n)", "\"y\"\n", 1),
			strings.Replace(s, "a = ", "a : ", 1),
			strings.Replace(s, "// d", "//d", 1),
			strings.Replace(s, "package p", "package", 1),
			strings.Replace(s, "var (", "var", 1),
		} {
			emit("read " + hx(m))
		}
	}

	// ---- file level: histories of WriteFile on one path, then ReadFile ----
	meta := func(version, date string, extra int, docs bool) *F {
		d := func(s string) string {
			if docs {
				return s
			}
			return ""
		}
		f := &F{Package: "meta", Properties: []P{
			{Name: "releaseversion", Doc: d("ReleaseVersion is the version of the most recent release."), Value: version},
			{Name: "releasedate", Doc: d("ReleaseDate is the date of the most recent release. (RFC3339 date format.)"), Value: date},
			{Name: "conceptdoi", Doc: d("ConceptDOI is the DOI for all versions."), Value: "10.5281/zenodo.4625263"},
		}}
		for i := 0; i < extra; i++ {
			f.Properties = append(f.Properties, P{Name: "extra" + strconv.Itoa(i), Doc: d("x"), Value: strings.Repeat("y", i)})
		}
		return f
	}
	menu2 := []*F{
		{Package: "p"},
		{Package: "p", Properties: []P{{Name: "a", Value: ""}}},
		{Package: "p", Properties: []P{{Name: "a", Value: "a much longer value than before \x00\xff"}}},
		{Package: "longerpackagename", Properties: []P{{Name: "a", Doc: "documented", Value: "1"}, {Name: "b", Value: "2"}, {Name: "c", Value: "three"}}},
		meta("0.10.12-rc.1", "2021-10-30", 0, true),
		meta("0.10.13", "2021-10-30", 0, true),
		meta("1.0.0", "2022-01-01", 2, false),
		meta("0.4.0", "2021-10-30", 3, true),
	}
	for _, a := range menu2 {
		emit(filesCase([]*F{a}))
		for _, b := range menu2 {
			emit(filesCase([]*F{a, b}))
			for _, c := range menu2 {
				emit(filesCase([]*F{a, b, c}))
			}
		}
	}
	for i := 0; i < nrand/3; i++ {
		var fs []*F
		for n := r.Range(2, 5); n > 0; n-- {
			f := &F{Package: pl.name(r)}
			for k := r.Intn(7); k > 0; k-- {
				v := pl.value(r)
				if r.Chance(1, 4) {
					v = strings.Repeat(v, r.Range(2, 6))
				}
				f.Properties = append(f.Properties, P{Name: pl.name(r), Doc: pl.doc(r), Value: v})
			}
			fs = append(fs, f)
		}
		if r.Bool() { // make the last description a shortened version of an earlier one
			src := fs[r.Intn(len(fs))]
			last := cloneFile(src)
			if n := len(last.Properties); n > 0 {
				switch r.Intn(3) {
				case 0:
					last.Properties = last.Properties[:r.Intn(n)]
				case 1:
					j := r.Intn(n)
					last.Properties[j].Value = last.Properties[j].Value[:len(last.Properties[j].Value)/2]
				default:
					last.Properties[r.Intn(n)].Doc = ""
				}
			}
			fs = append(fs, last)
		}
		emit(filesCase(fs))
	}
	// ReadFile -> Set/Add -> WriteFile, the release tool's sequence
	editOps := []string{
		"s:" + hx("releaseversion") + ":" + hx("1.0.0"),
		"s:" + hx("releaseversion") + ":" + hx("0.10.12-rc.2+build.12345"),
		"s:" + hx("releasedate") + ":" + hx(""),
		"a:" + hx("zenodoid") + ":" + hx("ZenodoID is the Zenodo deposit ID.") + ":" + hx("5622943"),
		"s:" + hx("nosuchproperty") + ":" + hx("x"),
		"a:" + hx("conceptdoi") + ":-:" + hx("dup"),
		"g:" + hx("releaseversion"),
	}
	var eseqs func(prefix []string, k int)
	eseqs = func(prefix []string, k int) {
		if len(prefix) > 0 {
			for _, f0 := range []*F{meta("0.10.12-rc.1", "2021-10-30", 0, true), meta("0.4.0", "2021-10-30", 1, false)} {
				emit("edit " + encDesc(f0) + " " + strings.Join(prefix, ",") + " " + descTab([]*F{f0}))
			}
		}
		if k == 0 {
			return
		}
		for _, o := range editOps {
			eseqs(append(append([]string(nil), prefix...), o), k-1)
		}
	}
	eseqs(nil, 3)
	for i := 0; i < nrand/3; i++ {
		f0 := &F{Package: pl.name(r)}
		for k := r.Range(1, 5); k > 0; k-- {
			f0.Properties = append(f0.Properties, P{Name: pl.name(r), Doc: pl.doc(r), Value: pl.value(r) + pl.value(r)})
		}
		var ops, strs []string
		for k := r.Range(1, 5); k > 0; k-- {
			nm := f0.Properties[r.Intn(len(f0.Properties))].Name
			if r.Chance(1, 4) {
				nm = pl.name(r)
			}
			v, d := pl.value(r), pl.doc(r)
			if r.Chance(1, 3) {
				v = ""
			}
			strs = append(strs, nm, v, d)
			if r.Chance(1, 3) {
				ops = append(ops, "a:"+hx(nm)+":"+hx(d)+":"+hx(v))
			} else {
				ops = append(ops, "s:"+hx(nm)+":"+hx(v))
			}
		}
		emit("edit " + encDesc(f0) + " " + strings.Join(ops, ",") + " " + descTab([]*F{f0}, strs...))
	}

	// ---- ordered map: every sequence of get/add/set over three names ----
	ns := []string{"a", "b", "c"}
	inits := [][]P{nil, {{Name: "b", Doc: "db", Value: "0"}}, {{Name: "a", Value: "0"}, {Name: "b", Doc: "db", Value: "1"}, {Name: "c", Value: "2"}},
		{{Name: "a", Value: "0"}, {Name: "a", Doc: "dup", Value: "1"}}}
	var seqs func(prefix []string, k int, out *[][]string)
	seqs = func(prefix []string, k int, out *[][]string) {
		if len(prefix) > 0 {
			*out = append(*out, append([]string(nil), prefix...))
		}
		if k == 0 {
			return
		}
		i := len(prefix)
		for _, n := range ns {
			seqs(append(prefix, "g:"+hx(n)), k-1, out)
			seqs(append(prefix, "a:"+hx(n)+":"+hx("doc"+strconv.Itoa(i))+":"+hx("A"+strconv.Itoa(i))), k-1, out)
			seqs(append(prefix, "s:"+hx(n)+":"+hx("S"+strconv.Itoa(i))), k-1, out)
			// a value that a property may already hold (the initial files use "0", "1", "2"; an earlier
			// step of the same history may have set "0"): setting a property to its current value
			seqs(append(prefix, "s:"+hx(n)+":"+hx("0")), k-1, out)
		}
	}
	for ii, init := range inits {
		l := mapLen
		if ii < 2 {
			l = mapLen + 1
		}
		var all [][]string
		seqs(nil, l, &all)
		for _, s := range all {
			emit("mapops " + encProps(init) + " " + strings.Join(s, ","))
		}
	}
	// random histories with awkward names and values
	awk := []string{"", "a", "ab", "A", "a\x00", "é", "e\u0301", "\xff", "a ", "var"}
	for i := 0; i < nrand; i++ {
		var init []P
		for n := r.Intn(4); n > 0; n-- {
			init = append(init, P{Name: awk[r.Intn(len(awk))], Doc: pl.doc(r), Value: pl.value(r)})
		}
		var ops []string
		var seen []string // values already in play: re-used so that a set or add repeats a current value
		for _, q := range init {
			seen = append(seen, q.Value)
		}
		val := func() string {
			v := pl.value(r)
			if len(seen) > 0 && r.Chance(1, 3) {
				v = seen[r.Intn(len(seen))]
			}
			seen = append(seen, v)
			return v
		}
		for n := r.Range(1, 8); n > 0; n-- {
			nm := awk[r.Intn(len(awk))]
			switch r.Intn(3) {
			case 0:
				ops = append(ops, "g:"+hx(nm))
			case 1:
				ops = append(ops, "a:"+hx(nm)+":"+hx(pl.doc(r))+":"+hx(val()))
			default:
				ops = append(ops, "s:"+hx(nm)+":"+hx(val()))
			}
		}
		emit("mapops " + encProps(init) + " " + strings.Join(ops, ","))
	}
}

// ---------------------------------------------------------------- implementation

func parseFileCase(f []string) *F {
	return &F{Package: unhx(f[1]), Properties: decProps(f[2])}
}

func run(c string) string {
	f := strings.Split(c, " ")
	switch f[0] {
	case "quote":
		return "ok " + hx(fmt.Sprintf("%q", unhx(f[1])))
	case "unquote":
		s, err := strconv.Unquote(unhx(f[1]))
		if err != nil {
			return "err syntax"
		}
		return "ok " + hx(s)
	case "write":
		out, err := write(parseFileCase(f))
		if err != nil {
			return "err write"
		}
		return "ok " + lib.Bytes(out)
	case "read":
		g, err := verifhook.MetavarsRead(strings.NewReader(unhx(f[1])))
		if err != nil {
			return "err read"
		}
		return "ok " + hx(g.Package) + " " + encProps(g.Properties)
	case "rt", "rtclass":
		return "ok " + lib.Bool(roundTrips(parseFileCase(f)))
	case "files":
		var fs []*F
		for _, d := range strings.Split(f[1], "|") {
			fs = append(fs, decDesc(d))
		}
		g, cls := runFiles(scratchPath(), fs)
		if g == nil {
			return cls
		}
		return "ok " + hx(g.Package) + " " + encProps(g.Properties)
	case "edit":
		g, cls := runEdit(scratchPath(), decDesc(f[1]), strings.Split(f[2], ","))
		if g == nil {
			return cls
		}
		return "ok " + hx(g.Package) + " " + encProps(g.Properties)
	case "mapops":
		file := &F{Package: "p", Properties: decProps(f[1])}
		var res []string
		for _, op := range strings.Split(f[2], ",") {
			o := strings.Split(op, ":")
			var r string
			switch o[0] {
			case "g":
				if v, ok := file.Get(unhx(o[1])); ok {
					r = "1:" + hx(v)
				} else {
					if v != "" {
						panic("Get returned a value with ok=false")
					}
					r = "0"
				}
			case "a":
				r = errClass(file.Add(P{Name: unhx(o[1]), Doc: unhx(o[2]), Value: unhx(o[3])}))
			case "s":
				r = errClass(file.Set(unhx(o[1]), unhx(o[2])))
			default:
				panic("bad op")
			}
			if file.Package != "p" {
				panic("package changed")
			}
			res = append(res, r+"="+encProps(file.Properties))
		}
		return "ok " + strings.Join(res, ";")
	}
	panic("unknown case " + c)
}

func errClass(err error) string {
	switch {
	case err == nil:
		return "ok"
	case strings.Contains(err.Error(), "already exists"):
		return "exists"
	case strings.Contains(err.Error(), "unknown property"):
		return "unknown"
	}
	return "othererror"
}

// ---------------------------------------------------------------- oracle

// prose: the oracle's own reading of "one-line plain-prose documentation": valid UTF-8, every
// rune printable (unicode.IsPrint: letters, marks, numbers, punctuation, symbols, ASCII space),
// no trailing space.
func prose(d string) bool {
	if d == "" {
		return true
	}
	if !utf8.ValidString(d) || strings.HasSuffix(d, " ") {
		return false
	}
	for _, r := range d {
		if !unicode.IsPrint(r) {
			return false
		}
	}
	return true
}

func withinHypotheses(f *F) bool {
	if !token.IsIdentifier(f.Package) {
		return false
	}
	for _, p := range f.Properties {
		if !token.IsIdentifier(p.Name) || !prose(p.Doc) {
			return false
		}
	}
	return true
}

// oneStringToken: text is exactly one Go string literal token.
func oneStringToken(text string) bool {
	var s scanner.Scanner
	fs := token.NewFileSet()
	errs := 0
	s.Init(fs.AddFile("", fs.Base(), len(text)), []byte(text), func(token.Position, string) { errs++ }, 0)
	_, tok, lit := s.Scan()
	if tok != token.STRING || lit != text || errs != 0 {
		return false
	}
	_, tok, _ = s.Scan()
	if tok == token.SEMICOLON {
		_, tok, _ = s.Scan()
	}
	return tok == token.EOF && errs == 0
}

func oracle(c, res string) string {
	f := strings.Split(c, " ")
	if strings.HasPrefix(res, "panic") {
		return "panic: " + res
	}
	payload := strings.TrimPrefix(res, "ok ")
	switch f[0] {
	case "quote":
		in, out := unhx(f[1]), unhx(payload)
		back, err := strconv.Unquote(out)
		if err != nil || back != in {
			return "Unquote(%q of value) != value"
		}
		if !utf8.ValidString(out) {
			return "quoted text is not valid UTF-8"
		}
		for _, r := range out {
			if r < 0x20 || r == 0x7f || r == 0xfeff || r == 0x2028 || r == 0x2029 {
				return "quoted text contains a raw control character"
			}
		}
		if !oneStringToken(out) {
			return "quoted text is not one Go string token"
		}
	case "unquote":
		if strings.HasPrefix(res, "ok ") {
			v := unhx(payload)
			back, err := strconv.Unquote(strconv.Quote(v))
			if err != nil || back != v {
				return "Unquote(Quote(v)) != v for an unquoted v"
			}
		}
	case "write":
		file := parseFileCase(f)
		if !withinHypotheses(file) {
			return "" // generator stays inside; nothing claimed otherwise
		}
		if !strings.HasPrefix(res, "ok ") {
			return "Write fails within the hypotheses: " + res
		}
		out := lib.ParseBytes(payload)
		arg := cloneFile(file)
		again, err := write(arg)
		if err != nil || !bytes.Equal(again, out) {
			return "Write is not deterministic"
		}
		if !sameFile(arg, file) {
			return "Write modified its argument"
		}
		fs, err := format.Source(out)
		if err != nil || !bytes.Equal(fs, out) {
			return "Write output is not a fixed point of go/format"
		}
		g, err := verifhook.MetavarsRead(bytes.NewReader(out))
		if err != nil {
			return "Read(Write(f)) fails: " + err.Error()
		}
		if g.Package != file.Package {
			return "Read(Write(f)): package differs"
		}
		if len(g.Properties) != len(file.Properties) {
			return "Read(Write(f)): number of properties differs"
		}
		for i, p := range file.Properties {
			q := g.Properties[i]
			if q.Name != p.Name {
				return fmt.Sprintf("Read(Write(f)): name of property %d differs", i)
			}
			if q.Value != p.Value {
				return fmt.Sprintf("Read(Write(f)): value of property %d differs", i)
			}
			if q.Doc != p.Doc {
				return fmt.Sprintf("Read(Write(f)): doc of property %d differs", i)
			}
		}
		if msg := independentParse(out, file); msg != "" {
			return msg
		}
	case "read":
		if !strings.HasPrefix(res, "ok ") {
			return ""
		}
		p := strings.Split(payload, " ")
		g := &F{Package: unhx(p[0]), Properties: decProps(p[1])}
		if !withinHypotheses(g) {
			return ""
		}
		for _, q := range g.Properties {
			if isBuildLine(q.Doc) {
				return ""
			}
		}
		out, err := write(g)
		if err != nil {
			return "Write(Read(text)) fails"
		}
		// every text of the stream that Read accepts is an output of Write
		if !bytes.Equal(out, lib.ParseBytes(f[1])) {
			return "Write(Read(text)) != text for a text that Write produced"
		}
	case "rt":
		file := parseFileCase(f)
		if withinHypotheses(file) && res != "ok 1" {
			return "the file is within the hypotheses (identifiers, plain one-line docs) but does not survive Write/Read or is not in gofmt form"
		}
	case "rtclass":
		if res != "ok 0" && res != "ok 1" {
			return "unexpected result"
		}
	case "files":
		var fs []*F
		for _, d := range strings.Split(f[1], "|") {
			fs = append(fs, decDesc(d))
		}
		return fileOracle(res, fs[len(fs)-1], func(path string) (*F, string) { return runFiles(path, fs) })
	case "edit":
		f0 := decDesc(f[1])
		ops := strings.Split(f[2], ",")
		// what an ordered map holds after the operations that succeed
		want := cloneFile(f0)
		for _, op := range ops {
			o := strings.Split(op, ":")
			idx := -1
			for i := len(want.Properties) - 1; i >= 0; i-- {
				if want.Properties[i].Name == unhx(o[1]) {
					idx = i
				}
			}
			switch {
			case o[0] == "a" && idx < 0:
				want.Properties = append(want.Properties, P{Name: unhx(o[1]), Doc: unhx(o[2]), Value: unhx(o[3])})
			case o[0] == "s" && idx >= 0:
				want.Properties[idx].Value = unhx(o[2])
			}
		}
		return fileOracle(res, want, func(path string) (*F, string) { return runEdit(path, f0, ops) })
	case "mapops":
		return mapOracle(decProps(f[1]), strings.Split(f[2], ","), payload)
	}
	return ""
}

// fileOracle: after the last WriteFile the path must hold exactly the canonical text of the last
// description, and ReadFile must return that description (whatever the path held before).
func fileOracle(res string, last *F, rerun func(path string) (*F, string)) string {
	if !withinHypotheses(last) {
		return ""
	}
	for _, q := range last.Properties {
		if isBuildLine(q.Doc) {
			return ""
		}
	}
	want := "ok " + hx(last.Package) + " " + encProps(last.Properties)
	if res != want {
		return "ReadFile after the last WriteFile does not return the description written last: got " + res
	}
	path := scratchPath() + ".oracle"
	defer os.Remove(path)
	g, cls := rerun(path)
	if g == nil || !sameFile(g, last) {
		return "re-running the history on another path gives a different result " + cls
	}
	onDisk, err := os.ReadFile(path)
	if err != nil {
		return "cannot read the written file"
	}
	mem, err := write(cloneFile(last))
	if err != nil || !bytes.Equal(onDisk, mem) {
		return "the path does not hold exactly the text Write produces for the last description (stale or missing bytes)"
	}
	if fs, err := format.Source(onDisk); err != nil || !bytes.Equal(fs, onDisk) {
		return "the file on disk is not a fixed point of go/format"
	}
	return ""
}

// independentParse checks the written text with go/parser directly: package clause, one
// parenthesised var declaration, one spec per property in order.
func independentParse(out []byte, f *F) string {
	fset := token.NewFileSet()
	af, err := parser.ParseFile(fset, "", out, parser.ParseComments)
	if err != nil {
		return "written text does not parse"
	}
	if af.Name.Name != f.Package {
		return "written package clause differs"
	}
	if len(af.Decls) != 1 {
		return "written text does not have exactly one declaration"
	}
	gd, ok := af.Decls[0].(*ast.GenDecl)
	if !ok || gd.Tok != token.VAR || len(gd.Specs) != len(f.Properties) {
		return "written declaration is not a var block with one spec per property"
	}
	for i, s := range gd.Specs {
		vs := s.(*ast.ValueSpec)
		if len(vs.Names) != 1 || vs.Names[0].Name != f.Properties[i].Name || vs.Type != nil || len(vs.Values) != 1 {
			return fmt.Sprintf("written spec %d has the wrong shape", i)
		}
		lit, ok := vs.Values[0].(*ast.BasicLit)
		if !ok || lit.Kind != token.STRING {
			return fmt.Sprintf("written spec %d is not a string literal", i)
		}
		v, err := strconv.Unquote(lit.Value)
		if err != nil || v != f.Properties[i].Value {
			return fmt.Sprintf("written spec %d has the wrong value", i)
		}
		if (vs.Doc == nil) != (f.Properties[i].Doc == "") {
			return fmt.Sprintf("written spec %d: documentation presence differs", i)
		}
	}
	return ""
}

// mapOracle: the ordered-map laws, stated with an index built from scratch at every step.
func mapOracle(init []P, ops []string, payload string) string {
	cur := append([]P(nil), init...)
	entries := strings.Split(payload, ";")
	if len(entries) != len(ops) {
		return "wrong number of results"
	}
	first := func(ps []P) map[string]int {
		m := map[string]int{}
		for i := len(ps) - 1; i >= 0; i-- {
			m[ps[i].Name] = i
		}
		return m
	}
	for k, op := range ops {
		o := strings.Split(op, ":")
		e := strings.SplitN(entries[k], "=", 2)
		got, after := e[0], decProps(e[1])
		idx, present := first(cur)[unhx(o[1])]
		want := append([]P(nil), cur...)
		var wres string
		switch o[0] {
		case "g":
			if present {
				wres = "1:" + hx(cur[idx].Value)
			} else {
				wres = "0"
			}
		case "a":
			if present {
				wres = "exists"
			} else {
				wres = "ok"
				want = append(want, P{Name: unhx(o[1]), Doc: unhx(o[2]), Value: unhx(o[3])})
			}
		case "s":
			if present {
				wres = "ok"
				want[idx].Value = unhx(o[2])
			} else {
				wres = "unknown"
			}
		}
		if got != wres {
			return fmt.Sprintf("operation %d (%s): result %s, an ordered map gives %s", k, op, got, wres)
		}
		if len(after) != len(want) {
			return fmt.Sprintf("operation %d (%s): file has %d properties afterwards, expected %d", k, op, len(after), len(want))
		}
		for i := range want {
			if after[i] != want[i] {
				return fmt.Sprintf("operation %d (%s): property %d afterwards differs from the ordered-map result", k, op, i)
			}
		}
		cur = want
	}
	return ""
}

func main() {
	defer func() {
		if scratchDir != "" {
			os.RemoveAll(scratchDir)
		}
	}()
	lib.Main(lib.Prop{
		ID:     "C20",
		Gen:    gen,
		Run:    run,
		Oracle: oracle,
		Nontrivial: func(c, res string) bool {
			f := strings.Split(c, " ")
			switch f[0] {
			case "quote":
				return len(f[1]) >= 4
			case "unquote":
				return len(f[1]) >= 8
			case "write", "rt":
				return strings.Contains(f[2], ",") && strings.HasPrefix(res, "ok ")
			case "read":
				return strings.HasPrefix(res, "ok ") && strings.Contains(res, ",")
			case "rtclass":
				return res == "ok 0"
			case "mapops":
				return strings.Contains(f[2], ",")
			case "files":
				return strings.Contains(f[1], "|") && strings.HasPrefix(res, "ok ")
			case "edit":
				return strings.HasPrefix(res, "ok ")
			}
			return false
		},
	})
}
