// C04, long scripts: programs of hundreds to thousands of operations whose printed script is
// 10 KiB ... 150 KiB (straddling 16 KiB, 64 KiB and 128 KiB), loaded back through every entry point
// of the package: acc.LoadString, acc.LoadReader on a reader that delivers small chunks, acc.LoadFile.
//
//	longload <ops>     result: ok <chain length> <last element>     (the model evaluates the program)
package main

import (
	"fmt"
	"io"
	"math/big"
	"os"
	"path/filepath"
	"strings"

	"github.com/mmcloughlin/addchain"
	"github.com/mmcloughlin/addchain/acc"
	"github.com/mmcloughlin/addchain/acc/ir"
	"github.com/mmcloughlin/addchain/acc/printer"
	"verif/harness/c04c16"
	"verif/harness/lib"
)

// chunkReader hands out at most n bytes per Read.
type chunkReader struct {
	s string
	n int
}

func (r *chunkReader) Read(b []byte) (int, error) {
	if len(r.s) == 0 {
		return 0, io.EOF
	}
	k := r.n
	if k > len(b) {
		k = len(b)
	}
	if k > len(r.s) {
		k = len(r.s)
	}
	copy(b, r.s[:k])
	r.s = r.s[k:]
	return k, nil
}

type loaded struct {
	how string
	p   *ir.Program
	err error
}

// loadAll prints the built script of p and loads the text through every entry point.
func loadAll(p addchain.Program) (text string, ls []loaded, err error) {
	q, err := acc.Decompile(p)
	if err != nil {
		return "", nil, err
	}
	s, err := acc.Build(q)
	if err != nil {
		return "", nil, err
	}
	text, err = printer.String(s)
	if err != nil {
		return "", nil, err
	}
	l1, e1 := acc.LoadString(text)
	ls = append(ls, loaded{"acc.LoadString", l1, e1})
	l2, e2 := acc.LoadReader("chunks", &chunkReader{s: text, n: 333})
	ls = append(ls, loaded{"acc.LoadReader (333-byte reads)", l2, e2})
	dir := os.Getenv("VERIF_BUILD")
	if dir == "" {
		dir = os.TempDir()
	}
	fn := filepath.Join(dir, fmt.Sprintf("longload-%d.acc", os.Getpid()))
	if err := os.WriteFile(fn, []byte(text), 0o644); err != nil {
		return text, ls, err
	}
	defer os.Remove(fn)
	l3, e3 := acc.LoadFile(fn)
	ls = append(ls, loaded{"acc.LoadFile", l3, e3})
	return text, ls, nil
}

func runLong(c string) string {
	p := c04c16.ParseOps(strings.Split(c, " ")[1])
	_, ls, err := loadAll(p)
	if err != nil {
		return "err " + c04c16.ErrClass(err)
	}
	for _, l := range ls {
		if l.err != nil {
			return "err load"
		}
	}
	ch := ls[0].p.Chain
	return fmt.Sprintf("ok %d %s", len(ch), lib.Hex(ch[len(ch)-1]))
}

func oracleLong(c, res string) string {
	p := c04c16.ParseOps(strings.Split(c, " ")[1])
	if !c04c16.Valid(p) {
		return ""
	}
	want := c04c16.Values(p)
	text, ls, err := loadAll(p)
	if err != nil {
		return "script not produced: " + err.Error()
	}
	for _, l := range ls {
		if l.err != nil {
			return fmt.Sprintf("printed script of %d bytes (%d operations) does not load through %s: %v", len(text), len(p), l.how, l.err)
		}
		if !lib.EqualInts(l.p.Chain, want) {
			return fmt.Sprintf("printed script of %d bytes loads through %s to a different chain", len(text), l.how)
		}
		if !c04c16.SameUpToOrder(l.p.Program, p) {
			return fmt.Sprintf("printed script of %d bytes loads through %s to different operations", len(text), l.how)
		}
	}
	if res != fmt.Sprintf("ok %d %s", len(want), lib.Hex(want[len(want)-1])) {
		return "result line is not the chain of the program: " + res
	}
	return ""
}

// longRandom: every operation adds two random earlier elements (distinct sums), so most elements are
// read several times or never, and nearly every operation becomes a named statement.
func longRandom(r *lib.Rand, n int) addchain.Program {
	p := addchain.Program{}
	vals := []*big.Int{big.NewInt(1)}
	seen := map[string]bool{"1": true}
	for len(p) < n {
		m := len(vals)
		i, j := r.Intn(m), r.Intn(m)
		if r.Chance(1, 2) { // recent elements, so that values keep growing
			i = m - 1 - r.Intn(min(m, 8))
		}
		v := new(big.Int).Add(vals[i], vals[j])
		if seen[v.String()] {
			continue
		}
		seen[v.String()] = true
		vals = append(vals, v)
		p = append(p, addchain.Op{I: i, J: j})
	}
	return p
}

// longSearchLike: windows of doublings followed by the addition of a small precomputed element, the
// shape the dictionary algorithms produce; the small elements are read many times.
func longSearchLike(r *lib.Rand, n int) addchain.Program {
	p := addchain.Program{}
	vals := []*big.Int{big.NewInt(1)}
	seen := map[string]bool{"1": true}
	add := func(i, j int) bool {
		v := new(big.Int).Add(vals[i], vals[j])
		if seen[v.String()] {
			return false
		}
		seen[v.String()] = true
		vals = append(vals, v)
		p = append(p, addchain.Op{I: i, J: j})
		return true
	}
	add(0, 0) // 2
	odd := []int{0}
	for k := 0; k < 15; k++ { // 3, 5, ..., 31
		add(odd[len(odd)-1], 1)
		odd = append(odd, len(vals)-1)
	}
	for len(p) < n {
		for t, m := 0, r.Range(1, 6); t < m && len(p) < n; t++ {
			add(len(vals)-1, len(vals)-1)
		}
		if len(p) < n {
			add(len(vals)-1, odd[r.Intn(len(odd))])
		}
	}
	return p
}

func min(a, b int) int {
	if a < b {
		return a
	}
	return b
}

func genLong(tier string, r *lib.Rand, emit func(string)) {
	sizes := []int{300, 700, 1500, 4000}
	if tier == "thorough" {
		sizes = append(sizes, 500, 650, 1000, 2500, 5000, 6000)
	}
	for _, n := range sizes {
		emit("longload " + c04c16.FormatOps(longRandom(r, n)))
		emit("longload " + c04c16.FormatOps(longSearchLike(r, n)))
	}
	// about 25 bytes of script per operation for the random shape: 5500 operations is past 128 KiB
	emit("longload " + c04c16.FormatOps(longRandom(r, 5500)))
}
