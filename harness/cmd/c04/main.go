// C04: the script printed for a chain loads back to exactly that chain.
package main

import (
	"fmt"
	"hash/fnv"
	"strings"

	"github.com/mmcloughlin/addchain"
	"github.com/mmcloughlin/addchain/acc"
	"github.com/mmcloughlin/addchain/acc/ast"
	"github.com/mmcloughlin/addchain/acc/ir"
	"github.com/mmcloughlin/addchain/acc/printer"
	"verif/harness/c04c16"
	"verif/harness/lib"
)

// expandIR unrolls an instruction list by the meaning of the three instruction kinds,
// checking that every output index is the index of the element the instruction appends
// last. Written independently of pass.Compile.
func expandIR(q *ir.Program) (addchain.Program, string) {
	p := addchain.Program{}
	for _, inst := range q.Instructions {
		switch op := inst.Op.(type) {
		case ir.Add:
			p = append(p, addchain.Op{I: op.X.Index, J: op.Y.Index})
		case ir.Double:
			p = append(p, addchain.Op{I: op.X.Index, J: op.X.Index})
		case ir.Shift:
			if op.S < 2 {
				return nil, "shift instruction with amount below 2"
			}
			x := op.X.Index
			for k := uint(0); k < op.S; k++ {
				p = append(p, addchain.Op{I: x, J: x})
				x = len(p)
			}
		default:
			return nil, "unknown instruction kind"
		}
		if inst.Output.Index != len(p) {
			return nil, "instruction output index is not the index of the element it produces"
		}
	}
	return p, ""
}

// dangling: an input that is neither element 0 nor the output of an earlier instruction.
func dangling(q *ir.Program) bool {
	produced := map[int]bool{0: true}
	for _, inst := range q.Instructions {
		for _, in := range inst.Op.Inputs() {
			if !produced[in.Index] {
				return true
			}
		}
		produced[inst.Output.Index] = true
	}
	return false
}

func oracle(c, res string) string {
	f := strings.Split(c, " ")
	if f[0] == "cli" {
		return oracleCLI(c, res)
	}
	if f[0] == "longload" {
		return oracleLong(c, res)
	}
	if f[0] == "cbuild" {
		return c04c16.CheckConcurrent(c, res, func(p addchain.Program, s *ast.Chain) string {
			chain, ops, _, err := c04c16.Interpret(s)
			if err != nil {
				return "built script has no meaning: " + err.Error()
			}
			if !lib.EqualInts(chain, c04c16.Values(p)) || !c04c16.SameUpToOrder(ops, p) {
				return "built script computes a different chain"
			}
			text, err := printer.String(s)
			if err != nil {
				return "print: " + err.Error()
			}
			l, err := acc.LoadString(text)
			if err != nil {
				return "printed script does not load: " + err.Error()
			}
			if !lib.EqualInts(l.Chain, c04c16.Values(p)) || !c04c16.SameUpToOrder(l.Program, p) {
				return "printed script loads to a different chain"
			}
			return ""
		})
	}
	p := c04c16.ParseOps(f[1])
	if !c04c16.Valid(p) {
		return "" // outside the quantifier; compared with the model only
	}
	if !strings.HasPrefix(res, "ok ") {
		return "valid program not processed: " + res
	}
	p0 := append(addchain.Program{}, p...)
	want := c04c16.Values(p)
	payload := strings.TrimPrefix(res, "ok ")
	switch f[0] {
	case "rebuild":
		// every script obtained from one decompiled program (Build x3, acc.String, acc.Write)
		// loads back to the chain
		q, err := acc.Decompile(p)
		if err != nil {
			return "Decompile: " + err.Error()
		}
		r, msg := c04c16.Rebuild(q)
		if r == nil {
			return "rebuilding failed: " + msg
		}
		for k, s := range r.Trees {
			chain, ops, _, ierr := c04c16.Interpret(s)
			if ierr != nil {
				return fmt.Sprintf("build %d of the same program has no meaning: %v", k+1, ierr)
			}
			if !lib.EqualInts(chain, want) || !c04c16.SameUpToOrder(ops, p) {
				return fmt.Sprintf("build %d of the same program computes a different chain", k+1)
			}
		}
		for k, text := range r.Texts {
			l, err := acc.LoadString(text)
			if err != nil {
				return fmt.Sprintf("script text %d of the same program does not load: %v", k+1, err)
			}
			if !lib.EqualInts(l.Chain, want) || !c04c16.SameUpToOrder(l.Program, p) {
				return fmt.Sprintf("script text %d of the same program loads to a different chain", k+1)
			}
		}
		if msg != "" {
			return msg
		}
		if !lib.EqualInts(r.Chain, want) {
			return "building changed the chain values of the program"
		}
		return ""
	case "expand":
		if payload != f[1] {
			return "Compile(Decompile(p)) differs from p"
		}
		return ""
	case "dangling":
		return ""
	case "retranslate":
		h := strings.Split(payload, " | ")
		if len(h) != 2 || !c04c16.SameUpToOrder(c04c16.ParseOps(h[0]), p) || !lib.EqualInts(lib.ParseHexList(h[1]), want) {
			return "Translate(Build(Decompile(p))) is not p up to operand order"
		}
		return ""
	}

	// the intermediate form expands back to exactly the original operations ...
	q, err := acc.Decompile(p)
	if err != nil {
		return "Decompile: " + err.Error()
	}
	back, msg := expandIR(q)
	if msg != "" {
		return msg
	}
	if len(back) != len(p) {
		return "instruction form expands to a program of different length"
	}
	for k := range p {
		if back[k] != p[k] {
			return "instruction form does not expand to the original operations (operand order included)"
		}
	}
	// ... and never reads a value that no instruction produces
	if dangling(q) {
		return "instruction form reads an index that no instruction outputs"
	}
	if f[0] == "decompile" {
		if c04c16.EncodeIR(q) != payload {
			return "Decompile is not deterministic"
		}
		return ""
	}

	// script -> text -> load gives the identical chain and operations up to operand order
	s, err := acc.Build(q)
	if err != nil {
		return "Build: " + err.Error()
	}
	// independent reading of the tree
	chain, ops, _, ierr := c04c16.Interpret(s)
	if ierr != nil {
		return "built script has no meaning: " + ierr.Error()
	}
	if !lib.EqualInts(chain, want) {
		return "built script computes a different chain"
	}
	if !c04c16.SameUpToOrder(ops, p) {
		return "built script performs different operations"
	}
	// printing and re-parsing dominates the run time (the generated parser memoises): for the
	// ~100 000 exhaustive programs of length 6 -- all values below 2^8, no inlining, statements of
	// the shape name = a + b -- the text step runs on one case in four; the tree is always
	// interpreted above
	if len(p) == 6 {
		h := fnv.New32a()
		h.Write([]byte(c))
		if h.Sum32()%4 != 0 {
			return ""
		}
	}
	text, err := printer.String(s)
	if err != nil {
		return "print: " + err.Error()
	}
	l, err := acc.LoadString(text)
	if err != nil {
		return "printed script does not load: " + err.Error()
	}
	if !lib.EqualInts(l.Chain, want) {
		return "printed script loads to a different chain"
	}
	if !c04c16.SameUpToOrder(l.Program, p) {
		return "printed script loads to different operations"
	}
	for k := range p0 {
		if p[k] != p0[k] {
			return "argument program modified"
		}
	}
	return ""
}

func main() {
	lib.Main(lib.Prop{
		ID:     "C04",
		Gen: func(tier string, r *lib.Rand, emit func(string)) {
			genCLI(tier, r, emit)
			genLong(tier, r, emit)
			c04c16.Gen([]string{"decompile", "build", "expand", "retranslate", "dangling"}, []string{"rebuild"}, 6)(tier, r, emit)
		},
		Neighbours: c04c16.Neighbours,
		Run: func(c string) string {
			if strings.HasPrefix(c, "cli ") {
				return runCLI(c)
			}
			if strings.HasPrefix(c, "longload ") {
				return runLong(c)
			}
			return c04c16.Run(c)
		},
		Oracle: oracle,
		Nontrivial: func(c, res string) bool {
			if strings.HasPrefix(c, "cbuild ") || strings.HasPrefix(c, "cli ") {
				return strings.HasPrefix(res, "ok ")
			}
			p := c04c16.ParseOps(strings.Split(c, " ")[1])
			return strings.HasPrefix(res, "ok ") && len(p) >= 3 && c04c16.Valid(p)
		},
		PanicClass: c04c16.PanicClass,
	})
}
