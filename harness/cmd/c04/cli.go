// C04, command-line anchor: what `addchain search` writes to standard output is the script, and
// nothing else; it loads to a chain for the target, and fmt / fmt -b / eval accept it.
//
//	cli <target expression as hex bytes> <flags>     flags: "-" or comma separated v, p=<n>, add=<x>, double=<x>
//	result: ok <last element of the chain loaded from stdout>   (the model evaluates the target expression)
package main

import (
	"bytes"
	"context"
	"fmt"
	"math/big"
	"os"
	"os/exec"
	"regexp"
	"strings"
	"time"

	"github.com/mmcloughlin/addchain/acc"
	"github.com/mmcloughlin/addchain/acc/parse"
	"verif/harness/c04c16"
	"verif/harness/lib"
)

type proc struct {
	exit   int
	stdout string
	stderr string
}

func runBin(stdin string, args ...string) proc {
	b := os.Getenv("ADDCHAIN_BIN")
	if b == "" {
		panic("ADDCHAIN_BIN not set")
	}
	ctx, cancel := context.WithTimeout(context.Background(), 120*time.Second)
	defer cancel()
	cmd := exec.CommandContext(ctx, b, args...)
	cmd.Stdin = strings.NewReader(stdin)
	var so, se bytes.Buffer
	cmd.Stdout, cmd.Stderr = &so, &se
	cmd.Env = append(os.Environ(), "ADDCHAIN_PROFILE=")
	err := cmd.Run()
	r := proc{stdout: so.String(), stderr: se.String()}
	if err != nil {
		r.exit = -1
		if ee, ok := err.(*exec.ExitError); ok && ctx.Err() == nil {
			r.exit = ee.ExitCode()
		}
	}
	return r
}

func searchArgs(expr, flags string) []string {
	a := []string{"search"}
	if flags != "-" {
		for _, f := range strings.Split(flags, ",") {
			switch {
			case f == "v":
				a = append(a, "-v")
			case strings.HasPrefix(f, "p="):
				a = append(a, "-p", f[2:])
			case strings.HasPrefix(f, "add="):
				a = append(a, "-add", f[4:])
			case strings.HasPrefix(f, "double="):
				a = append(a, "-double", f[7:])
			default:
				panic("unknown flag " + f)
			}
		}
	}
	return append(a, "--", expr)
}

// one search per (expression, flags) and process: the oracle compares variants with each other
var searchCache = map[string]proc{}

func search(expr, flags string) proc {
	k := expr + " " + flags
	if r, ok := searchCache[k]; ok {
		return r
	}
	r := runBin("", searchArgs(expr, flags)...)
	searchCache[k] = r
	return r
}

func runCLI(c string) string {
	f := strings.Split(c, " ")
	expr := string(lib.ParseBytes(f[1]))
	r := search(expr, f[2])
	if r.exit != 0 {
		return "err exit"
	}
	l, err := acc.LoadString(r.stdout)
	if err != nil {
		return "err load"
	}
	return "ok " + lib.Hex(l.Chain[len(l.Chain)-1])
}

var (
	reNum = regexp.MustCompile(`^(0x[0-9a-f]+|[0-9]+)$`)
	rePow = regexp.MustCompile(`^([0-9]+)\^([0-9]+)([+-])([0-9]+)$`)
)

// targetValue evaluates the shapes of target the generator emits, independently of internal/calc.
func targetValue(expr string) *big.Int {
	if reNum.MatchString(expr) {
		v, ok := new(big.Int).SetString(expr, 0)
		if !ok {
			panic("bad target " + expr)
		}
		return v
	}
	m := rePow.FindStringSubmatch(expr)
	if m == nil {
		panic("bad target " + expr)
	}
	b, _ := new(big.Int).SetString(m[1], 10)
	e, _ := new(big.Int).SetString(m[2], 10)
	c, _ := new(big.Int).SetString(m[4], 10)
	v := new(big.Int).Exp(b, e, nil)
	if m[3] == "-" {
		return v.Sub(v, c)
	}
	return v.Add(v, c)
}

// meaning of a script text: parse, then the harness's own interpreter (not acc.Translate)
func scriptChain(text string) ([]*big.Int, string) {
	s, err := parse.String(text)
	if err != nil {
		return nil, "does not parse: " + err.Error()
	}
	chain, _, _, ierr := c04c16.Interpret(s)
	if ierr != nil {
		return nil, "has no meaning: " + ierr.Error()
	}
	return chain, ""
}

// own definition of "addition chain ending at n"
func chainFor(c []*big.Int, n *big.Int) string {
	if len(c) == 0 || c[0].Cmp(big.NewInt(1)) != 0 {
		return "chain does not start at 1"
	}
	if !c04c16.Distinct(c) {
		return "chain repeats a value"
	}
	for k := 1; k < len(c); k++ {
		ok := false
		for i := 0; i < k && !ok; i++ {
			for j := i; j < k; j++ {
				if new(big.Int).Add(c[i], c[j]).Cmp(c[k]) == 0 {
					ok = true
					break
				}
			}
		}
		if !ok {
			return fmt.Sprintf("element %d is not the sum of two earlier elements", k)
		}
	}
	if c[len(c)-1].Cmp(n) != 0 {
		return "chain does not end at the target"
	}
	return ""
}

var reEvalLine = regexp.MustCompile(`^\[ *(\d+)\] +(\d+)\+ *(\d+)\t([0-9a-f]+)$`)

func toggleV(flags string) string {
	fs := []string{}
	had := false
	if flags != "-" {
		for _, f := range strings.Split(flags, ",") {
			if f == "v" {
				had = true
			} else {
				fs = append(fs, f)
			}
		}
	}
	if !had {
		fs = append([]string{"v"}, fs...)
	}
	if len(fs) == 0 {
		return "-"
	}
	return strings.Join(fs, ",")
}

func oracleCLI(c, res string) string {
	f := strings.Split(c, " ")
	expr := string(lib.ParseBytes(f[1]))
	n := targetValue(expr)
	r := search(expr, f[2])
	if r.exit != 0 {
		return fmt.Sprintf("search exited with status %d", r.exit)
	}
	// standard output is the script and nothing else
	chain, msg := scriptChain(r.stdout)
	if msg != "" {
		return "standard output of search " + msg
	}
	if m := chainFor(chain, n); m != "" {
		return "standard output of search: " + m
	}
	l, err := acc.LoadString(r.stdout)
	if err != nil {
		return "standard output of search does not load: " + err.Error()
	}
	if !lib.EqualInts(l.Chain, chain) {
		return "LoadString of the standard output gives a different chain"
	}
	if res != "ok "+lib.Hex(n) {
		return "loaded chain does not end at the target: " + res
	}
	// the same script with and without -v
	o := search(expr, toggleV(f[2]))
	if o.exit != 0 || o.stdout != r.stdout {
		return "standard output differs between -v and no -v (flags " + f[2] + " vs " + toggleV(f[2]) + ")"
	}
	// fmt, fmt -b, eval accept it (for the -v variants the bytes were just shown to be the same)
	if strings.HasPrefix(f[2], "v") {
		return ""
	}
	for _, args := range [][]string{{"fmt"}, {"fmt", "-b"}} {
		p := runBin(r.stdout, args...)
		if p.exit != 0 {
			return fmt.Sprintf("addchain %s rejects the output of search (status %d)", strings.Join(args, " "), p.exit)
		}
		c2, msg := scriptChain(p.stdout)
		if msg != "" {
			return "output of addchain " + strings.Join(args, " ") + " " + msg
		}
		if !lib.EqualInts(c2, chain) {
			return "output of addchain " + strings.Join(args, " ") + " is a different chain"
		}
	}
	e := runBin(r.stdout, "eval")
	if e.exit != 0 {
		return fmt.Sprintf("addchain eval rejects the output of search (status %d)", e.exit)
	}
	lines := strings.Split(strings.TrimRight(e.stdout, "\n"), "\n")
	k := 0
	for _, ln := range lines {
		m := reEvalLine.FindStringSubmatch(ln)
		if m == nil {
			continue
		}
		k++
		if k >= len(chain) || lib.Hex(chain[k]) != m[4] {
			return "addchain eval lists a different chain"
		}
	}
	if k != len(chain)-1 {
		return "addchain eval lists a chain of different length"
	}
	return ""
}

func genCLI(tier string, r *lib.Rand, emit func(string)) {
	targets := []string{"1", "2", "3", "7", "15", "23", "255", "256", "511", "1000003", "0xfff7",
		"2^16+1", "2^31-1", "2^61-1", "2^64-59", "2^127-1", "2^130-5", "2^255-19"}
	nr := 2
	if tier == "thorough" {
		targets = append(targets, "2^192-237", "2^224-63", "2^256-189", "2^256-2", "2^384-317", "2^521-1")
		nr = 12
	}
	for i := 0; i < nr; i++ {
		targets = append(targets, r.BitsExact(r.Range(20, 200)).String())
	}
	variants := []string{"-", "v", "p=1", "v,p=1", "p=3", "v,p=3", "add=2.5,double=1", "v,add=2.5,double=1"}
	for _, t := range targets {
		for _, v := range variants {
			if strings.Contains(v, "p=1") && targetValue(t).BitLen() > 70 && tier != "thorough" {
				continue // the whole ensemble one algorithm at a time: seconds per large target
			}
			emit("cli " + lib.Bytes([]byte(t)) + " " + v)
		}
	}
}
