// C17: allocation never needs more temporaries than values simultaneously alive.
package main

import (
	"strings"

	"github.com/mmcloughlin/addchain"
	"verif/harness/alloclib"
	"verif/harness/lib"
)

func gen(tier string, r *lib.Rand, emit func(string)) {
	full, nrand, maxlen := 6, 1500, 60
	if tier == "thorough" {
		full, nrand, maxlen = 7, 40000, 300
	}
	good := alloclib.GoodCfgs
	// (a) exhaustive: every op list; those without dead values are the property's domain
	emit(alloclib.AllocCase(alloclib.Prog{}, good[0]))
	for n := 1; n <= full; n++ {
		alloclib.OpLists(n, func(ops addchain.Program) {
			p := alloclib.Decompiled(ops)
			if n <= 5 || alloclib.NoDeadValues(p) {
				emit(alloclib.AllocCase(p, good[0]))
			}
		})
	}
	// (b) random long programs without dead values, and translated scripts
	for i := 0; i < nrand; i++ {
		p := alloclib.RandomProgram(r, r.Range(1, maxlen), 0)
		emit(alloclib.AllocCase(p, good[r.Intn(len(good))]))
		if i%4 == 0 {
			if q, _, ok := alloclib.Translated(alloclib.RandomScript(r, r.Range(1, 8))); ok {
				emit(alloclib.AllocCase(q, good[r.Intn(len(good))]))
			}
		}
	}
	// (b') several regions of high liveness in sequence, with widths straddling machine-word sizes:
	// each region computes w values that all stay alive until they are summed up; the next region
	// starts from that sum, so the allocator must re-use every one of the w variables.
	widthSets := [][]int{{3, 3}, {20, 19, 21}, {63, 63}, {64, 64}, {65, 65}, {66, 64, 66}, {70, 3, 70}, {40, 90}, {90, 40, 90}}
	if tier == "thorough" {
		widthSets = append(widthSets, []int{130, 129, 130}, []int{257, 256, 257}, []int{64, 65, 64, 65, 64})
	}
	for _, ws := range widthSets {
		emit(alloclib.AllocCase(wide(ws), good[0]))
	}

	// (b'') histories: the same program object allocated several times under different naming
	// configurations, and clones of it (the bound must hold after every run, not only the first)
	hk := 0
	for i := 0; i < nrand/10; i++ {
		p := alloclib.RandomProgram(r, r.Range(2, 14), 0)
		h := alloclib.Histories[hk%len(alloclib.Histories)]
		emit(alloclib.HistoryCase(p, good[hk%len(good)], good[(hk+3)%len(good)], h))
		hk++
	}
	for _, ws := range [][]int{{3, 3}, {5, 4, 5}} {
		for _, h := range alloclib.Histories {
			emit(alloclib.HistoryCase(wide(ws), good[hk%len(good)], good[(hk+1)%len(good)], h))
			hk++
		}
	}

	// (c) outside the domain: dead values, ill-formed programs
	for i := 0; i < nrand/3; i++ {
		p := alloclib.RandomProgram(r, r.Range(1, maxlen), []int{10, 30, 60}[r.Intn(3)])
		emit(alloclib.AllocCase(p, good[r.Intn(len(good))]))
		emit(alloclib.AllocCase(alloclib.IllFormed(r, alloclib.RandomProgram(r, r.Range(1, 10), 20)), good[r.Intn(len(good))]))
	}
}

// wide builds a program of consecutive regions: region i computes widths[i] values from the
// region's base value, all alive at once, then sums them; the sum is the next region's base.
func wide(widths []int) alloclib.Prog {
	var p alloclib.Prog
	next, base := 1, 0
	op := func(i int) alloclib.Opd { return alloclib.Opd{Idx: i} }
	for _, w := range widths {
		vs := []int{}
		prev := base
		for k := 0; k < w; k++ {
			if prev == base {
				p = append(p, alloclib.Ins{Kind: 'd', Out: op(next), X: op(base)})
			} else {
				p = append(p, alloclib.Ins{Kind: 'a', Out: op(next), X: op(base), Y: op(prev)})
			}
			vs = append(vs, next)
			prev = next
			next++
		}
		acc := vs[0]
		for k := 1; k < w; k++ {
			p = append(p, alloclib.Ins{Kind: 'a', Out: op(next), X: op(acc), Y: op(vs[k])})
			acc = next
			next++
		}
		base = acc
	}
	return p
}

func oracle(c, res string) string {
	if strings.HasPrefix(c, "history ") {
		return alloclib.CheckHistory(c, res)
	}
	return alloclib.CheckAllocation(c, res, true)
}

func nontrivial(c, res string) bool {
	f := strings.Split(c, " ")
	if !strings.HasPrefix(res, "ok ") {
		return false
	}
	p := alloclib.Decode(f[1])
	return len(p) >= 3 && alloclib.WellFormed(p) && alloclib.NoDeadValues(p)
}

func main() {
	lib.Main(lib.Prop{ID: "C17", Gen: gen, Run: alloclib.Run, Oracle: oracle, Nontrivial: nontrivial, Neighbours: alloclib.Neighbours,
		PanicClass: func(v interface{}) string { return "other" }})
}
