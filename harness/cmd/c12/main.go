// C12: parallel execution equals sequential execution, in order, under every schedule.
//
// The harness drives exec.Parallel.Execute with instrumented algorithms whose FindChain blocks on
// a gate until a controller opens it, and with a logger that records the start/done lines. Case
// kinds:
//
//	parallel k=<n> limit=<z> strategy=<perm:i,j,..|holdout:i|saturate|free:<rep>|stuck>
//	    -> ok slots=<..> sat=<n|-> early=<0|1> over=<0|1> | ok stuck | panic makechan
//	accepts k=<n> limit=<n> trace=<s0,d0,..,r> slots=<..>   (a behaviour observed from the implementation)
//	    -> ok 1   (by construction; the model must accept the trace and predict the slots)
//	lang k=<n> limit=<n> trace=<..>                          (synthetic trace)
//	    -> ok <0|1>  by an independent characterisation of the legal observable behaviours
//	race ensemble                                            (thorough tier, only when a -race build works)
//	    -> ok norace   supporting evidence, not proof: this binary rebuilt with -race runs the real
//	       ensemble (several targets, limits, GOMAXPROCS values) and the controlled schedules
package main

import (
	"fmt"
	"log"
	"math/big"
	"os"
	osexec "os/exec"
	"path/filepath"
	"reflect"
	"runtime"
	"strings"
	"sync"
	"sync/atomic"
	"time"

	"github.com/mmcloughlin/addchain"
	"github.com/mmcloughlin/addchain/alg"
	"github.com/mmcloughlin/addchain/alg/ensemble"
	"github.com/mmcloughlin/addchain/alg/exec"
	"verif/harness/lib"
)

const delta = 30 * time.Millisecond // deliberate observation delay (hold-out, saturation, stuck)

// patient is the upper bound for event-based waits; it is only reached when the implementation
// is broken (deadlock), so after a few expiries the remaining runs give up quickly.
var expiries int32

func patient() time.Duration {
	if atomic.LoadInt32(&expiries) >= 3 {
		return 200 * time.Millisecond
	}
	return 3 * time.Second
}

var target = big.NewInt(1000000007)

// ---- instrumented algorithm ----

type gateAlg struct {
	id    int
	gate  chan struct{}
	chain addchain.Chain // what FindChain returns (nil when it fails)
	err   error
	calls int32
}

func (a *gateAlg) String() string { return fmt.Sprintf("alg%d", a.id) }

func (a *gateAlg) FindChain(n *big.Int) (addchain.Chain, error) {
	atomic.AddInt32(&a.calls, 1)
	<-a.gate
	if a.err != nil {
		return nil, a.err
	}
	return a.chain.Clone(), nil
}

// chainFor builds a valid addition chain for n that is distinct for every id: the prefix
// 1,2,..,id+2 by increments, then greedily the largest sum of the last element and an earlier one.
func chainFor(id int, n *big.Int) addchain.Chain {
	c := addchain.Chain{big.NewInt(1)}
	for v := int64(2); v <= int64(id+2); v++ {
		c = append(c, big.NewInt(v))
	}
	for c[len(c)-1].Cmp(n) < 0 {
		last := c[len(c)-1]
		var next *big.Int
		for j := len(c) - 1; j >= 0; j-- {
			s := new(big.Int).Add(last, c[j])
			if s.Cmp(n) <= 0 {
				next = s
				break
			}
		}
		c = append(c, next)
	}
	return c
}

func chainKey(c addchain.Chain) string {
	ss := make([]string, len(c))
	for i, x := range c {
		ss[i] = x.Text(16)
	}
	return strings.Join(ss, ",")
}

// newAlgs: algorithm i fails when (i+k) mod 4 = 3 and returns a chain for n+1 when (i+k) mod 5 = 4
// (Execute then reports an error but keeps the chain), so that over k = 1..7 the failing one is
// first (k=3), in the middle (k=5,6,7) and last (k=2,4); the others succeed.
func newAlgs(k int) []*gateAlg {
	as := make([]*gateAlg, k)
	for i := range as {
		a := &gateAlg{id: i, gate: make(chan struct{})}
		switch {
		case (i+k)%4 == 3:
			a.err = fmt.Errorf("fail%d", i)
		case (i+k)%5 == 4:
			a.chain = chainFor(i, new(big.Int).Add(target, big.NewInt(1)))
		default:
			a.chain = chainFor(i, target)
		}
		as[i] = a
	}
	return as
}

// identify says which algorithm produced the result sitting in a slot.
func identify(r exec.Result, as []*gateAlg) string {
	if r.Algorithm == nil && r.Target == nil && r.Err == nil && r.Chain == nil {
		return "e"
	}
	for _, a := range as {
		if a.err != nil {
			if r.Err != nil && r.Err.Error() == a.err.Error() {
				return fmt.Sprint(a.id)
			}
		} else if r.Chain != nil && chainKey(r.Chain) == chainKey(a.chain) {
			return fmt.Sprint(a.id)
		}
	}
	return "x"
}

// ---- recorder: logger sink + event list ----

type recorder struct {
	mu      sync.Mutex
	events  []string
	started map[int]bool
	done    map[int]bool
	running int
	maxrun  int
	nstart  int
	ret     bool
	garbage []string
	notify  chan struct{}
}

func newRecorder() *recorder {
	return &recorder{started: map[int]bool{}, done: map[int]bool{}, notify: make(chan struct{}, 1)}
}

func (r *recorder) add(ev string) {
	r.mu.Lock()
	r.events = append(r.events, ev)
	switch ev[0] {
	case 's':
		r.started[lib.Atoi(ev[1:])] = true
		r.nstart++
		r.running++
		if r.running > r.maxrun {
			r.maxrun = r.running
		}
	case 'd':
		r.done[lib.Atoi(ev[1:])] = true
		r.running--
	case 'r':
		r.ret = true
	}
	r.mu.Unlock()
	select {
	case r.notify <- struct{}{}:
	default:
	}
}

// Write receives one log line per call (log.Logger guarantees that).
func (r *recorder) Write(p []byte) (int, error) {
	line := strings.TrimSpace(string(p))
	var id int
	switch {
	case strings.HasPrefix(line, "start: alg"):
		if _, err := fmt.Sscanf(line, "start: alg%d", &id); err == nil {
			r.add(fmt.Sprintf("s%d", id))
		}
	case strings.HasPrefix(line, "done: alg"):
		if _, err := fmt.Sscanf(line, "done: alg%d", &id); err == nil {
			r.add(fmt.Sprintf("d%d", id))
		}
	default:
		r.mu.Lock()
		r.garbage = append(r.garbage, line)
		r.mu.Unlock()
	}
	runtime.Gosched() // yielding logger: perturbs the schedule at the observable points
	return len(p), nil
}

func (r *recorder) check(pred func() bool) bool {
	r.mu.Lock()
	defer r.mu.Unlock()
	return pred()
}

// wait blocks until pred holds (true) or the timeout expires (false).
func (r *recorder) wait(pred func() bool, timeout time.Duration) bool {
	deadline := time.NewTimer(timeout)
	defer deadline.Stop()
	for {
		if r.check(pred) {
			return true
		}
		select {
		case <-r.notify:
		case <-time.After(2 * time.Millisecond):
		case <-deadline.C:
			if r.check(pred) {
				return true
			}
			atomic.AddInt32(&expiries, 1)
			return false
		}
	}
}

// settle waits until no event has arrived for d.
func (r *recorder) settle(d time.Duration) {
	for {
		r.mu.Lock()
		before := len(r.events)
		r.mu.Unlock()
		time.Sleep(d)
		r.mu.Lock()
		after := len(r.events)
		r.mu.Unlock()
		if before == after {
			return
		}
	}
}

// ---- one controlled run of Parallel.Execute ----

type obs struct {
	k, limit int
	panicked string   // panic class, "" if none
	problem  string   // harness-level failure: saturation / completion not reached within `patient`
	stuck    bool     // limit 0: Execute neither returned nor started anything within delta
	trace    []string // observed events in order
	slots    []string // which algorithm's result sits at each position
	sat      int      // number of workers started at the saturation checkpoint (-1: not applicable)
	early    bool     // Execute had returned while a gate was still closed
	maxrun   int      // maximum number of workers between their start and done lines
	notes    []string // direct oracle observations (sequential equality, target, result fields)
}

func parseStrategy(k int, s string) (name string, order []int) {
	f := strings.SplitN(s, ":", 2)
	name = f[0]
	switch name {
	case "perm":
		order = lib.ParseIntList(f[1])
	case "holdout":
		i := lib.Atoi(f[1])
		for j := 0; j < k; j++ {
			if j != i {
				order = append(order, j)
			}
		}
		order = append(order, i)
	case "saturate":
		for j := 0; j < k; j++ {
			order = append(order, j)
		}
	case "free", "stuck":
	default:
		panic("harness: unknown strategy " + s)
	}
	return
}

func scenario(k, limit int, strategy string) (o obs) {
	o.k, o.limit, o.sat = k, limit, -1
	name, order := parseStrategy(k, strategy)
	as := newAlgs(k)
	opened := make([]bool, k)
	open := func(j int) {
		if j >= 0 && j < k && !opened[j] {
			opened[j] = true
			close(as[j].gate)
		}
	}
	openAll := func() {
		for j := 0; j < k; j++ {
			open(j)
		}
	}
	rec := newRecorder()
	n := new(big.Int).Set(target)
	n0 := new(big.Int).Set(target)
	p := exec.NewParallel()
	p.SetConcurrency(limit)
	p.SetLogger(log.New(rec, "", 0))
	ias := make([]alg.ChainAlgorithm, k)
	for i, a := range as {
		ias[i] = a
	}
	var res []exec.Result
	var callNotes []string
	var pan interface{}
	finished := make(chan struct{})
	go func() {
		defer close(finished)
		defer func() {
			if v := recover(); v != nil {
				pan = v
			}
		}()
		out := p.Execute(n, ias)
		res = append([]exec.Result{}, out...) // what the slice holds at the moment of return
		for _, a := range as {
			if c := atomic.LoadInt32(&a.calls); c != 1 {
				if c == 0 {
					callNotes = append(callNotes, fmt.Sprintf("algorithm %d never entered FindChain when Execute returned", a.id))
				} else {
					callNotes = append(callNotes, fmt.Sprintf("FindChain of algorithm %d had been called %d times when Execute returned", a.id, c))
				}
			}
		}
		rec.add("r")
	}()
	waitFinished := func(d time.Duration) bool {
		select {
		case <-finished:
			return true
		case <-time.After(d):
			if d >= 200*time.Millisecond {
				atomic.AddInt32(&expiries, 1)
			}
			return false
		}
	}
	snapshot := func() {
		rec.mu.Lock()
		o.trace = append([]string{}, rec.events...)
		o.maxrun = rec.maxrun
		if len(rec.garbage) > 0 {
			o.notes = append(o.notes, "unexpected log line "+fmt.Sprintf("%q", rec.garbage[0]))
		}
		rec.mu.Unlock()
	}

	switch {
	case limit < 0:
		if !waitFinished(2 * time.Second) {
			o.problem = "noreturn"
		}
	case name == "stuck":
		// limit 0 with at least one algorithm: the first `sem <- token{}` can never proceed
		if !waitFinished(delta) && rec.check(func() bool { return len(rec.events) == 0 }) {
			o.stuck = true
			snapshot()
			return o // the blocked goroutine is abandoned
		}
		openAll()
		if !waitFinished(patient()) {
			o.problem = "noreturn"
		}
	case name == "free":
		openAll()
		if !waitFinished(patient()) {
			o.problem = "noreturn"
		}
	default:
		m := k
		if limit < m {
			m = limit
		}
		// bounded: when fewer algorithms start, go on and report the count reached (sat)
		rec.wait(func() bool { return rec.nstart >= m || rec.ret }, patient())
		if name == "saturate" {
			time.Sleep(delta)
		}
		o.sat = 0
		rec.check(func() bool { o.sat = rec.nstart; return true })
		for idx, j := range order {
			if name == "holdout" && idx == len(order)-1 {
				rec.settle(delta)
			}
			if rec.check(func() bool { return rec.ret }) {
				o.early = true
			}
			open(j)
			if name != "holdout" && rec.check(func() bool { return rec.started[j] }) {
				if !rec.wait(func() bool { return rec.done[j] || rec.ret }, patient()) {
					o.notes = append(o.notes, fmt.Sprintf("algorithm %d logged start but no done line after its gate was opened", j))
				}
			}
		}
		openAll()
		if !waitFinished(patient()) {
			o.problem = "noreturn"
		}
	}
	if pan != nil {
		o.panicked = "other"
		if e, ok := pan.(error); ok && strings.Contains(e.Error(), "makechan") {
			o.panicked = "makechan"
		}
		openAll()
		return o
	}
	if o.problem == "noreturn" {
		openAll()
		snapshot()
		return o
	}
	// late events (a worker still logging after Execute returned) belong to the observation
	rec.settle(time.Millisecond)
	snapshot()

	// ---- direct observations for the oracle ----
	openAll() // the sequential reference runs below must never block
	o.notes = append(o.notes, callNotes...)
	if n.Cmp(n0) != 0 {
		o.notes = append(o.notes, "the target was modified")
	}
	if len(res) != k {
		o.notes = append(o.notes, fmt.Sprintf("returned %d results for %d algorithms", len(res), k))
	}
	for i, r := range res {
		o.slots = append(o.slots, identify(r, as))
		if i >= k {
			continue
		}
		// the same algorithm executed alone (its gate is open now)
		want := exec.Execute(n, as[i])
		if r.Target != n {
			o.notes = append(o.notes, fmt.Sprintf("slot %d: Target is not the given target", i))
		}
		if r.Algorithm != alg.ChainAlgorithm(as[i]) {
			o.notes = append(o.notes, fmt.Sprintf("slot %d: Algorithm field is not algorithm %d", i, i))
		}
		if (r.Err == nil) != (want.Err == nil) || (r.Err != nil && r.Err.Error() != want.Err.Error()) {
			o.notes = append(o.notes, fmt.Sprintf("slot %d: error differs from sequential execution", i))
		}
		if chainKey(r.Chain) != chainKey(want.Chain) || (r.Chain == nil) != (want.Chain == nil) {
			o.notes = append(o.notes, fmt.Sprintf("slot %d: chain differs from sequential execution", i))
		}
		if !reflect.DeepEqual(r.Program, want.Program) {
			o.notes = append(o.notes, fmt.Sprintf("slot %d: program differs from sequential execution", i))
		}
	}
	if n.Cmp(n0) != 0 {
		o.notes = append(o.notes, "the target was modified by sequential execution")
	}
	return o
}

func (o obs) slotList() string {
	if len(o.slots) == 0 {
		return "-"
	}
	return strings.Join(o.slots, ",")
}

func (o obs) traceList() string {
	if len(o.trace) == 0 {
		return "-"
	}
	return strings.Join(o.trace, ",")
}

func (o obs) resultLine() string {
	switch {
	case o.panicked != "":
		return "panic " + o.panicked
	case o.problem != "":
		return "err " + o.problem
	case o.stuck:
		return "ok stuck"
	}
	sat := "-"
	if o.sat >= 0 {
		sat = fmt.Sprint(o.sat)
	}
	return fmt.Sprintf("ok slots=%s sat=%s early=%s over=%s", o.slotList(), sat, lib.Bool(o.early), lib.Bool(o.maxrun > o.limit))
}

// ---- independent characterisation of the legal observable behaviours ----
//
// Worker i can log start only once it has been spawned, i.e. once the caller has put i+1 tokens
// into a channel of capacity limit; tokens are taken out only by workers that have logged done.
// So at "s<i>": i < (#done so far) + limit. Execute returns only after every worker is done.
func legal(k, limit int, tr []string) bool {
	state := make([]int, k)
	nd := 0
	ret := false
	for _, t := range tr {
		if ret || t == "" {
			return false
		}
		if t == "r" {
			if nd != k {
				return false
			}
			ret = true
			continue
		}
		i := lib.Atoi(t[1:])
		if i < 0 || i >= k {
			return false
		}
		switch t[0] {
		case 's':
			if state[i] != 0 || i >= nd+limit {
				return false
			}
			state[i] = 1
		case 'd':
			if state[i] != 1 {
				return false
			}
			state[i] = 2
			nd++
		default:
			return false
		}
	}
	return ret
}

func describeProblem(p string) string {
	switch p {
	case "noreturn":
		return "Execute did not return after all gates were opened (bounded wait expired)"
	case "stuck-watchdog":
		return "the controlled run did not complete within the watchdog"
	case "stuck-panic":
		return "the controlled run panicked: " + lastPanic
	}
	return "schedule could not be driven: " + p
}

func identitySlots(k int) string {
	xs := make([]int, k)
	for i := range xs {
		xs[i] = i
	}
	return lib.IntList(xs)
}

// ---- case plumbing ----

var (
	cacheMu sync.Mutex
	cache   = map[string]obs{}
)

func field(s, key string) string {
	if !strings.HasPrefix(s, key+"=") {
		panic("harness: expected " + key + "= in " + s)
	}
	return s[len(key)+1:]
}

func splitTrace(s string) []string {
	if s == "-" {
		return nil
	}
	return strings.Split(s, ",")
}

// guarded runs one controlled run under a watchdog. A panic of the harness goroutine or an expiry
// becomes the case's result ("err stuck-panic" / "err stuck-watchdog"); the run's goroutines are
// abandoned and the harness goes on with the next case. (A pending timer also keeps the Go runtime
// from declaring "all goroutines are asleep".)
const watchdog = 45 * time.Second

var lastPanic string

func guarded(f func()) (problem string) {
	done := make(chan string, 1)
	go func() {
		defer func() {
			if v := recover(); v != nil {
				lastPanic = fmt.Sprint(v)
				done <- "stuck-panic"
			}
		}()
		f()
		done <- ""
	}()
	select {
	case p := <-done:
		return p
	case <-time.After(watchdog):
		atomic.AddInt32(&expiries, 3)
		return "stuck-watchdog"
	}
}

func observe(c string) obs {
	cacheMu.Lock()
	o, ok := cache[c]
	cacheMu.Unlock()
	if ok {
		return o
	}
	f := strings.Split(c, " ")
	k, limit := lib.Atoi(field(f[1], "k")), lib.Atoi(field(f[2], "limit"))
	o = obs{k: k, limit: limit, sat: -1}
	if w := guarded(func() { o2 := scenario(k, limit, field(f[3], "strategy")); o = o2 }); w != "" {
		o = obs{k: k, limit: limit, sat: -1, problem: w}
	}
	cacheMu.Lock()
	cache[c] = o
	cacheMu.Unlock()
	return o
}

func run(c string) string {
	f := strings.Split(c, " ")
	switch f[0] {
	case "parallel":
		return observe(c).resultLine()
	case "accepts":
		// an observed behaviour of the implementation: legal by construction
		return "ok 1"
	case "race":
		return raceRun()
	case "named":
		return observeNamed(c).resultLine()
	case "lang":
		return "ok " + lib.Bool(legal(lib.Atoi(field(f[1], "k")), lib.Atoi(field(f[2], "limit")), splitTrace(field(f[3], "trace"))))
	}
	panic("unknown case " + c)
}

func oracle(c, res string) string {
	f := strings.Split(c, " ")
	switch f[0] {
	case "parallel":
		o := observe(c)
		k, limit := o.k, o.limit
		name, _ := parseStrategy(k, field(f[3], "strategy"))
		if limit < 0 {
			if o.panicked != "makechan" {
				return "a negative limit did not panic in make(chan)"
			}
			return ""
		}
		if o.panicked != "" {
			return "Execute panicked"
		}
		if limit == 0 && k > 0 {
			if !o.stuck {
				return "limit 0 made progress: " + o.traceList()
			}
			return ""
		}
		if o.stuck {
			return "Execute is stuck"
		}
		if o.problem != "" {
			return describeProblem(o.problem) + " trace=" + o.traceList()
		}
		var bad []string
		for i, sl := range o.slots {
			if sl == "e" {
				bad = append(bad, fmt.Sprintf("position %d holds a zero-valued result", i))
			}
		}
		if o.slotList() != identitySlots(k) {
			bad = append(bad, "slot i does not hold the result of algorithm i: slots="+o.slotList())
		}
		if o.early {
			bad = append(bad, "Execute returned while an algorithm was still blocked")
		}
		if o.maxrun > limit {
			bad = append(bad, fmt.Sprintf("%d algorithms ran at once with limit %d", o.maxrun, limit))
		}
		if name != "free" {
			m := k
			if limit < m {
				m = limit
			}
			if o.sat != m {
				bad = append(bad, fmt.Sprintf("%d algorithms started with all gates closed, expected %d", o.sat, m))
			}
		}
		if !legal(k, limit, o.trace) {
			bad = append(bad, "observed trace is not a legal behaviour: "+o.traceList())
		}
		bad = append(bad, o.notes...)
		return strings.Join(bad, "; ")
	case "named":
		return oracleNamed(c)
	case "race":
		if res != "ok norace" {
			return "race detector run failed: " + raceLog
		}
	case "accepts":
		k, limit := lib.Atoi(field(f[1], "k")), lib.Atoi(field(f[2], "limit"))
		tr := splitTrace(field(f[3], "trace"))
		if !legal(k, limit, tr) {
			return "the implementation produced an illegal behaviour"
		}
		if field(f[4], "slots") != identitySlots(k) {
			return "the implementation returned results out of position"
		}
	}
	return ""
}

// ---- generation ----

func perms(k int) [][]int {
	var out [][]int
	cur := make([]int, 0, k)
	used := make([]bool, k)
	var rec func()
	rec = func() {
		if len(cur) == k {
			out = append(out, append([]int{}, cur...))
			return
		}
		for i := 0; i < k; i++ {
			if !used[i] {
				used[i] = true
				cur = append(cur, i)
				rec()
				cur = cur[:len(cur)-1]
				used[i] = false
			}
		}
	}
	rec()
	return out
}

func gen(tier string, r *lib.Rand, emit func(string)) {
	maxk, langk, nmut := 5, 3, 3
	if tier == "thorough" {
		maxk, langk, nmut = 7, 3, 6
	}
	// algorithm identity: same-named, repeated, oddly named algorithms (after seeded change C12-9)
	genNamed(tier, r, emit)
	var observed []obs
	do := func(k, limit int, strategy string) {
		if atomic.LoadInt32(&expiries) >= 8 {
			return // the implementation deadlocks; the cases already emitted report it
		}
		c := fmt.Sprintf("parallel k=%d limit=%d strategy=%s", k, limit, strategy)
		o := observe(c)
		emit(c)
		if o.panicked == "" && o.problem == "" && !o.stuck && limit >= 0 {
			emit(fmt.Sprintf("accepts k=%d limit=%d trace=%s slots=%s", k, limit, o.traceList(), o.slotList()))
			observed = append(observed, o)
		}
		cacheMu.Lock()
		delete(cache, c)
		cacheMu.Unlock()
	}
	// (c) configurations outside the property's hypothesis: negative limit, limit 0
	do(0, 0, "perm:-")
	do(0, 0, "free:0")
	do(0, 3, "saturate")
	for k := 1; k <= 3; k++ {
		do(k, -1, "saturate")
		do(k, 0, "stuck")
	}
	// (a) every completion order, (b) hold-out and saturation, for every limit in 1..k+2
	for k := 0; k <= maxk; k++ {
		for limit := 1; limit <= k+2; limit++ {
			for _, p := range perms(k) {
				do(k, limit, "perm:"+lib.IntList(p))
			}
			for i := 0; i < k; i++ {
				do(k, limit, fmt.Sprintf("holdout:%d", i))
			}
			do(k, limit, "saturate")
			for rep := 0; rep < 3; rep++ {
				do(k, limit, fmt.Sprintf("free:%d", rep))
			}
		}
	}
	// supporting: the same binary under the race detector (thorough tier, when cgo is available)
	if tier == "thorough" && raceBuild() == nil {
		emit("race ensemble")
	}
	// synthetic traces: the acceptor against the independent characterisation, negatives included
	for k := 0; k <= langk; k++ {
		var toks []string
		for i := 0; i < k; i++ {
			toks = append(toks, fmt.Sprintf("s%d", i), fmt.Sprintf("d%d", i))
		}
		toks = append(toks, "r")
		for limit := 0; limit <= k+1; limit++ {
			for _, p := range perms(len(toks)) {
				tr := make([]string, len(p))
				for i, j := range p {
					tr[i] = toks[j]
				}
				emit(fmt.Sprintf("lang k=%d limit=%d trace=%s", k, limit, strings.Join(tr, ",")))
			}
		}
	}
	// mutations of observed traces: drop, duplicate, swap, foreign index, other limit
	for _, o := range observed {
		if len(o.trace) == 0 {
			continue
		}
		for m := 0; m < nmut; m++ {
			tr := append([]string{}, o.trace...)
			limit := o.limit
			switch r.Intn(5) {
			case 0:
				i := r.Intn(len(tr))
				tr = append(tr[:i], tr[i+1:]...)
			case 1:
				i := r.Intn(len(tr))
				tr = append(tr[:i+1], tr[i:]...)
			case 2:
				i, j := r.Intn(len(tr)), r.Intn(len(tr))
				tr[i], tr[j] = tr[j], tr[i]
			case 3:
				tr[r.Intn(len(tr))] = fmt.Sprintf("%c%d", "sd"[r.Intn(2)], r.Intn(o.k+2))
			case 4:
				limit = r.Intn(o.k + 3)
			}
			t := "-"
			if len(tr) > 0 {
				t = strings.Join(tr, ",")
			}
			emit(fmt.Sprintf("lang k=%d limit=%d trace=%s", o.k, limit, t))
		}
	}
}

// ---- race detector (supporting evidence) ----

var (
	raceLog  string
	raceExe  string
	raceOnce sync.Once
	raceErr  error
)

// raceBuild rebuilds this command with -race (needs cgo; bin/check builds the normal harness
// with CGO_ENABLED=0). A failure means "not available here", never a verdict.
func raceBuild() error {
	raceOnce.Do(func() {
		root := os.Getenv("VERIF_ROOT")
		if root == "" {
			raceErr = fmt.Errorf("VERIF_ROOT not set")
			return
		}
		dir := os.Getenv("VERIF_BUILD")
		args := []string{"build", "-race", "-tags", "verif"}
		if dir != "" {
			args = append(args, "-modfile="+filepath.Join(dir, "go.mod"))
		} else {
			dir = os.TempDir()
		}
		raceExe = filepath.Join(dir, "harness-race")
		args = append(args, "-o", raceExe, "./cmd/c12")
		cmd := osexec.Command("go", args...)
		cmd.Dir = filepath.Join(root, "harness")
		cmd.Env = append(os.Environ(), "CGO_ENABLED=1")
		out, err := cmd.CombinedOutput()
		if err != nil {
			raceErr = fmt.Errorf("go build -race failed: %v: %s", err, out)
		}
	})
	return raceErr
}

func raceRun() string {
	if err := raceBuild(); err != nil {
		raceLog = err.Error()
		return "err unavailable"
	}
	cmd := osexec.Command(raceExe, "racecheck")
	cmd.Env = append(os.Environ(), "GORACE=halt_on_error=1 exitcode=66")
	out, err := cmd.CombinedOutput()
	tail := string(out)
	if len(tail) > 1500 {
		tail = tail[len(tail)-1500:]
	}
	raceLog = tail
	if err == nil {
		return "ok norace"
	}
	if ee, ok := err.(*osexec.ExitError); ok && ee.ExitCode() == 66 {
		return "err race"
	}
	return "err racecheck"
}

// racecheck is what the -race build executes: real ensemble runs compared with sequential
// execution, and a set of controlled schedules. Exit 66 = data race (GORACE), 1 = wrong result.
func racecheck() {
	targets := []*big.Int{
		big.NewInt(1000000007),
		new(big.Int).Sub(new(big.Int).Lsh(big.NewInt(1), 127), big.NewInt(1)),
		new(big.Int).Sub(new(big.Int).Lsh(big.NewInt(1), 255), big.NewInt(19)),
	}
	as := ensemble.Ensemble()
	fail := false
	for gi, procs := range []int{1, 4, runtime.NumCPU()} {
		runtime.GOMAXPROCS(procs)
		for ti, n := range targets {
			if ti == 2 && gi == 0 {
				continue // the 255-bit target is slow under the race detector
			}
			n0 := new(big.Int).Set(n)
			seq := make([]exec.Result, len(as))
			for i, a := range as {
				seq[i] = exec.Execute(n, a)
			}
			for _, limit := range []int{1, 3, len(as) + 2} {
				if ti == 2 && limit == 1 {
					continue
				}
				p := exec.NewParallel()
				p.SetConcurrency(limit)
				rs := p.Execute(n, as)
				for i := range as {
					if len(rs) != len(as) || rs[i].Algorithm != as[i] || rs[i].Target != n ||
						chainKey(rs[i].Chain) != chainKey(seq[i].Chain) || !reflect.DeepEqual(rs[i].Program, seq[i].Program) ||
						(rs[i].Err == nil) != (seq[i].Err == nil) {
						fmt.Printf("ensemble target %x limit %d GOMAXPROCS %d: slot %d differs from sequential execution\n", n, limit, procs, i)
						fail = true
					}
				}
			}
			if n.Cmp(n0) != 0 {
				fmt.Printf("ensemble modified the target %x\n", n0)
				fail = true
			}
		}
		for k := 1; k <= 4; k++ {
			for limit := 1; limit <= k+1; limit++ {
				for _, pm := range perms(k) {
					o := scenario(k, limit, "perm:"+lib.IntList(pm))
					if o.resultLine() != fmt.Sprintf("ok slots=%s sat=%d early=0 over=0", identitySlots(k), min(k, limit)) || len(o.notes) > 0 {
						fmt.Printf("controlled run k=%d limit=%d perm=%v: %s %v\n", k, limit, pm, o.resultLine(), o.notes)
						fail = true
					}
				}
			}
		}
	}
	if fail {
		os.Exit(1)
	}
	fmt.Println("racecheck: no race, all results equal to sequential execution")
}

func min(a, b int) int {
	if a < b {
		return a
	}
	return b
}

func main() {
	if len(os.Args) > 1 && os.Args[1] == "racecheck" {
		racecheck()
		return
	}
	lib.Main(lib.Prop{
		ID:     "C12",
		Gen:    gen,
		Run:    run,
		Oracle: oracle,
		Nontrivial: func(c, res string) bool {
			f := strings.Split(c, " ")
			switch f[0] {
			case "parallel":
				return lib.Atoi(field(f[1], "k")) >= 2 && strings.HasPrefix(res, "ok slots=")
			case "accepts":
				return lib.Atoi(field(f[1], "k")) >= 2
			case "lang":
				return res == "ok 1"
			case "race":
				return res == "ok norace"
			case "named":
				return strings.HasPrefix(res, "ok slots=")
			}
			return false
		},
	})
}
