// C12, algorithm identity: lists in which distinct algorithm values share a String(), the same
// value is listed twice, names are empty or equal up to case/whitespace, or collide with the names
// of the real ensemble.  (Strengthened after seeded change C12-9.)
//
//	named k=<n> limit=<n> strategy=<perm:..|holdout:i|saturate|free:<rep>> algs=<name.value,..>
//	    -> ok slots=<values> sat=<n|-> early=<0|1> over=<0|1> calls=<value>x<count>,..
//
// Position i holds algorithm value <value> (equal numbers = the very same instance) whose String()
// is entry <name> of nameOf.  Events are recorded by the stubs themselves (FindChain entered /
// left), not by the logger, because log lines of same-named algorithms cannot be told apart.
package main

import (
	"fmt"
	"io"
	"log"
	"math/big"
	"reflect"
	"runtime"
	"strings"
	"sync/atomic"
	"time"

	"github.com/mmcloughlin/addchain"
	"github.com/mmcloughlin/addchain/alg"
	"github.com/mmcloughlin/addchain/alg/ensemble"
	"github.com/mmcloughlin/addchain/alg/exec"
	"verif/harness/lib"
)

var realAlgs = ensemble.Ensemble()

// nameOf: the String() values used by the stubs.
func nameOf(id int) string {
	switch {
	case id < 10:
		return fmt.Sprintf("alg%d", id)
	case id == 10:
		return ""
	case id == 11:
		return "Alg0"
	case id == 12:
		return "alg0 "
	case id == 13:
		return " alg0"
	case id == 14:
		return "ALG0"
	case id == 15:
		return "alg0\t"
	case id == 16:
		return realAlgs[0].String()
	case id == 17:
		return "opt(runs(continued_fractions(dichotomic)))"
	case id == 18:
		return realAlgs[len(realAlgs)-1].String()
	}
	return fmt.Sprintf("name%d", id)
}

const maxName = 18

type namedAlg struct {
	v     int
	name  string
	gate  chan struct{}
	chain addchain.Chain // expected chain (nil when it fails)
	err   error
	real  alg.ChainAlgorithm // value 6 (mod 7): delegate to a real ensemble algorithm
	calls int32
	rec   *recorder
}

func (a *namedAlg) String() string { return a.name }

func (a *namedAlg) FindChain(n *big.Int) (addchain.Chain, error) {
	atomic.AddInt32(&a.calls, 1)
	a.rec.add(fmt.Sprintf("s%d", a.v))
	<-a.gate
	runtime.Gosched()
	defer a.rec.add(fmt.Sprintf("d%d", a.v))
	switch {
	case a.err != nil:
		return nil, a.err
	case a.real != nil:
		return a.real.FindChain(n)
	}
	return a.chain.Clone(), nil
}

func newNamed(v int, name string, rec *recorder) *namedAlg {
	a := &namedAlg{v: v, name: name, gate: make(chan struct{}), rec: rec}
	switch {
	case v%4 == 3:
		a.err = fmt.Errorf("fail%d", v)
	case v%5 == 4:
		a.chain = chainFor(v, new(big.Int).Add(target, big.NewInt(1)))
	case v%7 == 6:
		a.real = realAlgs[(v*37)%len(realAlgs)]
		a.chain, a.err = a.real.FindChain(new(big.Int).Set(target))
		a.err = nil
	default:
		a.chain = chainFor(v, target)
	}
	return a
}

type yieldSink struct{}

func (yieldSink) Write(p []byte) (int, error) { runtime.Gosched(); return len(p), nil }

type nobs struct {
	k, limit int
	vals     []int
	problem  string
	slots    []string
	sat      int
	early    bool
	maxrun   int
	calls    map[int]int // FindChain calls per value at the moment Execute returned
	vname    map[int]string
	notes    []string
}

func parseAlgs(s string) (names, vals []int) {
	if s == "-" {
		return
	}
	for _, f := range strings.Split(s, ",") {
		p := strings.SplitN(f, ".", 2)
		names = append(names, lib.Atoi(p[0]))
		vals = append(vals, lib.Atoi(p[1]))
	}
	return
}

func firstSeen(vals []int) []int {
	var out []int
	seen := map[int]bool{}
	for _, v := range vals {
		if !seen[v] {
			seen[v] = true
			out = append(out, v)
		}
	}
	return out
}

func scenarioNamed(k, limit int, strategy, algs string) (o nobs) {
	names, vals := parseAlgs(algs)
	if len(vals) != k {
		panic("harness: algs length != k")
	}
	o.k, o.limit, o.vals, o.sat = k, limit, vals, -1
	o.vname = map[int]string{}
	sname, order := parseStrategy(k, strategy)
	rec := newRecorder()
	inst := map[int]*namedAlg{}
	ias := make([]alg.ChainAlgorithm, k)
	for i, v := range vals {
		if inst[v] == nil {
			inst[v] = newNamed(v, nameOf(names[i]), rec) // a value keeps the name of its first listing
			o.vname[v] = nameOf(names[i])
		}
		ias[i] = inst[v]
	}
	opened := map[int]bool{}
	open := func(pos int) {
		if pos >= 0 && pos < k && !opened[vals[pos]] {
			opened[vals[pos]] = true
			close(inst[vals[pos]].gate)
		}
	}
	openAll := func() {
		for j := 0; j < k; j++ {
			open(j)
		}
	}
	n := new(big.Int).Set(target)
	n0 := new(big.Int).Set(target)
	p := exec.NewParallel()
	p.SetConcurrency(limit)
	p.SetLogger(log.New(io.Writer(yieldSink{}), "", 0))
	var res []exec.Result
	calls := map[int]int{}
	finished := make(chan struct{})
	go func() {
		defer close(finished)
		out := p.Execute(n, ias)
		res = append([]exec.Result{}, out...)
		for v, a := range inst {
			calls[v] = int(atomic.LoadInt32(&a.calls))
		}
		rec.add("r")
	}()
	waitFinished := func(d time.Duration) bool {
		select {
		case <-finished:
			return true
		case <-time.After(d):
			if d >= 200*time.Millisecond {
				atomic.AddInt32(&expiries, 1)
			}
			return false
		}
	}
	if sname == "free" {
		openAll()
	} else {
		m := min(k, limit)
		// a correct implementation gets here within microseconds; when it does not, go on and
		// report the count that was reached (sat) instead of giving up
		ceiling := 2 * time.Second
		if patient() < ceiling {
			ceiling = patient()
		}
		rec.wait(func() bool { return rec.nstart >= m || rec.ret }, ceiling)
		if sname == "saturate" {
			time.Sleep(delta)
		}
		o.sat = 0
		rec.check(func() bool { o.sat = rec.nstart; return true })
		for idx, j := range order {
			if j < 0 || j >= k || opened[vals[j]] {
				continue
			}
			if sname == "holdout" && idx == len(order)-1 {
				rec.settle(delta)
			}
			if rec.check(func() bool { return rec.ret }) {
				o.early = true
			}
			open(j)
			runtime.Gosched()
		}
		openAll()
	}
	if !waitFinished(patient()) {
		o.problem = "noreturn"
		openAll()
		return o
	}
	o.calls = calls
	rec.settle(time.Millisecond)
	rec.check(func() bool { o.maxrun = rec.maxrun; return true })
	// ---- direct observations ----
	openAll() // the sequential reference runs below must never block
	if n.Cmp(n0) != 0 {
		o.notes = append(o.notes, "the target was modified")
	}
	if len(res) != k {
		o.notes = append(o.notes, fmt.Sprintf("returned %d results for %d algorithms", len(res), k))
	}
	for i, r := range res {
		id := "x"
		if r.Algorithm == nil && r.Target == nil && r.Err == nil && r.Chain == nil {
			id = "e"
		} else {
			for _, v := range firstSeen(vals) {
				a := inst[v]
				if a.err != nil {
					if r.Err != nil && r.Err.Error() == a.err.Error() {
						id = fmt.Sprint(v)
						break
					}
				} else if r.Chain != nil && chainKey(r.Chain) == chainKey(a.chain) {
					id = fmt.Sprint(v)
					break
				}
			}
		}
		o.slots = append(o.slots, id)
		if i >= k {
			continue
		}
		want := exec.Execute(n, ias[i]) // the i-th algorithm alone (gates are open now)
		if r.Target != n {
			o.notes = append(o.notes, fmt.Sprintf("slot %d: Target is not the given target", i))
		}
		if r.Algorithm != ias[i] {
			o.notes = append(o.notes, fmt.Sprintf("slot %d: Algorithm field is not the %d-th algorithm of the list", i, i))
		}
		if (r.Err == nil) != (want.Err == nil) || (r.Err != nil && r.Err.Error() != want.Err.Error()) {
			o.notes = append(o.notes, fmt.Sprintf("slot %d: error differs from executing algorithm %d alone", i, i))
		}
		if chainKey(r.Chain) != chainKey(want.Chain) || (r.Chain == nil) != (want.Chain == nil) {
			o.notes = append(o.notes, fmt.Sprintf("slot %d: chain differs from executing algorithm %d alone", i, i))
		}
		if !reflect.DeepEqual(r.Program, want.Program) {
			o.notes = append(o.notes, fmt.Sprintf("slot %d: program differs from executing algorithm %d alone", i, i))
		}
	}
	return o
}

func (o nobs) callList() string {
	fs := firstSeen(o.vals)
	if len(fs) == 0 {
		return "-"
	}
	ss := make([]string, len(fs))
	for i, v := range fs {
		ss[i] = fmt.Sprintf("%dx%d", v, o.calls[v])
	}
	return strings.Join(ss, ",")
}

func (o nobs) resultLine() string {
	if o.problem != "" {
		return "err " + o.problem
	}
	sl := "-"
	if len(o.slots) > 0 {
		sl = strings.Join(o.slots, ",")
	}
	sat := "-"
	if o.sat >= 0 {
		sat = fmt.Sprint(o.sat)
	}
	return fmt.Sprintf("ok slots=%s sat=%s early=%s over=%s calls=%s", sl, sat, lib.Bool(o.early), lib.Bool(o.maxrun > o.limit), o.callList())
}

var ncache = map[string]nobs{}

func observeNamed(c string) nobs {
	cacheMu.Lock()
	o, ok := ncache[c]
	cacheMu.Unlock()
	if ok {
		return o
	}
	f := strings.Split(c, " ")
	k, limit := lib.Atoi(field(f[1], "k")), lib.Atoi(field(f[2], "limit"))
	if w := guarded(func() { o2 := scenarioNamed(k, limit, field(f[3], "strategy"), field(f[4], "algs")); o = o2 }); w != "" {
		_, vals := parseAlgs(field(f[4], "algs"))
		o = nobs{k: k, limit: limit, vals: vals, sat: -1, problem: w}
	}
	cacheMu.Lock()
	ncache[c] = o
	if len(ncache) > 64 {
		for key := range ncache {
			if key != c {
				delete(ncache, key)
			}
		}
	}
	cacheMu.Unlock()
	return o
}

// oracleNamed states the property directly for one run.
func oracleNamed(c string) string {
	o := observeNamed(c)
	if o.problem != "" {
		return describeProblem(o.problem)
	}
	f := strings.Split(c, " ")
	sname, _ := parseStrategy(o.k, field(f[3], "strategy"))
	var bad []string
	want := make([]string, o.k)
	occ := map[int]int{}
	for i, v := range o.vals {
		want[i] = fmt.Sprint(v)
		occ[v]++
	}
	got := strings.Join(o.slots, ",")
	if got != strings.Join(want, ",") {
		bad = append(bad, fmt.Sprintf("position i does not hold the result of the i-th algorithm: slots=%s, algorithm values=%s", got, strings.Join(want, ",")))
	}
	for i, sl := range o.slots {
		if sl == "e" {
			bad = append(bad, fmt.Sprintf("position %d holds a zero-valued result", i))
		}
	}
	for _, v := range firstSeen(o.vals) {
		if o.calls[v] == 0 {
			bad = append(bad, fmt.Sprintf("algorithm value %d (%q) never entered FindChain when Execute returned", v, o.vname[v]))
		} else if o.calls[v] != occ[v] {
			bad = append(bad, fmt.Sprintf("algorithm value %d (%q) is listed %d time(s) but FindChain had been called %d time(s) when Execute returned", v, o.vname[v], occ[v], o.calls[v]))
		}
	}
	if o.early {
		bad = append(bad, "Execute returned while a listed algorithm was still blocked or not yet run")
	}
	if o.maxrun > o.limit {
		bad = append(bad, fmt.Sprintf("%d algorithms ran at once with limit %d", o.maxrun, o.limit))
	}
	if sname != "free" && o.sat != min(o.k, o.limit) {
		bad = append(bad, fmt.Sprintf("%d algorithms entered FindChain with all gates closed, expected %d", o.sat, min(o.k, o.limit)))
	}
	bad = append(bad, o.notes...)
	return strings.Join(bad, "; ")
}

// genNamed emits the algorithm-identity stream.
func genNamed(tier string, r *lib.Rand, emit func(string)) {
	specs := []string{
		"0.0,1.1",          // baseline: distinct names
		"0.0,0.1",          // two distinct algorithms, same name
		"0.1,0.0",          //
		"0.0,0.0",          // the same instance twice
		"0.0,1.1,0.2",      // collision at distance 2
		"0.0,0.1,0.2",      // all the same name
		"0.0,1.1,0.0",      // instance repeated around another one
		"0.0,0.1,0.0",      // instance repeated + distinct same-named one
		"0.3,0.0",          // a failing algorithm shares its name with a succeeding one
		"0.0,0.3",          //
		"0.4,0.0,0.1",      // wrong-chain algorithm first
		"10.0,10.1",        // empty names
		"10.0,1.1,10.2",    //
		"0.0,11.1,12.2,13.5", // equal up to case / whitespace only: all must run
		"14.0,0.1,15.2",    //
		"16.6,16.1",        // a real ensemble algorithm and a stub carrying its name
		"17.0,17.13,1.2",   // stubs named like the best ensemble algorithm; value 13 is a real one
		"18.1,2.2,18.6,18.1", //
		"0.0,0.1,0.2,0.3,0.4", //
		// failing algorithms (values 3, 7, 11, 15) at every position, unique names
		"0.3,1.0",            // first of two
		"0.0,1.3",            // last of two
		"0.3,1.0,2.1",        // first
		"0.0,1.3,2.1",        // middle
		"0.0,1.1,2.3",        // last
		"0.3,1.7,2.0",        // two in a row, then a good one
		"0.0,1.3,2.7,3.1",    // two in a row in the middle
		"0.3,1.7,2.11,3.0,4.1", // three in a row >= limit 1, 2
		"0.3,1.0,2.7,3.1,4.11", // alternating
		"0.3,1.7,2.11",       // all failing
		"0.4,1.3,2.0",        // wrong chain, failing, good
	}
	nrand := 12
	if tier == "thorough" {
		nrand = 150
	}
	for i := 0; i < nrand; i++ {
		k := r.Range(2, 5)
		if tier == "thorough" {
			k = r.Range(2, 7)
		}
		np := r.Range(1, 3) // few names: collisions are likely
		pool := make([]int, np)
		for j := range pool {
			pool[j] = r.Intn(maxName + 1)
		}
		nameOfVal := map[int]int{}
		fs := make([]string, k)
		for j := range fs {
			v := r.Intn(k + 1)
			if r.Chance(1, 6) {
				v = []int{3, 4, 6, 13}[r.Intn(4)]
			}
			if _, ok := nameOfVal[v]; !ok {
				nameOfVal[v] = pool[r.Intn(np)]
			}
			fs[j] = fmt.Sprintf("%d.%d", nameOfVal[v], v)
		}
		specs = append(specs, strings.Join(fs, ","))
	}
	do := func(k, limit int, strategy, spec string) {
		if atomic.LoadInt32(&expiries) >= 8 {
			return
		}
		emit(fmt.Sprintf("named k=%d limit=%d strategy=%s algs=%s", k, limit, strategy, spec))
	}
	for _, spec := range specs {
		_, vals := parseAlgs(spec)
		k := len(vals)
		for _, limit := range uniqInts(1, 2, k, k+1) {
			do(k, limit, "free:0", spec)
			if limit <= 2 {
				do(k, limit, "saturate", spec)
			}
			ps := perms(k)
			for rep := 0; rep < 2; rep++ {
				do(k, limit, "perm:"+lib.IntList(ps[r.Intn(len(ps))]), spec)
			}
			if limit == k+1 || tier == "thorough" {
				for i := 0; i < k; i++ {
					do(k, limit, fmt.Sprintf("holdout:%d", i), spec)
				}
			}
		}
	}
}

func uniqInts(xs ...int) []int {
	var out []int
	seen := map[int]bool{}
	for _, x := range xs {
		if !seen[x] {
			seen[x] = true
			out = append(out, x)
		}
	}
	return out
}
