// C10: chain optimisation only removes elements and keeps the chain valid.
package main

import (
	"fmt"
	"math/big"
	"sort"
	"strings"

	"github.com/mmcloughlin/addchain"
	"github.com/mmcloughlin/addchain/alg/ensemble"
	"github.com/mmcloughlin/addchain/alg/opt"
	"verif/harness/lib"
)

// ---- own definition of "addition chain" (the judge; does not call the repo's validators) ----

// isChain: first element 1, no zero, no duplicate, every later element is the sum of two
// (possibly equal) earlier elements, in any element order.
func isChain(c []*big.Int) bool {
	if len(c) == 0 || c[0].Cmp(big.NewInt(1)) != 0 {
		return false
	}
	seen := map[string]bool{}
	s := new(big.Int)
	for k, x := range c {
		if x.Sign() == 0 || seen[x.String()] {
			return false
		}
		seen[x.String()] = true
		if k == 0 {
			continue
		}
		found := false
		for i := 0; i < k && !found; i++ {
			for j := i; j < k; j++ {
				if s.Add(c[i], c[j]).Cmp(x) == 0 {
					found = true
					break
				}
			}
		}
		if !found {
			return false
		}
	}
	return true
}

// isSubsequence: a can be obtained from b by deleting elements.
func isSubsequence(a, b []*big.Int) bool {
	i := 0
	for _, y := range b {
		if i < len(a) && a[i].Cmp(y) == 0 {
			i++
		}
	}
	return i == len(a)
}

// ---- generators ----

// every valid chain in every element order with at most maxlen elements; when budget > 0 the
// deepest level is subsampled (each extension kept with probability num/den)
func allChains(maxlen int, sampleFrom int, num, den int, r *lib.Rand, f func([]int64)) {
	var rec func(c []int64)
	rec = func(c []int64) {
		f(c)
		if len(c) == maxlen {
			return
		}
		in := map[int64]bool{}
		for _, x := range c {
			in[x] = true
		}
		next := map[int64]bool{}
		for i := range c {
			for j := i; j < len(c); j++ {
				if v := c[i] + c[j]; !in[v] {
					next[v] = true
				}
			}
		}
		vs := []int64{}
		for v := range next {
			vs = append(vs, v)
		}
		sort.Slice(vs, func(a, b int) bool { return vs[a] < vs[b] })
		for _, v := range vs {
			if len(c) >= sampleFrom && !r.Chance(num, den) {
				continue
			}
			rec(append(append([]int64{}, c...), v))
		}
	}
	rec([]int64{1})
}

func ints(c []int64) []*big.Int {
	xs := make([]*big.Int, len(c))
	for i, v := range c {
		xs[i] = big.NewInt(v)
	}
	return xs
}

// a random ascending chain for n, as a set: halve, decrement or split at random
func randomChainSet(n *big.Int, r *lib.Rand, set map[string]*big.Int) {
	one := big.NewInt(1)
	if n.Cmp(one) <= 0 {
		set["1"] = one
		return
	}
	set[n.String()] = new(big.Int).Set(n)
	switch {
	case n.Bit(0) == 0 && r.Chance(3, 4):
		randomChainSet(new(big.Int).Rsh(n, 1), r, set)
	case r.Chance(2, 3):
		randomChainSet(new(big.Int).Sub(n, one), r, set)
	default:
		// n = a + b with a small: both a and b are built
		a := big.NewInt(int64(r.Range(1, 9)))
		if a.Cmp(n) >= 0 {
			a = big.NewInt(1)
		}
		b := new(big.Int).Sub(n, a)
		randomChainSet(a, r, set)
		randomChainSet(b, r, set)
	}
}

func sortedSet(set map[string]*big.Int) []*big.Int {
	xs := []*big.Int{}
	for _, x := range set {
		xs = append(xs, x)
	}
	sort.Slice(xs, func(a, b int) bool { return xs[a].Cmp(xs[b]) < 0 })
	return xs
}

// a random valid re-ordering of an ascending valid chain: repeatedly place a random element that
// is the sum of two already placed ones (readiness is maintained incrementally)
func randomOrder(c []*big.Int, r *lib.Rand) []*big.Int {
	placed := []*big.Int{}
	isPlaced := map[string]bool{}
	ready := []*big.Int{c[0]}
	isReady := map[string]bool{c[0].String(): true}
	d := new(big.Int)
	for len(ready) > 0 {
		pick := r.Intn(len(ready))
		if r.Chance(1, 2) { // bias towards keeping ascending runs: the smallest ready element
			pick = 0
			for i := range ready {
				if ready[i].Cmp(ready[pick]) < 0 {
					pick = i
				}
			}
		}
		p := ready[pick]
		ready = append(ready[:pick], ready[pick+1:]...)
		placed = append(placed, p)
		isPlaced[p.String()] = true
		for _, x := range c {
			if isReady[x.String()] {
				continue
			}
			// x = p + q with q placed (q = p allowed)
			if d.Sub(x, p); isPlaced[d.String()] {
				isReady[x.String()] = true
				ready = append(ready, x)
			}
		}
	}
	for _, x := range c { // cannot happen for a valid chain: keep whatever is left at the end
		if !isPlaced[x.String()] {
			placed = append(placed, x)
		}
	}
	return placed
}

func gen(tier string, r *lib.Rand, emit func(string)) {
	maxlen, sampleFrom, num, den := 7, 99, 1, 1
	nred, nalg, algstep, bits := 250, 3, 37, []int{16, 32, 64}
	redbits, maxunsorted := []int{6, 10, 16, 24, 24, 32, 40}, 110
	if tier == "thorough" {
		maxlen, sampleFrom, num, den = 9, 8, 1, 12
		nred, nalg, algstep, bits = 4000, 10, 7, []int{16, 32, 64, 128, 256}
		redbits, maxunsorted = []int{6, 10, 16, 24, 40, 64, 96}, 200
	}
	e := func(c []*big.Int) { emit("optimize " + lib.HexList(c)) }

	// (c) malformed / edge: Optimize does not validate; the behaviour class is compared with the model
	e(nil)
	for _, c := range [][]int64{{1}, {7}, {0}, {-1}, {1, 2}, {1, 3}, {2, 1}, {1, 1}, {1, 2, 2}, {1, 2, 0, 3}, {1, 2, 4, 4, 8},
		{1, 2, 3, 7}, {1, 2, -1, 1, 3}, {3, 1, 2, 4}, {1, 2, 4, 3, 0, 7}, {1, 5, 6, 11}, {2, 4, 6, 8, 10}, {1, 2, 3, 5, 3, 8}} {
		e(ints(c))
	}

	// (a) every valid chain in every element order; plus, for a sample, the same with the 1 moved
	var pool [][]*big.Int // chains for the storage-shape and history streams
	allChains(maxlen, sampleFrom, num, den, r, func(c []int64) {
		e(ints(c))
		if len(c) >= 2 && (len(c) <= 6 || r.Chance(1, 12)) {
			pool = append(pool, ints(c))
		}
		if len(c) >= 3 && r.Chance(1, 40) {
			d := append([]int64{}, c...)
			p := r.Range(1, len(d)-1)
			d[0], d[p] = d[p], d[0]
			e(ints(d))
		}
	})

	// (b) redundant chains: unions of 2-4 random chains for one target, ascending and re-ordered
	for i := 0; i < nred; i++ {
		nb := redbits[r.Intn(len(redbits))]
		n := r.BitsExact(nb)
		set := map[string]*big.Int{}
		for k := r.Range(2, 4); k > 0; k-- {
			randomChainSet(n, r, set)
		}
		c := sortedSet(set)
		e(c)
		if len(c) <= 60 && r.Chance(1, 3) {
			pool = append(pool, c)
		}
		if len(c) <= maxunsorted { // the quadratic path of Ops costs the model O(k^3) per position
			e(randomOrder(c, r))
		}
		// a broken variant: one element perturbed (invalid chain class)
		if r.Chance(1, 6) && len(c) > 3 {
			d := lib.CloneInts(c)
			p := r.Range(1, len(d)-1)
			d[p].Add(d[p], big.NewInt(int64(r.Range(1, 3))))
			e(d)
		}
	}

	// (d) long chains in which one element is re-used by hundreds of later positions (usage counts
	// far beyond any small machine word): a short chain prefix followed by an arithmetic progression
	// with one of its elements as the stride. Lengths straddle 2^8 and (thorough) go past 2^10.
	steps := []int{250, 254, 255, 256, 257, 300, 515}
	if tier == "thorough" {
		steps = append(steps, 700, 1030, 2050)
	}
	for _, pre := range [][]int64{{1, 2, 3}, {1, 2, 3, 5}, {1, 2}, {1, 2, 4, 5}, {1, 2, 3, 6, 7}} {
		for _, si := range []int{len(pre) - 1, len(pre) - 2} {
			for _, n := range steps {
				c := ints(pre)
				stride := c[si]
				for k := 0; k < n; k++ {
					c = append(c, new(big.Int).Add(c[len(c)-1], stride))
				}
				e(c)
			}
		}
	}

	// (e) storage shapes: the same chains held with spare capacity, as a prefix of a longer slice,
	// and made of integers shared with a second chain; (f) call histories in one process: the same
	// input object twice, equal chains, a related chain in between, an invalid chain first
	if tier != "thorough" && len(pool) > 700 {
		pool = pool[:700]
	}
	for i, c := range pool {
		m.emitShapes(c, r, emit)
		other := pool[r.Intn(len(pool))]
		if r.Chance(1, 2) && len(c) <= 110 {
			other = randomOrder(c, r)
		}
		bad := lib.CloneInts(c)
		p := r.Range(0, len(bad)-1)
		bad[p].Add(bad[p], big.NewInt(int64(r.Range(1, 3))))
		if i%3 == 0 {
			bad = []*big.Int{}
		}
		m.emitHistories(c, other, bad, r, emit)
	}

	// (b') chains emitted by the search algorithms, taken before the optimisation wrapper
	as := ensemble.Ensemble()
	for _, nb := range bits {
		for t := 0; t < nalg; t++ {
			n := r.BitsExact(nb)
			for i := r.Intn(algstep); i < len(as); i += algstep {
				inner := as[i].(opt.Algorithm).Algorithm
				c, err := inner.FindChain(n)
				if err != nil {
					continue
				}
				e(c)
			}
		}
	}
}

func judge(in, out []*big.Int, err error) string {
	if err != nil {
		return "Optimize returned an error: " + err.Error()
	}
	// for every input (valid or not): only removals, never of the first or the last element
	if !isSubsequence(out, in) {
		return "result is not a subsequence of the input"
	}
	if len(out) > len(in) {
		return "result longer than input"
	}
	if len(in) > 0 {
		if len(out) == 0 || out[0].Cmp(in[0]) != 0 {
			return "first element not kept"
		}
		if out[len(out)-1].Cmp(in[len(in)-1]) != 0 {
			return "last element not kept"
		}
	}
	if !isChain(in) {
		return ""
	}
	if !isChain(out) {
		return "input is a valid chain, result is not"
	}
	if out[0].Cmp(big.NewInt(1)) != 0 {
		return "first element is not 1"
	}
	return ""
}

var m = impl{
	plainFn: "optimize", shapeFn: "optshape", histFn: "opthist",
	call: func(in addchain.Chain) (addchain.Chain, error) { return opt.Optimize(in) },
	line: func(out []*big.Int, err error) string {
		if err != nil {
			return "err other"
		}
		return "ok " + lib.HexList(out)
	},
	judge:       judge,
	sharesElems: true, // Optimize returns the input's own *big.Int objects for the elements it keeps
}

func nontrivial(c, res string) bool {
	in := m.subject(c)
	return len(in) >= 3 && isChain(in) && strings.HasPrefix(res, "ok ")
}

func main() {
	lib.Main(lib.Prop{ID: "C10", Gen: gen, Run: m.run, Oracle: m.oracle, Nontrivial: nontrivial, Neighbours: m.neighbours,
		PanicClass: func(v interface{}) string {
			if strings.Contains(fmt.Sprint(v), "index out of range") {
				return "index"
			}
			return "other"
		}})
}
