// Storage shapes and call histories for a function Chain -> (Chain, error). The same file serves
// C10 (opt.Optimize) and C11 (dict.RunsChain); only the impl value differs.
//
//	<shapeFn> <shape> <seq>    one call with the input held in a particular storage shape:
//	                           exact | spare | shared | prefix:K (the input is seq[:K] of the longer slice)
//	<histFn> <tok;tok;...>     several calls in one process; tok = seq, or "=" (the same input OBJECT again)
//
// The model treats every call as independent; the harness checks that the implementation does too.
package main

import (
	"fmt"
	"math/big"
	"strconv"
	"strings"

	"github.com/mmcloughlin/addchain"
	"verif/harness/lib"
)

type impl struct {
	plainFn, shapeFn, histFn string
	call                     func(in addchain.Chain) (addchain.Chain, error)
	line                     func(out []*big.Int, err error) string
	// judge states the property for one call on value snapshots; "" when it holds
	judge func(in, out []*big.Int, err error) string
	// the result may contain the very element objects of the input (Optimize appends c[i] itself)
	sharesElems bool
}

func sentinel(i int) *big.Int { return big.NewInt(-1000003 - int64(i)) }

// intact: the slice still holds the same objects with the same values
func intact(what string, s []*big.Int, ptrs []*big.Int, vals []*big.Int) string {
	if len(s) != len(ptrs) {
		return what + ": length changed"
	}
	for i := range s {
		if s[i] != ptrs[i] {
			return fmt.Sprintf("%s: slot %d now holds another object", what, i)
		}
		if s[i].Cmp(vals[i]) != 0 {
			return fmt.Sprintf("%s: integer at %d changed from %v to %v", what, i, vals[i], s[i])
		}
	}
	return ""
}

// shapeCall performs one call with the input in the given storage shape; returns the result line
// and what is wrong with the storage afterwards ("" if nothing).
func (m impl) shapeCall(shape string, vals []*big.Int) (string, string) {
	n := len(vals)
	var full []*big.Int // the whole backing array as the caller sees it
	var in addchain.Chain
	var twin []*big.Int
	switch {
	case shape == "exact":
		full = make([]*big.Int, n)
		copy(full, lib.CloneInts(vals))
		in = full[:n:n]
	case shape == "spare":
		full = make([]*big.Int, n+4)
		copy(full, lib.CloneInts(vals))
		for i := n; i < n+4; i++ {
			full[i] = sentinel(i)
		}
		in = full[:n] // cap = n+4
	case shape == "shared":
		full = lib.CloneInts(vals)
		in = full[:n:n]
		twin = append([]*big.Int{}, full...) // a second chain made of the same integer objects
	case strings.HasPrefix(shape, "prefix:"):
		k, err := strconv.Atoi(shape[7:])
		if err != nil || k < 0 {
			return "badcase", ""
		}
		if k > n {
			k = n
		}
		full = lib.CloneInts(vals)
		in = full[:k] // cap reaches into the tail
		n = k
	default:
		return "badcase", ""
	}
	ptrs := append([]*big.Int{}, full...)
	snap := lib.CloneInts(full)
	out, err := m.call(in)
	line := m.line(out, err)
	if len(in) != n {
		return line, "input slice header changed"
	}
	if msg := intact("caller's storage (input and what lies behind it)", full, ptrs, snap); msg != "" {
		return line, msg
	}
	if msg := m.judge(snap[:n], lib.CloneInts(out), err); msg != "" {
		return line, msg
	}
	// the caller now owns the result: appending to it and overwriting its slots must not reach
	// the input or the storage behind it
	outSnap := lib.CloneInts(out)
	grown := append(out, sentinel(99))
	for i := range grown {
		grown[i] = sentinel(100 + i)
	}
	if msg := intact("caller's storage after writing to the result slice", full, ptrs, snap); msg != "" {
		return line, msg
	}
	if twin != nil {
		if msg := intact("second chain sharing the integers", twin, ptrs, snap); msg != "" {
			return line, msg
		}
		out2, err2 := m.call(twin)
		if l2 := m.line(out2, err2); l2 != line {
			return line, "call on a second chain made of the same integers gave " + l2
		}
	}
	_ = outSnap
	return line, ""
}

type callRec struct {
	in      addchain.Chain
	out     addchain.Chain
	outSnap []*big.Int
	group   int
}

// history runs the calls of a script in order in this process. Between calls the caller scribbles
// on what it owns; at the end every earlier result is re-read. Returns the joined result lines and
// what is wrong ("" if nothing).
func (m impl) history(script string) (string, string) {
	toks := strings.Split(script, ";")
	problem := ""
	note := func(s string) {
		if problem == "" {
			problem = s
		}
	}
	var calls []*callRec
	var lines []string
	var cur addchain.Chain
	group := -1
	for ti, t := range toks {
		if t == "=" {
			if cur == nil {
				return "badcase", ""
			}
		} else {
			cur = addchain.Chain(lib.ParseHexList(t))
			group++
		}
		ptrs := append([]*big.Int{}, cur...)
		snap := lib.CloneInts(cur)
		out, err := m.call(cur)
		if msg := intact(fmt.Sprintf("call %d: input", ti), cur, ptrs, snap); msg != "" {
			note(msg)
		}
		rec := &callRec{in: cur, out: out, outSnap: lib.CloneInts(out), group: group}
		calls = append(calls, rec)
		lines = append(lines, m.line(out, err))
		if msg := m.judge(snap, rec.outSnap, err); msg != "" {
			note(fmt.Sprintf("call %d: %s", ti, msg))
		}
		// the caller is done with this input unless the next token re-uses the object: it
		// overwrites the slots of its slice and every integer it still owns exclusively
		if ti+1 >= len(toks) || toks[ti+1] != "=" {
			lent := map[*big.Int]bool{}
			for _, d := range calls {
				if d.group == group {
					for _, x := range d.out {
						lent[x] = true
					}
				}
			}
			for i, x := range cur {
				if !lent[x] {
					x.SetInt64(-424242 - int64(i))
				}
				cur[i] = sentinel(i)
			}
		}
	}
	// every earlier result, re-read at the end, is what it was when it was returned
	for i, d := range calls {
		if !lib.EqualInts(d.out, d.outSnap) {
			note(fmt.Sprintf("result of call %d changed afterwards: returned %s, now %s", i, lib.HexList(d.outSnap), lib.HexList(d.out)))
		}
	}
	// results of different calls do not share integers: scribbling on one leaves the others alone
	// (calls on the same input object may share them when the function returns input elements)
	done := map[int]bool{}
	for i, d := range calls {
		key := i
		if m.sharesElems {
			key = -1 - d.group
		}
		if done[key] {
			continue
		}
		done[key] = true
		mine := map[*callRec]bool{}
		for j, e := range calls {
			if j == i || (m.sharesElems && e.group == d.group) {
				mine[e] = true
				for _, x := range e.out {
					x.SetInt64(-77)
				}
			}
		}
		for j, e := range calls {
			if !mine[e] && j > i && !lib.EqualInts(e.out, e.outSnap) {
				note(fmt.Sprintf("writing to the integers of result %d changed result %d", i, j))
			}
		}
	}
	return "ok " + strings.Join(lines, " | "), problem
}

func (m impl) run(c string) string {
	f := strings.Split(c, " ")
	switch {
	case f[0] == m.plainFn && len(f) == 2:
		out, err := m.call(addchain.Chain(lib.ParseHexList(f[1])))
		return m.line(out, err)
	case f[0] == m.shapeFn && len(f) == 3:
		line, _ := m.shapeCall(f[1], lib.ParseHexList(f[2]))
		return line
	case f[0] == m.histFn && len(f) == 2:
		line, _ := m.history(f[1])
		return line
	}
	return "badcase"
}

func (m impl) oracle(c, res string) string {
	f := strings.Split(c, " ")
	var line, msg string
	switch {
	case f[0] == m.plainFn && len(f) == 2:
		line, msg = m.shapeCall("exact", lib.ParseHexList(f[1]))
	case f[0] == m.shapeFn && len(f) == 3:
		line, msg = m.shapeCall(f[1], lib.ParseHexList(f[2]))
	case f[0] == m.histFn && len(f) == 2:
		line, msg = m.history(f[1])
	default:
		return ""
	}
	if msg != "" {
		return msg
	}
	if line != res {
		return "a second run in the same process gave a different result: " + line
	}
	return ""
}

// the chain a case is "about" (for Nontrivial): the input of a plain/shape case, the first token of a history
func (m impl) subject(c string) []*big.Int {
	f := strings.Split(c, " ")
	switch {
	case f[0] == m.plainFn && len(f) == 2:
		return lib.ParseHexList(f[1])
	case f[0] == m.shapeFn && len(f) == 3:
		v := lib.ParseHexList(f[2])
		if strings.HasPrefix(f[1], "prefix:") {
			if k, err := strconv.Atoi(f[1][7:]); err == nil && k >= 0 && k < len(v) {
				v = v[:k]
			}
		}
		return v
	case f[0] == m.histFn && len(f) == 2:
		t := strings.Split(f[1], ";")[0]
		if t != "=" {
			return lib.ParseHexList(t)
		}
	}
	return nil
}

// ---- neighbourhood of a sequence: one element perturbed, two swapped, one inserted, one removed ----
func seqNeighbour(v []*big.Int, r *lib.Rand) []*big.Int {
	w := lib.CloneInts(v)
	if len(w) == 0 {
		return []*big.Int{big.NewInt(1)}
	}
	switch r.Intn(5) {
	case 0: // perturb
		p := r.Intn(len(w))
		w[p].Add(w[p], big.NewInt(int64(r.Range(-3, 3))))
	case 1: // swap two
		if len(w) >= 2 {
			i, j := r.Intn(len(w)), r.Intn(len(w))
			w[i], w[j] = w[j], w[i]
		}
	case 2: // insert the sum of two elements somewhere after both
		i, j := r.Intn(len(w)), r.Intn(len(w))
		x := new(big.Int).Add(w[i], w[j])
		lo := i
		if j > lo {
			lo = j
		}
		p := lo + 1 + r.Intn(len(w)-lo)
		w = append(w[:p], append([]*big.Int{x}, w[p:]...)...)
	case 3: // insert an arbitrary small value
		p := r.Intn(len(w) + 1)
		w = append(w[:p], append([]*big.Int{big.NewInt(int64(r.Range(0, 40)))}, w[p:]...)...)
	default: // remove one
		p := r.Intn(len(w))
		w = append(w[:p], w[p+1:]...)
	}
	return w
}

func (m impl) neighbours(c string, r *lib.Rand, emit func(string)) {
	f := strings.Split(c, " ")
	for n := 0; n < 12; n++ {
		switch {
		case f[0] == m.plainFn && len(f) == 2:
			emit(m.plainFn + " " + lib.HexList(seqNeighbour(lib.ParseHexList(f[1]), r)))
		case f[0] == m.shapeFn && len(f) == 3:
			emit(m.shapeFn + " " + f[1] + " " + lib.HexList(seqNeighbour(lib.ParseHexList(f[2]), r)))
		case f[0] == m.histFn && len(f) == 2:
			toks := strings.Split(f[1], ";")
			p := r.Intn(len(toks))
			if toks[p] == "=" {
				continue
			}
			toks[p] = lib.HexList(seqNeighbour(lib.ParseHexList(toks[p]), r))
			emit(m.histFn + " " + strings.Join(toks, ";"))
		}
	}
}

// ---- generator of shape and history cases from a stream of chains ----
func (m impl) emitShapes(c []*big.Int, r *lib.Rand, emit func(string)) {
	s := lib.HexList(c)
	emit(m.shapeFn + " spare " + s)
	emit(m.shapeFn + " shared " + s)
	if len(c) >= 2 {
		emit(fmt.Sprintf("%s prefix:%d %s", m.shapeFn, r.Range(1, len(c)-1), s))
	}
}

func (m impl) emitHistories(c, other, bad []*big.Int, r *lib.Rand, emit func(string)) {
	s, o, b := lib.HexList(c), lib.HexList(other), lib.HexList(bad)
	emit(m.histFn + " " + s + ";=")
	emit(m.histFn + " " + s + ";" + s)
	emit(m.histFn + " " + s + ";" + o + ";=;" + s)
	emit(m.histFn + " " + b + ";" + s + ";" + b + ";" + o)
}
