// Harness for C07: printing any syntax tree and parsing it back is the identity.
package main

import (
	"fmt"
	"strings"

	"github.com/mmcloughlin/addchain/acc/ast"

	"verif/harness/acclib"
	"verif/harness/lib"
)

func gen(tier string, r *lib.Rand, emit func(string)) {
	nodes, toklen, nrand := 5, 3, 3000
	if tier == "thorough" {
		nodes, toklen, nrand = 6, 4, 150000
	}
	hex := func(s string) string { return lib.Bytes([]byte(s)) }
	script := func(ss ...ast.Statement) string { return acclib.EncScript(&ast.Chain{Statements: ss}) }
	// (a) every expression tree up to `nodes` nodes in every statement position
	memo := map[int][]ast.Expr{}
	two := ast.Add{X: ast.Operand(0), Y: ast.Operand(0)}
	for n := 1; n <= nodes; n++ {
		for _, e := range acclib.TreesOfSize(n, memo) {
			emit("print " + script(ast.Statement{Expr: e}))
			emit("print " + script(ast.Statement{Name: "x", Expr: e}, ast.Statement{Expr: ast.Identifier("x")}))
			if n <= nodes-1 {
				emit("print " + script(ast.Statement{Name: "a", Expr: two}, ast.Statement{Name: "return", Expr: e}, ast.Statement{Expr: e}))
				emit("expr " + acclib.EncExpr(e))
				emit("stmt " + script(ast.Statement{Name: "x1", Expr: e}))
				emit("stmt " + script(ast.Statement{Expr: e}))
			}
		}
	}
	// naturally nested trees (depth bounded: the model parser is the un-memoised PEG)
	deep := 12
	if tier == "thorough" {
		deep = 14
	}
	for k := 0; k <= deep; k++ {
		for _, e := range acclib.NestedTrees(k) {
			emit("print " + script(ast.Statement{Name: "x", Expr: ast.Operand(0)}, ast.Statement{Expr: e}))
		}
		emit("fmt " + hex(acclib.DeepSource(k)))
	}
	// (b) random deep trees over the full identifier alphabet, large operands and shift amounts
	for i := 0; i < nrand; i++ {
		o := &acclib.TreeOpts{MaxIndex: 40, BigNumbers: i%2 == 0, MaxShift: 70, ZeroShift: true}
		size := r.Range(0, 9)
		if i%10 == 0 {
			size = r.Range(10, 60)
		}
		t := &ast.Chain{}
		for k := r.Intn(4); k > 0; k-- {
			t.Statements = append(t.Statements, ast.Statement{Name: ast.Identifier(acclib.RandIdent(r)), Expr: acclib.RandExpr(r, r.Intn(5), o, true)})
		}
		t.Statements = append(t.Statements, ast.Statement{Expr: acclib.RandExpr(r, size, o, true)})
		emit("print " + acclib.EncScript(t))
		// the same trees as bare expression / statement nodes
		if i%3 == 0 {
			last := t.Statements[len(t.Statements)-1]
			emit("expr " + acclib.EncExpr(last.Expr))
			emit("stmt " + script(t.Statements[0]))
		}
	}
	// (c) trees outside the property's hypotheses: printed bytes are compared with the model only
	odd := []string{"", " ", "a b", "1x", "x-y", "=", "return ", "(x)", "[1]", "2*x", "x+y", "a=b"}
	for i := 0; i < nrand/10; i++ {
		o := &acclib.TreeOpts{MaxIndex: 9, MaxShift: 9, ZeroShift: true}
		t := &ast.Chain{}
		for k := r.Intn(4); k > 0; k-- {
			name := acclib.RandIdent(r)
			if r.Chance(1, 2) {
				name = odd[r.Intn(len(odd))]
			}
			e := acclib.RandExpr(r, r.Intn(4), o, true)
			switch r.Intn(4) {
			case 0:
				e = ast.Add{X: e, Y: ast.Identifier(odd[r.Intn(len(odd))])}
			case 1:
				e = ast.Double{X: ast.Operand(-1 - r.Intn(50))}
			}
			t.Statements = append(t.Statements, ast.Statement{Name: ast.Identifier(name), Expr: e})
		}
		emit("print " + acclib.EncScript(t))
	}
	emit("print -")
	// histories: several prints / parses in one process, all results re-read at the end
	acclib.HistCases(tier, r, emit)
	// large sizes: long sums, deep nesting, many statements, wide alignment padding
	for _, sh := range acclib.LargeShapes {
		for _, n := range acclib.LargeSizes(tier) {
			emit(fmt.Sprintf("large %s %d", sh, n))
		}
	}
	// keyword look-alike identifiers in every statement position
	acclib.LookalikeCases(func(src string, want *ast.Chain) {
		emit("fmt " + hex(src))
		emit("print " + acclib.EncScript(want))
	})
	// (d) every tree reached by parsing generated texts
	for _, s := range acclib.Rejections {
		emit("fmt " + hex(s))
	}
	acclib.TokenSequences(toklen, func(src string) { emit("fmt " + hex(src)) })
	for i := 0; i < nrand; i++ {
		emit("fmt " + hex(acclib.RandomTokenSequence(r, toklen+1+r.Intn(4))))
		t := acclib.GenScript(r, acclib.ScriptOpts{Faults: i%4 == 0, BigNumbers: i%7 == 0, MaxShift: 1 + r.Intn(12), ZeroShift: i%5 == 0})
		s := acclib.RenderScript(r, t, i%2 == 0)
		if i%3 == 0 {
			s = acclib.Mutate(r, s)
		}
		emit("fmt " + hex(s))
	}
}

func nontrivial(c, res string) bool {
	// a round trip was run on a tree with at least two operator nodes
	f := strings.Split(c, " ")
	r := strings.Split(res, " ")
	switch f[0] {
	case "expr", "stmt":
		return strings.Count(f[1], ",") >= 2
	case "large":
		return res == "ok"
	case "printhist", "parsehist":
		return strings.Count(f[1], "|") >= 1
	case "print":
		t := acclib.DecScript(f[1])
		return acclib.InScope(t) && acclib.CountOps(t) >= 2
	case "fmt":
		return r[0] == "ok" && acclib.CountOps(acclib.DecScript(r[1])) >= 2
	}
	return false
}

func main() {
	lib.Main(lib.Prop{ID: "C07", Gen: gen, Run: acclib.Run, Oracle: acclib.OracleC07, Nontrivial: nontrivial, PanicClass: acclib.PanicClass,
		Neighbours: acclib.Neighbours("fmt")})
}
