// C09: dictionary decompositions represent the target exactly and without overlap.
package main

import (
	"fmt"
	"math/big"
	"sort"
	"strconv"
	"strings"

	"github.com/mmcloughlin/addchain/alg/dict"
	"verif/harness/lib"
)

// ---- encodings ----

func termsString(s dict.Sum) string {
	if len(s) == 0 {
		return "-"
	}
	ss := make([]string, len(s))
	for i, t := range s {
		ss[i] = fmt.Sprintf("%s@%d", lib.Hex(t.D), t.E)
	}
	return strings.Join(ss, ",")
}

func parseTerms(a string) dict.Sum {
	s := dict.Sum{}
	if a == "-" {
		return s
	}
	for _, f := range strings.Split(a, ",") {
		de := strings.Split(f, "@")
		if len(de) != 2 {
			panic("harness: bad term " + strconv.Quote(f))
		}
		s = append(s, dict.Term{D: lib.ParseHex(de[0]), E: uint(lib.Atoi(de[1]))})
	}
	return s
}

func cloneSum(s dict.Sum) dict.Sum {
	c := make(dict.Sum, len(s))
	for i, t := range s {
		c[i] = dict.Term{D: new(big.Int).Set(t.D), E: t.E}
	}
	return c
}

func equalSum(a, b dict.Sum) bool {
	if len(a) != len(b) {
		return false
	}
	for i := range a {
		if a[i].E != b[i].E || a[i].D.Cmp(b[i].D) != 0 {
			return false
		}
	}
	return true
}

type method struct {
	kind string
	k, t int
}

func parseMethod(m string) method {
	f := strings.Split(m, ":")
	switch {
	case len(f) == 2 && (f[0] == "fixed" || f[0] == "sliding"):
		return method{kind: f[0], k: lib.Atoi(f[1])}
	case len(f) == 2 && f[0] == "runlength":
		return method{kind: f[0], t: lib.Atoi(f[1])}
	case len(f) == 3 && f[0] == "hybrid":
		return method{kind: f[0], k: lib.Atoi(f[1]), t: lib.Atoi(f[2])}
	}
	panic("harness: bad method " + strconv.Quote(m))
}

func (m method) decomposer() dict.Decomposer {
	switch m.kind {
	case "fixed":
		return dict.FixedWindow{K: uint(m.k)}
	case "sliding":
		return dict.SlidingWindow{K: uint(m.k)}
	case "runlength":
		return dict.RunLength{T: uint(m.t)}
	default:
		return dict.Hybrid{K: uint(m.k), T: uint(m.t)}
	}
}

// ---- implementation ----

func run(c string) string {
	f := strings.Split(c, " ")
	switch {
	case f[0] == "decompose" && len(f) == 3:
		m := parseMethod(f[1])
		x := lib.ParseHex(f[2])
		s := m.decomposer().Decompose(x)
		return "ok " + termsString(s) + " " + lib.Hex(s.Int()) + " " + lib.HexList(s.Dictionary())
	case f[0] == "sumint" && len(f) == 2:
		return "ok " + lib.Hex(parseTerms(f[1]).Int())
	case f[0] == "dictionary" && len(f) == 2:
		return "ok " + lib.HexList(parseTerms(f[1]).Dictionary())
	case f[0] == "sortexp" && len(f) == 2:
		s := parseTerms(f[1])
		s.SortByExponent()
		return "ok " + termsString(s)
	case f[0] == "dhist" && len(f) == 2:
		return runDhist(f[1]).String()
	}
	panic("harness: bad case " + strconv.Quote(c))
}

// ---- call histories: one process, every result kept alive, everything re-read at the end ----

// dstate is the caller's view: the integers it owns and every Sum it was given.
type dstate struct {
	xs []*big.Int
	ss []dict.Sum
}

// String re-reads every register: x values, then terms, Sum.Int() and Dictionary() of every sum.
func (st *dstate) String() string {
	var b strings.Builder
	b.WriteString("ok " + lib.HexList(st.xs))
	for _, s := range st.ss {
		b.WriteString(" " + termsString(s) + " " + lib.Hex(s.Int()) + " " + lib.HexList(s.Dictionary()))
	}
	return b.String()
}

type dinstr struct {
	op     string
	m      method
	a, b   int
	v      *big.Int
	fields []string
}

func parseDhist(prog string) []dinstr {
	var out []dinstr
	for _, ins := range strings.Split(prog, ";") {
		f := strings.Split(ins, ":")
		d := dinstr{op: f[0], fields: f}
		switch {
		case f[0] == "x" && len(f) == 2:
			d.v = lib.ParseHex(f[1])
		case f[0] == "dec" && len(f) >= 4:
			d.m = parseMethod(strings.Join(f[1:len(f)-1], ":"))
			d.a = lib.Atoi(f[len(f)-1])
		case f[0] == "scrx" && len(f) == 3:
			d.a, d.v = lib.Atoi(f[1]), lib.ParseHex(f[2])
		case f[0] == "scrd" && len(f) == 4:
			d.a, d.b, d.v = lib.Atoi(f[1]), lib.Atoi(f[2]), lib.ParseHex(f[3])
		case (f[0] == "sort" || f[0] == "dict" || f[0] == "int") && len(f) == 2:
			d.a = lib.Atoi(f[1])
		default:
			panic("harness: bad dhist instruction " + strconv.Quote(ins))
		}
		out = append(out, d)
	}
	return out
}

// runDhist executes the history against the library. Scribbles are done in place (Set on the
// big.Int the caller owns or was handed), so anything the library shares with them is disturbed.
func runDhist(prog string) *dstate {
	st := &dstate{}
	for _, d := range parseDhist(prog) {
		switch d.op {
		case "x":
			st.xs = append(st.xs, new(big.Int).Set(d.v))
		case "dec":
			st.ss = append(st.ss, d.m.decomposer().Decompose(st.xs[d.a]))
		case "scrx":
			st.xs[d.a].Set(d.v)
		case "scrd":
			if s := st.ss[d.a]; len(s) > 0 {
				s[d.b%len(s)].D.Set(d.v)
			}
		case "sort":
			st.ss[d.a].SortByExponent()
		case "dict":
			_ = st.ss[d.a].Dictionary()
		case "int":
			_ = st.ss[d.a].Int()
		}
	}
	return st
}

// refDhist is the reference: every Decompose is an isolated call on a private copy of x whose result
// is checked against the property and deep-copied at once; scribbles replace values, nothing is shared.
func refDhist(prog string) (string, string) {
	var xs []*big.Int
	var ss []dict.Sum
	for k, d := range parseDhist(prog) {
		switch d.op {
		case "x":
			xs = append(xs, new(big.Int).Set(d.v))
		case "dec":
			x := new(big.Int).Set(xs[d.a])
			s := d.m.decomposer().Decompose(new(big.Int).Set(x))
			if msg := checkTerms(d.m, x, s); msg != "" {
				return "", fmt.Sprintf("instruction %d (%s): %s", k, strings.Join(d.fields, ":"), msg)
			}
			ss = append(ss, cloneSum(s))
		case "scrx":
			xs[d.a] = new(big.Int).Set(d.v)
		case "scrd":
			if s := ss[d.a]; len(s) > 0 {
				s[d.b%len(s)] = dict.Term{D: new(big.Int).Set(d.v), E: s[d.b%len(s)].E}
			}
		case "sort":
			s := ss[d.a]
			sort.SliceStable(s, func(i, j int) bool { return s[i].E < s[j].E })
		}
	}
	var b strings.Builder
	b.WriteString("ok " + lib.HexList(xs))
	for _, s := range ss {
		b.WriteString(" " + termsString(s) + " " + lib.Hex(sumOf(s)) + " " + lib.HexList(distinctD(s)))
	}
	return b.String(), ""
}

// sharedStorage reports two distinct registers (x registers, term D of any result) that are the
// same *big.Int or share a word array.
func sharedStorage(st *dstate) string {
	ptr := map[*big.Int]string{}
	arr := map[*big.Word]string{}
	see := func(name string, v *big.Int) string {
		if o, ok := ptr[v]; ok {
			return o + " and " + name + " are the same *big.Int"
		}
		ptr[v] = name
		if w := v.Bits(); cap(w) > 0 {
			w = w[:1]
			if o, ok := arr[&w[0]]; ok {
				return o + " and " + name + " share a word array"
			}
			arr[&w[0]] = name
		}
		return ""
	}
	for i, x := range st.xs {
		if m := see(fmt.Sprintf("x%d", i), x); m != "" {
			return m
		}
	}
	for i, s := range st.ss {
		for j, t := range s {
			if m := see(fmt.Sprintf("sum%d.term%d.D", i, j), t.D); m != "" {
				return m
			}
		}
	}
	return ""
}

func oracleDhist(prog, res string) string {
	want, msg := refDhist(prog)
	if msg != "" {
		return msg
	}
	if res != want {
		return "history differs from independent calls: got " + res + " want " + want
	}
	if m := sharedStorage(runDhist(prog)); m != "" {
		return m
	}
	return ""
}

// ---- oracle: the property stated directly ----

// value of a term list: sum of d * 2^e, by multiplication (not Lsh).
func sumOf(s dict.Sum) *big.Int {
	two := big.NewInt(2)
	v := new(big.Int)
	for _, t := range s {
		p := new(big.Int).Exp(two, new(big.Int).SetUint64(uint64(t.E)), nil)
		v.Add(v, p.Mul(p, t.D))
	}
	return v
}

// sorted list of the distinct d of a term list.
func distinctD(s dict.Sum) []*big.Int {
	seen := map[string]*big.Int{}
	for _, t := range s {
		seen[t.D.String()] = t.D
	}
	out := []*big.Int{}
	for _, d := range seen {
		out = append(out, d)
	}
	sort.Slice(out, func(i, j int) bool { return out[i].Cmp(out[j]) < 0 })
	return out
}

// allOnes reports whether d = 2^w - 1 for w = d.BitLen().
func allOnes(d *big.Int) bool {
	e := new(big.Int).Add(d, big.NewInt(1))
	p := new(big.Int).Exp(big.NewInt(2), big.NewInt(int64(d.BitLen())), nil)
	return e.Cmp(p) == 0
}

func oracleDecompose(m method, x *big.Int, res string) string {
	f := strings.Split(res, " ")
	if len(f) != 4 || f[0] != "ok" {
		return "decomposition did not return normally: " + res
	}
	s := parseTerms(f[1])
	if msg := checkTerms(m, x, s); msg != "" {
		return msg
	}
	return checkRest(m, x, s, f)
}

// checkTerms: the decomposition clauses of the property for terms s of x under method m.
func checkTerms(m method, x *big.Int, s dict.Sum) string {
	// exact sum
	if sumOf(s).Cmp(x) != 0 {
		return fmt.Sprintf("terms sum to %s, not x", lib.Hex(sumOf(s)))
	}
	// d > 0, strictly increasing e, pairwise disjoint bit ranges [e, e+bitlen d)
	for i, t := range s {
		if t.D.Sign() <= 0 {
			return fmt.Sprintf("term %d has d <= 0", i)
		}
		if i > 0 && !(s[i-1].E < t.E) {
			return fmt.Sprintf("exponents not strictly increasing at term %d", i)
		}
	}
	for i := range s {
		for j := range s {
			if i == j {
				continue
			}
			li, hi := int(s[i].E), int(s[i].E)+s[i].D.BitLen()
			lj, hj := int(s[j].E), int(s[j].E)+s[j].D.BitLen()
			if li < hj && lj < hi {
				return fmt.Sprintf("bit ranges of terms %d and %d overlap", i, j)
			}
		}
	}
	// per-method shape
	for i, t := range s {
		w := t.D.BitLen()
		odd := t.D.Bit(0) == 1
		switch m.kind {
		case "fixed":
			if w > m.k {
				return fmt.Sprintf("fixed-window term %d wider than K", i)
			}
		case "sliding":
			if !odd || w > m.k {
				return fmt.Sprintf("sliding-window term %d not odd or wider than K", i)
			}
		case "runlength":
			if !allOnes(t.D) || (m.t > 0 && w > m.t) {
				return fmt.Sprintf("run-length term %d not all-ones or longer than T", i)
			}
		case "hybrid":
			short := w <= m.k
			longrun := allOnes(t.D) && w > m.k && (m.t == 0 || w <= m.t)
			if !odd || !(short || longrun) {
				return fmt.Sprintf("hybrid term %d neither odd window <= K nor all-ones run in (K, T]", i)
			}
		}
	}
	return ""
}

// checkRest: Sum.Int, Dictionary, x unchanged, reproducibility.
func checkRest(m method, x *big.Int, s dict.Sum, f []string) string {
	// Sum.Int and Dictionary as returned
	if lib.ParseHex(f[2]).Cmp(x) != 0 {
		return "Sum.Int() differs from x"
	}
	if !lib.EqualInts(lib.ParseHexList(f[3]), distinctD(s)) {
		return "Dictionary() is not the sorted list of distinct d"
	}
	// x is not modified; result is reproducible; Int/Dictionary do not disturb the sum
	x0 := new(big.Int).Set(x)
	xb := append([]big.Word{}, x.Bits()...)
	s2 := m.decomposer().Decompose(x)
	if x.Cmp(x0) != 0 || len(x.Bits()) != len(xb) {
		return "x modified by Decompose"
	}
	for i, w := range x.Bits() {
		if w != xb[i] {
			return "x modified by Decompose"
		}
	}
	if !equalSum(s, s2) {
		return "second Decompose call returns different terms"
	}
	keep := cloneSum(s2)
	_ = s2.Int()
	_ = s2.Dictionary()
	if !equalSum(keep, s2) {
		return "Sum.Int()/Dictionary() modified the terms"
	}
	return ""
}

func oracle(c, res string) string {
	f := strings.Split(c, " ")
	switch f[0] {
	case "decompose":
		m := parseMethod(f[1])
		if (m.kind == "fixed" || m.kind == "sliding" || m.kind == "hybrid") && m.k < 1 {
			return "" // K = 0 is outside the property
		}
		return oracleDecompose(m, lib.ParseHex(f[2]), res)
	case "sumint":
		if res != "ok "+lib.Hex(sumOf(parseTerms(f[1]))) {
			return "Sum.Int() is not the sum of d*2^e"
		}
	case "dictionary":
		if res != "ok "+lib.HexList(distinctD(parseTerms(f[1]))) {
			return "Dictionary() is not the sorted list of distinct d"
		}
	case "dhist":
		return oracleDhist(f[1], res)
	case "sortexp":
		in := parseTerms(f[1])
		if !strings.HasPrefix(res, "ok ") {
			return "sort did not return"
		}
		out := parseTerms(res[3:])
		if len(in) != len(out) {
			return "sort changed the number of terms"
		}
		for i := range out {
			if i > 0 && !(out[i-1].E < out[i].E) {
				return "not ascending in e"
			}
			found := false
			for _, t := range in {
				if t.E == out[i].E && t.D.Cmp(out[i].D) == 0 {
					found = true
				}
			}
			if !found {
				return "sorted term not among the inputs"
			}
		}
	}
	return ""
}

func nontrivial(c, res string) bool {
	f := strings.Split(res, " ")
	if len(f) < 2 || f[0] != "ok" {
		return false
	}
	if strings.HasPrefix(c, "decompose ") {
		return strings.Contains(f[1], ",") // at least two terms
	}
	return f[1] != "-"
}

// ---- generators ----

func methods(ks, ts []int) []string {
	ms := []string{}
	for _, k := range ks {
		ms = append(ms, fmt.Sprintf("fixed:%d", k), fmt.Sprintf("sliding:%d", k))
	}
	for _, t := range ts {
		ms = append(ms, fmt.Sprintf("runlength:%d", t))
	}
	for _, k := range ks {
		for _, t := range ts {
			ms = append(ms, fmt.Sprintf("hybrid:%d:%d", k, t))
		}
	}
	return ms
}

// structured x: runs of ones and gaps of zeros with lengths drawn around K and T.
func structured(r *lib.Rand, k, t, maxbits int) *big.Int {
	runs := []int{1, 2, 3, k - 1, k, k + 1, 2 * k, 2*k + 1, t - 1, t, t + 1, 2 * t, 2*t + 1, k + t, r.Range(1, 40)}
	gaps := []int{1, 1, 2, k - 1, k, k + 1, t, r.Range(1, 20)}
	x := new(big.Int)
	n := 0
	target := r.Range(1, maxbits)
	// optionally start with a gap so that the lowest window/run does not end at bit 0
	if r.Bool() {
		n += gaps[r.Intn(len(gaps))]
	}
	for n < target {
		w := runs[r.Intn(len(runs))]
		if w < 1 {
			w = 1
		}
		if r.Chance(1, 6) { // a window of random bits with set ends instead of a run
			seg := r.BitsExact(w)
			seg.SetBit(seg, 0, 1)
			x.Or(x, seg.Lsh(seg, uint(n)))
		} else {
			seg := new(big.Int).Lsh(big.NewInt(1), uint(w))
			seg.Sub(seg, big.NewInt(1))
			x.Or(x, seg.Lsh(seg, uint(n)))
		}
		n += w
		g := gaps[r.Intn(len(gaps))]
		if g < 1 {
			g = 1
		}
		n += g
	}
	if x.BitLen() > 1024 {
		x.Rsh(x, uint(x.BitLen()-1024))
	}
	return x
}

func randTerms(r *lib.Rand, distinctE bool) string {
	n := r.Range(0, 8)
	s := dict.Sum{}
	used := map[uint]bool{}
	for i := 0; i < n; i++ {
		d := r.Bits(r.Range(0, 70))
		if r.Chance(1, 3) && len(s) > 0 {
			d = new(big.Int).Set(s[r.Intn(len(s))].D)
		}
		e := uint(r.Intn(40))
		if r.Chance(1, 10) {
			e = uint(r.Intn(1100))
		}
		if distinctE && used[e] {
			continue
		}
		used[e] = true
		s = append(s, dict.Term{D: d, E: e})
	}
	return termsString(s)
}

func gen(tier string, r *lib.Rand, emit func(string)) {
	bits, nstruct, nterms, nhist := 12, 9000, 1500, 4000
	if tier == "thorough" {
		bits, nstruct, nterms, nhist = 14, 150000, 20000, 60000
	}

	// (a) exhaustive small scope: every x below 2^bits, K in 1..6, T in 0..6, all four methods
	small := methods([]int{1, 2, 3, 4, 5, 6}, []int{0, 1, 2, 3, 4, 5, 6})
	for x := 0; x < 1<<uint(bits); x++ {
		for _, m := range small {
			emit(fmt.Sprintf("decompose %s %x", m, x))
		}
	}
	// (K = 0 is outside the property: Fixed/Sliding never return in Go, so no such case is sent.)
	// (b) structured and random x up to 1024 bits, K and T sampled from 1..130 / 0..130
	pick := func() int {
		switch r.Intn(4) {
		case 0:
			return r.Range(1, 8)
		case 1:
			return []int{1, 2, 3, 4, 5, 8, 16, 31, 32, 33, 63, 64, 65, 127, 128, 129, 130}[r.Intn(17)]
		default:
			return r.Range(1, 130)
		}
	}
	all := func(k, t int, x *big.Int) {
		h := lib.Hex(x)
		emit(fmt.Sprintf("decompose fixed:%d %s", k, h))
		emit(fmt.Sprintf("decompose sliding:%d %s", k, h))
		emit(fmt.Sprintf("decompose runlength:%d %s", t, h))
		emit(fmt.Sprintf("decompose hybrid:%d:%d %s", k, t, h))
	}
	for i := 0; i < nstruct; i++ {
		k := pick()
		t := pick()
		switch r.Intn(8) {
		case 0:
			t = 0
		case 1:
			t = k // T = K: no run is ever longer than K
		case 2:
			t = k + 1
		case 3:
			if k > 1 {
				t = r.Range(1, k-1) // T < K
			}
		}
		maxbits := []int{24, 64, 200, 520, 1024}[r.Intn(5)]
		var x *big.Int
		switch r.Intn(10) {
		case 0:
			x = new(big.Int).Lsh(big.NewInt(1), uint(r.Range(0, maxbits-1))) // 2^n
		case 1:
			x = new(big.Int).Lsh(big.NewInt(1), uint(r.Range(1, maxbits)))
			x.Sub(x, big.NewInt(1)) // 2^n - 1
		case 2:
			x = r.BitsExact(r.Range(1, maxbits))
		default:
			x = structured(r, k, t, maxbits)
		}
		if x.Sign() == 0 {
			x.SetInt64(1)
		}
		all(k, t, x)
	}
	// (c) Sum.Int, Dictionary, SortByExponent on arbitrary term lists (zero d, repeated d, any order)
	for i := 0; i < nterms; i++ {
		ts := randTerms(r, false)
		emit("sumint " + ts)
		emit("dictionary " + ts)
		emit("sortexp " + randTerms(r, true))
	}
	// (d) call histories: the only stream that sees state carried across calls in one process
	genHistories(r, nhist, emit)
}

// genHistories emits call histories: several x registers, several Decompose calls over several
// methods, caller scribbles in between, repeated SortByExponent / Dictionary / Int calls.
func genHistories(r *lib.Rand, n int, emit func(string)) {
	// fixed programs aimed at shared or cached values: equal runs / windows in several results,
	// scribble on one, decompose again
	for _, m := range []string{"runlength:4", "runlength:0", "hybrid:2:4", "hybrid:1:0", "sliding:3", "fixed:4"} {
		for _, x := range []string{"ff", "f0f0f", "efb7", "ffffffffffffffffffff", "7"} {
			emit(fmt.Sprintf("dhist x:%s;dec:%s:0;dec:%s:0;scrd:0:0:5a5a;scrd:0:1:0;dec:%s:0;scrx:0:1;dict:1;sort:1;dec:%s:0;int:2", x, m, m, m, m))
			emit(fmt.Sprintf("dhist x:%s;x:%s;dec:%s:0;scrx:0:2;dec:%s:1;scrd:1:0:1234567;dec:%s:0;dict:0;dict:0;sort:0", x, x, m, m, m))
		}
	}
	randMethod := func() string {
		k, t := r.Range(1, 6), r.Range(0, 6)
		if r.Chance(1, 8) {
			k, t = r.Range(1, 40), r.Range(0, 40)
		}
		switch r.Intn(5) {
		case 0:
			return fmt.Sprintf("fixed:%d", k)
		case 1:
			return fmt.Sprintf("sliding:%d", k)
		case 2:
			return fmt.Sprintf("runlength:%d", t)
		default:
			return fmt.Sprintf("hybrid:%d:%d", k, t)
		}
	}
	randX := func() *big.Int {
		switch r.Intn(6) {
		case 0:
			return structured(r, r.Range(1, 6), r.Range(0, 6), 200)
		case 1:
			x := new(big.Int).Lsh(big.NewInt(1), uint(r.Range(1, 130)))
			return x.Sub(x, big.NewInt(1))
		case 2:
			return r.BitsExact(r.Range(1, 130))
		default:
			return r.BitsExact(r.Range(1, 16))
		}
	}
	for i := 0; i < n; i++ {
		nx, ns := 0, 0
		var prog []string
		addX := func() {
			prog = append(prog, "x:"+lib.Hex(randX()))
			nx++
		}
		addX()
		if r.Bool() {
			addX()
		}
		last := randMethod()
		steps := r.Range(4, 12)
		for k := 0; k < steps; k++ {
			c := r.Intn(12)
			switch {
			case c < 5 || ns == 0:
				if !r.Chance(1, 2) {
					last = randMethod()
				}
				prog = append(prog, fmt.Sprintf("dec:%s:%d", last, r.Intn(nx)))
				ns++
			case c < 7:
				prog = append(prog, fmt.Sprintf("scrx:%d:%s", r.Intn(nx), lib.Hex(randX())))
			case c < 9:
				v := r.Bits(r.Range(0, 70))
				prog = append(prog, fmt.Sprintf("scrd:%d:%d:%s", r.Intn(ns), r.Intn(8), lib.Hex(v)))
			case c == 9:
				prog = append(prog, fmt.Sprintf("sort:%d", r.Intn(ns)))
			case c == 10:
				prog = append(prog, fmt.Sprintf("dict:%d", r.Intn(ns)))
			default:
				if r.Bool() && nx < 4 {
					addX()
				} else {
					prog = append(prog, fmt.Sprintf("int:%d", r.Intn(ns)))
				}
			}
		}
		// always end with a fresh call on every x and a scribble on the first result
		prog = append(prog, fmt.Sprintf("scrd:0:%d:%s", r.Intn(4), lib.Hex(r.Bits(40))))
		prog = append(prog, fmt.Sprintf("dec:%s:%d", last, r.Intn(nx)))
		emit("dhist " + strings.Join(prog, ";"))
	}
}

// perturbX: x with a bit flipped, a run lengthened, or shifted.
func perturbX(x *big.Int, r *lib.Rand) *big.Int {
	y := new(big.Int).Set(x)
	n := y.BitLen()
	switch r.Intn(5) {
	case 0, 1: // flip a bit (possibly just above the top)
		i := r.Intn(n + 2)
		y.SetBit(y, i, y.Bit(i)^1)
	case 2: // lengthen a run: set the zero bit just above or below some set bit
		if n > 0 {
			i := r.Intn(n)
			for i < n && y.Bit(i) == 0 {
				i++
			}
			if r.Bool() {
				for y.Bit(i) == 1 {
					i++
				}
				y.SetBit(y, i, 1)
			} else {
				for i >= 0 && y.Bit(i) == 1 {
					i--
				}
				if i >= 0 {
					y.SetBit(y, i, 1)
				}
			}
		}
	case 3:
		y.Lsh(y, uint(r.Range(1, 3)))
	default:
		y.Rsh(y, uint(r.Range(1, 3)))
	}
	if y.Sign() == 0 {
		y.SetInt64(1)
	}
	return y
}

func perturbMethod(m string, r *lib.Rand) string {
	f := strings.Split(m, ":")
	i := 1 + r.Intn(len(f)-1)
	v := lib.Atoi(f[i]) + []int{-1, 1}[r.Intn(2)]
	min := 1
	if f[0] == "runlength" || (f[0] == "hybrid" && i == 2) {
		min = 0
	}
	if v < min {
		v = min + 1
	}
	f[i] = strconv.Itoa(v)
	return strings.Join(f, ":")
}

// neighbours: same function, perturbed input (x bit flipped / run lengthened / shifted; K, T +-1).
func neighbours(c string, r *lib.Rand, emit func(string)) {
	f := strings.Split(c, " ")
	switch f[0] {
	case "decompose":
		x := lib.ParseHex(f[2])
		for k := 0; k < 24; k++ {
			m, y := f[1], x
			if r.Chance(1, 3) {
				m = perturbMethod(m, r)
			}
			if m == f[1] || r.Bool() {
				y = perturbX(x, r)
			}
			emit("decompose " + m + " " + lib.Hex(y))
		}
	case "dhist":
		ins := strings.Split(f[1], ";")
		for k := 0; k < 12; k++ {
			out := append([]string{}, ins...)
			for tries := 0; tries < 3; tries++ {
				i := r.Intn(len(out))
				g := strings.Split(out[i], ":")
				switch g[0] {
				case "x":
					out[i] = "x:" + lib.Hex(perturbX(lib.ParseHex(g[1]), r))
				case "scrx":
					out[i] = "scrx:" + g[1] + ":" + lib.Hex(perturbX(lib.ParseHex(g[2]), r))
				case "dec":
					out[i] = "dec:" + perturbMethod(strings.Join(g[1:len(g)-1], ":"), r) + ":" + g[len(g)-1]
				case "scrd":
					out[i] = fmt.Sprintf("scrd:%s:%d:%s", g[1], r.Intn(6), lib.Hex(r.Bits(r.Range(0, 70))))
				}
			}
			emit("dhist " + strings.Join(out, ";"))
		}
		// the single calls of the history on their own
		xs := []string{}
		for _, i := range ins {
			g := strings.Split(i, ":")
			if g[0] == "x" {
				xs = append(xs, g[1])
			} else if g[0] == "dec" {
				emit("decompose " + strings.Join(g[1:len(g)-1], ":") + " " + xs[lib.Atoi(g[len(g)-1])%len(xs)])
			}
		}
	case "sumint", "dictionary", "sortexp":
		s := parseTerms(f[1])
		for k := 0; k < 8 && len(s) > 0; k++ {
			t := cloneSum(s)
			i := r.Intn(len(t))
			t[i].D = perturbX(t[i].D, r)
			if f[0] != "sortexp" && r.Bool() {
				t[i].E = uint(r.Intn(40))
			}
			emit(f[0] + " " + termsString(t))
		}
	}
}

func main() {
	lib.Main(lib.Prop{ID: "C09", Gen: gen, Run: run, Oracle: oracle, Nontrivial: nontrivial, Neighbours: neighbours})
}
