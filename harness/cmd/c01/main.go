// C01: every search algorithm returns a genuine addition chain ending at the target.
package main

import (
	"bytes"
	"fmt"
	"log"
	"math/big"
	"os"
	"strconv"
	"strings"
	"sync"
	"time"

	"github.com/mmcloughlin/addchain"
	"github.com/mmcloughlin/addchain/alg"
	"github.com/mmcloughlin/addchain/alg/binary"
	"github.com/mmcloughlin/addchain/alg/contfrac"
	"github.com/mmcloughlin/addchain/alg/dict"
	"github.com/mmcloughlin/addchain/alg/ensemble"
	"github.com/mmcloughlin/addchain/alg/exec"
	"github.com/mmcloughlin/addchain/alg/heuristic"
	"github.com/mmcloughlin/addchain/alg/opt"
	"verif/harness/lib"
)

// ---- sequence algorithms ----

// seqcfg is a sequence algorithm with what the property and the clock allow for it.
type seqcfg struct {
	alg alg.SequenceAlgorithm
	// total: always finds a sequence for positive targets.
	total bool
	// vbits: largest bit length of a target value for which the algorithm answers quickly
	// (1024 = no practical limit: the work is polynomial in the bit length).
	vbits int
}

const nolimit = 1024

func hseq(total bool, vbits int, hs ...heuristic.Heuristic) seqcfg {
	var h heuristic.Heuristic
	if len(hs) == 1 {
		h = hs[0]
	} else {
		h = heuristic.UseFirst(hs...)
	}
	return seqcfg{alg: heuristic.NewAlgorithm(h), total: total, vbits: vbits}
}

func seqcfgs() []seqcfg {
	H, D, A := heuristic.Halving{}, heuristic.DeltaLargest{}, heuristic.Approximation{}
	// delta_largest / approximation without halving in front take a number of steps proportional
	// to the target value
	const lin = 10
	ss := []seqcfg{
		hseq(true, nolimit, H, D),
		hseq(true, nolimit, H, A),
		hseq(true, lin, D),
		hseq(true, lin, A),
		hseq(false, nolimit, H),
	}
	for _, s := range contfrac.Strategies {
		vb := nolimit
		switch s.String() {
		case "total":
			vb = 5
		case "dyadic", "fermat":
			vb = 7
		}
		ss = append(ss, seqcfg{alg: contfrac.NewAlgorithm(s), total: true, vbits: vb})
	}
	ss = append(ss,
		hseq(true, lin, A, D),
		hseq(true, nolimit, H, A, D),
		hseq(true, nolimit, H, D, A),
		hseq(true, lin, D, H),
		hseq(true, lin, A, H),
		hseq(true, nolimit, heuristic.UseFirst(H, A), D),
		hseq(false, nolimit),
	)
	return ss
}

// ---- chain algorithm configurations ----

const (
	kBinary = iota
	kDict
	kRuns
	kSeq
)

type config struct {
	alg    alg.ChainAlgorithm
	kind   int
	decomp dict.Decomposer
	seq    seqcfg
	opt    bool
	// K, T: the decomposer's parameters (0 when absent), for the directed targets.
	K, T int
	// maxbits: largest bit length of n this configuration is run on.
	maxbits int
	// ens: member of ensemble.Ensemble() (or the algorithm one of them wraps).
	ens bool
}

func (c config) total() bool { return c.kind == kBinary || c.seq.total }

// entrybits bounds the bit length of the dictionary entries a decomposer produces.
func entrybits(d dict.Decomposer) (k, t, eb int) {
	switch w := d.(type) {
	case dict.FixedWindow:
		return int(w.K), 0, int(w.K)
	case dict.SlidingWindow:
		return int(w.K), 0, int(w.K)
	case dict.RunLength:
		if w.T == 0 {
			return 0, 0, nolimit
		}
		return 0, int(w.T), int(w.T)
	case dict.Hybrid:
		if w.T == 0 {
			return int(w.K), 0, nolimit
		}
		if w.T > w.K {
			return int(w.K), int(w.T), int(w.T)
		}
		return int(w.K), int(w.T), int(w.K)
	}
	panic("unknown decomposer")
}

func dictcfg(d dict.Decomposer, s seqcfg, ens bool) config {
	k, t, eb := entrybits(d)
	mb := nolimit
	if eb > s.vbits {
		mb = s.vbits
	}
	return config{alg: dict.NewAlgorithm(d, s.alg), kind: kDict, decomp: d, seq: s, K: k, T: t, maxbits: mb, ens: ens}
}

func runscfg(s seqcfg, ens bool) config {
	// the sequence algorithm sees run lengths, each at most the bit length of n
	mb := nolimit
	if s.vbits < 10 {
		mb = 1<<uint(s.vbits) - 1
	} else if s.vbits == 10 {
		mb = 1023
	}
	return config{alg: dict.NewRunsAlgorithm(s.alg), kind: kRuns, seq: s, maxbits: mb, ens: ens}
}

func seqchaincfg(s seqcfg) config {
	return config{alg: alg.AsChainAlgorithm(s.alg), kind: kSeq, seq: s, maxbits: s.vbits}
}

func withopt(c config) config {
	c.alg = opt.Algorithm{Algorithm: c.alg}
	c.opt = true
	return c
}

// universe lists every configuration the harness names: the ensemble exactly as
// ensemble.Ensemble() builds it (taken from there, not re-typed), the algorithms it wraps, and
// the further configurations of the property's quantifier.
func universe() []config {
	ss := seqcfgs()
	byname := map[string]seqcfg{}
	for _, s := range ss {
		byname[s.alg.String()] = s
	}
	var out []config
	seen := map[string]bool{}
	add := func(c config) {
		if !seen[c.alg.String()] {
			seen[c.alg.String()] = true
			out = append(out, c)
		}
	}
	// the ensemble: recover decomposer and sequence algorithm from our own tables by name
	decomps := []dict.Decomposer{}
	for k := uint(1); k <= 128; k++ {
		decomps = append(decomps, dict.SlidingWindow{K: k}, dict.FixedWindow{K: k})
	}
	for t := uint(0); t <= 128; t++ {
		decomps = append(decomps, dict.RunLength{T: t})
		for k := uint(1); k <= 16; k++ {
			decomps = append(decomps, dict.Hybrid{K: k, T: t})
		}
	}
	inner := map[string]config{}
	for _, d := range decomps {
		for _, s := range ss {
			c := dictcfg(d, s, true)
			inner[c.alg.String()] = c
		}
	}
	for _, s := range ss {
		c := runscfg(s, true)
		inner[c.alg.String()] = c
	}
	for _, a := range ensemble.Ensemble() {
		name := a.String()
		if !strings.HasPrefix(name, "opt(") {
			panic("ensemble member without opt: " + name)
		}
		c, ok := inner[name[4:len(name)-1]]
		if !ok {
			panic("ensemble member not understood by the harness: " + name)
		}
		// run the ensemble's own value, not our reconstruction
		w := c
		w.alg = a
		w.opt = true
		add(w)
		add(c)
	}
	// further decomposers: fixed window, K = 1, T in {1, 2, K}
	extra := []dict.Decomposer{
		dict.FixedWindow{K: 1}, dict.FixedWindow{K: 2}, dict.FixedWindow{K: 3}, dict.FixedWindow{K: 4},
		dict.FixedWindow{K: 5}, dict.FixedWindow{K: 8}, dict.FixedWindow{K: 16},
		dict.SlidingWindow{K: 1}, dict.SlidingWindow{K: 2}, dict.SlidingWindow{K: 3}, dict.SlidingWindow{K: 5},
		dict.RunLength{T: 1}, dict.RunLength{T: 2}, dict.RunLength{T: 3}, dict.RunLength{T: 8},
		dict.Hybrid{K: 1, T: 0}, dict.Hybrid{K: 1, T: 1}, dict.Hybrid{K: 1, T: 2}, dict.Hybrid{K: 2, T: 1},
		dict.Hybrid{K: 2, T: 2}, dict.Hybrid{K: 3, T: 3}, dict.Hybrid{K: 4, T: 4}, dict.Hybrid{K: 3, T: 2},
		dict.Hybrid{K: 4, T: 2}, dict.Hybrid{K: 2, T: 5}, dict.Hybrid{K: 5, T: 1},
	}
	for _, d := range extra {
		for _, s := range ss {
			c := dictcfg(d, s, false)
			add(c)
			add(withopt(c))
		}
	}
	for _, s := range ss {
		c := runscfg(s, false)
		add(c)
		add(withopt(c))
		q := seqchaincfg(s)
		add(q)
		add(withopt(q))
	}
	b := config{alg: binary.RightToLeft{}, kind: kBinary, maxbits: nolimit}
	add(b)
	add(withopt(b))
	return out
}

var (
	all    = universe()
	byName = func() map[string]config {
		m := map[string]config{}
		for _, c := range all {
			m[c.alg.String()] = c
		}
		return m
	}()
)

// ---- encodings ----

func termList(s dict.Sum) string {
	if len(s) == 0 {
		return "-"
	}
	ts := make([]string, len(s))
	for i, t := range s {
		ts[i] = lib.Hex(t.D) + "@" + strconv.FormatUint(uint64(t.E), 10)
	}
	return strings.Join(ts, ",")
}

func parseTerms(s string) dict.Sum {
	out := dict.Sum{}
	if s == "-" {
		return out
	}
	for _, f := range strings.Split(s, ",") {
		de := strings.Split(f, "@")
		if len(de) != 2 {
			panic("harness: bad term " + f)
		}
		out = append(out, dict.Term{D: lib.ParseHex(de[0]), E: uint(lib.Atoi(de[1]))})
	}
	return out
}

func cloneSum(s dict.Sum) dict.Sum {
	out := make(dict.Sum, len(s))
	for i, t := range s {
		out[i] = dict.Term{D: new(big.Int).Set(t.D), E: t.E}
	}
	return out
}

func equalSum(a, b dict.Sum) bool {
	if len(a) != len(b) {
		return false
	}
	for i := range a {
		if a[i].E != b[i].E || a[i].D.Cmp(b[i].D) != 0 {
			return false
		}
	}
	return true
}

func opList(p addchain.Program) string {
	if len(p) == 0 {
		return "-"
	}
	ss := make([]string, len(p))
	for i, o := range p {
		ss[i] = fmt.Sprintf("%d+%d", o.I, o.J)
	}
	return strings.Join(ss, ",")
}

func errClass(err error) string {
	m := err.Error()
	switch {
	case m == "failed to find sequence":
		return "noseq"
	case m == "values in lengths chain are far too large":
		return "toolarge"
	case m == "reconstruction does not match":
		return "reconstruct"
	case m == "did not produce the required value":
		return "end"
	case m == "chain empty":
		return "empty"
	case m == "chain must start with 1":
		return "first"
	case m == "chain contains zero":
		return "zero"
	case strings.HasPrefix(m, "chain contains duplicate"):
		return "dup"
	case strings.HasSuffix(m, "is not the sum of previous entries"):
		return "notsum"
	}
	return "other"
}

func classify(v interface{}) string {
	s := fmt.Sprint(v)
	switch {
	case strings.Contains(s, "index out of range"), strings.Contains(s, "slice bounds out of range"):
		return "index"
	case strings.Contains(s, "delta must be positive"):
		return "delta"
	case strings.Contains(s, "division by zero"):
		return "divzero"
	case strings.Contains(s, "square root of negative number"):
		return "sqrtneg"
	}
	return "other"
}

// ---- watchdog ----

var watchdog = func() time.Duration {
	if s := os.Getenv("C01_WATCHDOG"); s != "" {
		if d, err := time.ParseDuration(s); err == nil {
			return d
		}
	}
	return 20 * time.Second
}()

// guarded runs f in its own goroutine; a panic becomes "panic <class>", no answer in time "hang".
func guarded(f func() string) string {
	done := make(chan string, 1)
	go func() {
		defer func() {
			if v := recover(); v != nil {
				done <- "panic " + classify(v)
			}
		}()
		done <- f()
	}()
	select {
	case res := <-done:
		return res
	case <-time.After(watchdog):
		return "hang"
	}
}

// ---- observing the sort inside primitive ----

// observe recomputes the pieces of FindChain up to primitive and returns the sum as primitive
// left it (the order of equal exponents is decided by Go's unstable sort.Slice); "?" when
// primitive is not reached or fails.
func observe(c config, n *big.Int) string {
	if c.kind != kDict && c.kind != kRuns {
		return "?"
	}
	res := guarded(func() string {
		x := new(big.Int).Set(n)
		var sum dict.Sum
		var ch addchain.Chain
		var err error
		if c.kind == kDict {
			sum = c.decomp.Decompose(x)
			sum.SortByExponent()
			ch, err = c.seq.alg.FindSequence(sum.Dictionary())
			if err != nil {
				return "?"
			}
		} else {
			sum = dict.RunLength{T: 0}.Decompose(x)
			lengths := []*big.Int{}
			for _, run := range sum.Dictionary() {
				lengths = append(lengths, big.NewInt(int64(run.BitLen())))
			}
			lc, err := c.seq.alg.FindSequence(lengths)
			if err != nil {
				return "?"
			}
			ch, err = dict.RunsChain(lc)
			if err != nil {
				return "?"
			}
		}
		out, _, err := dict.VerifPrimitive(sum, ch)
		if err != nil {
			return "?"
		}
		return termList(out)
	})
	if res == "hang" || strings.HasPrefix(res, "panic") {
		return "?"
	}
	return res
}

// ---- targets ----

func one() *big.Int { return big.NewInt(1) }

func pow2(e int) *big.Int { return new(big.Int).Lsh(one(), uint(e)) }

// runsValue builds the integer whose binary form is, from the top, runs of ones of the given
// lengths separated by the given gaps of zeros (gaps[i] follows runs[i]; the last gap is the
// number of trailing zeros).
func runsValue(runs, gaps []int) *big.Int {
	x := new(big.Int)
	for i, l := range runs {
		x.Lsh(x, uint(l))
		x.Or(x, new(big.Int).Sub(pow2(l), one()))
		x.Lsh(x, uint(gaps[i]))
	}
	return x
}

// pick returns one of the candidate lengths that is >= 1, or a random one.
func pickLen(r *lib.Rand, cands []int, max int) int {
	if len(cands) > 0 && r.Chance(2, 3) {
		l := cands[r.Intn(len(cands))]
		if l >= 1 && l <= max {
			return l
		}
	}
	return r.Range(1, max)
}

// family draws one target of about the given bit length from the families named by the
// property; K and T (0 = absent) direct the run lengths.
func family(r *lib.Rand, which, bits, K, T int) *big.Int {
	n := family0(r, which, bits, K, T)
	if n.Sign() <= 0 { // 2^k - c with c > 2^k: reflect into the positive range
		n.Neg(n)
		n.Add(n, one())
	}
	return n
}

func family0(r *lib.Rand, which, bits, K, T int) *big.Int {
	if bits < 3 {
		return big.NewInt(int64(r.Range(1, 7)))
	}
	cands := []int{}
	for _, p := range []int{K, T} {
		if p > 0 {
			cands = append(cands, p-1, p, p+1, 2*p, 2*p+1)
		}
	}
	switch which % 9 {
	case 0: // 2^k
		return pow2(r.Range(bits/2, bits))
	case 1: // 2^k - 1
		return new(big.Int).Sub(pow2(r.Range(bits/2, bits)), one())
	case 2: // 2^k +- c
		x := pow2(r.Range(bits/2+8, bits+8))
		c := big.NewInt(int64(r.Range(1, 1<<uint(r.Range(1, 16)))))
		if r.Bool() {
			return x.Add(x, c)
		}
		return x.Sub(x, c)
	case 3: // signed sum of 3..6 powers (Solinas-like)
		x := pow2(bits)
		for i, m := 0, r.Range(2, 5); i < m; i++ {
			p := pow2(r.Intn(bits - 1))
			if r.Bool() {
				x.Add(x, p)
			} else {
				x.Sub(x, p)
			}
		}
		return x
	case 4: // sparse
		x := pow2(bits - 1)
		for i, m := 0, r.Range(1, 7); i < m; i++ {
			x.SetBit(x, r.Intn(bits), 1)
		}
		return x
	case 5: // dense random
		return r.BitsExact(bits)
	case 6, 7: // runs of ones of chosen lengths (exactly K, K+1, T, T+1, ...) and chosen gaps
		var runs, gaps []int
		total := 0
		for total < bits {
			l := pickLen(r, cands, 12)
			g := 1
			if r.Chance(1, 3) {
				g = r.Range(1, 6)
			}
			runs = append(runs, l)
			gaps = append(gaps, g)
			total += l + g
		}
		if r.Bool() {
			gaps[len(gaps)-1] = 0
		}
		return runsValue(runs, gaps)
	default: // a few (1..6) long all-ones runs
		m := r.Range(1, 6)
		var runs, gaps []int
		for i := 0; i < m; i++ {
			runs = append(runs, pickLen(r, cands, 2*bits/(m+1)+1))
			gaps = append(gaps, r.Range(1, 1+bits/(4*m)))
		}
		if r.Bool() {
			gaps[m-1] = 0
		}
		return runsValue(runs, gaps)
	}
}

// ---- generation ----

func execCase(c config, n *big.Int) string {
	return "execute " + c.alg.String() + " " + lib.Hex(n) + " " + observe(c, n)
}

func eligible(c config, n *big.Int) bool { return n.BitLen() <= c.maxbits }

func gen(tier string, r *lib.Rand, emit func(string)) {
	thorough := tier == "thorough"
	emit("dumpconfig")

	// (c) out of domain: n = 0 (compared with the model only).  Continued fractions recurse for
	// ever on an empty or zero target list, so only the heuristic-based and binary ones.
	for _, c := range all {
		if c.ens || c.opt {
			continue
		}
		if c.kind == kBinary || strings.Contains(c.seq.alg.String(), "heuristic(") {
			if c.kind != kSeq {
				emit(execCase(c, big.NewInt(0)))
			}
		}
	}
	emit("rtl 0")
	emit("dictsumchain -")

	// (a) every small n, rotating subset of the configurations (all of them in thorough)
	small, rot := 64, 4
	if thorough {
		small, rot = 1024, 1
	}
	for v := 1; v <= small; v++ {
		n := big.NewInt(int64(v))
		emit("rtl " + lib.Hex(n))
		for i, c := range all {
			if (i+v)%rot != 0 && !(v <= 8 && (i+v)%2 == 0) {
				continue
			}
			if thorough && v > 256 && !c.ens && (i+v)%4 != 0 {
				continue
			}
			if eligible(c, n) {
				emit(execCase(c, n))
			}
		}
	}

	// (b) the bit-pattern families, for every configuration targets directed at its K and T
	sizes := []int{24, 48, 64, 96, 128, 192, 256}
	perCfg := 2
	if thorough {
		sizes = []int{24, 48, 64, 96, 128, 192, 256, 384, 512}
		perCfg = 8
	}
	fam := 0
	for round := 0; round < perCfg; round++ {
		for i, c := range all {
			if !thorough && !c.ens && (i+int(r.Uint64()%3)) % 3 != 0 {
				continue
			}
			bits := sizes[r.Intn(len(sizes))]
			if bits > c.maxbits {
				bits = c.maxbits
			}
			n := family(r, fam, bits, c.K, c.T)
			fam++
			if n.Sign() > 0 && eligible(c, n) {
				emit(execCase(c, n))
			}
		}
	}
	// the runs algorithm and the unbounded run-length decomposers branch on the multiset of run
	// lengths only: more targets made of a few long all-ones runs (distinct lengths, mostly
	// single-zero gaps), so that the length chain the sequence algorithm has to find is not trivial
	nruns := 4
	if thorough {
		nruns = 40
	}
	for _, c := range all {
		unbounded := c.kind == kRuns
		if c.kind == kDict {
			_, _, eb := entrybits(c.decomp)
			unbounded = eb == nolimit
		}
		if !unbounded || (!thorough && !c.ens && c.kind != kRuns) {
			continue
		}
		for i := 0; i < nruns; i++ {
			m := r.Range(3, 6)
			var runs, gaps []int
			for j := 0; j < m; j++ {
				runs = append(runs, r.Range(2, 40))
				g := 1
				if r.Chance(1, 4) {
					g = r.Range(2, 5)
				}
				gaps = append(gaps, g)
			}
			if r.Bool() {
				gaps[m-1] = 0
			}
			n := runsValue(runs, gaps)
			if eligible(c, n) {
				emit(execCase(c, n))
			}
		}
	}

	// targets found by the stream above that once separated a faulty Chain.Ops (two-pointer scan
	// on a not fully ascending prefix) from the correct one: RunsChain emits an unsorted chain for
	// them when the length chain is not a star chain
	for _, h := range []string{"1fffffdfffe0ffffefffffffffbfffffffe", "ffffbffffffff3fefff7ffffffefffff", "1ffffeffffbfffffffdfdffffe0ffff"} {
		n := lib.ParseHex(h)
		for _, c := range all {
			if c.kind == kRuns && strings.Contains(c.alg.String(), "approximation") && eligible(c, n) {
				emit(execCase(c, n))
			}
		}
	}

	// a few very long targets
	nlong := 16
	if thorough {
		nlong = 120
	}
	for i := 0; i < nlong; i++ {
		c := all[r.Intn(len(all))]
		bits := 512
		if thorough && i%3 == 0 {
			bits = 1024
		}
		if c.maxbits < bits {
			continue
		}
		n := family(r, r.Intn(9), bits-8, c.K, c.T)
		if n.Sign() > 0 && eligible(c, n) {
			emit(execCase(c, n))
		}
	}
	// the same target through every member of the ensemble (what the search command does)
	nsame := 2
	if thorough {
		nsame = 8
	}
	for i := 0; i < nsame; i++ {
		n := family(r, 3+i, []int{61, 127, 255, 160}[i%4], 0, 0)
		for _, c := range all {
			if c.ens && c.opt {
				emit(execCase(c, n))
			}
		}
	}

	// exec.Parallel: a few algorithms at a time with every relation between their number k and the
	// concurrency limit (1, k-1, k, k+1, 2k, 16, 64); position i of the result must be algorithm i's
	// result.  Only total configurations: a panic in a worker goroutine cannot be recovered.
	var totals []config
	for _, c := range all {
		if c.total() && c.maxbits >= 64 {
			totals = append(totals, c)
		}
	}
	nsets := 24
	if thorough {
		nsets = 600
	}
	for i := 0; i < nsets; i++ {
		k := r.Range(2, 8)
		var n *big.Int
		if i%3 == 0 {
			n = big.NewInt(int64(r.Range(1, 64)))
		} else {
			n = family(r, i, []int{16, 32, 64}[r.Intn(3)], 0, 0)
		}
		cfgs := make([]config, k)
		for j := range cfgs {
			cfgs[j] = totals[r.Intn(len(totals))]
		}
		for _, limit := range []int{1, 2, k - 1, k, k + 1, k + 3, 2 * k, 16, 64} {
			if limit >= 1 {
				emit(parallelCase(limit, 'd', n, cfgs))
			}
		}
		// with a log writer under the harness's control: slow "done" lines, and the last "done"
		// line held until Execute has returned (or gateTimeout) -- one gated run per list
		emit(parallelCase([]int{1, 2, k, k + 3}[i%4], 's', n, cfgs))
		emit(parallelCase([]int{k, k + 3, 1, 2, 64}[i%5], 'g', n, cfgs))
	}

	// rtl on the families
	nrtl := 60
	if thorough {
		nrtl = 1500
	}
	for i := 0; i < nrtl; i++ {
		emit("rtl " + lib.Hex(family(r, i, []int{8, 20, 64, 130, 256}[r.Intn(5)], 0, 0)))
	}

	// dictsumchain and primitive on their own
	genPieces(thorough, r, emit)
}

// randomChain builds a valid addition chain of the given length (not necessarily ascending when
// shuffle is set: each new element is the sum of two random earlier ones, repeats skipped).
func randomChain(r *lib.Rand, length int, ascending bool) addchain.Chain {
	c := addchain.Chain{one()}
	seen := map[string]bool{"1": true}
	for tries := 0; len(c) < length && tries < 20*length; tries++ {
		var i, j int
		if ascending {
			i = len(c) - 1 - r.Intn(min(len(c), 3))
			j = r.Intn(len(c))
		} else {
			i, j = r.Intn(len(c)), r.Intn(len(c))
		}
		x := new(big.Int).Add(c[i], c[j])
		if ascending && x.Cmp(c[len(c)-1]) <= 0 {
			continue
		}
		if seen[x.String()] {
			continue
		}
		seen[x.String()] = true
		c = append(c, x)
	}
	return c
}

func min(a, b int) int {
	if a < b {
		return a
	}
	return b
}

func primitiveCase(sum dict.Sum, c addchain.Chain) string {
	obs := guarded(func() string {
		out, _, err := dict.VerifPrimitive(cloneSum(sum), addchain.Chain(lib.CloneInts(c)))
		if err != nil {
			return "?"
		}
		return termList(out)
	})
	if obs == "hang" || strings.HasPrefix(obs, "panic") {
		obs = "?"
	}
	return "primitive " + termList(sum) + " " + lib.HexList(c) + " " + obs
}

func genPieces(thorough bool, r *lib.Rand, emit func(string)) {
	// exhaustive small sums for dictsumchain: up to 3 terms, D in 1..3, E in 0..3, any order
	var rec func(cur dict.Sum)
	rec = func(cur dict.Sum) {
		if len(cur) > 0 {
			emit("dictsumchain " + termList(cur))
		}
		if len(cur) == 3 {
			return
		}
		for d := int64(1); d <= 3; d++ {
			for e := uint(0); e <= 3; e++ {
				if len(cur) == 2 && !thorough && (d == 2 || e == 3) {
					continue
				}
				rec(append(append(dict.Sum{}, cur...), dict.Term{D: big.NewInt(d), E: e}))
			}
		}
	}
	rec(nil)
	nrand := 150
	if thorough {
		nrand = 3000
	}
	for i := 0; i < nrand; i++ {
		m := r.Range(1, 12)
		s := dict.Sum{}
		e := uint(r.Intn(4))
		for j := 0; j < m; j++ {
			s = append(s, dict.Term{D: r.BitsExact(r.Range(1, 40)), E: e})
			if !r.Chance(1, 4) { // ties stay with probability 1/4
				e += uint(r.Range(1, 9))
			}
		}
		if r.Chance(1, 10) && m >= 2 { // unsorted: outside the contract, compared with the model only
			s[0], s[m-1] = s[m-1], s[0]
		}
		emit("dictsumchain " + termList(s))
	}

	// primitive: exhaustive tiny chains with every sum of up to 2 terms over their elements
	tiny := []addchain.Chain{
		lib.ParseHexList("1"), lib.ParseHexList("1,2"), lib.ParseHexList("1,2,3"), lib.ParseHexList("1,2,4"),
		lib.ParseHexList("1,2,3,5"), lib.ParseHexList("1,2,4,3"), lib.ParseHexList("1,2,3,6,7"),
		lib.ParseHexList("1,2,4,5,3"),
	}
	for _, c := range tiny {
		for _, d1 := range c {
			for e1 := uint(0); e1 <= 2; e1++ {
				emit(primitiveCase(dict.Sum{{D: d1, E: e1}}, c))
				for _, d2 := range c {
					for e2 := e1; e2 <= e1+2; e2++ {
						emit(primitiveCase(dict.Sum{{D: d1, E: e1}, {D: d2, E: e2}}, c))
					}
				}
			}
		}
	}
	nprim := 250
	if thorough {
		nprim = 5000
	}
	for i := 0; i < nprim; i++ {
		c := randomChain(r, r.Range(1, 24), r.Chance(2, 3))
		m := r.Range(1, 14)
		s := dict.Sum{}
		e := uint(r.Intn(3))
		for j := 0; j < m; j++ {
			s = append(s, dict.Term{D: c[r.Intn(len(c))], E: e})
			if !r.Chance(1, 5) {
				e += uint(r.Range(1, 7))
			}
		}
		switch r.Intn(16) {
		case 0: // a term whose D is not in the chain (Go reads index 0 from the map)
			s[r.Intn(m)].D = new(big.Int).Add(c[len(c)-1], big.NewInt(int64(r.Range(1, 5))))
		case 1: // not a chain
			if len(c) > 2 {
				c[r.Range(1, len(c)-1)] = new(big.Int).Lsh(c[len(c)-1], 2)
			}
		case 2: // unsorted sum
			s[0], s[m-1] = s[m-1], s[0]
		case 3: // empty sum
			s = dict.Sum{}
		}
		emit(primitiveCase(s, c))
	}
}

// ---- running the implementation ----

func parseExec(f []string) (config, *big.Int) {
	c, ok := byName[f[1]]
	if !ok {
		panic("unknown algorithm " + f[1])
	}
	return c, lib.ParseHex(f[2])
}

func execute(a alg.ChainAlgorithm, n *big.Int) string {
	return guarded(func() string {
		res := exec.Execute(n, a)
		if res.Err != nil {
			return "err " + errClass(res.Err)
		}
		return "ok " + lib.HexList(res.Chain) + " | " + opList(res.Program)
	})
}

func run(c string) string {
	f := strings.Split(c, " ")
	switch {
	case f[0] == "dumpconfig" && len(f) == 1:
		names := []string{}
		for _, a := range ensemble.Ensemble() {
			names = append(names, a.String())
		}
		return "ok " + strings.Join(names, ";")
	case f[0] == "rtl" && len(f) == 2:
		n := lib.ParseHex(f[1])
		return guarded(func() string {
			ch, err := binary.RightToLeft{}.FindChain(n)
			if err != nil {
				return "err other"
			}
			return "ok " + lib.HexList(ch)
		})
	case f[0] == "dictsumchain" && len(f) == 2:
		s := parseTerms(f[1])
		return guarded(func() string { return "ok " + lib.HexList(dict.VerifDictSumChain(s)) })
	case f[0] == "primitive" && len(f) == 4:
		s, ch := parseTerms(f[1]), addchain.Chain(lib.ParseHexList(f[2]))
		return guarded(func() string {
			out, pr, err := dict.VerifPrimitive(s, ch)
			if err != nil {
				return "err " + errClass(err)
			}
			return "ok " + termList(out) + " | " + lib.HexList(pr)
		})
	case f[0] == "execute" && len(f) == 4:
		cfg, n := parseExec(f)
		return execute(cfg.alg, n)
	case f[0] == "parallel" && len(f) == 5:
		limit, mode, n, cfgs := parseParallel(f)
		return parallel(limit, mode, n, cfgs)
	}
	panic("unknown case " + c)
}

// parallel <limit> <n> <alg1;alg2;...> <observed1;observed2;...>
func parseParallel(f []string) (int, byte, *big.Int, []config) {
	cfgs := []config{}
	for _, name := range strings.Split(f[3], ";") {
		c, ok := byName[name]
		if !ok {
			panic("unknown algorithm " + name)
		}
		cfgs = append(cfgs, c)
	}
	lm := strings.Split(f[1], ":")
	mode := byte('d')
	if len(lm) == 2 && len(lm[1]) == 1 {
		mode = lm[1][0]
	}
	return lib.Atoi(lm[0]), mode, lib.ParseHex(f[2]), cfgs
}

// gateTimeout bounds how long the gated log writer holds a line.  On the unchanged code Execute
// cannot return while a worker sits in the log call, so the gate always opens by this timeout.
const gateTimeout = 200 * time.Millisecond

// logWriter is the log destination handed to the executor (SetLogger) in the modes
//
//	's'  slow: every "done" line takes 3 ms to write;
//	'g'  gated: the LAST "done" line (the total-th) is held until the harness has seen Execute
//	     return and has copied the result slice, or until gateTimeout.
//
// An executor that signals completion before the result is stored (or before the "done" line is
// written) returns while that worker is still held here, and the copy shows an empty slot.
type logWriter struct {
	mode  byte
	total int
	mu    sync.Mutex
	done  int
	open  chan struct{}
}

func (w *logWriter) Write(p []byte) (int, error) {
	if bytes.HasPrefix(p, []byte("done")) {
		w.mu.Lock()
		w.done++
		d := w.done
		w.mu.Unlock()
		switch w.mode {
		case 's':
			time.Sleep(3 * time.Millisecond)
		case 'g':
			if d == w.total {
				select {
				case <-w.open:
				case <-time.After(gateTimeout):
				}
			}
		}
	}
	return len(p), nil
}

// parallel runs exec.Parallel on the list and prints, per position, the name of the algorithm the
// result slot carries and its result; a zero-valued slot prints as "- empty".  The result slice is
// copied at the moment Execute returns (before a gated log line is released) and the copy is
// what is printed and judged.  mode: 'd' default (discarding) logger, 's', 'g' as above.
func parallel(limit int, mode byte, n *big.Int, cfgs []config) string {
	as := make([]alg.ChainAlgorithm, len(cfgs))
	for i, c := range cfgs {
		as[i] = c.alg
	}
	return guarded(func() string {
		p := exec.NewParallel()
		p.SetConcurrency(limit)
		var w *logWriter
		if mode != 'd' {
			w = &logWriter{mode: mode, total: len(as), open: make(chan struct{})}
			p.SetLogger(log.New(w, "", 0))
		}
		rs := p.Execute(n, as)
		snap := append([]exec.Result(nil), rs...)
		if w != nil {
			close(w.open)
		}
		out := make([]string, len(snap))
		for i, r := range snap {
			switch {
			case r.Algorithm == nil:
				out[i] = "- empty"
			case r.Err != nil:
				out[i] = r.Algorithm.String() + " err " + errClass(r.Err)
			default:
				out[i] = r.Algorithm.String() + " ok " + lib.HexList(r.Chain) + " | " + opList(r.Program)
			}
		}
		return "ok " + strings.Join(out, " ; ")
	})
}

func parallelCase(limit int, mode byte, n *big.Int, cfgs []config) string {
	names, obs := make([]string, len(cfgs)), make([]string, len(cfgs))
	for i, c := range cfgs {
		names[i], obs[i] = c.alg.String(), observe(c, n)
	}
	lim := strconv.Itoa(limit)
	if mode != 'd' {
		lim += ":" + string(mode)
	}
	return fmt.Sprintf("parallel %s %s %s %s", lim, lib.Hex(n), strings.Join(names, ";"), strings.Join(obs, ";"))
}

func oracleParallel(c, res string) string {
	f := strings.Split(c, " ")
	limit, mode, n, cfgs := parseParallel(f)
	orig := new(big.Int).Set(n)
	// second run (with the plain logger for the gated mode, which costs gateTimeout per run)
	again2 := mode
	if mode == 'g' {
		again2 = 'd'
	}
	again := parallel(limit, again2, n, cfgs)
	if n.Cmp(orig) != 0 {
		return "target modified by the call"
	}
	if res == "hang" || strings.HasPrefix(res, "panic") {
		return "parallel execution: " + res
	}
	slots := strings.Split(strings.TrimPrefix(res, "ok "), " ; ")
	if len(slots) != len(cfgs) {
		return fmt.Sprintf("%d result slots for %d algorithms", len(slots), len(cfgs))
	}
	for i, sl := range slots {
		sp := strings.SplitN(sl, " ", 2)
		if len(sp) != 2 || sp[1] == "empty" {
			return fmt.Sprintf("position %d: no result (zero-valued slot) for %s", i, cfgs[i].alg)
		}
		if sp[0] != cfgs[i].alg.String() {
			return fmt.Sprintf("position %d carries the result of %s, not of %s", i, sp[0], cfgs[i].alg)
		}
		if msg := checkResult(cfgs[i], orig, sp[1]); msg != "" {
			return fmt.Sprintf("position %d (%s): %s", i, sp[0], msg)
		}
	}
	if again != res {
		return "second run differs"
	}
	return ""
}

// ---- oracle: the property stated directly ----

// validChain is the definition of an addition chain: starts at 1, no repeated element, every
// later element is the sum of two (not necessarily distinct) earlier elements.
func validChain(c []*big.Int) string {
	if len(c) == 0 {
		return "empty chain"
	}
	if c[0].Cmp(one()) != 0 {
		return "chain does not start with 1"
	}
	pos := map[string]int{}
	for k, x := range c {
		if x.Sign() <= 0 {
			return fmt.Sprintf("non-positive element at %d", k)
		}
		if _, dup := pos[x.String()]; dup {
			return fmt.Sprintf("element %s repeated", x.Text(16))
		}
		if k > 0 {
			found := false
			s := new(big.Int)
			for i := 0; i < k && !found; i++ {
				s.Sub(x, c[i])
				if j, ok := pos[s.String()]; ok && j < k {
					found = true
				}
			}
			if !found {
				return fmt.Sprintf("element %d (%s) is not a sum of two earlier elements", k, x.Text(16))
			}
		}
		pos[x.String()] = k
	}
	return ""
}

func parseOps(s string) [][2]int {
	out := [][2]int{}
	if s == "-" {
		return out
	}
	for _, f := range strings.Split(s, ",") {
		ij := strings.Split(f, "+")
		out = append(out, [2]int{lib.Atoi(ij[0]), lib.Atoi(ij[1])})
	}
	return out
}

func oracleExecute(c, res string) string {
	f := strings.Split(c, " ")
	cfg, n := parseExec(f)
	if n.Sign() <= 0 {
		return "" // outside the property's quantifier: only the model comparison applies
	}
	// second run on the same big.Int: identical answer, target unchanged
	orig := new(big.Int).Set(n)
	again := execute(cfg.alg, n)
	if n.Cmp(orig) != 0 {
		return fmt.Sprintf("target modified by the call: %s -> %s", orig.Text(16), n.Text(16))
	}
	if again != res {
		return "second run differs: " + again
	}
	return checkResult(cfg, orig, res)
}

// checkResult states the property on one Execute result line for target n.
func checkResult(cfg config, orig *big.Int, res string) string {
	switch {
	case res == "hang":
		return "no answer within the watchdog time"
	case strings.HasPrefix(res, "panic"):
		return "panicked on a positive target: " + res
	case strings.HasPrefix(res, "err"):
		if cfg.total() {
			return "error from a configuration that must always find a chain: " + res
		}
		if res != "err noseq" {
			return "a partial heuristic may give up, but this is another error: " + res
		}
		return ""
	}
	parts := strings.Split(res, " ")
	if len(parts) != 4 || parts[0] != "ok" || parts[2] != "|" {
		return "malformed result " + res
	}
	chain := lib.ParseHexList(parts[1])
	if msg := validChain(chain); msg != "" {
		return "invalid chain: " + msg
	}
	if chain[len(chain)-1].Cmp(orig) != 0 {
		return "chain does not end at the target"
	}
	ops := parseOps(parts[3])
	if len(ops) != len(chain)-1 {
		return fmt.Sprintf("%d operations for %d elements", len(ops), len(chain))
	}
	vals := []*big.Int{one()}
	for k, o := range ops {
		if o[0] < 0 || o[1] < 0 || o[0] > k || o[1] > k {
			return fmt.Sprintf("operation %d refers to a later position", k)
		}
		vals = append(vals, new(big.Int).Add(vals[o[0]], vals[o[1]]))
	}
	if !lib.EqualInts(vals, chain) {
		return "re-evaluating the operation list does not reproduce the chain"
	}
	return ""
}

func oracle(c, res string) string {
	f := strings.Split(c, " ")
	switch f[0] {
	case "dumpconfig":
		// the configuration list itself: non-empty, names distinct
		names := strings.Split(strings.TrimPrefix(res, "ok "), ";")
		seen := map[string]bool{}
		for _, n := range names {
			if seen[n] || n == "" {
				return "ensemble lists " + strconv.Quote(n) + " twice"
			}
			seen[n] = true
		}
		return ""
	case "rtl":
		n := lib.ParseHex(f[1])
		if n.Sign() <= 0 {
			return ""
		}
		if !strings.HasPrefix(res, "ok ") {
			return "no chain: " + res
		}
		chain := lib.ParseHexList(res[3:])
		if msg := validChain(chain); msg != "" {
			return "invalid chain: " + msg
		}
		if chain[len(chain)-1].Cmp(n) != 0 {
			return "chain does not end at the target"
		}
		return ""
	case "dictsumchain":
		s := parseTerms(f[1])
		orig := cloneSum(s)
		if len(s) == 0 {
			return ""
		}
		for i := 1; i < len(s); i++ {
			if s[i].E < s[i-1].E {
				return "" // unsorted: outside the contract
			}
		}
		again := guarded(func() string { return "ok " + lib.HexList(dict.VerifDictSumChain(s)) })
		if !equalSum(s, orig) {
			return "sum modified by the call"
		}
		if again != res {
			return "second run differs"
		}
		if !strings.HasPrefix(res, "ok ") {
			return "no chain: " + res
		}
		chain := lib.ParseHexList(res[3:])
		// every element is twice the previous running value or the previous plus a D of the sum
		cur := new(big.Int).Set(s[len(s)-1].D)
		for k, x := range chain {
			okStep := new(big.Int).Lsh(cur, 1).Cmp(x) == 0
			for _, t := range s {
				if new(big.Int).Add(cur, t.D).Cmp(x) == 0 {
					okStep = true
				}
			}
			if !okStep {
				return fmt.Sprintf("element %d is neither a doubling nor previous + dictionary entry", k)
			}
			cur = x
		}
		if cur.Cmp(orig.Int()) != 0 {
			return "running value does not end at the value of the sum"
		}
		return ""
	case "primitive":
		s, ch := parseTerms(f[1]), lib.ParseHexList(f[2])
		if validChain(ch) != "" || len(s) == 0 {
			return ""
		}
		inChain := func(c []*big.Int, d *big.Int) bool {
			for _, x := range c {
				if x.Cmp(d) == 0 {
					return true
				}
			}
			return false
		}
		for i, t := range s {
			if !inChain(ch, t.D) || (i > 0 && t.E < s[i-1].E) {
				return ""
			}
		}
		s0, ch0 := cloneSum(s), lib.CloneInts(ch)
		again := guarded(func() string {
			out, pr, err := dict.VerifPrimitive(s, addchain.Chain(ch))
			if err != nil {
				return "err " + errClass(err)
			}
			return "ok " + termList(out) + " | " + lib.HexList(pr)
		})
		if !equalSum(s, s0) || !lib.EqualInts(ch, ch0) {
			return "arguments modified by the call"
		}
		if again != res {
			return "second run differs"
		}
		parts := strings.Split(res, " ")
		if len(parts) != 4 || parts[0] != "ok" {
			return "valid chain and sum over it refused: " + res
		}
		out, pr := parseTerms(parts[1]), lib.ParseHexList(parts[3])
		if out.Int().Cmp(s0.Int()) != 0 {
			return "value of the sum changed"
		}
		for i, t := range out {
			if i > 0 && t.E < out[i-1].E {
				return "new sum not sorted by exponent"
			}
			if !inChain(pr, t.D) {
				return "term of the new sum missing from the pruned chain"
			}
		}
		if msg := validChain(pr); msg != "" {
			return "pruned chain invalid: " + msg
		}
		return ""
	case "execute":
		return oracleExecute(c, res)
	case "parallel":
		return oracleParallel(c, res)
	}
	return "unknown case"
}

func nontrivial(c, res string) bool {
	f := strings.Split(c, " ")
	switch f[0] {
	case "execute":
		return lib.ParseHex(f[2]).BitLen() >= 3 && (strings.HasPrefix(res, "ok ") || res == "err noseq")
	case "parallel":
		return strings.HasPrefix(res, "ok ") && !strings.Contains(res, "empty")
	case "rtl":
		return lib.ParseHex(f[1]).BitLen() >= 3
	case "dictsumchain":
		return strings.Contains(f[1], ",")
	case "primitive":
		return strings.Contains(f[1], ",") && strings.HasPrefix(res, "ok ")
	}
	return true
}

// runsOf splits n into its maximal runs of ones (from the top) and the gaps of zeros that
// follow each of them.
func runsOf(n *big.Int) (runs, gaps []int) {
	i := n.BitLen() - 1
	for i >= 0 {
		l := 0
		for i >= 0 && n.Bit(i) == 1 {
			l++
			i--
		}
		g := 0
		for i >= 0 && n.Bit(i) == 0 {
			g++
			i--
		}
		runs, gaps = append(runs, l), append(gaps, g)
	}
	return
}

// neighbours: the same algorithm configuration on targets near the given one -- a few bits
// flipped, or the same run structure with run lengths nudged, repeated, swapped or re-ordered.
func neighbours(c string, r *lib.Rand, emit func(string)) {
	f := strings.Split(c, " ")
	if f[0] != "execute" {
		return
	}
	cfg, n := parseExec(f)
	if n.Sign() <= 0 {
		return
	}
	put := func(m *big.Int) {
		if m.Sign() > 0 && eligible(cfg, m) {
			emit(execCase(cfg, m))
		}
	}
	for k := 0; k < 40; k++ {
		m := new(big.Int).Set(n)
		for j := r.Range(1, 3); j > 0; j-- {
			b := r.Intn(n.BitLen())
			m.SetBit(m, b, m.Bit(b)^1)
		}
		put(m)
	}
	runs, gaps := runsOf(n)
	for k := 0; k < 160; k++ {
		rs, gs := append([]int{}, runs...), append([]int{}, gaps...)
		for j := r.Range(1, 3); j > 0; j-- {
			i := r.Intn(len(rs))
			switch r.Intn(6) {
			case 0:
				rs[i] += r.Range(1, 2)
			case 1:
				if rs[i] > 1 {
					rs[i] -= 1
				}
			case 2: // repeat another run's length
				rs[i] = rs[r.Intn(len(rs))]
			case 3:
				o := r.Intn(len(rs))
				rs[i], rs[o] = rs[o], rs[i]
			case 4:
				gs[i] = r.Range(1, 3)
			case 5: // one more run, with a length already present
				rs = append(rs, rs[r.Intn(len(rs))])
				gs = append(gs, r.Range(0, 2))
				if gs[len(gs)-2] == 0 {
					gs[len(gs)-2] = 1
				}
			}
		}
		put(runsValue(rs, gs))
	}
}

func main() {
	lib.Main(lib.Prop{ID: "C01", Gen: gen, Run: run, Oracle: oracle, Nontrivial: nontrivial,
		PanicClass: classify, Neighbours: neighbours})
}
