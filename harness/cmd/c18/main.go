// C18: program builders reject bad operands; Evaluate/Count/ReadCounts/
// Dependencies match their definitions; Product and Plus keep validity.
package main

import (
	"fmt"
	"math/big"
	"runtime"
	"strings"

	"github.com/mmcloughlin/addchain"
	"verif/harness/lib"
)

// ---------- encodings ----------

func encOps(p []addchain.Op) string {
	if len(p) == 0 {
		return "-"
	}
	ss := make([]string, len(p))
	for i, o := range p {
		ss[i] = fmt.Sprintf("%d+%d", o.I, o.J)
	}
	return strings.Join(ss, ",")
}

func decOps(s string) addchain.Program {
	p := addchain.Program{}
	if s == "-" {
		return p
	}
	for _, f := range strings.Split(s, ",") {
		ij := strings.Split(f, "+")
		p = append(p, addchain.Op{I: lib.Atoi(ij[0]), J: lib.Atoi(ij[1])})
	}
	return p
}

type call struct {
	kind byte // 'A', 'D', 'S'
	i, j int  // j: second operand of A, shift amount of S
}

func (c call) String() string {
	switch c.kind {
	case 'A':
		return fmt.Sprintf("A,%d,%d", c.i, c.j)
	case 'D':
		return fmt.Sprintf("D,%d", c.i)
	}
	return fmt.Sprintf("S,%d,%d", c.i, c.j)
}

func encCalls(cs []call) string {
	if len(cs) == 0 {
		return "-"
	}
	ss := make([]string, len(cs))
	for i, c := range cs {
		ss[i] = c.String()
	}
	return strings.Join(ss, ";")
}

func decCalls(s string) []call {
	if s == "-" {
		return nil
	}
	var cs []call
	for _, f := range strings.Split(s, ";") {
		a := strings.Split(f, ",")
		c := call{kind: a[0][0], i: lib.Atoi(a[1])}
		if len(a) > 2 {
			c.j = lib.Atoi(a[2])
		}
		cs = append(cs, c)
	}
	return cs
}

func ints(vs ...int64) []*big.Int {
	out := make([]*big.Int, len(vs))
	for i, v := range vs {
		out[i] = big.NewInt(v)
	}
	return out
}

func enc64(l []int64) string { return lib.HexList(ints(l...)) }

// apply performs one builder call on the real implementation.
func apply(p *addchain.Program, c call) (int, error) {
	switch c.kind {
	case 'A':
		return p.Add(c.i, c.j)
	case 'D':
		return p.Double(c.i)
	}
	return p.Shift(c.i, uint(c.j))
}

// ---------- generators ----------

func ascChains(n int) [][]int64 {
	cur := [][]int64{{1}}
	for l := 1; l < n; l++ {
		var next [][]int64
		for _, c := range cur {
			last := c[len(c)-1]
			seen := map[int64]bool{}
			for i := range c {
				for j := i; j < len(c); j++ {
					seen[c[i]+c[j]] = true
				}
			}
			for s := last + 1; s <= 2*last; s++ {
				if seen[s] {
					next = append(next, append(append([]int64{}, c...), s))
				}
			}
		}
		cur = next
	}
	return cur
}

// modelLen tracks the program length the calls would produce (generator-side bookkeeping only).
func lenAfter(n int, c call) int {
	in := func(i int) bool { return 0 <= i && i <= n }
	switch c.kind {
	case 'A':
		if in(c.i) && in(c.j) {
			return n + 1
		}
	case 'D':
		if in(c.i) {
			return n + 1
		}
	case 'S':
		if c.j > 0 && in(c.i) {
			return n + c.j
		}
	}
	return n
}

func gen(tier string, r *lib.Rand, emit func(string)) {
	chainLen, nrand, progLen := 6, 400, 3
	if tier == "thorough" {
		chainLen, nrand, progLen = 7, 8000, 4
	}

	// (a) every call sequence up to ncalls over operands -1..len+1 and shifts 0..3.  A rejected call
	// leaves the program as it was, so from depth `full` on the subtree under a rejected call is not
	// repeated (the call itself is still emitted after every explored prefix); shifts by more than
	// `smax` are emitted but not extended unless they are the last call.
	type cfg struct{ ncalls, full, smax int }
	cfgs := []cfg{{4, 1, 3}}
	if tier == "thorough" {
		cfgs = []cfg{{4, 2, 3}, {5, 1, 1}}
	}
	for _, cf := range cfgs {
		var rec func(cs []call, n int)
		rec = func(cs []call, n int) {
			emit("build " + encCalls(cs))
			if len(cs) == cf.ncalls {
				return
			}
			var next []call
			for i := -1; i <= n+1; i++ {
				next = append(next, call{'D', i, 0})
				for j := -1; j <= n+1; j++ {
					next = append(next, call{'A', i, j})
				}
				for s := 0; s <= 3; s++ {
					next = append(next, call{'S', i, s})
				}
			}
			for _, c := range next {
				m := lenAfter(n, c)
				ncs := append(append([]call{}, cs...), c)
				if (len(cs) >= cf.full && m == n) || (c.kind == 'S' && c.j > cf.smax && len(cs) < cf.ncalls-1) {
					emit("build " + encCalls(ncs))
					continue
				}
				rec(ncs, m)
			}
		}
		rec(nil, 0)
	}

	// (b) random long call sequences, about 90% in range
	for t := 0; t < nrand; t++ {
		k := r.Range(3, 40)
		n := 0
		var cs []call
		for len(cs) < k {
			pick := func() int {
				if r.Chance(1, 10) {
					if r.Bool() {
						return -1 - r.Intn(3)
					}
					return n + 1 + r.Intn(3)
				}
				if r.Chance(1, 2) {
					return n
				}
				return r.Intn(n + 1)
			}
			var c call
			switch r.Intn(3) {
			case 0:
				c = call{'A', pick(), pick()}
			case 1:
				c = call{'D', pick(), 0}
			default:
				c = call{'S', pick(), r.Intn(6)}
			}
			cs = append(cs, c)
			n = lenAfter(n, c)
		}
		emit("build " + encCalls(cs))
	}

	// (c) analyses: every program up to progLen over operands 0..len+1 (including forward
	// references, which panic), random long well-formed ones and long ones with one bad operand
	var prec func(cur []addchain.Op)
	prec = func(cur []addchain.Op) {
		e := encOps(cur)
		emit("count " + e)
		emit("reads " + e)
		emit("deps " + e)
		emit("evaluate " + e)
		if len(cur) == progLen {
			return
		}
		n := len(cur)
		for i := 0; i <= n+1; i++ {
			for j := 0; j <= n+1; j++ {
				prec(append(append([]addchain.Op{}, cur...), addchain.Op{I: i, J: j}))
			}
		}
	}
	prec(nil)
	// deeper, well-formed programs only: every operand order one level deeper (thorough tier), and
	// two levels deeper with i <= j (the shape Chain.Program produces)
	var wrec func(cur []addchain.Op, depth int, ordered bool)
	wrec = func(cur []addchain.Op, depth int, ordered bool) {
		if len(cur) == depth {
			e := encOps(cur)
			emit("count " + e)
			emit("reads " + e)
			emit("deps " + e)
			emit("evaluate " + e)
			return
		}
		n := len(cur)
		for i := 0; i <= n; i++ {
			j0 := 0
			if ordered {
				j0 = i
			}
			for j := j0; j <= n; j++ {
				wrec(append(append([]addchain.Op{}, cur...), addchain.Op{I: i, J: j}), depth, ordered)
			}
		}
	}
	if tier == "thorough" {
		wrec(nil, progLen+1, false)
	}
	wrec(nil, progLen+2, true)
	for t := 0; t < nrand; t++ {
		n := r.Range(1, 70)
		p := make([]addchain.Op, n)
		for k := range p {
			i, j := r.Intn(k+1), r.Intn(k+1)
			if r.Chance(1, 2) {
				j = k
			}
			if r.Chance(1, 4) {
				i = j
			}
			if r.Bool() {
				i, j = j, i
			}
			p[k] = addchain.Op{I: i, J: j}
		}
		if r.Chance(1, 5) {
			k := r.Intn(n)
			bad := k + 1 + r.Intn(3)
			if r.Chance(1, 3) {
				bad = n + r.Intn(3)
			}
			if r.Bool() {
				p[k].I = bad
			} else {
				p[k].J = bad
			}
		}
		e := encOps(p)
		emit("count " + e)
		emit("reads " + e)
		emit("deps " + e)
		emit("evaluate " + e)
	}

	// (d) product and plus: all pairs of ascending valid chains up to chainLen (sum of lengths bounded
	// in the quick tier), all members x; degenerate and invalid arguments; random big chains
	var all [][]int64
	for n := 1; n <= chainLen; n++ {
		all = append(all, ascChains(n)...)
	}
	for _, a := range all {
		for _, b := range all {
			if (tier != "thorough" && len(a)+len(b) > chainLen+3) || len(a)+len(b) > chainLen+4 {
				continue
			}
			emit("product " + enc64(a) + " " + enc64(b))
		}
		for _, x := range a {
			emit(fmt.Sprintf("plus %s %x", enc64(a), x))
		}
		emit(fmt.Sprintf("plus %s %x", enc64(a), a[len(a)-1]+1))
		emit(fmt.Sprintf("plus %s 0", enc64(a)))
		emit(fmt.Sprintf("plus %s -1", enc64(a)))
	}
	for _, s := range []string{"- -", "- 1", "1 -", "1,2 -", "- 1,2", "1,2,4,3 1,2", "1,2,4,6,3 1,2", "1,2,3 1,3,2", "1,0 1,2", "2 3", "1,-1 1,2"} {
		emit("product " + s)
	}
	for _, s := range []string{"- 1", "- 0", "1,3 1", "1,2,4,3 3", "1,2,4,3 4", "2 2"} {
		emit("plus " + s)
	}
	for t := 0; t < nrand; t++ {
		mk := func() []*big.Int {
			n := r.Range(1, 25)
			c := []*big.Int{big.NewInt(1)}
			for len(c) < n {
				i := len(c) - 1
				j := r.Intn(len(c))
				if r.Bool() {
					j = i
				}
				c = append(c, new(big.Int).Add(c[i], c[j]))
			}
			if r.Chance(1, 8) && n > 2 {
				i, j := r.Range(1, n-1), r.Range(1, n-1)
				c[i], c[j] = c[j], c[i]
			}
			return c
		}
		a, b := mk(), mk()
		emit("product " + lib.HexList(a) + " " + lib.HexList(b))
		x := a[r.Intn(len(a))]
		if r.Chance(1, 6) {
			x = r.Bits(r.Range(1, 20))
		}
		emit("plus " + lib.HexList(a) + " " + lib.Hex(x))
	}
}

// ---------- implementation ----------

func run(c string) string {
	f := strings.Split(c, " ")
	switch f[0] {
	case "build":
		p := addchain.Program{}
		items := []string{}
		for _, cl := range decCalls(f[1]) {
			idx, err := apply(&p, cl)
			if err != nil {
				items = append(items, fmt.Sprintf("E/%d", len(p)))
			} else {
				items = append(items, fmt.Sprintf("%d/%d", idx, len(p)))
			}
		}
		it := "-"
		if len(items) > 0 {
			it = strings.Join(items, ",")
		}
		return "ok " + it + " " + encOps(p)
	case "count":
		p := decOps(f[1])
		d, a := p.Count()
		if p.Doubles() != d || p.Adds() != a {
			return "ok inconsistent"
		}
		return fmt.Sprintf("ok %d %d", d, a)
	case "reads":
		return "ok " + lib.IntList(decOps(f[1]).ReadCounts())
	case "deps":
		return "ok " + lib.HexList(decOps(f[1]).Dependencies())
	case "evaluate":
		return "ok " + lib.HexList(decOps(f[1]).Evaluate())
	case "product":
		return "ok " + lib.HexList(addchain.Product(lib.ParseHexList(f[1]), lib.ParseHexList(f[2])))
	case "plus":
		return "ok " + lib.HexList(addchain.Plus(lib.ParseHexList(f[1]), lib.ParseHex(f[2])))
	}
	panic("unknown case " + c)
}

// ---------- oracle ----------

func isChain(c []*big.Int) bool {
	if len(c) == 0 || c[0].Cmp(big.NewInt(1)) != 0 {
		return false
	}
	for i, x := range c {
		if x.Sign() == 0 {
			return false
		}
		for j := 0; j < i; j++ {
			if c[j].Cmp(x) == 0 {
				return false
			}
		}
	}
	for k := 1; k < len(c); k++ {
		ok := false
		for i := 0; i < k && !ok; i++ {
			for j := i; j < k && !ok; j++ {
				ok = new(big.Int).Add(c[i], c[j]).Cmp(c[k]) == 0
			}
		}
		if !ok {
			return false
		}
	}
	return true
}

func isAsc(c []*big.Int) bool {
	if len(c) == 0 || c[0].Cmp(big.NewInt(1)) != 0 {
		return false
	}
	for i := 0; i+1 < len(c); i++ {
		if c[i].Cmp(c[i+1]) >= 0 {
			return false
		}
	}
	return true
}

func wellFormed(p addchain.Program) bool {
	for k, o := range p {
		if o.I < 0 || o.J < 0 || o.I > k || o.J > k {
			return false
		}
	}
	return true
}

func sameProg(a, b addchain.Program) bool {
	if len(a) != len(b) {
		return false
	}
	for i := range a {
		if a[i] != b[i] {
			return false
		}
	}
	return true
}

func oracleBuild(cs []call) string {
	p := addchain.Program{}
	for n, c := range cs {
		before := append(addchain.Program{}, p...)
		idx, err := apply(&p, c)
		l := len(before)
		in := func(i int) bool { return 0 <= i && i <= l }
		var want []addchain.Op
		accepted := false
		switch c.kind {
		case 'A':
			accepted = in(c.i) && in(c.j)
			want = []addchain.Op{{I: c.i, J: c.j}}
		case 'D':
			accepted = in(c.i)
			want = []addchain.Op{{I: c.i, J: c.i}}
		case 'S':
			if c.j == 0 {
				// outside the property ("by at least one"); the program must still be untouched
				if !sameProg(p, before) {
					return fmt.Sprintf("call %d: shift by zero changed the program", n)
				}
				continue
			}
			accepted = in(c.i)
			src := c.i
			for s := 0; s < c.j; s++ {
				want = append(want, addchain.Op{I: src, J: src})
				src = l + s + 1
			}
		}
		if !accepted {
			if err == nil {
				return fmt.Sprintf("call %d (%v): operand names a missing element but no error was returned", n, c)
			}
			if !sameProg(p, before) {
				return fmt.Sprintf("call %d (%v): rejected call changed the program", n, c)
			}
			continue
		}
		if err != nil {
			return fmt.Sprintf("call %d (%v): in-range operands rejected: %v", n, c, err)
		}
		if !sameProg(p, append(before, want...)) {
			return fmt.Sprintf("call %d (%v): program is not the old program plus the call's operations", n, c)
		}
		if idx != len(p) {
			return fmt.Sprintf("call %d (%v): returned %d, index of the new last element is %d", n, c, idx, len(p))
		}
		// every program so built evaluates to a chain one longer; doubles + adds = length
		if msg := evaluatesFine(p); msg != "" {
			return fmt.Sprintf("after call %d: %s", n, msg)
		}
	}
	return ""
}

func evaluatesFine(p addchain.Program) (msg string) {
	defer func() {
		if v := recover(); v != nil {
			msg = fmt.Sprintf("built program fails: %v", v)
		}
	}()
	c := p.Evaluate()
	if len(c) != len(p)+1 {
		return "evaluated chain is not one longer than the program"
	}
	if !isChainLoose(c, p) {
		return "evaluated chain does not follow the operations"
	}
	d, a := p.Count()
	if d+a != len(p) {
		return "doubles + adds != length"
	}
	return ""
}

// isChainLoose: c[0] = 1 and c[k+1] = c[I_k] + c[J_k].
func isChainLoose(c []*big.Int, p addchain.Program) bool {
	if c[0].Cmp(big.NewInt(1)) != 0 {
		return false
	}
	for k, o := range p {
		if new(big.Int).Add(c[o.I], c[o.J]).Cmp(c[k+1]) != 0 {
			return false
		}
	}
	return true
}

func oracle(c, res string) string {
	f := strings.Split(c, " ")
	switch f[0] {
	case "build":
		if !strings.HasPrefix(res, "ok ") {
			return "builder failed: " + res
		}
		return oracleBuild(decCalls(f[1]))
	case "count", "reads", "deps", "evaluate":
		p := decOps(f[1])
		q := append(addchain.Program{}, p...)
		defer func() { recover() }()
		wf := wellFormed(p)
		switch f[0] {
		case "count":
			d, a := 0, 0
			for _, o := range p {
				if o.I == o.J {
					d++
				} else {
					a++
				}
			}
			if res != fmt.Sprintf("ok %d %d", d, a) {
				return "count differs from the definition"
			}
			p.Count()
		case "reads":
			if !wf {
				return "" // outside the property; compared with the model only
			}
			want := make([]int, len(p)+1)
			for i := range want {
				for _, o := range p {
					if o.I == i || o.J == i {
						want[i]++
					}
				}
			}
			if res != "ok "+lib.IntList(want) {
				return "read counts differ from the number of operations using each element"
			}
			p.ReadCounts()
		case "deps":
			if !wf {
				if !strings.HasPrefix(res, "panic") {
					return "dependencies of a program with a forward reference did not fail"
				}
				return ""
			}
			// reflexive-transitive closure of "element k has operand i", by search
			want := make([]*big.Int, len(p)+1)
			for k := range want {
				seen := map[int]bool{k: true}
				todo := []int{k}
				for len(todo) > 0 {
					x := todo[len(todo)-1]
					todo = todo[:len(todo)-1]
					if x == 0 {
						continue
					}
					for _, y := range []int{p[x-1].I, p[x-1].J} {
						if !seen[y] {
							seen[y] = true
							todo = append(todo, y)
						}
					}
				}
				b := new(big.Int)
				for i := range seen {
					b.SetBit(b, i, 1)
				}
				want[k] = b
			}
			if res != "ok "+lib.HexList(want) {
				return "dependency sets differ from the reflexive-transitive closure of the operand relation"
			}
			p.Dependencies()
		case "evaluate":
			if !wf {
				if !strings.HasPrefix(res, "panic") {
					return "evaluate of a program with a forward reference did not fail"
				}
				return ""
			}
			want := []*big.Int{big.NewInt(1)}
			for _, o := range p {
				want = append(want, new(big.Int).Add(want[o.I], want[o.J]))
			}
			if res != "ok "+lib.HexList(want) {
				return "evaluate: wrong chain"
			}
			p.Evaluate()
		}
		if !sameProg(p, q) {
			return f[0] + " modified the program"
		}
	case "product":
		a, b := lib.ParseHexList(f[1]), lib.ParseHexList(f[2])
		a0, b0 := lib.CloneInts(a), lib.CloneInts(b)
		if !(isChain(a) && isAsc(a) && isChain(b) && isAsc(b)) {
			return ""
		}
		if !strings.HasPrefix(res, "ok ") {
			return "product of valid ascending chains failed: " + res
		}
		got := lib.ParseHexList(res[3:])
		if !isChain(got) {
			return "product of valid ascending chains is not a valid chain"
		}
		if !isAsc(got) {
			return "product of valid ascending chains is not ascending"
		}
		if got[len(got)-1].Cmp(new(big.Int).Mul(a[len(a)-1], b[len(b)-1])) != 0 {
			return "product does not end at the product of the end values"
		}
		addchain.Product(a, b)
		if !lib.EqualInts(a, a0) || !lib.EqualInts(b, b0) {
			return "product modified an argument"
		}
	case "plus":
		a, x := lib.ParseHexList(f[1]), lib.ParseHex(f[2])
		a0, x0 := lib.CloneInts(a), new(big.Int).Set(x)
		mem := false
		for _, y := range a {
			mem = mem || y.Cmp(x) == 0
		}
		if !(isChain(a) && isAsc(a) && mem) {
			return ""
		}
		if !strings.HasPrefix(res, "ok ") {
			return "plus on a valid ascending chain failed: " + res
		}
		got := lib.ParseHexList(res[3:])
		if !isChain(got) {
			return "plus with a member does not give a valid chain"
		}
		if got[len(got)-1].Cmp(new(big.Int).Add(a[len(a)-1], x)) != 0 {
			return "plus does not end at end + x"
		}
		// appending to the result must not write into the argument's backing array
		r2 := addchain.Plus(a, x)
		_ = append(r2, big.NewInt(0))
		if !lib.EqualInts(a, a0) || x.Cmp(x0) != 0 {
			return "plus modified an argument"
		}
	}
	return ""
}

func nontrivial(c, res string) bool {
	f := strings.Split(c, " ")
	switch f[0] {
	case "build":
		// at least one accepted and the line is not only rejections
		return strings.Count(f[1], ";") >= 1 && !strings.HasSuffix(res, " -")
	case "product", "plus":
		return strings.HasPrefix(res, "ok ") && strings.Count(f[1], ",") >= 1
	}
	return strings.HasPrefix(res, "ok ") && strings.Count(f[1], ",") >= 1
}

func main() {
	lib.Main(lib.Prop{
		ID:         "C18",
		Gen:        gen,
		Run:        run,
		Oracle:     oracle,
		Nontrivial: nontrivial,
		PanicClass: func(v interface{}) string {
			if e, ok := v.(runtime.Error); ok {
				m := e.Error()
				if strings.Contains(m, "index out of range") || strings.Contains(m, "slice bounds out of range") {
					return "index"
				}
			}
			return "other"
		},
	})
}
