// C18: program builders reject bad operands; Evaluate/Count/ReadCounts/
// Dependencies match their definitions; Product and Plus keep validity.
package main

import (
	"fmt"
	"math/big"
	"runtime"
	"strconv"
	"strings"

	"github.com/mmcloughlin/addchain"
	"verif/harness/lib"
)

// ---------- encodings ----------

func encOps(p []addchain.Op) string {
	if len(p) == 0 {
		return "-"
	}
	ss := make([]string, len(p))
	for i, o := range p {
		ss[i] = fmt.Sprintf("%d+%d", o.I, o.J)
	}
	return strings.Join(ss, ",")
}

func decOps(s string) addchain.Program {
	p := addchain.Program{}
	if s == "-" {
		return p
	}
	for _, f := range strings.Split(s, ",") {
		ij := strings.Split(f, "+")
		p = append(p, addchain.Op{I: lib.Atoi(ij[0]), J: lib.Atoi(ij[1])})
	}
	return p
}

type call struct {
	kind byte // 'A', 'D', 'S'
	i, j int  // j: second operand of A, shift amount of S
}

func (c call) String() string {
	switch c.kind {
	case 'A':
		return fmt.Sprintf("A,%d,%d", c.i, c.j)
	case 'D':
		return fmt.Sprintf("D,%d", c.i)
	}
	return fmt.Sprintf("S,%d,%d", c.i, uint64(c.j)) // the amount is a Go uint: j holds its two's-complement image
}

func encCalls(cs []call) string {
	if len(cs) == 0 {
		return "-"
	}
	ss := make([]string, len(cs))
	for i, c := range cs {
		ss[i] = c.String()
	}
	return strings.Join(ss, ";")
}

func decCalls(s string) []call {
	if s == "-" {
		return nil
	}
	var cs []call
	for _, f := range strings.Split(s, ";") {
		a := strings.Split(f, ",")
		c := call{kind: a[0][0], i: lib.Atoi(a[1])}
		if len(a) > 2 {
			if c.kind == 'S' {
				u, err := strconv.ParseUint(a[2], 10, 64)
				if err != nil {
					panic("harness: bad shift amount " + a[2])
				}
				c.j = int(u)
			} else {
				c.j = lib.Atoi(a[2])
			}
		}
		cs = append(cs, c)
	}
	return cs
}

func ints(vs ...int64) []*big.Int {
	out := make([]*big.Int, len(vs))
	for i, v := range vs {
		out[i] = big.NewInt(v)
	}
	return out
}

func enc64(l []int64) string { return lib.HexList(ints(l...)) }

// apply performs one builder call on the real implementation.
func apply(p *addchain.Program, c call) (int, error) {
	switch c.kind {
	case 'A':
		return p.Add(c.i, c.j)
	case 'D':
		return p.Double(c.i)
	}
	if uint64(c.j) > 1<<16 && 0 <= c.i && c.i <= len(*p) {
		// would append billions of doublings; the generators never emit this
		panic("harness: refusing a huge shift with an existing operand")
	}
	return p.Shift(c.i, uint(c.j))
}

// ---------- generators ----------

func ascChains(n int) [][]int64 {
	cur := [][]int64{{1}}
	for l := 1; l < n; l++ {
		var next [][]int64
		for _, c := range cur {
			last := c[len(c)-1]
			seen := map[int64]bool{}
			for i := range c {
				for j := i; j < len(c); j++ {
					seen[c[i]+c[j]] = true
				}
			}
			for s := last + 1; s <= 2*last; s++ {
				if seen[s] {
					next = append(next, append(append([]int64{}, c...), s))
				}
			}
		}
		cur = next
	}
	return cur
}

// modelLen tracks the program length the calls would produce (generator-side bookkeeping only).
func lenAfter(n int, c call) int {
	in := func(i int) bool { return 0 <= i && i <= n }
	switch c.kind {
	case 'A':
		if in(c.i) && in(c.j) {
			return n + 1
		}
	case 'D':
		if in(c.i) {
			return n + 1
		}
	case 'S':
		if uint64(c.j) > 0 && in(c.i) {
			return n + c.j
		}
	}
	return n
}

func gen(tier string, r *lib.Rand, emit func(string)) {
	chainLen, nrand, progLen := 6, 400, 3
	if tier == "thorough" {
		chainLen, nrand, progLen = 7, 8000, 4
	}

	// (a) every call sequence up to ncalls over operands -1..len+1 and shifts 0..3.  A rejected call
	// leaves the program as it was, so from depth `full` on the subtree under a rejected call is not
	// repeated (the call itself is still emitted after every explored prefix); shifts by more than
	// `smax` are emitted but not extended unless they are the last call.
	type cfg struct{ ncalls, full, smax int }
	cfgs := []cfg{{4, 1, 3}}
	if tier == "thorough" {
		cfgs = []cfg{{4, 2, 3}, {5, 1, 1}}
	}
	for _, cf := range cfgs {
		var rec func(cs []call, n int)
		rec = func(cs []call, n int) {
			emit("build " + encCalls(cs))
			if len(cs) == cf.ncalls {
				return
			}
			var next []call
			for i := -1; i <= n+1; i++ {
				next = append(next, call{'D', i, 0})
				for j := -1; j <= n+1; j++ {
					next = append(next, call{'A', i, j})
				}
				for s := 0; s <= 3; s++ {
					next = append(next, call{'S', i, s})
				}
			}
			for _, c := range next {
				m := lenAfter(n, c)
				ncs := append(append([]call{}, cs...), c)
				if (len(cs) >= cf.full && m == n) || (c.kind == 'S' && uint64(c.j) > uint64(cf.smax) && len(cs) < cf.ncalls-1) {
					emit("build " + encCalls(ncs))
					continue
				}
				rec(ncs, m)
			}
		}
		rec(nil, 0)
	}

	// (a') machine-word boundaries.  Shift amounts 2^31-1 .. 2^64-1 only ever with an operand that does
	// not exist (with an existing one the real code would append that many doublings), after prefixes
	// of different lengths; operands of Add / Double / Shift at the int boundaries; amounts up to a few
	// thousand with existing operands.
	bigS := []uint64{1<<31 - 1, 1 << 31, 1<<32 - 1, 1 << 32, 1<<63 - 1, 1 << 63, 1<<63 + 1, 1<<64 - 1, 1<<64 - 2, 1 << 62, 1 << 16, 65537}
	farI := []int{-1, -2, -1 << 31, -1<<31 - 1, -1 << 63, -1<<63 + 1, 1<<31 - 1, 1 << 31, 1 << 32, 1<<63 - 1, 1<<63 - 2}
	prefixes := [][]call{nil, {{'D', 0, 0}}, {{'D', 0, 0}, {'A', 1, 0}}, {{'S', 0, 3}, {'A', 3, 1}}}
	for _, pre := range prefixes {
		n := 0
		for _, c := range pre {
			n = lenAfter(n, c)
		}
		bad := append([]int{n + 1, n + 2, n + 1000}, farI...)
		for _, i := range bad {
			for _, sv := range bigS {
				cs := append(append([]call{}, pre...), call{'S', i, int(sv)})
				emit("build " + encCalls(cs))
				// and the program is still usable afterwards
				emit("build " + encCalls(append(cs, call{'D', n, 0}, call{'S', n + 1, 2})))
			}
			for _, sv := range []uint64{0, 1, 2, 1000} {
				emit("build " + encCalls(append(append([]call{}, pre...), call{'S', i, int(sv)})))
			}
			emit("build " + encCalls(append(append([]call{}, pre...), call{'D', i, 0})))
			emit("build " + encCalls(append(append([]call{}, pre...), call{'A', i, 0}, call{'A', 0, i}, call{'A', i, i})))
		}
		for _, sv := range []int{64, 255, 1000, 4097} {
			for i := 0; i <= n; i++ {
				emit("build " + encCalls(append(append([]call{}, pre...), call{'S', i, sv}, call{'A', n + sv, i})))
			}
		}
	}

	// (b) random long call sequences, about 90% in range
	for t := 0; t < nrand; t++ {
		k := r.Range(3, 40)
		n := 0
		var cs []call
		for len(cs) < k {
			pick := func() int {
				if r.Chance(1, 10) {
					if r.Bool() {
						return -1 - r.Intn(3)
					}
					return n + 1 + r.Intn(3)
				}
				if r.Chance(1, 2) {
					return n
				}
				return r.Intn(n + 1)
			}
			var c call
			switch r.Intn(3) {
			case 0:
				c = call{'A', pick(), pick()}
			case 1:
				c = call{'D', pick(), 0}
			default:
				c = call{'S', pick(), r.Intn(6)}
			}
			cs = append(cs, c)
			n = lenAfter(n, c)
		}
		emit("build " + encCalls(cs))
	}

	// (c) analyses: every program up to progLen over operands 0..len+1 (including forward
	// references, which panic), random long well-formed ones and long ones with one bad operand
	var prec func(cur []addchain.Op)
	prec = func(cur []addchain.Op) {
		e := encOps(cur)
		emit("count " + e)
		emit("reads " + e)
		emit("deps " + e)
		emit("evaluate " + e)
		if len(cur) == progLen {
			return
		}
		n := len(cur)
		for i := 0; i <= n+1; i++ {
			for j := 0; j <= n+1; j++ {
				prec(append(append([]addchain.Op{}, cur...), addchain.Op{I: i, J: j}))
			}
		}
	}
	prec(nil)
	// deeper, well-formed programs only: every operand order one level deeper (thorough tier), and
	// two levels deeper with i <= j (the shape Chain.Program produces)
	var wrec func(cur []addchain.Op, depth int, ordered bool)
	wrec = func(cur []addchain.Op, depth int, ordered bool) {
		if len(cur) == depth {
			e := encOps(cur)
			emit("count " + e)
			emit("reads " + e)
			emit("deps " + e)
			emit("evaluate " + e)
			return
		}
		n := len(cur)
		for i := 0; i <= n; i++ {
			j0 := 0
			if ordered {
				j0 = i
			}
			for j := j0; j <= n; j++ {
				wrec(append(append([]addchain.Op{}, cur...), addchain.Op{I: i, J: j}), depth, ordered)
			}
		}
	}
	if tier == "thorough" {
		wrec(nil, progLen+1, false)
	}
	wrec(nil, progLen+2, true)
	for t := 0; t < nrand; t++ {
		n := r.Range(1, 70)
		p := make([]addchain.Op, n)
		for k := range p {
			i, j := r.Intn(k+1), r.Intn(k+1)
			if r.Chance(1, 2) {
				j = k
			}
			if r.Chance(1, 4) {
				i = j
			}
			if r.Bool() {
				i, j = j, i
			}
			p[k] = addchain.Op{I: i, J: j}
		}
		if r.Chance(1, 5) {
			k := r.Intn(n)
			bad := k + 1 + r.Intn(3)
			if r.Chance(1, 3) {
				bad = n + r.Intn(3)
			}
			if r.Bool() {
				p[k].I = bad
			} else {
				p[k].J = bad
			}
		}
		e := encOps(p)
		emit("count " + e)
		emit("reads " + e)
		emit("deps " + e)
		emit("evaluate " + e)
	}

	// (d) product and plus: all pairs of ascending valid chains up to chainLen (sum of lengths bounded
	// in the quick tier), all members x; degenerate and invalid arguments; random big chains
	var all [][]int64
	for n := 1; n <= chainLen; n++ {
		all = append(all, ascChains(n)...)
	}
	for _, a := range all {
		for _, b := range all {
			if (tier != "thorough" && len(a)+len(b) > chainLen+3) || len(a)+len(b) > chainLen+4 {
				continue
			}
			emit("product " + enc64(a) + " " + enc64(b))
		}
		for _, x := range a {
			emit(fmt.Sprintf("plus %s %x", enc64(a), x))
		}
		emit(fmt.Sprintf("plus %s %x", enc64(a), a[len(a)-1]+1))
		emit(fmt.Sprintf("plus %s 0", enc64(a)))
		emit(fmt.Sprintf("plus %s -1", enc64(a)))
	}
	for _, s := range []string{"- -", "- 1", "1 -", "1,2 -", "- 1,2", "1,2,4,3 1,2", "1,2,4,6,3 1,2", "1,2,3 1,3,2", "1,0 1,2", "2 3", "1,-1 1,2"} {
		emit("product " + s)
	}
	for _, s := range []string{"- 1", "- 0", "1,3 1", "1,2,4,3 3", "1,2,4,3 4", "2 2"} {
		emit("plus " + s)
	}
	for t := 0; t < nrand; t++ {
		mk := func() []*big.Int {
			n := r.Range(1, 25)
			c := []*big.Int{big.NewInt(1)}
			for len(c) < n {
				i := len(c) - 1
				j := r.Intn(len(c))
				if r.Bool() {
					j = i
				}
				c = append(c, new(big.Int).Add(c[i], c[j]))
			}
			if r.Chance(1, 8) && n > 2 {
				i, j := r.Range(1, n-1), r.Range(1, n-1)
				c[i], c[j] = c[j], c[i]
			}
			return c
		}
		a, b := mk(), mk()
		emit("product " + lib.HexList(a) + " " + lib.HexList(b))
		x := a[r.Intn(len(a))]
		if r.Chance(1, 6) {
			x = r.Bits(r.Range(1, 20))
		}
		emit("plus " + lib.HexList(a) + " " + lib.Hex(x))
	}

	// (e) call histories over Product / Plus that keep every result alive (result independence):
	// every history of up to 3 (4) steps over the small chains, and random longer ones
	hb := [][]int64{{1, 2}, {1, 2, 3}, {1, 2, 4}, {1, 2, 3, 6}}
	hdepth, hlen := 3, 4
	if tier == "thorough" {
		hdepth, hlen = 4, 4
	}
	for n := 1; n <= hlen; n++ {
		for _, a := range ascChains(n) {
			var hrec func(steps []string)
			hrec = func(steps []string) {
				if len(steps) >= 2 {
					emit("phist " + enc64(a) + " " + strings.Join(steps, ";"))
				}
				if len(steps) == hdepth {
					return
				}
				for src := 0; src <= len(steps); src++ {
					if len(steps) >= 2 && src != 0 && src != len(steps) {
						continue // beyond two steps: the original and the newest chain only
					}
					for _, b := range hb {
						hrec(append(append([]string{}, steps...), fmt.Sprintf("p%d:%s", src, enc64(b))))
					}
					for _, x := range a {
						hrec(append(append([]string{}, steps...), fmt.Sprintf("l%d:%x", src, x)))
					}
				}
			}
			hrec(nil)
		}
	}
	emit("phist - p0:1,2;p0:1,2")
	emit("phist 1,2 p0:-;l0:1")
	emit("phist 1,2 p0:1,2;p1:-")
	for t := 0; t < nrand; t++ {
		mk := func(max int) []*big.Int {
			n := r.Range(1, max)
			c := []*big.Int{big.NewInt(1)}
			for len(c) < n {
				i := len(c) - 1
				j := r.Intn(len(c))
				if r.Bool() {
					j = i
				}
				c = append(c, new(big.Int).Add(c[i], c[j]))
			}
			return c
		}
		a := mk(12)
		k := r.Range(2, 8)
		steps := make([]string, k)
		for q := range steps {
			src := 0
			if r.Bool() {
				src = r.Intn(q + 1)
			}
			if r.Chance(2, 3) {
				steps[q] = fmt.Sprintf("p%d:%s", src, lib.HexList(mk(6)))
			} else {
				steps[q] = fmt.Sprintf("l%d:%s", src, lib.Hex(a[r.Intn(len(a))]))
			}
		}
		emit("phist " + lib.HexList(a) + " " + strings.Join(steps, ";"))
	}
}

// ---------- neighbours (hunt mode) ----------

func perturbSeq(s string, r *lib.Rand) string {
	xs := lib.ParseHexList(s)
	if len(xs) == 0 {
		return "1"
	}
	switch r.Intn(4) {
	case 0:
		i := r.Intn(len(xs))
		xs[i] = new(big.Int).Add(xs[i], big.NewInt(int64(r.Range(-2, 2))))
	case 1:
		i, j := r.Intn(len(xs)), r.Intn(len(xs))
		xs[i], xs[j] = xs[j], xs[i]
	case 2:
		i, j := r.Intn(len(xs)), r.Intn(len(xs))
		xs = append(xs, new(big.Int).Add(xs[i], xs[j]))
	default:
		xs = xs[:len(xs)-1]
	}
	return lib.HexList(xs)
}

func perturbOps(s string, r *lib.Rand) string {
	p := decOps(s)
	if len(p) == 0 || r.Chance(1, 5) {
		k := len(p)
		p = append(p, addchain.Op{I: r.Intn(k + 1), J: r.Intn(k + 1)})
		return encOps(p)
	}
	k := r.Intn(len(p))
	d := r.Range(-1, 1)
	if r.Bool() {
		p[k].I += d
		if p[k].I < 0 {
			p[k].I = 0
		}
	} else {
		p[k].J += d
		if p[k].J < 0 {
			p[k].J = 0
		}
	}
	return encOps(p)
}

func neighbours(c string, r *lib.Rand, emit func(string)) {
	f := strings.Split(c, " ")
	for t := 0; t < 12; t++ {
		switch f[0] {
		case "build":
			cs := decCalls(f[1])
			if len(cs) == 0 || r.Chance(1, 5) {
				cs = append(cs, call{"ADS"[r.Intn(3)], r.Range(-1, 4), r.Range(0, 3)})
			} else {
				k := r.Intn(len(cs))
				if cs[k].kind == 'S' && uint64(cs[k].j) > 1<<12 {
					cs[k].j = r.Range(0, 3) // a huge amount is only ever paired with a missing operand
				} else if r.Bool() {
					cs[k].i += r.Range(-1, 1)
				} else {
					cs[k].j += r.Range(-1, 1)
					if cs[k].kind == 'S' && cs[k].j < 0 {
						cs[k].j = 0
					}
				}
			}
			emit("build " + encCalls(cs))
		case "count", "reads", "deps", "evaluate":
			emit(f[0] + " " + perturbOps(f[1], r))
		case "product":
			if r.Bool() {
				emit("product " + perturbSeq(f[1], r) + " " + f[2])
			} else {
				emit("product " + f[1] + " " + perturbSeq(f[2], r))
			}
		case "plus":
			if r.Bool() {
				emit("plus " + perturbSeq(f[1], r) + " " + f[2])
			} else {
				a := lib.ParseHexList(f[1])
				if len(a) > 0 {
					emit("plus " + f[1] + " " + lib.Hex(a[r.Intn(len(a))]))
				}
			}
		case "phist":
			steps := strings.Split(f[2], ";")
			switch r.Intn(3) {
			case 0:
				emit("phist " + perturbSeq(f[1], r) + " " + f[2])
			case 1:
				k := r.Intn(len(steps))
				colon := strings.IndexByte(steps[k], ':')
				if steps[k][0] == 'p' {
					steps[k] = steps[k][:colon+1] + perturbSeq(steps[k][colon+1:], r)
				} else {
					steps[k] = fmt.Sprintf("%s%x", steps[k][:colon+1], r.Range(1, 9))
				}
				emit("phist " + f[1] + " " + strings.Join(steps, ";"))
			default:
				steps = append(steps, fmt.Sprintf("p%d:1,2,%x", r.Intn(len(steps)+1), r.Range(3, 4)))
				emit("phist " + f[1] + " " + strings.Join(steps, ";"))
			}
		}
	}
}

// ---------- storage shapes ----------
//
// Go slices alias: a function that appends into (or writes through) an argument can corrupt
// storage the caller still holds even when the returned value looks right.  Every case is therefore
// also run with its chain / program arguments laid out differently:
//   shape 0  exact capacity (fresh slice)
//   shape 1  spare capacity: make(len, cap+3), the tail holds nil / zero ops
//   shape 2  prefix full[:len] of a longer chain or program with live elements behind it
//   shape 3  like 1, and the second chain argument re-uses the first one's *big.Int elements
// and the watcher checks afterwards that the whole backing array (up to cap) and every element value
// are what they were.  The result line must not depend on the shape.

type watch struct {
	fulls [][]*big.Int // full-capacity views of every chain handed out
	ptrs  [][]*big.Int // element pointers at hand-out time
	vals  [][]*big.Int // element values at hand-out time (nil stays nil)
	pf    []addchain.Program
	pv    []addchain.Program
}

// chain lays xs out in the given shape; with shape 3 its elements are first replaced by the
// equal-valued element objects of shareWith.
func (w *watch) chain(xs []*big.Int, shape int, shareWith ...[]*big.Int) []*big.Int {
	if shape == 3 {
		xs = append([]*big.Int{}, xs...)
		for _, o := range shareWith {
			share(xs, o)
		}
	}
	var full []*big.Int
	switch shape {
	case 1, 3:
		full = make([]*big.Int, len(xs)+3)
		copy(full, xs)
	case 2:
		full = make([]*big.Int, len(xs), len(xs)+3)
		copy(full, xs)
		for k := int64(0); k < 3; k++ {
			full = append(full, big.NewInt(1000003+k))
		}
	default:
		full = make([]*big.Int, len(xs))
		copy(full, xs)
	}
	arg := full[:len(xs):len(full)]
	if w != nil {
		w.fulls = append(w.fulls, full)
		w.ptrs = append(w.ptrs, append([]*big.Int{}, full...))
		vs := make([]*big.Int, len(full))
		for i, x := range full {
			if x != nil {
				vs[i] = new(big.Int).Set(x)
			}
		}
		w.vals = append(w.vals, vs)
	}
	return arg
}

func (w *watch) prog(p addchain.Program, shape int) addchain.Program {
	var full addchain.Program
	switch shape {
	case 1, 3:
		full = make(addchain.Program, len(p)+3)
		copy(full, p)
	case 2:
		full = append(append(addchain.Program{}, p...), addchain.Op{I: 77, J: 78}, addchain.Op{I: 79, J: 80}, addchain.Op{I: 81, J: 82})
	default:
		full = append(addchain.Program{}, p...)
	}
	arg := full[:len(p):len(full)]
	if w != nil {
		w.pf = append(w.pf, full)
		w.pv = append(w.pv, append(addchain.Program{}, full...))
	}
	return arg
}

// share makes b re-use a's element objects wherever the values coincide.
func share(b, a []*big.Int) {
	for i, y := range b {
		for _, x := range a {
			if y != nil && x != nil && x.Cmp(y) == 0 {
				b[i] = x
				break
			}
		}
	}
}

func (w *watch) check() string {
	for n, full := range w.fulls {
		for i := range full {
			if full[i] != w.ptrs[n][i] {
				return fmt.Sprintf("argument storage overwritten: slot %d of the backing array of chain argument %d now holds another element", i, n)
			}
			if full[i] != nil && full[i].Cmp(w.vals[n][i]) != 0 {
				return fmt.Sprintf("argument element modified in place: slot %d of chain argument %d", i, n)
			}
		}
	}
	for n, full := range w.pf {
		for i := range full {
			if full[i] != w.pv[n][i] {
				return fmt.Sprintf("argument storage overwritten: op slot %d of program argument %d", i, n)
			}
		}
	}
	return ""
}

func panicClass(v interface{}) string {
	if e, ok := v.(runtime.Error); ok {
		m := e.Error()
		if strings.Contains(m, "index out of range") || strings.Contains(m, "slice bounds out of range") {
			return "index"
		}
	}
	return "other"
}

func safely(f func() string) (res string) {
	defer func() {
		if v := recover(); v != nil {
			res = "panic " + panicClass(v)
		}
	}()
	return f()
}

// shapeCheck re-runs the case in other storage shapes: same result line, no storage touched.
func shapeCheck(c, res string, shapes []int) string {
	for _, sh := range shapes {
		w := &watch{}
		got := safely(func() string { return runShaped(c, sh, w) })
		if got != res {
			return fmt.Sprintf("result depends on how the argument is stored (shape %d): %s instead of %s", sh, got, res)
		}
		if msg := w.check(); msg != "" {
			return fmt.Sprintf("%s (shape %d)", msg, sh)
		}
	}
	return ""
}

func pickShape(c string) int {
	h := uint32(2166136261)
	for i := 0; i < len(c); i++ {
		h = (h ^ uint32(c[i])) * 16777619
	}
	return 1 + int(h%3)
}

// ---------- call histories over Product / Plus ----------
// phist <a> <steps>; steps joined by ';': p<src>:<b> = Product(chain src, b), l<src>:<x> = Plus(chain src, x);
// chain 0 is a, chain k the result of step k.  All results are read only after the last call.

type hstep struct {
	kind byte
	src  int
	b    []*big.Int
	x    *big.Int
}

func decSteps(s string) []hstep {
	var out []hstep
	for _, f := range strings.Split(s, ";") {
		colon := strings.IndexByte(f, ':')
		st := hstep{kind: f[0], src: lib.Atoi(f[1:colon])}
		if st.kind == 'p' {
			st.b = lib.ParseHexList(f[colon+1:])
		} else {
			st.x = lib.ParseHex(f[colon+1:])
		}
		out = append(out, st)
	}
	return out
}

// runHistory performs the calls; chains[0] is a, chains[k] the live result of step k.
func runHistory(a []*big.Int, steps []hstep, shape int, w *watch, after func(k int, chains [][]*big.Int)) [][]*big.Int {
	chains := [][]*big.Int{w.chain(a, shape)}
	for k, st := range steps {
		left := chains[st.src]
		var r addchain.Chain
		if st.kind == 'p' {
			b := w.chain(st.b, shape, left)
			r = addchain.Product(left, b)
		} else {
			x := st.x
			if shape == 3 {
				xs := []*big.Int{x}
				share(xs, left)
				x = xs[0]
			}
			r = addchain.Plus(left, x)
		}
		chains = append(chains, r)
		if after != nil {
			after(k+1, chains)
		}
	}
	return chains
}

func encChains(cs [][]*big.Int) string {
	ss := make([]string, len(cs))
	for i, c := range cs {
		ss[i] = lib.HexList(c)
	}
	return strings.Join(ss, ";")
}

func oracleHistory(a []*big.Int, steps []hstep) string {
	for shape := 0; shape <= 3; shape++ {
		w := &watch{}
		var snaps [][]*big.Int // value of every chain right after it was produced
		msg := ""
		func() {
			defer func() {
				if v := recover(); v != nil {
					msg = fmt.Sprintf("history panicked: %v", v)
				}
			}()
			snaps = append(snaps, lib.CloneInts(a))
			chains := runHistory(a, steps, shape, w, func(k int, chains [][]*big.Int) {
				snaps = append(snaps, lib.CloneInts(chains[k]))
				st := steps[k-1]
				left := snaps[st.src]
				if !(isChain(left) && isAsc(left)) {
					return
				}
				got := chains[k]
				if st.kind == 'p' && isChain(st.b) && isAsc(st.b) {
					if !isChain(got) || !isAsc(got) || got[len(got)-1].Cmp(new(big.Int).Mul(left[len(left)-1], st.b[len(st.b)-1])) != 0 {
						msg = fmt.Sprintf("step %d: product is not a valid ascending chain ending at the product of the ends", k)
					}
				}
				if st.kind == 'l' {
					mem := false
					for _, y := range left {
						mem = mem || y.Cmp(st.x) == 0
					}
					if mem && (!isChain(got) || got[len(got)-1].Cmp(new(big.Int).Add(left[len(left)-1], st.x)) != 0) {
						msg = fmt.Sprintf("step %d: plus is not a valid chain ending at end + x", k)
					}
				}
			})
			if msg != "" {
				return
			}
			for k, c := range chains {
				if !lib.EqualInts(c, snaps[k]) {
					what := fmt.Sprintf("the result of step %d", k)
					if k == 0 {
						what = "the first argument"
					}
					msg = fmt.Sprintf("%s changed after later calls: %s -> %s", what, lib.HexList(snaps[k]), lib.HexList(c))
					return
				}
			}
			msg = w.check()
		}()
		if msg != "" {
			if strings.HasPrefix(msg, "history panicked") {
				expect := len(a) == 0
				for _, st := range steps {
					expect = expect || (st.kind == 'p' && len(st.b) == 0)
				}
				if expect {
					return ""
				}
			}
			return fmt.Sprintf("%s (storage shape %d)", msg, shape)
		}
	}
	return ""
}

// ---------- implementation ----------

func run(c string) string { return runShaped(c, 0, nil) }

func runShaped(c string, shape int, w *watch) string {
	f := strings.Split(c, " ")
	switch f[0] {
	case "build":
		p := addchain.Program{}
		if shape != 0 {
			p = make(addchain.Program, 0, 2+shape)
		}
		items := []string{}
		for _, cl := range decCalls(f[1]) {
			idx, err := apply(&p, cl)
			if err != nil {
				items = append(items, fmt.Sprintf("E/%d", len(p)))
			} else {
				items = append(items, fmt.Sprintf("%d/%d", idx, len(p)))
			}
		}
		it := "-"
		if len(items) > 0 {
			it = strings.Join(items, ",")
		}
		return "ok " + it + " " + encOps(p)
	case "count":
		p := w.prog(decOps(f[1]), shape)
		d, a := p.Count()
		if p.Doubles() != d || p.Adds() != a {
			return "ok inconsistent"
		}
		return fmt.Sprintf("ok %d %d", d, a)
	case "reads":
		return "ok " + lib.IntList(w.prog(decOps(f[1]), shape).ReadCounts())
	case "deps":
		return "ok " + lib.HexList(w.prog(decOps(f[1]), shape).Dependencies())
	case "evaluate":
		return "ok " + lib.HexList(w.prog(decOps(f[1]), shape).Evaluate())
	case "product":
		a := w.chain(lib.ParseHexList(f[1]), shape)
		b := w.chain(lib.ParseHexList(f[2]), shape, a)
		return "ok " + lib.HexList(addchain.Product(a, b))
	case "plus":
		a, x := w.chain(lib.ParseHexList(f[1]), shape), lib.ParseHex(f[2])
		if shape == 3 {
			xs := []*big.Int{x}
			share(xs, a)
			x = xs[0]
		}
		return "ok " + lib.HexList(addchain.Plus(a, x))
	case "phist":
		chains := runHistory(lib.ParseHexList(f[1]), decSteps(f[2]), shape, w, nil)
		return "ok " + encChains(chains[1:])
	}
	panic("unknown case " + c)
}

// ---------- oracle ----------

func isChain(c []*big.Int) bool {
	if len(c) == 0 || c[0].Cmp(big.NewInt(1)) != 0 {
		return false
	}
	for i, x := range c {
		if x.Sign() == 0 {
			return false
		}
		for j := 0; j < i; j++ {
			if c[j].Cmp(x) == 0 {
				return false
			}
		}
	}
	for k := 1; k < len(c); k++ {
		ok := false
		for i := 0; i < k && !ok; i++ {
			for j := i; j < k && !ok; j++ {
				ok = new(big.Int).Add(c[i], c[j]).Cmp(c[k]) == 0
			}
		}
		if !ok {
			return false
		}
	}
	return true
}

func isAsc(c []*big.Int) bool {
	if len(c) == 0 || c[0].Cmp(big.NewInt(1)) != 0 {
		return false
	}
	for i := 0; i+1 < len(c); i++ {
		if c[i].Cmp(c[i+1]) >= 0 {
			return false
		}
	}
	return true
}

func wellFormed(p addchain.Program) bool {
	for k, o := range p {
		if o.I < 0 || o.J < 0 || o.I > k || o.J > k {
			return false
		}
	}
	return true
}

func sameProg(a, b addchain.Program) bool {
	if len(a) != len(b) {
		return false
	}
	for i := range a {
		if a[i] != b[i] {
			return false
		}
	}
	return true
}

func oracleBuild(cs []call) string {
	p := addchain.Program{}
	var views, snaps []addchain.Program // slice headers taken after each call, and their contents then
	defer func() { views, snaps = nil, nil }()
	for n, c := range cs {
		views = append(views, p)
		snaps = append(snaps, append(addchain.Program{}, p...))
		for v := range views {
			if !sameProg(views[v], snaps[v]) {
				return fmt.Sprintf("call %d rewrote operations of the program as it was before call %d", n-1, v)
			}
		}
		before := append(addchain.Program{}, p...)
		idx, err := apply(&p, c)
		l := len(before)
		in := func(i int) bool { return 0 <= i && i <= l }
		var want []addchain.Op
		accepted := false
		switch c.kind {
		case 'A':
			accepted = in(c.i) && in(c.j)
			want = []addchain.Op{{I: c.i, J: c.j}}
		case 'D':
			accepted = in(c.i)
			want = []addchain.Op{{I: c.i, J: c.i}}
		case 'S':
			if c.j == 0 {
				// outside the property ("by at least one"); the program must still be untouched
				if !sameProg(p, before) {
					return fmt.Sprintf("call %d: shift by zero changed the program", n)
				}
				continue
			}
			accepted = in(c.i)
			src := c.i
			for s := 0; accepted && s < c.j; s++ {
				want = append(want, addchain.Op{I: src, J: src})
				src = l + s + 1
			}
		}
		if !accepted {
			if err == nil {
				return fmt.Sprintf("call %d (%v): operand names a missing element but no error was returned", n, c)
			}
			if !sameProg(p, before) {
				return fmt.Sprintf("call %d (%v): rejected call changed the program", n, c)
			}
			continue
		}
		if err != nil {
			return fmt.Sprintf("call %d (%v): in-range operands rejected: %v", n, c, err)
		}
		if !sameProg(p, append(before, want...)) {
			return fmt.Sprintf("call %d (%v): program is not the old program plus the call's operations", n, c)
		}
		if idx != len(p) {
			return fmt.Sprintf("call %d (%v): returned %d, index of the new last element is %d", n, c, idx, len(p))
		}
		// every program so built evaluates to a chain one longer; doubles + adds = length
		if msg := evaluatesFine(p); msg != "" {
			return fmt.Sprintf("after call %d: %s", n, msg)
		}
	}
	return ""
}

func evaluatesFine(p addchain.Program) (msg string) {
	defer func() {
		if v := recover(); v != nil {
			msg = fmt.Sprintf("built program fails: %v", v)
		}
	}()
	c := p.Evaluate()
	if len(c) != len(p)+1 {
		return "evaluated chain is not one longer than the program"
	}
	if !isChainLoose(c, p) {
		return "evaluated chain does not follow the operations"
	}
	d, a := p.Count()
	if d+a != len(p) {
		return "doubles + adds != length"
	}
	return ""
}

// isChainLoose: c[0] = 1 and c[k+1] = c[I_k] + c[J_k].
func isChainLoose(c []*big.Int, p addchain.Program) bool {
	if c[0].Cmp(big.NewInt(1)) != 0 {
		return false
	}
	for k, o := range p {
		if new(big.Int).Add(c[o.I], c[o.J]).Cmp(c[k+1]) != 0 {
			return false
		}
	}
	return true
}

func oracle(c, res string) string {
	if msg := oracle1(c, res); msg != "" {
		return msg
	}
	f := strings.Split(c, " ")
	switch f[0] {
	case "phist":
		return "" // oracleHistory already ran every shape
	case "product", "plus":
		return shapeCheck(c, res, []int{1, 2, 3})
	}
	return shapeCheck(c, res, []int{pickShape(c)})
}

func oracle1(c, res string) string {
	f := strings.Split(c, " ")
	switch f[0] {
	case "phist":
		return oracleHistory(lib.ParseHexList(f[1]), decSteps(f[2]))
	case "build":
		if !strings.HasPrefix(res, "ok ") {
			return "builder failed: " + res
		}
		return oracleBuild(decCalls(f[1]))
	case "count", "reads", "deps", "evaluate":
		p := decOps(f[1])
		q := append(addchain.Program{}, p...)
		defer func() { recover() }()
		wf := wellFormed(p)
		switch f[0] {
		case "count":
			d, a := 0, 0
			for _, o := range p {
				if o.I == o.J {
					d++
				} else {
					a++
				}
			}
			if res != fmt.Sprintf("ok %d %d", d, a) {
				return "count differs from the definition"
			}
			p.Count()
		case "reads":
			if !wf {
				return "" // outside the property; compared with the model only
			}
			want := make([]int, len(p)+1)
			for i := range want {
				for _, o := range p {
					if o.I == i || o.J == i {
						want[i]++
					}
				}
			}
			if res != "ok "+lib.IntList(want) {
				return "read counts differ from the number of operations using each element"
			}
			p.ReadCounts()
		case "deps":
			if !wf {
				if !strings.HasPrefix(res, "panic") {
					return "dependencies of a program with a forward reference did not fail"
				}
				return ""
			}
			// reflexive-transitive closure of "element k has operand i", by search
			want := make([]*big.Int, len(p)+1)
			for k := range want {
				seen := map[int]bool{k: true}
				todo := []int{k}
				for len(todo) > 0 {
					x := todo[len(todo)-1]
					todo = todo[:len(todo)-1]
					if x == 0 {
						continue
					}
					for _, y := range []int{p[x-1].I, p[x-1].J} {
						if !seen[y] {
							seen[y] = true
							todo = append(todo, y)
						}
					}
				}
				b := new(big.Int)
				for i := range seen {
					b.SetBit(b, i, 1)
				}
				want[k] = b
			}
			if res != "ok "+lib.HexList(want) {
				return "dependency sets differ from the reflexive-transitive closure of the operand relation"
			}
			p.Dependencies()
		case "evaluate":
			if !wf {
				if !strings.HasPrefix(res, "panic") {
					return "evaluate of a program with a forward reference did not fail"
				}
				return ""
			}
			want := []*big.Int{big.NewInt(1)}
			for _, o := range p {
				want = append(want, new(big.Int).Add(want[o.I], want[o.J]))
			}
			if res != "ok "+lib.HexList(want) {
				return "evaluate: wrong chain"
			}
			p.Evaluate()
		}
		if !sameProg(p, q) {
			return f[0] + " modified the program"
		}
	case "product":
		a, b := lib.ParseHexList(f[1]), lib.ParseHexList(f[2])
		a0, b0 := lib.CloneInts(a), lib.CloneInts(b)
		if !(isChain(a) && isAsc(a) && isChain(b) && isAsc(b)) {
			return ""
		}
		if !strings.HasPrefix(res, "ok ") {
			return "product of valid ascending chains failed: " + res
		}
		got := lib.ParseHexList(res[3:])
		if !isChain(got) {
			return "product of valid ascending chains is not a valid chain"
		}
		if !isAsc(got) {
			return "product of valid ascending chains is not ascending"
		}
		if got[len(got)-1].Cmp(new(big.Int).Mul(a[len(a)-1], b[len(b)-1])) != 0 {
			return "product does not end at the product of the end values"
		}
		addchain.Product(a, b)
		if !lib.EqualInts(a, a0) || !lib.EqualInts(b, b0) {
			return "product modified an argument"
		}
	case "plus":
		a, x := lib.ParseHexList(f[1]), lib.ParseHex(f[2])
		a0, x0 := lib.CloneInts(a), new(big.Int).Set(x)
		mem := false
		for _, y := range a {
			mem = mem || y.Cmp(x) == 0
		}
		if !(isChain(a) && isAsc(a) && mem) {
			return ""
		}
		if !strings.HasPrefix(res, "ok ") {
			return "plus on a valid ascending chain failed: " + res
		}
		got := lib.ParseHexList(res[3:])
		if !isChain(got) {
			return "plus with a member does not give a valid chain"
		}
		if got[len(got)-1].Cmp(new(big.Int).Add(a[len(a)-1], x)) != 0 {
			return "plus does not end at end + x"
		}
		// appending to the result must not write into the argument's backing array
		r2 := addchain.Plus(a, x)
		_ = append(r2, big.NewInt(0))
		if !lib.EqualInts(a, a0) || x.Cmp(x0) != 0 {
			return "plus modified an argument"
		}
	}
	return ""
}

func nontrivial(c, res string) bool {
	f := strings.Split(c, " ")
	switch f[0] {
	case "build":
		// at least one accepted and the line is not only rejections
		return strings.Count(f[1], ";") >= 1 && !strings.HasSuffix(res, " -")
	case "product", "plus", "phist":
		return strings.HasPrefix(res, "ok ") && strings.Count(f[1], ",") >= 1
	}
	return strings.HasPrefix(res, "ok ") && strings.Count(f[1], ",") >= 1
}

func main() {
	lib.Main(lib.Prop{
		ID:         "C18",
		Gen:        gen,
		Run:        run,
		Oracle:     oracle,
		Nontrivial: nontrivial,
		PanicClass: panicClass,
		Neighbours: neighbours,
	})
}
