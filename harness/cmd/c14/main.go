// Harness for C14: the search command's report is self-consistent, minimal and reproducible.
//
// Everything here goes through the REAL BINARY ($ADDCHAIN_BIN, built by bin/check from the working
// tree): cmd/addchain is package main and has no other entry point.
//
// Case kinds (see coq/dispatch/C14.v):
//
//	search <expr> <p> <add> <double> <table> <best> <ops>
//	select <expr> <p> <add> <double> <table>
//	report <expr> <p> <add> <double> <ops>
//
// <table>, <best>, <ops> are data OBSERVED from `search -v` when the case was generated (the model does
// not re-run the ensemble: that is C01). Run executes the binary again, refuses (err unstable-*) when the
// fresh observation differs from the one in the case line, and prints what the binary reported.
package main

import (
	"bytes"
	"context"
	"fmt"
	"math"
	"math/big"
	"os"
	"os/exec"
	"regexp"
	"strconv"
	"strings"
	"sync"
	"time"

	"verif/harness/lib"
)

// ---------------------------------------------------------------------------------------------
// running the binary
// ---------------------------------------------------------------------------------------------

type procResult struct {
	exit   int // -1: could not run / killed
	stdout []byte
	stderr string
}

func bin() string {
	b := os.Getenv("ADDCHAIN_BIN")
	if b == "" {
		panic("ADDCHAIN_BIN not set")
	}
	return b
}

func runBin(stdin []byte, args ...string) procResult {
	ctx, cancel := context.WithTimeout(context.Background(), 300*time.Second)
	defer cancel()
	cmd := exec.CommandContext(ctx, bin(), args...)
	cmd.Stdin = bytes.NewReader(stdin)
	var so, se bytes.Buffer
	cmd.Stdout = &so
	cmd.Stderr = &se
	cmd.Env = append(os.Environ(), "ADDCHAIN_PROFILE=")
	err := cmd.Run()
	r := procResult{stdout: so.Bytes(), stderr: se.String()}
	if err == nil {
		r.exit = 0
	} else if ee, ok := err.(*exec.ExitError); ok && ctx.Err() == nil {
		r.exit = ee.ExitCode()
	} else {
		r.exit = -1
	}
	return r
}

func crashed(stderr string) bool {
	return strings.Contains(stderr, "panic:") || strings.Contains(stderr, "goroutine ") || strings.Contains(stderr, "fatal error:")
}

// obs is what one `search` invocation let us observe.
type obs struct {
	proc    procResult
	class   string // ok | usage | eval | nonpos | alg | other | crash
	nhex    string
	names   []string
	table   [][2]int // doubles, adds per algorithm
	costs   []string // printed cost per algorithm
	ops     [][2]int // detail lines of the best program
	vals    []string // their values (hex)
	best    int      // index of the `best:` name in names, -1 if absent/ambiguous
	cost    string   // printed final cost
	logOK   bool     // the -v log had the expected shape
	verbose bool
}

var (
	reAlg    = regexp.MustCompile(`^algorithm: (.*)$`)
	reRow    = regexp.MustCompile(`^cost: (\S+)\tdoubles: \t(\d+) adds: (\d+)$`)
	reDetail = regexp.MustCompile(`^\[ *(\d+)\] +(\d+)\+ *(\d+)\t([0-9a-f]+)$`)
	reBest   = regexp.MustCompile(`^best: (.*)$`)
	reCost   = regexp.MustCompile(`^cost: (\S+)$`)
	reHex    = regexp.MustCompile(`^hex: ([0-9a-f]+)$`)
)

func searchArgs(expr string, p int, add, dbl string, verbose bool) []string {
	a := []string{"search"}
	if verbose {
		a = append(a, "-v")
	}
	// "--" so that an expression starting with '-' is not taken for a flag
	return append(a, "-p", strconv.Itoa(p), "-add", add, "-double", dbl, "--", expr)
}

func runSearch(expr string, p int, add, dbl string, verbose bool) *obs {
	o := &obs{best: -1, verbose: verbose, logOK: true}
	o.proc = runBin(nil, searchArgs(expr, p, add, dbl, verbose)...)
	var lines []string
	for _, l := range strings.Split(o.proc.stderr, "\n") {
		if strings.HasPrefix(l, "addchain: ") {
			lines = append(lines, strings.TrimPrefix(l, "addchain: "))
		}
	}
	switch {
	case crashed(o.proc.stderr) || o.proc.exit < 0 || o.proc.exit > 2:
		o.class = "crash"
	case o.proc.exit == 0:
		o.class = "ok"
	case o.proc.exit == 2:
		o.class = "usage"
	default:
		last := ""
		if len(lines) > 0 {
			last = lines[len(lines)-1]
		}
		switch {
		case strings.HasPrefix(last, "failed to evaluate"):
			o.class = "eval"
		case strings.HasPrefix(last, "target must be a positive integer"):
			o.class = "nonpos"
		case strings.HasPrefix(last, "algorithm error"):
			o.class = "alg"
		case strings.HasPrefix(last, "concurrency must be"):
			o.class = "usage1" // usage message with the wrong status
		default:
			o.class = "other"
		}
	}
	pendingAlg := false
	for _, l := range lines {
		if m := reHex.FindStringSubmatch(l); m != nil {
			o.nhex = m[1]
		} else if m := reAlg.FindStringSubmatch(l); m != nil {
			if pendingAlg {
				o.logOK = false
			}
			o.names = append(o.names, m[1])
			pendingAlg = true
		} else if m := reRow.FindStringSubmatch(l); m != nil {
			if !pendingAlg {
				o.logOK = false
			}
			pendingAlg = false
			o.costs = append(o.costs, m[1])
			o.table = append(o.table, [2]int{lib.Atoi(m[2]), lib.Atoi(m[3])})
		} else if m := reDetail.FindStringSubmatch(l); m != nil {
			if lib.Atoi(m[1]) != len(o.ops)+1 {
				o.logOK = false
			}
			o.ops = append(o.ops, [2]int{lib.Atoi(m[2]), lib.Atoi(m[3])})
			o.vals = append(o.vals, m[4])
		} else if m := reBest.FindStringSubmatch(l); m != nil {
			cnt := 0
			for i, n := range o.names {
				if n == m[1] {
					cnt++
					if o.best < 0 {
						o.best = i
					}
				}
			}
			if cnt != 1 && verbose {
				o.logOK = false
			}
		} else if m := reCost.FindStringSubmatch(l); m != nil {
			o.cost = m[1]
		}
	}
	if o.class == "ok" && verbose && (o.best < 0 || len(o.names) != len(o.table) || pendingAlg || o.cost == "" || o.nhex == "") {
		o.logOK = false
	}
	return o
}

// ---------------------------------------------------------------------------------------------
// encodings
// ---------------------------------------------------------------------------------------------

func encTable(t [][2]int) string {
	if len(t) == 0 {
		return "-"
	}
	ss := make([]string, len(t))
	for i, r := range t {
		ss[i] = fmt.Sprintf("%d:%d", r[0], r[1])
	}
	return strings.Join(ss, ",")
}

func encOps(t [][2]int) string {
	if len(t) == 0 {
		return "-"
	}
	ss := make([]string, len(t))
	for i, r := range t {
		ss[i] = fmt.Sprintf("%d+%d", r[0], r[1])
	}
	return strings.Join(ss, ",")
}

func decPairs(s, sep string) [][2]int {
	if s == "-" {
		return nil
	}
	var out [][2]int
	for _, f := range strings.Split(s, ",") {
		ab := strings.Split(f, sep)
		if len(ab) != 2 {
			panic("harness: bad pair " + strconv.Quote(f))
		}
		out = append(out, [2]int{lib.Atoi(ab[0]), lib.Atoi(ab[1])})
	}
	return out
}

// ratOf reads a Go %v float (or a decimal weight as the flag package reads it) as the exact value of the
// float64 it denotes: %v prints the shortest decimal that round-trips, which need not be the exact value.
// nil if it is not a finite number.
func ratOf(s string) *big.Rat {
	f, err := strconv.ParseFloat(s, 64)
	if err != nil || math.IsInf(f, 0) || math.IsNaN(f) {
		return nil
	}
	return new(big.Rat).SetFloat64(f)
}

func encRat(r *big.Rat) string {
	if r == nil {
		return "inf"
	}
	return r.Num().String() + "/" + r.Denom().String()
}

func decRat(s string) *big.Rat {
	if s == "inf" {
		return nil
	}
	r, ok := new(big.Rat).SetString(s)
	if !ok {
		return nil
	}
	return r
}

type spec struct {
	expr     string
	p        int
	add, dbl string
}

func (s spec) head() string {
	return fmt.Sprintf("%s %d %s %s", lib.Bytes([]byte(s.expr)), s.p, s.add, s.dbl)
}

func parseSpec(f []string) spec {
	return spec{expr: string(lib.ParseBytes(f[0])), p: lib.Atoi(f[1]), add: f[2], dbl: f[3]}
}

// observation cache: `select` and `report` cases reuse the observation of their `search` case; the
// `search` case itself always runs the binary afresh.
var (
	cacheMu sync.Mutex
	cache   = map[string]*obs{}
)

func observe(s spec, fresh bool) *obs {
	k := s.head()
	if !fresh {
		cacheMu.Lock()
		o := cache[k]
		cacheMu.Unlock()
		if o != nil {
			return o
		}
	}
	o := runSearch(s.expr, s.p, s.add, s.dbl, true)
	cacheMu.Lock()
	cache[k] = o
	cacheMu.Unlock()
	return o
}

func searchCase(s spec, o *obs) string {
	best := o.best
	if best < 0 {
		best = 0
	}
	return fmt.Sprintf("search %s %s %d %s", s.head(), encTable(o.table), best, encOps(o.ops))
}

// ---------------------------------------------------------------------------------------------
// Run
// ---------------------------------------------------------------------------------------------

var lastObs = map[string]*obs{}

func errLine(o *obs) string {
	switch o.class {
	case "crash":
		return "panic crash"
	default:
		return "err " + o.class
	}
}

func run(c string) string {
	f := strings.Split(c, " ")
	switch f[0] {
	case "search":
		if len(f) != 8 {
			return "badcase"
		}
		s := parseSpec(f[1:5])
		o := observe(s, true)
		lastObs[c] = o
		if o.class != "ok" {
			return errLine(o)
		}
		if !o.logOK {
			return "err badlog"
		}
		if encTable(o.table) != f[5] || strconv.Itoa(o.best) != f[6] || encOps(o.ops) != f[7] {
			return "err unstable-log"
		}
		return fmt.Sprintf("ok %s %d %s %s", o.nhex, o.best, encRat(ratOf(o.cost)), lib.Bytes(o.proc.stdout))
	case "select":
		if len(f) != 6 {
			return "badcase"
		}
		o := observe(parseSpec(f[1:5]), false)
		if o.class != "ok" {
			return errLine(o)
		}
		if !o.logOK {
			return "err badlog"
		}
		if encTable(o.table) != f[5] {
			return "err unstable-log"
		}
		cs := make([]string, len(o.costs))
		for i, x := range o.costs {
			cs[i] = encRat(ratOf(x))
		}
		return fmt.Sprintf("ok %d %s %s", o.best, encRat(ratOf(o.cost)), strings.Join(cs, ","))
	case "full":
		if len(f) != 5 {
			return "badcase"
		}
		o := observe(parseSpec(f[1:5]), false)
		lastObs[c] = o
		if o.class != "ok" {
			return errLine(o)
		}
		if !o.logOK {
			return "err badlog"
		}
		return fmt.Sprintf("ok %s %d %s %s", o.nhex, o.best, encRat(ratOf(o.cost)), lib.Bytes(o.proc.stdout))
	case "evalcmd":
		if len(f) != 2 {
			return "badcase"
		}
		r := runBin(lib.ParseBytes(f[1]), "eval")
		if crashed(r.stderr) || r.exit < 0 {
			return "panic crash"
		}
		if r.exit != 0 {
			return "err reject"
		}
		var ls []string
		tot := ""
		for _, l := range strings.Split(strings.TrimRight(string(r.stdout), "\n"), "\n") {
			if m := reEvalLine.FindStringSubmatch(l); m != nil {
				ls = append(ls, fmt.Sprintf("%s:%s+%s:%s", m[1], m[2], m[3], m[4]))
			} else if m := reEvalTotal.FindStringSubmatch(l); m != nil {
				tot = m[2] + ":" + m[3]
			} else {
				return "err badoutput"
			}
		}
		if len(ls) == 0 {
			return "ok - " + tot
		}
		return "ok " + strings.Join(ls, ",") + " " + tot
	case "fmtcmd", "fmtbcmd":
		if len(f) != 2 {
			return "badcase"
		}
		args := []string{"fmt"}
		if f[0] == "fmtbcmd" {
			args = append(args, "-b")
		}
		r := runBin(lib.ParseBytes(f[1]), args...)
		if crashed(r.stderr) || r.exit < 0 {
			return "panic crash"
		}
		if r.exit != 0 {
			return "err reject"
		}
		return "ok " + lib.Bytes(r.stdout)
	case "report":
		if len(f) != 6 {
			return "badcase"
		}
		o := observe(parseSpec(f[1:5]), false)
		if o.class != "ok" {
			return errLine(o)
		}
		if !o.logOK {
			return "err badlog"
		}
		if encOps(o.ops) != f[5] {
			return "err unstable-log"
		}
		return "ok " + lib.Bytes(o.proc.stdout)
	}
	return "badcase"
}

// ---------------------------------------------------------------------------------------------
// Oracle: the property stated directly on the binary's behaviour
// ---------------------------------------------------------------------------------------------

// own evaluator of target expressions (conventional grammar: ^ right associative and tightest, then
// * /, then + -; decimal, 0x and 0b literals with optional minus; floor division; a non-positive
// exponent gives 1).  status: 0 value, 1 malformed, 2 division by zero.
type exprParser struct {
	s   string
	pos int
	bad int
}

func (e *exprParser) ws() {
	for e.pos < len(e.s) && e.s[e.pos] == ' ' {
		e.pos++
	}
}

func (e *exprParser) fail(code int) *big.Int {
	if e.bad == 0 {
		e.bad = code
	}
	return new(big.Int)
}

func (e *exprParser) lit() *big.Int {
	e.ws()
	start := e.pos
	neg := false
	if e.pos < len(e.s) && e.s[e.pos] == '-' {
		neg = true
		e.pos++
	}
	base := 10
	digits := "0123456789"
	if strings.HasPrefix(e.s[e.pos:], "0x") {
		base, digits = 16, "0123456789abcdef"
		e.pos += 2
	} else if strings.HasPrefix(e.s[e.pos:], "0b") {
		base, digits = 2, "01"
		e.pos += 2
	}
	ds := e.pos
	for e.pos < len(e.s) && strings.IndexByte(digits, e.s[e.pos]) >= 0 {
		e.pos++
	}
	d := e.s[ds:e.pos]
	if d == "" || (base == 10 && len(d) > 1 && d[0] == '0') {
		e.pos = start
		return e.fail(1)
	}
	v, ok := new(big.Int).SetString(d, base)
	if !ok {
		return e.fail(1)
	}
	if neg {
		v.Neg(v)
	}
	return v
}

func (e *exprParser) peekOp(set string) byte {
	e.ws()
	if e.pos < len(e.s) && strings.IndexByte(set, e.s[e.pos]) >= 0 {
		return e.s[e.pos]
	}
	return 0
}

func (e *exprParser) factor() *big.Int {
	x := e.lit()
	if e.bad != 0 {
		return x
	}
	if e.peekOp("^") != 0 {
		e.pos++
		y := e.factor()
		if e.bad != 0 {
			return x
		}
		if y.Sign() <= 0 {
			return big.NewInt(1)
		}
		if y.BitLen() > 20 {
			return e.fail(1) // not generated
		}
		return new(big.Int).Exp(x, y, nil)
	}
	return x
}

func (e *exprParser) term() *big.Int {
	x := e.factor()
	for e.bad == 0 {
		op := e.peekOp("*/")
		if op == 0 {
			break
		}
		e.pos++
		y := e.factor()
		if e.bad != 0 {
			break
		}
		if op == '*' {
			x = new(big.Int).Mul(x, y)
		} else {
			if y.Sign() == 0 {
				return e.fail(2)
			}
			x = new(big.Int).Div(x, y) // Euclidean, as math/big
		}
	}
	return x
}

func evalExpr(s string) (*big.Int, int) {
	e := &exprParser{s: s}
	x := e.term()
	for e.bad == 0 {
		op := e.peekOp("+-")
		if op == 0 {
			break
		}
		e.pos++
		y := e.term()
		if e.bad != 0 {
			break
		}
		if op == '+' {
			x = new(big.Int).Add(x, y)
		} else {
			x = new(big.Int).Sub(x, y)
		}
	}
	e.ws()
	if e.bad == 0 && e.pos != len(e.s) {
		e.bad = 1
	}
	return x, e.bad
}

var (
	reEvalLine  = regexp.MustCompile(`^\[ *(\d+)\] +(\d+)\+ *(\d+)\t([0-9a-f]+)$`)
	reEvalTotal = regexp.MustCompile(`^total: (\d+)\tdoubles: \t(\d+) adds: (\d+)$`)
)

// evalScript runs `addchain eval` on a script and checks, with its own arithmetic, that what is printed
// is an addition chain; returns the chain, (doubles, adds) as eval counts them, or a complaint.
func evalScript(script []byte) (chain []*big.Int, doubles, adds int, msg string) {
	r := runBin(script, "eval")
	if r.exit != 0 || crashed(r.stderr) {
		return nil, 0, 0, fmt.Sprintf("eval exits with status %d: %s", r.exit, strings.TrimSpace(r.stderr))
	}
	chain = []*big.Int{big.NewInt(1)}
	owndbl, ownadd := 0, 0
	sawTotal := false
	for _, l := range strings.Split(strings.TrimRight(string(r.stdout), "\n"), "\n") {
		if m := reEvalLine.FindStringSubmatch(l); m != nil && !sawTotal {
			k, i, j := lib.Atoi(m[1]), lib.Atoi(m[2]), lib.Atoi(m[3])
			if k != len(chain) || i >= k || j >= k {
				return nil, 0, 0, "eval output: operand out of range in " + strconv.Quote(l)
			}
			v := lib.ParseHex(m[4])
			if new(big.Int).Add(chain[i], chain[j]).Cmp(v) != 0 {
				return nil, 0, 0, "eval output: element is not the sum of its operands in " + strconv.Quote(l)
			}
			chain = append(chain, v)
			if i == j {
				owndbl++
			} else {
				ownadd++
			}
		} else if m := reEvalTotal.FindStringSubmatch(l); m != nil && !sawTotal {
			sawTotal = true
			doubles, adds = lib.Atoi(m[2]), lib.Atoi(m[3])
			if lib.Atoi(m[1]) != doubles+adds {
				return nil, 0, 0, "eval output: total is not doubles + adds"
			}
		} else {
			return nil, 0, 0, "eval output: unexpected line " + strconv.Quote(l)
		}
	}
	if !sawTotal {
		return nil, 0, 0, "eval output: no total line"
	}
	if doubles != owndbl || adds != ownadd {
		return nil, 0, 0, fmt.Sprintf("eval counts doubles=%d adds=%d, its own lines show doubles=%d adds=%d", doubles, adds, owndbl, ownadd)
	}
	return chain, doubles, adds, ""
}

func hasDup(c []*big.Int) bool {
	seen := map[string]bool{}
	for _, x := range c {
		if seen[x.String()] {
			return true
		}
		seen[x.String()] = true
	}
	return false
}

func sameChain(a, b []*big.Int) bool { return lib.EqualInts(a, b) }

func weightedCost(add, dbl *big.Rat, doubles, adds int) *big.Rat {
	x := new(big.Rat).Mul(dbl, new(big.Rat).SetInt64(int64(doubles)))
	y := new(big.Rat).Mul(add, new(big.Rat).SetInt64(int64(adds)))
	return x.Add(x, y)
}

var pSet = []int{1, 2, 3, 16, 64}

func otherP(p int, salt int) int {
	q := pSet[(salt%len(pSet)+len(pSet))%len(pSet)]
	if q == p {
		q = pSet[((salt+1)%len(pSet)+len(pSet))%len(pSet)]
	}
	return q
}

func oracleSearch(c, res string) string {
	f := strings.Split(c, " ")
	s := parseSpec(f[1:5])
	o := lastObs[c]
	if o == nil {
		o = runSearch(s.expr, s.p, s.add, s.dbl, true)
	}
	n, bad := evalExpr(s.expr)
	add, dbl := ratOf(s.add), ratOf(s.dbl)
	if add == nil || dbl == nil || add.Sign() <= 0 || dbl.Sign() <= 0 {
		return "" // outside the property (positive cost settings only)
	}
	if crashed(o.proc.stderr) {
		return "search crashed: " + firstLine(o.proc.stderr)
	}
	// ---- exit statuses: conventional ----
	want := 0
	switch {
	case s.p < 1:
		want = 2
	case bad != 0 || n.Sign() < 1:
		want = 1
	}
	if o.proc.exit != want {
		return fmt.Sprintf("exit status %d, expected %d (p=%d, expression %s)", o.proc.exit, want, s.p, describe(n, bad))
	}
	if want != 0 {
		if len(o.proc.stdout) != 0 {
			return "a failing search wrote to standard output"
		}
		if strings.TrimSpace(o.proc.stderr) == "" {
			return "a failing search gave no diagnostic"
		}
		wantClass := map[bool]string{true: "usage", false: "eval"}[want == 2]
		if want == 1 && bad == 0 {
			wantClass = "nonpos"
		}
		if res != "err "+wantClass {
			return "diagnostic class " + res + ", expected err " + wantClass
		}
		return ""
	}
	// ---- from here on: n >= 1, p >= 1, exit 0 ----
	if strings.HasPrefix(res, "err unstable") {
		return "two runs of the same search command disagree (" + res + ")"
	}
	if !strings.HasPrefix(res, "ok ") {
		return "search succeeded but its -v log could not be read: " + res
	}
	rf := strings.Split(res, " ")
	if len(rf) != 5 {
		return "malformed result line"
	}
	if lib.ParseHex(rf[1]).Cmp(n) != 0 {
		return "search logged target " + rf[1] + " for an expression of value " + n.Text(16)
	}
	script := lib.ParseBytes(rf[4])
	reported := decRat(rf[3])
	if reported == nil {
		return "reported cost is not finite"
	}
	// the other invocations of this check are independent of each other: start them now
	salt := len(s.expr) + s.p + len(script)
	q := otherP(s.p, salt)
	o2c := make(chan *obs, 1)
	go func() { o2c <- runSearch(s.expr, q, s.add, s.dbl, false) }()
	type fmtRes struct {
		r     procResult
		chain []*big.Int
		msg   string
	}
	fmtc := map[string]chan fmtRes{"fmt": make(chan fmtRes, 1), "fmt -b": make(chan fmtRes, 1)}
	for _, args := range [][]string{{"fmt"}, {"fmt", "-b"}} {
		go func(args []string) {
			var fr fmtRes
			fr.r = runBin(script, args...)
			if fr.r.exit == 0 && !crashed(fr.r.stderr) {
				fr.chain, _, _, fr.msg = evalScript(fr.r.stdout)
			}
			fmtc[strings.Join(args, " ")] <- fr
		}(args)
	}
	genc := make(chan procResult, 1)
	go func() { genc <- runBin(script, "gen") }()
	// the printed script evaluates (eval command) to a chain ending in n
	chain, doubles, adds, msg := evalScript(script)
	if msg != "" {
		return "script printed by search: " + msg
	}
	if chain[len(chain)-1].Cmp(n) != 0 {
		return fmt.Sprintf("the printed script evaluates to a chain ending in %s, target %s", chain[len(chain)-1].Text(16), n.Text(16))
	}
	// reported cost = weighted number of additions and doublings of that script
	if wc := weightedCost(add, dbl, doubles, adds); wc.Cmp(reported) != 0 {
		return fmt.Sprintf("reported cost %s, the script has %d doublings and %d additions: cost %s", encRat(reported), doubles, adds, encRat(wc))
	}
	// and it is the minimum over all algorithm results
	attained := false
	for i, row := range o.table {
		rc := weightedCost(add, dbl, row[0], row[1])
		if rc.Cmp(reported) < 0 {
			return fmt.Sprintf("reported cost %s is not minimal: algorithm %d (%s) has doubles=%d adds=%d cost %s", encRat(reported), i, o.names[i], row[0], row[1], encRat(rc))
		}
		if rc.Cmp(reported) == 0 {
			attained = true
		}
		if pc := ratOf(o.costs[i]); pc == nil || pc.Cmp(rc) != 0 {
			return fmt.Sprintf("algorithm %d: logged cost %s for doubles=%d adds=%d, weighted count is %s", i, o.costs[i], row[0], row[1], encRat(rc))
		}
	}
	if !attained {
		return "reported cost " + encRat(reported) + " is the cost of no algorithm result"
	}
	// the detail lines of the log are the same chain
	if len(o.vals) != len(chain)-1 {
		return "the logged best program and the printed script have different lengths"
	}
	for i, v := range o.vals {
		if lib.ParseHex(v).Cmp(chain[i+1]) != 0 {
			return fmt.Sprintf("the logged best chain and the printed script differ at element %d", i+1)
		}
	}
	// byte-identical across runs and across concurrency settings: the run that generated the case and the
	// run of Run (same -p, both -v) have been compared already; this one has no -v and another -p
	{
		o2 := <-o2c
		if o2.proc.exit != 0 || crashed(o2.proc.stderr) {
			return fmt.Sprintf("search -p %d exits with status %d", q, o2.proc.exit)
		}
		if !bytes.Equal(o2.proc.stdout, script) {
			return fmt.Sprintf("output differs between -p %d and -p %d", s.p, q)
		}
		if o2.cost != o.cost {
			return fmt.Sprintf("reported cost differs between -p %d and -p %d", s.p, q)
		}
	}
	// fmt and fmt -b accept it, and what they print is the same chain
	for _, name := range []string{"fmt", "fmt -b"} {
		fr := <-fmtc[name]
		if fr.r.exit != 0 || crashed(fr.r.stderr) {
			return fmt.Sprintf("%s rejects the script printed by search (status %d): %s", name, fr.r.exit, firstLine(fr.r.stderr))
		}
		if fr.msg != "" {
			return name + " output: " + fr.msg
		}
		if !sameChain(fr.chain, chain) {
			return name + " output evaluates to a different chain"
		}
		if name == "fmt" && !bytes.Equal(fr.r.stdout, script) {
			return "fmt changes the script printed by search"
		}
	}
	// gen accepts it iff it has at least one operation
	g := <-genc
	if crashed(g.stderr) {
		return "gen crashed on the script printed by search: " + firstLine(g.stderr)
	}
	if n.Cmp(big.NewInt(2)) >= 0 {
		if g.exit != 0 {
			return fmt.Sprintf("gen rejects the script printed by search (status %d): %s", g.exit, firstLine(g.stderr))
		}
		if len(g.stdout) == 0 {
			return "gen printed nothing"
		}
	} else {
		if g.exit != 1 || strings.TrimSpace(g.stderr) == "" || len(g.stdout) != 0 {
			return fmt.Sprintf("gen on the script for n = 1: status %d (expected a diagnostic and status 1)", g.exit)
		}
	}
	return ""
}

func describe(n *big.Int, bad int) string {
	switch bad {
	case 1:
		return "malformed"
	case 2:
		return "divides by zero"
	}
	return "= " + n.String()
}

func firstLine(s string) string {
	s = strings.TrimSpace(s)
	if i := strings.IndexByte(s, '\n'); i >= 0 {
		s = s[:i]
	}
	return s
}

func oracle(c, res string) string {
	f := strings.Split(c, " ")
	switch f[0] {
	case "search":
		return oracleSearch(c, res)
	case "select", "report", "full":
		// derived views of the search case just before; the property is judged there
		if strings.HasPrefix(res, "err unstable") || strings.HasPrefix(res, "panic") {
			return "observation changed between two runs: " + res
		}
	case "evalcmd":
		if strings.HasPrefix(res, "panic") || res == "err badoutput" {
			return "eval: " + res
		}
		if strings.HasPrefix(res, "ok ") {
			// what eval prints is an addition chain, by this harness's own arithmetic
			if _, _, _, msg := evalScript(lib.ParseBytes(f[1])); msg != "" {
				return msg
			}
		}
	case "fmtcmd", "fmtbcmd":
		if strings.HasPrefix(res, "panic") {
			return "fmt crashed"
		}
		if strings.HasPrefix(res, "ok ") {
			// formatting does not change the chain
			c1, _, _, m1 := evalScript(lib.ParseBytes(f[1]))
			if f[0] == "fmtbcmd" && m1 == "" && hasDup(c1) {
				// acc.Build names values: a script whose chain repeats a value is outside its contract
				// (C04: pairwise distinct values); search never prints one
				return ""
			}
			c2, _, _, m2 := evalScript(lib.ParseBytes(strings.TrimPrefix(res, "ok ")))
			if (m1 == "") != (m2 == "") || (m1 == "" && !sameChain(c1, c2)) {
				return "fmt output evaluates differently from its input: " + m1 + " / " + m2
			}
		}
	}
	return ""
}

func nontrivial(c, res string) bool {
	f := strings.Split(c, " ")
	if !strings.HasPrefix(res, "ok ") {
		return false
	}
	switch f[0] {
	case "search", "report":
		return f[len(f)-1] != "-" // at least one operation (n >= 2)
	case "select":
		return f[5] != "-"
	case "full":
		return !strings.HasSuffix(res, " "+lib.Bytes([]byte("return  1\n")))
	case "evalcmd":
		return !strings.HasPrefix(res, "ok - ")
	case "fmtcmd", "fmtbcmd":
		return len(res) > 40
	}
	return false
}

// ---------------------------------------------------------------------------------------------
// Gen
// ---------------------------------------------------------------------------------------------

var weightSet = []string{"1", "0.5", "2", "1.25", "3"}

// further dyadic weights for the thorough tier ("every positive add/double cost setting")
var weightSetWide = []string{"1", "0.5", "2", "1.25", "3", "0.25", "8", "1.5", "0.125", "100", "7.75", "0.0625"}

// Extended weights ("every positive add/double cost setting"), all exactly representable as float64 and
// written as exact decimals: large integers (costs beyond 10^6 and 10^9, printed by %v in exponent form),
// dyadic fractions with long decimal expansions, tiny and huge magnitudes.
var weightSetExt = []string{
	"12345", "6789", "1000003", "2147483649", // 2^31+1
	"1.00000095367431640625",                 // 1 + 2^-20
	"3.000030517578125",                      // 3 + 2^-15
	"0.0009765625",                           // 2^-10
	"0.000000000931322574615478515625",       // 2^-30
	"1099511627776",                          // 2^40
	"1", "0.5", "3",
}

// exactPair: with operation counts below 2^11, double*doubles + add*adds is computed without rounding in
// float64 (every partial result fits 53 bits), so that the exact-rational reading of the cost is the
// float64 value the command computes.  Pairs outside are not generated (rounding is not modelled).
func exactPair(add, dbl string) bool {
	lo, hi := 1<<30, -(1 << 30)
	for _, w := range []string{add, dbl} {
		r := ratOf(w)
		if r == nil || r.Sign() <= 0 {
			return false
		}
		den := r.Denom()
		if new(big.Int).And(den, new(big.Int).Sub(den, big.NewInt(1))).Sign() != 0 {
			return false // not dyadic
		}
		num := r.Num()
		lsb := int(num.TrailingZeroBits()) - (den.BitLen() - 1)
		msb := num.BitLen() - (den.BitLen() - 1) + 11 + 1 // times a count < 2^11, plus the carry of the sum
		if lsb < lo {
			lo = lsb
		}
		if msb > hi {
			hi = msb
		}
	}
	return hi-lo <= 52
}

// Pairs whose costs differ by far less than 1 (both weights tiny) or, scaled up, by far less than the costs
// themselves: `cost < mincost` must be an exact comparison, not one with an absolute or relative tolerance.
// All exactly representable; exactPair holds for each.
var scalePairs = [][2]string{
	{"0.000000000931322574615478515625", "0.000000000931322574615478515625"},                    // 2^-30, 2^-30
	{"0.000000000931322574615478515625", "0.00000000186264514923095703125"},                     // 2^-30, 2^-29
	{"0.00000000186264514923095703125", "0.000000000931322574615478515625"},                     // 2^-29, 2^-30
	{"0.0000000000009094947017729282379150390625", "0.00000000000136424205265939235687255859375"}, // 2^-40, 3*2^-41
	{"0.00000000000136424205265939235687255859375", "0.0000000000009094947017729282379150390625"}, // 3*2^-41, 2^-40
	{"1099511627776", "1099512676352"}, // 2^40, 2^40+2^20
	{"1099512676352", "1099511627776"},
}

// targets on which the ensemble's results have different costs
var scaleTargets = []string{"23", "255", "367", "2^64-59", "2^127-3"}

func n64(e string) bool { return strings.Contains(e, "^") }

func extPairs() [][2]string {
	var out [][2]string
	for _, a := range weightSetExt {
		for _, d := range weightSetExt {
			if exactPair(a, d) {
				out = append(out, [2]string{a, d})
			}
		}
	}
	return out
}

func pow2(k int) *big.Int { return new(big.Int).Lsh(big.NewInt(1), uint(k)) }

// structured expressions: (text, bits)
func shapes(tier string, r *lib.Rand) []string {
	out := []string{
		"2^255-19", "2^255 - 21", "2^127-1", "2^130-5", "0x7fffffffffffffffffffffffffffffffffffffffffffffffffffffffffffffeb",
		"2^256-2^32-977", "2^224-2^96+1", "2^192-2^64-1", "2^89-1", "3*2^94-1",
	}
	if tier != "quick" {
		out = append(out,
			"2^256-2^224+2^192+2^96-3", "2^384-2^128-2^96+2^32-3", "2^521-3", "2^448-2^224-3", "2^414-17", "2^251-9",
			"2^255-19-2", "(2^255-19+3)/8", "2^226-5", "2^336-3", "2^383-187", "2^511-187", "2^607-1", "27742317777372353535851937790883648493+2^252",
			"0xfffffffffffffffffffffffffffffffebaaedce6af48a03bbfd25e8cd0364141-2", "2^200/3", "2^300/7*5+1")
	}
	// drop entries my own grammar does not cover (parentheses are not part of the calculator)
	var keep []string
	for _, e := range out {
		if !strings.ContainsAny(e, "()") {
			keep = append(keep, e)
		}
	}
	out = keep
	nrand := 4
	if tier != "quick" {
		nrand = 60
	}
	for i := 0; i < nrand; i++ {
		bits := r.Range(65, 300)
		if tier != "quick" && r.Chance(1, 5) {
			bits = r.Range(300, 600)
		}
		var x *big.Int
		switch r.Intn(4) {
		case 0: // random
			x = r.BitsExact(bits)
		case 1: // long runs of ones and zeros
			x = new(big.Int)
			bit := uint(1)
			for x.BitLen() < bits {
				l := uint(r.Range(1, 40))
				x.Lsh(x, l)
				if bit == 1 {
					x.Or(x, new(big.Int).Sub(pow2(int(l)), big.NewInt(1)))
				}
				bit ^= 1
			}
			x.SetBit(x, 0, 1)
		case 2: // 2^a - 2^b - small
			a := bits
			b := r.Range(1, a-2)
			x = new(big.Int).Sub(pow2(a), pow2(b))
			x.Sub(x, big.NewInt(int64(r.Range(1, 1000))))
		default: // sparse
			x = pow2(bits - 1)
			for k := r.Range(1, 6); k > 0; k-- {
				x.SetBit(x, r.Intn(bits-1), 1)
			}
		}
		if x.Sign() < 1 {
			x = big.NewInt(7)
		}
		switch r.Intn(3) {
		case 0:
			out = append(out, x.String())
		case 1:
			out = append(out, "0x"+x.Text(16))
		default:
			out = append(out, "0b"+x.Text(2))
		}
	}
	return out
}

// number of `full` cases (the model runs all 200 algorithms for each)
var fullBudget = 120

func gen(tier string, r *lib.Rand, emit func(string)) {
	if tier != "quick" {
		fullBudget = 1500
	}
	var specs []spec
	quick := tier == "quick"
	ws := weightSet
	// (a) small targets exhaustively, weights and -p rotating so that every pair of the grid and every -p
	// occurs many times
	maxn := 64
	per := 2
	if !quick {
		maxn = 300
		per = 5
	}
	k := 0
	for n := 1; n <= maxn; n++ {
		for j := 0; j < per; j++ {
			a, d := ws[k%len(ws)], ws[(k/len(ws))%len(ws)]
			var e string
			switch k % 4 {
			case 0:
				e = strconv.Itoa(n)
			case 1:
				e = "0x" + strconv.FormatInt(int64(n), 16)
			case 2:
				e = fmt.Sprintf("%d+%d", n/2, n-n/2)
			default:
				e = fmt.Sprintf("2^7-%d", 128-n)
			}
			specs = append(specs, spec{e, pSet[k%len(pSet)], a, d})
			k++
		}
	}
	if !quick {
		// the whole weight grid, and the wider dyadic grid, on targets where the algorithms disagree
		for _, n := range []int{23, 47, 95, 127, 191, 255, 367, 511, 2047, 65535, 43690, 1000003} {
			for _, a := range weightSetWide {
				for _, d := range weightSetWide {
					specs = append(specs, spec{strconv.Itoa(n), pSet[k%len(pSet)], a, d})
					k++
				}
			}
		}
	} else {
		for _, n := range []int{127, 255, 367, 2047, 65535, 43690} {
			for j := 0; j < 4; j++ {
				a, d := weightSetWide[r.Intn(len(weightSetWide))], weightSetWide[r.Intn(len(weightSetWide))]
				specs = append(specs, spec{strconv.Itoa(n), pSet[k%len(pSet)], a, d})
				k++
			}
		}
	}
	// the extended weights: costs with many significant digits, in plain and exponent notation
	ext := extPairs()
	if !quick {
		for _, e := range []string{"23", "47", "127", "255", "367", "2047", "65535", "43690", "1000003", "2^89-1", "2^127-1", "2^255-19"} {
			for _, ad := range ext {
				specs = append(specs, spec{e, pSet[k%len(pSet)], ad[0], ad[1]})
				k++
			}
		}
	} else {
		for i, e := range []string{"23", "47", "127", "255", "367", "2047", "65535", "43690", "1000003", "2^89-1"} {
			for j := 0; j < 5; j++ {
				ad := ext[(i*5+j)*7%len(ext)]
				if j == 4 {
					ad = ext[r.Intn(len(ext))]
				}
				specs = append(specs, spec{e, pSet[k%len(pSet)], ad[0], ad[1]})
				k++
			}
		}
	}
	for i, e := range scaleTargets {
		for j, ad := range scalePairs {
			if !exactPair(ad[0], ad[1]) {
				panic("harness: scalePairs entry is not exact")
			}
			if quick && n64(e) && j != 0 && j != 3 && j != 5 {
				continue // every pair on the small targets, one of each kind on the expensive targets
			}
			pp := pSet[k%len(pSet)]
			if quick && n64(e) {
				pp = 16 + 48*((i+j)%2) // keep the expensive targets parallel in the quick tier
			}
			specs = append(specs, spec{e, pp, ad[0], ad[1]})
			k++
		}
	}
	// (b) structured shapes
	for _, e := range shapes(tier, r) {
		a, d := ws[r.Intn(len(ws))], ws[r.Intn(len(ws))]
		specs = append(specs, spec{e, pSet[r.Intn(len(pSet))], a, d})
	}
	// (c) malformed / refused invocations
	for _, e := range []string{"0", "-5", "2-3", "1-1", "1/0", "5/0+1", "", " ", "1+", "x", "2^", "0x", "1 2", "7/8", "2^-1-1", "3*0", "-1*-1", " 12 ", "0b101"} {
		specs = append(specs, spec{e, pSet[r.Intn(len(pSet))], "1", "1"})
	}
	for _, p := range []int{0, -1, -64} {
		specs = append(specs, spec{"5", p, "1", "1"}, spec{"1/0", p, "2", "0.5"}, spec{"0", p, "1", "1"})
	}

	// observe all specs with a few invocations in flight, then emit in order
	obsv := make([]*obs, len(specs))
	var wg sync.WaitGroup
	sem := make(chan struct{}, 6)
	for i := range specs {
		wg.Add(1)
		sem <- struct{}{}
		go func(i int) {
			defer wg.Done()
			obsv[i] = observe(specs[i], true)
			<-sem
		}(i)
	}
	wg.Wait()
	for i, s := range specs {
		o := obsv[i]
		emit(searchCase(s, o))
		if o.class == "ok" && o.logOK {
			emit(fmt.Sprintf("select %s %s", s.head(), encTable(o.table)))
			emit(fmt.Sprintf("report %s %s", s.head(), encOps(o.ops)))
			if !quick || i%3 == 0 {
				emit("evalcmd " + lib.Bytes(o.proc.stdout))
				emit("fmtcmd " + lib.Bytes(o.proc.stdout))
				emit("fmtbcmd " + lib.Bytes(o.proc.stdout))
			}
		}
		// the ensemble itself in the model: only where Go's sort.Slice is stable (see dispatch/C14.v)
		if n, bad := evalExpr(s.expr); o.class != "ok" || (bad == 0 && n.BitLen() <= 20 && fullBudget > 0) {
			if o.class == "ok" {
				fullBudget--
			}
			emit("full " + s.head())
		}
	}
	for _, src := range []string{"", "return 1 +", "a = 1 + 1", "return 1\nreturn 1", "a = 1 + 1\nreturn a + b", "a = 1 << 3\nreturn a + [2]\n",
		"x = 2*1\nreturn x << 0", "return (1 + 1) + (1 + 1)", "a = 1 + 1\na = a + 1\nreturn a"} {
		emit("evalcmd " + lib.Bytes([]byte(src)))
		emit("fmtcmd " + lib.Bytes([]byte(src)))
		emit("fmtbcmd " + lib.Bytes([]byte(src)))
	}
}

// neighbours of a case: the same expression with other weights and other -p, and nearby targets with the
// same configuration (every neighbour is observed afresh from the binary, like a generated case)
func neighbours(c string, r *lib.Rand, emit func(string)) {
	f := strings.Split(c, " ")
	if len(f) < 5 {
		return
	}
	switch f[0] {
	case "search", "select", "report", "full":
	default:
		return
	}
	s := parseSpec(f[1:5])
	var specs []spec
	for i := 0; i < 4; i++ {
		specs = append(specs, spec{s.expr, s.p, weightSetWide[r.Intn(len(weightSetWide))], weightSetWide[r.Intn(len(weightSetWide))]})
	}
	ext := extPairs()
	for i := 0; i < 3; i++ {
		ad := ext[r.Intn(len(ext))]
		specs = append(specs, spec{s.expr, s.p, ad[0], ad[1]})
	}
	specs = append(specs, spec{s.expr, otherP(s.p, r.Intn(5)), s.add, s.dbl}, spec{s.expr, s.p, s.dbl, s.add})
	if n, bad := evalExpr(s.expr); bad == 0 && n.Sign() > 0 && n.BitLen() <= 64 {
		for _, d := range []int64{-2, -1, 1, 2} {
			m := new(big.Int).Add(n, big.NewInt(d))
			if m.Sign() > 0 {
				specs = append(specs, spec{m.String(), s.p, s.add, s.dbl})
			}
		}
		specs = append(specs, spec{new(big.Int).Lsh(n, 1).String(), s.p, s.add, s.dbl},
			spec{new(big.Int).SetBit(new(big.Int).Lsh(n, 1), 0, 1).String(), s.p, s.add, s.dbl})
	}
	for _, ns := range specs {
		o := observe(ns, true)
		emit(searchCase(ns, o))
	}
}

func main() {
	lib.Main(lib.Prop{
		ID:         "C14",
		Gen:        gen,
		Run:        run,
		Oracle:     oracle,
		Nontrivial: nontrivial,
		Neighbours: neighbours,
	})
}
