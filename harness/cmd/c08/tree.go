// C08 composition shapes: heuristic compositions as trees  t ::= H | D | A | U(t,...,t) | U()
// independent of the String() methods. The algorithm token "T=<t>" is
// heuristic.NewAlgorithm(<t>) with U = heuristic.UseFirst (the real constructor).
package main

import (
	"math/big"
	"strings"

	"github.com/mmcloughlin/addchain/alg/heuristic"
	"verif/harness/lib"
)

type tree struct {
	leaf byte // 'H', 'D', 'A' or 0 for a use_first node
	kids []*tree
}

func parseTree(s string) (*tree, string) {
	if s == "" {
		panic("harness: empty heuristic tree")
	}
	switch s[0] {
	case 'H', 'D', 'A':
		return &tree{leaf: s[0]}, s[1:]
	case 'U':
		if len(s) < 3 || s[1] != '(' {
			panic("harness: bad heuristic tree " + s)
		}
		t := &tree{}
		rest := s[2:]
		if rest[0] == ')' {
			return t, rest[1:]
		}
		for {
			var k *tree
			k, rest = parseTree(rest)
			t.kids = append(t.kids, k)
			if rest == "" {
				panic("harness: unterminated heuristic tree")
			}
			if rest[0] == ')' {
				return t, rest[1:]
			}
			if rest[0] != ',' {
				panic("harness: bad heuristic tree near " + rest)
			}
			rest = rest[1:]
		}
	}
	panic("harness: bad heuristic tree " + s)
}

func mustTree(s string) *tree {
	t, rest := parseTree(s)
	if rest != "" {
		panic("harness: trailing text in heuristic tree " + s)
	}
	return t
}

// build uses the library's own constructors.
func (t *tree) build() heuristic.Heuristic {
	switch t.leaf {
	case 'H':
		return heuristic.Halving{}
	case 'D':
		return heuristic.DeltaLargest{}
	case 'A':
		return heuristic.Approximation{}
	}
	hs := make([]heuristic.Heuristic, len(t.kids))
	for i, k := range t.kids {
		hs[i] = k.build()
	}
	return heuristic.UseFirst(hs...)
}

// leaves in first-success order.
func (t *tree) leaves() []byte {
	if t.leaf != 0 {
		return []byte{t.leaf}
	}
	var out []byte
	for _, k := range t.kids {
		out = append(out, k.leaves()...)
	}
	return out
}

// name is the oracle's own rendering of what String() must print for the composition as written.
func (t *tree) name() string {
	switch t.leaf {
	case 'H':
		return "halving"
	case 'D':
		return "delta_largest"
	case 'A':
		return "approximation"
	}
	ns := make([]string, len(t.kids))
	for i, k := range t.kids {
		ns[i] = k.name()
	}
	return "use_first(" + strings.Join(ns, ",") + ")"
}

// lookupAlg resolves an algorithm token: a String() name of the fixed table or "T=<tree>".
// A tree is total when some leaf is a total heuristic (first-success order: nothing before it can
// swallow the call); in particular when its last leaf is.
func lookupAlg(tok string) (config, bool) {
	if strings.HasPrefix(tok, "T=") {
		t := mustTree(tok[2:])
		total, onlyHalving := false, true
		for _, l := range t.leaves() {
			if l == 'D' || l == 'A' {
				total = true
			}
			if l != 'H' {
				onlyHalving = false
			}
		}
		lv := t.leaves()
		// logarithmic in practice: halving tried first, or nothing but halving
		lg := onlyHalving || (len(lv) > 0 && lv[0] == 'H')
		return config{alg: heuristic.NewAlgorithm(t.build()), total: total, log: lg, extra: true}, true
	}
	c, ok := byName[tok]
	return c, ok
}

var shapeTrees = []string{
	"U(U(H),D)", "U(U(H),A)", // a total heuristic only after the nested one
	"U(U(H,D),A)", "U(U(H,D))", "U(U(H,A),H)", // a total heuristic only inside the nested one
	"U(H,U(D))", "U(H,U(A))", // nested last
	"U(H,U(H),D)", "U(H,U(D),A)", "U(H,U(),A)", // nested in the middle
	"U(U(),D)", "U(U(),H)", "U(H,U())", "U(U())", "U()", // empty inner list
	"U(U(U(H)),D)", "U(U(H,U(D)))", "U(U(U(H),U(H)),U(U(),A))", "U(U(U()))", // two levels
	"U(U(A))", "U(U(H))", "U(U(D),H)", // singleton inner list
	"U(H,H,D)", "U(D,D)", "U(H,U(H,H),A)", "U(U(H),U(H),D)", "U(U(H),U(H))", // the same value twice
	"U(A,U(H))", "U(U(H),H)", "H", "D", "A",
}

func genShapes(tier string, r *lib.Rand, emit func(string)) {
	maxv := int64(12)
	if tier == "thorough" {
		maxv = 24
	}
	for _, t := range shapeTrees {
		emit("hname T=" + t)
		put := func(ts []*big.Int) {
			if hangs < maxHangs {
				emit("findsequence T=" + t + " " + lib.HexList(ts))
			}
		}
		put(nil)
		for a := int64(1); a <= maxv; a++ {
			put(ints(a))
			for b := int64(1); b <= maxv; b++ {
				put(ints(a, b))
			}
		}
		for i := 0; i < 40; i++ {
			n := r.Range(3, 5)
			ts := make([]*big.Int, n)
			for j := range ts {
				ts[j] = big.NewInt(int64(r.Range(1, 200)))
			}
			put(ts)
		}
		if cfg, _ := lookupAlg("T=" + t); cfg.log {
			for i := 0; i < 6; i++ {
				n := r.Range(1, 6)
				ts := make([]*big.Int, n)
				for j := range ts {
					ts[j] = r.BitsExact(r.Range(1, 256))
				}
				put(ts)
			}
		}
	}
}
