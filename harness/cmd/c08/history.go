// C08 histories: a sequence of FindSequence calls in ONE process (the worker), with the caller
// re-using its target slices, keeping earlier results alive and scribbling on what it owns.
//
//	shist <step>;<step>;...
//	  n:<slot>:<list>        slot becomes a new slice of fresh big.Ints
//	  c:<alg>:<slot>         FindSequence(alg) on the slice object in slot; the result is kept
//	  st:<slot>:<i>:<delta>  the caller adds delta to its own target i of slot (in place)
//	  sr:<k>:<i>:<delta>     the caller adds delta to element i of kept result k (in place), unless
//	                         that element is one of the caller's own target objects
//
// Result: ok <r1>;<r2>;... <slots at end, '/'-separated> <one flag per call> <sharing code>
// with r = ok:<chain>:<slot after the call> | err:noseq | panic:<class>.  A flag is 1 when the kept
// result, re-read at the end, still holds the values it had when returned (plus the caller's own
// scribbles).  Sharing code 0 = no big.Int object shared in an undocumented way.  Documented
// sharing: a heuristic result contains the caller's target objects of that call (and is the
// caller's slice itself for the list {1}).
package main

import (
	"fmt"
	"math/big"
	"strings"

	"verif/harness/lib"
)

type kept struct {
	alg   string
	slot  int
	ok    bool
	chain []*big.Int
	snap  []*big.Int // values when returned, updated by the caller's own scribbles
}

func splitSteps(script string) [][]string {
	var out [][]string
	for _, st := range strings.Split(script, ";") {
		out = append(out, strings.Split(st, ":"))
	}
	return out
}

// runHistory executes the script in this process.
func runHistory(script string) string {
	var slots [][]*big.Int
	owner := map[*big.Int]int{} // caller-owned target object -> slot
	var results []*kept
	var lines []string
	grow := func(s int) {
		for len(slots) <= s {
			slots = append(slots, []*big.Int{})
		}
	}
	for _, f := range splitSteps(script) {
		switch {
		case f[0] == "n" && len(f) == 3:
			s := lib.Atoi(f[1])
			grow(s)
			slots[s] = lib.ParseHexList(f[2])
			for _, x := range slots[s] {
				owner[x] = s
			}
		case f[0] == "c" && len(f) == 3:
			s := lib.Atoi(f[2])
			grow(s)
			k := &kept{alg: f[1], slot: s}
			line := func() (res string) {
				defer func() {
					if v := recover(); v != nil {
						res = "panic:" + classify(v)
					}
				}()
				cfgc, _ := lookupAlg(f[1])
				c, err := cfgc.alg.FindSequence(slots[s])
				if err != nil {
					if err.Error() == "failed to find sequence" {
						return "err:noseq"
					}
					return "err:other"
				}
				k.ok, k.chain, k.snap = true, c, lib.CloneInts(c)
				return "ok:" + lib.HexList(c) + ":" + lib.HexList(slots[s])
			}()
			results = append(results, k)
			lines = append(lines, line)
		case f[0] == "st" && len(f) == 4:
			s, i := lib.Atoi(f[1]), lib.Atoi(f[2])
			if s < len(slots) && i < len(slots[s]) {
				slots[s][i].Add(slots[s][i], lib.ParseHex(f[3]))
			}
		case f[0] == "sr" && len(f) == 4:
			k, i := lib.Atoi(f[1]), lib.Atoi(f[2])
			if k < len(results) && results[k].ok && i < len(results[k].chain) {
				x := results[k].chain[i]
				if _, mine := owner[x]; !mine {
					d := lib.ParseHex(f[3])
					x.Add(x, d)
					results[k].snap[i].Add(results[k].snap[i], d)
				}
			}
		default:
			panic("bad history step " + strings.Join(f, ":"))
		}
	}
	// re-read the kept results
	flags := ""
	for _, k := range results {
		same := true
		if k.ok {
			if len(k.chain) != len(k.snap) {
				same = false
			}
			for i := 0; same && i < len(k.chain); i++ {
				if _, mine := owner[k.chain[i]]; mine {
					continue // the caller's own object: its value is the caller's business
				}
				if k.chain[i].Cmp(k.snap[i]) != 0 {
					same = false
				}
			}
		}
		if same {
			flags += "1"
		} else {
			flags += "0"
		}
	}
	// object sharing
	share := 0
	seen := map[*big.Int]int{} // library-made object -> result index
	for j, k := range results {
		if !k.ok {
			continue
		}
		heur := strings.HasPrefix(k.alg, "heuristic") || strings.HasPrefix(k.alg, "T=")
		local := map[*big.Int]bool{}
		for _, x := range k.chain {
			if local[x] && share == 0 {
				share = 5 // the same object twice in one chain
			}
			local[x] = true
			if s, mine := owner[x]; mine {
				if !(heur && s == k.slot) && share == 0 {
					share = 1 // a result holds a target object it has no business holding
				}
				continue
			}
			if _, dup := seen[x]; dup && share == 0 {
				share = 2 // two results share a library-made object
			}
			seen[x] = j
		}
		// the result slice itself must not be the caller's slice (except heuristic on {1})
		sl := slots[k.slot]
		if len(k.chain) > 0 && len(sl) > 0 && &k.chain[0] == &sl[0] {
			if !(heur && len(sl) == 1 && len(k.chain) == 1) && share == 0 {
				share = 4
			}
		}
	}
	join := func(l []string, sep string) string {
		if len(l) == 0 {
			return "-"
		}
		return strings.Join(l, sep)
	}
	var ss []string
	for _, sl := range slots {
		ss = append(ss, lib.HexList(sl))
	}
	if flags == "" {
		flags = "-"
	}
	return fmt.Sprintf("ok %s %s %s %d", join(lines, ";"), join(ss, "/"), flags, share)
}

// ---- oracle for histories: an independent simulation of what the caller must observe ----

func sameMultiset(a, b []*big.Int) bool {
	x, y := sortedStrings(a), sortedStrings(b)
	if len(x) != len(y) {
		return false
	}
	for i := range x {
		if x[i] != y[i] {
			return false
		}
	}
	return true
}

func oracleHistory(script, res string) string {
	if res == "hang" {
		return "history: no answer within the watchdog time"
	}
	if res == "panic fatal" {
		return "history: the process died"
	}
	rf := strings.Fields(res)
	if len(rf) != 5 || rf[0] != "ok" {
		return "malformed history result " + res
	}
	var calls []string
	if rf[1] != "-" {
		calls = strings.Split(rf[1], ";")
	}
	var slots [][]*big.Int // what the caller must see in each of its slices
	grow := func(s int) {
		for len(slots) <= s {
			slots = append(slots, []*big.Int{})
		}
	}
	n := 0
	for _, f := range splitSteps(script) {
		switch f[0] {
		case "n":
			s := lib.Atoi(f[1])
			grow(s)
			slots[s] = lib.ParseHexList(f[2])
		case "st":
			s, i := lib.Atoi(f[1]), lib.Atoi(f[2])
			if s < len(slots) && i < len(slots[s]) {
				slots[s][i].Add(slots[s][i], lib.ParseHex(f[3]))
			}
		case "c":
			s := lib.Atoi(f[2])
			grow(s)
			if n >= len(calls) {
				return "history: fewer call results than calls"
			}
			r := strings.Split(calls[n], ":")
			n++
			cfg, _ := lookupAlg(f[1])
			dom := inDomain(slots[s])
			switch r[0] {
			case "ok":
				if len(r) != 3 {
					return "history: malformed call result"
				}
				chain, after := lib.ParseHexList(r[1]), lib.ParseHexList(r[2])
				if !sameMultiset(after, slots[s]) {
					return fmt.Sprintf("history call %d (%s): target values changed by the call: %s -> %s",
						n, f[1], lib.HexList(slots[s]), r[2])
				}
				if dom {
					if msg := validChain(chain); msg != "" {
						return fmt.Sprintf("history call %d (%s on %s): invalid chain: %s", n, f[1], lib.HexList(slots[s]), msg)
					}
					for _, t := range slots[s] {
						found := false
						for _, x := range chain {
							if x.Cmp(t) == 0 {
								found = true
								break
							}
						}
						if !found {
							return fmt.Sprintf("history call %d (%s on %s): target %s missing from the chain", n, f[1], lib.HexList(slots[s]), t.Text(16))
						}
					}
				}
				slots[s] = after // the caller's slice may have been re-ordered
			case "err":
				if dom && cfg.total {
					return fmt.Sprintf("history call %d (%s on %s): error from a configuration that must always find a sequence", n, f[1], lib.HexList(slots[s]))
				}
			default:
				if dom {
					return fmt.Sprintf("history call %d (%s on %s): %s", n, f[1], lib.HexList(slots[s]), calls[n-1])
				}
			}
		}
	}
	// the caller's slices at the end
	var ss []string
	for _, sl := range slots {
		ss = append(ss, lib.HexList(sl))
	}
	want := "-"
	if len(ss) > 0 {
		want = strings.Join(ss, "/")
	}
	// after a failed/panicking contfrac call the slice may legitimately be re-ordered: compare as multisets
	got := strings.Split(rf[2], "/")
	if rf[2] == "-" && len(slots) == 0 {
		got = nil // no slice at all ("-" is also how a single empty slice prints)
	}
	if len(got) != len(slots) {
		return "history: number of slots at the end"
	}
	for i := range got {
		if !sameMultiset(lib.ParseHexList(got[i]), slots[i]) {
			return fmt.Sprintf("history: the caller's slice %d holds %s at the end, expected the values %s", i, got[i], want)
		}
	}
	if strings.Contains(rf[3], "0") {
		return "history: an earlier result changed after it was returned (flags " + rf[3] + ")"
	}
	if rf[4] != "0" {
		return "history: big.Int objects shared in an undocumented way (code " + rf[4] + ")"
	}
	return ""
}

// ---- generation of histories ----

func genHistories(tier string, r *lib.Rand, emit func(string)) {
	all := configs()
	var names, small []string // small: usable with any value <= 40
	for _, c := range all {
		if !c.extra {
			names = append(names, c.alg.String())
		}
	}
	// some nested compositions take part in the random histories
	small = append(append([]string{}, names...), "T=U(U(H),D)", "T=U(H,U(A))", "T=U(U(H,D),A)", "T=U(U(H))", "T=U(U(),A)")
	list := func(n, hi int) string {
		ts := make([]*big.Int, n)
		for i := range ts {
			switch {
			case i > 0 && r.Chance(1, 5):
				ts[i] = new(big.Int).Set(ts[r.Intn(i)])
			default:
				ts[i] = big.NewInt(int64(r.Range(1, hi)))
			}
		}
		return lib.HexList(ts)
	}
	put := func(steps ...string) {
		if hangs >= maxHangs {
			return
		}
		emit("shist " + strings.Join(steps, ";"))
	}
	fixed := []string{"7,5", "5,7", "3,5,7", "7,3", "1,b,2", "5,5", "2,2", "1", "1,1", "64,25,1", "17,9,9,4", "e,1,c"}
	// two configurations, one slice object: every ordered pair (including the same twice)
	for _, a := range names {
		for _, b := range names {
			l := fixed[r.Intn(len(fixed))]
			put("n:0:"+l, "c:"+a+":0", "c:"+b+":0")
			put("n:0:"+list(r.Range(2, 4), 30), "c:"+a+":0", "c:"+b+":0", "c:"+a+":0")
		}
	}
	// a failing call, then good ones (halving gives up; contfrac panics on the empty list)
	for _, a := range names {
		for _, l := range []string{"17", "7,b", "d,17"} {
			put("n:0:"+l, "c:heuristic(halving):0", "c:"+a+":0", "n:1:"+l, "c:"+a+":1")
		}
		put("n:0:-", "c:continued_fractions(binary):0", "n:1:9,5", "c:"+a+":1", "c:"+a+":0")
		put("n:0:-", "c:"+a+":0", "n:0:9,5", "c:"+a+":0")
	}
	// keep results alive, scribble on them and on the targets, then fresh inputs
	nrand := 400
	if tier == "thorough" {
		nrand = 6000
	}
	for i := 0; i < nrand; i++ {
		var st []string
		nslots := 0
		ncalls := 0
		fresh := func() int {
			st = append(st, fmt.Sprintf("n:%d:%s", nslots, list(r.Range(1, 4), 36)))
			nslots++
			return nslots - 1
		}
		fresh()
		steps := r.Range(3, 9)
		for j := 0; j < steps; j++ {
			switch r.Intn(6) {
			case 0:
				fresh()
			case 1:
				if ncalls > 0 {
					st = append(st, fmt.Sprintf("sr:%d:%d:%x", r.Intn(ncalls), r.Intn(8), r.Range(1, 5)))
				}
			case 2:
				st = append(st, fmt.Sprintf("st:%d:%d:%x", r.Intn(nslots), r.Intn(4), r.Range(1, 3)))
			default:
				st = append(st, fmt.Sprintf("c:%s:%d", small[r.Intn(len(small))], r.Intn(nslots)))
				ncalls++
			}
		}
		// always end with calls on a fresh slice and on an old one
		s := fresh()
		a := small[r.Intn(len(small))]
		st = append(st, fmt.Sprintf("c:%s:%d", a, s), fmt.Sprintf("c:%s:%d", small[r.Intn(len(small))], r.Intn(nslots)))
		put(st...)
	}
}

// neighbours of a target list: one target +-1 / doubled / removed / duplicated; list re-ordered
func listNeighbours(ts []*big.Int, r *lib.Rand, limit int64) [][]*big.Int {
	var out [][]*big.Int
	clone := func() []*big.Int { return lib.CloneInts(ts) }
	okv := func(x *big.Int) bool {
		return x.Sign() > 0 && (limit == 0 || x.Cmp(big.NewInt(limit)) <= 0) && x.BitLen() <= 256
	}
	for i := range ts {
		for _, d := range []int64{1, -1} {
			l := clone()
			l[i].Add(l[i], big.NewInt(d))
			if okv(l[i]) {
				out = append(out, l)
			}
		}
		l := clone()
		l[i].Lsh(l[i], 1)
		if okv(l[i]) {
			out = append(out, l)
		}
		if len(ts) > 1 {
			l = clone()
			out = append(out, append(l[:i], l[i+1:]...))
		}
		if len(ts) < 8 {
			l = clone()
			j := r.Intn(len(ts) + 1)
			l = append(l, nil)
			copy(l[j+1:], l[j:])
			l[j] = new(big.Int).Set(ts[i])
			out = append(out, l)
		}
	}
	if len(ts) > 1 {
		out = append(out, shuffled(r, clone()))
		l := clone()
		for i, j := 0, len(l)-1; i < j; i, j = i+1, j-1 {
			l[i], l[j] = l[j], l[i]
		}
		out = append(out, l)
		i := r.Intn(len(ts) - 1)
		l = clone()
		l[i], l[i+1] = l[i+1], l[i]
		out = append(out, l)
	}
	return out
}

func neighbours(c string, r *lib.Rand, emit func(string)) {
	f := strings.Split(c, " ")
	switch {
	case f[0] == "findsequence" && len(f) == 3:
		limit := int64(0)
		if f[1] == "continued_fractions(total)" {
			limit = 56
		} else if cfg, ok := lookupAlg(f[1]); ok && !cfg.log {
			limit = 400
		}
		for _, l := range listNeighbours(lib.ParseHexList(f[2]), r, limit) {
			emit("findsequence " + f[1] + " " + lib.HexList(l))
		}
	case f[0] == "shist" && len(f) == 2:
		steps := strings.Split(f[1], ";")
		for i, st := range steps {
			g := strings.Split(st, ":")
			if g[0] != "n" {
				continue
			}
			for _, l := range listNeighbours(lib.ParseHexList(g[2]), r, 48) {
				alt := append([]string{}, steps...)
				alt[i] = "n:" + g[1] + ":" + lib.HexList(l)
				emit("shist " + strings.Join(alt, ";"))
			}
		}
		// the same history with one step dropped
		if len(steps) > 2 {
			i := r.Intn(len(steps))
			alt := append(append([]string{}, steps[:i]...), steps[i+1:]...)
			emit("shist " + strings.Join(alt, ";"))
		}
	}
}
