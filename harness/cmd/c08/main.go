// C08: addition-sequence algorithms return a valid chain containing every target.
package main

import (
	"bufio"
	"fmt"
	"io"
	"math/big"
	"os"
	"os/exec"
	"runtime/debug"
	"sort"
	"strings"
	"time"

	"github.com/mmcloughlin/addchain/alg"
	"github.com/mmcloughlin/addchain/alg/contfrac"
	"github.com/mmcloughlin/addchain/alg/heuristic"
	"verif/harness/lib"
)

// ---- configurations ----

type config struct {
	alg alg.SequenceAlgorithm
	// total: the property promises a chain (no error) for positive targets.
	total bool
	// log: usable on large inputs.
	log bool
	// extra: outside the property's list (exercises useFirst only).
	extra bool
}

func hcfg(total, log, extra bool, hs ...heuristic.Heuristic) config {
	var h heuristic.Heuristic
	if len(hs) == 1 {
		h = hs[0]
	} else {
		h = heuristic.UseFirst(hs...)
	}
	return config{alg: heuristic.NewAlgorithm(h), total: total, log: log, extra: extra}
}

func configs() []config {
	H, D, A := heuristic.Halving{}, heuristic.DeltaLargest{}, heuristic.Approximation{}
	cs := []config{
		hcfg(true, true, false, H, D),
		hcfg(true, true, false, H, A),
		hcfg(true, false, false, D),
		hcfg(true, false, false, A),
		hcfg(false, true, false, H),
	}
	for _, s := range contfrac.Strategies {
		// logarithmic = the singleton strategies; sqrt also proposes a single k
		// although its Singleton() method answers false.
		lg := s.Singleton() || s.String() == "sqrt"
		cs = append(cs, config{alg: contfrac.NewAlgorithm(s), total: true, log: lg})
	}
	// outside the property's list
	cs = append(cs,
		hcfg(false, true, true),
		hcfg(false, true, true, heuristic.UseFirst(H)),
		hcfg(false, true, true, H, H),
		hcfg(true, true, true, heuristic.UseFirst(H, D), A),
		hcfg(true, false, true, D, H),
		hcfg(true, false, true, A, H),
	)
	return cs
}

var byName = func() map[string]config {
	m := map[string]config{}
	for _, c := range configs() {
		m[c.alg.String()] = c
	}
	return m
}()

// ---- generation ----

func ints(vs ...int64) []*big.Int {
	out := make([]*big.Int, len(vs))
	for i, v := range vs {
		out[i] = big.NewInt(v)
	}
	return out
}

func shuffled(r *lib.Rand, l []*big.Int) []*big.Int {
	s := append([]*big.Int{}, l...)
	for i := len(s) - 1; i > 0; i-- {
		j := r.Intn(i + 1)
		s[i], s[j] = s[j], s[i]
	}
	return s
}

func gen(tier string, r *lib.Rand, emit func(string)) {
	all := configs()
	put := func(c config, ts []*big.Int) {
		if hangs >= maxHangs {
			// every hung call keeps a goroutine spinning; the hangs already reported are
			// violations with their inputs, so stop generating instead of crawling on
			return
		}
		emit("findsequence " + c.alg.String() + " " + lib.HexList(ts))
	}
	// (c) degenerate: empty list, {1}, repeats of 1 and 2
	for _, c := range all {
		put(c, nil)
		for _, l := range [][]int64{{1}, {2}, {1, 1}, {2, 2}, {1, 2}, {2, 1}, {1, 1, 1}, {2, 1, 2}, {3}, {3, 3}, {4}, {5}} {
			put(c, ints(l...))
		}
	}
	// out of domain but harmless: a zero among the targets of a heuristic algorithm
	// (contfrac recurses for ever on 0 and negative values: fatal stack overflow, never generated)
	for _, c := range all {
		if strings.HasPrefix(c.alg.String(), "heuristic") {
			for _, l := range [][]int64{{0}, {0, 1}, {0, 5}, {7, 0, 3}, {0, 0, 6}} {
				put(c, ints(l...))
			}
		}
	}

	// (a) exhaustive small scope: every ordered list (so every multiset in every order, with
	// repeats, with and without 1 and 2)
	maxv, maxlen := int64(14), 3
	if tier == "thorough" {
		maxv = 24
	}
	var rec func(cur []int64)
	rec = func(cur []int64) {
		if len(cur) > 0 {
			for _, c := range all {
				if c.extra && len(cur) > 2 {
					continue
				}
				put(c, ints(cur...))
			}
		}
		if len(cur) == maxlen {
			return
		}
		for v := int64(1); v <= maxv; v++ {
			rec(append(cur, v))
		}
	}
	rec(nil)
	if tier == "thorough" {
		// multisets of four values, each in two random orders
		var ms func(cur []int64, from int64)
		ms = func(cur []int64, from int64) {
			if len(cur) == 4 {
				l := ints(cur...)
				for k := 0; k < 2; k++ {
					s := shuffled(r, l)
					for _, c := range all {
						if !c.extra {
							put(c, s)
						}
					}
				}
				return
			}
			for v := from; v <= maxv; v++ {
				ms(append(cur, v), v)
			}
		}
		ms(nil, 1)
	}

	// (b1) small values for the exponential / slow configurations and everything else:
	// 1..5 targets <= 200
	nsmall := 500
	totalMax := int64(40)
	if tier == "thorough" {
		nsmall = 6000
		totalMax = 56
	}
	for i := 0; i < nsmall; i++ {
		n := r.Range(1, 5)
		hi := []int{30, 60, 120, 200}[r.Intn(4)]
		ts := make([]*big.Int, 0, n)
		for j := 0; j < n; j++ {
			switch {
			case j > 0 && r.Chance(1, 6): // repeat
				ts = append(ts, new(big.Int).Set(ts[r.Intn(j)]))
			case j > 0 && r.Chance(1, 6): // multiple of an earlier one (remainder 0)
				m := new(big.Int).Mul(ts[r.Intn(j)], big.NewInt(int64(r.Range(2, 4))))
				if m.Cmp(big.NewInt(200)) > 0 {
					m.SetInt64(200)
				}
				ts = append(ts, m)
			case j > 0 && r.Chance(1, 6): // neighbour (quotient 1)
				ts = append(ts, new(big.Int).Add(ts[r.Intn(j)], big.NewInt(1)))
			default:
				ts = append(ts, big.NewInt(int64(r.Range(1, hi))))
			}
		}
		// the total strategy is exponential in the value: keep its targets <= totalMax
		tt := make([]*big.Int, len(ts))
		for j, t := range ts {
			tt[j] = new(big.Int).Set(t)
			if t.Cmp(big.NewInt(totalMax)) > 0 {
				tt[j].Mod(t, big.NewInt(totalMax))
				tt[j].Add(tt[j], big.NewInt(1))
			}
		}
		for _, c := range all {
			if c.extra {
				continue
			}
			if c.alg.String() == "continued_fractions(total)" {
				put(c, tt)
			} else {
				put(c, ts)
			}
		}
	}
	for v := int64(1); v <= 200; v++ {
		if tier != "thorough" && v > 64 && v%7 != 0 && v&(v-1) != 0 && (v+1)&v != 0 {
			continue
		}
		for _, c := range all {
			if c.extra || (c.alg.String() == "continued_fractions(total)" && v > totalMax) {
				continue
			}
			put(c, ints(v))
		}
	}

	// (b2) large targets for the logarithmic configurations: 1..8 targets of 1..256 bits,
	// structured (powers of two, 2^k-1, repeats, multiples, neighbours, windows of one number)
	nbig := 250
	if tier == "thorough" {
		nbig = 4000
	}
	for i := 0; i < nbig; i++ {
		n := r.Range(1, 8)
		maxbits := []int{8, 16, 33, 64, 65, 128, 255, 256}[r.Intn(8)]
		ts := make([]*big.Int, 0, n)
		base := r.BitsExact(maxbits)
		for j := 0; j < n; j++ {
			var x *big.Int
			switch r.Intn(10) {
			case 0:
				x = new(big.Int).Lsh(big.NewInt(1), uint(r.Intn(maxbits)))
			case 1:
				x = new(big.Int).Lsh(big.NewInt(1), uint(r.Range(1, maxbits)))
				x.Sub(x, big.NewInt(1))
			case 2:
				if j > 0 {
					x = new(big.Int).Set(ts[r.Intn(j)])
				}
			case 3:
				if j > 0 {
					x = new(big.Int).Mul(ts[r.Intn(j)], big.NewInt(int64(r.Range(2, 9))))
					if x.BitLen() > 256 {
						x = nil
					}
				}
			case 4:
				if j > 0 {
					x = new(big.Int).Add(ts[r.Intn(j)], big.NewInt(int64(r.Range(1, 3))))
					if x.BitLen() > 256 {
						x = nil
					}
				}
			case 5: // a window of the base value (what the dictionary methods pass in)
				lo := r.Intn(maxbits)
				w := r.Range(1, 12)
				x = new(big.Int).Rsh(base, uint(lo))
				x.And(x, new(big.Int).Sub(new(big.Int).Lsh(big.NewInt(1), uint(w)), big.NewInt(1)))
			}
			if x == nil || x.Sign() <= 0 {
				x = r.BitsExact(r.Range(1, maxbits))
			}
			ts = append(ts, x)
		}
		for _, c := range all {
			if c.log && !c.extra {
				put(c, ts)
			}
		}
	}

	// (e) composition shapes: nested use_first trees
	genShapes(tier, r, emit)

	// (d) histories: several calls in one process
	genHistories(tier, r, emit)
}

// ---- running the implementation under a watchdog ----

func classify(v interface{}) string {
	s := fmt.Sprint(v)
	switch {
	case strings.Contains(s, "index out of range"), strings.Contains(s, "slice bounds out of range"):
		return "index"
	case strings.Contains(s, "delta must be positive"):
		return "delta"
	case strings.Contains(s, "division by zero"):
		return "divzero"
	case strings.Contains(s, "square root of negative number"):
		return "sqrtneg"
	}
	return "other"
}

// hangs counts watchdog expiries and worker crashes; generation stops after maxHangs of them.
var hangs int

const maxHangs = 6

var watchdog = func() time.Duration {
	if s := os.Getenv("C08_WATCHDOG"); s != "" {
		if d, err := time.ParseDuration(s); err == nil {
			return d
		}
	}
	return 20 * time.Second
}()

// direct runs FindSequence in this process; the result line reports the chain and the caller's
// slice as it is after the call. Used by the worker process only.
func direct(a alg.SequenceAlgorithm, targets []*big.Int) (res string) {
	defer func() {
		if v := recover(); v != nil {
			res = "panic " + classify(v)
		}
	}()
	c, err := a.FindSequence(targets)
	if err != nil {
		if err.Error() == "failed to find sequence" {
			return "err noseq"
		}
		return "err other"
	}
	return "ok " + lib.HexList(c) + " " + lib.HexList(targets)
}

// The implementation runs in a worker process (this binary, subcommand "worker") so that a
// call that never returns can be killed and an unrecoverable crash (Go's stack overflow is
// fatal) costs one case instead of the whole run.
type worker struct {
	cmd   *exec.Cmd
	in    io.WriteCloser
	lines chan string
}

var theWorker *worker

func startWorker() *worker {
	exe, err := os.Executable()
	if err != nil {
		panic(err)
	}
	cmd := exec.Command(exe, "worker")
	in, err := cmd.StdinPipe()
	if err != nil {
		panic(err)
	}
	out, err := cmd.StdoutPipe()
	if err != nil {
		panic(err)
	}
	if err := cmd.Start(); err != nil {
		panic(err)
	}
	w := &worker{cmd: cmd, in: in, lines: make(chan string, 1)}
	go func() {
		sc := bufio.NewScanner(out)
		sc.Buffer(make([]byte, 1<<20), 1<<28)
		for sc.Scan() {
			w.lines <- sc.Text()
		}
		close(w.lines)
	}()
	return w
}

func (w *worker) stop() {
	w.in.Close()
	w.cmd.Process.Kill()
	w.cmd.Wait()
}

func workerLoop() {
	debug.SetMaxStack(256 << 20) // fail fast on runaway recursion
	sc := bufio.NewScanner(os.Stdin)
	sc.Buffer(make([]byte, 1<<20), 1<<28)
	w := bufio.NewWriter(os.Stdout)
	for sc.Scan() {
		f := strings.Split(sc.Text(), " ")
		if f[0] == "shist" {
			fmt.Fprintln(w, runHistory(f[1]))
		} else {
			cfg, _ := lookupAlg(f[0])
			fmt.Fprintln(w, direct(cfg.alg, lib.ParseHexList(f[1])))
		}
		w.Flush()
	}
}

// call runs one FindSequence in the worker: "hang" after the watchdog time (worker killed),
// "panic fatal" if the worker died.
func call(name string, targets []*big.Int) string {
	return callLine(name + " " + lib.HexList(targets))
}

func callLine(line string) string {
	if theWorker == nil {
		theWorker = startWorker()
	}
	w := theWorker
	fmt.Fprintln(w.in, line)
	select {
	case res, ok := <-w.lines:
		if !ok {
			hangs++
			w.stop()
			theWorker = nil
			return "panic fatal"
		}
		return res
	case <-time.After(watchdog):
		hangs++
		w.stop()
		theWorker = nil
		return "hang"
	}
}

func parse(c string) (config, []*big.Int) {
	f := strings.Split(c, " ")
	if len(f) != 3 || f[0] != "findsequence" {
		panic("unknown case " + c)
	}
	cfg, ok := lookupAlg(f[1])
	if !ok {
		panic("unknown algorithm " + f[1])
	}
	return cfg, lib.ParseHexList(f[2])
}

func run(c string) string {
	if strings.HasPrefix(c, "shist ") {
		return callLine(c)
	}
	if strings.HasPrefix(c, "hname ") {
		cfg, ok := lookupAlg(strings.TrimPrefix(c, "hname "))
		if !ok {
			panic("unknown algorithm in " + c)
		}
		return "ok " + cfg.alg.String()
	}
	_, ts := parse(c)
	return call(strings.Split(c, " ")[1], ts)
}

// ---- oracle: the property stated directly ----

// validChain is the definition of an addition chain: starts at 1, no repeated
// element, every later element is the sum of two (not necessarily distinct)
// earlier elements.
func validChain(c []*big.Int) string {
	if len(c) == 0 {
		return "empty chain"
	}
	if c[0].Cmp(big.NewInt(1)) != 0 {
		return "chain does not start with 1"
	}
	// position of every value (values are distinct, checked below)
	pos := map[string]int{}
	for k, x := range c {
		if x.Sign() <= 0 {
			return fmt.Sprintf("non-positive element at %d", k)
		}
		key := string(x.Bytes())
		if _, dup := pos[key]; dup {
			return fmt.Sprintf("element %s repeated", x)
		}
		pos[key] = k
	}
	s := new(big.Int)
	for k := 1; k < len(c); k++ {
		found := false
		// c[k] = c[i] + c[j] with i, j < k: try the most recent elements first
		for i := k - 1; i >= 0 && !found; i-- {
			s.Sub(c[k], c[i])
			if s.Sign() <= 0 {
				continue
			}
			if j, ok := pos[string(s.Bytes())]; ok && j < k {
				found = true
			}
		}
		if !found {
			return fmt.Sprintf("element %d (%s) is not a sum of two earlier elements", k, c[k])
		}
	}
	return ""
}

func sortedStrings(l []*big.Int) []string {
	s := make([]string, len(l))
	for i, x := range l {
		s[i] = x.String()
	}
	sort.Strings(s)
	return s
}

func inDomain(ts []*big.Int) bool {
	if len(ts) == 0 {
		return false
	}
	for _, t := range ts {
		if t.Sign() <= 0 {
			return false
		}
	}
	return true
}

func oracle(c, res string) string {
	if strings.HasPrefix(c, "hname ") {
		tok := strings.TrimPrefix(c, "hname ")
		if strings.HasPrefix(tok, "T=") {
			// either the composition as written or its leaves spliced in order describes it faithfully
			t := mustTree(tok[2:])
			flat := &tree{}
			for _, l := range t.leaves() {
				flat.kids = append(flat.kids, &tree{leaf: l})
			}
			alt := "ok heuristic(" + flat.name() + ")"
			if t.leaf != 0 {
				alt = "ok heuristic(" + t.name() + ")"
			}
			if want := "ok heuristic(" + t.name() + ")"; res != want && res != alt {
				return "String() names neither the composition as written nor its leaves in order: want " + want
			}
		}
		return ""
	}
	if strings.HasPrefix(c, "shist ") {
		return oracleHistory(strings.TrimPrefix(c, "shist "), res)
	}
	cfg, ts := parse(c)
	orig := lib.CloneInts(ts)
	if !inDomain(ts) {
		// outside the property's quantifier: only the model comparison applies
		return ""
	}
	if res == "hang" {
		return "no answer within the watchdog time"
	}
	a := sortedStrings(orig)
	switch {
	case strings.HasPrefix(res, "panic"):
		return "panicked on positive targets: " + res
	case strings.HasPrefix(res, "err"):
		if cfg.total {
			return "error from a configuration that must always find a sequence: " + res
		}
		return "" // a partial heuristic on its own may give up
	}
	// independent second run: the function is deterministic
	if again := call(strings.Split(c, " ")[1], orig); again != res {
		return "second run differs: " + again
	}
	f := strings.Fields(res)
	if len(f) != 3 || f[0] != "ok" {
		return "malformed result " + res
	}
	chain := lib.ParseHexList(f[1])
	if msg := validChain(chain); msg != "" {
		return "invalid chain: " + msg
	}
	for _, t := range orig {
		found := false
		for _, x := range chain {
			if x.Cmp(t) == 0 {
				found = true
				break
			}
		}
		if !found {
			return fmt.Sprintf("target %s missing from the chain", t)
		}
	}
	after := sortedStrings(lib.ParseHexList(f[2]))
	if len(after) != len(a) {
		return "number of targets changed"
	}
	for i := range a {
		if a[i] != after[i] {
			return "target values after the call differ from the values passed in"
		}
	}
	return ""
}

func nontrivial(c, res string) bool {
	if strings.HasPrefix(c, "hname ") {
		return strings.Contains(c, "U(U")
	}
	if strings.HasPrefix(c, "shist ") {
		return strings.Count(res, "ok:") >= 2
	}
	_, ts := parse(c)
	if !inDomain(ts) {
		return false
	}
	if res == "err noseq" {
		return true
	}
	f := strings.Fields(res)
	return len(f) == 3 && f[0] == "ok" && len(lib.ParseHexList(f[1])) >= 4
}

func main() {
	if len(os.Args) > 1 && os.Args[1] == "worker" {
		workerLoop()
		return
	}
	defer func() {
		if theWorker != nil {
			theWorker.stop()
		}
	}()
	lib.Main(lib.Prop{ID: "C08", Gen: gen, Run: run, Oracle: oracle, Nontrivial: nontrivial, Neighbours: neighbours,
		PanicClass: classify})
}
