// Harness for C03: loading a script yields the chain defined by the published
// grammar and semantics.
package main

import (
	"fmt"
	"strings"

	"github.com/mmcloughlin/addchain/acc/ast"

	"verif/harness/acclib"
	"verif/harness/lib"
)

func gen(tier string, r *lib.Rand, emit func(string)) {
	toklen, smalllen, nrand, nmut := 3, 4, 2500, 4000
	if tier == "thorough" {
		toklen, smalllen, nrand, nmut = 4, 5, 100000, 150000
	}
	hex := func(s string) string { return lib.Bytes([]byte(s)) }
	// (c) rejection classes and literal boundaries
	for _, s := range acclib.Rejections {
		emit("load " + hex(s))
	}
	// non-ASCII look-alikes and invalid UTF-8 in identifier / keyword / operator / digit / white-space positions
	acclib.UnicodeCases(func(src string) { emit("loadx " + hex(src) + " parse") })
	// name resolution order: self-reference, use before definition, redefinition using the first definition,
	// alias cycles, and their legal look-alikes; the intended verdict travels with the case
	acclib.NameOrderCases(func(t *ast.Chain, verdict string) {
		emit("loadx " + hex(acclib.RenderScript(r, t, false)) + " " + verdict)
		emit("loadx " + hex(acclib.RenderScript(r, t, true)) + " " + verdict)
		emit("loadtree " + acclib.EncScript(t))
	})
	// parse histories (print histories belong to C07; the shared generator emits both kinds)
	acclib.HistCases(tier, r, func(c string) {
		if strings.HasPrefix(c, "parsehist") {
			emit(c)
		}
	})
	// large sizes: long sums, deep nesting, many statements, wide alignment padding
	for _, sh := range acclib.LargeShapes {
		for _, n := range acclib.LargeSizes(tier) {
			emit(fmt.Sprintf("large %s %d", sh, n))
		}
	}
	// keyword look-alike identifiers in every statement position, with and without the optional keyword
	acclib.LookalikeCases(func(src string, want *ast.Chain) {
		emit("parsex " + hex(src) + " " + acclib.EncScript(want))
		emit("load " + hex(src))
	})
	// deep nesting: compared with the model up to depth `deep` (the Gallina parser is the un-memoised PEG,
	// exponential in the depth), beyond that the implementation alone must answer within 2 s
	deep := 12
	depths := []int{20, 40, 100, 200}
	if tier == "thorough" {
		deep = 14
		depths = append(depths, 1000, 5000)
	}
	for k := 0; k <= deep; k++ {
		emit(fmt.Sprintf("deepparse %d", k))
		emit("load " + hex(acclib.DeepSource(k)))
		for _, e := range acclib.NestedTrees(k) {
			t := &ast.Chain{Statements: []ast.Statement{{Name: "x", Expr: ast.Operand(0)}, {Expr: e}}}
			emit("parsex " + hex(acclib.RenderScript(r, t, false)) + " " + acclib.EncScript(t))
			emit("load " + hex(acclib.RenderScript(r, t, false)))
		}
	}
	for _, k := range depths {
		emit(fmt.Sprintf("deepparse %d", k))
	}
	// (a) every token sequence up to toklen
	acclib.TokenSequences(toklen, func(src string) { emit("load " + hex(src)) })
	for n := toklen + 1; n <= smalllen; n++ {
		acclib.SequencesOver(acclib.SmallTokens, n, func(src string) { emit("load " + hex(src)) })
	}
	for i := 0; i < 8*nrand; i++ {
		emit("load " + hex(acclib.RandomTokenSequence(r, toklen+1+r.Intn(4))))
	}
	// (b) generated scripts: the text is rendered from a known tree
	var srcs []string
	for i := 0; i < nrand; i++ {
		t := acclib.GenScript(r, acclib.ScriptOpts{Faults: i%3 == 0, MaxShift: 1 + r.Intn(12), ZeroShift: i%5 == 0})
		enc := acclib.EncScript(t)
		plain := acclib.RenderScript(r, t, false)
		wild := acclib.RenderScript(r, t, true)
		emit("parsex " + hex(plain) + " " + enc)
		emit("parsex " + hex(wild) + " " + enc)
		emit("load " + hex(wild))
		if i%4 == 0 {
			emit("load " + hex(plain))
			emit("loadtree " + enc)
		}
		srcs = append(srcs, plain, wild)
		// literals at the limits: parse only (evaluating them would not terminate)
		if i%10 == 0 {
			b := acclib.GenScript(r, acclib.ScriptOpts{BigNumbers: true, MaxShift: 9})
			emit("parsex " + hex(acclib.RenderScript(r, b, true)) + " " + acclib.EncScript(b))
		}
	}
	// trees no text denotes (several unnamed statements, empty names ...) through Translate directly
	for i := 0; i < nrand/4; i++ {
		t := acclib.GenScript(r, acclib.ScriptOpts{Faults: true, MaxShift: 5, ZeroShift: true})
		for j := range t.Statements {
			if r.Chance(1, 4) {
				t.Statements[j].Name = ""
			}
		}
		emit("loadtree " + acclib.EncScript(t))
	}
	// (d) byte-level mutations
	for i := 0; i < nmut; i++ {
		s := srcs[r.Intn(len(srcs))]
		if r.Chance(1, 6) {
			s = acclib.Rejections[r.Intn(len(acclib.Rejections))]
		}
		s = acclib.Mutate(r, s)
		if r.Chance(1, 4) {
			s = acclib.Mutate(r, s)
		}
		emit("load " + hex(s))
	}
}

func nontrivial(c, res string) bool {
	// parsed and contains at least two operators
	f := strings.Split(res, " ")
	if strings.HasPrefix(c, "parsehist") {
		return true
	}
	if strings.HasPrefix(c, "deepparse") || strings.HasPrefix(c, "large") {
		return res == "ok"
	}
	var enc string
	switch {
	case f[0] == "ok" && len(f) >= 2 && !strings.HasPrefix(c, "loadtree"):
		enc = f[1]
	case f[0] == "err" && len(f) == 3:
		enc = f[2]
	case strings.HasPrefix(c, "loadtree"):
		enc = strings.Split(c, " ")[1]
	default:
		return false
	}
	return acclib.CountOps(acclib.DecScript(enc)) >= 2
}

func main() {
	lib.Main(lib.Prop{ID: "C03", Gen: gen, Run: acclib.Run, Oracle: acclib.OracleC03, Nontrivial: nontrivial, PanicClass: acclib.PanicClass,
		Neighbours: acclib.Neighbours("load")})
}
