// C05: allocated programs compute the chain, even when the output aliases the input.
package main

import (
	"math/big"
	"strings"

	"github.com/mmcloughlin/addchain"
	"verif/harness/alloclib"
	"verif/harness/lib"
)

var one = big.NewInt(1)

// emitAll emits the allocate case and, from the implementation's own allocation, the interp
// cases in both aliasing modes.
func emitAll(emit func(string), p alloclib.Prog, c alloclib.Cfg, x *big.Int) {
	emit(alloclib.AllocCase(p, c))
	q, _, err := alloclib.Allocate(p, c)
	if err != nil {
		return
	}
	emit(alloclib.InterpCase(q, c.In, c.Out, false, x))
	emit(alloclib.InterpCase(q, c.In, c.Out, true, x))
}

func gen(tier string, r *lib.Rand, emit func(string)) {
	full, single, nrand, maxlen := 5, 6, 400, 40
	if tier == "thorough" {
		full, single, nrand, maxlen = 5, 7, 20000, 150
	}
	good := alloclib.GoodCfgs
	// (a) exhaustive: decompile of every op list
	emit(alloclib.AllocCase(alloclib.Prog{}, good[0]))
	emit(alloclib.InterpCase(alloclib.Prog{}, "x", "z", false, one))
	emit(alloclib.InterpCase(alloclib.Prog{}, "x", "z", true, one))
	rot := 0
	for n := 1; n <= full; n++ {
		alloclib.OpLists(n, func(ops addchain.Program) {
			p := alloclib.Decompiled(ops)
			emitAll(emit, p, good[0], one)
			emit(alloclib.AllocCase(p, good[1]))
			rot++
			emit(alloclib.AllocCase(p, good[2+rot%(len(good)-2)]))
		})
	}
	k := 0
	for n := full + 1; n <= single; n++ {
		alloclib.OpLists(n, func(ops addchain.Program) {
			p := alloclib.Decompiled(ops)
			k++
			c := good[k%len(good)]
			if n == 7 || k%3 != 0 {
				emit(alloclib.AllocCase(p, c))
			} else {
				emitAll(emit, p, c, one)
			}
		})
	}
	// (b) structured: translated scripts, random long programs
	for i := 0; i < nrand; i++ {
		script := alloclib.RandomScript(r, r.Range(1, 8))
		p, shared, ok := alloclib.Translated(script)
		if !ok {
			continue
		}
		c := good[r.Intn(len(good))]
		if !alloclib.SharingAgrees(shared, p, c) {
			// allocation of the program as Translate built it differs from its value-level copy:
			// the model's scope assumption is broken; the model answers badcase to this line
			emit("sharingdiff " + alloclib.Encode(p))
		}
		emitAll(emit, p, c, one)
		emitAll(emit, alloclib.Strip(p), good[r.Intn(len(good))], one)
	}
	for i := 0; i < nrand; i++ {
		n := r.Range(1, maxlen)
		dead := []int{0, 0, 10, 30, 60}[r.Intn(5)]
		p := alloclib.RandomProgram(r, n, dead)
		x := one
		if r.Chance(1, 4) {
			x = r.Bits(r.Range(1, 80))
			if r.Chance(1, 4) {
				x = new(big.Int).Neg(x)
			}
		}
		emitAll(emit, p, good[r.Intn(len(good))], x)
		if r.Chance(1, 4) {
			emit(alloclib.AllocCase(p, alloclib.BadCfgs[r.Intn(len(alloclib.BadCfgs))]))
		}
	}
	// (b') histories: passes on a program object, clones of it, allocation of the clones under
	// another configuration, allocation of the original after its clone
	hist := func(p alloclib.Prog, k int) {
		ca, cb := good[k%len(good)], good[(k+1+k/len(good))%len(good)]
		emit(alloclib.HistoryCase(p, ca, cb, alloclib.Histories[k%len(alloclib.Histories)]))
	}
	hk := 0
	emit(alloclib.HistoryCase(alloclib.Prog{}, good[0], good[1], []string{"a", "c", "b"}))
	emit(alloclib.HistoryCase(alloclib.Prog{}, good[0], good[1], []string{"i", "c", "b"}))
	for n := 1; n <= 4; n++ {
		alloclib.OpLists(n, func(ops addchain.Program) {
			p := alloclib.Decompiled(ops)
			for _, h := range alloclib.Histories {
				if n <= 3 || hk%5 == 0 {
					emit(alloclib.HistoryCase(p, good[hk%len(good)], good[(hk+1)%len(good)], h))
				}
				hk++
			}
		})
	}
	for i := 0; i < nrand; i++ {
		hist(alloclib.RandomProgram(r, r.Range(1, maxlen), []int{0, 10, 40}[r.Intn(3)]), i)
		if i%3 == 0 {
			if p, _, ok := alloclib.Translated(alloclib.RandomScript(r, r.Range(1, 8))); ok {
				hist(p, i+1)
			}
			hist(alloclib.IllFormed(r, alloclib.RandomProgram(r, r.Range(1, 10), 30)), i+2)
			emit(alloclib.HistoryCase(alloclib.RandomProgram(r, r.Range(1, 10), 20), good[r.Intn(len(good))],
				alloclib.BadCfgs[r.Intn(len(alloclib.BadCfgs))], alloclib.Histories[r.Intn(len(alloclib.Histories))]))
		}
	}
	// (b'') several programs from the real producers, allocated in turn under different
	// configurations; every program is re-examined after all allocations
	schedules := [][]alloclib.Event{
		{{0, 0}, {1, 1}}, {{1, 1}, {0, 0}}, {{0, 0}, {1, 1}, {0, 0}}, {{0, 0}, {1, 0}}, {{0, 1}, {1, 2}, {0, 3}},
		{{0, 0}, {1, 1}, {2, 2}}, {{2, 2}, {0, 0}, {1, 1}}, {{0, 0}, {1, 1}, {2, 0}, {1, 3}},
	}
	multi := func(srcs []alloclib.Source, k int) {
		sch := schedules[k%len(schedules)]
		need := 0
		for _, e := range sch {
			if e.K+1 > need {
				need = e.K + 1
			}
		}
		for len(srcs) < need {
			srcs = append(srcs, srcs[len(srcs)-1])
		}
		cfgs := []alloclib.Cfg{good[k%len(good)], good[(k+1)%len(good)], good[(k+2)%len(good)], good[(k+3)%len(good)]}
		if c, ok := alloclib.MultiCase(srcs[:need], cfgs, sch); ok {
			emit(c)
		}
	}
	var small []addchain.Program
	for n := 1; n <= 3; n++ {
		alloclib.OpLists(n, func(ops addchain.Program) { small = append(small, ops) })
	}
	mk := 0
	for i, a := range small {
		for j, b := range small {
			if (i+j)%3 == 0 || len(a)+len(b) <= 3 {
				multi([]alloclib.Source{{Ops: a}, {Ops: b}, {Ops: small[(i*7+j)%len(small)]}}, mk)
				mk++
			}
		}
	}
	for i := 0; i < nrand; i++ {
		src := func() alloclib.Source {
			if r.Chance(1, 3) {
				return alloclib.Source{Script: alloclib.RandomScript(r, r.Range(1, 6))}
			}
			var ops addchain.Program
			for k, n := 0, r.Range(1, 12); k < n; k++ {
				j := r.Intn(k + 1)
				if r.Bool() {
					j = k
				}
				ops = append(ops, addchain.Op{I: r.Intn(j + 1), J: j})
			}
			return alloclib.Source{Ops: ops}
		}
		multi([]alloclib.Source{src(), src(), src()}, i)
	}
	// (b3) scripts through the real pipeline parse -> Translate -> Allocator -> interpreter
	for k, sc := range alloclib.AliasScripts {
		emit(alloclib.SallocCase(sc, good[0]))
		emit(alloclib.SallocCase(sc, good[1+k%(len(good)-1)]))
	}
	for i := 0; i < 2*nrand; i++ {
		if i%3 == 0 {
			emit(alloclib.SallocCase(alloclib.RandomScript(r, r.Range(1, 8)), good[r.Intn(len(good))]))
		} else {
			emit(alloclib.SallocCase(alloclib.RandomAliasScript(r, r.Range(2, 9)), good[r.Intn(len(good))]))
		}
	}
	for _, sc := range []string{"", "a =", "return 1 +", "a = 2*1\nreturn a +* 1\n", "return [", "a b\n"} {
		emit(alloclib.SallocCase(sc, good[0]))
	}
	// (c) malformed: ill-formed programs, bad configurations, arbitrary identifiers
	pool := []string{"x", "z", "t0", "t1", "t2", "", "u"}
	for i := 0; i < nrand; i++ {
		p := alloclib.RandomProgram(r, r.Range(1, 10), 30)
		q := alloclib.IllFormed(r, p)
		var c alloclib.Cfg
		if r.Chance(1, 3) {
			c = alloclib.BadCfgs[r.Intn(len(alloclib.BadCfgs))]
		} else {
			c = good[r.Intn(len(good))]
		}
		emitAll(emit, q, c, one)
		rn := alloclib.Rename(r, p, pool)
		emit(alloclib.InterpCase(rn, "x", "z", r.Bool(), one))
		emit(alloclib.InterpCase(alloclib.Rename(r, q, pool), pool[r.Intn(len(pool))], pool[r.Intn(len(pool))], r.Bool(), big.NewInt(int64(r.Range(-3, 9)))))
		emit(alloclib.AllocCase(rn, c))
	}
	for k, fm := range alloclib.UnsupportedFormats {
		emit(alloclib.AllocCase(alloclib.RandomProgram(r, r.Range(1, 6), 20), alloclib.Cfg{In: "x", Out: "z", Format: fm}))
		if k%4 == 0 {
			emit(alloclib.AllocCase(alloclib.Prog{}, alloclib.Cfg{In: "x", Out: "z", Format: fm}))
		}
	}
	// every supported format on programs with many temporaries (counter beyond one digit in every base)
	for _, c := range good {
		for _, w := range []int{3, 11, 18, 35} {
			var p alloclib.Prog
			for k := 1; k <= w; k++ {
				p = append(p, alloclib.Ins{Kind: 'a', Out: alloclib.Opd{Idx: k}, X: alloclib.Opd{Idx: 0}, Y: alloclib.Opd{Idx: k - 1}})
			}
			for k := w + 1; k <= 2*w; k++ {
				p = append(p, alloclib.Ins{Kind: 'a', Out: alloclib.Opd{Idx: k}, X: alloclib.Opd{Idx: k - w}, Y: alloclib.Opd{Idx: k - 1}})
			}
			emitAll(emit, p, c, one)
		}
	}
	for _, c := range alloclib.BadCfgs {
		for n := 1; n <= 3; n++ {
			alloclib.OpLists(n, func(ops addchain.Program) { emitAll(emit, alloclib.Decompiled(ops), c, one) })
		}
	}
}

func run(c string) string {
	if strings.HasPrefix(c, "sharingdiff ") {
		return "ok differs"
	}
	return alloclib.Run(c)
}

func oracle(c, res string) string {
	switch {
	case strings.HasPrefix(c, "allocate "):
		return alloclib.CheckAllocation(c, res, false)
	case strings.HasPrefix(c, "interp "):
		return alloclib.CheckInterp(c, res)
	case strings.HasPrefix(c, "history "):
		return alloclib.CheckHistory(c, res)
	case strings.HasPrefix(c, "multi "):
		return alloclib.CheckMulti(c, res)
	case strings.HasPrefix(c, "salloc "):
		return alloclib.CheckSalloc(c, res)
	case strings.HasPrefix(c, "sharingdiff "):
		return "allocation depends on operand object sharing"
	}
	return ""
}

func nontrivial(c, res string) bool {
	f := strings.Split(c, " ")
	if len(f) < 2 || !strings.HasPrefix(res, "ok ") {
		return false
	}
	if f[0] == "multi" || f[0] == "salloc" {
		return true
	}
	p := alloclib.Decode(f[1])
	return len(p) >= 3 && alloclib.WellFormed(p)
}

func main() {
	lib.Main(lib.Prop{ID: "C05", Gen: gen, Run: run, Oracle: oracle, Nontrivial: nontrivial, Neighbours: alloclib.Neighbours,
		PanicClass: func(v interface{}) string { return "other" }})
}
