// Copied from harness/acclib (C03/C07) so that the C15 check does not depend on another
// property's package; generators and line encodings only.
package main

import (
	"fmt"
	"math/big"
	"strconv"
	"strings"

	"github.com/mmcloughlin/addchain/acc/ast"
	"github.com/mmcloughlin/addchain/acc/ir"

	"verif/harness/lib"
)

func encExpr(e ast.Expr, out *[]string) {
	switch e := e.(type) {
	case ast.Operand:
		*out = append(*out, "O"+strconv.Itoa(int(e)))
	case ast.Identifier:
		*out = append(*out, "I"+lib.Bytes([]byte(e)))
	case ast.Add:
		*out = append(*out, "A")
		encExpr(e.X, out)
		encExpr(e.Y, out)
	case ast.Shift:
		*out = append(*out, "S"+strconv.FormatUint(uint64(e.S), 10))
		encExpr(e.X, out)
	case ast.Double:
		*out = append(*out, "D")
		encExpr(e.X, out)
	default:
		panic(fmt.Sprintf("harness: unexpected expression type %T", e))
	}
}

// EncExpr is the prefix token form of an expression.
func EncExpr(e ast.Expr) string {
	var toks []string
	encExpr(e, &toks)
	return strings.Join(toks, ",")
}

// EncScript encodes a chain: statements joined by ';', "-" for none.
func EncScript(c *ast.Chain) string {
	if len(c.Statements) == 0 {
		return "-"
	}
	ss := make([]string, len(c.Statements))
	for i, s := range c.Statements {
		ss[i] = lib.Bytes([]byte(s.Name)) + "=" + EncExpr(s.Expr)
	}
	return strings.Join(ss, ";")
}

func encOperand(o *ir.Operand) string {
	return lib.Bytes([]byte(o.Identifier)) + "@" + strconv.Itoa(o.Index)
}

// EncIR encodes the instruction list with operand names and indexes.
func EncIR(p *ir.Program) string {
	if len(p.Instructions) == 0 {
		return "-"
	}
	ss := make([]string, len(p.Instructions))
	for i, inst := range p.Instructions {
		switch op := inst.Op.(type) {
		case ir.Add:
			ss[i] = "a" + encOperand(inst.Output) + ":" + encOperand(op.X) + "," + encOperand(op.Y)
		case ir.Double:
			ss[i] = "d" + encOperand(inst.Output) + ":" + encOperand(op.X)
		case ir.Shift:
			ss[i] = "s" + encOperand(inst.Output) + ":" + encOperand(op.X) + ":" + strconv.FormatUint(uint64(op.S), 10)
		default:
			panic("harness: unexpected op")
		}
	}
	return strings.Join(ss, ";")
}

// Interp is an independent reading of the language's semantics: statements in
// order, operands left to right, one new element per add/double, s doublings
// per shift by s >= 1, shift by 0 denotes its operand.
func Interp(c *ast.Chain) (vals []*big.Int, ops [][2]int, reject string) {
	vals = []*big.Int{big.NewInt(1)}
	env := map[string]int{}
	var eval func(e ast.Expr) (int, string)
	exists := func(i int) bool { return i >= 0 && i < len(vals) }
	eval = func(e ast.Expr) (int, string) {
		switch e := e.(type) {
		case ast.Operand:
			return int(e), ""
		case ast.Identifier:
			i, ok := env[string(e)]
			if !ok {
				return 0, "undefined"
			}
			return i, ""
		case ast.Add:
			x, r := eval(e.X)
			if r != "" {
				return 0, r
			}
			y, r := eval(e.Y)
			if r != "" {
				return 0, r
			}
			if !exists(x) || !exists(y) {
				return 0, "future"
			}
			vals = append(vals, new(big.Int).Add(vals[x], vals[y]))
			if x > y {
				x, y = y, x
			}
			ops = append(ops, [2]int{x, y})
			return len(vals) - 1, ""
		case ast.Double:
			x, r := eval(e.X)
			if r != "" {
				return 0, r
			}
			if !exists(x) {
				return 0, "future"
			}
			vals = append(vals, new(big.Int).Lsh(vals[x], 1))
			ops = append(ops, [2]int{x, x})
			return len(vals) - 1, ""
		case ast.Shift:
			x, r := eval(e.X)
			if r != "" {
				return 0, r
			}
			if e.S == 0 {
				return x, ""
			}
			if !exists(x) {
				return 0, "future"
			}
			if e.S > shiftBound { // same bound as hugeShift: never materialise more
				return 0, "toolarge"
			}
			for k := uint(0); k < e.S; k++ {
				vals = append(vals, new(big.Int).Lsh(vals[x], 1))
				ops = append(ops, [2]int{x, x})
				x = len(vals) - 1
			}
			return x, ""
		}
		panic("oracle: unexpected expression")
	}
	for _, s := range c.Statements {
		i, r := eval(s.Expr)
		if r != "" {
			return nil, nil, r
		}
		if _, dup := env[string(s.Name)]; dup {
			return nil, nil, "redefine"
		}
		env[string(s.Name)] = i
	}
	return vals, ops, ""
}

// shiftBound: scripts with a larger shift amount are not evaluated by the check (one chain
// element per doubling, each printed in full by the model).
const shiftBound = 512

func hugeShift(t *ast.Chain) bool {
	var rec func(e ast.Expr) bool
	rec = func(e ast.Expr) bool {
		switch e := e.(type) {
		case ast.Add:
			return rec(e.X) || rec(e.Y)
		case ast.Double:
			return rec(e.X)
		case ast.Shift:
			return e.S > shiftBound || rec(e.X)
		}
		return false
	}
	for _, s := range t.Statements {
		if rec(s.Expr) {
			return true
		}
	}
	return false
}

// CountOps is the number of operator nodes of a tree.
func CountOps(c *ast.Chain) int {
	var rec func(e ast.Expr) int
	rec = func(e ast.Expr) int {
		switch e := e.(type) {
		case ast.Add:
			return 1 + rec(e.X) + rec(e.Y)
		case ast.Double:
			return 1 + rec(e.X)
		case ast.Shift:
			return 1 + rec(e.X)
		}
		return 0
	}
	n := 0
	for _, s := range c.Statements {
		n += rec(s.Expr)
	}
	return n
}
