package main

import (
	"fmt"
	"strings"

	"verif/harness/lib"
)

// ---- expression strings ----

// exprMenu: the degenerate targets the property names, and the malformed shapes.
var exprMenu = []string{
	"0", "1", "2", "3", "5", "-1", "-5", "0-0", "1-1", "1-2", "5-7", "2-1", "0*5", "-0", "00", "01", "010", "08",
	"1/0", "0/0", "5/0", "2^3/0+1", "1/(1-1)", "7/0*0", "0/1", "1/1", "1/2", "-7/2", "7/-2", "0^0", "0^5", "2^0", "2^-1", "2^-1-1",
	"1+", "1-", "1*", "1/", "1^", "+", "-", "*", "/", "^", "+1", "--1", "- 1", "1++1", "1 1", "1 + + 1", "1+-1", "1--1",
	"", " ", "  ", "x", "0x", "0b", "0x1", "0b1", "0xff", "0xFF", "0b2", "0b102", "0x1g", "1e3", "1.5", "1_0", "(1)", "2*(3+4)", ")", "(",
	"2^255-19", "2^64-1", "2^127-1", "2^10", "2^3^2", "2^2^2^2", "0^0^0", "1^1^1^1", "2^16+1", "0xffffffffffffffff", "0b1111111111",
	"255", "1023", "65537", "31415926", "12345678901234567890", "2^31", "2^32-1", "2^63", "2^64", "3*5*7*11*13", "100/7", "100-1-1-1",
	" 5", "5 ", " 5 ", "\t5", "5\n", "5\x00", "\x005", "\xff", "5\xc3\xa9", "1 + 2 ", "2 ^ 8 - 1",
}

const exprAlphabet = "0123456789 +-*/^xbaf()"

// safeExpr: at most one '^', directly followed by an exponent of one to three digits, so that
// no evaluation builds an astronomically large number (wall-clock is outside the property).
// A '^' without a literal behind it is excluded too: at the end of the input the yard applies
// it to whatever two operands are on the stack ("5/99999999999^" computes 5^99999999999
// before it reports the missing operand).
func safeExpr(s string) bool {
	i := strings.IndexByte(s, '^')
	if i < 0 {
		return true
	}
	if strings.IndexByte(s[i+1:], '^') >= 0 {
		return false
	}
	r := strings.TrimLeft(s[i+1:], " ")
	r = strings.TrimPrefix(r, "-")
	n := 0
	for n < len(r) && (r[n] >= '0' && r[n] <= '9' || r[n] >= 'a' && r[n] <= 'f' || r[n] == 'x') {
		n++
	}
	return n >= 1 && n <= 3
}

func randExpr(r *lib.Rand) string {
	switch r.Intn(4) {
	case 0: // raw over the alphabet
		n := r.Intn(12)
		b := make([]byte, n)
		for i := range b {
			b[i] = exprAlphabet[r.Intn(len(exprAlphabet))]
		}
		return string(b)
	case 1: // mutation of a menu entry
		return mutateExpr(r, exprMenu[r.Intn(len(exprMenu))])
	}
	// well-formed with a fault now and then
	var sb strings.Builder
	k := r.Range(1, 5)
	for i := 0; i < k; i++ {
		if i > 0 {
			sb.WriteString([]string{"+", "-", "*", "/", " + ", " - ", "*", "/"}[r.Intn(8)])
		}
		switch r.Intn(8) {
		case 0:
			sb.WriteString("0")
		case 1:
			sb.WriteString("-" + fmt.Sprint(r.Intn(9)))
		case 2:
			sb.WriteString("0x" + fmt.Sprintf("%x", r.Uint64()>>uint(r.Intn(60))))
		case 3:
			sb.WriteString("0b" + fmt.Sprintf("%b", r.Intn(64)))
		default:
			sb.WriteString(fmt.Sprint(r.Intn(1000)))
		}
	}
	s := sb.String()
	if r.Chance(1, 5) {
		s += []string{"+", "-", "*", "/", "^", " ", "/0", "-" + s, "*0"}[r.Intn(9)]
	}
	if r.Chance(1, 6) {
		s = fmt.Sprintf("2^%d-%d", r.Range(1, 200), r.Intn(50))
	}
	return s
}

func mutateExpr(r *lib.Rand, s string) string {
	ins := []string{"0", "1", "-", "+", "*", "/", "^", " ", "/0", "0x", "0b", "x", "(", "\x00", "\xff", "9"}
	t := ins[r.Intn(len(ins))]
	pos := r.Intn(len(s) + 1)
	switch r.Intn(3) {
	case 0:
		return s[:pos] + t + s[pos:]
	case 1:
		if pos < len(s) {
			return s[:pos] + t + s[pos+1:]
		}
		return s + t
	}
	if pos < len(s) {
		return s[:pos] + s[pos+1:]
	}
	return s
}

// ---- byte strings ----

func randBytes(r *lib.Rand) string {
	n := r.Intn(48)
	if r.Chance(1, 10) {
		n = r.Range(48, 400)
	}
	b := make([]byte, n)
	const biased = " \t\r\n()[]=+<*2 1 0 x_ab addshldblreturn\x00\x80\xff"
	uniform := r.Chance(1, 3)
	for i := range b {
		if uniform {
			b[i] = byte(r.Intn(256))
		} else {
			b[i] = biased[r.Intn(len(biased))]
		}
	}
	return string(b)
}

// longInputs: very long lines and many statements (model and implementation).
func longInputs() []string {
	var out []string
	out = append(out,
		"return "+strings.Repeat("a", 20000),
		strings.Repeat(" ", 20000)+"return 1",
		"return 1"+strings.Repeat(" ", 20000),
		strings.Repeat("x", 5000)+" = 1 + 1\nreturn "+strings.Repeat("x", 5000),
		"return "+strings.Repeat("1 + ", 300)+"1",
		"return "+strings.Repeat("2*", 200)+"1",
		"return 1"+strings.Repeat(" << 1", 3),
		"return "+strings.Repeat("9", 5000),
		"return 1 << "+strings.Repeat("9", 300),
		"return ["+strings.Repeat("0", 3000)+"1]",
		strings.Repeat("\n", 3000)+"return 1",
		"return 1"+strings.Repeat("\n", 3000),
		strings.Repeat("\x00", 3000),
		strings.Repeat("\xff", 3000),
	)
	var sb strings.Builder
	for i := 0; i < 150; i++ {
		prev := "1"
		if i > 0 {
			prev = fmt.Sprintf("v%d", i-1)
		}
		fmt.Fprintf(&sb, "v%d = %s + 1\n", i, prev)
	}
	sb.WriteString("return v149 << 2")
	out = append(out, sb.String())
	return out
}

// ---- flag values ----

var (
	pTokens = []string{"!", "1", "2", "3", "16", "200", "201", "1000", "1000000", "1000000000", "2147483648", "9223372036854775807",
		"0", "-1", "-5", "-9223372036854775808", "9223372036854775808", "-9223372036854775809", "99999999999999999999999",
		"", "x", "1x", "1.5", "1e3", "+2", " 1", "--1", "nan", "\x00"}
	costTokens = []string{"!", "1", "0", "-0", "-1", "0.5", "2.75", "-3.5", "1e3", "1E3", "1e-3", "1e308", "1e309", "-1e309", "1e-400", ".5", "5.",
		"inf", "Inf", "+Inf", "-inf", "-Inf", "infinity", "Infinity", "nan", "NaN", "+nan", "-nan",
		"", "abc", "1.2.3", "1e", "e5", "--1", "1,5", "0x", "1 ", "\x00"}
	typeTokens = []string{"!", "listing", "chain", "ops", "script", "", "nosuch", "Listing", "listing.tmpl", "../templates/listing", "listing\x00", "\xff"}
)

func argHex(s string) string {
	if s == "!" {
		return "!"
	}
	return hex(s)
}

func searchCase(v, dd bool, p, add, dbl, expr string) string {
	return fmt.Sprintf("cli search %s %s %s %s %s %s", lib.Bool(v), lib.Bool(dd), argHex(p), argHex(add), argHex(dbl), argHex(expr))
}

// cliSafeExpr: targets for the real search stay small (the ensemble is expensive):
// at most ~130 bits.
func cliSafeExpr(s string) bool {
	if !safeExpr(s) || len(s) > 40 {
		return false
	}
	v, err := verifhookCalc(s)
	return err != nil || v.BitLen() <= 130
}

// quickTokens: SmallTokens without the keyword spellings of the operators and the blank (the
// sequences are also joined with blanks): the alphabet of the stream one token longer than the
// exhaustive one (length 4 in the quick tier, 5 in the thorough tier).
var quickTokens = []string{"1", "[1]", "x", "return", "+", "<<", "2*", "(", ")", "=", "3", "\n"}

func gen(tier string, r *lib.Rand, emitNow func(string)) {
	thorough := tier == "thorough"
	// cases are collected in batches, run on all cores, and emitted afterwards in order
	var pending []string
	flush := func() {
		prefetch(pending, 64)
		for _, c := range pending {
			emitNow(c)
		}
		pending = pending[:0]
	}
	emit := func(c string) {
		pending = append(pending, c)
		if len(pending) >= 25000 {
			flush()
		}
	}
	toklen, smalllen, nrandtok, nscripts, nmut, nbytes, nexpr := 3, 4, 4000, 1500, 4000, 4000, 6000
	ncliScripts, ncliSearch := 420, 260
	if thorough {
		toklen, smalllen, nrandtok, nscripts, nmut, nbytes, nexpr = 4, 5, 50000, 20000, 50000, 50000, 200000
		ncliScripts, ncliSearch = 5000, 2500
	}

	// ---------------- the real binary: cases collected first, run concurrently, emitted at the end
	var cli []string
	addCli := func(c string) {
		// an argument with a NUL byte cannot be passed to a process
		f := strings.Split(c, " ")
		if f[1] == "search" || f[1] == "gen" {
			for _, a := range f[2 : len(f)-1] {
				if a != "!" && a != "stdin" && a != "file" && a != "nofile" && len(a) > 1 && strings.Contains(string(lib.ParseBytes(a)), "\x00") {
					return
				}
			}
			if f[1] == "search" && f[len(f)-1] != "!" && strings.Contains(string(lib.ParseBytes(f[len(f)-1])), "\x00") {
				return
			}
		}
		cli = append(cli, c)
	}
	scriptCli := func(src, mode string) {
		h := hex(src)
		addCli("cli eval " + mode + " " + h)
		addCli("cli fmt " + mode + " " + h)
		addCli("cli fmtb " + mode + " " + h)
		addCli("cli gen ! " + mode + " " + h)
	}

	// sources shared by the library and the binary streams
	var srcs []string
	for i := 0; i < nscripts; i++ {
		t := GenScript(r, ScriptOpts{Faults: i%3 == 0, MaxShift: 1 + r.Intn(12), ZeroShift: i%5 == 0})
		srcs = append(srcs, RenderScript(r, t, false), RenderScript(r, t, true))
	}
	degenerate := []string{"return 1", "return 1\n", "x = 1\nreturn x", "x = 1\ny = x\nreturn y", "return [0]", "return 1 << 0", "return (1)",
		"x = 1\nreturn x << 0", "return 1 + 1", "return 2*1", "return 1 << 1", "return 1 << 512", "return 1 << 513",
		"return 1 << 9223372036854775807", "return 1 << 18446744073709551615", "x = 1 << 18446744073709551615\nreturn x << 1",
		"a = 1\nb = 1\nreturn a + b", "a = 1\nb = [0]\nreturn a + b", "x = [1] + 1\nreturn x", "a = 1 + 1\nb = [1]\nreturn a + b",
		"a = 1 + 1\nb = [1]\nc = b + a\nreturn c", "a = 1 << 3\nreturn a + [2]", "return [1] << 0", "a = [1] << 0\nreturn a + 1"}

	// ---------------- (1) library entry points
	for _, s := range Rejections {
		emit("lib " + hex(s))
	}
	for _, s := range degenerate {
		emit("lib " + hex(s))
		for _, t := range []string{"listing", "chain", "ops", "script", "nosuch", ""} {
			emit("generate " + hex(t) + " " + hex(s))
		}
	}
	// single entry points on the rejection classes (the line shapes the corpus uses)
	for i, s := range Rejections {
		emit([]string{"parse ", "translate ", "load ", "build ", "print ", "prepare "}[i%6] + hex(s))
	}
	// nesting: compared with the model up to depth 12, implementation alone up to 200 (5000 thorough)
	depths := []int{20, 50, 100, 200}
	if thorough {
		depths = append(depths, 1000, 5000)
	}
	for _, kind := range deepKinds {
		for k := 0; k <= 12; k++ {
			if s, ok := deepSource(k, kind); ok && k <= 9 {
				emit("lib " + hex(s))
			}
			emit(fmt.Sprintf("deep %d %s", k, kind))
		}
		for _, k := range depths {
			emit(fmt.Sprintf("deep %d %s", k, kind))
		}
	}
	for _, s := range longInputs() {
		emit("lib " + hex(s))
	}
	// (a) every token sequence up to toklen; the reduced alphabet one longer
	TokenSequences(toklen, func(src string) { emit("lib " + hex(src)) })
	small := quickTokens
	for n := toklen + 1; n <= smalllen; n++ {
		SequencesOver(small, n, func(src string) { emit("lib " + hex(src)) })
	}
	for i := 0; i < nrandtok; i++ {
		emit("lib " + hex(RandomTokenSequence(r, toklen+1+r.Intn(5))))
	}
	// (b) generated scripts and their mutations
	for i, s := range srcs {
		emit("lib " + hex(s))
		if i%7 == 0 {
			emit("generate " + hex([]string{"chain", "ops", "script", "listing"}[(i/7)%4]) + " " + hex(s))
		}
	}
	var muts []string
	for i := 0; i < nmut; i++ {
		s := srcs[r.Intn(len(srcs))]
		if r.Chance(1, 6) {
			s = Rejections[r.Intn(len(Rejections))]
		}
		if r.Chance(1, 10) {
			s = degenerate[r.Intn(len(degenerate))]
		}
		s = Mutate(r, s)
		if r.Chance(1, 4) {
			s = Mutate(r, s)
		}
		muts = append(muts, s)
		emit("lib " + hex(s))
	}
	// (c) raw bytes
	var raws []string
	for i := 0; i < nbytes; i++ {
		s := randBytes(r)
		raws = append(raws, s)
		emit("lib " + hex(s))
	}
	// (d) expressions
	for _, e := range exprMenu {
		emit("calc " + hex(e))
	}
	// every byte in operator position, with a zero and a non-zero right operand, with and without
	// blanks, and in operand position: no byte may turn into a crash (a new operator included)
	for b := 0; b < 256; b++ {
		c := string([]byte{byte(b)})
		for _, e := range []string{"7" + c + "0", "7" + c + "3", "7 " + c + " 0", "2^8" + c + "0^1", c + "7", "7" + c, "7" + c + c + "0", "0" + c + "0"} {
			emit("calc " + hex(e))
		}
	}
	for i := 0; i < nexpr; i++ {
		if e := randExpr(r); safeExpr(e) {
			emit("calc " + hex(e))
		}
	}

	// ---------------- (2) the executor below the command line
	all := 5
	for _, k := range []int{0, 1, 3, all} {
		for _, l := range []int{1, k - 1, k, k + 1, 2 * k, 7, 1000, 100000} {
			if l >= 1 {
				emit(fmt.Sprintf("parallel %d %d", l, k))
			}
		}
	}
	emit("parallel 0 0")
	emit("parallel 0 2")
	emit("parallel -1 2")
	emit("parallel 250 201")

	// ---------------- (3) the real binary
	for _, s := range degenerate {
		scriptCli(s, "stdin")
	}
	for _, m := range []string{"eval", "fmt", "fmtb"} {
		addCli("cli " + m + " nofile -")
	}
	addCli("cli gen ! nofile -")
	addCli("cli gen " + hex("chain") + " nofile -")
	for i, s := range Rejections {
		scriptCli(s, []string{"stdin", "file"}[i%2])
	}
	for _, t := range typeTokens {
		for _, s := range []string{"x = 1 + 1\nreturn x << 3", "return 1", "return", "a = 1 << 3\nreturn a + [2]"} {
			addCli("cli gen " + argHex(t) + " stdin " + hex(s))
		}
	}
	cliDepths := []int{0, 1, 5, 12, 13, 30, 200}
	if thorough {
		cliDepths = append(cliDepths, 1000, 5000)
	}
	for _, kind := range deepKinds {
		for _, k := range cliDepths {
			for _, sub := range []string{"eval", "fmt", "fmtb", "gen"} {
				addCli(fmt.Sprintf("cli deep %s %d %s", sub, k, kind))
			}
		}
	}
	for i, s := range longInputs() {
		scriptCli(s, []string{"file", "stdin"}[i%2])
	}
	for i := 0; i < ncliScripts; i++ {
		var s string
		switch i % 4 {
		case 0:
			s = srcs[r.Intn(len(srcs))]
		case 1:
			s = muts[r.Intn(len(muts))]
		case 2:
			s = raws[r.Intn(len(raws))]
		default:
			s = RandomTokenSequence(r, 1+r.Intn(6))
		}
		scriptCli(s, []string{"stdin", "stdin", "file"}[r.Intn(3)])
	}
	// search: every degenerate expression with default settings, with and without `--`
	for _, e := range exprMenu {
		if cliSafeExpr(e) {
			addCli(searchCase(false, true, "!", "!", "!", e))
			if strings.HasPrefix(e, "-") || strings.HasPrefix(e, "+") || e == "" {
				addCli(searchCase(false, false, "!", "!", "!", e))
			}
		}
	}
	addCli(searchCase(false, true, "!", "!", "!", "2^255-19"))
	addCli(searchCase(false, false, "!", "!", "!", "!"))
	addCli(searchCase(true, false, "!", "!", "!", "!"))
	addCli(searchCase(false, true, "!", "!", "!", "!"))
	// every -p value, every cost value
	for _, p := range pTokens {
		for _, e := range []string{"5", "1", "0", "2^64-1"} {
			addCli(searchCase(false, true, p, "!", "!", e))
		}
	}
	for _, c := range costTokens {
		for _, e := range []string{"47", "1"} {
			addCli(searchCase(false, true, "!", c, "!", e))
			addCli(searchCase(e == "1", true, "2", "!", c, e))
		}
		addCli(searchCase(false, true, "!", c, c, "2^16+1"))
	}
	for i := 0; i < ncliSearch; i++ {
		e := exprMenu[r.Intn(len(exprMenu))]
		if r.Chance(1, 2) {
			e = randExpr(r)
		}
		if !cliSafeExpr(e) {
			continue
		}
		p, a, d := "!", "!", "!"
		if r.Chance(1, 2) {
			p = pTokens[r.Intn(len(pTokens))]
		}
		if r.Chance(1, 2) {
			a = costTokens[r.Intn(len(costTokens))]
		}
		if r.Chance(1, 2) {
			d = costTokens[r.Intn(len(costTokens))]
		}
		addCli(searchCase(r.Chance(1, 4), !r.Chance(1, 5), p, a, d, e))
	}
	flush()
	prefetch(cli, 12)
	for _, c := range cli {
		emitNow(c)
	}
}

// neighbours: perturbed case lines near c, for the hunt after a broken correspondence.
func neighbours(c string, r *lib.Rand, emit func(string)) {
	f := strings.Split(c, " ")
	mutSrc := func(h string) string {
		s := Mutate(r, string(lib.ParseBytes(h)))
		if r.Chance(1, 3) {
			s = Mutate(r, s)
		}
		return s
	}
	switch {
	case len(f) == 2 && f[0] == "calc":
		for i := 0; i < 24; i++ {
			if e := mutateExpr(r, string(lib.ParseBytes(f[1]))); safeExpr(e) {
				emit("calc " + hex(e))
				if cliSafeExpr(e) && !strings.Contains(e, "\x00") {
					emit(searchCase(false, true, "!", "!", "!", e))
				}
			}
		}
	case len(f) == 2:
		for i := 0; i < 24; i++ {
			emit("lib " + hex(mutSrc(f[1])))
		}
	case len(f) == 3 && f[0] == "generate":
		for i := 0; i < 12; i++ {
			s := mutSrc(f[2])
			emit("generate " + f[1] + " " + hex(s))
			emit("lib " + hex(s))
		}
	case len(f) == 3 && f[0] == "parallel":
		l, k := lib.Atoi(f[1]), lib.Atoi(f[2])
		for _, d := range [][2]int{{l + 1, k}, {l - 1, k}, {l, k + 1}, {l, k - 1}, {2 * l, k}, {k, k}, {k + 1, k}, {l + 7, k + 2}} {
			if d[0] >= 1 && d[1] >= 0 && d[0] <= 100000 && d[1] <= 50 {
				emit(fmt.Sprintf("parallel %d %d", d[0], d[1]))
			}
		}
	case f[0] == "cli" && len(f) == 4 && (f[1] == "eval" || f[1] == "fmt" || f[1] == "fmtb") && f[2] != "nofile":
		for i := 0; i < 8; i++ {
			s := mutSrc(f[3])
			emit("cli " + f[1] + " stdin " + hex(s))
			emit("lib " + hex(s))
		}
	case f[0] == "cli" && len(f) == 5 && f[1] == "gen" && f[3] != "nofile":
		for i := 0; i < 8; i++ {
			s := mutSrc(f[4])
			emit("cli gen " + f[2] + " stdin " + hex(s))
			emit("lib " + hex(s))
		}
	case f[0] == "cli" && len(f) == 8 && f[1] == "search":
		e, ok := optArg(f[7])
		for i := 0; i < 8; i++ {
			ne := e
			if ok && r.Chance(1, 2) {
				ne = mutateExpr(r, e)
			}
			if !ok || !cliSafeExpr(ne) || strings.Contains(ne, "\x00") {
				continue
			}
			p, a, d := pTokens[r.Intn(len(pTokens))], costTokens[r.Intn(len(costTokens))], costTokens[r.Intn(len(costTokens))]
			if strings.Contains(p+a+d, "\x00") {
				continue
			}
			emit(searchCase(f[2] == "1", true, p, "!", "!", ne))
			emit(searchCase(false, true, "!", a, d, ne))
		}
	}
}
