// Harness for C15: every input ends in a result or a diagnostic, never a crash
// or a hang.
//
// Library entry points (source / expression text, under recover and a clock):
//
//	parse|translate|load|build|print|prepare <src>   generate <type> <src>   calc <expr>
//	lib <src>       all script entry points on one source, one field per entry point
//	deep <n> <kind> script nested n deep, every entry point, implementation only above 12
//	parallel <limit> <k>  exec.Parallel with the given limit on k cheap algorithms
//
// The real binary ($ADDCHAIN_BIN) with a time-out per invocation:
//
//	cli search <v> <dd> <p> <add> <double> <expr>
//	cli <eval|fmt|fmtb> <stdin|file|nofile> <src>
//	cli gen <type or !> <stdin|file|nofile> <src>
//	cli deep <eval|fmt|fmtb|gen> <n> <kind>
//
// Result lines: see coq/dispatch/C15.v.  Anything that is not a result or a
// diagnostic is printed as `panic <marker|hang|silent|exitN|slow|...>`.
package main

import (
	"bytes"
	"context"
	"fmt"
	"math/big"
	"os"
	"os/exec"
	"path/filepath"
	"runtime"
	"strconv"
	"strings"
	"sync"
	"sync/atomic"
	"time"

	"github.com/mmcloughlin/addchain/acc"
	"github.com/mmcloughlin/addchain/acc/ast"
	"github.com/mmcloughlin/addchain/acc/ir"
	"github.com/mmcloughlin/addchain/acc/parse"
	"github.com/mmcloughlin/addchain/acc/pass"
	"github.com/mmcloughlin/addchain/acc/printer"
	"github.com/mmcloughlin/addchain/alg"
	"github.com/mmcloughlin/addchain/alg/ensemble"
	algexec "github.com/mmcloughlin/addchain/alg/exec"
	"github.com/mmcloughlin/addchain/verifhook"

	"verif/harness/lib"
)

const (
	cliTimeout = 20 * time.Second
	libSlow    = 10 * time.Second
)

func hex(s string) string { return lib.Bytes([]byte(s)) }

func config() verifhook.GenConfig {
	return verifhook.GenConfig{Allocator: pass.Allocator{Input: "x", Output: "z", Format: "t%d"}}
}

// errClass maps the repository's error messages to the model's classes.
func errClass(err error, build bool) string {
	m := err.Error()
	switch {
	case strings.Contains(m, "undefined"):
		return "undefined"
	case strings.Contains(m, "cannot redefine"):
		return "redefine"
	case strings.Contains(m, "no output instruction for input index"):
		return "dangling"
	case strings.Contains(m, "program without instructions"):
		return "empty"
	case strings.Contains(m, "identifier conflict"):
		return "conflict"
	case strings.Contains(m, "negative index"), strings.Contains(m, "out of bounds"):
		return "bounds"
	case strings.Contains(m, "incorrect output index"):
		if build {
			return "outidx"
		}
		return "outindex"
	case strings.Contains(m, "assertion failure"):
		return "assert"
	}
	return "other"
}

func calcClass(err error) string {
	switch err.Error() {
	case "too few operands":
		return "toofew"
	case "division by zero":
		return "divzero"
	case "wrong operand count":
		return "count"
	case "expected operator":
		return "operator"
	case "expected number":
		return "number"
	}
	return "other"
}

func panicClass(v interface{}) string {
	s := fmt.Sprint(v)
	switch {
	case strings.Contains(s, "index out of range"), strings.Contains(s, "slice bounds"):
		return "index"
	case strings.Contains(s, "division by zero"):
		return "divzero"
	case strings.Contains(s, "makechan"):
		return "makechan"
	case strings.Contains(s, "interface conversion"):
		return "assertion"
	}
	return "other"
}

// guarded runs f under recover and a clock; the result line of an entry point.
func guarded(f func() string) (res string) {
	t0 := time.Now()
	defer func() {
		if v := recover(); v != nil {
			res = "panic " + panicClass(v)
		} else if time.Since(t0) > libSlow {
			res = "panic slow"
		}
	}()
	return f()
}

func opsString(p *ir.Program) string {
	if len(p.Program) == 0 {
		return "-"
	}
	ops := make([]string, len(p.Program))
	for i, o := range p.Program {
		ops[i] = fmt.Sprintf("%d+%d", o.I, o.J)
	}
	return strings.Join(ops, ",")
}

func tempsString(ts []string) string {
	if len(ts) == 0 {
		return "-"
	}
	ss := make([]string, len(ts))
	for i, t := range ts {
		ss[i] = hex(t)
	}
	return strings.Join(ss, ",")
}

// ---- the library entry points, each from the text ----

func doParse(src string) string {
	t, err := parse.String(src)
	if err != nil {
		return "err parse"
	}
	return "ok " + EncScript(t)
}

func doTranslate(src string) string {
	t, err := parse.String(src)
	if err != nil {
		return "err parse"
	}
	p, err := acc.Translate(t)
	if err != nil {
		return "err " + errClass(err, false)
	}
	return "ok " + EncIR(p)
}

// huge reports a script that parses and has a shift above 512.
func huge(src string) bool {
	t, err := parse.String(src)
	return err == nil && hugeShift(t)
}

func doLoad(src string) string {
	_, perr := parse.String(src)
	return doLoadWith(src, huge(src), perr != nil)
}

// doLoadWith: acc.LoadString, given what parsing the text alone says.
func doLoadWith(src string, isHuge, parseFails bool) string {
	if isHuge {
		return "ok toolarge"
	}
	p, err := acc.LoadString(src)
	if err != nil {
		if parseFails {
			return "err parse"
		}
		return "err " + errClass(err, false)
	}
	if parseFails {
		return "ok LOADED-THOUGH-PARSE-FAILED"
	}
	return "ok " + lib.HexList(p.Chain) + " " + opsString(p)
}

func doBuild(src string) string { return doBuildWith(src, huge(src)) }

func doBuildWith(src string, isHuge bool) string {
	if isHuge {
		return "ok toolarge"
	}
	t, err := parse.String(src)
	if err != nil {
		return "err parse"
	}
	p, err := acc.Translate(t)
	if err != nil {
		return "err " + errClass(err, true)
	}
	s, err := acc.Build(p)
	if err != nil {
		return "err " + errClass(err, true)
	}
	b, err := printer.Bytes(s)
	if err != nil {
		return "err other"
	}
	return "ok " + EncScript(s) + " " + lib.Bytes(b)
}

func doPrint(src string) string {
	t, err := parse.String(src)
	if err != nil {
		return "err parse"
	}
	b, err := printer.Bytes(t)
	if err != nil {
		return "err other"
	}
	return "ok " + lib.Bytes(b)
}

func doPrepare(src string) string { return doPrepareWith(src, huge(src)) }

func doPrepareWith(src string, isHuge bool) string {
	if isHuge {
		return "ok toolarge"
	}
	t, err := parse.String(src)
	if err != nil {
		return "err parse"
	}
	d, err := verifhook.GenPrepareData(config(), t)
	if err != nil {
		return "err " + errClass(err, false)
	}
	return "ok " + lib.HexList(d.Chain) + " " + opsString(d.Program) + " " + EncIR(d.Program) + " " + tempsString(d.Program.Temporaries)
}

func doGenerate(typ, src string) string { return doGenerateWith(typ, src, huge(src)) }

func doGenerateWith(typ, src string, isHuge bool) string {
	if isHuge {
		return "ok toolarge"
	}
	t, err := parse.String(src)
	if err != nil {
		return "err parse"
	}
	d, err := verifhook.GenPrepareData(config(), t)
	if err != nil {
		return "err " + errClass(err, false)
	}
	tmpl, err := verifhook.GenBuiltinTemplate(typ)
	if err != nil {
		return "err template"
	}
	var buf bytes.Buffer
	if err := verifhook.GenGenerate(&buf, tmpl, d); err != nil {
		return "err template"
	}
	return "ok " + lib.Bytes(buf.Bytes())
}

func doCalc(expr string) string {
	v, err := verifhook.CalcEval(expr)
	if err != nil {
		return "err " + calcClass(err)
	}
	return "ok " + lib.Hex(v)
}

// libTags are the script entry points of a `lib` line, in order: parse, translate,
// load, build, print, prepare, generate (listing).
var libTags = []string{"P", "T", "L", "B", "R", "D", "G"}

// doLib: every entry point on the text, each under its own recover; fields joined
// by '|', spaces inside a field written as '/'.  The text is parsed once more up
// front, only to know whether it is a script with a shift above 512.
func doLib(src string) string {
	isHuge, parseFails := false, true
	func() {
		defer func() { _ = recover() }()
		t, err := parse.String(src)
		parseFails = err != nil
		isHuge = err == nil && hugeShift(t)
	}()
	fs := []func() string{
		func() string { return doParse(src) },
		func() string { return doTranslate(src) },
		func() string { return doLoadWith(src, isHuge, parseFails) },
		func() string { return doBuildWith(src, isHuge) },
		func() string { return doPrint(src) },
		func() string { return doPrepareWith(src, isHuge) },
		func() string { return doGenerateWith("listing", src, isHuge) },
	}
	parts := make([]string, len(fs))
	for i, f := range fs {
		parts[i] = libTags[i] + ":" + strings.ReplaceAll(guarded(f), " ", "/")
	}
	return "ok " + strings.Join(parts, "|")
}

// deepSource nests an expression n deep.
func deepSource(n int, kind string) (string, bool) {
	switch kind {
	case "paren":
		return "return " + strings.Repeat("(", n) + "1 + 1" + strings.Repeat(")", n), true
	case "radd":
		return "return " + strings.Repeat("1 + (", n) + "1 + 1" + strings.Repeat(")", n), true
	case "dbl":
		return "return " + strings.Repeat("2*(", n) + "1" + strings.Repeat(")", n), true
	case "shl":
		return "return " + strings.Repeat("(", n) + "1" + strings.Repeat(" << 1)", n), true
	case "open":
		return "return " + strings.Repeat("(", n) + "1", true
	case "brack":
		return "return " + strings.Repeat("[", n) + "1" + strings.Repeat("]", n), true
	}
	return "", false
}

var deepKinds = []string{"paren", "radd", "dbl", "shl", "open", "brack"}

func doDeep(n int, kind string) string {
	src, ok := deepSource(n, kind)
	if !ok || n > 5000 {
		return "badcase"
	}
	done := make(chan string, 1)
	go func() { done <- doLib(src) }()
	select {
	case r := <-done:
		if strings.Contains(r, "panic") {
			return "panic " + strings.ReplaceAll(r, " ", "/")
		}
		return "ok"
	case <-time.After(deepDeadline(n)):
		return "panic slow"
	}
}

// deepDeadline bounds all seven entry points together on a script nested n deep. The bound is there to expose
// super-linear blow-ups (without memoisation 30 levels take years), not to time the code: the deepest
// thorough-tier case (5000 levels, 5 s on an idle machine) must not become an alarm on a busy one. Each
// entry point is additionally judged against libSlow by guarded.
func deepDeadline(n int) time.Duration {
	return 3*libSlow + time.Duration(n/25)*time.Second
}

// doParallel: exec.Parallel on k cheap algorithms and the target 5.
func doParallel(limit, k int) string {
	all := ensemble.Ensemble()
	if k < 0 {
		return "badcase"
	}
	as := []alg.ChainAlgorithm{}
	for i := 0; i < k; i++ {
		as = append(as, all[i%len(all)])
	}
	n := big.NewInt(5)
	type out struct {
		rs  []algexec.Result
		pan interface{}
	}
	done := make(chan out, 1)
	go func() {
		defer func() {
			if v := recover(); v != nil {
				done <- out{pan: v}
			}
		}()
		ex := algexec.NewParallel()
		ex.SetConcurrency(limit)
		done <- out{rs: ex.Execute(n, as)}
	}()
	wait := 5 * time.Second
	if limit == 0 {
		wait = time.Second
	}
	select {
	case o := <-done:
		if o.pan != nil {
			return "panic " + panicClass(o.pan)
		}
		if n.Cmp(big.NewInt(5)) != 0 {
			return "panic target-modified"
		}
		if len(o.rs) != k {
			return fmt.Sprintf("panic results-%d", len(o.rs))
		}
		for i, r := range o.rs {
			if r.Err != nil {
				return fmt.Sprintf("panic result-%d-error", i)
			}
			if len(r.Chain) == 0 || r.Chain[len(r.Chain)-1].Cmp(n) != 0 || len(r.Program) != len(r.Chain)-1 {
				return fmt.Sprintf("panic result-%d-wrong", i)
			}
		}
		return "ok " + strconv.Itoa(k)
	case <-time.After(wait):
		if limit == 0 {
			return "panic deadlock"
		}
		return "panic hang"
	}
}

// verifhookCalc is calc.Eval for the generator's size filter (a panic counts as "no value").
func verifhookCalc(s string) (v *big.Int, err error) {
	defer func() {
		if recover() != nil {
			v, err = nil, fmt.Errorf("panic")
		}
	}()
	return verifhook.CalcEval(s)
}

// ---- the real binary ----

var tmpSeq int64

func scratch() string {
	d := os.Getenv("VERIF_BUILD")
	if d == "" {
		d = os.TempDir()
	}
	return d
}

type cliResult struct {
	exit   int
	stdout []byte
	stderr []byte
	hang   bool
	fail   string
}

func invoke(args []string, stdin []byte) cliResult {
	bin := os.Getenv("ADDCHAIN_BIN")
	if bin == "" {
		return cliResult{fail: "no-binary"}
	}
	ctx, cancel := context.WithTimeout(context.Background(), cliTimeout)
	defer cancel()
	cmd := exec.CommandContext(ctx, bin, args...)
	cmd.Stdin = bytes.NewReader(stdin)
	var so, se bytes.Buffer
	cmd.Stdout = &so
	cmd.Stderr = &se
	cmd.Env = append(os.Environ(), "ADDCHAIN_PROFILE=")
	cmd.WaitDelay = 2 * time.Second
	err := cmd.Run()
	r := cliResult{stdout: so.Bytes(), stderr: se.Bytes()}
	if ctx.Err() != nil {
		r.hang = true
		return r
	}
	if err != nil {
		if ee, ok := err.(*exec.ExitError); ok {
			r.exit = ee.ExitCode()
		} else {
			r.fail = "exec"
		}
	}
	return r
}

// classify turns an invocation into the result line. withOut: print stdout on success.
func classify(r cliResult, withOut bool) string {
	switch {
	case r.fail != "":
		return "panic " + r.fail
	case r.hang:
		return "panic hang"
	}
	se := string(r.stderr)
	if strings.Contains(se, "panic:") || strings.Contains(se, "fatal error:") || strings.Contains(se, "goroutine ") {
		return "panic marker"
	}
	switch r.exit {
	case 0:
		if len(r.stdout) == 0 {
			return "panic silent"
		}
		if withOut {
			return "ok 0 " + lib.Bytes(r.stdout)
		}
		return "ok 0"
	case 1, 2:
		if len(bytes.TrimSpace(r.stderr)) == 0 {
			return "panic silent"
		}
		return "ok " + strconv.Itoa(r.exit)
	}
	return "panic exit" + strconv.Itoa(r.exit)
}

func optArg(s string) (string, bool) {
	if s == "!" {
		return "", false
	}
	return string(lib.ParseBytes(s)), true
}

func runCli(f []string) string {
	switch {
	case f[1] == "search" && len(f) == 8:
		var args []string
		args = append(args, "search")
		if f[2] == "1" {
			args = append(args, "-v")
		}
		if p, ok := optArg(f[4]); ok {
			args = append(args, "-p", p)
		}
		if a, ok := optArg(f[5]); ok {
			args = append(args, "-add", a)
		}
		if d, ok := optArg(f[6]); ok {
			args = append(args, "-double", d)
		}
		if e, ok := optArg(f[7]); ok {
			if f[3] == "1" {
				args = append(args, "--")
			}
			args = append(args, e)
		}
		return classify(invoke(args, nil), false)
	case f[1] == "deep" && len(f) == 5:
		src, ok := deepSource(lib.Atoi(f[3]), f[4])
		args, known := map[string][]string{"eval": {"eval"}, "fmt": {"fmt"}, "fmtb": {"fmt", "-b"}, "gen": {"gen"}}[f[2]]
		if !ok || !known || lib.Atoi(f[3]) > 5000 {
			return "badcase"
		}
		return classify(invoke(args, []byte(src)), false)
	case (f[1] == "eval" || f[1] == "fmt" || f[1] == "fmtb") && len(f) == 4, f[1] == "gen" && len(f) == 5:
		var args []string
		mode, srcHex := f[2], f[3]
		switch f[1] {
		case "eval":
			args = []string{"eval"}
		case "fmt":
			args = []string{"fmt"}
		case "fmtb":
			args = []string{"fmt", "-b"}
		case "gen":
			args = []string{"gen"}
			if t, ok := optArg(f[2]); ok {
				args = append(args, "-type", t)
			}
			mode, srcHex = f[3], f[4]
		}
		src := lib.ParseBytes(srcHex)
		if mode != "nofile" && huge(string(src)) && f[1] != "fmt" {
			return "ok toolarge"
		}
		switch mode {
		case "stdin":
			return classify(invoke(args, src), true)
		case "file":
			name := filepath.Join(scratch(), fmt.Sprintf("c15-%d-%d.acc", os.Getpid(), atomic.AddInt64(&tmpSeq, 1)))
			if err := os.WriteFile(name, src, 0o600); err != nil {
				return "panic tmpfile"
			}
			defer os.Remove(name)
			return classify(invoke(append(args, name), nil), true)
		case "nofile":
			return classify(invoke(append(args, filepath.Join(scratch(), "c15-no-such-file.acc")), nil), true)
		}
	}
	return "badcase"
}

// results of the binary invocations made ahead of time (concurrently) by gen
var (
	cliMu    sync.Mutex
	cliCache = map[string]string{}
)

func run(c string) string {
	f := strings.Split(c, " ")
	switch {
	case len(f) == 2 && f[0] == "lib":
		return doLib(string(lib.ParseBytes(f[1])))
	case len(f) == 2 && f[0] == "calc":
		return guarded(func() string { return doCalc(string(lib.ParseBytes(f[1]))) })
	case len(f) == 2:
		src := string(lib.ParseBytes(f[1]))
		for _, e := range []struct {
			name string
			f    func(string) string
		}{{"parse", doParse}, {"translate", doTranslate}, {"load", doLoad}, {"build", doBuild}, {"print", doPrint}, {"prepare", doPrepare}} {
			if e.name == f[0] {
				g := e.f
				return guarded(func() string { return g(src) })
			}
		}
	case len(f) == 3 && f[0] == "generate":
		return guarded(func() string { return doGenerate(string(lib.ParseBytes(f[1])), string(lib.ParseBytes(f[2]))) })
	case len(f) == 3 && f[0] == "deep":
		return doDeep(lib.Atoi(f[1]), f[2])
	case len(f) == 3 && f[0] == "parallel":
		return doParallel(lib.Atoi(f[1]), lib.Atoi(f[2]))
	case f[0] == "cli" && len(f) >= 4:
		return runCli(f)
	}
	return "badcase"
}

// cached: the results computed ahead of time (concurrently) by gen.
func cached(c string) string {
	cliMu.Lock()
	r, ok := cliCache[c]
	cliMu.Unlock()
	if ok {
		return r
	}
	return run(c)
}

// safeRun is lib.Prop.safeRun for the prefetching workers.
func safeRun(c string) (res string) {
	defer func() {
		if v := recover(); v != nil {
			res = "panic " + panicClass(v)
		}
	}()
	return run(c)
}

// prefetch runs the given case lines concurrently and keeps the result lines.
func prefetch(cases []string, workers int) {
	if workers > runtime.NumCPU() {
		workers = runtime.NumCPU()
	}
	ch := make(chan string)
	var wg sync.WaitGroup
	for w := 0; w < workers; w++ {
		wg.Add(1)
		go func() {
			defer wg.Done()
			for c := range ch {
				r := safeRun(c)
				cliMu.Lock()
				cliCache[c] = r
				cliMu.Unlock()
			}
		}()
	}
	for _, c := range cases {
		ch <- c
	}
	close(ch)
	wg.Wait()
}

// ---- oracle: the property, stated directly ----

func fieldsOf(res string) map[string]string {
	m := map[string]string{}
	if !strings.HasPrefix(res, "ok ") {
		return m
	}
	for _, p := range strings.Split(res[3:], "|") {
		if i := strings.IndexByte(p, ':'); i > 0 {
			m[p[:i]] = p[i+1:]
		}
	}
	return m
}

func oracle(c, res string) string {
	f := strings.Split(c, " ")
	switch f[0] {
	case "lib":
		if !strings.HasPrefix(res, "ok ") {
			return "entry points did not all return: " + res
		}
		m := fieldsOf(res)
		for _, tag := range libTags {
			v, ok := m[tag]
			if !ok {
				return "no answer from entry point " + tag
			}
			if !strings.HasPrefix(v, "ok/") && !strings.HasPrefix(v, "err/") {
				return "entry point " + tag + " neither returned a value nor an error: " + v
			}
		}
		// a text the parser rejects is rejected by everything; printing needs nothing but the parse
		if strings.HasPrefix(m["P"], "err/") {
			for _, tag := range libTags {
				if m[tag] != "err/parse" {
					return "parse failed but " + tag + " answered " + m[tag]
				}
			}
		} else if !strings.HasPrefix(m["R"], "ok/") {
			return "parsed but not printed: " + m["R"]
		}
		// a script that does not translate does not load, build or generate
		if strings.HasPrefix(m["T"], "err/") {
			for _, t := range []string{"L", "B", "D", "G"} {
				if strings.HasPrefix(m[t], "ok/") && m[t] != "ok/toolarge" {
					return "translation failed but " + t + " succeeded"
				}
			}
		}
		return ""
	case "parse", "translate", "load", "build", "print", "prepare", "generate", "calc":
		if strings.HasPrefix(res, "ok ") || strings.HasPrefix(res, "err ") {
			return ""
		}
		return "neither a value nor an error: " + res
	case "deep":
		if res != "ok" {
			return "nested input: " + res
		}
		return ""
	case "parallel":
		limit := lib.Atoi(f[1])
		if limit >= 1 && !strings.HasPrefix(res, "ok ") {
			return "Parallel.Execute with limit >= 1: " + res
		}
		return ""
	case "cli":
		if !strings.HasPrefix(res, "ok ") {
			return "the tool did not end in a result or a diagnostic with exit status 0, 1 or 2: " + res
		}
		if f[1] == "search" && len(f) == 8 {
			return searchExpectation(f, res)
		}
		return ""
	}
	return ""
}

// searchExpectation: what the property text says about targets and settings,
// checked where it can be decided without the model: a plain positive decimal
// target with default settings succeeds and prints a script; a non-positive
// plain decimal target and a concurrency below 1 end in a diagnostic.
func searchExpectation(f []string, res string) string {
	e, ok := optArg(f[7])
	if !ok {
		if res != "ok 2" {
			return "missing expression must be a usage error: " + res
		}
		return ""
	}
	n, isInt := new(big.Int).SetString(e, 10)
	if !isInt || strings.HasPrefix(e, "+") || (len(e) > 1 && e[0] == '0') || (strings.HasPrefix(e, "-") && f[3] != "1") {
		return ""
	}
	pOK := f[4] == "!"
	if p, ok := optArg(f[4]); ok {
		if v, err := strconv.ParseInt(p, 10, 64); err == nil {
			if v < 1 && res != "ok 2" {
				return "concurrency below 1 must be a usage error: " + res
			}
			pOK = v >= 1
		}
	}
	if pOK && f[5] == "!" && f[6] == "!" {
		if n.Sign() >= 1 && res != "ok 0" {
			return "positive target with valid settings must produce a chain: " + res
		}
		if n.Sign() < 1 && res != "ok 1" {
			return "non-positive target must end in a diagnostic: " + res
		}
	}
	return ""
}

func nontrivial(c, res string) bool {
	f := strings.Split(c, " ")
	switch f[0] {
	case "lib":
		return strings.HasPrefix(fieldsOf(res)["P"], "ok/") || len(f[1]) >= 12
	case "calc":
		return len(f[1]) >= 6
	case "cli", "parallel", "deep":
		return true
	}
	return strings.HasPrefix(res, "ok ")
}

func main() {
	lib.Main(lib.Prop{ID: "C15", Gen: gen, Run: cached, Oracle: oracle, Nontrivial: nontrivial, PanicClass: panicClass, Neighbours: neighbours})
}

var _ = ast.Operand(0)
