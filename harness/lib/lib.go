// Package lib is the shared part of the verification harness: PRNG, line
// protocol encodings and the per-property main loop.
package lib

import (
	"bufio"
	"fmt"
	"math/big"
	"os"
	"strconv"
	"strings"
	"time"
)

// Rand is splitmix64; every random choice of a run derives from one seed.
type Rand struct{ s uint64 }

func NewRand(seed uint64) *Rand { return &Rand{s: seed} }

func (r *Rand) Uint64() uint64 {
	r.s += 0x9e3779b97f4a7c15
	z := r.s
	z = (z ^ (z >> 30)) * 0xbf58476d1ce4e5b9
	z = (z ^ (z >> 27)) * 0x94d049bb133111eb
	return z ^ (z >> 31)
}

// Intn returns a value in [0,n).
func (r *Rand) Intn(n int) int {
	if n <= 0 {
		return 0
	}
	return int(r.Uint64() % uint64(n))
}

// Range returns a value in [lo,hi].
func (r *Rand) Range(lo, hi int) int { return lo + r.Intn(hi-lo+1) }

func (r *Rand) Bool() bool { return r.Uint64()&1 == 1 }

// Chance is true with probability num/den.
func (r *Rand) Chance(num, den int) bool { return r.Intn(den) < num }

// Bits returns a uniformly random integer below 2^n.
func (r *Rand) Bits(n int) *big.Int {
	x := new(big.Int)
	for i := 0; i < n; i += 64 {
		x.Lsh(x, 64)
		x.Or(x, new(big.Int).SetUint64(r.Uint64()))
	}
	return x.Rsh(x, uint((64-n%64)%64))
}

// BitsExact returns a random integer with exactly n bits (top bit set), n >= 1.
func (r *Rand) BitsExact(n int) *big.Int {
	x := r.Bits(n - 1)
	return x.SetBit(x, n-1, 1)
}

// Hex encodes an integer as lower-case hex with optional leading '-'.
func Hex(x *big.Int) string { return x.Text(16) }

// ParseHex decodes Hex.
func ParseHex(s string) *big.Int {
	x, ok := new(big.Int).SetString(s, 16)
	if !ok {
		panic("harness: bad hex integer " + strconv.Quote(s))
	}
	return x
}

// HexList encodes a list of integers; "-" is the empty list.
func HexList(xs []*big.Int) string {
	if len(xs) == 0 {
		return "-"
	}
	ss := make([]string, len(xs))
	for i, x := range xs {
		ss[i] = Hex(x)
	}
	return strings.Join(ss, ",")
}

func ParseHexList(s string) []*big.Int {
	if s == "-" {
		return []*big.Int{}
	}
	fs := strings.Split(s, ",")
	xs := make([]*big.Int, len(fs))
	for i, f := range fs {
		xs[i] = ParseHex(f)
	}
	return xs
}

// IntList encodes decimal ints.
func IntList(xs []int) string {
	if len(xs) == 0 {
		return "-"
	}
	ss := make([]string, len(xs))
	for i, x := range xs {
		ss[i] = strconv.Itoa(x)
	}
	return strings.Join(ss, ",")
}

func ParseIntList(s string) []int {
	if s == "-" {
		return []int{}
	}
	fs := strings.Split(s, ",")
	xs := make([]int, len(fs))
	for i, f := range fs {
		xs[i] = Atoi(f)
	}
	return xs
}

func Atoi(s string) int {
	v, err := strconv.Atoi(s)
	if err != nil {
		panic("harness: bad int " + strconv.Quote(s))
	}
	return v
}

// Bytes encodes a byte string as hex pairs; "-" is empty.
func Bytes(b []byte) string {
	if len(b) == 0 {
		return "-"
	}
	return fmt.Sprintf("%x", b)
}

func ParseBytes(s string) []byte {
	if s == "-" {
		return []byte{}
	}
	b := make([]byte, len(s)/2)
	for i := range b {
		v, err := strconv.ParseUint(s[2*i:2*i+2], 16, 8)
		if err != nil {
			panic("harness: bad bytes " + strconv.Quote(s))
		}
		b[i] = byte(v)
	}
	return b
}

func Bool(b bool) string {
	if b {
		return "1"
	}
	return "0"
}

// CloneInts deep-copies a list (for argument-immutability checks).
func CloneInts(xs []*big.Int) []*big.Int {
	ys := make([]*big.Int, len(xs))
	for i, x := range xs {
		ys[i] = new(big.Int).Set(x)
	}
	return ys
}

func EqualInts(xs, ys []*big.Int) bool {
	if len(xs) != len(ys) {
		return false
	}
	for i := range xs {
		if xs[i].Cmp(ys[i]) != 0 {
			return false
		}
	}
	return true
}

// Prop is one property's harness.
type Prop struct {
	ID string
	// Gen emits case lines for a tier ("quick"/"thorough").
	Gen func(tier string, r *Rand, emit func(string))
	// Run executes the implementation on a case and returns the result line.
	// A panic is recovered by the caller and reported as "panic <class>".
	Run func(c string) string
	// Oracle states the property directly on (case, impl result): "" when it
	// holds or does not apply, otherwise what fails. It may call the
	// implementation again. Independent of the Coq model.
	Oracle func(c, res string) string
	// Nontrivial reports whether the case counts as non-trivial for evidence.
	Nontrivial func(c, res string) bool
	// PanicClass maps a recovered panic value to a class token (optional).
	PanicClass func(v interface{}) string
	// Neighbours emits valid case lines "near" a given case (same function and configuration,
	// perturbed input). Optional. Used by "hunt": when model and implementation disagree on a
	// case but the oracle is silent, the oracle is run on the neighbourhood of the disagreeing
	// cases to find a concrete input on which the property itself fails.
	Neighbours func(c string, r *Rand, emit func(string))
}

func (p Prop) exec(c string, w *bufio.Writer) {
	res := p.safeRun(c)
	verdict := "ok"
	if p.Oracle != nil {
		if msg := p.safeOracle(c, res); msg != "" {
			verdict = "FAIL " + strings.ReplaceAll(strings.ReplaceAll(msg, "\t", " "), "\n", " ")
		}
	}
	nt := "0"
	if p.Nontrivial == nil || p.Nontrivial(c, res) {
		nt = "1"
	}
	fmt.Fprintf(w, "%s\t%s\t%s\t%s\n", c, res, verdict, nt)
}

func (p Prop) safeRun(c string) (res string) {
	defer func() {
		if v := recover(); v != nil {
			cls := "other"
			if p.PanicClass != nil {
				cls = p.PanicClass(v)
			}
			res = "panic " + cls
		}
	}()
	return p.Run(c)
}

func (p Prop) safeOracle(c, res string) (msg string) {
	defer func() {
		if v := recover(); v != nil {
			msg = fmt.Sprintf("oracle panicked: %v", v)
		}
	}()
	return p.Oracle(c, res)
}

// Main is the entry point of each per-property binary:
//
//	all <tier> <seed>   generate cases, run them, print case<TAB>result<TAB>verdict<TAB>nontrivial
//	run                 the same for case lines read from stdin
func Main(p Prop) {
	w := bufio.NewWriterSize(os.Stdout, 1<<20)
	defer w.Flush()
	if len(os.Args) < 2 {
		fmt.Fprintln(os.Stderr, "usage: all <tier> <seed> | run")
		os.Exit(2)
	}
	switch os.Args[1] {
	case "all":
		tier := os.Args[2]
		seed, err := strconv.ParseUint(os.Args[3], 10, 64)
		if err != nil {
			fmt.Fprintln(os.Stderr, "bad seed")
			os.Exit(2)
		}
		seen := map[string]bool{}
		p.Gen(tier, NewRand(seed), func(c string) {
			if strings.ContainsAny(c, "\t\n") {
				panic("harness: case contains tab/newline: " + strconv.Quote(c))
			}
			if seen[c] {
				return
			}
			seen[c] = true
			p.exec(c, w)
		})
	case "run":
		sc := bufio.NewScanner(os.Stdin)
		sc.Buffer(make([]byte, 1<<20), 1<<28)
		for sc.Scan() {
			c := sc.Text()
			if c == "" {
				continue
			}
			p.exec(c, w)
		}
	case "hunt":
		// hunt <seed> <seconds>: case lines on stdin; explore their neighbourhoods round-robin
		if p.Neighbours == nil {
			return
		}
		seed, _ := strconv.ParseUint(os.Args[2], 10, 64)
		secs, _ := strconv.Atoi(os.Args[3])
		deadline := time.Now().Add(time.Duration(secs) * time.Second)
		r := NewRand(seed)
		var cases []string
		sc := bufio.NewScanner(os.Stdin)
		sc.Buffer(make([]byte, 1<<20), 1<<28)
		for sc.Scan() {
			if sc.Text() != "" {
				cases = append(cases, sc.Text())
			}
		}
		seen := map[string]bool{}
		for len(cases) > 0 && time.Now().Before(deadline) {
			for _, c := range cases {
				p.Neighbours(c, r, func(nc string) {
					if seen[nc] || strings.ContainsAny(nc, "\t\n") {
						return
					}
					seen[nc] = true
					p.exec(nc, w)
				})
				w.Flush()
				if !time.Now().Before(deadline) {
					break
				}
			}
		}
	default:
		fmt.Fprintln(os.Stderr, "unknown subcommand")
		os.Exit(2)
	}
}
