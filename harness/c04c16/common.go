// Package c04c16 holds what the C04 and C16 harnesses share: encodings of
// programs, IR and syntax trees, the Run function, the case generators and an
// independent interpreter of built scripts for the oracles.
package c04c16

import (
	"bytes"
	"fmt"
	"math/big"
	"regexp"
	"sort"
	"strconv"
	"strings"
	"sync"
	"time"

	"github.com/mmcloughlin/addchain"
	"github.com/mmcloughlin/addchain/acc"
	"github.com/mmcloughlin/addchain/acc/ast"
	"github.com/mmcloughlin/addchain/acc/ir"
	"github.com/mmcloughlin/addchain/acc/pass"
	"github.com/mmcloughlin/addchain/acc/printer"
	"github.com/mmcloughlin/addchain/alg"
	"github.com/mmcloughlin/addchain/alg/ensemble"
	"verif/harness/lib"
)

// ---- encodings ----

func FormatOps(p addchain.Program) string {
	if len(p) == 0 {
		return "-"
	}
	ss := make([]string, len(p))
	for i, op := range p {
		ss[i] = fmt.Sprintf("%d+%d", op.I, op.J)
	}
	return strings.Join(ss, ",")
}

func ParseOps(s string) addchain.Program {
	p := addchain.Program{}
	if s == "-" {
		return p
	}
	for _, f := range strings.Split(s, ",") {
		ij := strings.Split(f, "+")
		if len(ij) != 2 {
			panic("harness: bad op " + strconv.Quote(f))
		}
		p = append(p, addchain.Op{I: lib.Atoi(ij[0]), J: lib.Atoi(ij[1])})
	}
	return p
}

func EncodeIR(p *ir.Program) string {
	if len(p.Instructions) == 0 {
		return "-"
	}
	ss := make([]string, len(p.Instructions))
	for k, inst := range p.Instructions {
		switch op := inst.Op.(type) {
		case ir.Add:
			ss[k] = fmt.Sprintf("a%d:%d,%d", inst.Output.Index, op.X.Index, op.Y.Index)
		case ir.Double:
			ss[k] = fmt.Sprintf("d%d:%d", inst.Output.Index, op.X.Index)
		case ir.Shift:
			ss[k] = fmt.Sprintf("s%d:%d:%d", inst.Output.Index, op.X.Index, op.S)
		default:
			ss[k] = "?"
		}
	}
	return strings.Join(ss, ";")
}

func EncodeExpr(e ast.Expr) string {
	switch e := e.(type) {
	case ast.Operand:
		return fmt.Sprintf("(op %d)", int(e))
	case ast.Identifier:
		return "(id " + lib.Bytes([]byte(e)) + ")"
	case ast.Add:
		return "(add " + EncodeExpr(e.X) + " " + EncodeExpr(e.Y) + ")"
	case ast.Shift:
		return fmt.Sprintf("(shl %s %d)", EncodeExpr(e.X), e.S)
	case ast.Double:
		return "(dbl " + EncodeExpr(e.X) + ")"
	}
	return "?"
}

func EncodeAST(c *ast.Chain) string {
	if len(c.Statements) == 0 {
		return "-"
	}
	ss := make([]string, len(c.Statements))
	for i, s := range c.Statements {
		ss[i] = lib.Bytes([]byte(s.Name)) + "=" + EncodeExpr(s.Expr)
	}
	return strings.Join(ss, ";")
}

// ErrClass maps the error messages of the acc packages to protocol classes.
func ErrClass(err error) string {
	m := err.Error()
	switch {
	case strings.Contains(m, "out of bounds"), strings.Contains(m, "negative index"):
		return "bounds"
	case strings.Contains(m, "incorrect output index"):
		return "outidx"
	case strings.Contains(m, "assertion failure"):
		return "assert"
	case strings.Contains(m, "no output instruction"):
		return "dangling"
	case strings.Contains(m, "cannot redefine"):
		return "redefine"
	case strings.Contains(m, "undefined"):
		return "undefined"
	}
	return "other"
}

func PanicClass(v interface{}) string {
	if e, ok := v.(error); ok && strings.Contains(e.Error(), "index out of range") {
		return "index"
	}
	return "other"
}

// ---- the implementation under test ----

func Run(c string) string {
	f := strings.Split(c, " ")
	if len(f) != 2 {
		panic("unknown case " + c)
	}
	if f[0] == "cbuild" {
		return "ok " + strings.Join(ConcurrentBuild(ParseMulti(f[1])), "|")
	}
	p := ParseOps(f[1])
	p0 := append(addchain.Program{}, p...)
	res := run(f[0], p)
	for i := range p0 {
		if p[i] != p0[i] {
			return "ok <argument program modified>"
		}
	}
	return res
}

func run(fn string, p addchain.Program) string {
	q, err := acc.Decompile(p)
	if err != nil {
		return "err " + ErrClass(err)
	}
	switch fn {
	case "decompile":
		return "ok " + EncodeIR(q)
	case "build":
		s, err := acc.Build(q)
		if err != nil {
			return "err " + ErrClass(err)
		}
		return "ok " + EncodeAST(s)
	case "rebuild":
		r, msg := Rebuild(q)
		if msg != "" {
			return msg
		}
		return "ok " + EncodeAST(r.Trees[0])
	case "expand":
		if err := pass.Compile(q); err != nil {
			return "err " + ErrClass(err)
		}
		return "ok " + FormatOps(q.Program)
	case "retranslate":
		s, err := acc.Build(q)
		if err != nil {
			return "err " + ErrClass(err)
		}
		t, err := acc.Translate(s)
		if err != nil {
			return "err " + ErrClass(err)
		}
		if err := pass.Eval(t); err != nil {
			return "err " + ErrClass(err)
		}
		return "ok " + FormatOps(t.Program) + " | " + lib.HexList(t.Chain)
	case "names":
		if err := pass.Exec(q, pass.Func(pass.ReadCounts), pass.NameByteValues, pass.NameXRuns); err != nil {
			return "err " + ErrClass(err)
		}
		idx := []int{}
		for i := range q.Operands {
			idx = append(idx, i)
		}
		sort.Ints(idx)
		if len(idx) == 0 {
			return "ok -"
		}
		ss := make([]string, len(idx))
		for k, i := range idx {
			if q.Operands[i].Index != i {
				return "ok <operand table key differs from operand index>"
			}
			ss[k] = fmt.Sprintf("%d:%s", i, lib.Bytes([]byte(q.Operands[i].Identifier)))
		}
		return "ok " + strings.Join(ss, ",")
	case "dangling":
		if err := pass.CheckDanglingInputs(q); err != nil {
			return "err " + ErrClass(err)
		}
		return "ok -"
	}
	panic("unknown function " + fn)
}

// ParseMulti splits the argument of a cbuild case into its programs.
func ParseMulti(s string) []addchain.Program {
	ps := []addchain.Program{}
	for _, f := range strings.Split(s, "|") {
		ps = append(ps, ParseOps(f))
	}
	return ps
}

// buildOutcome is one call of Decompile + Build + String as an outcome token: the encoded tree,
// or "!err <class>" / "!panic <class>"; a text that differs from printing the tree is reported too.
func buildOutcome(p addchain.Program) (out string) {
	defer func() {
		if v := recover(); v != nil {
			out = "!panic " + PanicClass(v)
		}
	}()
	q, err := acc.Decompile(p)
	if err != nil {
		return "!err " + ErrClass(err)
	}
	s, err := acc.Build(q)
	if err != nil {
		return "!err " + ErrClass(err)
	}
	text, err := acc.String(q)
	if err != nil {
		return "!err " + ErrClass(err)
	}
	want, err := printer.String(s)
	if err != nil {
		return "!err other"
	}
	if text != want {
		return EncodeAST(s) + " <acc.String differs from the printed tree>"
	}
	return EncodeAST(s)
}

// ConcurrentBuild builds independent programs at the same time: G goroutines, started together
// behind a barrier, goroutine g building program g mod len(ps) several times; rounds are repeated for
// a fixed wall time (at least minRounds). Returns, per program, the distinct outcomes seen, sorted and
// joined by " ~ " (exactly one on a correct implementation: the sequential outcome).
func ConcurrentBuild(ps []addchain.Program) []string {
	const G, inner, minRounds = 8, 4, 10
	budget := 350 * time.Millisecond
	seen := make([]map[string]bool, len(ps))
	for k := range seen {
		seen[k] = map[string]bool{}
	}
	var mu sync.Mutex
	start := time.Now()
	for round := 0; round < minRounds || time.Since(start) < budget; round++ {
		var wg sync.WaitGroup
		gate := make(chan struct{})
		for g := 0; g < G; g++ {
			wg.Add(1)
			go func(g int) {
				defer wg.Done()
				k := g % len(ps)
				p := append(addchain.Program{}, ps[k]...)
				<-gate
				for t := 0; t < inner; t++ {
					o := buildOutcome(p)
					mu.Lock()
					seen[k][o] = true
					mu.Unlock()
				}
			}(g)
		}
		close(gate)
		wg.Wait()
	}
	res := make([]string, len(ps))
	for k := range ps {
		os := []string{}
		for o := range seen[k] {
			os = append(os, o)
		}
		sort.Strings(os)
		res[k] = strings.Join(os, " ~ ")
	}
	return res
}

// DecodeAST reads the prefix encoding back (for the oracles of cbuild).
func DecodeAST(s string) (*ast.Chain, error) {
	c := &ast.Chain{}
	if s == "-" {
		return c, nil
	}
	for _, st := range strings.Split(s, ";") {
		eq := strings.Index(st, "=")
		if eq < 0 {
			return nil, fmt.Errorf("statement without '='")
		}
		toks := strings.Fields(strings.NewReplacer("(", " ( ", ")", " ) ").Replace(st[eq+1:]))
		pos := 0
		var expr func() (ast.Expr, error)
		expr = func() (ast.Expr, error) {
			if pos+1 >= len(toks) || toks[pos] != "(" {
				return nil, fmt.Errorf("malformed tree")
			}
			kind := toks[pos+1]
			pos += 2
			var e ast.Expr
			switch kind {
			case "op":
				e = ast.Operand(lib.Atoi(toks[pos]))
				pos++
			case "id":
				e = ast.Identifier(lib.ParseBytes(toks[pos]))
				pos++
			case "add":
				x, err := expr()
				if err != nil {
					return nil, err
				}
				y, err := expr()
				if err != nil {
					return nil, err
				}
				e = ast.Add{X: x, Y: y}
			case "dbl":
				x, err := expr()
				if err != nil {
					return nil, err
				}
				e = ast.Double{X: x}
			case "shl":
				x, err := expr()
				if err != nil {
					return nil, err
				}
				e = ast.Shift{X: x, S: uint(lib.Atoi(toks[pos]))}
				pos++
			default:
				return nil, fmt.Errorf("unknown node %q", kind)
			}
			if pos >= len(toks) || toks[pos] != ")" {
				return nil, fmt.Errorf("malformed tree")
			}
			pos++
			return e, nil
		}
		e, err := expr()
		if err != nil {
			return nil, err
		}
		c.Statements = append(c.Statements, ast.Statement{Name: ast.Identifier(lib.ParseBytes(st[:eq])), Expr: e})
	}
	return c, nil
}

// CheckConcurrent is the oracle of a cbuild case: every outcome observed for every program is the
// sequential outcome of that program, and its tree passes check (names oracle / chain oracle).
func CheckConcurrent(c, res string, check func(p addchain.Program, s *ast.Chain) string) string {
	f := strings.Split(c, " ")
	ps := ParseMulti(f[1])
	for _, p := range ps {
		if !Valid(p) {
			return ""
		}
	}
	if !strings.HasPrefix(res, "ok ") {
		return "valid programs not processed: " + res
	}
	per := strings.Split(strings.TrimPrefix(res, "ok "), "|")
	if len(per) != len(ps) {
		return "wrong number of results"
	}
	for k, p := range ps {
		seq := buildOutcome(p)
		for _, o := range strings.Split(per[k], " ~ ") {
			if strings.HasPrefix(o, "!") {
				return fmt.Sprintf("concurrent build of program %d (%s) failed: %s", k+1, FormatOps(p), o[1:])
			}
			enc := strings.SplitN(o, " <", 2)
			if s, err := DecodeAST(enc[0]); err != nil {
				return "harness: cannot decode a tree: " + err.Error()
			} else if m := check(p, s); m != "" {
				return fmt.Sprintf("concurrent build of program %d (%s): %s", k+1, FormatOps(p), m)
			}
			if o != seq {
				return fmt.Sprintf("concurrent build of program %d (%s) differs from its sequential build", k+1, FormatOps(p))
			}
		}
	}
	return ""
}

// Rebuilt is what repeated use of one decompiled program gives.
type Rebuilt struct {
	Trees []*ast.Chain // acc.Build three times
	Texts []string     // acc.String, acc.Write, printer.String of the first tree
	Chain []*big.Int   // q.Chain after all of that
}

// Rebuild calls acc.Build three times, then acc.String and acc.Write, on the SAME program object.
// msg is a result line when a call fails or two calls disagree ("" otherwise).
func Rebuild(q *ir.Program) (*Rebuilt, string) {
	r := &Rebuilt{}
	for k := 0; k < 3; k++ {
		s, err := acc.Build(q)
		if err != nil {
			return nil, "err " + ErrClass(err)
		}
		r.Trees = append(r.Trees, s)
	}
	t1, err := acc.String(q)
	if err != nil {
		return nil, "err " + ErrClass(err)
	}
	var buf bytes.Buffer
	if err := acc.Write(&buf, q); err != nil {
		return nil, "err " + ErrClass(err)
	}
	t0, err := printer.String(r.Trees[0])
	if err != nil {
		return nil, "err other"
	}
	r.Texts = []string{t0, t1, buf.String()}
	r.Chain = q.Chain
	for k := 1; k < len(r.Trees); k++ {
		if EncodeAST(r.Trees[k]) != EncodeAST(r.Trees[0]) {
			return r, fmt.Sprintf("ok <build %d of the same program differs from build 1: %s>", k+1, EncodeAST(r.Trees[k]))
		}
	}
	for k := 1; k < len(r.Texts); k++ {
		if r.Texts[k] != r.Texts[0] {
			return r, fmt.Sprintf("ok <script text %d of the same program differs from the first>", k+1)
		}
	}
	return r, ""
}

// ---- independent definitions for the oracles ----

// InRange: every operand of op k refers to an element that exists (index <= k).
func InRange(p addchain.Program) bool {
	for k, op := range p {
		if op.I < 0 || op.J < 0 || op.I > k || op.J > k {
			return false
		}
	}
	return true
}

// Values computes the chain of an in-range program.
func Values(p addchain.Program) []*big.Int {
	c := []*big.Int{big.NewInt(1)}
	for _, op := range p {
		c = append(c, new(big.Int).Add(c[op.I], c[op.J]))
	}
	return c
}

func Distinct(c []*big.Int) bool {
	seen := map[string]bool{}
	for _, x := range c {
		k := x.String()
		if seen[k] {
			return false
		}
		seen[k] = true
	}
	return true
}

// Valid is the quantifier of C04/C16: in-range operands and pairwise distinct values.
func Valid(p addchain.Program) bool { return InRange(p) && Distinct(Values(p)) }

// SameUpToOrder: same length and each op has the same unordered operand pair.
func SameUpToOrder(p, q addchain.Program) bool {
	if len(p) != len(q) {
		return false
	}
	for k := range p {
		a, b := p[k], q[k]
		if !((a.I == b.I && a.J == b.J) || (a.I == b.J && a.J == b.I)) {
			return false
		}
	}
	return true
}

// StmtInfo is what an independent reading of a built script says about one statement.
type StmtInfo struct {
	Name  string
	Index int      // chain index of the statement's value
	Value *big.Int // the value
}

// Interpret runs a script by the language's semantics, written from the language
// description and not from acc.Translate: every operator appends one element (a shift by s
// appends s doublings), operands are evaluated left to right, [i] is chain element i, an
// identifier is the value of the statement that defined it.
func Interpret(c *ast.Chain) (chain []*big.Int, ops addchain.Program, stmts []StmtInfo, err error) {
	chain = []*big.Int{big.NewInt(1)}
	env := map[string]int{}
	var eval func(e ast.Expr) (int, error)
	eval = func(e ast.Expr) (int, error) {
		switch e := e.(type) {
		case ast.Operand:
			if int(e) < 0 || int(e) >= len(chain) {
				return 0, fmt.Errorf("operand [%d] does not exist yet", int(e))
			}
			return int(e), nil
		case ast.Identifier:
			i, ok := env[string(e)]
			if !ok {
				return 0, fmt.Errorf("identifier %q undefined", string(e))
			}
			return i, nil
		case ast.Add:
			x, err := eval(e.X)
			if err != nil {
				return 0, err
			}
			y, err := eval(e.Y)
			if err != nil {
				return 0, err
			}
			chain = append(chain, new(big.Int).Add(chain[x], chain[y]))
			ops = append(ops, addchain.Op{I: x, J: y})
			return len(chain) - 1, nil
		case ast.Double:
			x, err := eval(e.X)
			if err != nil {
				return 0, err
			}
			chain = append(chain, new(big.Int).Add(chain[x], chain[x]))
			ops = append(ops, addchain.Op{I: x, J: x})
			return len(chain) - 1, nil
		case ast.Shift:
			x, err := eval(e.X)
			if err != nil {
				return 0, err
			}
			for k := uint(0); k < e.S; k++ {
				chain = append(chain, new(big.Int).Add(chain[x], chain[x]))
				ops = append(ops, addchain.Op{I: x, J: x})
				x = len(chain) - 1
			}
			return x, nil
		}
		return 0, fmt.Errorf("unexpected expression %T", e)
	}
	for _, s := range c.Statements {
		i, e := eval(s.Expr)
		if e != nil {
			return nil, nil, nil, e
		}
		if _, dup := env[string(s.Name)]; dup {
			return nil, nil, nil, fmt.Errorf("name %q defined twice", string(s.Name))
		}
		env[string(s.Name)] = i
		stmts = append(stmts, StmtInfo{Name: string(s.Name), Index: i, Value: chain[i]})
	}
	return chain, ops, stmts, nil
}

var (
	reIdent = regexp.MustCompile(`^[a-zA-Z_][a-zA-Z0-9_]*$`)
	reByte  = regexp.MustCompile(`^_([01]+)$`)
	reXRun  = regexp.MustCompile(`^x([0-9]+)$`)
	reIdx   = regexp.MustCompile(`^i([0-9]+)$`)
	reDbl   = regexp.MustCompile(`^dbl[a-zA-Z_1]`)
)

// CheckNames states C16 on a built script: unique, only the last unnamed, legal, faithful.
func CheckNames(c *ast.Chain) string {
	_, _, stmts, err := Interpret(c)
	if err != nil {
		return "built script has no meaning: " + err.Error()
	}
	if len(stmts) == 0 {
		return "built script has no statement"
	}
	seen := map[string]bool{}
	for k, s := range stmts {
		last := k == len(stmts)-1
		if last {
			if s.Name != "" {
				return "final statement is named " + strconv.Quote(s.Name)
			}
			continue
		}
		if s.Name == "" {
			return fmt.Sprintf("statement %d of %d is unnamed", k, len(stmts))
		}
		if seen[s.Name] {
			return "name defined twice: " + s.Name
		}
		seen[s.Name] = true
		if !reIdent.MatchString(s.Name) {
			return "name is not a legal identifier: " + strconv.Quote(s.Name)
		}
		if reDbl.MatchString(s.Name) {
			return "name is in the dbl class: " + s.Name
		}
		switch {
		case reByte.MatchString(s.Name):
			v, _ := new(big.Int).SetString(s.Name[1:], 2)
			if v.Cmp(s.Value) != 0 {
				return fmt.Sprintf("name %s on value %s", s.Name, s.Value.Text(2))
			}
		case reXRun.MatchString(s.Name):
			n, _ := strconv.Atoi(s.Name[1:])
			w := new(big.Int).Lsh(big.NewInt(1), uint(n))
			w.Sub(w, big.NewInt(1))
			if w.Cmp(s.Value) != 0 {
				return fmt.Sprintf("name %s on value %s", s.Name, s.Value.Text(2))
			}
		case reIdx.MatchString(s.Name):
			n, _ := strconv.Atoi(s.Name[1:])
			if n != s.Index {
				return fmt.Sprintf("name %s on chain index %d", s.Name, s.Index)
			}
		default:
			return "name of no known scheme: " + s.Name
		}
	}
	return ""
}

// ---- generators ----

// exhaustive enumerates programs of exactly n ops. If allorders, both operand orders;
// if validonly, only duplicate-free value sequences are continued.
func exhaustive(n int, allorders, validonly bool, f func(addchain.Program)) {
	p := make(addchain.Program, 0, n)
	vals := []int64{1}
	var rec func()
	rec = func() {
		k := len(p)
		if k == n {
			f(p)
			return
		}
		for i := 0; i <= k; i++ {
			for j := 0; j <= k; j++ {
				if !allorders && i > j {
					continue
				}
				v := vals[i] + vals[j]
				if validonly {
					dup := false
					for _, w := range vals {
						if w == v {
							dup = true
						}
					}
					if dup {
						continue
					}
				}
				p = append(p, addchain.Op{I: i, J: j})
				vals = append(vals, v)
				rec()
				p = p[:k]
				vals = vals[:k+1]
			}
		}
	}
	rec()
}

// exhaustiveFrom enumerates the duplicate-free programs made of pre doublings of the last
// element followed by n arbitrary ops (both operand orders).
func exhaustiveFrom(pre, n int, f func(addchain.Program)) {
	p := addchain.Program{}
	vals := []int64{1}
	for k := 0; k < pre; k++ {
		p = append(p, addchain.Op{I: k, J: k})
		vals = append(vals, 2*vals[k])
	}
	var rec func()
	rec = func() {
		k := len(p)
		if k == pre+n {
			f(p)
			return
		}
		for i := 0; i <= k; i++ {
			for j := 0; j <= k; j++ {
				v := vals[i] + vals[j]
				dup := false
				for _, w := range vals {
					if w == v {
						dup = true
					}
				}
				if dup {
					continue
				}
				p = append(p, addchain.Op{I: i, J: j})
				vals = append(vals, v)
				rec()
				p = p[:k]
				vals = vals[:k+1]
			}
		}
	}
	rec()
}

// RandomProgram builds a valid program of about n ops rich in doubling runs, re-used run
// intermediates and single-use chains of operations (which the builder inlines).
func RandomProgram(r *lib.Rand, n int) addchain.Program {
	p := addchain.Program{}
	vals := []*big.Int{big.NewInt(1)}
	seen := map[string]bool{"1": true}
	try := func(i, j int) bool {
		v := new(big.Int).Add(vals[i], vals[j])
		if seen[v.String()] {
			return false
		}
		seen[v.String()] = true
		vals = append(vals, v)
		if r.Bool() {
			i, j = j, i
		}
		p = append(p, addchain.Op{I: i, J: j})
		return true
	}
	pick := func() int { // biased to recent elements (among them run intermediates)
		m := len(vals)
		if r.Chance(2, 3) {
			w := 6
			if w > m {
				w = m
			}
			return m - 1 - r.Intn(w)
		}
		return r.Intn(m)
	}
	style := r.Intn(4)
	for len(p) < n {
		last := len(vals) - 1
		c := r.Intn(100)
		switch {
		case c < 30: // doubling run from the last element
			for k, m := 0, r.Range(1, 9); k < m && len(p) < n; k++ {
				if !try(len(vals)-1, len(vals)-1) {
					break
				}
			}
		case c < 40: // doubling run from another element
			i := pick()
			if try(i, i) {
				for k, m := 0, r.Range(0, 6); k < m && len(p) < n; k++ {
					if !try(len(vals)-1, len(vals)-1) {
						break
					}
				}
			}
		case c < 75 || style == 0: // last + earlier: single-use chains
			try(last, pick())
		case c < 85: // last + 1
			try(last, 0)
		default:
			try(pick(), pick())
		}
	}
	return p
}

// progBuilder appends duplicate-free operations.
type progBuilder struct {
	p    addchain.Program
	vals []*big.Int
	seen map[string]bool
	r    *lib.Rand
}

func newProgBuilder(r *lib.Rand) *progBuilder {
	return &progBuilder{vals: []*big.Int{big.NewInt(1)}, seen: map[string]bool{"1": true}, r: r}
}

// add appends vals[i]+vals[j] (random operand order) unless the value exists; returns its index or -1.
func (b *progBuilder) add(i, j int) int {
	v := new(big.Int).Add(b.vals[i], b.vals[j])
	if b.seen[v.String()] {
		return -1
	}
	b.seen[v.String()] = true
	b.vals = append(b.vals, v)
	if b.r.Bool() {
		i, j = j, i
	}
	b.p = append(b.p, addchain.Op{I: i, J: j})
	return len(b.vals) - 1
}

// LadderProgram: a "Mersenne ladder" x -> 2x -> 2x+1 up to 2^n - 1, reached from 1 directly or
// through another route to 3 / 255, so that 2^k - 2 and 2^k - 1 sit side by side for every k up to
// n; then the neighbours 2^n, 2^n + 1 of the top; with occasional extra additions on the way and a
// tail that reads the interesting elements again, so that they are named intermediate statements
// rather than inlined or final.
func LadderProgram(r *lib.Rand, n int, route int, extras bool) addchain.Program {
	b := newProgBuilder(r)
	top, k := 0, 1 // vals[top] = 2^k - 1
	interesting := []int{}
	switch route {
	case 1: // 3 = 2 + 1, then the ladder
		d := b.add(0, 0)
		top, k = b.add(d, 0), 2
	case 2: // 255 = 240 + 15 without passing 127
		i2 := b.add(0, 0)
		i3 := b.add(i2, 0)
		i6 := b.add(i3, i3)
		i12 := b.add(i6, i6)
		i15 := b.add(i12, i3)
		x := i15
		for t := 0; t < 4; t++ {
			x = b.add(x, x)
		}
		top, k = b.add(x, i15), 8
		interesting = append(interesting, i15, x)
	}
	for ; k < n; k++ {
		d := b.add(top, top) // 2^(k+1) - 2
		if d < 0 {
			break
		}
		if extras && r.Chance(1, 4) {
			if e := b.add(d, r.Intn(len(b.vals))); e >= 0 {
				interesting = append(interesting, e)
			}
		}
		t := b.add(d, 0) // 2^(k+1) - 1
		if t < 0 {
			break
		}
		if k+1 >= 8 {
			interesting = append(interesting, d, t)
		}
		top = t
		if extras && r.Chance(1, 5) {
			b.add(top, r.Intn(len(b.vals)))
		}
	}
	// neighbours of the top: 2^n, 2^n + 1, 2^n + 2
	x := top
	for t := 0; t < 3; t++ {
		if y := b.add(x, 0); y >= 0 {
			interesting = append(interesting, y)
			x = y
		}
	}
	// tail: read the interesting elements again
	for t, m := 0, r.Range(2, 6); t < m && len(interesting) > 0; t++ {
		i := interesting[r.Intn(len(interesting))]
		j := interesting[r.Intn(len(interesting))]
		if r.Chance(1, 3) {
			j = len(b.vals) - 1
		}
		b.add(i, j)
	}
	return b.p
}

// BoundaryProgram: 2^n by a doubling run, then 2^n + 1, 2^n + 2 and, through a second route,
// 2^n - 1 and 2^n - 2 (= sum of the lower powers), all read again afterwards.
func BoundaryProgram(r *lib.Rand, n int) addchain.Program {
	b := newProgBuilder(r)
	pow := []int{0}
	for k := 1; k <= n; k++ {
		pow = append(pow, b.add(pow[k-1], pow[k-1]))
	}
	hot := []int{pow[n]}
	// 2^n - 2 = 2 + 4 + ... + 2^(n-1), then 2^n - 1
	acc := pow[1]
	for k := 2; k < n; k++ {
		if a := b.add(acc, pow[k]); a >= 0 {
			acc = a
		}
	}
	hot = append(hot, acc)
	if a := b.add(acc, 0); a >= 0 {
		hot = append(hot, a)
	}
	if a := b.add(pow[n], 0); a >= 0 {
		hot = append(hot, a)
		if c := b.add(a, 0); c >= 0 {
			hot = append(hot, c)
		}
	}
	for t, m := 0, r.Range(2, 5); t < m; t++ {
		b.add(hot[r.Intn(len(hot))], hot[r.Intn(len(hot))])
		b.add(len(b.vals)-1, hot[r.Intn(len(hot))])
	}
	return b.p
}

// Neighbours of a case: one operand changed, an op removed, an op inserted, operand order flipped.
func Neighbours(c string, r *lib.Rand, emit func(string)) {
	f := strings.Split(c, " ")
	if len(f) != 2 {
		return
	}
	if f[0] == "cbuild" { // the same programs in another arrangement, and pairs of them
		ps := strings.Split(f[1], "|")
		for i := range ps {
			for j := range ps {
				if i != j {
					emit("cbuild " + ps[i] + "|" + ps[j])
				}
			}
		}
		return
	}
	p := ParseOps(f[1])
	out := func(q addchain.Program) {
		if Valid(q) {
			emit(f[0] + " " + FormatOps(q))
		}
	}
	clone := func() addchain.Program { return append(addchain.Program{}, p...) }
	for t := 0; t < 12 && len(p) > 0; t++ {
		q := clone()
		k := r.Intn(len(q))
		switch r.Intn(4) {
		case 0: // operand changed
			if r.Bool() {
				q[k].I = r.Intn(k + 1)
			} else {
				q[k].J = r.Intn(k + 1)
			}
		case 1: // order flipped
			q[k].I, q[k].J = q[k].J, q[k].I
		case 2: // op removed; later references shift down
			q = append(q[:k], q[k+1:]...)
			for m := k; m < len(q); m++ {
				if q[m].I > k {
					q[m].I--
				}
				if q[m].J > k {
					q[m].J--
				}
			}
		case 3: // op inserted; later references shift up
			ins := addchain.Op{I: r.Intn(k + 1), J: r.Intn(k + 1)}
			q = append(q[:k], append(addchain.Program{ins}, q[k:]...)...)
			for m := k + 1; m < len(q); m++ {
				if q[m].I > k {
					q[m].I++
				}
				if q[m].J > k {
					q[m].J++
				}
			}
		}
		out(q)
	}
	// the same program truncated: smaller failing inputs
	if len(p) > 1 {
		out(p[:len(p)/2])
		out(p[:len(p)-1])
	}
}

// Targets of cryptographic shape for the search algorithms.
func searchTargets(r *lib.Rand, tier string) []*big.Int {
	one := big.NewInt(1)
	sub := func(e uint, d int64) *big.Int {
		x := new(big.Int).Lsh(one, e)
		return x.Sub(x, big.NewInt(d))
	}
	ts := []*big.Int{
		big.NewInt(1), big.NewInt(2), big.NewInt(3), big.NewInt(255), big.NewInt(511), big.NewInt(1023),
		big.NewInt(0x2ff), big.NewInt(0xfff7), sub(64, 1), sub(127, 3), sub(255, 21),
	}
	nr := 3
	if tier == "thorough" {
		ts = append(ts, sub(256, 189), sub(384, 317), sub(521, 3))
		nr = 12
	}
	for i := 0; i < nr; i++ {
		ts = append(ts, r.BitsExact(r.Range(10, 160)))
	}
	return ts
}

func searchPrograms(r *lib.Rand, tier string, f func(addchain.Program)) {
	as := ensemble.Ensemble()
	stride := 37
	if tier == "thorough" {
		stride = 5
	}
	for ti, t := range searchTargets(r, tier) {
		var sel []alg.ChainAlgorithm
		for k := ti % stride; k < len(as); k += stride {
			sel = append(sel, as[k])
		}
		for _, a := range sel {
			c, err := a.FindChain(t)
			if err != nil {
				continue
			}
			p, err := c.Program()
			if err != nil {
				continue
			}
			f(p)
		}
	}
}

// Gen emits, for every generated program, one case line per function in fns; the structured
// streams (not the exhaustive small scope) also get the functions in more.
func Gen(fns []string, more []string, ncbuild int) func(tier string, r *lib.Rand, emit func(string)) {
	return func(tier string, r *lib.Rand, emit func(string)) {
		out := func(p addchain.Program) {
			s := FormatOps(p)
			for _, fn := range fns {
				emit(fn + " " + s)
			}
		}
		outAll := func(p addchain.Program) {
			out(p)
			s := FormatOps(p)
			for _, fn := range more {
				emit(fn + " " + s)
			}
		}
		// (a) exhaustive: everything (duplicates included) with both operand orders up to
		// full, then duplicate-free programs, then canonical-order duplicate-free programs
		full, valid, canon, nrand, nlong, nbad := 4, 5, 6, 1500, 40, 300
		if tier == "thorough" {
			full, valid, canon, nrand, nlong, nbad = 5, 6, 7, 40000, 1500, 5000
		}
		for n := 0; n <= full; n++ {
			exhaustive(n, true, false, out)
		}
		for n := full + 1; n <= valid; n++ {
			exhaustive(n, true, true, out)
		}
		if tier == "quick" {
			// length 6 with both operand orders: the first two functions only (time budget)
			exhaustive(6, true, true, func(p addchain.Program) {
				s := FormatOps(p)
				for _, fn := range fns[:2] {
					emit(fn + " " + s)
				}
			})
		}
		for n := valid + 1; n <= canon; n++ {
			exhaustive(n, false, true, func(p addchain.Program) {
				out(p)
				// and one random choice of operand orders
				q := append(addchain.Program{}, p...)
				for k := range q {
					if r.Bool() {
						q[k].I, q[k].J = q[k].J, q[k].I
					}
				}
				out(q)
			})
		}
		// (a') nothing below 2^8 can be inlined by the builder, so the small scope above never
		// reaches its inlining branch: exhaustive suffixes after a prefix of nine doublings
		// (values 1..512), both operand orders, duplicate-free
		suffix := 2
		if tier == "thorough" {
			suffix = 3
		}
		for n := 1; n <= suffix; n++ {
			exhaustiveFrom(9, n, out)
		}
		// (a'') naming boundaries: Mersenne ladders (2^k - 2 next to 2^k - 1 for every k up to n),
		// from 1, through 3, through another route to 255; and 2^n -2, -1, +0, +1, +2 around a
		// doubling run; n up to 24, every program with a tail that reads these elements again
		reps := 1
		if tier == "thorough" {
			reps = 8
		}
		for n := 2; n <= 24; n++ {
			for route := 0; route < 3; route++ {
				outAll(LadderProgram(r, n, route, false))
				for k := 0; k < reps; k++ {
					outAll(LadderProgram(r, n, route, true))
				}
			}
			if n >= 3 {
				for k := 0; k < reps; k++ {
					outAll(BoundaryProgram(r, n))
				}
			}
		}
		// (a3) independent programs built at the same time from several goroutines (process-wide
		// state shared between builds): ladders and boundary programs (2^n - 2 next to 2^n - 1, true
		// runs of nine and more bits), a long random program, a search result
		ncb := ncbuild
		if tier == "thorough" {
			ncb *= 8
		}
		var searched, found []addchain.Program // the search algorithms run once; also stream (c)
		searchPrograms(r, tier, func(p addchain.Program) {
			q := append(addchain.Program{}, p...)
			searched = append(searched, q)
			if len(p) > 20 && len(found) < 64 {
				found = append(found, q)
			}
		})
		for i := 0; i < ncb; i++ {
			ps := []addchain.Program{
				LadderProgram(r, r.Range(10, 24), i%3, i%2 == 1),
				LadderProgram(r, r.Range(10, 24), (i+1)%3, true),
				BoundaryProgram(r, r.Range(9, 24)),
				RandomProgram(r, r.Range(30, 120)),
			}
			if len(found) > 0 && i%2 == 0 {
				ps[3] = found[r.Intn(len(found))]
			}
			ss := make([]string, len(ps))
			for k, p := range ps {
				ss[k] = FormatOps(p)
			}
			emit("cbuild " + strings.Join(ss, "|"))
		}
		// (b) structured random programs
		for i := 0; i < nrand; i++ {
			outAll(RandomProgram(r, r.Range(6, 40)))
		}
		for i := 0; i < nlong; i++ {
			outAll(RandomProgram(r, r.Range(60, 400)))
		}
		// (c) what the search algorithms return
		for _, p := range searched {
			outAll(p)
		}
		// (d) malformed: operands out of range, forward references, duplicates
		for i := 0; i < nbad; i++ {
			p := RandomProgram(r, r.Range(1, 12))
			for m := r.Range(1, 2); m > 0; m-- {
				k := r.Intn(len(p))
				v := r.Range(0, len(p)+2)
				if r.Bool() {
					p[k].I = v
				} else {
					p[k].J = v
				}
			}
			out(p)
		}
	}
}
