Require Import P R1 R2.
From Coq Require Import List NArith Lia Bool Arith.
Import ListNotations.
Open Scope N_scope.

Fixpoint d (e : expr) : nat :=
  match e with
  | EAdd x y => Nat.max (d x) (if is_add y then S (d y) else d y)
  | EShift x _ | EDouble x => if is_op x then S (d x) else d x
  | _ => 0%nat
  end.
Definition sp e := paren (is_add e) (pr e).
Definition bp e := paren (is_op e) (pr e).
Definition dsp e := if is_add e then S (d e) else d e.
Definition dbp e := if is_op e then S (d e) else d e.

Fixpoint size (e : expr) : nat :=
  match e with
  | EAdd x y => S (size x + size y)
  | EShift x _ | EDouble x => S (size x)
  | _ => 1%nat
  end.

Definition CA e := forall f r, (d e < f)%nat -> fola r -> p_expr f (pr e ++ r) = Some (e, skipws r).
Definition CS e := forall f r, (dsp e <= f)%nat -> fol r ->
  exists r', p_shift (p_expr f) (sp e ++ r) = Some (e, r') /\ skipws r' = skipws r.
Definition CB e := forall f r, (dbp e <= f)%nat -> sepr r -> p_base (p_expr f) (bp e ++ r) = Some (e, r).

(* printed forms never start with white space *)
Lemma pr_nows e : wf e -> forall r, nohead is_ws (pr e ++ r).
Proof.
  induction e as [i|s|x IHx y IHy|x IHx s|x IHx]; intros Hw r.
  - destruct i; reflexivity.
  - destruct s as [|c t]; [destruct Hw|]. destruct Hw as (Hc & _). simpl. now apply alpha_nows.
  - destruct Hw as [Hx Hy]. cbn [pr]. rewrite <- app_assoc. apply IHx, Hx.
  - cbn [pr]. rewrite <- app_assoc. unfold paren. destruct (is_op x); [reflexivity|]. apply IHx, Hw.
  - reflexivity.
Qed.
Lemma sp_nows e : wf e -> forall r, nohead is_ws (sp e ++ r).
Proof. intros Hw r. unfold sp, paren. destruct (is_add e); [reflexivity|]. now apply pr_nows. Qed.
Lemma bp_nows e : wf e -> forall r, nohead is_ws (bp e ++ r).
Proof. intros Hw r. unfold bp, paren. destruct (is_op e); [reflexivity|]. now apply pr_nows. Qed.

(* parenthesised form, given CA *)

Lemma base_paren e : wf e -> CA e -> forall f r, (S (d e) <= f)%nat ->
  p_base (p_expr f) ([40] ++ pr e ++ [41] ++ r) = Some (e, r).
Proof.
  intros Hw HA f r Hf. cbn [app]. unfold p_base. rewrite lit1_eq. unfold alt.
  rewrite skipws_nows by (now apply pr_nows).
  rewrite (HA f (41 :: r)) by (try lia; unfold fola; simpl; auto).
  cbv beta iota. rewrite !(skipws_nows (41 :: r)) by reflexivity. rewrite lit1_eq. reflexivity.
Qed.

Lemma shiftop_none r : fol r -> p_shiftop (skipws r) = None.
Proof.
  unfold fol. destruct (skipws r) as [|c t]; [reflexivity|].
  intros [->|[->| ->]]; reflexivity.
Qed.
Lemma shiftop_lt t : p_shiftop (60 :: 60 :: t) = Some t.
Proof. reflexivity. Qed.
Lemma addop_plus t : p_addop (43 :: t) = Some t.
Proof. reflexivity. Qed.
Lemma dblop_2star t : p_dblop (50 :: 42 :: t) = Some t.
Proof. reflexivity. Qed.
Lemma addop_none r : fola r -> p_addop (skipws r) = None.
Proof.
  unfold fola. destruct (skipws r) as [|c t]; [reflexivity|].
  intros [->| ->]; reflexivity.
Qed.

(* CB from CA (op) or atoms *)
Lemma CB_of e : wf e -> (is_op e = true -> CA e) -> CB e.
Proof.
  intros Hw HA f r Hf Hr. unfold bp, dbp in *. destruct (is_op e) eqn:Eop.
  - unfold paren. rewrite <- !app_assoc. apply base_paren; auto.
  - unfold paren. destruct e as [i|s| | |]; try discriminate.
    + destruct i as [|p]; [apply base_one | apply base_index].
    + now apply base_ident.
Qed.

(* CS for non-add expressions from CB of children *)
Lemma dblop_fail_atom e r : wf e -> is_op e = false -> p_dblop (skipws (pr e ++ r)) = None.
Proof.
  intros Hw Hop. rewrite skipws_nows by (now apply pr_nows).
  destruct e as [i|s| | |]; try discriminate.
  - destruct i as [|p]; reflexivity.
  - destruct s as [|c t]; [destruct Hw|]. destruct Hw as (Hc & _ & Hd).
    pose proof (alpha_cases c Hc). cbn [pr app]. unfold p_dblop.
    rewrite lit1_ne by lia. unfold alt. apply lit_ne_head. exact Hd.
Qed.

Lemma CS_nonadd e : wf e -> is_add e = false ->
  (forall x, (size x < size e)%nat -> wf x -> CB x) -> (is_op e = false -> CB e) -> CS e.
Proof.
  intros Hw Hna IH HBe f r Hf Hr. unfold sp, dsp in *. rewrite Hna in *. unfold paren.
  destruct e as [i|s|x y|x s|x]; try discriminate.
  - (* operand *)
    exists r. split; [|reflexivity]. unfold p_shift.
    rewrite skipws_nows by (now apply pr_nows).
    assert (HB : p_base (p_expr f) (pr (EOperand i) ++ r) = Some (EOperand i, r)).
    { apply (HBe eq_refl f r); [unfold dbp; cbn [is_op d]; lia| now apply fol_sepr]. }
    rewrite HB. rewrite shiftop_none by assumption. unfold alt at 1.
    rewrite <- (skipws_nows (pr (EOperand i) ++ r)) at 1 by (now apply pr_nows).
    rewrite dblop_fail_atom by auto. reflexivity.
  - (* ident *)
    exists r. split; [|reflexivity]. unfold p_shift.
    rewrite skipws_nows by (now apply pr_nows).
    assert (HB : p_base (p_expr f) (pr (EIdent s) ++ r) = Some (EIdent s, r)).
    { apply (HBe eq_refl f r); [unfold dbp; cbn [is_op d]; lia| now apply fol_sepr]. }
    rewrite HB. rewrite shiftop_none by assumption. unfold alt at 1.
    rewrite <- (skipws_nows (pr (EIdent s) ++ r)) at 1 by (now apply pr_nows).
    rewrite dblop_fail_atom by auto. reflexivity.
  - (* shift *)
    exists (skipws r). split; [|apply skipws_idem]. unfold p_shift.
    cbn [pr]. rewrite <- !app_assoc.
    change (paren (is_op x) (pr x)) with (bp x).
    rewrite skipws_nows by (now apply bp_nows).
    rewrite (IH x ltac:(simpl; lia) Hw f) by (first [exact Hf | reflexivity]).
    cbv beta iota. cbn [app]. rewrite skipws_sp. rewrite skipws_nows by reflexivity.
    rewrite shiftop_lt. cbv beta iota.
    rewrite skipws_sp.
    destruct (dec_str_head s r) as (c & t & E & Hc).
    rewrite skipws_nows by (rewrite E; simpl; now apply digit_nows).
    rewrite p_uint_dec by (now apply fol_nodigit). reflexivity.
  - (* double *)
    exists r. split; [|reflexivity]. unfold p_shift. cbn [pr]. rewrite <- !app_assoc. cbn [app].
    rewrite skipws_nows by reflexivity.
    assert (Hb1 : p_base (p_expr f) (50 :: 42 :: paren (is_op x) (pr x) ++ r) = None).
    { unfold p_base. rewrite lit1_ne by lia. unfold alt, p_operand.
      rewrite lit1_ne by lia. rewrite lit1_ne by lia. reflexivity. }
    rewrite Hb1. unfold alt at 1.
    rewrite dblop_2star. cbv beta iota.
    change (paren (is_op x) (pr x)) with (bp x).
    rewrite skipws_nows by (now apply bp_nows).
    rewrite (IH x ltac:(simpl; lia) Hw f r) by (first [exact Hf | now apply fol_sepr]).
    reflexivity.
Qed.
