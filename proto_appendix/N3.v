Require Import H F F1.
From Coq Require Import List NArith Lia Bool Arith.
Import ListNotations.
Open Scope N_scope.

Fixpoint nd (l : list N) : Prop := match l with [] => True | x :: t => (forall y, In y t -> x <= y) /\ nd t end.
Definition Good (c ns : list N) : Prop := CL c /\ lastn c = lastn ns /\ forall t, In t ns -> In t c.

Lemma nd_app_inv a b : nd (a ++ b) -> nd a /\ nd b /\ forall x y, In x a -> In y b -> x <= y.
Proof.
  induction a as [|x a IH]; simpl; intros H; [repeat split; auto; intros ? ? []|].
  destruct H as [H1 H2]. destruct (IH H2) as (Ha & Hb & Hab). repeat split; auto.
  - intros y Hy. apply H1, in_or_app; auto.
  - intros u v [<-|Hu] Hv; [apply H1, in_or_app; auto|auto].
Qed.
Lemma nd_app a b : nd a -> nd b -> (forall x y, In x a -> In y b -> x <= y) -> nd (a ++ b).
Proof.
  induction a as [|x a IH]; simpl; intros Ha Hb Hab; [assumption|]. destruct Ha as [H1 H2]. split.
  - intros y Hy. apply in_app_or in Hy as [Hy|Hy]; auto.
  - apply IH; auto.
Qed.
Lemma in_insert x l z : In z (insert_su x l) <-> z = x \/ In z l.
Proof.
  induction l as [|y t IH]; simpl; [intuition|]. destruct (x ?= y) eqn:E.
  - apply N.compare_eq in E. subst. simpl. intuition.
  - simpl. intuition.
  - simpl. rewrite IH. intuition.
Qed.
Lemma nd_insert x l : nd l -> nd (insert_su x l).
Proof.
  induction l as [|y t IH]; simpl; intros H; [split; [intros ? []|exact I]|]. destruct H as [H1 H2].
  destruct (x ?= y) eqn:E.
  - split; assumption.
  - assert (x < y) by exact E. split; [|split; assumption]. intros z [<-|Hz]; [lia|specialize (H1 z Hz); lia].
  - assert (y < x) by (apply N.compare_gt_iff; exact E). split; [|now apply IH].
    intros z Hz. apply in_insert in Hz as [->|Hz]; [lia|auto].
Qed.
Lemma nd_last_max l : nd l -> forall x, In x l -> x <= lastn l.
Proof.
  unfold lastn. induction l as [|y l IH]; intros Hs x Hx; [destruct Hx|]. destruct Hs as [H1 H2].
  destruct l as [|z l']; [simpl in *; destruct Hx as [<-|[]]; lia|].
  change (last (y :: z :: l') 0) with (last (z :: l') 0). destruct Hx as [<-|Hx].
  - specialize (IH H2 z (or_introl eq_refl)). specialize (H1 z (or_introl eq_refl)). lia.
  - now apply IH.
Qed.

(* powers of two *)
Lemma pow2upto_spec e : forall f j, (j <= e)%nat -> (e - j < f)%nat ->
  pow2upto f (2 ^ N.of_nat j) (2 ^ N.of_nat e) = map (fun i => 2 ^ N.of_nat i) (seq j (S (e - j))).
Proof.
  induction f as [|f IH]; intros j Hj Hf; [lia|]. cbn [pow2upto].
  replace (2 ^ N.of_nat j <=? 2 ^ N.of_nat e) with true by (symmetry; apply N.leb_le, N.pow_le_mono_r; lia).
  destruct (Nat.eq_dec j e) as [->|Hne].
  - rewrite Nat.sub_diag. cbn [seq map]. f_equal. destruct f; [reflexivity|]. cbn [pow2upto].
    replace (2 * 2 ^ N.of_nat e <=? 2 ^ N.of_nat e) with false; [reflexivity|].
    symmetry. apply N.leb_gt. assert (2 ^ N.of_nat e <> 0) by (apply N.pow_nonzero; lia). lia.
  - replace (S (e - j)) with (S (S (e - S j))) by lia. cbn [seq map]. f_equal.
    replace (2 * 2 ^ N.of_nat j) with (2 ^ N.of_nat (S j)) by (rewrite Nat2N.inj_succ, N.pow_succ_r'; reflexivity).
    rewrite IH by lia. reflexivity.
Qed.
Lemma pows_CL e : CL (map (fun i => 2 ^ N.of_nat i) (seq 0 (S e))) /\ lastn (map (fun i => 2 ^ N.of_nat i) (seq 0 (S e))) = 2 ^ N.of_nat e.
Proof.
  assert (Hin : forall z, In z (map (fun i => 2 ^ N.of_nat i) (seq 0 (S e))) <-> exists i, (i <= e)%nat /\ z = 2 ^ N.of_nat i).
  { intros z. rewrite in_map_iff. split.
    - intros (i & <- & Hi). apply in_seq in Hi. exists i. split; [lia|reflexivity].
    - intros (i & Hi & ->). exists i. split; [reflexivity|apply in_seq; lia]. }
  split; [split; [|split; [|split]]|].
  - assert (G : forall n s, sd (map (fun i => 2 ^ N.of_nat i) (seq s n))).
    { induction n as [|n IH]; intros s; simpl; [exact I|]. split; [|apply IH].
      intros y Hy. apply in_map_iff in Hy as (i & <- & Hi). apply in_seq in Hi. apply N.pow_lt_mono_r; lia. }
    apply G.
  - apply Hin. exists 0%nat. split; [lia|reflexivity].
  - intros x Hx. apply Hin in Hx as (i & _ & ->). assert (2 ^ N.of_nat i <> 0) by (apply N.pow_nonzero; lia). lia.
  - intros x Hx. apply Hin in Hx as (i & Hi & ->). destruct i as [|i]; [left; reflexivity|right].
    exists (2 ^ N.of_nat i), (2 ^ N.of_nat i). repeat split; try (apply Hin; exists i; split; [lia|reflexivity]).
    rewrite Nat2N.inj_succ, N.pow_succ_r'. lia.
  - unfold lastn. rewrite seq_S, map_app. simpl. apply last_last.
Qed.

Lemma shortest_in cs : forall best c, shortest cs best = Some c -> In c cs \/ best = Some c.
Proof.
  induction cs as [|x cs IH]; intros best c H; simpl in H; [auto|].
  destruct best as [b|].
  - destruct (length x <? length b)%nat; apply IH in H as [H|H]; simpl; auto. inversion H; auto.
  - apply IH in H as [H|H]; simpl; auto. inversion H; auto.
Qed.
Lemma all_some_in {A} (l : list (option A)) : forall xs, all_some l = Some xs -> forall x, In x xs -> In (Some x) l.
Proof.
  induction l as [|o l IH]; intros xs H x Hx; simpl in H; [inversion H; subst; destruct Hx|].
  destruct o as [a|]; [|discriminate]. destruct (all_some l) as [ys|] eqn:E; [|discriminate]. inversion H; subst.
  destruct Hx as [<-|Hx]; simpl; auto. right. eapply IH; eauto.
Qed.
