From Coq Require Import List NArith Lia Bool Arith.
Import ListNotations.
Open Scope N_scope.

(* ---------- model of contfrac.Algorithm.chain / minchain, addchain.Product / Plus ---------- *)
Definition lastn (l : list N) : N := last l 0.
Definition product (a b : list N) : list N := a ++ map (fun x => lastn a * x) (tl b).      (* addchain.Product *)
Definition plus (a : list N) (x : N) : list N := a ++ [lastn a + x].                        (* addchain.Plus *)

Fixpoint insert_su (x : N) (l : list N) : list N :=            (* bigints.InsertSortedUnique *)
  match l with
  | [] => [x]
  | y :: t => match x ?= y with Lt => x :: l | Eq => l | Gt => y :: insert_su x t end
  end.

Fixpoint pow2upto (fuel : nat) (p x : N) : list N :=           (* bigint.Pow2UpTo: p, 2p, ... <= x *)
  match fuel with O => [] | S f => if p <=? x then p :: pow2upto f (2 * p) x else [] end.
Definition is_pow2 (x : N) : bool := (x =? 2 ^ N.log2 x) && negb (x =? 0).

Section CF.
Variable K : N -> list N.       (* Strategy.K *)

(* pick the first shortest candidate (minchain's loop) *)
Fixpoint shortest (cs : list (list N)) (best : option (list N)) : option (list N) :=
  match cs with
  | [] => best
  | c :: r => match best with
              | None => shortest r (Some c)
              | Some b => if (length c <? length b)%nat then shortest r (Some c) else shortest r best
              end
  end.
Fixpoint all_some {A} (l : list (option A)) : option (list A) :=
  match l with [] => Some [] | Some x :: r => match all_some r with Some xs => Some (x :: xs) | None => None end | None :: _ => None end.

(* one fuel for the mutual recursion: inl ns = chain(ns), inr n = minchain(n); None = out of fuel *)
Fixpoint cf (fuel : nat) (arg : list N + N) : option (list N) :=
  match fuel with
  | O => None
  | S f =>
    match arg with
    | inr n =>
      if is_pow2 n then Some (pow2upto (S (N.to_nat (N.log2 n))) 1 n)
      else if n =? 3 then Some [1; 2; 3]
      else match all_some (map (fun k => cf f (inl [k; n])) (K n)) with
           | Some cs => shortest cs None          (* nil result (no candidate) would panic in Go: excluded by good_K *)
           | None => None
           end
    | inl ns =>
      match rev ns with
      | [] => None                                 (* never called with an empty slice *)
      | [n] => cf f (inr n)
      | n :: m :: rest_rev =>
        if m <=? 1 then cf f (inr n)
        else
          let q := n / m in let r := n mod m in
          let remaining := rev (m :: rest_rev) in
          match cf f (inr q) with
          | None => None
          | Some cq =>
            if r =? 0 then
              match cf f (inl remaining) with Some c => Some (product c cq) | None => None end
            else
              match cf f (inl (insert_su r remaining)) with Some c => Some (plus (product c cq) r) | None => None end
          end
      end
    end
  end.
End CF.

Definition binaryK (n : N) : list N := [n / 2].
Eval vm_compute in cf binaryK 200 (inl [47; 117; 343; 499; 933; 5689]).
Eval vm_compute in cf binaryK 200 (inl [5; 5]).
Eval vm_compute in cf binaryK 200 (inl [1; 2; 7]).
