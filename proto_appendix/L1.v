Require Import B.
From Coq Require Import List NArith Lia Bool Arith.
Import ListNotations.

(* ---------- IR-level interpreter: pass.Compile fused with Program.Evaluate ---------- *)
Definition val (vs : list N) (i : nat) : N := nth i vs 0%N.
Fixpoint doublings (vs : list N) (x s : nat) : list N :=       (* Program.Shift: s doublings starting from index x *)
  match s with O => vs | S s' => doublings (vs ++ [(val vs x + val vs x)%N]) (length vs) s' end.
Definition exec_inst (vs : list N) (i : inst) : option (list N) :=
  match op i with
  | IAdd x y => if (x <? length vs) && (y <? length vs) && (out i =? length vs)
                then Some (vs ++ [(val vs x + val vs y)%N]) else None
  | IDbl x => if (x <? length vs) && (out i =? length vs) then Some (vs ++ [(val vs x + val vs x)%N]) else None
  | IShl x s => if (x <? length vs) && (1 <=? s) && (out i =? length vs + s - 1) then Some (doublings vs x s) else None
  end.
Fixpoint run_ir (is : list inst) (vs : list N) : option (list N) :=
  match is with [] => Some vs | i :: r => match exec_inst vs i with Some vs' => run_ir r vs' | None => None end end.

(* ---------- direct semantics of the syntax tree: statements in order, operands left to right ---------- *)
Fixpoint den_expr (e : expr) (vs : list N) (env : list (ident * nat)) : option (nat * list N) :=
  match e with
  | Lit i => Some (i, vs)
  | Id s => match lookup s env with Some i => Some (i, vs) | None => None end
  | EAdd x y =>
    match den_expr x vs env with
    | Some (ix, vs1) =>
      match den_expr y vs1 env with
      | Some (iy, vs2) => if (ix <? length vs2) && (iy <? length vs2)
                          then Some (length vs2, vs2 ++ [(val vs2 ix + val vs2 iy)%N]) else None
      | None => None end
    | None => None end
  | EDbl x =>
    match den_expr x vs env with
    | Some (ix, vs1) => if ix <? length vs1 then Some (length vs1, vs1 ++ [(val vs1 ix + val vs1 ix)%N]) else None
    | None => None end
  | EShl x s =>
    match den_expr x vs env with
    | Some (ix, vs1) => if (ix <? length vs1) && (1 <=? s) then Some (length vs1 + s - 1, doublings vs1 ix s) else None
    | None => None end
  end.
Definition den_stmt (st : list N * list (ident * nat)) (s : ident * expr) : option (list N * list (ident * nat)) :=
  let '(vs, env) := st in
  match den_expr (snd s) vs env with
  | Some (i, vs') => match lookup (fst s) env with Some _ => None | None => Some (vs', (fst s, i) :: env) end
  | None => None
  end.
Fixpoint den_stmts (ss : list (ident * expr)) (st : list N * list (ident * nat)) :=
  match ss with [] => Some st | s :: r => match den_stmt st s with Some st1 => den_stmts r st1 | None => None end end.

(* the code path: Translate, then Compile/Evaluate *)
Definition load (ss : list (ident * expr)) : option (list N) :=
  match tr_stmts ss tinit with Some ts => run_ir (emitted ts) [1%N] | None => None end.
Definition denote (ss : list (ident * expr)) : option (list N) :=
  match den_stmts ss ([1%N], []) with Some (vs, _) => Some vs | None => None end.
