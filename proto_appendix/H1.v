From Coq Require Import List NArith Lia Bool Arith.
Import ListNotations.
Open Scope N_scope.

(* ---------- model of dict.RunsChain (lengths as nat in this prototype) ---------- *)
Definition ones (l : nat) : N := 2 ^ N.of_nat l - 1.                    (* bigint.Ones *)
Definition shl (x : N) (t : nat) : N := x * 2 ^ N.of_nat t.             (* Lsh *)
Definition smap := list (nat * nat).                                    (* s : run length -> largest shift present *)
Fixpoint get (s : smap) (b : nat) : nat :=
  match s with [] => 0%nat | (k, v) :: t => if (k =? b)%nat then v else get t b end.
Definition set (s : smap) (b v : nat) : smap := (b, v) :: s.

Definition step (lc : list nat) (st : list N * smap) (o : nat * nat) : list N * smap :=
  let '(c, s) := st in
  let x := nth (fst o) lc 0%nat in let y := nth (snd o) lc 0%nat in
  let a := Nat.min x y in let b := Nat.max x y in
  let sb := get s b in
  (* for ; s[lb] < la; s[lb]++ { c = append(c, rb << (s[lb]+1)) } *)
  let shifts := map (fun t => shl (ones b) t) (seq (S sb) (a - sb)) in
  let s' := if (sb <? a)%nat then set s b a else s in
  (c ++ shifts ++ [ones (a + b)], s').

Definition runs_chain (lc : list nat) (p : list (nat * nat)) : list N :=
  fst (fold_left (step lc) p ([1], [])).

Eval vm_compute in runs_chain [1;2;3;5;10]%nat [(0,0);(0,1);(1,2);(3,3)]%nat.
