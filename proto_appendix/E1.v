From Coq Require Import List Lia Bool Arith.
Import ListNotations.

(* ---------- model of exec.Parallel.Execute as a labelled transition system ---------- *)
Section Par.
Variable R : Type.            (* exec.Result *)
Variable k : nat.             (* number of algorithms *)
Variable limit : nat.         (* concurrency limit = channel capacity *)
Variable res : nat -> R.      (* res i = Execute(n, as[i]) : what worker i computes *)

Inductive wst := NotYet | Spawned | Started | Stored | Logged | Released.
Record st := { spawned : nat; waitc : nat; returned : bool; sem : nat; ws : list wst; rs : list (option R) }.

Inductive label := LSpawn | LStart (i : nat) | LStore (i : nat) | LDone (i : nat) | LRelease (i : nat) | LWait | LReturn.

Fixpoint update {A} (l : nat) (v : A) (xs : list A) : list A :=
  match xs, l with
  | [], _ => []
  | _ :: t, O => v :: t
  | x :: t, S l' => x :: update l' v t
  end.
Definition wat (s : st) i := nth i (ws s) NotYet.
Definition wst_eqb (a b : wst) : bool :=
  match a, b with
  | NotYet, NotYet | Spawned, Spawned | Started, Started | Stored, Stored | Logged, Logged | Released, Released => true
  | _, _ => false
  end.
Definition setw (s : st) i w := {| spawned := spawned s; waitc := waitc s; returned := returned s; sem := sem s;
                                   ws := update i w (ws s); rs := rs s |}.

Definition step_fn (s : st) (l : label) : option st :=
  if returned s then None else
  match l with
  | LSpawn => if (spawned s <? k) && (sem s <? limit)                    (* sem <- token{} ; go worker(i) *)
              then Some {| spawned := S (spawned s); waitc := waitc s; returned := false; sem := S (sem s);
                           ws := update (spawned s) Spawned (ws s); rs := rs s |} else None
  | LStart i => if wst_eqb (wat s i) Spawned then Some (setw s i Started) else None          (* log "start" *)
  | LStore i => if wst_eqb (wat s i) Started                                                   (* rs[i] = Execute(n,a) *)
                then Some {| spawned := spawned s; waitc := waitc s; returned := false; sem := sem s;
                             ws := update i Stored (ws s); rs := update i (Some (res i)) (rs s) |} else None
  | LDone i => if wst_eqb (wat s i) Stored then Some (setw s i Logged) else None             (* log "done" *)
  | LRelease i => if wst_eqb (wat s i) Logged && (0 <? sem s)                                  (* <-sem *)
                  then Some {| spawned := spawned s; waitc := waitc s; returned := false; sem := sem s - 1;
                               ws := update i Released (ws s); rs := rs s |} else None
  | LWait => if (spawned s =? k) && (waitc s <? limit) && (sem s <? limit)                     (* barrier: sem <- token{} *)
             then Some {| spawned := spawned s; waitc := S (waitc s); returned := false; sem := S (sem s);
                          ws := ws s; rs := rs s |} else None
  | LReturn => if (spawned s =? k) && (waitc s =? limit)
               then Some {| spawned := spawned s; waitc := waitc s; returned := true; sem := sem s;
                            ws := ws s; rs := rs s |} else None
  end.

Definition init : st := {| spawned := 0; waitc := 0; returned := false; sem := 0;
                           ws := repeat NotYet k; rs := repeat None k |}.

Inductive reachable : st -> Prop :=
| r_init : reachable init
| r_step s l s' : reachable s -> step_fn s l = Some s' -> reachable s'.

(* ---------- invariants ---------- *)
Definition isact (w : wst) : nat := match w with Spawned | Started | Stored | Logged => 1 | _ => 0 end.
Definition active (l : list wst) : nat := fold_right (fun w n => isact w + n) 0 l.
Definition hasres (w : wst) : bool := match w with Stored | Logged | Released => true | _ => false end.

Definition Inv (s : st) : Prop :=
  length (ws s) = k /\ length (rs s) = k /\
  sem s = active (ws s) + waitc s /\ sem s <= limit /\ waitc s <= limit /\ spawned s <= k /\
  (waitc s > 0 -> spawned s = k) /\
  (forall i, i < k -> (wat s i = NotYet <-> spawned s <= i)) /\
  (forall i, i < k -> nth i (rs s) None = if hasres (wat s i) then Some (res i) else None) /\
  (returned s = true -> spawned s = k /\ waitc s = limit).
End Par.
