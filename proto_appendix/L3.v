Require Import B D D1.
From Coq Require Import List NArith Lia Bool Arith.
Import ListNotations.

Lemma poison_stmt ts s : Poison ts -> tr_stmt ts s = None \/ exists ts', tr_stmt ts s = Some ts' /\ Poison ts'.
Proof.
  intros HP. unfold tr_stmt. destruct (poison_expr (snd s) ts HP) as [->|(i & ts1 & -> & HP1 & V1)]; [left; reflexivity|].
  destruct (lookup (fst s) (vars ts1)); [left; reflexivity|]. right. eexists. split; [reflexivity|].
  intros extra. apply HP1.
Qed.
Lemma poison_stmts ss : forall ts, Poison ts -> tr_stmts ss ts = None \/ exists ts', tr_stmts ss ts = Some ts' /\ Poison ts'.
Proof.
  induction ss as [|s ss IH]; intros ts HP; simpl; [right; eauto|].
  destruct (poison_stmt ts s HP) as [->|(ts1 & -> & HP1)]; [left; reflexivity|]. apply IH, HP1.
Qed.

Lemma stmt_sim ts vs s : Rel ts vs ->
  match den_stmt (vs, vars ts) s with
  | Some (vs', env') => exists ts', tr_stmt ts s = Some ts' /\ Rel ts' vs' /\ vars ts' = env'
  | None => tr_stmt ts s = None \/ exists ts', tr_stmt ts s = Some ts' /\ Poison ts'
  end.
Proof.
  intros HR. unfold den_stmt, tr_stmt. pose proof (expr_sim (snd s) ts vs HR) as H.
  destruct (den_expr (snd s) vs (vars ts)) as [[i vs']|]; simpl in H.
  - destruct H as (ts1 & -> & HR1 & V1). cbv beta iota.
    destruct ts1 as [n1 v1 e1]. cbn [vars n emitted] in *. subst v1.
    destruct (lookup (fst s) (vars ts)); [left; reflexivity|].
    eexists. split; [reflexivity|]. split; [exact HR1|]. reflexivity.
  - destruct H as [->|(i & ts1 & -> & HP & V1)]; [left; reflexivity|]. cbv beta iota.
    destruct (lookup (fst s) (vars ts1)); [left; reflexivity|]. right. eexists. split; [reflexivity|]. exact HP.
Qed.

Lemma stmts_sim ss : forall ts vs, Rel ts vs ->
  match den_stmts ss (vs, vars ts) with
  | Some (vs', _) => exists ts', tr_stmts ss ts = Some ts' /\ Rel ts' vs'
  | None => tr_stmts ss ts = None \/ exists ts', tr_stmts ss ts = Some ts' /\ Poison ts'
  end.
Proof.
  induction ss as [|s ss IH]; intros ts vs HR; cbn [den_stmts tr_stmts]; [eauto|].
  pose proof (stmt_sim ts vs s HR) as H. destruct (den_stmt (vs, vars ts) s) as [[vs1 env1]|].
  - destruct H as (ts1 & -> & HR1 & <-). apply IH, HR1.
  - destruct H as [->|(ts1 & -> & HP)]; [left; reflexivity|]. apply poison_stmts, HP.
Qed.

(* the two-stage code path (name resolution first, bounds later) accepts exactly the scripts the in-order
   semantics accepts, with the same chain *)
Theorem load_refines ss : load ss = denote ss.
Proof.
  unfold load, denote. assert (HR : Rel tinit [1%N]) by (split; reflexivity).
  pose proof (stmts_sim ss tinit [1%N] HR) as H. change (vars tinit) with (@nil (ident * nat)) in H.
  destruct (den_stmts ss ([1%N], [])) as [[vs env]|].
  - destruct H as (ts & -> & [HRun _]). exact HRun.
  - destruct H as [->|(ts & -> & HP)]; [reflexivity|]. specialize (HP []). now rewrite app_nil_r in HP.
Qed.
Print Assumptions load_refines.
