From Coq Require Import List NArith Lia Bool Arith.
Import ListNotations.
Open Scope N_scope.

(* ---------- model: bigints.MergeUnique and the Bos-Coster loop of heuristic.Algorithm.FindSequence ---------- *)
Fixpoint merge (xs : list N) : list N -> list N :=
  match xs with
  | [] => fun ys => ys
  | x :: xs' =>
    fix aux (ys : list N) : list N :=
      match ys with
      | [] => x :: xs'
      | y :: ys' =>
        match x ?= y with
        | Lt => x :: merge xs' ys
        | Eq => x :: merge xs' ys'
        | Gt => y :: aux ys'
        end
      end
  end.

Section Loop.
Variable suggest : list N -> N -> option (list N).      (* Heuristic.Suggest; None = nil *)

Inductive outcome := OutOfFuel | Failed | Done (c : list N).

Fixpoint loop (fuel : nat) (proto c : list N) : outcome :=
  match fuel with
  | O => OutOfFuel
  | S f =>
    if (length proto <=? 2)%nat then Done c
    else
      let t := last proto 0 in
      let proto' := removelast proto in
      let c' := merge [t] c in                          (* InsertSortedUnique(c, target) *)
      match suggest proto' t with
      | None => Failed
      | Some ins => loop f (merge proto' ins) c'
      end
  end.
End Loop.

(* ---------- sorted distinct lists ---------- *)
Fixpoint sd (l : list N) : Prop :=
  match l with [] => True | x :: t => (forall y, In y t -> x < y) /\ sd t end.

Lemma merge_in xs : forall ys z, In z (merge xs ys) <-> In z xs \/ In z ys.
Proof.
  induction xs as [|x xs IHx]; intros ys z; [simpl; tauto|].
  induction ys as [|y ys IHy]; [simpl; tauto|].
  cbn [merge]. destruct (x ?= y) eqn:E.
  - apply N.compare_eq in E. subst. simpl. rewrite IHx. tauto.
  - simpl. rewrite IHx. simpl. tauto.
  - change (In z (y :: merge (x :: xs) ys) <-> In z (x :: xs) \/ In z (y :: ys)). simpl. rewrite IHy. simpl. tauto.
Qed.

Lemma merge_sd xs : forall ys, sd xs -> sd ys -> sd (merge xs ys).
Proof.
  induction xs as [|x xs IHx]; intros ys Hx Hy; [exact Hy|].
  induction ys as [|y ys IHy]; [exact Hx|].
  destruct Hx as [Hx1 Hx2]. destruct Hy as [Hy1 Hy2].
  cbn [merge]. destruct (x ?= y) eqn:E.
  - apply N.compare_eq in E. subst. split; [|apply IHx; assumption].
    intros z Hz. apply merge_in in Hz as [Hz|Hz]; auto.
  - assert (Elt : x < y) by exact E. split; [|apply IHx; [assumption|split; assumption]].
    intros z Hz. apply merge_in in Hz as [Hz|[Hz|Hz]].
    + now apply Hx1.
    + subst z. exact Elt.
    + specialize (Hy1 z Hz). lia.
  - assert (Egt : y < x) by (apply N.compare_gt_iff; exact E).
    change (sd (y :: merge (x :: xs) ys)). split; [|apply IHy; assumption].
    intros z Hz. apply merge_in in Hz as [[Hz|Hz]|Hz].
    + subst z. exact Egt.
    + specialize (Hx1 z Hz). lia.
    + now apply Hy1.
Qed.

Lemma sd_app_last l t : sd (l ++ [t]) -> sd l /\ forall y, In y l -> y < t.
Proof.
  induction l as [|x l IH]; simpl; [tauto|]. intros [H1 H2]. destruct (IH H2) as [H3 H4]. split.
  - split; [|assumption]. intros y Hy. apply H1. apply in_or_app; auto.
  - intros y [<-|Hy]; [apply H1; apply in_or_app; simpl; auto|auto].
Qed.

(* a sorted distinct list all of whose members lie in [lo, lo+n) has at most n members *)
Lemma sd_count : forall l lo n, sd l -> (forall y, In y l -> lo <= y < lo + N.of_nat n) -> (length l <= n)%nat.
Proof.
  induction l as [|x l IH]; intros lo n Hs Hb; simpl; [lia|].
  destruct Hs as [H1 H2]. destruct n as [|n].
  - specialize (Hb x (or_introl eq_refl)). simpl in Hb. lia.
  - assert (length l <= n)%nat; [|lia]. apply (IH (x + 1) n H2).
    intros y Hy. specialize (H1 y Hy). pose proof (Hb y (or_intror Hy)) as Hby.
    pose proof (Hb x (or_introl eq_refl)) as Hbx. lia.
Qed.
