Require Import O O1.
From Coq Require Import List ZArith Lia Bool Arith.
Import ListNotations.

Section Chain.
Variable c : list Z.
Let n := length c.
Hypothesis Hinj : forall i j, i < n -> j < n -> nz c i = nz c j -> i = j.   (* NoDup c *)
Hypothesis Hvalid : forall k, 1 <= k < n -> exists i j, i <= j < k /\ (nz c i + nz c j = nz c k)%Z.

Lemma in_ops0 k i j : In (i, j) (ops0 c k) <-> i <= j < k /\ (nz c i + nz c j = nz c k)%Z.
Proof.
  unfold ops0. rewrite filter_In, in_pairs_le. unfold sol. simpl. rewrite Z.eqb_eq. tauto.
Qed.
Lemma NoDup_ops0 k : NoDup (ops0 c k).
Proof. apply NoDup_filter, NoDup_pairs_le. Qed.

Lemma uses_spec o k : uses o k = true <-> fst o = k \/ snd o = k.
Proof. unfold uses. rewrite orb_true_iff, !Nat.eqb_eq. tauto. Qed.
Lemma operands_spec o i : In i (operands o) <-> fst o = i \/ snd o = i.
Proof.
  unfold operands. destruct (fst o =? snd o) eqn:E; simpl.
  - apply Nat.eqb_eq in E. rewrite <- E. tauto.
  - tauto.
Qed.

(* at most one op for position l uses index k *)
Lemma uses_unique l k o1 o2 : l < n -> In o1 (ops0 c l) -> In o2 (ops0 c l) ->
  uses o1 k = true -> uses o2 k = true -> o1 = o2.
Proof.
  intros Hl H1 H2 U1 U2. destruct o1 as [i1 j1], o2 as [i2 j2].
  apply in_ops0 in H1 as [B1 S1]. apply in_ops0 in H2 as [B2 S2].
  apply uses_spec in U1. apply uses_spec in U2. simpl in *.
  destruct U1 as [->| ->], U2 as [->| ->].
  - f_equal. apply Hinj; lia.
  - assert (j1 = i2) by (apply Hinj; lia). subst. f_equal; lia.
  - assert (i1 = j2) by (apply Hinj; lia). subst. f_equal; lia.
  - f_equal. apply Hinj; lia.
Qed.

Lemma filter_nonempty {A} (P : A -> bool) (L : list A) :
  NoDup L -> (forall a b, In a L -> In b L -> P a = true -> P b = true -> a = b) ->
  (forall a, L = [a] -> P a = false) -> L <> [] -> filter (fun a => negb (P a)) L <> [].
Proof.
  intros Hnd Hu Hs Hne. destruct L as [|a [|b t]]; [congruence| |].
  - simpl. rewrite (Hs a eq_refl). simpl. congruence.
  - simpl. destruct (P a) eqn:Ea; simpl; [|congruence].
    destruct (P b) eqn:Eb; simpl; [|congruence].
    assert (a = b) by (apply Hu; simpl; auto). subst.
    inversion Hnd as [|? ? Hni _]; subst. exfalso. apply Hni. simpl; auto.
Qed.

Definition filterF (rem : list nat) (os : list op) := filter (fun o => negb (existsb (uses o) rem)) os.
Lemma filterF_snoc rem k os : filter (fun o => negb (uses o k)) (filterF rem os) = filterF (rem ++ [k]) os.
Proof.
  unfold filterF. induction os as [|o os IH]; simpl; [reflexivity|].
  rewrite existsb_app. simpl. rewrite orb_false_r.
  destruct (existsb (uses o) rem) eqn:E; simpl.
  - exact IH.
  - destruct (uses o k); simpl; [exact IH| now rewrite IH].
Qed.
Lemma filterF_nouse rem k l : l <= k -> filterF (rem ++ [k]) (ops0 c l) = filterF rem (ops0 c l).
Proof.
  intros Hl. unfold filterF. apply filter_ext_in. intros [i j] Hin. apply in_ops0 in Hin as [B _].
  rewrite existsb_app. simpl. unfold uses at 2. simpl.
  replace (i =? k) with false by (symmetry; apply Nat.eqb_neq; lia).
  replace (j =? k) with false by (symmetry; apply Nat.eqb_neq; lia).
  simpl. now rewrite orb_false_r.
Qed.
Lemma in_filterF rem os o : In o (filterF rem os) <-> In o os /\ forall r, In r rem -> uses o r = false.
Proof.
  unfold filterF. rewrite filter_In, negb_true_iff. split; intros [H1 H2]; split; auto.
  - intros r Hr. destruct (uses o r) eqn:E; [|reflexivity].
    assert (existsb (uses o) rem = true) by (apply existsb_exists; eauto). congruence.
  - destruct (existsb (uses o) rem) eqn:E; [|reflexivity].
    apply existsb_exists in E as (r & Hr & U). rewrite H2 in U by assumption. discriminate.
Qed.

(* ---------- invariants ---------- *)
Definition tbl_at (tbl : list (list op)) l := nth l tbl [].
Definition cs_ok (tbl : list (list op)) (cs : list nat) :=
  length cs = n /\ forall l o, l < n -> tbl_at tbl l = [o] -> forall i, In i (operands o) -> 0 < nth i cs 0.
Definition nonempty (tbl : list (list op)) := forall l, 1 <= l < n -> tbl_at tbl l <> [].
(* inner invariant: positions in (k, m) already pruned by k *)
Definition J (rem : list nat) (k m : nat) (st : list (list op) * list nat) :=
  let '(tbl, cs) := st in
  length tbl = n /\
  (forall l, l < n -> tbl_at tbl l = if (k <? l) && (l <? m) then filterF (rem ++ [k]) (ops0 c l) else filterF rem (ops0 c l)) /\
  cs_ok tbl cs /\ nonempty tbl /\ nth k cs 0 = 0.

Lemma ops_in_range (tbl : list (list op)) rem l o i : l < n ->
  (In o (filterF rem (ops0 c l)) \/ In o (ops0 c l)) -> In i (operands o) -> i < l.
Proof.
  intros Hl Hin Hi. assert (Ho : In o (ops0 c l)) by (destruct Hin as [H|H]; [apply in_filterF in H; tauto|assumption]).
  destruct o as [a b]. apply in_ops0 in Ho as [B _]. apply operands_spec in Hi. simpl in Hi. lia.
Qed.

Lemma inner_step rem k m st : k < m -> m < n -> J rem k m st -> J rem k (S m) (prune_step k st m).
Proof.
  intros Hkm Hmn. destruct st as [tbl cs]. intros (Hlen & Htbl & (Hcl & Hcs) & Hne & Hk0).
  unfold prune_step.
  assert (Eold : tbl_at tbl m = filterF rem (ops0 c m)).
  { rewrite Htbl by assumption. replace (m <? m) with false by (symmetry; apply Nat.ltb_ge; lia).
    now rewrite andb_false_r. }
  fold (tbl_at tbl m). set (ol := filter (fun o => negb (uses o k)) (tbl_at tbl m)).
  assert (Enew : ol = filterF (rem ++ [k]) (ops0 c m)) by (unfold ol; rewrite Eold; apply filterF_snoc).
  assert (Hol_ne : ol <> []).
  { unfold ol. apply filter_nonempty.
    - rewrite Eold. apply NoDup_filter, NoDup_ops0.
    - intros a b Ha Hb. rewrite Eold in Ha, Hb. apply in_filterF in Ha as [Ha _]. apply in_filterF in Hb as [Hb _].
      now apply uses_unique with (l := m).
    - intros a Ea. destruct (uses a k) eqn:U; [|reflexivity]. exfalso.
      assert (0 < nth k cs 0); [|lia].
      apply (Hcs m a Hmn Ea). apply operands_spec. now apply uses_spec.
    - apply Hne. lia. }
  set (cs' := match ol with [o] => bump_all cs (operands o) | _ => cs end).
  assert (Hcs'len : length cs' = n).
  { unfold cs'. destruct ol as [|o [|? ?]]; auto. now rewrite bump_all_length. }
  assert (Hmono : forall j, nth j cs 0 <= nth j cs' 0).
  { intros j. unfold cs'. destruct ol as [|o [|? ?]]; auto. apply bump_all_mono. }
  assert (Hat : forall l, tbl_at (update m ol tbl) l = if l =? m then ol else tbl_at tbl l).
  { intros l. unfold tbl_at. destruct (l =? m) eqn:E.
    - apply Nat.eqb_eq in E. subst. apply nth_update_eq. lia.
    - apply Nat.eqb_neq in E. apply nth_update_neq. lia. }
  repeat split.
  - now rewrite update_length.
  - intros l Hl. rewrite Hat. destruct (l =? m) eqn:E.
    + apply Nat.eqb_eq in E. subst l.
      replace (k <? m) with true by (symmetry; apply Nat.ltb_lt; lia).
      replace (m <? S m) with true by (symmetry; apply Nat.ltb_lt; lia). exact Enew.
    + apply Nat.eqb_neq in E. rewrite Htbl by assumption.
      replace (l <? S m) with (l <? m); [reflexivity|].
      destruct (l <? m) eqn:E1; symmetry; [apply Nat.ltb_lt in E1; apply Nat.ltb_lt; lia|apply Nat.ltb_ge in E1; apply Nat.ltb_ge; lia].
  - exact Hcs'len.
  - intros l o Hl Eo i Hi. rewrite Hat in Eo. destruct (l =? m) eqn:E.
    + apply Nat.eqb_eq in E. subst l. unfold cs'. rewrite Eo. apply bump_all_pos; [assumption|].
      rewrite Hcl. assert (i < m); [|lia].
      apply (ops_in_range tbl (rem ++ [k]) m o i Hmn); [|assumption]. left. rewrite <- Enew, Eo. simpl; auto.
    + eapply Nat.lt_le_trans; [apply (Hcs l o Hl Eo i Hi)|apply Hmono].
  - intros l Hl. rewrite Hat. destruct (l =? m); [assumption|now apply Hne].
  - unfold cs'. destruct ol as [|o [|? ?]] eqn:Eol; auto.
    rewrite bump_all_other; [assumption|].
    intros Hin. apply operands_spec, uses_spec in Hin.
    assert (Ho : In o (filterF (rem ++ [k]) (ops0 c m))) by (rewrite <- Enew; simpl; auto).
    apply in_filterF in Ho as [_ Ho]. rewrite Ho in Hin; [discriminate|]. apply in_or_app. simpl; auto.
Qed.

Lemma inner_loop rem k : forall cnt m st, k < m -> m + cnt = n -> J rem k m st ->
  J rem k n (fold_left (prune_step k) (seq m cnt) st).
Proof.
  induction cnt as [|cnt IH]; intros m st Hkm Hsum HJ; simpl.
  - replace n with m by lia. exact HJ.
  - apply IH; [lia|lia|]. apply inner_step; auto; lia.
Qed.
End Chain.
