Require Import H F F1 F2.
From Coq Require Import List NArith Lia Bool Arith.
Import ListNotations.
Open Scope N_scope.

Lemma lastn_insert x : forall l, nd l -> l <> [] -> x <= lastn l -> lastn (insert_su x l) = lastn l.
Proof.
  unfold lastn. induction l as [|y t IH]; intros Hn Hne Hx; [congruence|]. destruct Hn as [H1 H2]. cbn [insert_su].
  destruct (x ?= y) eqn:E; [reflexivity|reflexivity|].
  assert (Hyx : y < x) by (apply N.compare_gt_iff; exact E).
  destruct t as [|z t']; [simpl in Hx; lia|].
  change (last (y :: z :: t') 0) with (last (z :: t') 0) in *.
  specialize (IH H2 ltac:(discriminate) Hx).
  destruct (insert_su x (z :: t')) as [|w l'] eqn:Ei.
  - exfalso. assert (In x (insert_su x (z :: t'))) by (apply in_insert; auto). rewrite Ei in H. destruct H.
  - change (last (y :: w :: l') 0) with (last (w :: l') 0). exact IH.
Qed.

Lemma CL_123 : CL [1; 2; 3].
Proof.
  split; [|split; [|split]].
  - simpl. repeat split; intros y Hy; simpl in Hy; intuition; subst; lia.
  - simpl; auto.
  - intros x Hx. simpl in Hx. intuition; subst; lia.
  - intros x Hx. simpl in Hx. destruct Hx as [<-|[<-|[<-|[]]]]; [left; reflexivity| |]; right.
    + exists 1, 1. simpl. intuition.
    + exists 1, 2. simpl. intuition.
Qed.

Section Main.
Variable K : N -> list N.
Hypothesis goodK : forall n k, In k (K n) -> 2 <= k < n.     (* what every Strategy.K must satisfy *)

Definition pre (ns : list N) := ns <> [] /\ nd ns /\ forall x, In x ns -> 1 <= x.

Theorem cf_ok : forall fuel arg c, cf K fuel arg = Some c ->
  match arg with inl ns => pre ns -> Good c ns | inr n => 1 <= n -> Good c [n] end.
Proof.
  induction fuel as [|f IH]; intros arg c Hrun; [discriminate|]. cbn [cf] in Hrun. destruct arg as [ns|n].
  - (* chain(ns) *)
    intros (Hne & Hnd & Hge).
    assert (Ens : ns = rev (rev ns)) by (symmetry; apply rev_involutive).
    destruct (rev ns) as [|n [|m rr]] eqn:Er.
    + discriminate.
    + simpl in Ens. subst ns. specialize (IH (inr n) c Hrun). apply IH. apply Hge. simpl; auto.
    + cbn [rev] in Ens. set (rem := rev rr ++ [m]) in *.
      assert (Hns : ns = rem ++ [n]) by exact Ens.
      assert (Hlast : lastn ns = n) by (rewrite Hns; apply lastn_app).
      rewrite Hns in Hnd. apply nd_app_inv in Hnd as (Hndr & _ & Hrn).
      assert (Hlr : lastn rem = m) by (unfold rem; apply lastn_app).
      assert (Hrem_ne : rem <> []) by (unfold rem; intros E; apply app_eq_nil in E as [_ E]; discriminate).
      assert (Hmn : m <= n) by (apply Hrn; [unfold rem; apply in_or_app; simpl; auto|simpl; auto]).
      assert (Hrem_le : forall t, In t rem -> t <= m) by (intros t Ht; rewrite <- Hlr; now apply nd_last_max).
      assert (Hrem_ge : forall t, In t rem -> 1 <= t) by (intros t Ht; apply Hge; rewrite Hns; apply in_or_app; auto).
      assert (Hn1 : 1 <= n) by (apply Hge; rewrite Hns; apply in_or_app; simpl; auto).
      destruct (m <=? 1) eqn:Em.
      * apply N.leb_le in Em. destruct (IH (inr n) c Hrun Hn1) as (HCL & Hl & Hc).
        split; [exact HCL|]. split; [rewrite Hlast; exact Hl|].
        intros t Ht. rewrite Hns in Ht. apply in_app_or in Ht as [Ht|[<-|[]]]; [|apply Hc; simpl; auto].
        assert (Et : t = 1) by (specialize (Hrem_le t Ht); specialize (Hrem_ge t Ht); lia). rewrite Et. apply HCL.
      * apply N.leb_gt in Em.
        change (rev (m :: rr)) with rem in Hrun.
        destruct (cf K f (inr (n / m))) as [cq|] eqn:Eq; [|discriminate].
        assert (Hq1 : 1 <= n / m) by (apply N.div_le_lower_bound; lia).
        destruct (IH (inr (n / m)) cq Eq Hq1) as (HCLq & Hlq & _). change (lastn [n / m]) with (n / m) in Hlq.
        pose proof (N.div_mod n m ltac:(lia)) as Hdm. pose proof (N.mod_lt n m ltac:(lia)) as Hml.
        destruct (n mod m =? 0) eqn:Ez.
        -- apply N.eqb_eq in Ez. destruct (cf K f (inl rem)) as [c0|] eqn:E0; [|discriminate]. injection Hrun as <-.
           destruct (IH (inl rem) c0 E0 (conj Hrem_ne (conj Hndr Hrem_ge))) as (HCL0 & Hl0 & Hc0).
           destruct (product_ok c0 cq HCL0 HCLq) as (HCLp & Hlp & Hsub).
           assert (Hlpn : lastn (product c0 cq) = n) by (rewrite Hlp, Hl0, Hlr, Hlq; lia).
           split; [exact HCLp|]. split; [now rewrite Hlast|].
           intros t Ht. rewrite Hns in Ht. apply in_app_or in Ht as [Ht|[<-|[]]]; [apply Hsub, Hc0, Ht|].
           rewrite <- Hlpn. apply last_in, CL_nonempty, HCLp.
        -- apply N.eqb_neq in Ez. set (r := n mod m) in *.
           destruct (cf K f (inl (insert_su r rem))) as [c0|] eqn:E0; [|discriminate]. injection Hrun as <-.
           assert (Hpre' : pre (insert_su r rem)).
           { split; [|split].
             - intros E. assert (In r (insert_su r rem)) by (apply in_insert; auto). rewrite E in H. destruct H.
             - now apply nd_insert.
             - intros x Hx. apply in_insert in Hx as [->|Hx]; [lia|auto]. }
           destruct (IH (inl (insert_su r rem)) c0 E0 Hpre') as (HCL0 & Hl0 & Hc0).
           rewrite lastn_insert in Hl0 by (auto; lia). rewrite Hlr in Hl0.
           destruct (product_ok c0 cq HCL0 HCLq) as (HCLp & Hlp & Hsub).
           assert (Hr_in : In r (product c0 cq)) by (apply Hsub, Hc0, in_insert; auto).
           destruct (plus_ok (product c0 cq) r HCLp Hr_in) as (HCLs & Hls & Hsub2).
           assert (Hlsn : lastn (plus (product c0 cq) r) = n) by (rewrite Hls, Hlp, Hl0, Hlq; lia).
           split; [exact HCLs|]. split; [now rewrite Hlast|].
           intros t Ht. rewrite Hns in Ht. apply in_app_or in Ht as [Ht|[<-|[]]].
           ++ apply Hsub2, Hsub, Hc0, in_insert. auto.
           ++ rewrite <- Hlsn. apply last_in, CL_nonempty, HCLs.
  - (* minchain(n) *)
    intros Hn1. destruct (is_pow2 n) eqn:Ep.
    + injection Hrun as <-. unfold is_pow2 in Ep. apply andb_true_iff in Ep as [Ep _]. apply N.eqb_eq in Ep.
      set (e := N.to_nat (N.log2 n)). assert (En : n = 2 ^ N.of_nat e) by (unfold e; rewrite N2Nat.id; exact Ep).
      pose proof (pow2upto_spec e (S e) 0 ltac:(lia) ltac:(lia)) as Hp. rewrite Nat.sub_0_r in Hp.
      change (2 ^ N.of_nat 0) with 1 in Hp. rewrite <- En in Hp. change (Good (pow2upto (S e) 1 n) [n]). rewrite Hp.
      destruct (pows_CL e) as [HCL Hl]. split; [exact HCL|]. split; [rewrite Hl; symmetry; exact En|].
      intros t [<-|[]]. rewrite En, <- Hl. apply last_in, CL_nonempty, HCL.
    + destruct (n =? 3) eqn:E3.
      * apply N.eqb_eq in E3. subst n. injection Hrun as <-. split; [exact CL_123|]. split; [reflexivity|].
        intros t [<-|[]]. simpl; auto.
      * destruct (all_some (map (fun k => cf K f (inl [k; n])) (K n))) as [cs|] eqn:Ea; [|discriminate].
        apply shortest_in in Hrun as [Hin|Hb]; [|discriminate].
        pose proof (all_some_in _ cs Ea c Hin) as Hin'. apply in_map_iff in Hin' as (k & Ek & HkK).
        destruct (goodK n k HkK) as [Hk2 Hkn].
        assert (Hp : pre [k; n]).
        { split; [discriminate|]. split.
          - simpl. repeat split; intros y Hy; simpl in Hy; intuition; subst; lia.
          - intros x [<-|[<-|[]]]; lia. }
        destruct (IH (inl [k; n]) c Ek Hp) as (HCL & Hl & Hc).
        split; [exact HCL|]. split; [exact Hl|]. intros t [<-|[]]. apply Hc. simpl; auto.
Qed.
End Main.
Print Assumptions cf_ok.
