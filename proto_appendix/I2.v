Require Import H.
From Coq Require Import List NArith Lia Bool Arith.
Import ListNotations.
Open Scope N_scope.

Definition U (proto c : list N) (z : N) := In z proto \/ In z c.

Section Framework.
Variable suggest : list N -> N -> option (list N).
(* what every heuristic must guarantee whenever it answers (Halving, DeltaLargest, Approximation, UseFirst) *)
Hypothesis good_suggest : forall f t ins, sd f -> In 1 f -> In 2 f -> (forall y, In y f -> y < t) ->
  suggest f t = Some ins ->
  sd ins /\ (forall x, In x ins -> 1 <= x < t) /\
  exists u v, (In u f \/ In u ins) /\ (In v f \/ In v ins) /\ u + v = t.
Variable T : list N.    (* the caller's targets *)

Definition Inv (proto c : list N) : Prop :=
  sd proto /\ In 1 proto /\ In 2 proto /\ (forall y, In y proto -> 1 <= y) /\
  sd c /\ (forall x y, In x c -> In y proto -> y < x) /\
  (forall x, In x c -> exists u v, U proto c u /\ U proto c v /\ u + v = x) /\
  (forall z, In z T -> U proto c z).

Definition chain_like (l : list N) : Prop :=
  sd l /\ In 1 l /\ (forall x, In x l -> 1 <= x) /\
  (forall x, In x l -> x = 1 \/ exists u v, In u l /\ In v l /\ u + v = x) /\
  (forall z, In z T -> In z l).

Lemma short_proto proto : sd proto -> In 1 proto -> In 2 proto -> (length proto <= 2)%nat -> proto = [1; 2].
Proof.
  intros Hs H1 H2 Hl. destruct proto as [|a [|b [|? ?]]]; simpl in Hl; try lia.
  - destruct H1.
  - simpl in H1, H2. destruct H1 as [->|[]]. destruct H2 as [E|[]]. discriminate E.
  - simpl in Hs, H1, H2. destruct Hs as [Hab _]. specialize (Hab b (or_introl eq_refl)).
    destruct H1 as [E1|[E1|[]]]; destruct H2 as [E2|[E2|[]]]; subst; try reflexivity; try lia; try discriminate.
Qed.

Theorem loop_ok : forall fuel proto c cf, Inv proto c -> loop suggest fuel proto c = Done cf -> chain_like (merge [1; 2] cf).
Proof.
  induction fuel as [|fuel IH]; intros proto c cf HI Hrun; [discriminate|].
  cbn [loop] in Hrun. destruct HI as (Hsp & H1 & H2 & Hge & Hsc & Hlt & Hex & HT).
  destruct (length proto <=? 2)%nat eqn:El.
  - (* only {1,2} left *)
    apply Nat.leb_le in El. injection Hrun as <-. rewrite (short_proto proto Hsp H1 H2 El) in *.
    assert (Hin : forall z, In z (merge [1; 2] c) <-> U [1; 2] c z) by (intros z; apply merge_in).
    split; [apply merge_sd; [simpl; split; [intros y [<-|[]]; lia|split; [intros y []|exact I]]|assumption]|].
    split; [apply Hin; left; simpl; auto|]. split; [|split].
    + intros x Hx. apply Hin in Hx as [Hx|Hx]; [apply Hge; assumption|].
      specialize (Hlt x 1 Hx (or_introl eq_refl)). lia.
    + intros x Hx. apply Hin in Hx as [[<-|[<-|[]]]|Hx].
      * left; reflexivity.
      * right. exists 1, 1. repeat split; try (apply Hin; left; simpl; auto). 
      * right. destruct (Hex x Hx) as (u & v & Hu & Hv & E). exists u, v. repeat split; auto; now apply Hin.
    + intros z Hz. apply Hin. now apply HT.
  - apply Nat.leb_gt in El.
    assert (Hne : proto <> []) by (destruct proto; simpl in *; [lia|discriminate]).
    set (t := last proto 0) in *. set (proto' := removelast proto) in *.
    assert (Esplit : proto = proto' ++ [t]) by (apply app_removelast_last; assumption).
    assert (Hsp' : sd proto' /\ forall y, In y proto' -> y < t) by (apply sd_app_last; rewrite <- Esplit; assumption).
    destruct Hsp' as [Hsp' Hmax].
    assert (Hint : In t proto) by (rewrite Esplit; apply in_or_app; simpl; auto).
    assert (Hsub : forall y, In y proto' -> In y proto) by (intros y Hy; rewrite Esplit; apply in_or_app; auto).
    assert (Ht3 : 2 < t).
    { destruct (N.lt_ge_cases 2 t) as [|Hle]; [assumption|]. exfalso.
      assert (length proto <= 2)%nat; [|lia]. apply (sd_count proto 1 2 Hsp).
      intros y Hy. split; [now apply Hge|]. rewrite Esplit in Hy. apply in_app_or in Hy as [Hy|[<-|[]]].
      - specialize (Hmax y Hy). simpl. lia.
      - simpl. lia. }
    assert (H1' : In 1 proto').
    { rewrite Esplit in H1. apply in_app_or in H1 as [?|[E|[]]]; [assumption|lia]. }
    assert (H2' : In 2 proto').
    { rewrite Esplit in H2. apply in_app_or in H2 as [?|[E|[]]]; [assumption|lia]. }
    destruct (suggest proto' t) as [ins|] eqn:Es; [|discriminate].
    destruct (good_suggest proto' t ins Hsp' H1' H2' Hmax Es) as (Hsi & Hbi & u & v & Hu & Hv & Euv).
    refine (IH _ _ _ _ Hrun). clear IH Hrun.
    assert (Hp'' : forall z, In z (merge proto' ins) <-> In z proto' \/ In z ins) by (intros; apply merge_in).
    assert (Hc' : forall z, In z (merge [t] c) <-> z = t \/ In z c).
    { intros z. rewrite merge_in. simpl. split; [intros [[<-|[]]|H]; auto|intros [->|H]; auto]. }
    assert (Hmove : forall z, U proto c z -> U (merge proto' ins) (merge [t] c) z).
    { intros z [Hz|Hz].
      - rewrite Esplit in Hz. apply in_app_or in Hz as [Hz|[<-|[]]].
        + left. apply Hp''. auto.
        + right. apply Hc'. auto.
      - right. apply Hc'. auto. }
    split; [apply merge_sd; assumption|]. split; [apply Hp''; auto|]. split; [apply Hp''; auto|].
    split; [|split; [|split; [|split]]].
    + intros y Hy. apply Hp'' in Hy as [Hy|Hy]; [apply Hge, Hsub, Hy|apply Hbi, Hy].
    + apply merge_sd; [simpl; split; [intros y []|exact I]|assumption].
    + intros x y Hx Hy. apply Hc' in Hx. apply Hp'' in Hy.
      destruct Hx as [->|Hx].
      * destruct Hy as [Hy|Hy]; [now apply Hmax|now apply Hbi].
      * destruct Hy as [Hy|Hy]; [apply Hlt; auto|]. specialize (Hlt x t Hx Hint). specialize (Hbi y Hy). lia.
    + intros x Hx. apply Hc' in Hx as [->|Hx].
      * exists u, v. repeat split; auto; left; apply Hp''; assumption.
      * destruct (Hex x Hx) as (a & b & Ha & Hb & E). exists a, b. repeat split; auto.
    + intros z Hz. apply Hmove. now apply HT.
Qed.
End Framework.
Print Assumptions loop_ok.
