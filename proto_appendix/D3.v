Require Import A A1.
From Coq Require Import List Lia Bool Arith.
Import ListNotations.

Ltac ext H := match type of H with GInv ?s ?d ?a => apply (GInv_ext s d _ _ a); [| |exact H] end.

Definition stable (a a' : alloc) := forall k v, lookup k (var a) = Some v -> lookup k (var a') = Some v.
Lemma stable_refl a : stable a a. Proof. intros k v H; exact H. Qed.
Lemma stable_trans a b c : stable a b -> stable b c -> stable a c.
Proof. intros H1 H2 k v H. apply H2, H1, H. Qed.

Lemma allocate_any S D a i : GInv S D a -> ~ D i ->
  GInv (fun k => S k \/ k = i) D (allocate a i) /\ stable a (allocate a i).
Proof.
  intros HG HnD. destruct (lookup i (var a)) eqn:E.
  - rewrite allocate_old by congruence. split; [|apply stable_refl].
    assert (HS : S i). { destruct HG as (H1 & _). assert (lookup i (var a) <> None) by congruence. apply H1 in H. tauto. }
    ext HG; intros k; [|tauto]. split; [auto|]. intros [H| ->]; auto.
  - apply allocate_new; auto. destruct HG as (H1 & _). intros HS.
    assert (lookup i (var a) <> None) by (apply H1; auto). congruence.
Qed.

Lemma allocate_list xs : forall S D a, GInv S D a -> (forall x, In x xs -> ~ D x) ->
  GInv (fun k => S k \/ In k xs) D (fold_left allocate xs a) /\ stable a (fold_left allocate xs a).
Proof.
  induction xs as [|x xs IH]; intros S D a HG HD; simpl.
  - split; [|apply stable_refl]. ext HG; intros k; simpl; tauto.
  - destruct (allocate_any S D a x HG (HD x (or_introl eq_refl))) as [HG1 Hs1].
    destruct (IH _ D _ HG1 (fun y Hy => HD y (or_intror Hy))) as [HG2 Hs2].
    split; [|eapply stable_trans; eauto].
    ext HG2; intros k; simpl; [|tauto].
    split; intros H; [destruct H as [[H| ->]|H]; auto | destruct H as [H|[<-|H]]; auto].
Qed.

Lemma step_inv S D a o xs : GInv S D a -> ~ D o -> (forall x, In x xs -> ~ D x /\ x <> o) ->
  GInv (fun k => (S k /\ k <> o) \/ In k xs) (fun k => D k \/ k = o) (step a {| out := o; ins := xs |}) /\
  stable a (step a {| out := o; ins := xs |}).
Proof.
  intros HG HnD Hxs. unfold step. cbn [out ins].
  destruct (allocate_any S D a o HG HnD) as [HG1 Hs1].
  set (a1 := allocate a o) in *.
  destruct (lookup o (var a1)) as [v|] eqn:Ev.
  - pose proof (free_inv _ D a1 o v HG1 (or_intror eq_refl) Ev) as HG2.
    destruct (allocate_list xs _ _ (free a1 v) HG2) as [HG3 Hs3].
    { intros x Hx [Hd|Heq]; destruct (Hxs x Hx); auto. }
    split.
    + ext HG3; intros k; [|tauto]. cbn beta. split.
      * intros [[[H| ->] Hne]|H]; auto; congruence.
      * intros [[H Hne]|H]; auto.
    + eapply stable_trans; [exact Hs1|]. exact Hs3.
  - exfalso. destruct HG1 as (H1 & _). assert (lookup o (var a1) <> None) by (apply H1; auto). congruence.
Qed.

Lemma wf_app pre q : wf (pre ++ q) -> wf q.
Proof. induction pre as [|i pre IH]; simpl; [auto|]. intros (_ & _ & H). auto. Qed.

Theorem scan_inv p : wf p -> GInv (L p) (fun k => In k (outs p)) (scanr p).
Proof.
  induction p as [|i rest IH]; intros Hw.
  - unfold GInv, L. simpl. split; [|split; [|split; [|split]]].
    + intros k. split; [congruence|intros [[[] _]|[]]].
    + intros i j vi vj [[] _].
    + constructor.
    + intros v k [].
    + intros v. split; [lia|intros [[]|(k & [[] _] & _)]].
  - destruct Hw as (Hno & Hins & Hw). specialize (IH Hw). cbn [scanr].
    destruct i as [o xs]. cbn [out ins] in *.
    destruct (step_inv _ _ (scanr rest) o xs IH Hno) as [HG _].
    { intros x Hx. specialize (Hins x Hx). simpl in Hins. split; [tauto|]. intros ->. tauto. }
    ext HG; intros k; cbn beta; unfold L, reads, outs; cbn [flat_map map ins out].
    + rewrite in_app_iff. split.
      * intros [[[Hr Hn] Hne]|H].
        -- split; [auto|]. simpl. intros [E|E]; [congruence|tauto].
        -- split; [auto|]. apply Hins. exact H.
      * intros [[H|H] Hn]; [auto|]. simpl in Hn. left. repeat split; auto; try tauto; try (intros ->; tauto).
    + simpl. split; intros [H|H]; auto.
Qed.

Lemma allocate_stable a i : stable a (allocate a i).
Proof.
  unfold allocate. destruct (lookup i (var a)) eqn:E; [apply stable_refl|].
  intros k v H. assert (i <> k) by (intros ->; congruence).
  destruct (avail a); cbn [var]; rewrite lookup_cons_neq; assumption.
Qed.
Lemma allocate_list_stable xs : forall b, stable b (fold_left allocate xs b).
Proof.
  induction xs as [|x xs IH]; intros b; simpl; [apply stable_refl|].
  eapply stable_trans; [apply allocate_stable|apply IH].
Qed.
Lemma step_stable a i : stable a (step a i).
Proof.
  unfold step. eapply stable_trans; [apply allocate_stable|].
  eapply stable_trans; [|apply allocate_list_stable].
  destruct (lookup (out i) (var (allocate a (out i)))); intros ? ? Hx; exact Hx.
Qed.
Lemma scan_stable pre q : stable (scanr q) (scanr (pre ++ q)).
Proof.
  induction pre as [|i pre IH]; simpl; [apply stable_refl|].
  eapply stable_trans; [exact IH|apply step_stable].
Qed.

(* allocation soundness: two distinct values live before the same instruction never share a variable *)
Theorem alloc_sound pre q i j : wf (pre ++ q) -> L q i -> L q j -> i <> j ->
  exists vi vj, lookup i (var (scanr (pre ++ q))) = Some vi /\ lookup j (var (scanr (pre ++ q))) = Some vj /\ vi <> vj.
Proof.
  intros Hw Hi Hj Hne. pose proof (scan_inv q (wf_app _ _ Hw)) as (H1 & H2 & _).
  destruct (lookup i (var (scanr q))) as [vi|] eqn:Ei; [|exfalso; apply (proj2 (H1 i)); auto].
  destruct (lookup j (var (scanr q))) as [vj|] eqn:Ej; [|exfalso; apply (proj2 (H1 j)); auto].
  exists vi, vj. repeat split; try (apply scan_stable; assumption).
  exact (H2 i j vi vj Hi Hj Hne Ei Ej).
Qed.
Print Assumptions alloc_sound.

(* every variable ever created is, at the moment of creation, needed: all are held or free *)
Corollary vars_accounted p : wf p -> forall v, v < nvars (scanr p) <->
  In v (avail (scanr p)) \/ exists k, L p k /\ lookup k (var (scanr p)) = Some v.
Proof. intros Hw. exact (proj2 (proj2 (proj2 (proj2 (scan_inv p Hw))))). Qed.
