Require Import B.
From Coq Require Import List Lia Bool Arith.
Import ListNotations.

Definition width (o : iop) : nat := match o with IShl _ s => s | _ => 1 end.
(* outputs follow Translate's running counter *)
Fixpoint wfrom (m : nat) (is : list inst) : Prop :=
  match is with
  | [] => True
  | i :: r => 1 <= width (op i) /\ out i = m + width (op i) - 1 /\ wfrom (m + width (op i)) r
  end.
Fixpoint nafter (m : nat) (is : list inst) : nat :=
  match is with [] => m | i :: r => nafter (m + width (op i)) r end.

Lemma nafter_app m a b : nafter m (a ++ b) = nafter (nafter m a) b.
Proof. revert m; induction a as [|i a IH]; intros m; simpl; auto. Qed.
Lemma wfrom_app m a b : wfrom m (a ++ b) <-> wfrom m a /\ wfrom (nafter m a) b.
Proof. revert m; induction a as [|i a IH]; intros m; simpl; [tauto|]. rewrite IH. tauto. Qed.

Lemma canon_comm x y : canon (IAdd x y) = canon (IAdd y x).
Proof.
  unfold canon. destruct (y <? x) eqn:E1; destruct (x <? y) eqn:E2; auto.
  - apply Nat.ltb_lt in E1, E2. lia.
  - apply Nat.ltb_ge in E1, E2. assert (x = y) by lia. now subst.
Qed.

Definition atom_ok (vs : list (ident * nat)) (x : nat) (e : expr) : Prop :=
  match e with Lit i => i = x | Id s => lookup s vs = Some x | _ => False end.
Lemma tr_atom e x st : atom_ok (vars st) x e -> tr_expr e st = Some (x, st) /\ isop e = false.
Proof. destruct e; simpl; intros H; try contradiction; [subst; auto|rewrite H; auto]. Qed.

Lemma tr_stmts_app a b st : tr_stmts (a ++ b) st = match tr_stmts a st with Some st1 => tr_stmts b st1 | None => None end.
Proof. revert st; induction a as [|s a IH]; intros st; simpl; [reflexivity|]. destruct (tr_stmt st s); auto. Qed.

(* translating an expression never touches the variable table and only appends instructions *)
Lemma tr_expr_vars e : forall st x st', tr_expr e st = Some (x, st') -> vars st' = vars st.
Proof.
  induction e as [i|s|a IHa b IHb|a IHa|a IHa s]; intros st x st' H; simpl in H.
  - now inversion H.
  - destruct (lookup s (vars st)); inversion H; auto.
  - destruct (tr_expr a st) as [[ia st1]|] eqn:Ea; [|discriminate].
    destruct (tr_expr b st1) as [[ib st2]|] eqn:Eb; [|discriminate]. inversion H; subst. simpl.
    rewrite (IHb _ _ _ Eb). apply (IHa _ _ _ Ea).
  - destruct (tr_expr a st) as [[ia st1]|] eqn:Ea; [|discriminate]. inversion H; subst. simpl. apply (IHa _ _ _ Ea).
  - destruct (tr_expr a st) as [[ia st1]|] eqn:Ea; [|discriminate]. inversion H; subst. simpl. apply (IHa _ _ _ Ea).
Qed.
