From Coq Require Import List NArith Lia Bool Arith.
Import ListNotations.
Open Scope N_scope.

(* ---------- model of dict.SlidingWindow.Decompose ---------- *)
Definition pow2 (n : nat) : N := 2 ^ N.of_nat n.
Definition bit (x : N) (i : nat) : bool := N.testbit x (N.of_nat i).
Definition extract (x : N) (l h : nat) : N := (x / pow2 l) mod pow2 (h - l).     (* bigint.Extract(x, l, h) *)
Record term := { D : N; E : nat }.
Definition tval (t : term) : N := D t * pow2 (E t).
Definition tsum (ts : list term) : N := fold_right (fun t s => tval t + s) 0 ts.

(* "for x.Bit(l) == 0 { l++ }" with at most n steps *)
Fixpoint scan_up (x : N) (l n : nat) : nat :=
  match n with O => l | S n' => if bit x l then l else scan_up x (S l) n' end.

(* top = h+1 bits remain to be looked at; terms are produced from the top (decreasing E) *)
Fixpoint sw (fuel : nat) (x : N) (K top : nat) : list term :=
  match fuel, top with
  | O, _ | _, O => []
  | S f, S h =>
    if bit x h then
      let l := scan_up x (top - K) (h - (top - K)) in
      {| D := extract x l top; E := l |} :: sw f x K l
    else sw f x K h
  end.
Definition sliding_window (x : N) (K : nat) : list term := sw (N.to_nat (N.size x)) x K (N.to_nat (N.size x)).

Eval vm_compute in map (fun t => (D t, E t)) (sliding_window 5745 3).

(* ---------- proofs ---------- *)
Lemma pow2_pos n : pow2 n <> 0. Proof. unfold pow2. apply N.pow_nonzero. lia. Qed.
Lemma pow2_add a b : pow2 (a + b) = pow2 a * pow2 b.
Proof. unfold pow2. rewrite Nat2N.inj_add. apply N.pow_add_r. Qed.
Lemma pow2_S n : pow2 (S n) = 2 * pow2 n.
Proof. unfold pow2. rewrite Nat2N.inj_succ. apply N.pow_succ_r'. Qed.

Lemma split_mod x l top : (l <= top)%nat -> x mod pow2 top = extract x l top * pow2 l + x mod pow2 l.
Proof.
  intros H. unfold extract. replace top with (l + (top - l))%nat at 1 by lia.
  rewrite pow2_add. rewrite N.mod_mul_r by apply pow2_pos. lia.
Qed.

Lemma bit_spec x h : N.b2n (bit x h) = (x / pow2 h) mod 2.
Proof. unfold bit, pow2. apply N.testbit_spec'. Qed.

Lemma mod_drop_zero_bit x h : bit x h = false -> x mod pow2 (S h) = x mod pow2 h.
Proof.
  intros Hb. rewrite (split_mod x h (S h)) by lia. unfold extract.
  replace (S h - h)%nat with 1%nat by lia. change (pow2 1) with 2.
  rewrite <- bit_spec, Hb. simpl. lia.
Qed.

Lemma extract_odd x l top : (l < top)%nat -> bit x l = true -> (extract x l top) mod 2 = 1.
Proof.
  intros H Hb. unfold extract. replace (top - l)%nat with (S (top - l - 1)) by lia. rewrite pow2_S.
  rewrite N.mod_mul_r by (try apply pow2_pos; lia).
  rewrite (N.mul_comm 2). rewrite N.mod_add by lia. rewrite N.mod_mod by lia.
  rewrite <- bit_spec, Hb. reflexivity.
Qed.

Lemma extract_lt x l top K : (top - K <= l)%nat -> extract x l top < pow2 K.
Proof.
  intros H. unfold extract. eapply N.lt_le_trans; [apply N.mod_lt, pow2_pos|].
  unfold pow2. apply N.pow_le_mono_r; lia.
Qed.

Lemma scan_up_spec x : forall n l, bit x (l + n) = true ->
  let l' := scan_up x l n in (l <= l' <= l + n)%nat /\ bit x l' = true.
Proof.
  induction n as [|n IH]; intros l Hb; simpl.
  - rewrite Nat.add_0_r in Hb. split; [lia|assumption].
  - destruct (bit x l) eqn:E; [split; [lia|assumption]|].
    destruct (IH (S l)) as [H1 H2]; [now rewrite Nat.add_succ_comm|]. split; [lia|assumption].
Qed.

Definition good (x : N) (K top : nat) (t : term) :=
  (D t) mod 2 = 1 /\ D t < pow2 K /\ (E t < top)%nat /\ D t < pow2 (top - E t).

(* terms sum to the low `top` bits; each is odd, < 2^K, lies within [E, top); the next one lies below E *)
Fixpoint chained (x : N) (K top : nat) (ts : list term) : Prop :=
  match ts with [] => True | t :: r => good x K top t /\ chained x K (E t) r end.

Lemma sw_spec x K : (1 <= K)%nat -> forall fuel top, (top <= fuel)%nat ->
  tsum (sw fuel x K top) = x mod pow2 top /\ chained x K top (sw fuel x K top).
Proof.
  intros HK. induction fuel as [|fuel IH]; intros top Hf.
  - assert (top = 0)%nat by lia. subst. simpl. split; [|exact I]. change (pow2 0) with 1. now rewrite N.mod_1_r.
  - destruct top as [|h]; [simpl; split; [|exact I]; change (pow2 0) with 1; now rewrite N.mod_1_r|].
    cbn [sw]. destruct (bit x h) eqn:Hb.
    + set (l0 := (S h - K)%nat). 
      destruct (scan_up_spec x (h - l0) l0) as [Hl Hbl]; [replace (l0 + (h - l0))%nat with h by lia; assumption|].
      set (l := scan_up x l0 (h - l0)) in *.
      destruct (IH l ltac:(lia)) as [Hs Hc]. cbn [tsum chained]. split.
      * change (tval {| D := extract x l (S h); E := l |} + tsum (sw fuel x K l) = x mod pow2 (S h)).
        rewrite Hs. unfold tval. cbn [D E]. symmetry. apply split_mod. lia.
      * split; [|exact Hc]. unfold good. cbn [D E]. repeat split.
        -- apply extract_odd; [lia|assumption].
        -- apply extract_lt. lia.
        -- lia.
        -- unfold extract. apply N.mod_lt, pow2_pos.
    + destruct (IH h ltac:(lia)) as [Hs Hc]. split.
      * rewrite Hs. symmetry. now apply mod_drop_zero_bit.
      * destruct (sw fuel x K h) as [|t r]; [exact I|]. destruct Hc as [(G1 & G2 & G3 & G4) Hc]. split; [|exact Hc].
        repeat split; auto; try lia. eapply N.lt_le_trans; [exact G4|]. unfold pow2. apply N.pow_le_mono_r; lia.
Qed.

Theorem sliding_window_sum x K : (1 <= K)%nat -> tsum (sliding_window x K) = x.
Proof.
  intros HK. unfold sliding_window. destruct (sw_spec x K HK (N.to_nat (N.size x)) (N.to_nat (N.size x)) (le_n _)) as [Hs _].
  rewrite Hs. apply N.mod_small. unfold pow2. rewrite N2Nat.id. apply N.size_gt.
Qed.
Theorem sliding_window_shape x K : (1 <= K)%nat -> chained x K (N.to_nat (N.size x)) (sliding_window x K).
Proof. intros HK. unfold sliding_window. apply sw_spec; auto. Qed.
Print Assumptions sliding_window_sum.
