From Coq Require Import List NArith Lia Bool Arith.
Import ListNotations.
Open Scope N_scope.

(* bigint.BitsSet: positions of set bits below BitLen, ascending *)
Definition bits_set (x : N) : list nat :=
  filter (fun i => N.testbit x (N.of_nat i)) (seq 0 (N.to_nat (N.size x))).
Definition pow_sum (es : list nat) : N := fold_right (fun e a => 2 ^ N.of_nat e + a) 0 es.

Lemma pow_sum_app a b : pow_sum (a ++ b) = pow_sum a + pow_sum b.
Proof. induction a as [|e a IH]; simpl; [reflexivity|]. rewrite IH. lia. Qed.

Lemma bits_below x : forall m, pow_sum (filter (fun i => N.testbit x (N.of_nat i)) (seq 0 m)) = x mod 2 ^ N.of_nat m.
Proof.
  induction m as [|m IH].
  - simpl. now rewrite N.mod_1_r.
  - rewrite seq_S, filter_app, pow_sum_app, IH. cbn [seq filter plus].
    rewrite Nat2N.inj_succ, N.pow_succ_r'.
    rewrite (N.mul_comm 2), N.mod_mul_r by (try apply N.pow_nonzero; lia).
    rewrite <- N.testbit_spec'. destruct (N.testbit x (N.of_nat m)); simpl; lia.
Qed.

(* the exponents listed by BitsSet rebuild the number: what primitive relies on when it turns v[i] into terms *)
Theorem bits_set_sum x : pow_sum (bits_set x) = x.
Proof.
  unfold bits_set. rewrite bits_below. rewrite N2Nat.id. apply N.mod_small, N.size_gt.
Qed.
Print Assumptions bits_set_sum.
