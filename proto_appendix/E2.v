Require Import L.
From Coq Require Import List Lia Bool Arith.
Import ListNotations.

Arguments spawned {R}. Arguments waitc {R}. Arguments returned {R}. Arguments sem {R}.
Arguments ws {R}. Arguments rs {R}. Arguments wat {R}. Arguments setw {R}.

Lemma update_length {A} l (v : A) xs : length (update l v xs) = length xs.
Proof. revert l; induction xs as [|x t IH]; intros [|l]; simpl; auto. Qed.
Lemma nth_update_eq {A} l (v d : A) xs : l < length xs -> nth l (update l v xs) d = v.
Proof. revert l; induction xs as [|x t IH]; intros [|l] H; simpl in *; try lia; auto. apply IH; lia. Qed.
Lemma nth_update_neq {A} l l' (v d : A) xs : l <> l' -> nth l' (update l v xs) d = nth l' xs d.
Proof. revert l l'; induction xs as [|x t IH]; intros [|l] [|l'] H; simpl; auto; try lia. Qed.

Lemma active_update i w l : i < length l -> active (update i w l) + isact (nth i l NotYet) = active l + isact w.
Proof.
  revert i; induction l as [|x t IH]; intros [|i] H; simpl in *; try lia.
  specialize (IH i ltac:(lia)). lia.
Qed.
Lemma active_repeat n : active (repeat NotYet n) = 0.
Proof. induction n; simpl; auto. Qed.
Lemma active_zero l : active l = 0 -> forall i, isact (nth i l NotYet) = 0.
Proof.
  induction l as [|x t IH]; intros H [|i]; simpl in *; auto; try lia. apply IH. lia.
Qed.
Lemma active_pos l : active l > 0 -> exists i, i < length l /\ isact (nth i l NotYet) = 1.
Proof.
  induction l as [|x t IH]; simpl; intros H; [lia|].
  destruct (isact x) eqn:E.
  - destruct (IH ltac:(lia)) as (i & Hi & Ei). exists (S i). split; [lia|exact Ei].
  - exists 0. split; [lia|]. destruct x; simpl in *; lia.
Qed.
Lemma nth_repeat {A} (a d : A) n i : i < n -> nth i (repeat a n) d = a.
Proof. revert i; induction n; intros [|i] H; simpl; try lia; auto. apply IHn; lia. Qed.

Lemma wst_eqb_eq a b : wst_eqb a b = true -> a = b.
Proof. destruct a, b; simpl; congruence. Qed.

Section Par.
Variable R : Type.
Variable k limit : nat.
Variable res : nat -> R.
Notation st := (st R).
Notation step_fn := (step_fn R k limit res).
Notation Inv := (Inv R k limit res).
Notation reachable := (reachable R k limit res).

Lemma inv_init : Inv (init R k).
Proof.
  unfold L.Inv, init, wat; simpl. rewrite !repeat_length, active_repeat.
  split; [|split; [|split; [|split; [|split; [|split; [|split; [|split; [|split]]]]]]]]; try reflexivity; try lia.
  all: try discriminate.
  - intros i Hi. rewrite nth_repeat by assumption. split; [lia|reflexivity].
  - intros i Hi. rewrite !nth_repeat by assumption. reflexivity.
Qed.

(* effect of changing worker i from a to b on the facts about workers *)
Lemma inv_step s l s' : Inv s -> step_fn s l = Some s' -> Inv s'.
Proof.
  intros (Hlw & Hlr & Hsem & Hle & Hwl & Hsk & Hw0 & Hny & Hrs & Hret) Hstep.
  unfold L.step_fn in Hstep. destruct (returned s) eqn:Er; [discriminate|].
  destruct l as [|i|i|i|i| |].
  - (* spawn *)
    destruct ((spawned s <? k) && (sem s <? limit)) eqn:E; [|discriminate]. injection Hstep as <-.
    apply andb_true_iff in E as [E1 E2]. apply Nat.ltb_lt in E1, E2.
    assert (Hny0 : wat s (spawned s) = NotYet) by (apply Hny; lia).
    pose proof (active_update (spawned s) Spawned (ws s) ltac:(lia)) as Ha.
    unfold wat in Hny0. rewrite Hny0 in Ha. simpl in Ha.
    unfold L.Inv, wat; simpl. rewrite update_length.
    split; [assumption|]. split; [assumption|]. split; [lia|]. split; [lia|]. split; [lia|]. split; [lia|].
    split; [intros; specialize (Hw0 ltac:(lia)); lia|]. split; [|split; [|discriminate]].
    + intros i Hi. destruct (Nat.eq_dec (spawned s) i) as [<-|Hne].
      * rewrite nth_update_eq by lia. split; [discriminate|lia].
      * rewrite nth_update_neq by assumption. fold (wat s i). rewrite (Hny i Hi). lia.
    + intros i Hi. destruct (Nat.eq_dec (spawned s) i) as [<-|Hne].
      * rewrite nth_update_eq by lia. simpl. rewrite Hrs by lia. unfold wat. now rewrite Hny0.
      * rewrite nth_update_neq by assumption. apply Hrs; assumption.
  - (* start *)
    destruct (wst_eqb (wat s i) Spawned) eqn:E; [|discriminate]. injection Hstep as <-.
    apply wst_eqb_eq in E.
    assert (Hi : i < k).
    { destruct (Nat.lt_ge_cases i k); [assumption|]. unfold wat in E. rewrite nth_overflow in E by lia. discriminate. }
    pose proof (active_update i Started (ws s) ltac:(lia)) as Ha. unfold wat in E. rewrite E in Ha. simpl in Ha.
    unfold L.Inv, setw, wat; simpl. rewrite update_length.
    split; [assumption|]. split; [assumption|]. split; [lia|]. split; [lia|]. split; [lia|]. split; [lia|].
    split; [assumption|]. split; [|split; [|rewrite Er; discriminate]].
    + intros j Hj. destruct (Nat.eq_dec i j) as [<-|Hne].
      * rewrite nth_update_eq by lia. split; [discriminate|]. intros Hsp. apply Hny in Hsp; [|assumption]. unfold wat in Hsp. congruence.
      * rewrite nth_update_neq by assumption. apply Hny; assumption.
    + intros j Hj. destruct (Nat.eq_dec i j) as [<-|Hne].
      * rewrite nth_update_eq by lia. simpl. rewrite Hrs by lia. unfold wat. now rewrite E.
      * rewrite nth_update_neq by assumption. apply Hrs; assumption.
  - (* store *)
    destruct (wst_eqb (wat s i) Started) eqn:E; [|discriminate]. injection Hstep as <-.
    apply wst_eqb_eq in E.
    assert (Hi : i < k).
    { destruct (Nat.lt_ge_cases i k); [assumption|]. unfold wat in E. rewrite nth_overflow in E by lia. discriminate. }
    pose proof (active_update i Stored (ws s) ltac:(lia)) as Ha. unfold wat in E. rewrite E in Ha. simpl in Ha.
    unfold L.Inv, wat; simpl. rewrite !update_length.
    split; [assumption|]. split; [assumption|]. split; [lia|]. split; [lia|]. split; [lia|]. split; [lia|].
    split; [assumption|]. split; [|split; [|discriminate]].
    + intros j Hj. destruct (Nat.eq_dec i j) as [<-|Hne].
      * rewrite nth_update_eq by lia. split; [discriminate|]. intros Hsp. apply Hny in Hsp; [|assumption]. unfold wat in Hsp. congruence.
      * rewrite nth_update_neq by assumption. apply Hny; assumption.
    + intros j Hj. destruct (Nat.eq_dec i j) as [<-|Hne].
      * rewrite !nth_update_eq by lia. reflexivity.
      * rewrite !nth_update_neq by assumption. apply Hrs; assumption.
  - (* done *)
    destruct (wst_eqb (wat s i) Stored) eqn:E; [|discriminate]. injection Hstep as <-.
    apply wst_eqb_eq in E.
    assert (Hi : i < k).
    { destruct (Nat.lt_ge_cases i k); [assumption|]. unfold wat in E. rewrite nth_overflow in E by lia. discriminate. }
    pose proof (active_update i Logged (ws s) ltac:(lia)) as Ha. unfold wat in E. rewrite E in Ha. simpl in Ha.
    unfold L.Inv, setw, wat; simpl. rewrite update_length.
    split; [assumption|]. split; [assumption|]. split; [lia|]. split; [lia|]. split; [lia|]. split; [lia|].
    split; [assumption|]. split; [|split; [|rewrite Er; discriminate]].
    + intros j Hj. destruct (Nat.eq_dec i j) as [<-|Hne].
      * rewrite nth_update_eq by lia. split; [discriminate|]. intros Hsp. apply Hny in Hsp; [|assumption]. unfold wat in Hsp. congruence.
      * rewrite nth_update_neq by assumption. apply Hny; assumption.
    + intros j Hj. destruct (Nat.eq_dec i j) as [<-|Hne].
      * rewrite nth_update_eq by lia. simpl. rewrite Hrs by lia. unfold wat. now rewrite E.
      * rewrite nth_update_neq by assumption. apply Hrs; assumption.
  - (* release *)
    destruct (wst_eqb (wat s i) Logged && (0 <? sem s)) eqn:E; [|discriminate]. injection Hstep as <-.
    apply andb_true_iff in E as [E E0]. apply wst_eqb_eq in E. apply Nat.ltb_lt in E0.
    assert (Hi : i < k).
    { destruct (Nat.lt_ge_cases i k); [assumption|]. unfold wat in E. rewrite nth_overflow in E by lia. discriminate. }
    pose proof (active_update i Released (ws s) ltac:(lia)) as Ha. unfold wat in E. rewrite E in Ha. simpl in Ha.
    unfold L.Inv, wat; simpl. rewrite update_length.
    split; [assumption|]. split; [assumption|]. split; [lia|]. split; [lia|]. split; [lia|]. split; [lia|].
    split; [assumption|]. split; [|split; [|discriminate]].
    + intros j Hj. destruct (Nat.eq_dec i j) as [<-|Hne].
      * rewrite nth_update_eq by lia. split; [discriminate|]. intros Hsp. apply Hny in Hsp; [|assumption]. unfold wat in Hsp. congruence.
      * rewrite nth_update_neq by assumption. apply Hny; assumption.
    + intros j Hj. destruct (Nat.eq_dec i j) as [<-|Hne].
      * rewrite nth_update_eq by lia. simpl. rewrite Hrs by lia. unfold wat. now rewrite E.
      * rewrite nth_update_neq by assumption. apply Hrs; assumption.
  - (* wait *)
    destruct ((spawned s =? k) && (waitc s <? limit) && (sem s <? limit)) eqn:E; [|discriminate]. injection Hstep as <-.
    apply andb_true_iff in E as [E E3]. apply andb_true_iff in E as [E1 E2].
    apply Nat.eqb_eq in E1. apply Nat.ltb_lt in E2, E3.
    unfold L.Inv, wat; simpl.
    split; [assumption|]. split; [assumption|]. split; [lia|]. split; [lia|]. split; [lia|]. split; [lia|].
    split; [intros; assumption|]. split; [exact Hny|]. split; [exact Hrs|discriminate].
  - (* return *)
    destruct ((spawned s =? k) && (waitc s =? limit)) eqn:E; [|discriminate]. injection Hstep as <-.
    apply andb_true_iff in E as [E1 E2]. apply Nat.eqb_eq in E1, E2.
    unfold L.Inv, wat; simpl.
    split; [assumption|]. split; [assumption|]. split; [lia|]. split; [lia|]. split; [lia|]. split; [lia|].
    split; [assumption|]. split; [exact Hny|]. split; [exact Hrs|]. intros _. split; assumption.
Qed.

Theorem reachable_inv s : reachable s -> Inv s.
Proof. induction 1; [apply inv_init|eapply inv_step; eauto]. Qed.

(* never more than `limit` algorithms between spawn and token release, under every interleaving *)
Theorem at_most_limit_running s : reachable s -> active (ws s) <= limit.
Proof. intros Hr. destruct (reachable_inv s Hr) as (_ & _ & Hsem & Hle & _). lia. Qed.

(* when Execute returns, every worker has finished and slot i holds algorithm i's result *)
Theorem returned_complete s : reachable s -> returned s = true ->
  forall i, i < k -> wat s i = Released /\ nth i (rs s) None = Some (res i).
Proof.
  intros Hr Hret i Hi. destruct (reachable_inv s Hr) as (Hlw & Hlr & Hsem & Hle & Hwl & Hsk & Hw0 & Hny & Hrs & Hre).
  destruct (Hre Hret) as [Hsp Hwc].
  assert (Hact : active (ws s) = 0) by lia.
  pose proof (active_zero _ Hact i) as Hi0.
  assert (Hnn : wat s i <> NotYet). { intros E. apply Hny in E; [lia|assumption]. }
  assert (Hrel : wat s i = Released). { unfold wat in *. destruct (nth i (ws s) NotYet); simpl in Hi0; congruence. }
  split; [exact Hrel|]. rewrite Hrs by assumption. now rewrite Hrel.
Qed.

(* no deadlock for limit >= 1 *)
Theorem progress s : 1 <= limit -> reachable s -> returned s = false -> exists l s', step_fn s l = Some s'.
Proof.
  intros Hlim Hr Hnr. destruct (reachable_inv s Hr) as (Hlw & Hlr & Hsem & Hle & Hwl & Hsk & Hw0 & Hny & Hrs & Hre).
  unfold L.step_fn. rewrite Hnr.
  destruct (Nat.eq_dec (active (ws s)) 0) as [Hz|Hnz].
  - destruct (Nat.eq_dec (spawned s) k) as [Hk|Hk].
    + destruct (Nat.eq_dec (waitc s) limit) as [Hw|Hw].
      * exists LReturn. rewrite Hk, Hw, !Nat.eqb_refl. simpl. eauto.
      * exists LWait. rewrite Hk, Nat.eqb_refl.
        replace (waitc s <? limit) with true by (symmetry; apply Nat.ltb_lt; lia).
        replace (sem s <? limit) with true by (symmetry; apply Nat.ltb_lt; lia). simpl. eauto.
    + exists LSpawn. assert (waitc s = 0) by (destruct (waitc s); [reflexivity|specialize (Hw0 ltac:(lia)); congruence]).
      replace (spawned s <? k) with true by (symmetry; apply Nat.ltb_lt; lia).
      replace (sem s <? limit) with true by (symmetry; apply Nat.ltb_lt; lia). simpl. eauto.
  - destruct (active_pos (ws s) ltac:(lia)) as (i & Hi & Ei). unfold wat.
    destruct (nth i (ws s) NotYet) eqn:E; simpl in Ei; try discriminate.
    + exists (LStart i). unfold wat. rewrite E. simpl. eauto.
    + exists (LStore i). unfold wat. rewrite E. simpl. eauto.
    + exists (LDone i). unfold wat. rewrite E. simpl. eauto.
    + exists (LRelease i). unfold wat. rewrite E. simpl.
      replace (0 <? sem s) with true by (symmetry; apply Nat.ltb_lt; lia). eauto.
Qed.

(* the -p 0 hang: with limit 0 and at least one algorithm the initial state is stuck *)
Theorem limit0_stuck l : limit = 0 -> 1 <= k -> step_fn (init R k) l = None.
Proof.
  intros -> Hk. unfold L.step_fn, init, wat; simpl.
  destruct l as [|i|i|i|i| |]; simpl; try reflexivity.
  - now rewrite andb_false_r.
  - destruct (Nat.lt_ge_cases i k); [rewrite nth_repeat by assumption|rewrite nth_overflow by (rewrite repeat_length; lia)]; reflexivity.
  - destruct (Nat.lt_ge_cases i k); [rewrite nth_repeat by assumption|rewrite nth_overflow by (rewrite repeat_length; lia)]; reflexivity.
  - destruct (Nat.lt_ge_cases i k); [rewrite nth_repeat by assumption|rewrite nth_overflow by (rewrite repeat_length; lia)]; reflexivity.
  - destruct (Nat.lt_ge_cases i k); [rewrite nth_repeat by assumption|rewrite nth_overflow by (rewrite repeat_length; lia)]; reflexivity.
  - now rewrite andb_false_r.
  - destruct k; [lia|reflexivity].
Qed.
End Par.
Print Assumptions returned_complete.
Print Assumptions progress.
