From Coq Require Import List Lia Bool Arith.
Import ListNotations.

(* ---------- model of pass/alloc.go: allocation ---------- *)
Record instr := { out : nat; ins : list nat }.   (* ins = Op.Inputs() indexes, 1 or 2 entries *)

Record alloc := { var : list (nat * nat); avail : list nat; nvars : nat }.  (* avail: top of stack at head *)
Definition init : alloc := {| var := []; avail := []; nvars := 0 |}.

Fixpoint lookup (i : nat) (m : list (nat * nat)) : option nat :=
  match m with
  | [] => None
  | (k, v) :: t => if k =? i then Some v else lookup i t
  end.

Definition allocate (a : alloc) (i : nat) : alloc :=
  match lookup i (var a) with
  | Some _ => a
  | None =>
    match avail a with
    | [] => {| var := (i, nvars a) :: var a; avail := []; nvars := S (nvars a) |}
    | v :: rest => {| var := (i, v) :: var a; avail := rest; nvars := nvars a |}
    end
  end.
Definition free (a : alloc) (v : nat) : alloc := {| var := var a; avail := v :: avail a; nvars := nvars a |}.
Definition step (a : alloc) (i : instr) : alloc :=
  let a1 := allocate a (out i) in
  let a2 := match lookup (out i) (var a1) with Some v => free a1 v | None => a1 end in
  fold_left allocate (ins i) a2.
(* instructions are processed last to first *)
Fixpoint scanr (p : list instr) : alloc :=
  match p with [] => init | i :: rest => step (scanr rest) i end.

Definition outs (p : list instr) := map out p.
Definition reads (p : list instr) := flat_map ins p.
(* live before the first instruction of suffix p: read in p, not defined in p *)
Definition L (p : list instr) (k : nat) := In k (reads p) /\ ~ In k (outs p).

(* well-formed suffix: outputs distinct, nothing is read at or after... before it is defined *)
Fixpoint wf (p : list instr) : Prop :=
  match p with
  | [] => True
  | i :: rest => ~ In (out i) (outs rest) /\ (forall x, In x (ins i) -> ~ In x (outs (i :: rest))) /\ wf rest
  end.

Definition AInv (p : list instr) (a : alloc) : Prop :=
  (forall k, lookup k (var a) <> None <-> In k (reads p) \/ In k (outs p)) /\
  (forall i j vi vj, L p i -> L p j -> i <> j -> lookup i (var a) = Some vi -> lookup j (var a) = Some vj -> vi <> vj) /\
  NoDup (avail a) /\
  (forall v k, In v (avail a) -> L p k -> lookup k (var a) <> Some v) /\
  (forall v, v < nvars a <-> In v (avail a) \/ exists k, L p k /\ lookup k (var a) = Some v).
