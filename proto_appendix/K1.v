From Coq Require Import List NArith Lia Bool Arith.
Import ListNotations.
Open Scope N_scope.

(* ---------- model of the linear-algebra part of dict.primitive ---------- *)
Notation vec := (list N) (only parsing).
Definition basis (n i : nat) : vec := map (fun j => if (j =? i)%nat then 1 else 0) (seq 0 n).   (* bigvector.NewBasis *)
Fixpoint vadd (u w : vec) : vec :=                                                               (* bigvector.Add *)
  match u, w with a :: u', b :: w' => (a + b) :: vadd u' w' | _, _ => [] end.
Definition vlsh (u : vec) (e : N) : vec := map (fun a => a * 2 ^ e) u.                           (* bigvector.Lsh *)
Definition vzero (n : nat) : vec := repeat 0 n.                                                  (* bigvector.New *)
Fixpoint dot (u : vec) (c : list N) : N :=
  match u, c with a :: u', b :: c' => a * b + dot u' c' | _, _ => 0 end.

Definition op := (nat * nat)%type.
(* vc[0] = basis 0; vc[k+1] = basis (k+1) if primitive[k+1] else vc[I] + vc[J] *)
Definition vc_step (n : nat) (prim : nat -> bool) (vcs : list vec) (o : op) : list vec :=
  let k1 := length vcs in
  vcs ++ [if prim k1 then basis n k1 else vadd (nth (fst o) vcs []) (nth (snd o) vcs [])].
Definition vcs_of (n : nat) (prim : nat -> bool) (p : list op) : list vec :=
  fold_left (vc_step n prim) p [basis n 0].

Record term := { D : N; E : N }.
Definition tsum (s : list term) : N := fold_right (fun t a => D t * 2 ^ E t + a) 0 s.             (* Sum.Int *)
(* v = sum over terms of vc[idx t] << t.E *)
Definition target_vec (n : nat) (vcs : list vec) (idx : N -> nat) (s : list term) : vec :=
  fold_left (fun v t => vadd v (vlsh (nth (idx (D t)) vcs []) (E t))) s (vzero n).

(* ---------- lemmas ---------- *)
Lemma vadd_length u w : length u = length w -> length (vadd u w) = length u.
Proof. revert w; induction u as [|a u IH]; intros [|b w] H; simpl in *; try lia. rewrite IH; lia. Qed.
Lemma dot_vadd u w c : length u = length w -> dot (vadd u w) c = dot u c + dot w c.
Proof.
  revert w c; induction u as [|a u IH]; intros [|b w] [|x c] H; simpl in *; try lia.
  rewrite IH by lia. lia.
Qed.
Lemma dot_vlsh u e c : dot (vlsh u e) c = dot u c * 2 ^ e.
Proof. revert c; induction u as [|a u IH]; intros [|x c]; simpl; try lia. rewrite IH. lia. Qed.
Lemma vlsh_length u e : length (vlsh u e) = length u.
Proof. apply map_length. Qed.
Lemma dot_zero n c : dot (vzero n) c = 0.
Proof. revert c; induction n as [|n IH]; intros [|x c]; simpl; auto. Qed.
Lemma basis_length n i : length (basis n i) = n.
Proof. unfold basis. now rewrite map_length, seq_length. Qed.

Lemma dot_basis_gen : forall m s i (c : list N), length c = m ->
  dot (map (fun j => if (j =? i)%nat then 1 else 0) (seq s m)) c = if (s <=? i)%nat && (i <? s + m)%nat then nth (i - s) c 0 else 0.
Proof.
  induction m as [|m IH]; intros s i c Hc.
  - destruct c; [|discriminate]. simpl. destruct ((s <=? i)%nat && (i <? s + 0)%nat) eqn:E; [|reflexivity].
    apply andb_true_iff in E as [E1 E2]. apply Nat.leb_le in E1. apply Nat.ltb_lt in E2. exfalso; lia.
  - destruct c as [|x c]; [discriminate|]. cbn [seq map dot]. rewrite (IH (S s) i c) by (simpl in Hc; lia).
    destruct (s =? i)%nat eqn:Es.
    + apply Nat.eqb_eq in Es. subst.
      replace ((S i <=? i)%nat) with false by (symmetry; apply Nat.leb_gt; lia). simpl andb. cbv iota.
      replace ((i <=? i)%nat && (i <? i + S m)%nat) with true by (symmetry; apply andb_true_iff; split; [apply Nat.leb_le|apply Nat.ltb_lt]; lia).
      rewrite Nat.sub_diag. cbv iota. cbn [nth]. lia.
    + apply Nat.eqb_neq in Es.
      destruct ((S s <=? i)%nat && (i <? S s + m)%nat) eqn:E1.
      * apply andb_true_iff in E1 as [A B]. apply Nat.leb_le in A. apply Nat.ltb_lt in B.
        replace ((s <=? i)%nat && (i <? s + S m)%nat) with true by (symmetry; apply andb_true_iff; split; [apply Nat.leb_le|apply Nat.ltb_lt]; lia).
        replace (i - s)%nat with (S (i - S s)) by lia. cbv iota. cbn [nth]. lia.
      * replace ((s <=? i)%nat && (i <? s + S m)%nat) with false; [lia|].
        symmetry. apply andb_false_iff. apply andb_false_iff in E1 as [A|B].
        -- apply Nat.leb_gt in A. left. apply Nat.leb_gt. lia.
        -- apply Nat.ltb_ge in B. right. apply Nat.ltb_ge. lia.
Qed.
Lemma dot_basis n i c : length c = n -> (i < n)%nat -> dot (basis n i) c = nth i c 0.
Proof.
  intros Hc Hi. unfold basis. rewrite dot_basis_gen by assumption. simpl.
  replace (i <? n)%nat with true by (symmetry; apply Nat.ltb_lt; lia). now rewrite Nat.sub_0_r.
Qed.

Section Prim.
Variable c : list N.
Let n := length c.
Variable p : list op.
Variable prim : nat -> bool.
Hypothesis Hlen : n = S (length p).
(* p is the program of c: operands earlier, values add up (Chain.Program / Op) *)
Hypothesis Hp : forall k, (k < length p)%nat ->
  (fst (nth k p (0,0)%nat) <= k /\ snd (nth k p (0,0)%nat) <= k)%nat /\
  nth (fst (nth k p (0,0)%nat)) c 0 + nth (snd (nth k p (0,0)%nat)) c 0 = nth (S k) c 0.

(* every vc[k] is a vector of length n whose combination of chain elements is c[k] *)
Lemma vcs_prefix : forall q pre, p = pre ++ q ->
  forall vcs, length vcs = S (length pre) ->
  (forall k, (k < length vcs)%nat -> length (nth k vcs []) = n /\ dot (nth k vcs []) c = nth k c 0) ->
  let vcs' := fold_left (vc_step n prim) q vcs in
  length vcs' = S (length p) /\
  forall k, (k < length vcs')%nat -> length (nth k vcs' []) = n /\ dot (nth k vcs' []) c = nth k c 0.
Proof.
  induction q as [|o q IH]; intros pre Epre vcs Hl Hv; simpl.
  - rewrite Epre, app_nil_r. auto.
  - assert (Eo : o = nth (length pre) p (0,0)%nat) by (rewrite Epre, app_nth2, Nat.sub_diag by lia; reflexivity).
    assert (Hk : (length pre < length p)%nat) by (rewrite Epre, app_length; simpl; lia).
    destruct (Hp (length pre) Hk) as [[Hi Hj] Hs]. rewrite <- Eo in Hi, Hj, Hs.
    apply (IH (pre ++ [o])); [rewrite <- app_assoc; exact Epre| |].
    + unfold vc_step. rewrite !app_length. simpl. lia.
    + unfold vc_step. intros k Hklt. rewrite app_length in Hklt. simpl in Hklt.
      destruct (Nat.eq_dec k (length vcs)) as [->|Hne].
      * rewrite app_nth2, Nat.sub_diag by lia. cbn [nth].
        destruct (prim (length vcs)).
        -- split; [apply basis_length|]. apply dot_basis; [reflexivity|lia].
        -- destruct (Hv (fst o) ltac:(lia)) as [L1 D1]. destruct (Hv (snd o) ltac:(lia)) as [L2 D2].
           split; [rewrite vadd_length; lia|]. rewrite dot_vadd by lia. rewrite D1, D2, Hl. exact Hs.
      * rewrite app_nth1 by lia. apply Hv. lia.
Qed.

Theorem vcs_ok : let vcs := vcs_of n prim p in
  length vcs = n /\ forall k, (k < n)%nat -> length (nth k vcs []) = n /\ dot (nth k vcs []) c = nth k c 0.
Proof.
  unfold vcs_of. destruct (vcs_prefix p [] eq_refl [basis n 0] eq_refl) as [H1 H2].
  - intros k Hk. simpl in Hk. assert (k = 0)%nat by lia. subst. cbn [nth].
    split; [apply basis_length|]. apply dot_basis; [reflexivity|lia].
  - split; [lia|]. intros k Hk. apply H2. lia.
Qed.

(* the rebuilt target vector combines the chain to exactly the original dictionary sum *)
Theorem target_ok (idx : N -> nat) (s : list term) :
  (forall t, In t s -> (idx (D t) < n)%nat /\ nth (idx (D t)) c 0 = D t) ->
  dot (target_vec n (vcs_of n prim p) idx s) c = tsum s.
Proof.
  intros Hidx. destruct vcs_ok as [Hl Hv]. unfold target_vec.
  assert (G : forall s v, length v = n -> (forall t, In t s -> (idx (D t) < n)%nat /\ nth (idx (D t)) c 0 = D t) ->
     length (fold_left (fun v t => vadd v (vlsh (nth (idx (D t)) (vcs_of n prim p) []) (E t))) s v) = n /\
     dot (fold_left (fun v t => vadd v (vlsh (nth (idx (D t)) (vcs_of n prim p) []) (E t))) s v) c = dot v c + tsum s).
  { clear s Hidx. induction s as [|t s IH]; intros v Hvl Hi; simpl; [split; [assumption|lia]|].
    destruct (Hi t (or_introl eq_refl)) as [Hlt Hval]. destruct (Hv _ Hlt) as [L Dt].
    destruct (IH (vadd v (vlsh (nth (idx (D t)) (vcs_of n prim p) []) (E t)))) as [L' D'].
    - rewrite vadd_length; rewrite ?vlsh_length; lia.
    - intros t' Ht'. apply Hi. simpl; auto.
    - split; [exact L'|]. rewrite D', dot_vadd by (rewrite vlsh_length; lia). rewrite dot_vlsh, Dt, Hval. lia. }
  destruct (G s (vzero n) (repeat_length _ _) Hidx) as [_ HD]. rewrite HD, dot_zero. lia.
Qed.
End Prim.
Print Assumptions target_ok.
