Require Import A.
From Coq Require Import List Lia Bool Arith.
Import ListNotations.

Definition GInv (S D : nat -> Prop) (a : alloc) : Prop :=
  (forall k, lookup k (var a) <> None <-> S k \/ D k) /\
  (forall i j vi vj, S i -> S j -> i <> j -> lookup i (var a) = Some vi -> lookup j (var a) = Some vj -> vi <> vj) /\
  NoDup (avail a) /\
  (forall v k, In v (avail a) -> S k -> lookup k (var a) <> Some v) /\
  (forall v, v < nvars a <-> In v (avail a) \/ exists k, S k /\ lookup k (var a) = Some v).

Lemma GInv_ext S D S' D' a : (forall k, S k <-> S' k) -> (forall k, D k <-> D' k) -> GInv S D a -> GInv S' D' a.
Proof.
  intros HS HD (H1 & H2 & H3 & H4 & H5). split; [|split; [|split; [|split]]].
  - intros k. rewrite H1, HS, HD. tauto.
  - intros i j vi vj Hi Hj. apply H2; now apply HS.
  - exact H3.
  - intros v k Hv Hk. apply H4; [assumption|now apply HS].
  - intros v. rewrite H5. split; intros [H|(k & Hk & E)]; auto; right; exists k; split; auto; now apply HS.
Qed.

Lemma lookup_cons_eq i v m : lookup i ((i, v) :: m) = Some v.
Proof. simpl. now rewrite Nat.eqb_refl. Qed.
Lemma lookup_cons_neq i k v m : i <> k -> lookup k ((i, v) :: m) = lookup k m.
Proof. intros H. simpl. destruct (i =? k) eqn:E; [apply Nat.eqb_eq in E; congruence|reflexivity]. Qed.

Lemma allocate_new S D a i : GInv S D a -> lookup i (var a) = None -> ~ S i ->
  GInv (fun k => S k \/ k = i) D (allocate a i) /\
  (forall k v, lookup k (var a) = Some v -> lookup k (var (allocate a i)) = Some v).
Proof.
  intros (H1 & H2 & H3 & H4 & H5) Hn HnS. unfold allocate. rewrite Hn.
  assert (Hstable : forall w k v, lookup k (var a) = Some v -> lookup k ((i, w) :: var a) = Some v).
  { intros w k v E. rewrite lookup_cons_neq; [assumption|]. intros ->. congruence. }
  destruct (avail a) as [|v rest] eqn:Ea; (split; [|apply Hstable]); unfold GInv; cbn [var avail nvars].
  - split; [|split; [|split; [|split]]].
    + intros k. destruct (Nat.eq_dec i k) as [->|Hne].
      * rewrite lookup_cons_eq. split; [auto|congruence].
      * rewrite lookup_cons_neq by assumption. rewrite H1. split; [tauto|]. intros [[H| ->]|H]; auto; congruence.
    + intros x y vx vy Hx Hy Hxy Ex Ey.
      assert (Hlt : forall k w, S k -> lookup k (var a) = Some w -> w < nvars a).
      { intros k w Hk E. apply H5. right. eauto. }
      destruct (Nat.eq_dec i x) as [<-|Hix]; destruct (Nat.eq_dec i y) as [<-|Hiy]; try congruence.
      * rewrite lookup_cons_eq in Ex. rewrite lookup_cons_neq in Ey by assumption. inversion Ex; subst.
        destruct Hy as [Hy| ->]; [|congruence]. specialize (Hlt y vy Hy Ey). lia.
      * rewrite lookup_cons_eq in Ey. rewrite lookup_cons_neq in Ex by assumption. inversion Ey; subst.
        destruct Hx as [Hx| ->]; [|congruence]. specialize (Hlt x vx Hx Ex). lia.
      * rewrite lookup_cons_neq in Ex, Ey by assumption.
        destruct Hx as [Hx| ->]; [|congruence]. destruct Hy as [Hy| ->]; [|congruence]. exact (H2 x y vx vy Hx Hy Hxy Ex Ey).
    + constructor.
    + intros v k [].
    + intros v. split.
      * intros Hv. right. destruct (Nat.eq_dec v (nvars a)) as [->|Hne].
        -- exists i. split; [auto|apply lookup_cons_eq].
        -- assert (Hv' : v < nvars a) by lia. apply H5 in Hv' as [[]|(k & Hk & E)].
           exists k. split; [auto|]. apply Hstable. exact E.
      * intros [[]|(k & Hk & E)]. destruct (Nat.eq_dec i k) as [->|Hne].
        -- rewrite lookup_cons_eq in E. inversion E. lia.
        -- rewrite lookup_cons_neq in E by assumption. destruct Hk as [Hk| ->]; [|congruence].
           assert (v < nvars a) by (apply H5; right; eauto). lia.
  - inversion H3 as [|? ? Hnv Hnd]; subst.
    split; [|split; [|split; [|split]]].
    + intros k. destruct (Nat.eq_dec i k) as [->|Hne].
      * rewrite lookup_cons_eq. split; [auto|congruence].
      * rewrite lookup_cons_neq by assumption. rewrite H1. split; [tauto|]. intros [[H| ->]|H]; auto; congruence.
    + intros x y vx vy Hx Hy Hxy Ex Ey.
      destruct (Nat.eq_dec i x) as [<-|Hix]; destruct (Nat.eq_dec i y) as [<-|Hiy]; try congruence.
      * rewrite lookup_cons_eq in Ex. rewrite lookup_cons_neq in Ey by assumption. inversion Ex; subst.
        destruct Hy as [Hy| ->]; [|congruence]. intros ->. apply (H4 vy y); simpl; auto.
      * rewrite lookup_cons_eq in Ey. rewrite lookup_cons_neq in Ex by assumption. inversion Ey; subst.
        destruct Hx as [Hx| ->]; [|congruence]. intros ->. apply (H4 vy x); simpl; auto.
      * rewrite lookup_cons_neq in Ex, Ey by assumption.
        destruct Hx as [Hx| ->]; [|congruence]. destruct Hy as [Hy| ->]; [|congruence]. exact (H2 x y vx vy Hx Hy Hxy Ex Ey).
    + exact Hnd.
    + intros w k Hw Hk. destruct (Nat.eq_dec i k) as [->|Hne].
      * rewrite lookup_cons_eq. intros E. inversion E; subst. contradiction.
      * rewrite lookup_cons_neq by assumption. destruct Hk as [Hk| ->]; [|congruence]. apply H4; simpl; auto.
    + intros w. rewrite H5. split.
      * intros [[->|Hw]|(k & Hk & E)].
        -- right. exists i. split; [auto|apply lookup_cons_eq].
        -- auto.
        -- right. exists k. split; [auto|]. apply Hstable. exact E.
      * intros [Hw|(k & Hk & E)]; [left; simpl; auto|].
        destruct (Nat.eq_dec i k) as [->|Hne].
        -- rewrite lookup_cons_eq in E. inversion E; subst. left; simpl; auto.
        -- rewrite lookup_cons_neq in E by assumption. destruct Hk as [Hk| ->]; [|congruence]. right; eauto.
Qed.

Lemma allocate_old a i : lookup i (var a) <> None -> allocate a i = a.
Proof. intros H. unfold allocate. destruct (lookup i (var a)); [reflexivity|congruence]. Qed.

Lemma free_inv S D a i v : GInv S D a -> S i -> lookup i (var a) = Some v ->
  GInv (fun k => S k /\ k <> i) (fun k => D k \/ k = i) (free a v).
Proof.
  intros (H1 & H2 & H3 & H4 & H5) Hi Ev. unfold free, GInv. cbn [var avail nvars]. split; [|split; [|split; [|split]]].
  - intros k. rewrite H1. destruct (Nat.eq_dec k i) as [->|]; tauto.
  - intros x y vx vy [Hx _] [Hy _]. now apply H2.
  - constructor; [|assumption]. intros Hin. apply (H4 v i Hin Hi Ev).
  - intros w k [<-|Hw] [Hk Hki].
    + intros E. apply (H2 k i v v Hk Hi Hki E Ev). reflexivity.
    + now apply H4.
  - intros w. rewrite H5. split.
    + intros [Hw|(k & Hk & E)]; [left; simpl; auto|].
      destruct (Nat.eq_dec k i) as [->|Hne].
      * left. left. congruence.
      * right. exists k. auto.
    + intros [[<-|Hw]|(k & [Hk _] & E)]; [right; eauto|auto|right; eauto].
Qed.
