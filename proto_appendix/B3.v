Require Import P R1.
From Coq Require Import List NArith Lia Bool Arith.
Import ListNotations.
Open Scope N_scope.

Definition wf_ident (s : str) :=
  match s with c :: r => is_alpha_ c = true /\ forallb is_idc r = true /\ c <> 100 | [] => False end.
Fixpoint wf (e : expr) : Prop :=
  match e with
  | EOperand _ => True
  | EIdent s => wf_ident s
  | EAdd x y => wf x /\ wf y
  | EShift x _ => wf x
  | EDouble x => wf x
  end.

Definition sepr := nohead is_idc.
Definition fol (r : str) := match skipws r with [] => True | c :: _ => c = 43 \/ c = 41 \/ c = 10 end.
Definition fola (r : str) := match skipws r with [] => True | c :: _ => c = 41 \/ c = 10 end.

Lemma skipws_head s c t : skipws s = c :: t -> is_ws c = false.
Proof.
  induction s as [|a s IH]; simpl; [discriminate|].
  destruct (is_ws a) eqn:E; [exact IH|]. intros H; inversion H; subst. exact E.
Qed.

Lemma skipws_cases s : (exists c t, s = c :: t /\ is_ws c = true) \/ skipws s = s.
Proof. destruct s as [|c t]; [now right|]. simpl. destruct (is_ws c) eqn:E; [left; eauto|now right]. Qed.

Lemma fola_fol r : fola r -> fol r.
Proof. unfold fola, fol. destruct (skipws r); intuition. Qed.

Lemma fol_head r (p : byte -> bool) :
  (forall c, is_ws c = true -> p c = false) -> p 43 = false -> p 41 = false -> p 10 = false ->
  fol r -> nohead p r.
Proof.
  intros Hws H1 H2 H3 Hf. destruct (skipws_cases r) as [(c & t & -> & Hc)|E].
  - simpl. now apply Hws.
  - unfold fol in Hf. rewrite E in Hf. destruct r as [|c t]; [exact I|]. simpl.
    destruct Hf as [->|[->| ->]]; assumption.
Qed.

Lemma ws_cases c : is_ws c = true -> c = 32 \/ c = 9 \/ c = 13.
Proof.
  unfold is_ws. intros H. apply orb_true_iff in H as [H|H]; [apply orb_true_iff in H as [H|H]|];
  apply N.eqb_eq in H; auto.
Qed.

Lemma fol_sepr r : fol r -> sepr r.
Proof. apply fol_head; try reflexivity. intros c H. destruct (ws_cases c H) as [->|[->| ->]]; reflexivity. Qed.
Lemma fol_nodigit r : fol r -> nohead is_digit r.
Proof. apply fol_head; try reflexivity. intros c H. destruct (ws_cases c H) as [->|[->| ->]]; reflexivity. Qed.

Lemma alpha_cases c : is_alpha_ c = true -> (97 <= c <= 122) \/ (65 <= c <= 90) \/ c = 95.
Proof.
  unfold is_alpha_. intros H.
  apply orb_true_iff in H as [H|H]; [apply orb_true_iff in H as [H|H]|].
  - apply andb_true_iff in H as [H1 H2]. apply N.leb_le in H1, H2. lia.
  - apply andb_true_iff in H as [H1 H2]. apply N.leb_le in H1, H2. lia.
  - apply N.eqb_eq in H. lia.
Qed.

Lemma digit_cases c : is_digit c = true -> 48 <= c <= 57.
Proof. unfold is_digit. intros H. apply andb_true_iff in H as [H1 H2]. apply N.leb_le in H1, H2. lia. Qed.

Lemma lit1_ne k c s : c <> k -> lit [k] (c :: s) = None.
Proof. intros H. simpl. destruct (k =? c) eqn:E; [apply N.eqb_eq in E; congruence|reflexivity]. Qed.
Lemma lit1_eq k s : lit [k] (k :: s) = Some s.
Proof. simpl. now rewrite N.eqb_refl. Qed.
Lemma lit_ne_head k l c s : c <> k -> lit (k :: l) (c :: s) = None.
Proof. intros H. simpl. destruct (k =? c) eqn:E; [apply N.eqb_eq in E; congruence|reflexivity]. Qed.

Lemma alpha_nows c : is_alpha_ c = true -> is_ws c = false.
Proof.
  intros H. apply alpha_cases in H. unfold is_ws.
  repeat (apply orb_false_iff; split); apply N.eqb_neq; lia.
Qed.
Lemma digit_nows c : is_digit c = true -> is_ws c = false.
Proof.
  intros H. apply digit_cases in H. unfold is_ws.
  repeat (apply orb_false_iff; split); apply N.eqb_neq; lia.
Qed.

Lemma dec_str_head n r : exists c t, dec_str n ++ r = c :: t /\ is_digit c = true.
Proof.
  destruct (dec_str_spec n) as (ds & E & Hne & Hd & _). rewrite E.
  destruct ds as [|c ds]; [congruence|]. simpl in Hd. apply andb_true_iff in Hd as [Hc _].
  exists c, (ds ++ r). split; [reflexivity|exact Hc].
Qed.

Section WithPE.
Variable pe : str -> option (expr * str).

Lemma base_one r : p_base pe (49 :: r) = Some (EOperand 0, r).
Proof. unfold p_base. rewrite lit1_ne by lia. unfold alt, p_operand. rewrite lit1_eq. reflexivity. Qed.

Lemma base_index p r : p_base pe (pr (EOperand (N.pos p)) ++ r) = Some (EOperand (N.pos p), r).
Proof.
  cbn [pr]. rewrite <- !app_assoc. cbn [app].
  unfold p_base. rewrite lit1_ne by lia. unfold alt at 1. unfold p_operand.
  rewrite lit1_ne by lia. unfold alt at 1. rewrite lit1_eq. unfold alt at 1.
  destruct (dec_str_head (N.pos p) (93 :: r)) as (c & t & E & Hc).
  rewrite skipws_nows by (rewrite E; simpl; now apply digit_nows).
  rewrite p_uint_dec by reflexivity.
  rewrite skipws_nows by reflexivity. rewrite lit1_eq. reflexivity.
Qed.

Lemma base_ident s r : wf_ident s -> sepr r -> p_base pe (s ++ r) = Some (EIdent s, r).
Proof.
  destruct s as [|c t]; [intros []|]. intros (Hc & Ht & _) Hr. cbn [app].
  pose proof (alpha_cases c Hc) as Hcc.
  unfold p_base. rewrite lit1_ne by lia. unfold alt at 1. unfold p_operand.
  rewrite lit1_ne by lia. unfold alt at 1. rewrite lit1_ne by lia. unfold alt at 1.
  unfold p_ident. rewrite Hc. rewrite (span_app _ _ _ Ht Hr). reflexivity.
Qed.
End WithPE.
