From Coq Require Import List NArith Lia Bool.
Import ListNotations.
Open Scope N_scope.

Notation byte := N (only parsing).
Notation str := (list N) (only parsing).

Inductive expr :=
| EOperand (i : N)
| EIdent (s : str)
| EAdd (x y : expr)
| EShift (x : expr) (s : N)
| EDouble (x : expr).

Definition is_ws (c : byte) := (c =? 32) || (c =? 9) || (c =? 13).
Definition is_digit (c : byte) := (48 <=? c) && (c <=? 57).
Definition is_alpha_ (c : byte) := ((97 <=? c) && (c <=? 122)) || ((65 <=? c) && (c <=? 90)) || (c =? 95).
Definition is_idc (c : byte) := is_alpha_ c || is_digit c.

Fixpoint skipws (s : str) : str :=
  match s with
  | c :: r => if is_ws c then skipws r else s
  | [] => []
  end.

Fixpoint span (p : byte -> bool) (s : str) : str * str :=
  match s with
  | c :: r => if p c then let '(a, b) := span p r in (c :: a, b) else ([], s)
  | [] => ([], [])
  end.

Fixpoint lit (l s : str) : option str :=
  match l, s with
  | [], _ => Some s
  | a :: l', b :: s' => if a =? b then lit l' s' else None
  | _ :: _, [] => None
  end.

Definition p_ident (s : str) : option (str * str) :=
  match s with
  | c :: r => if is_alpha_ c then let '(a, b) := span is_idc r in Some (c :: a, b) else None
  | [] => None
  end.

Fixpoint dec_val (acc : N) (ds : str) : N :=
  match ds with
  | d :: r => dec_val (acc * 10 + (d - 48)) r
  | [] => acc
  end.

Definition p_uint (s : str) : option (N * str) :=
  let '(ds, r) := span is_digit s in
  match ds with
  | [] => None
  | _ => Some (dec_val 0 ds, r)
  end.

Definition alt {A} (a b : option A) := match a with Some x => Some x | None => b end.

Definition p_addop (s : str) : option str := alt (lit [43] s) (lit [97;100;100] s).
Definition p_shiftop (s : str) : option str := alt (lit [60;60] s) (lit [115;104;108] s).
Definition p_dblop (s : str) : option str :=
  alt (match lit [50] s with Some r => lit [42] (skipws r) | None => None end) (lit [100;98;108] s).

Definition p_operand (s : str) : option (expr * str) :=
  alt (match lit [49] s with Some r => Some (EOperand 0, r) | None => None end)
  (alt (match lit [91] s with
        | Some r => match p_uint (skipws r) with
                    | Some (n, r2) => match lit [93] (skipws r2) with Some r3 => Some (EOperand n, r3) | None => None end
                    | None => None end
        | None => None end)
       (match p_ident s with Some (i, r) => Some (EIdent i, r) | None => None end)).

Section Fuel.
Variable p_expr : str -> option (expr * str).

Definition p_base (s : str) : option (expr * str) :=
  alt (match lit [40] s with
       | Some r => match p_expr (skipws r) with
                   | Some (e, r2) => match lit [41] (skipws r2) with Some r3 => Some (e, r3) | None => None end
                   | None => None end
       | None => None end)
      (p_operand s).

Definition p_shift (s : str) : option (expr * str) :=
  alt (match p_base (skipws s) with
       | Some (x, r) => match p_shiftop (skipws r) with
                        | Some r2 => match p_uint (skipws r2) with
                                     | Some (n, r3) => Some (EShift x n, skipws r3)
                                     | None => None end
                        | None => None end
       | None => None end)
  (alt (match p_dblop (skipws s) with
        | Some r => match p_base (skipws r) with Some (x, r2) => Some (EDouble x, r2) | None => None end
        | None => None end)
       (p_base s)).

Fixpoint p_addrest (fuel : nat) (acc : expr) (s : str) : expr * str :=
  match fuel with
  | O => (acc, s)
  | S f =>
    match p_addop (skipws s) with
    | Some r => match p_shift (skipws r) with
                | Some (y, r2) => p_addrest f (EAdd acc y) r2
                | None => (acc, s) end
    | None => (acc, s)
    end
  end.

Definition p_add (fuel : nat) (s : str) : option (expr * str) :=
  match p_shift (skipws s) with
  | Some (x, r) => let '(e, r2) := p_addrest fuel x r in Some (e, skipws r2)
  | None => None
  end.
End Fuel.

Fixpoint p_expr (fuel : nat) (s : str) : option (expr * str) :=
  match fuel with
  | O => None
  | S f => p_add (p_expr f) (length s) s
  end.

Fixpoint dec_aux (fuel : nat) (n : N) (acc : str) : str :=
  match fuel with
  | O => acc
  | S f => if n <? 10 then (n + 48) :: acc else dec_aux f (n / 10) ((n mod 10 + 48) :: acc)
  end.
Definition dec_str (n : N) : str := dec_aux (S (N.to_nat (N.size n))) n [].

Definition is_op (e : expr) := match e with EAdd _ _ | EShift _ _ | EDouble _ => true | _ => false end.
Definition is_add (e : expr) := match e with EAdd _ _ => true | _ => false end.
Definition paren (b : bool) (s : str) : str := if b then [40] ++ s ++ [41] else s.

Fixpoint pr (e : expr) : str :=
  match e with
  | EOperand 0 => [49]
  | EOperand i => [91] ++ dec_str i ++ [93]
  | EIdent s => s
  | EAdd x y => pr x ++ [32;43;32] ++ paren (is_add y) (pr y)
  | EShift x s => paren (is_op x) (pr x) ++ [32;60;60;32] ++ dec_str s
  | EDouble x => [50;42] ++ paren (is_op x) (pr x)
  end.
