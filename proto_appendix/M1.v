Require Import A A1 A2.
From Coq Require Import List NArith Lia Bool Arith.
Import ListNotations.

(* the variable given to an instruction's output differs from that of every other value live after it,
   even when the output itself is dead *)
Lemma out_conflict i rest k : wf (i :: rest) -> L rest k -> k <> out i ->
  exists vk vo, lookup k (var (scanr (i :: rest))) = Some vk /\ lookup (out i) (var (scanr (i :: rest))) = Some vo /\ vk <> vo.
Proof.
  intros Hw Hk Hne. destruct Hw as (Hno & Hins & Hw).
  pose proof (scan_inv rest Hw) as HG.
  destruct (allocate_any _ _ (scanr rest) (out i) HG Hno) as [(H1 & H2 & _) _].
  set (a1 := allocate (scanr rest) (out i)) in *.
  destruct (lookup k (var a1)) as [vk|] eqn:Ek; [|exfalso; apply (proj2 (H1 k)); auto].
  destruct (lookup (out i) (var a1)) as [vo|] eqn:Eo; [|exfalso; apply (proj2 (H1 (out i))); auto].
  assert (Hst : stable a1 (scanr (i :: rest))).
  { cbn [scanr]. unfold step. fold a1. eapply stable_trans; [|apply allocate_list_stable].
    rewrite Eo. intros ? ? Hx; exact Hx. }
  exists vk, vo. repeat split; try (apply Hst; assumption).
  apply (H2 k (out i) vk vo); auto.
Qed.

Section Exec.
Variable name : Type.
Variable P : list instr.
Hypothesis HwP : wf P.
Variable nm : nat -> name.       (* operand index -> register (cell) after Allocator.Execute; in aliased mode the
                                    input and output names denote one cell *)
(* the only separation fact the simulation needs: an instruction's output register holds no other value needed later *)
Hypothesis Hsep : forall pre i q, P = pre ++ i :: q -> forall j, L q j -> j <> out i -> nm j <> nm (out i).
Variable name_eqb : name -> name -> bool.
Hypothesis name_eqb_spec : forall a b, name_eqb a b = true <-> a = b.

(* arithmetic meaning of an instruction, and the chain values it defines *)
Variable sem : instr -> list N -> N.
Variable cv : nat -> N.
Hypothesis Hcv : forall i, In i P -> cv (out i) = sem i (map cv (ins i)).

Definition regs := name -> N.
Definition exec1 (r : regs) (i : instr) : regs :=
  let v := sem i (map (fun x => r (nm x)) (ins i)) in
  fun a => if name_eqb a (nm (out i)) then v else r a.
Definition exec (r : regs) (is : list instr) : regs := fold_left exec1 is r.

(* after running a prefix, every value still needed sits in its register *)
Lemma exec_inv : forall q pre r, P = pre ++ q -> (forall k, L q k -> r (nm k) = cv k) ->
  forall k, (q <> [] -> k = out (last q {| out := 0; ins := [] |})) -> q <> [] -> (exec r q) (nm k) = cv k.
Proof.
  induction q as [|i q IH]; intros pre r EP Hr k Hk Hne; [congruence|].
  assert (Hwq : wf (i :: q)) by (rewrite EP in HwP; eapply wf_app; eauto).
  assert (HinP : In i P) by (rewrite EP; apply in_or_app; simpl; auto).
  cbn [exec fold_left]. fold (exec (exec1 r i) q).
  (* the instruction computes the chain value *)
  assert (Hval : sem i (map (fun x => r (nm x)) (ins i)) = cv (out i)).
  { rewrite Hcv by assumption. f_equal. apply map_ext_in. intros x Hx. apply Hr.
    split; [unfold reads; simpl; apply in_or_app; auto|]. destruct Hwq as (_ & Hins & _). apply Hins, Hx. }
  (* registers of values needed later are preserved or freshly correct *)
  assert (Hr' : forall j, L q j -> (exec1 r i) (nm j) = cv j).
  { intros j Hj. unfold exec1. destruct (name_eqb (nm j) (nm (out i))) eqn:E.
    - apply name_eqb_spec in E. destruct (Nat.eq_dec j (out i)) as [->|Hjo]; [exact Hval|]. exfalso.
      exact (Hsep pre i q EP j Hj Hjo E).
    - apply Hr. destruct Hj as [Hjr Hjo]. split.
      + unfold reads. simpl. apply in_or_app. auto.
      + simpl. intros [E0|E0]; [|contradiction]. subst j.
        assert (name_eqb (nm (out i)) (nm (out i)) = true) by (apply name_eqb_spec; reflexivity). congruence. }
  destruct q as [|i2 q2].
  - (* i was the last instruction: k is its output *)
    simpl. rewrite (Hk Hne). simpl. unfold exec1.
    assert (name_eqb (nm (out i)) (nm (out i)) = true) as -> by (apply name_eqb_spec; reflexivity). exact Hval.
  - apply (IH (pre ++ [i]) (exec1 r i)); [rewrite <- app_assoc; exact EP|exact Hr'| |discriminate].
    intros _. rewrite (Hk Hne). reflexivity.
Qed.

(* executing the allocated program leaves the last chain value in the register of the last output;
   the input register (index 0 is never an output) is never written if its name is not reused for an output *)
Theorem exec_correct r0 : P <> [] -> (forall k, L P k -> r0 (nm k) = cv k) ->
  let final := out (last P {| out := 0; ins := [] |}) in (exec r0 P) (nm final) = cv final.
Proof.
  intros Hne Hr0 final. apply (exec_inv P [] r0 eq_refl Hr0 final); auto.
Qed.
End Exec.

(* separate (non-aliased) mode: any naming that gives distinct names to distinct variables satisfies Hsep *)
Lemma sep_from_vars (name : Type) (P : list instr) (nm : nat -> name) : wf P ->
  (forall j k vj vk, lookup j (var (scanr P)) = Some vj -> lookup k (var (scanr P)) = Some vk -> vj <> vk -> nm j <> nm k) ->
  forall pre i q, P = pre ++ i :: q -> forall j, L q j -> j <> out i -> nm j <> nm (out i).
Proof.
  intros HwP Hname pre i q EP j Hj Hjo.
  assert (Hwq : wf (i :: q)) by (rewrite EP in HwP; eapply wf_app; eauto).
  destruct (out_conflict i q j Hwq Hj Hjo) as (vj & vo & Ej & Eo & Hd).
  assert (Hst : stable (scanr (i :: q)) (scanr P)) by (rewrite EP; apply scan_stable).
  apply (Hname j (out i) vj vo); [apply Hst, Ej|apply Hst, Eo|exact Hd].
Qed.
Print Assumptions exec_correct.
Print Assumptions sep_from_vars.
