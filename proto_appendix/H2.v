Require Import U.
From Coq Require Import List NArith Lia Bool Arith.
Import ListNotations.
Open Scope N_scope.

Lemma pow_pos n : 1 <= 2 ^ N.of_nat n.
Proof. assert (2 ^ N.of_nat n <> 0) by (apply N.pow_nonzero; lia). lia. Qed.

Lemma shl_0 x : shl x 0 = x.
Proof. unfold shl. simpl. lia. Qed.
Lemma shl_S x t : shl x (S t) = shl x t + shl x t.
Proof. unfold shl. rewrite Nat2N.inj_succ, N.pow_succ_r'. lia. Qed.
Lemma ones_add a b : ones (a + b) = shl (ones b) a + ones a.
Proof.
  unfold ones, shl. rewrite Nat2N.inj_add, N.pow_add_r.
  pose proof (pow_pos a). pose proof (pow_pos b).
  remember (2 ^ N.of_nat a) as A. remember (2 ^ N.of_nat b) as B.
  rewrite N.mul_sub_distr_r. nia.
Qed.

(* a list built from [1] by appending sums of two members *)
Inductive built : list N -> Prop :=
| b_one : built [1]
| b_app c x u v : built c -> In u c -> In v c -> u + v = x -> built (c ++ [x]).

Lemma get_set_eq s b v : get (set s b v) b = v.
Proof. unfold set. simpl. now rewrite Nat.eqb_refl. Qed.
Lemma get_set_neq s b b' v : b <> b' -> get (set s b v) b' = get s b'.
Proof. intros H. unfold set. simpl. destruct (b =? b')%nat eqn:E; [apply Nat.eqb_eq in E; congruence|reflexivity]. Qed.

(* appending the shifts sb+1 .. sb+cnt of r(b), given that shift sb is present *)
Lemma append_shifts b : forall cnt sb c, built c -> In (shl (ones b) sb) c ->
  built (c ++ map (fun t => shl (ones b) t) (seq (S sb) cnt)) /\
  forall t, (sb <= t <= sb + cnt)%nat -> In (shl (ones b) t) (c ++ map (fun t => shl (ones b) t) (seq (S sb) cnt)).
Proof.
  induction cnt as [|cnt IH]; intros sb c Hb Hin; simpl.
  - rewrite app_nil_r. split; [assumption|]. intros t Ht. replace t with sb by lia. assumption.
  - assert (Hb1 : built (c ++ [shl (ones b) (S sb)])).
    { eapply b_app; eauto. symmetry. apply shl_S. }
    destruct (IH (S sb) (c ++ [shl (ones b) (S sb)]) Hb1) as [Hb2 Hin2].
    { apply in_or_app. right. simpl; auto. }
    rewrite <- app_assoc in Hb2, Hin2. simpl in Hb2, Hin2. split; [exact Hb2|].
    intros t Ht. destruct (Nat.eq_dec t sb) as [->|Hne].
    + apply in_or_app. left. assumption.
    + apply Hin2. lia.
Qed.

Section Lengths.
Variable lc : list nat.
Variable p : list (nat * nat).
Hypothesis Hlen : length lc = S (length p).
Hypothesis Hlc0 : nth 0 lc 0%nat = 1%nat.
Hypothesis Hpos : forall i, (i < length lc)%nat -> (1 <= nth i lc 0)%nat.
Hypothesis Hp : forall m, (m < length p)%nat ->
  (fst (nth m p (0,0)) <= m /\ snd (nth m p (0,0)) <= m)%nat /\
  (nth (fst (nth m p (0,0))) lc 0 + nth (snd (nth m p (0,0))) lc 0 = nth (S m) lc 0)%nat.

Definition Inv (m : nat) (st : list N * smap) : Prop :=
  let '(c, s) := st in
  built c /\
  (forall i, (i <= m)%nat -> In (ones (nth i lc 0%nat)) c) /\
  (forall b t, (1 <= t <= get s b)%nat -> In (shl (ones b) t) c) /\
  (forall b, (0 < get s b)%nat -> In (ones b) c).

Lemma step_inv m st : (m < length p)%nat -> Inv m st -> Inv (S m) (step lc st (nth m p (0,0)%nat)).
Proof.
  intros Hm. destruct st as [c s]. intros (Hb & H1 & H2 & H3).
  destruct (Hp m Hm) as [[Hi Hj] Hsum]. set (o := nth m p (0,0)%nat) in *.
  unfold step. set (x := nth (fst o) lc 0%nat) in *. set (y := nth (snd o) lc 0%nat) in *.
  set (a := Nat.min x y). set (b := Nat.max x y). set (sb := get s b).
  assert (Ha1 : (1 <= a)%nat).
  { pose proof (Hpos (fst o) ltac:(lia)). pose proof (Hpos (snd o) ltac:(lia)). unfold a. fold x y in H, H0. lia. }
  assert (Hina : In (ones a) c).
  { unfold a. destruct (Nat.min_dec x y) as [-> | ->]; [apply (H1 (fst o))|apply (H1 (snd o))]; lia. }
  assert (Hinb : In (ones b) c).
  { unfold b. destruct (Nat.max_dec x y) as [-> | ->]; [apply (H1 (fst o))|apply (H1 (snd o))]; lia. }
  assert (Hsrc : In (shl (ones b) sb) c).
  { destruct sb as [|sb'] eqn:Esb; [rewrite shl_0; assumption|]. apply H2. unfold sb in Esb. lia. }
  destruct (append_shifts b (a - sb) sb c Hb Hsrc) as [Hb' Hin'].
  set (c1 := c ++ map (fun t => shl (ones b) t) (seq (S sb) (a - sb))) in *.
  assert (Hinc : forall z, In z c -> In z c1) by (intros z Hz; unfold c1; apply in_or_app; auto).
  assert (Hshift_a : In (shl (ones b) a) c1).
  { destruct (Nat.le_gt_cases a sb).
    - apply Hinc. apply H2. lia.
    - apply Hin'. lia. }
  rewrite app_assoc. fold c1.
  assert (Hfinal : built (c1 ++ [ones (a + b)])).
  { eapply b_app; [exact Hb'|exact Hshift_a|apply Hinc; exact Hina|]. symmetry. apply ones_add. }
  assert (Hab : (a + b = nth (S m) lc 0)%nat) by (unfold a, b; lia).
  split; [exact Hfinal|]. split; [|split].
  - intros i Hile. destruct (Nat.eq_dec i (S m)) as [->|Hne].
    + rewrite <- Hab. apply in_or_app. right. simpl; auto.
    + apply in_or_app. left. apply Hinc. apply H1. lia.
  - intros b' t Ht. apply in_or_app. left.
    destruct (sb <? a)%nat eqn:E.
    + apply Nat.ltb_lt in E. destruct (Nat.eq_dec b b') as [<-|Hne].
      * rewrite get_set_eq in Ht. destruct (Nat.le_gt_cases t sb); [apply Hinc, H2; lia|apply Hin'; lia].
      * rewrite get_set_neq in Ht by assumption. apply Hinc, H2. assumption.
    + apply Hinc, H2. assumption.
  - intros b' Hg. apply in_or_app. left. apply Hinc.
    destruct (sb <? a)%nat eqn:E.
    + destruct (Nat.eq_dec b b') as [<-|Hne]; [assumption|]. rewrite get_set_neq in Hg by assumption. now apply H3.
    + now apply H3.
Qed.

Lemma fold_inv : forall rest pre st, p = pre ++ rest -> Inv (length pre) st ->
  Inv (length p) (fold_left (step lc) rest st).
Proof.
  induction rest as [|o rest IH]; intros pre st Hp' HI; simpl.
  - rewrite Hp', app_nil_r. exact HI.
  - assert (Eo : o = nth (length pre) p (0,0)%nat).
    { rewrite Hp'. rewrite app_nth2 by lia. now rewrite Nat.sub_diag. }
    assert (Hlt : (length pre < length p)%nat) by (rewrite Hp', app_length; simpl; lia).
    specialize (IH (pre ++ [o]) (step lc st o)). rewrite app_length in IH. simpl in IH.
    rewrite Nat.add_1_r in IH. apply IH.
    + rewrite <- app_assoc. exact Hp'.
    + rewrite Eo. now apply step_inv.
Qed.

Theorem runs_chain_ok :
  built (runs_chain lc p) /\ forall i, (i < length lc)%nat -> In (ones (nth i lc 0%nat)) (runs_chain lc p).
Proof.
  unfold runs_chain.
  assert (HI : Inv 0 ([1], [])).
  { split; [constructor|]. split; [|split].
    - intros i Hi. replace i with 0%nat by lia. rewrite Hlc0. simpl. auto.
    - intros b t Ht. simpl in Ht. lia.
    - intros b Hg. simpl in Hg. lia. }
  pose proof (fold_inv p [] ([1], []) eq_refl HI) as HF.
  destruct (fold_left (step lc) p ([1], [])) as [c s]. destruct HF as (Hb & H1 & _).
  split; [exact Hb|]. intros i Hi. apply H1. lia.
Qed.
End Lengths.
Print Assumptions runs_chain_ok.
