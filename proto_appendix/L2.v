Require Import B D.
From Coq Require Import List NArith Lia Bool Arith.
Import ListNotations.

Lemma run_ir_app a : forall b vs, run_ir (a ++ b) vs = match run_ir a vs with Some vs' => run_ir b vs' | None => None end.
Proof. induction a as [|i a IH]; intros b vs; simpl; [reflexivity|]. destruct (exec_inst vs i); auto. Qed.
Lemma doublings_length s : forall vs x, length (doublings vs x s) = length vs + s.
Proof. induction s as [|s IH]; intros vs x; simpl; [lia|]. rewrite IH, app_length. simpl. lia. Qed.

Definition Rel (ts : tst) (vs : list N) : Prop := run_ir (emitted ts) [1%N] = Some vs /\ n ts = length vs.
Definition Poison (ts : tst) : Prop := forall extra, run_ir (emitted ts ++ extra) [1%N] = None.

Lemma tr_expr_append e : forall st x st', tr_expr e st = Some (x, st') ->
  vars st' = vars st /\ exists extra, emitted st' = emitted st ++ extra.
Proof.
  induction e as [i|s|a IHa b IHb|a IHa|a IHa s]; intros st x st' H; simpl in H.
  - inversion H; subst. split; [reflexivity|exists []; now rewrite app_nil_r].
  - destruct (lookup s (vars st)); inversion H; subst. split; [reflexivity|exists []; now rewrite app_nil_r].
  - destruct (tr_expr a st) as [[ia st1]|] eqn:Ea; [|discriminate].
    destruct (tr_expr b st1) as [[ib st2]|] eqn:Eb; [|discriminate]. inversion H; subst. simpl.
    destruct (IHa _ _ _ Ea) as [V1 [x1 E1]]. destruct (IHb _ _ _ Eb) as [V2 [x2 E2]].
    split; [congruence|]. rewrite E2, E1, <- !app_assoc. eauto.
  - destruct (tr_expr a st) as [[ia st1]|] eqn:Ea; [|discriminate]. inversion H; subst. simpl.
    destruct (IHa _ _ _ Ea) as [V1 [x1 E1]]. split; [congruence|]. rewrite E1, <- !app_assoc. eauto.
  - destruct (tr_expr a st) as [[ia st1]|] eqn:Ea; [|discriminate]. inversion H; subst. simpl.
    destruct (IHa _ _ _ Ea) as [V1 [x1 E1]]. split; [congruence|]. rewrite E1, <- !app_assoc. eauto.
Qed.

Lemma poison_mono ts ts' extra : Poison ts -> emitted ts' = emitted ts ++ extra -> Poison ts'.
Proof. intros HP E more. rewrite E, <- app_assoc. apply HP. Qed.

Lemma poison_expr e ts : Poison ts -> tr_expr e ts = None \/ exists i ts', tr_expr e ts = Some (i, ts') /\ Poison ts' /\ vars ts' = vars ts.
Proof.
  intros HP. destruct (tr_expr e ts) as [[i ts']|] eqn:E; [right|left; reflexivity].
  destruct (tr_expr_append _ _ _ _ E) as [V [extra Ee]]. exists i, ts'. repeat split; auto. eapply poison_mono; eauto.
Qed.

(* emitting an instruction that the interpreter rejects poisons the state; one it accepts extends Rel *)
Lemma emit_fail ts vs o w : Rel ts vs -> exec_inst vs {| out := n ts + w - 1; op := o |} = None -> Poison (snd (emit ts o w)).
Proof.
  intros [HR _] Hf extra. unfold emit. cbn [snd emitted]. rewrite <- app_assoc, run_ir_app, HR. simpl. now rewrite Hf.
Qed.
Lemma emit_ok ts vs vs' o w : Rel ts vs -> exec_inst vs {| out := n ts + w - 1; op := o |} = Some vs' ->
  length vs' = length vs + w -> Rel (snd (emit ts o w)) vs'.
Proof.
  intros [HR Hn] He Hl. unfold emit, Rel. cbn [snd emitted n]. rewrite run_ir_app, HR. simpl. rewrite He. split; [reflexivity|lia].
Qed.

Definition sim_result (ts : tst) (r : option (nat * list N)) (t : option (nat * tst)) : Prop :=
  match r with
  | Some (i, vs') => exists ts', t = Some (i, ts') /\ Rel ts' vs' /\ vars ts' = vars ts
  | None => t = None \/ exists i ts', t = Some (i, ts') /\ Poison ts' /\ vars ts' = vars ts
  end.

Lemma expr_sim e : forall ts vs, Rel ts vs -> sim_result ts (den_expr e vs (vars ts)) (tr_expr e ts).
Proof.
  induction e as [i|s|a IHa b IHb|a IHa|a IHa s]; intros ts vs HR; cbn [den_expr tr_expr].
  - exists ts. auto.
  - destruct (lookup s (vars ts)); [exists ts; auto|left; reflexivity].
  - specialize (IHa ts vs HR). destruct (den_expr a vs (vars ts)) as [[ix vs1]|].
    + destruct IHa as (ts1 & -> & HR1 & V1). rewrite <- V1. specialize (IHb ts1 vs1 HR1).
      destruct (den_expr b vs1 (vars ts1)) as [[iy vs2]|].
      * destruct IHb as (ts2 & -> & HR2 & V2).
        set (ins := {| out := n ts2 + 1 - 1; op := canon (IAdd ix iy) |}).
        assert (Hex : exec_inst vs2 ins =
          if (ix <? length vs2) && (iy <? length vs2) then Some (vs2 ++ [(val vs2 ix + val vs2 iy)%N]) else None).
        { unfold exec_inst, ins, canon. cbn [op out]. destruct HR2 as [_ Hn]. 
          replace (n ts2 + 1 - 1 =? length vs2) with true by (symmetry; apply Nat.eqb_eq; lia).
          destruct (iy <? ix); cbn [op]; rewrite ?andb_true_r; [rewrite andb_comm, N.add_comm|]; reflexivity. }
        destruct ((ix <? length vs2) && (iy <? length vs2)) eqn:Eb.
        -- exists (snd (emit ts2 (canon (IAdd ix iy)) 1)). split.
           { unfold emit. cbn [snd]. do 2 f_equal. destruct HR2; lia. }
           split; [|simpl; congruence].
           eapply emit_ok; eauto. rewrite app_length. simpl. reflexivity.
        -- right. eexists _, _. split; [reflexivity|]. split; [|simpl; congruence]. eapply emit_fail; eauto.
      * destruct IHb as [->|(iy & ts2 & -> & HP & V2)]; [left; reflexivity|].
        right. eexists _, _. split; [reflexivity|]. split; [|simpl; congruence].
        eapply poison_mono; [exact HP|]. unfold emit. cbn [snd emitted]. reflexivity.
    + destruct IHa as [->|(ix & ts1 & -> & HP & V1)]; [left; reflexivity|].
      destruct (poison_expr b ts1 HP) as [->|(iy & ts2 & -> & HP2 & V2)]; [left; reflexivity|].
      right. eexists _, _. split; [reflexivity|]. split; [|simpl; congruence].
      eapply poison_mono; [exact HP2|]. unfold emit. cbn [snd emitted]. reflexivity.
  - specialize (IHa ts vs HR). destruct (den_expr a vs (vars ts)) as [[ix vs1]|].
    + destruct IHa as (ts1 & -> & HR1 & V1).
      set (ins := {| out := n ts1 + 1 - 1; op := IDbl ix |}).
      assert (Hex : exec_inst vs1 ins = if ix <? length vs1 then Some (vs1 ++ [(val vs1 ix + val vs1 ix)%N]) else None).
      { unfold exec_inst, ins. cbn [op out]. destruct HR1 as [_ Hn].
        replace (n ts1 + 1 - 1 =? length vs1) with true by (symmetry; apply Nat.eqb_eq; lia). now rewrite andb_true_r. }
      destruct (ix <? length vs1) eqn:Eb.
      * exists (snd (emit ts1 (IDbl ix) 1)). split.
        { unfold emit. cbn [snd]. do 2 f_equal. destruct HR1; lia. }
        split; [|simpl; congruence]. eapply emit_ok; eauto. rewrite app_length. simpl. reflexivity.
      * right. eexists _, _. split; [reflexivity|]. split; [|simpl; congruence]. eapply emit_fail; eauto.
    + destruct IHa as [->|(ix & ts1 & -> & HP & V1)]; [left; reflexivity|].
      right. eexists _, _. split; [reflexivity|]. split; [|simpl; congruence].
      eapply poison_mono; [exact HP|]. unfold emit. cbn [snd emitted]. reflexivity.
  - specialize (IHa ts vs HR). destruct (den_expr a vs (vars ts)) as [[ix vs1]|].
    + destruct IHa as (ts1 & -> & HR1 & V1).
      set (ins := {| out := n ts1 + s - 1; op := IShl ix s |}).
      assert (Hex : exec_inst vs1 ins = if (ix <? length vs1) && (1 <=? s) then Some (doublings vs1 ix s) else None).
      { unfold exec_inst, ins. cbn [op out]. destruct HR1 as [_ Hn].
        replace (n ts1 + s - 1 =? length vs1 + s - 1) with true by (symmetry; apply Nat.eqb_eq; lia). now rewrite andb_true_r. }
      destruct ((ix <? length vs1) && (1 <=? s)) eqn:Eb.
      * exists (snd (emit ts1 (IShl ix s) s)). split.
        { unfold emit. cbn [snd]. do 2 f_equal. destruct HR1; lia. }
        split; [|simpl; congruence]. eapply emit_ok; eauto. apply doublings_length.
      * right. eexists _, _. split; [reflexivity|]. split; [|simpl; congruence]. eapply emit_fail; eauto.
    + destruct IHa as [->|(ix & ts1 & -> & HP & V1)]; [left; reflexivity|].
      right. eexists _, _. split; [reflexivity|]. split; [|simpl; congruence].
      eapply poison_mono; [exact HP|]. unfold emit. cbn [snd emitted]. reflexivity.
Qed.
