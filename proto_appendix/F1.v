From Coq Require Import List ZArith Lia Bool Arith.
Import ListNotations.

(* ---------- model of Chain.Ops: two-pointer path vs quadratic path ---------- *)
Definition op := (nat * nat)%type.
Definition nz (c : list Z) (i : nat) : Z := nth i c 0%Z.
Definition sol (c : list Z) (k : nat) (o : op) : bool := (nz c (fst o) + nz c (snd o) =? nz c k)%Z.

(* quadratic: for i in [0,k), for j in [i,k) *)
Definition row (i hi : nat) : list op := map (pair i) (seq i (hi - i)).
Definition pairs (lo hi : nat) : list op := flat_map (fun i => row i hi) (seq lo (hi - lo)).
Definition ops_quad (c : list Z) (k : nat) : list op := filter (sol c k) (pairs 0 k).

(* two-pointer: l from 0 up, r = hi-1 from k-1 down; hi exclusive so that Go's r = -1 exit is hi = 0 *)
Fixpoint ops_2p_loop (fuel : nat) (c : list Z) (k l hi : nat) : list op :=
  match fuel with
  | O => []
  | S f =>
    if l <? hi then
      let s := (nz c l + nz c (hi - 1))%Z in
      if (s =? nz c k)%Z then (l, hi - 1) :: ops_2p_loop f c k (S l) hi
      else if (s <? nz c k)%Z then ops_2p_loop f c k (S l) hi
      else ops_2p_loop f c k l (hi - 1)
    else []
  end.
Definition ops_2p (c : list Z) (k : nat) : list op := ops_2p_loop (S k) c k 0 k.

Definition S_ (c : list Z) (k lo hi : nat) : list op := filter (sol c k) (pairs lo hi).

Lemma pairs_unfold lo hi : lo < hi -> pairs lo hi = row lo hi ++ pairs (S lo) hi.
Proof.
  intros H. unfold pairs. replace (hi - lo) with (S (hi - S lo)) by lia. reflexivity.
Qed.
Lemma pairs_empty lo hi : hi <= lo -> pairs lo hi = [].
Proof. intros H. unfold pairs. replace (hi - lo) with 0 by lia. reflexivity. Qed.

Lemma row_last i hi : i < hi -> row i hi = row i (hi - 1) ++ [(i, hi - 1)].
Proof.
  intros H. unfold row. replace (hi - i) with (S (hi - 1 - i)) by lia.
  rewrite seq_S, map_app. simpl. do 3 f_equal. lia.
Qed.

Lemma filter_nil {A} (f : A -> bool) l : (forall x, In x l -> f x = false) -> filter f l = [].
Proof. induction l as [|x t IH]; intros H; simpl; [reflexivity|]. rewrite (H x) by (simpl; auto). apply IH. intros; apply H; simpl; auto. Qed.
Lemma filter_flat_map {A B} (f : B -> bool) (g : A -> list B) l :
  filter f (flat_map g l) = flat_map (fun a => filter f (g a)) l.
Proof. induction l as [|x t IH]; simpl; [reflexivity|]. now rewrite filter_app, IH. Qed.
Lemma flat_map_ext_in' {A B} (f g : A -> list B) l : (forall a, In a l -> f a = g a) -> flat_map f l = flat_map g l.
Proof. induction l as [|x t IH]; intros H; simpl; [reflexivity|]. rewrite (H x) by (simpl; auto). f_equal. apply IH. intros; apply H; simpl; auto. Qed.
Lemma in_row i j i' hi : In (i, j) (row i' hi) <-> i = i' /\ i' <= j < hi.
Proof.
  unfold row. rewrite in_map_iff. split.
  - intros (y & E & Hy). inversion E; subst. apply in_seq in Hy. lia.
  - intros (-> & H). exists j. split; [reflexivity|apply in_seq; lia].
Qed.

Section Asc.
Variable c : list Z.
Variable k : nat.
Hypothesis Hasc : forall i j, i < j -> j < k -> (nz c i < nz c j)%Z.   (* c[:k] strictly ascending *)

Lemma asc_le i j : i <= j -> j < k -> (nz c i <= nz c j)%Z.
Proof. intros H1 H2. destruct (Nat.eq_dec i j) as [->|]; [lia|]. specialize (Hasc i j ltac:(lia) H2). lia. Qed.

(* sum at (l, hi-1) not above the target: only the last column of row l can match *)
Lemma case_le l hi : l < hi -> hi <= k -> (nz c l + nz c (hi - 1) <= nz c k)%Z ->
  S_ c k l hi = (if sol c k (l, hi - 1) then [(l, hi - 1)] else []) ++ S_ c k (S l) hi.
Proof.
  intros Hl Hh Hs. unfold S_. rewrite pairs_unfold by assumption. rewrite filter_app. f_equal.
  rewrite row_last by assumption. rewrite filter_app. simpl.
  rewrite filter_nil; [destruct (sol c k (l, hi - 1)); reflexivity|].
  intros [i j] Hin. apply in_row in Hin as (-> & Hj). unfold sol. simpl.
  apply Z.eqb_neq. specialize (Hasc j (hi - 1) ltac:(lia) ltac:(lia)). lia.
Qed.

(* sum at (l, hi-1) above the target: column hi-1 cannot match any row >= l *)
Lemma case_gt l hi : l < hi -> hi <= k -> (nz c k < nz c l + nz c (hi - 1))%Z ->
  S_ c k l hi = S_ c k l (hi - 1).
Proof.
  intros Hl Hh Hs. unfold S_, pairs. rewrite !filter_flat_map.
  replace (hi - l) with (S (hi - 1 - l)) by lia. rewrite seq_S, flat_map_app. simpl.
  replace (l + (hi - 1 - l)) with (hi - 1) by lia.
  assert (Hcol : forall i, l <= i -> i < hi -> sol c k (i, hi - 1) = false).
  { intros i H1 H2. unfold sol. simpl. apply Z.eqb_neq. pose proof (asc_le l i H1 ltac:(lia)). lia. }
  rewrite app_nil_r.
  assert (Elast : filter (sol c k) (row (hi - 1) hi) = []).
  { apply filter_nil. intros [i j] Hin. apply in_row in Hin as (-> & Hj). replace j with (hi - 1) by lia. apply Hcol; lia. }
  rewrite Elast, app_nil_r. apply flat_map_ext_in'. intros i Hi. apply in_seq in Hi.
  rewrite (row_last i hi) by lia. rewrite filter_app. simpl. rewrite Hcol by lia. now rewrite app_nil_r.
Qed.

Lemma loop_spec : forall fuel l hi, hi <= k -> hi - l < fuel -> ops_2p_loop fuel c k l hi = S_ c k l hi.
Proof.
  induction fuel as [|fuel IH]; intros l hi Hh Hf; [lia|]. cbn [ops_2p_loop].
  destruct (l <? hi) eqn:E.
  - apply Nat.ltb_lt in E.
    destruct (nz c l + nz c (hi - 1) =? nz c k)%Z eqn:Eeq.
    + apply Z.eqb_eq in Eeq. rewrite case_le by (try assumption; lia).
      unfold sol at 1. simpl. rewrite Eeq, Z.eqb_refl. simpl. f_equal. apply IH; lia.
    + apply Z.eqb_neq in Eeq. destruct (nz c l + nz c (hi - 1) <? nz c k)%Z eqn:Elt.
      * apply Z.ltb_lt in Elt. rewrite case_le by (try assumption; lia).
        unfold sol at 1. simpl. replace (nz c l + nz c (hi - 1) =? nz c k)%Z with false by (symmetry; apply Z.eqb_neq; lia).
        simpl. apply IH; lia.
      * apply Z.ltb_ge in Elt. rewrite case_gt by (try assumption; lia). apply IH; lia.
  - apply Nat.ltb_ge in E. unfold S_. now rewrite pairs_empty.
Qed.

Theorem ops_2p_quad : ops_2p c k = ops_quad c k.
Proof. unfold ops_2p, ops_quad. rewrite loop_spec by lia. reflexivity. Qed.
End Asc.
Print Assumptions ops_2p_quad.
