From Coq Require Import List ZArith Lia Bool.
Import ListNotations.
Open Scope Z_scope.

Inductive bop := Pow | Mul | Div | Add | Sub.
Inductive tok := TNum (n : Z) | TOp (o : bop).

Definition prec (o : bop) : nat := match o with Pow | Mul | Div => 3 | Add | Sub => 2 end.
Definition rassoc (o : bop) : bool := match o with Pow => true | _ => false end.

(* Go: Exp with y<=0 gives 1; Euclidean Div; model Div-by-zero as None *)
Definition ediv (x y : Z) : Z := if y <? 0 then - (x / (- y)) else x / y.
Definition apply (o : bop) (x y : Z) : option Z :=
  match o with
  | Pow => Some (if y <=? 0 then 1 else x ^ y)
  | Mul => Some (x * y)
  | Div => if y =? 0 then None else Some (ediv x y)
  | Add => Some (x + y)
  | Sub => Some (x - y)
  end.

(* next operator: Some o, or None = end of input (virtual precedence 0, left assoc) *)
Definition stop (top : bop) (nxt : option bop) : bool :=
  match nxt with
  | None => false
  | Some o => (prec top <? prec o)%nat || ((prec top =? prec o)%nat && rassoc o)
  end.

Fixpoint pop_while (nxt : option bop) (vs : list Z) (os : list bop) : option (list Z * list bop) :=
  match os with
  | [] => Some (vs, [])
  | top :: os' =>
    if stop top nxt then Some (vs, os)
    else match vs with
         | b :: a :: vs' => match apply top a b with Some z => pop_while nxt (z :: vs') os' | None => None end
         | _ => None
         end
  end.

(* run: expecting operand = true *)
Fixpoint run (ts : list tok) (expect_operand : bool) (vs : list Z) (os : list bop) : option Z :=
  match ts with
  | [] => match pop_while None vs os with
          | Some ([v], _) => Some v
          | _ => None
          end
  | TNum n :: ts' => if expect_operand then run ts' false (n :: vs) os else None
  | TOp o :: ts' => if expect_operand then None else
                    match pop_while (Some o) vs os with
                    | Some (vs', os') => run ts' true vs' (o :: os')
                    | None => None
                    end
  end.

Definition yard (ts : list tok) : option Z := run ts true [] [].

(* grammar *)
Inductive F : list tok -> Z -> Prop :=
| F_num n : F [TNum n] n
| F_pow n ts v z : F ts v -> apply Pow n v = Some z -> F (TNum n :: TOp Pow :: ts) z.
Inductive T : list tok -> Z -> Prop :=
| T_f ts v : F ts v -> T ts v
| T_mul ts1 ts2 v1 v2 o z : T ts1 v1 -> F ts2 v2 -> (o = Mul \/ o = Div) -> apply o v1 v2 = Some z ->
    T (ts1 ++ TOp o :: ts2) z.
Inductive E : list tok -> Z -> Prop :=
| E_t ts v : T ts v -> E ts v
| E_add ts1 ts2 v1 v2 o z : E ts1 v1 -> T ts2 v2 -> (o = Add \/ o = Sub) -> apply o v1 v2 = Some z ->
    E (ts1 ++ TOp o :: ts2) z.

Eval vm_compute in yard [TNum 2; TOp Mul; TNum 3; TOp Pow; TNum 2; TOp Pow; TNum 2; TOp Sub; TNum 7; TOp Div; TNum 2].

(* continuation after an expression value v has been pushed: either next operator+rest or end *)
Definition cont (nxt : option bop) (rest : list tok) : list tok :=
  match nxt with Some o => TOp o :: rest | None => [] end.
Definition wfcont (nxt : option bop) (rest : list tok) := nxt = None -> rest = [].

Definition after (nxt : option bop) (rest : list tok) (vs : list Z) (os : list bop) : option Z :=
  run (cont nxt rest) false vs os.

Lemma pop_pow nxt a b vs os z : nxt <> Some Pow -> apply Pow a b = Some z ->
  pop_while nxt (b :: a :: vs) (Pow :: os) = pop_while nxt (z :: vs) os.
Proof.
  intros Hn Hz. cbn [pop_while].
  assert (stop Pow nxt = false) as ->.
  { destruct nxt as [[]|]; simpl; try reflexivity. congruence. }
  now rewrite Hz.
Qed.

Lemma after_pop nxt rest vs os vs' os' :
  wfcont nxt rest ->
  pop_while nxt vs os = pop_while nxt vs' os' -> after nxt rest vs os = after nxt rest vs' os'.
Proof.
  intros Hw H. unfold after, cont. destruct nxt as [o|]; cbn [run].
  - now rewrite H.
  - now rewrite H.
Qed.

(* F_run: running a factor's tokens then the continuation = pushing its value then the continuation *)
Lemma F_run ts v : F ts v -> forall nxt rest vs os, nxt <> Some Pow -> wfcont nxt rest ->
  run (ts ++ cont nxt rest) true vs os = after nxt rest (v :: vs) os.
Proof.
  induction 1 as [n | n ts v z HF IH Hz]; intros nxt rest vs os Hn Hw.
  - reflexivity.
  - cbn [app run]. cbn [pop_while].
    (* pushing Pow never pops: top is anything; stop top (Some Pow) *)
    assert (Hp : pop_while (Some Pow) (n :: vs) os = Some (n :: vs, os)).
    { destruct os as [|top os]; [reflexivity|]. cbn [pop_while].
      assert (stop top (Some Pow) = true) as -> by (destruct top; reflexivity). reflexivity. }
    rewrite Hp. rewrite (IH nxt rest (n :: vs) (Pow :: os) Hn Hw).
    apply after_pop; [assumption|]. now apply pop_pow.
Qed.

Definition low (os : list bop) := Forall (fun o => (prec o < 3)%nat) os.

Lemma pop_low_mul o vs os : (o = Mul \/ o = Div) -> low os -> pop_while (Some o) vs os = Some (vs, os).
Proof.
  intros Ho Hl. destruct os as [|top os]; [reflexivity|]. cbn [pop_while].
  inversion Hl as [|? ? Ht _]; subst.
  assert (stop top (Some o) = true) as ->.
  { destruct Ho; subst; destruct top; simpl in *; try reflexivity; lia. }
  reflexivity.
Qed.

Lemma pop_mul nxt o a b vs os z : nxt <> Some Pow -> (o = Mul \/ o = Div) -> apply o a b = Some z ->
  pop_while nxt (b :: a :: vs) (o :: os) = pop_while nxt (z :: vs) os.
Proof.
  intros Hn Ho Hz. cbn [pop_while].
  assert (stop o nxt = false) as ->.
  { destruct nxt as [[]|]; destruct Ho; subst; simpl; try reflexivity; congruence. }
  now rewrite Hz.
Qed.

Lemma T_run ts v : T ts v -> forall nxt rest vs os, nxt <> Some Pow -> wfcont nxt rest -> low os ->
  run (ts ++ cont nxt rest) true vs os = after nxt rest (v :: vs) os.
Proof.
  induction 1 as [ts v HF | ts1 ts2 v1 v2 o z HT IH HF Ho Hz]; intros nxt rest vs os Hn Hw Hl.
  - now apply F_run.
  - rewrite <- app_assoc. cbn [app].
    change (TOp o :: ts2 ++ cont nxt rest) with (cont (Some o) (ts2 ++ cont nxt rest)).
    rewrite IH; [| destruct Ho; subst; congruence | unfold wfcont; congruence | assumption].
    unfold after at 1. cbn [cont run]. rewrite (pop_low_mul o _ _ Ho Hl).
    rewrite (F_run _ _ HF nxt rest (v1 :: vs) (o :: os) Hn Hw).
    apply after_pop; [assumption|]. now apply pop_mul.
Qed.

Lemma pop_add_nil o vs : pop_while (Some o) vs [] = Some (vs, []).
Proof. reflexivity. Qed.

Lemma pop_add nxt o a b vs z : (nxt = None \/ nxt = Some Add \/ nxt = Some Sub) -> (o = Add \/ o = Sub) ->
  apply o a b = Some z -> pop_while nxt (b :: a :: vs) [o] = pop_while nxt (z :: vs) [].
Proof.
  intros Hn Ho Hz. cbn [pop_while].
  assert (stop o nxt = false) as ->.
  { destruct Hn as [->|[->| ->]]; destruct Ho; subst; reflexivity. }
  now rewrite Hz.
Qed.

Lemma E_run ts v : E ts v -> forall nxt rest vs, (nxt = None \/ nxt = Some Add \/ nxt = Some Sub) -> wfcont nxt rest ->
  run (ts ++ cont nxt rest) true vs [] = after nxt rest (v :: vs) [].
Proof.
  induction 1 as [ts v HT | ts1 ts2 v1 v2 o z HE IH HT Ho Hz]; intros nxt rest vs Hn Hw.
  - apply T_run; auto. { destruct Hn as [->|[->| ->]]; congruence. } constructor.
  - rewrite <- app_assoc. cbn [app].
    change (TOp o :: ts2 ++ cont nxt rest) with (cont (Some o) (ts2 ++ cont nxt rest)).
    rewrite IH; [| destruct Ho; subst; auto | unfold wfcont; congruence].
    unfold after at 1. cbn [cont run pop_while].
    rewrite (T_run _ _ HT nxt rest (v1 :: vs) [o]).
    + apply after_pop; [assumption|]. now apply pop_add.
    + destruct Hn as [->|[->| ->]]; congruence.
    + assumption.
    + constructor; [destruct Ho; subst; simpl; lia | constructor].
Qed.

Theorem yard_complete ts v : E ts v -> yard ts = Some v.
Proof.
  intros HE. unfold yard.
  pose proof (E_run ts v HE None [] [] (or_introl eq_refl) (fun _ => eq_refl)) as H.
  cbn [cont] in H. rewrite app_nil_r in H. rewrite H. reflexivity.
Qed.
Print Assumptions yard_complete.
