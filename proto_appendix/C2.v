Require Import O.
From Coq Require Import List ZArith Lia Bool Arith FinFun.
Import ListNotations.

(* ---------- list plumbing ---------- *)
Lemma update_length {A} l (v : A) xs : length (update l v xs) = length xs.
Proof. revert l; induction xs as [|x t IH]; intros [|l]; simpl; auto. Qed.
Lemma nth_update_eq {A} l (v d : A) xs : l < length xs -> nth l (update l v xs) d = v.
Proof. revert l; induction xs as [|x t IH]; intros [|l] H; simpl in *; try lia; auto. apply IH; lia. Qed.
Lemma nth_update_neq {A} l l' (v d : A) xs : l <> l' -> nth l' (update l v xs) d = nth l' xs d.
Proof. revert l l'; induction xs as [|x t IH]; intros [|l] [|l'] H; simpl; auto; try lia. Qed.

Lemma bump_length cs i : length (bump cs i) = length cs.
Proof. apply update_length. Qed.
Lemma bump_mono cs i j : nth j cs 0 <= nth j (bump cs i) 0.
Proof.
  unfold bump. destruct (Nat.eq_dec i j) as [->|H].
  - destruct (Nat.lt_ge_cases j (length cs)).
    + rewrite nth_update_eq by assumption. lia.
    + rewrite (nth_overflow cs) by assumption. lia.
  - rewrite nth_update_neq by assumption. lia.
Qed.
Lemma bump_pos cs i : i < length cs -> 0 < nth i (bump cs i) 0.
Proof. intros H. unfold bump. rewrite nth_update_eq by assumption. lia. Qed.
Lemma bump_other cs i j : i <> j -> nth j (bump cs i) 0 = nth j cs 0.
Proof. intros H. unfold bump. now rewrite nth_update_neq. Qed.

Lemma bump_all_length os : forall cs, length (bump_all cs os) = length cs.
Proof. induction os as [|o os IH]; intros cs; simpl; [reflexivity|]. rewrite IH. apply bump_length. Qed.
Lemma bump_all_mono os : forall cs j, nth j cs 0 <= nth j (bump_all cs os) 0.
Proof.
  induction os as [|o os IH]; intros cs j; simpl; [lia|].
  eapply Nat.le_trans; [apply (bump_mono cs o j)|apply IH].
Qed.
Lemma bump_all_pos os : forall cs i, In i os -> i < length cs -> 0 < nth i (bump_all cs os) 0.
Proof.
  induction os as [|o os IH]; intros cs i Hin Hl; simpl in *; [tauto|].
  destruct Hin as [->|Hin].
  - eapply Nat.lt_le_trans; [apply (bump_pos cs i Hl)|apply bump_all_mono].
  - apply IH; [assumption|now rewrite bump_length].
Qed.
Lemma bump_all_other os : forall cs j, ~ In j os -> nth j (bump_all cs os) 0 = nth j cs 0.
Proof.
  induction os as [|o os IH]; intros cs j Hn; simpl in *; [reflexivity|].
  rewrite IH by tauto. apply bump_other. tauto.
Qed.

(* ---------- ops0 ---------- *)
Lemma in_pairs_le k i j : In (i, j) (pairs_le k) <-> i <= j < k.
Proof.
  unfold pairs_le. rewrite in_flat_map. split.
  - intros (x & Hx & Hin). apply in_seq in Hx. apply in_map_iff in Hin as (y & E & Hy).
    inversion E; subst. apply in_seq in Hy. lia.
  - intros H. exists i. split; [apply in_seq; lia|]. apply in_map, in_seq. lia.
Qed.

Lemma NoDup_app_intro {A} (a b : list A) : NoDup a -> NoDup b -> (forall x, In x a -> In x b -> False) -> NoDup (a ++ b).
Proof.
  induction a as [|x a IH]; intros Ha Hb Hd; simpl; [assumption|].
  inversion Ha as [|? ? Hnx Ha']; subst. constructor.
  - rewrite in_app_iff. intros [H|H]; [contradiction|]. apply (Hd x); simpl; auto.
  - apply IH; auto. intros y Hy1 Hy2. apply (Hd y); simpl; auto.
Qed.

Lemma NoDup_pairs_le k : NoDup (pairs_le k).
Proof.
  unfold pairs_le. generalize (seq_NoDup k 0). generalize (seq 0 k) as is.
  induction is as [|i is IH]; intros Hnd; simpl; [constructor|].
  inversion Hnd as [|? ? Hni Hnd']; subst.
  apply NoDup_app_intro; auto.
  - apply Injective_map_NoDup; [intros a b E; now inversion E|apply seq_NoDup].
  - intros [a b] H1 H2. apply in_map_iff in H1 as (y & E & _). inversion E; subst.
    apply in_flat_map in H2 as (x & Hx & Hin). apply in_map_iff in Hin as (z & E2 & _).
    inversion E2; subst. contradiction.
Qed.
