Require Import P R1 R2 R3.
From Coq Require Import List NArith Lia Bool Arith.
Import ListNotations.
Open Scope N_scope.

Fixpoint spine (e : expr) : expr * list expr :=
  match e with
  | EAdd x y => let '(h, ys) := spine x in (h, ys ++ [y])
  | _ => (e, [])
  end.

Definition item (y : expr) : list N := [32;43;32] ++ sp y.
Definition items (ys : list expr) : list N := concat (map item ys).

Lemma items_app a b : items (a ++ b) = items a ++ items b.
Proof. unfold items. now rewrite map_app, concat_app. Qed.

Lemma spine_spec e : let '(h, ys) := spine e in
  e = fold_left EAdd ys h /\ pr e = pr h ++ items ys /\ is_add h = false /\
  (size h <= size e)%nat /\ Forall (fun y => size y < size e)%nat ys /\
  (d h <= d e)%nat /\ Forall (fun y => dsp y <= d e)%nat ys /\
  (wf e -> wf h /\ Forall wf ys) /\ (ys = [] -> h = e).
Proof.
  assert (Hatom : forall e, is_add e = false -> let '(h, ys) := spine e in
  e = fold_left EAdd ys h /\ pr e = pr h ++ items ys /\ is_add h = false /\
  (size h <= size e)%nat /\ Forall (fun y => size y < size e)%nat ys /\
  (d h <= d e)%nat /\ Forall (fun y => dsp y <= d e)%nat ys /\
  (wf e -> wf h /\ Forall wf ys) /\ (ys = [] -> h = e)).
  { intros e0 H0. destruct e0; try discriminate; cbn [spine]; unfold items; cbn [map concat];
    rewrite ?app_nil_r; repeat split; auto. }
  induction e as [i|s|x IHx y _|x _ s|x _]; try (apply Hatom; reflexivity).
  cbn [spine]. destruct (spine x) as [h ys].
  destruct IHx as (E & Hp & Hh & Hs & Hys & Hd & Hdy & Hw & _).
  repeat split.
  - rewrite fold_left_app. cbn [fold_left]. now rewrite <- E.
  - cbn [pr]. rewrite Hp, items_app, <- app_assoc. f_equal. unfold items. cbn [map concat].
    rewrite app_nil_r. reflexivity.
  - exact Hh.
  - cbn [size]. lia.
  - apply Forall_app. split.
    + eapply Forall_impl; [|exact Hys]. cbn [size]. intros; lia.
    + constructor; [cbn [size]; lia|constructor].
  - cbn [d]. lia.
  - apply Forall_app. split.
    + eapply Forall_impl; [|exact Hdy]. cbn [d]. intros; lia.
    + constructor; [|constructor]. unfold dsp. cbn [d]. lia.
  - destruct (Hw (proj1 H)) as [? ?]. assumption.
  - destruct (Hw (proj1 H)) as [? ?]. apply Forall_app. split; [assumption|]. constructor; [exact (proj2 H)|constructor].
  - intros Hnil. destruct ys; discriminate.
Qed.

Lemma items_len ys : (length ys <= length (items ys))%nat.
Proof.
  induction ys as [|y ys IH]; [simpl; lia|].
  unfold items in *. cbn [map concat]. rewrite app_length. unfold item at 1. rewrite app_length. simpl. lia.
Qed.

Lemma fol_items ys r : fola r -> fol (items ys ++ r).
Proof.
  intros Hr. destruct ys as [|y ys]; [now apply fola_fol|].
  unfold items, item. cbn [map concat app]. unfold fol. simpl. auto.
Qed.

Section ADD.
Variable f : nat.
Lemma addrest_items ys : Forall (fun y => wf y /\ CS y /\ (dsp y <= f)%nat) ys ->
  forall fuel acc s r, (length ys <= fuel)%nat -> skipws s = skipws (items ys ++ r) -> fola r ->
  exists r', p_addrest (p_expr f) fuel acc s = (fold_left EAdd ys acc, r') /\ skipws r' = skipws r.
Proof.
  induction 1 as [|y ys (Hwy & HSy & Hdy) Hys IH]; intros fuel acc s r Hfu Hs Hr.
  - exists s. split; [|exact Hs]. destruct fuel; [reflexivity|]. cbn [p_addrest].
    cbn [items map concat app] in Hs. rewrite Hs, addop_none by assumption. reflexivity.
  - destruct fuel as [|fuel]; [simpl in Hfu; lia|]. cbn [p_addrest].
    unfold items in Hs. cbn [map concat] in Hs. fold (items ys) in Hs.
    unfold item in Hs. rewrite <- !app_assoc in Hs. cbn [app] in Hs.
    rewrite skipws_sp in Hs. rewrite (skipws_nows (43 :: _)) in Hs by reflexivity.
    rewrite Hs, addop_plus. rewrite skipws_sp. rewrite skipws_nows by (now apply sp_nows).
    destruct (HSy f (items ys ++ r) Hdy (fol_items ys r Hr)) as (r1 & E1 & Hr1).
    rewrite E1.
    destruct (IH fuel (EAdd acc y) r1 r ltac:(simpl in Hfu; lia) Hr1 Hr) as (r' & E' & Hr').
    exists r'. split; [exact E'|exact Hr'].
Qed.
End ADD.

Lemma CA_of e : wf e ->
  (let '(h, ys) := spine e in CS h /\ Forall CS ys) -> CA e.
Proof.
  intros Hw. pose proof (spine_spec e) as Hsp. destruct (spine e) as [h ys].
  destruct Hsp as (E & Hp & Hh & _ & _ & Hd & Hdy & Hwf & _). destruct (Hwf Hw) as [Hwh Hwys].
  intros [HSh HSys] f r Hf Hr. destruct f as [|f]; [lia|]. cbn [p_expr]. unfold p_add.
  rewrite skipws_nows by (now apply pr_nows). rewrite Hp, <- app_assoc.
  assert (Esp : sp h = pr h) by (unfold sp; now rewrite Hh). rewrite <- Esp.
  destruct (HSh f (items ys ++ r)) as (r1 & E1 & Hr1).
  { unfold dsp. rewrite Hh. lia. }
  { now apply fol_items. }
  rewrite E1.
  destruct (addrest_items f ys) with (fuel := length (sp h ++ items ys ++ r)) (acc := h) (s := r1) (r := r)
    as (r' & E' & Hr'); auto.
  - rewrite Forall_forall in *. intros y Hy. repeat split; auto. specialize (Hdy y Hy). lia.
  - rewrite !app_length. pose proof (items_len ys). lia.
  - rewrite E'. rewrite <- E. now rewrite Hr'.
Qed.

Lemma CS_add e : wf e -> is_add e = true -> CA e -> CS e.
Proof.
  intros Hw Ha HA f r Hf Hr. exists r. split; [|reflexivity].
  unfold sp, dsp in *. rewrite Ha in *. unfold paren. rewrite <- !app_assoc.
  assert (HB : p_base (p_expr f) ([40] ++ pr e ++ [41] ++ r) = Some (e, r)) by (now apply base_paren).
  unfold p_shift. rewrite skipws_nows by reflexivity. rewrite HB. cbv beta iota.
  rewrite shiftop_none by assumption. unfold alt at 1.
  assert (Hd : p_dblop ([40] ++ pr e ++ [41] ++ r) = None) by reflexivity.
  rewrite Hd. reflexivity.
Qed.

Theorem roundtrip_all : forall n e, (size e < n)%nat -> wf e -> CA e /\ CS e /\ CB e.
Proof.
  induction n as [|n IHn]; intros e Hs Hw; [lia|].
  assert (IH : forall x, (size x < size e)%nat -> wf x -> CA x /\ CS x /\ CB x).
  { intros x Hx Hwx. apply IHn; [lia|assumption]. }
  destruct (is_add e) eqn:Ea.
  - (* addition: CA first *)
    assert (HA : CA e).
    { apply CA_of; [assumption|]. pose proof (spine_spec e) as Hsp. destruct (spine e) as [h ys].
      destruct Hsp as (E & _ & Hh & Hsh & Hsys & _ & _ & Hwf & Hnil). destruct (Hwf Hw) as [Hwh Hwys].
      assert (Hne : ys <> []).
      { intros ->. specialize (Hnil eq_refl). subst h. congruence. }
      assert (Hlt : (size h < size e)%nat).
      { rewrite E. clear -Hne. revert h. induction ys as [|y ys IHy]; [congruence|]. intros h. cbn [fold_left].
        destruct ys as [|y' ys']; [cbn [fold_left size]; lia|].
        eapply Nat.lt_trans; [|apply IHy; discriminate]. cbn [size]. lia. }
      split; [apply IH; assumption|].
      rewrite Forall_forall in *. intros y Hy. apply IH; auto. }
    split; [exact HA|]. split; [now apply CS_add|].
    apply CB_of; auto.
  - (* non-addition: CB of children -> CS -> CA -> CB *)
    assert (HBc : forall x, (size x < size e)%nat -> wf x -> CB x) by (intros x Hx Hwx; now apply IH).
    assert (HBatom : is_op e = false -> CB e).
    { intros Hop. apply CB_of; [assumption|]. rewrite Hop. discriminate. }
    assert (HS : CS e) by (apply CS_nonadd; auto).
    assert (HA : CA e).
    { apply CA_of; [assumption|]. destruct e; try discriminate; cbn [spine]; split; auto. }
    split; [exact HA|]. split; [exact HS|]. apply CB_of; auto.
Qed.

Print Assumptions roundtrip_all.

Corollary roundtrip e r f : wf e -> (d e < f)%nat -> fola r -> p_expr f (pr e ++ r) = Some (e, skipws r).
Proof. intros Hw. destruct (roundtrip_all (S (size e)) e ltac:(lia) Hw) as (HA & _). apply HA. Qed.
