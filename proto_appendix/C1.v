From Coq Require Import List ZArith Lia Bool Arith.
Import ListNotations.

(* ---------- model ---------- *)
Definition op := (nat * nat)%type.
Definition uses (o : op) (i : nat) : bool := (fst o =? i) || (snd o =? i).
Definition operands (o : op) : list nat := if fst o =? snd o then [fst o] else [fst o; snd o].

Definition nz (c : list Z) (i : nat) : Z := nth i c 0%Z.
Definition sol (c : list Z) (k : nat) (o : op) : bool := (nz c (fst o) + nz c (snd o) =? nz c k)%Z.
Definition pairs_le (k : nat) : list op := flat_map (fun i => map (pair i) (seq i (k - i))) (seq 0 k).
Definition ops0 (c : list Z) (k : nat) : list op := filter (sol c k) (pairs_le k).

Fixpoint update {A} (l : nat) (v : A) (xs : list A) : list A :=
  match xs, l with
  | [], _ => []
  | _ :: t, O => v :: t
  | x :: t, S l' => x :: update l' v t
  end.
Definition bump (cs : list nat) (i : nat) : list nat := update i (S (nth i cs 0)) cs.
Definition bump_all (cs : list nat) (os : list nat) : list nat := fold_left bump os cs.
Definition count_single (tbl : list (list op)) (cs : list nat) (k : nat) : list nat :=
  match nth k tbl [] with [o] => bump_all cs (operands o) | _ => cs end.

Definition prune_step (k : nat) (st : list (list op) * list nat) (l : nat) :=
  let '(tbl, cs) := st in
  let ol := filter (fun o => negb (uses o k)) (nth l tbl []) in
  let tbl' := update l ol tbl in
  (tbl', match ol with [o] => bump_all cs (operands o) | _ => cs end).

Definition outer_step (n : nat) (st : list (list op) * list nat * list nat) (k : nat) :=
  let '(tbl, cs, rem) := st in
  if 0 <? nth k cs 0 then st
  else let '(tbl', cs') := fold_left (prune_step k) (seq (S k) (n - S k)) (tbl, cs) in
       (tbl', cs', rem ++ [k]).

Definition opt_state (c : list Z) :=
  let n := length c in
  let tbl := map (ops0 c) (seq 0 n) in
  let cs := fold_left (count_single tbl) (seq 1 (n - 1)) (repeat 0 n) in
  fold_left (outer_step n) (seq 1 (n - 2)) (tbl, cs, []).

Definition kept (rem : list nat) (i : nat) : bool := negb (existsb (Nat.eqb i) rem).
Definition optimize (c : list Z) : list Z :=
  let '(_, _, rem) := opt_state c in
  map snd (filter (fun p => kept rem (fst p)) (combine (seq 0 (length c)) c)).

Eval vm_compute in optimize [1;2;3;4;5;6;8;16;11]%Z.
