Require Import B B1.
From Coq Require Import List Lia Bool Arith.
Import ListNotations.

Definition plast (pend : list inst) : option nat := match rev pend with [] => None | i :: _ => Some (out i) end.
Lemma plast_snoc pend k : plast (pend ++ [k]) = Some (out k).
Proof. unfold plast. rewrite rev_app_distr. reflexivity. Qed.
Lemma plast_nil_inv pend : plast pend = None -> pend = [].
Proof. unfold plast. destruct (rev pend) eqn:E; [|discriminate]. intros _. apply (f_equal (@rev _)) in E. now rewrite rev_involutive in E. Qed.

Section BT.
Variable nameof : nat -> ident.
Variable anon : nat -> bool.
Variable reads : nat -> nat.
Variable P : list inst.
Hypothesis Hinj : forall i j, nameof i = nameof j -> i = j.
Hypothesis Hwf : wfrom 1 P.
(* consequence of reads = number of occurrences among all inputs (pass.ReadCounts) *)
Hypothesis Hreads : forall x pre k post, P = pre ++ k :: post -> reads x = 1 -> In x (inputs (op k)) ->
  count_occ Nat.eq_dec (inputs (op k)) x = 1 /\ forall i, In i (pre ++ post) -> ~ In x (inputs (op i)).

Notation bstep := (bstep nameof anon reads).
Notation bloop := (bloop nameof anon reads).

Definition Inv (done todo : list inst) (b : bst) : Prop := exists ts d1 pend,
  done = d1 ++ pend /\ length pend = cx b /\
  tr_stmts (stmts b) tinit = Some ts /\ emitted ts = map canon_inst d1 /\ n ts = nafter 1 d1 /\
  (forall k, lookup (nameof k) (vars ts) <> None -> In k (map out d1)) /\
  (forall x, (exists i, In i todo /\ In x (inputs (op i))) -> plast pend <> Some x -> atom_ok (vars ts) x (operand b x)) /\
  match plast pend with
  | None => True
  | Some x => isop (operand b x) = true /\ reads x = 1 /\
              (exists k todo', todo = k :: todo' /\ In x (inputs (op k))) /\
              exists ts', tr_expr (operand b x) ts = Some (x, ts') /\
                          emitted ts' = emitted ts ++ map canon_inst pend /\ n ts' = nafter (n ts) pend
  end.

(* classification of an operand of the next instruction *)
Definition pending_at (b : bst) (ts : tst) (pend : list inst) (a : nat) : Prop :=
  plast pend = Some a /\ isop (operand b a) = true /\
  exists ts', tr_expr (operand b a) ts = Some (a, ts') /\ vars ts' = vars ts /\
              emitted ts' = emitted ts ++ map canon_inst pend /\ n ts' = nafter (n ts) pend.

Lemma emit_spec st o w : emit st o w = (n st + w - 1, {| n := n st + w; vars := vars st; emitted := emitted st ++ [{| out := n st + w - 1; op := o |}] |}).
Proof. reflexivity. Qed.

(* the expression built for instruction k translates to exactly the pending instructions followed by k *)
Lemma op_translate b ts pend k :
  1 <= width (op k) -> out k = nafter (n ts) pend + width (op k) - 1 ->
  (forall x, In x (inputs (op k)) -> plast pend <> Some x -> atom_ok (vars ts) x (operand b x)) ->
  match plast pend with
  | None => pend = []
  | Some x => In x (inputs (op k)) /\ count_occ Nat.eq_dec (inputs (op k)) x = 1 /\ pending_at b ts pend x
  end ->
  exists e ts2, build_op b (op k) = Some e /\ isop e = true /\ tr_expr e ts = Some (out k, ts2) /\
    vars ts2 = vars ts /\ emitted ts2 = emitted ts ++ map canon_inst (pend ++ [k]) /\ n ts2 = nafter (n ts) (pend ++ [k]).
Proof.
  intros Hw Hout Hat Hp. rewrite map_app, nafter_app. cbn [map nafter].
  destruct k as [ok opk]. cbn [out op] in *. unfold canon_inst; cbn [out op].
  destruct (plast pend) as [x|] eqn:Epl.
  - destruct Hp as (Hin & Hcnt & _ & Hop & ts' & Etr & Evars & Eem & En).
    destruct opk as [a c|a|a s]; cbn [inputs width] in *.
    + (* add: exactly one operand is the pending one *)
      simpl in Hcnt. destruct (Nat.eq_dec a x) as [->|Hax]; destruct (Nat.eq_dec c x) as [->|Hcx]; try lia.
      * (* a pending, c atom *)
        destruct (tr_atom (operand b c) c ts') as [Ec Hopc]; [rewrite Evars; apply Hat; [simpl; auto|congruence]|].
        exists (EAdd (operand b x) (operand b c)), (snd (emit ts' (canon (IAdd x c)) 1)).
        unfold build_op. rewrite Hop, Hopc. simpl andb. cbv iota. split; [reflexivity|]. split; [reflexivity|].
        cbn [tr_expr]. rewrite Etr, Ec. rewrite emit_spec. cbn [snd n vars emitted].
        replace (n ts' + 1 - 1) with ok by lia. rewrite Eem, <- app_assoc.
        repeat split; auto; lia.
      * (* c pending, a atom *)
        destruct (tr_atom (operand b a) a ts') as [Ea Hopa]; [rewrite Evars; apply Hat; [simpl; auto|congruence]|].
        exists (EAdd (operand b x) (operand b a)), (snd (emit ts' (canon (IAdd x a)) 1)).
        unfold build_op. rewrite Hop, Hopa. simpl andb. cbv iota. split; [reflexivity|]. split; [reflexivity|].
        cbn [tr_expr]. rewrite Etr, Ea. rewrite emit_spec. cbn [snd n vars emitted].
        replace (n ts' + 1 - 1) with ok by lia. rewrite Eem, <- app_assoc, (canon_comm a x).
        repeat split; auto; lia.
    + destruct Hin as [->|[]].
      exists (EDbl (operand b x)), (snd (emit ts' (IDbl x) 1)). unfold build_op.
      split; [reflexivity|]. split; [reflexivity|]. cbn [tr_expr]. rewrite Etr, emit_spec. cbn [snd n vars emitted].
      replace (n ts' + 1 - 1) with ok by lia. rewrite Eem, <- app_assoc. repeat split; auto; lia.
    + destruct Hin as [->|[]].
      exists (EShl (operand b x) s), (snd (emit ts' (IShl x s) s)). unfold build_op.
      split; [reflexivity|]. split; [reflexivity|]. cbn [tr_expr]. rewrite Etr, emit_spec. cbn [snd n vars emitted].
      replace (n ts' + s - 1) with ok by lia. rewrite Eem, <- app_assoc. repeat split; auto; lia.
  - subst pend. cbn [nafter map app] in *.
    destruct opk as [a c|a|a s]; cbn [inputs width] in *.
    + destruct (tr_atom (operand b a) a ts) as [Ea Hopa]; [apply Hat; [simpl; auto|congruence]|].
      destruct (tr_atom (operand b c) c ts) as [Ec Hopc]; [apply Hat; [simpl; auto|congruence]|].
      exists (EAdd (operand b a) (operand b c)), (snd (emit ts (canon (IAdd a c)) 1)).
      unfold build_op. rewrite Hopa, Hopc. simpl andb. cbv iota. split; [reflexivity|]. split; [reflexivity|].
      cbn [tr_expr]. rewrite Ea, Ec, emit_spec. cbn [snd n vars emitted].
      replace (n ts + 1 - 1) with ok by lia. repeat split; auto; lia.
    + destruct (tr_atom (operand b a) a ts) as [Ea Hopa]; [apply Hat; [simpl; auto|congruence]|].
      exists (EDbl (operand b a)), (snd (emit ts (IDbl a) 1)). unfold build_op.
      split; [reflexivity|]. split; [reflexivity|]. cbn [tr_expr]. rewrite Ea, emit_spec. cbn [snd n vars emitted].
      replace (n ts + 1 - 1) with ok by lia. repeat split; auto; lia.
    + destruct (tr_atom (operand b a) a ts) as [Ea Hopa]; [apply Hat; [simpl; auto|congruence]|].
      exists (EShl (operand b a) s), (snd (emit ts (IShl a s) s)). unfold build_op.
      split; [reflexivity|]. split; [reflexivity|]. cbn [tr_expr]. rewrite Ea, emit_spec. cbn [snd n vars emitted].
      replace (n ts + s - 1) with ok by lia. repeat split; auto; lia.
Qed.
End BT.
