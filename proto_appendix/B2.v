Require Import P.
From Coq Require Import List NArith Lia Bool Arith.
Import ListNotations.
Open Scope N_scope.

(* ---------- basic string lemmas ---------- *)
Lemma lit_app l r : lit l (l ++ r) = Some r.
Proof. induction l as [|a l IH]; simpl; [reflexivity|]. now rewrite N.eqb_refl. Qed.

Definition nohead (p : byte -> bool) (r : str) := match r with [] => True | c :: _ => p c = false end.

Lemma span_app p a r : forallb p a = true -> nohead p r -> span p (a ++ r) = (a, r).
Proof.
  induction a as [|c a IH]; simpl; intros Ha Hr.
  - destruct r as [|c r]; simpl in *; [reflexivity|]. now rewrite Hr.
  - apply andb_true_iff in Ha as [Hc Ha]. rewrite Hc, (IH Ha Hr). reflexivity.
Qed.

Lemma skipws_nows s : nohead is_ws s -> skipws s = s.
Proof. destruct s as [|c s]; simpl; intros H; [reflexivity|]. now rewrite H. Qed.

Lemma skipws_idem s : skipws (skipws s) = skipws s.
Proof.
  induction s as [|c s IH]; simpl; [reflexivity|].
  destruct (is_ws c) eqn:E; [exact IH|]. simpl. now rewrite E.
Qed.

Lemma skipws_sp s : skipws (32 :: s) = skipws s.
Proof. reflexivity. Qed.

(* ---------- decimal ---------- *)
Lemma dec_aux_spec fuel : forall n acc, n < 10 ^ N.of_nat fuel -> (0 < fuel)%nat ->
  exists ds, dec_aux fuel n acc = ds ++ acc /\ ds <> [] /\ forallb is_digit ds = true /\
             forall a, dec_val a ds = a * 10 ^ N.of_nat (length ds) + n.
Proof.
  induction fuel as [|fuel IH]; intros n acc Hn Hf; [lia|].
  cbn [dec_aux]. destruct (n <? 10) eqn:Hlt.
  - apply N.ltb_lt in Hlt. exists [n + 48]. cbn [app length dec_val forallb]. repeat split; try congruence.
    + unfold is_digit. rewrite andb_true_r. apply andb_true_iff; split; apply N.leb_le; lia.
    + intros a. replace (n + 48 - 48) with n by lia. change (N.of_nat 1) with 1. lia.
  - apply N.ltb_ge in Hlt.
    assert (Hf' : (0 < fuel)%nat).
    { destruct fuel; [|lia]. simpl in Hn. lia. }
    destruct (IH (n / 10) ((n mod 10 + 48) :: acc)) as (ds & E & Hne & Hd & Hv); [|exact Hf'|].
    { apply N.div_lt_upper_bound; [lia|]. rewrite Nat2N.inj_succ, N.pow_succ_r' in Hn. exact Hn. }
    exists (ds ++ [n mod 10 + 48]). rewrite E, <- app_assoc. cbn [app]. repeat split.
    + destruct ds; simpl; congruence.
    + rewrite forallb_app, Hd. cbn [forallb andb]. rewrite andb_true_r. unfold is_digit.
      assert (n mod 10 < 10) by (apply N.mod_lt; lia).
      remember (n mod 10) as m eqn:Heqm. clear Heqm.
      apply andb_true_iff; split; apply N.leb_le; lia.
    + intros a.
      assert (Hdv : forall l a x, dec_val a (l ++ [x]) = dec_val a l * 10 + (x - 48)).
      { induction l as [|y l IHl]; intros; simpl; [reflexivity|]. apply IHl. }
      rewrite Hdv, Hv, app_length. cbn [length]. rewrite Nat.add_1_r, Nat2N.inj_succ, N.pow_succ_r'.
      rewrite N.add_sub.
      pose proof (N.div_mod n 10 ltac:(lia)) as Hdm.
      remember (n mod 10) as m eqn:Heqm. remember (n / 10) as q eqn:Heqq. clear Heqm Heqq.
      remember (10 ^ N.of_nat (length ds)) as P. lia.
Qed.

Lemma size_pow10 n : n < 10 ^ N.of_nat (S (N.to_nat (N.size n))).
Proof.
  apply N.lt_le_trans with (2 ^ N.size n).
  - apply N.size_gt.
  - rewrite Nat2N.inj_succ, N2Nat.id.
    apply N.le_trans with (10 ^ N.size n).
    + apply N.pow_le_mono_l. lia.
    + apply N.pow_le_mono_r; lia.
Qed.

Lemma dec_str_spec n : exists ds, dec_str n = ds /\ ds <> [] /\ forallb is_digit ds = true /\ dec_val 0 ds = n.
Proof.
  unfold dec_str.
  destruct (dec_aux_spec (S (N.to_nat (N.size n))) n [] (size_pow10 n) ltac:(lia)) as (ds & E & Hne & Hd & Hv).
  exists ds. rewrite E, app_nil_r. repeat split; auto. rewrite Hv. lia.
Qed.

Lemma p_uint_dec n r : nohead is_digit r -> p_uint (dec_str n ++ r) = Some (n, r).
Proof.
  intros Hr. destruct (dec_str_spec n) as (ds & E & Hne & Hd & Hv). rewrite E.
  unfold p_uint. rewrite (span_app _ _ _ Hd Hr). destruct ds; [congruence|]. now rewrite Hv.
Qed.
