From Coq Require Import List Lia Bool Arith.
Import ListNotations.

(* ---------- IR ---------- *)
Inductive iop := IAdd (x y : nat) | IDbl (x : nat) | IShl (x s : nat).
Record inst := { out : nat; op : iop }.
Definition inputs (o : iop) : list nat := match o with IAdd x y => [x; y] | IDbl x => [x] | IShl x _ => [x] end.
Definition canon (o : iop) : iop := match o with IAdd x y => if y <? x then IAdd y x else IAdd x y | _ => o end.
Definition canon_inst (i : inst) := {| out := out i; op := canon (op i) |}.

(* ---------- AST ---------- *)
Definition ident := nat.
Inductive expr := Lit (i : nat) | Id (s : ident) | EAdd (x y : expr) | EDbl (x : expr) | EShl (x : expr) (s : nat).
Definition isop (e : expr) : bool := match e with EAdd _ _ | EDbl _ | EShl _ _ => true | _ => false end.

Fixpoint lookup {A} (k : nat) (m : list (nat * A)) : option A :=
  match m with [] => None | (k', v) :: t => if k' =? k then Some v else lookup k t end.

(* ---------- model of acc.Translate (state.expr/add/double/shift/define/lookup) ---------- *)
Record tst := { n : nat; vars : list (ident * nat); emitted : list inst }.
Definition tinit : tst := {| n := 1; vars := []; emitted := [] |}.
Definition emit (st : tst) (o : iop) (width : nat) : nat * tst :=
  let outi := n st + width - 1 in
  (outi, {| n := n st + width; vars := vars st; emitted := emitted st ++ [{| out := outi; op := o |}] |}).

Fixpoint tr_expr (e : expr) (st : tst) : option (nat * tst) :=
  match e with
  | Lit i => Some (i, st)
  | Id s => match lookup s (vars st) with Some i => Some (i, st) | None => None end
  | EAdd x y =>
    match tr_expr x st with
    | Some (ix, st1) =>
      match tr_expr y st1 with
      | Some (iy, st2) => Some (emit st2 (canon (IAdd ix iy)) 1)
      | None => None end
    | None => None end
  | EDbl x => match tr_expr x st with Some (ix, st1) => Some (emit st1 (IDbl ix) 1) | None => None end
  | EShl x s => match tr_expr x st with Some (ix, st1) => Some (emit st1 (IShl ix s) s) | None => None end
  end.

Definition tr_stmt (st : tst) (s : ident * expr) : option tst :=
  match tr_expr (snd s) st with
  | Some (i, st1) =>
    match lookup (fst s) (vars st1) with
    | Some _ => None                                      (* cannot redefine *)
    | None => Some {| n := n st1; vars := (fst s, i) :: vars st1; emitted := emitted st1 |}
    end
  | None => None
  end.
Fixpoint tr_stmts (ss : list (ident * expr)) (st : tst) : option tst :=
  match ss with [] => Some st | s :: r => match tr_stmt st s with Some st1 => tr_stmts r st1 | None => None end end.

(* ---------- model of acc.Build (builder.process/operator/add/commit/operand) ---------- *)
Section Build.
Variable nameof : nat -> ident.     (* final statement name of a committed output *)
Variable anon : nat -> bool.        (* out.Identifier == "" after the naming passes *)
Variable reads : nat -> nat.        (* pass.ReadCounts *)
Definition limit := 5.

Record bst := { stmts : list (ident * expr); emap : list (nat * expr); cx : nat }.
Definition binit : bst := {| stmts := []; emap := []; cx := 0 |}.
Definition operand (b : bst) (i : nat) : expr := match lookup i (emap b) with Some e => e | None => Lit i end.
Definition build_op (b : bst) (o : iop) : option expr :=
  match o with
  | IAdd x y =>
    let ex := operand b x in let ey := operand b y in
    if isop ex && isop ey then None
    else if isop ey then Some (EAdd ey ex) else Some (EAdd ex ey)
  | IDbl x => Some (EDbl (operand b x))
  | IShl x s => Some (EShl (operand b x) s)
  end.
Definition hasinput (o : iop) (i : nat) : bool := existsb (Nat.eqb i) (inputs o).

(* one iteration of builder.process; nxt = the following instruction, if any *)
Definition bstep (b : bst) (i : inst) (nxt : option inst) : option bst :=
  match build_op b (op i) with
  | None => None
  | Some e =>
    let cx' := S (cx b) in
    let usednext := match nxt with Some j => hasinput (op j) (out i) | None => false end in
    if anon (out i) && (reads (out i) =? 1) && usednext && (cx' <? limit)
    then Some {| stmts := stmts b; emap := (out i, e) :: emap b; cx := cx' |}
    else Some {| stmts := stmts b ++ [(nameof (out i), e)];
                 emap := (out i, Id (nameof (out i))) :: emap b; cx := 0 |}
  end.
Fixpoint bloop (b : bst) (is : list inst) : option bst :=
  match is with
  | [] => Some b
  | i :: r => match bstep b i (hd_error r) with Some b1 => bloop b1 r | None => None end
  end.
End Build.
