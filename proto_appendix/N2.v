Require Import H F.
From Coq Require Import List NArith Lia Bool Arith.
Import ListNotations.
Open Scope N_scope.

(* chains as sorted sets closed under "sum of two members" *)
Definition CL (c : list N) : Prop :=
  sd c /\ In 1 c /\ (forall x, In x c -> 1 <= x) /\ (forall x, In x c -> x = 1 \/ exists u v, In u c /\ In v c /\ u + v = x).

Lemma sd_app a b : sd a -> sd b -> (forall x y, In x a -> In y b -> x < y) -> sd (a ++ b).
Proof.
  induction a as [|x a IH]; intros Ha Hb Hab; simpl; [assumption|]. destruct Ha as [H1 H2]. split.
  - intros y Hy. apply in_app_or in Hy as [Hy|Hy]; [now apply H1|apply Hab; simpl; auto].
  - apply IH; auto. intros; apply Hab; simpl; auto.
Qed.
Lemma sd_last_max l : sd l -> forall x, In x l -> x <= lastn l.
Proof.
  unfold lastn. induction l as [|y l IH]; intros Hs x Hx; [destruct Hx|]. destruct Hs as [H1 H2].
  destruct l as [|z l']; [simpl in *; destruct Hx as [<-|[]]; lia|].
  change (last (y :: z :: l') 0) with (last (z :: l') 0). destruct Hx as [<-|Hx].
  - specialize (IH H2 z (or_introl eq_refl)). specialize (H1 z (or_introl eq_refl)). lia.
  - now apply IH.
Qed.
Lemma last_in l : l <> [] -> In (lastn l) l.
Proof.
  unfold lastn. induction l as [|y l IH]; [congruence|]. intros _. destruct l as [|z l']; [simpl; auto|].
  right. apply IH. discriminate.
Qed.
Lemma last_app' (a b : list N) d : b <> [] -> last (a ++ b) d = last b d.
Proof.
  induction a as [|x a IH]; intros Hb; simpl; [reflexivity|].
  destruct (a ++ b) eqn:E; [apply app_eq_nil in E as [_ ->]; congruence|]. now apply IH.
Qed.
Lemma lastn_app a x : lastn (a ++ [x]) = x.
Proof. unfold lastn. apply last_last. Qed.
Lemma CL_nonempty c : CL c -> c <> [].
Proof. intros (_ & H1 & _). destruct c; [destruct H1|discriminate]. Qed.

Lemma plus_ok a x : CL a -> In x a -> CL (plus a x) /\ lastn (plus a x) = lastn a + x /\ (forall y, In y a -> In y (plus a x)).
Proof.
  intros (Hs & H1 & Hge & Hex) Hx. unfold plus.
  assert (Hne : a <> []) by (destruct a; [destruct H1|discriminate]).
  assert (Hmax := sd_last_max a Hs). assert (Hx1 := Hge x Hx).
  split; [|split; [apply lastn_app|intros; apply in_or_app; auto]].
  split; [|split; [|split]].
  - apply sd_app; [assumption|simpl; split; [intros ? []|exact I]|]. intros u v Hu [<-|[]]. specialize (Hmax u Hu). lia.
  - apply in_or_app; auto.
  - intros y Hy. apply in_app_or in Hy as [Hy|[<-|[]]]; [auto|]. specialize (Hge _ (last_in a Hne)). lia.
  - intros y Hy. apply in_app_or in Hy as [Hy|[<-|[]]].
    + destruct (Hex y Hy) as [->|(u & v & Hu & Hv & E)]; [auto|]. right. exists u, v. repeat split; auto; apply in_or_app; auto.
    + right. exists (lastn a), x. repeat split; auto; apply in_or_app; left; [now apply last_in|assumption].
Qed.

Lemma product_ok a b : CL a -> CL b -> CL (product a b) /\ lastn (product a b) = lastn a * lastn b /\ (forall y, In y a -> In y (product a b)).
Proof.
  intros (Hsa & H1a & Hga & Hxa) (Hsb & H1b & Hgb & Hxb). unfold product.
  assert (Hnea : a <> []) by (destruct a; [destruct H1a|discriminate]).
  set (la := lastn a). assert (Hla : 1 <= la) by (apply Hga, last_in; assumption).
  assert (Hmaxa := sd_last_max a Hsa). fold la in Hmaxa.
  (* b = 1 :: tb with all of tb > 1 *)
  destruct b as [|b0 tb]; [destruct H1b|]. destruct Hsb as [Hb0 Hstb].
  assert (Eb0 : b0 = 1).
  { destruct H1b as [E|Hin]; [assumption|]. specialize (Hb0 1 Hin). specialize (Hgb b0 (or_introl eq_refl)). lia. }
  subst b0. cbn [tl].
  assert (Hin_tb : forall z, In z (map (fun x => la * x) tb) <-> exists x, In x tb /\ z = la * x).
  { intros z. rewrite in_map_iff. split; intros (x & A & B); exists x; auto. }
  assert (Hsd_map : sd (map (fun x => la * x) tb)).
  { clear -Hstb Hla. induction tb as [|x tb IH]; simpl; [exact I|]. destruct Hstb as [H1 H2]. split; [|now apply IH].
    intros y Hy. apply in_map_iff in Hy as (z & <- & Hz). specialize (H1 z Hz). nia. }
  assert (Hall : forall z, In z (a ++ map (fun x => la * x) tb) <-> In z a \/ exists x, In x tb /\ z = la * x).
  { intros z. rewrite in_app_iff, Hin_tb. tauto. }
  split; [|split].
  - split; [|split; [|split]].
    + apply sd_app; auto. intros u v Hu Hv. apply Hin_tb in Hv as (x & Hx & ->). specialize (Hb0 x Hx). specialize (Hmaxa u Hu). nia.
    + apply in_or_app; auto.
    + intros z Hz. apply Hall in Hz as [Hz|(x & Hx & ->)]; [auto|]. specialize (Hb0 x Hx). nia.
    + intros z Hz. apply Hall in Hz as [Hz|(x & Hx & ->)].
      * destruct (Hxa z Hz) as [->|(u & v & Hu & Hv & E)]; [auto|]. right. exists u, v. repeat split; auto; apply Hall; auto.
      * right. destruct (Hxb x (or_intror Hx)) as [->|(u & v & Hu & Hv & E)]; [specialize (Hb0 1 Hx); lia|].
        assert (Hlift : forall w, In w (1 :: tb) -> In (la * w) (a ++ map (fun x => la * x) tb)).
        { intros w [<-|Hw]; apply Hall; [left; rewrite N.mul_1_r; now apply last_in|right; eauto]. }
        exists (la * u), (la * v). repeat split; auto. nia.
  - (* last element *)
    destruct tb as [|t1 tb'].
    + simpl. rewrite app_nil_r. change (lastn [1]) with 1. fold la. lia.
    + assert (Hne : map (fun x => la * x) (t1 :: tb') <> []) by discriminate.
      unfold lastn at 1. rewrite last_app' by assumption.
      change (lastn (1 :: t1 :: tb')) with (lastn (t1 :: tb')). unfold lastn.
      clear. generalize t1. induction tb' as [|t2 tb IH]; intros t; [reflexivity|].
      change (last (map (fun x => la * x) (t :: t2 :: tb)) 0) with (last (map (fun x => la * x) (t2 :: tb)) 0).
      change (last (t :: t2 :: tb) 0) with (last (t2 :: tb) 0). apply IH.
  - intros y Hy. apply in_or_app; auto.
Qed.
