Require Import O O1 O2.
From Coq Require Import List ZArith Lia Bool Arith.
Import ListNotations.

Section Chain.
Variable c : list Z.
Let n := length c.
Hypothesis Hinj : forall i j, i < n -> j < n -> nz c i = nz c j -> i = j.
Hypothesis Hvalid : forall k, 1 <= k < n -> exists i j, i <= j < k /\ (nz c i + nz c j = nz c k)%Z.

Definition Inv (k : nat) (st : list (list op) * list nat * list nat) :=
  let '(tbl, cs, rem) := st in
  length tbl = n /\ (forall l, l < n -> tbl_at tbl l = filterF rem (ops0 c l)) /\
  cs_ok c tbl cs /\ nonempty c tbl /\ Forall (fun r => 1 <= r < k) rem.

Lemma outer_step_inv k st : 1 <= k -> S k < n -> Inv k st -> Inv (S k) (outer_step n st k).
Proof.
  intros Hk Hkn. destruct st as [[tbl cs] rem]. intros (Hlen & Htbl & Hcs & Hne & Hrem).
  unfold outer_step. destruct (0 <? nth k cs 0) eqn:E.
  - split; [|split; [|split; [|split]]]; auto. eapply Forall_impl; [|exact Hrem]. simpl. intros; lia.
  - apply Nat.ltb_ge in E.
    assert (HJ : J c rem k (S k) (tbl, cs)).
    { split; [|split; [|split; [|split]]]; auto; try lia.
      intros l Hl. rewrite Htbl by assumption.
      replace ((k <? l) && (l <? S k)) with false; [reflexivity|].
      symmetry. apply andb_false_iff. destruct (Nat.lt_ge_cases k l); [right; apply Nat.ltb_ge; lia|left; apply Nat.ltb_ge; lia]. }
    pose proof (inner_loop c Hinj rem k (n - S k) (S k) (tbl, cs) ltac:(lia) ltac:(fold n; lia) HJ) as HJ'.
    fold n in HJ'. destruct (fold_left (prune_step k) (seq (S k) (n - S k)) (tbl, cs)) as [tbl' cs'].
    destruct HJ' as (Hlen' & Htbl' & Hcs' & Hne' & _).
    split; [|split; [|split; [|split]]]; auto.
    + intros l Hl. rewrite Htbl' by assumption.
      destruct (k <? l) eqn:E1.
      * replace (l <? n) with true by (symmetry; apply Nat.ltb_lt; lia). reflexivity.
      * simpl. apply Nat.ltb_ge in E1. symmetry. now apply filterF_nouse.
    + apply Forall_app. split.
      * eapply Forall_impl; [|exact Hrem]. simpl. intros; lia.
      * constructor; [lia|constructor].
Qed.

Lemma outer_loop : forall cnt k st, 1 <= k -> k + cnt = n - 1 -> Inv k st ->
  Inv (n - 1) (fold_left (outer_step n) (seq k cnt) st).
Proof.
  induction cnt as [|cnt IH]; intros k st Hk Hsum HI; simpl.
  - replace (n - 1) with k by lia. exact HI.
  - apply IH; [lia|lia|]. apply outer_step_inv; auto; lia.
Qed.

(* initial state *)
Let tbl0 := map (ops0 c) (seq 0 n).
Lemma tbl0_at l : l < n -> tbl_at tbl0 l = ops0 c l.
Proof.
  intros Hl. unfold tbl_at, tbl0.
  rewrite nth_indep with (d' := ops0 c 0) by (now rewrite map_length, seq_length).
  rewrite map_nth with (d := 0). now rewrite seq_nth.
Qed.
Lemma filterF_nil os : filterF [] os = os.
Proof. unfold filterF. simpl. induction os; simpl; congruence. Qed.

Definition K (m : nat) (cs : list nat) :=
  length cs = n /\ forall l o, l < m -> l < n -> tbl_at tbl0 l = [o] -> forall i, In i (operands o) -> 0 < nth i cs 0.

Lemma count_step m cs : 1 <= m -> m < n -> K m cs -> K (S m) (count_single tbl0 cs m).
Proof.
  intros Hm Hmn [Hl HK]. unfold count_single. fold (tbl_at tbl0 m).
  destruct (tbl_at tbl0 m) as [|o [|o2 ot]] eqn:E.
  - split; auto. intros l o Hl1 Hl2 Eo. destruct (Nat.eq_dec l m) as [->|]; [congruence|]. apply (HK l o); auto; lia.
  - split; [now rewrite bump_all_length|]. intros l o' Hl1 Hl2 Eo i Hi.
    destruct (Nat.eq_dec l m) as [->|Hneq].
    + rewrite E in Eo. inversion Eo; subst o'. apply bump_all_pos; auto. rewrite Hl.
      assert (i < m); [|lia]. apply (ops_in_range c tbl0 [] m o i Hmn); auto. right.
      rewrite <- tbl0_at by assumption. rewrite E. simpl; auto.
    + assert (Hlm : l < m) by lia.
      eapply Nat.lt_le_trans; [exact (HK l o' Hlm Hl2 Eo i Hi)|apply bump_all_mono].
  - split; auto. intros l o' Hl1 Hl2 Eo. destruct (Nat.eq_dec l m) as [->|]; [congruence|]. apply (HK l o'); auto; lia.
Qed.

Lemma count_loop : forall cnt m cs, 1 <= m -> m + cnt = Nat.max n 1 -> K m cs ->
  K (Nat.max n 1) (fold_left (count_single tbl0) (seq m cnt) cs).
Proof.
  induction cnt as [|cnt IH]; intros m cs Hm Hsum HK; simpl.
  - replace (Nat.max n 1) with m by lia. exact HK.
  - apply IH; [lia|lia|]. apply count_step; auto; lia.
Qed.

Theorem opt_state_ok :
  let '(tbl, cs, rem) := opt_state c in
  Forall (fun r => 1 <= r < n - 1) rem /\
  forall l, 1 <= l < n -> ~ In l rem ->
    exists i j, ~ In i rem /\ ~ In j rem /\ i <= j < l /\ (nz c i + nz c j = nz c l)%Z.
Proof.
  unfold opt_state. fold n. fold tbl0.
  set (cs0 := fold_left (count_single tbl0) (seq 1 (n - 1)) (repeat 0 n)).
  assert (HK : K (Nat.max n 1) cs0).
  { apply count_loop; [lia|lia|]. split; [apply repeat_length|].
    intros l o Hl1 Hl2 E. assert (l = 0) by lia. subst. rewrite tbl0_at in E by assumption.
    assert (Hin : In o (ops0 c 0)) by (rewrite E; simpl; auto). destruct o as [a b].
    apply in_ops0 in Hin. lia. }
  assert (HI : Inv 1 (tbl0, cs0, [])).
  { split; [|split; [|split; [|split]]].
    - unfold tbl0. now rewrite map_length, seq_length.
    - intros l Hl. now rewrite filterF_nil, tbl0_at.
    - split; [apply HK|]. intros l o Hl E. apply (proj2 HK l o); auto; lia.
    - intros l Hl. rewrite tbl0_at by lia. destruct (Hvalid l Hl) as (i & j & B & S).
      intros E. assert (Hin : In (i, j) (ops0 c l)) by (apply in_ops0; auto). rewrite E in Hin. destruct Hin.
    - constructor. }
  destruct (Nat.le_gt_cases n 2) as [Hsmall|Hbig].
  - (* no removal possible *)
    replace (n - 2) with 0 by lia. simpl. split; [constructor|].
    intros l Hl _. destruct (Hvalid l Hl) as (i & j & B & S). exists i, j. repeat split; auto; lia.
  - pose proof (outer_loop (n - 2) 1 (tbl0, cs0, []) ltac:(lia) ltac:(lia) HI) as HF.
    destruct (fold_left (outer_step n) (seq 1 (n - 2)) (tbl0, cs0, [])) as [[tbl cs] rem].
    destruct HF as (Hlen & Htbl & Hcs & Hne & Hrem). split; [exact Hrem|].
    intros l Hl Hnr. specialize (Hne l Hl). rewrite Htbl in Hne by lia.
    destruct (filterF rem (ops0 c l)) as [|[i j] t] eqn:E; [congruence|].
    assert (Hin : In (i, j) (filterF rem (ops0 c l))) by (rewrite E; simpl; auto).
    apply in_filterF in Hin as [Hin Hu]. apply in_ops0 in Hin as [B S].
    exists i, j. repeat split; auto; try lia.
    + intros Hr. specialize (Hu i Hr). unfold uses in Hu. simpl in Hu. rewrite Nat.eqb_refl in Hu. discriminate.
    + intros Hr. specialize (Hu j Hr). unfold uses in Hu. simpl in Hu. rewrite Nat.eqb_refl, orb_true_r in Hu. discriminate.
Qed.
End Chain.
Print Assumptions opt_state_ok.
