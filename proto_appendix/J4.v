Require Import B B1 B2.
From Coq Require Import List Lia Bool Arith.
Import ListNotations.

Lemma wfrom_outs m a : wfrom m a -> forall i, In i a -> m <= out i < nafter m a.
Proof.
  revert m; induction a as [|j a IH]; intros m Hw i Hi; simpl in *; [destruct Hi|].
  destruct Hw as (Hw1 & Hout & Hw2).
  assert (Hmono : forall m' l, m' <= nafter m' l).
  { intros m' l; revert m'; induction l as [|q l IHl]; intros m'; simpl; [lia|]. specialize (IHl (m' + width (op q))). lia. }
  destruct Hi as [<-|Hi].
  - specialize (Hmono (m + width (op j)) a). lia.
  - specialize (IH _ Hw2 i Hi). lia.
Qed.

Lemma lookup_cons_eq {A} k (v : A) m : lookup k ((k, v) :: m) = Some v.
Proof. simpl. now rewrite Nat.eqb_refl. Qed.
Lemma lookup_cons_neq {A} k k' (v : A) m : k <> k' -> lookup k' ((k, v) :: m) = lookup k' m.
Proof. intros H. simpl. destruct (k =? k') eqn:E; [apply Nat.eqb_eq in E; congruence|reflexivity]. Qed.

Section BT.
Variable nameof : nat -> ident.
Variable anon : nat -> bool.
Variable reads : nat -> nat.
Variable P : list inst.
Hypothesis Hinj : forall i j, nameof i = nameof j -> i = j.
Hypothesis Hwf : wfrom 1 P.
Hypothesis Hreads : forall x pre k post, P = pre ++ k :: post -> reads x = 1 -> In x (inputs (op k)) ->
  count_occ Nat.eq_dec (inputs (op k)) x = 1 /\ forall i, In i (pre ++ post) -> ~ In x (inputs (op i)).

Notation bstep := (bstep nameof anon reads).
Notation bloop := (bloop nameof anon reads).
Notation Inv := (Inv nameof reads).

Lemma operand_cons_neq b k e x stm c : out k <> x ->
  operand {| stmts := stm; emap := (out k, e) :: emap b; cx := c |} x = operand b x.
Proof. intros H. unfold operand. cbn [emap]. now rewrite lookup_cons_neq. Qed.
Lemma operand_cons_eq b k e stm c : operand {| stmts := stm; emap := (out k, e) :: emap b; cx := c |} (out k) = e.
Proof. unfold operand. cbn [emap]. now rewrite lookup_cons_eq. Qed.

Lemma step done k todo' b : P = done ++ k :: todo' -> Inv done (k :: todo') b ->
  exists b', bstep b k (hd_error todo') = Some b' /\ Inv (done ++ [k]) todo' b'.
Proof.
  intros EP (ts & d1 & pend & Ed & Hcx & Etr & Eem & En & Hnames & Hatoms & Hpl).
  assert (Hwk : wfrom (nafter 1 done) (k :: todo')) by (rewrite EP in Hwf; apply wfrom_app in Hwf; tauto).
  destruct Hwk as (Hw1 & Hout & _).
  assert (Enaf : nafter 1 done = nafter (n ts) pend) by (rewrite Ed, nafter_app, En; reflexivity).
  rewrite Enaf in Hout.
  (* a pending value is consumed by k and read by nobody else *)
  assert (Hcons : forall x, plast pend = Some x -> reads x = 1 /\ In x (inputs (op k)) /\
            count_occ Nat.eq_dec (inputs (op k)) x = 1 /\ forall i, In i (done ++ todo') -> ~ In x (inputs (op i))).
  { intros x Ex. rewrite Ex in Hpl. destruct Hpl as (_ & Hr & (k0 & t0 & E0 & Hin) & _). inversion E0; subst k0 t0.
    destruct (Hreads x done k todo' EP Hr Hin). auto. }
  destruct (op_translate nameof Hinj b ts pend k Hw1 Hout) as (e & ts2 & Ebo & Hope & Etr2 & Evars2 & Eem2 & En2).
  { intros x Hx Hnp. apply Hatoms; [exists k; simpl; auto|assumption]. }
  { destruct (plast pend) as [x|] eqn:Epl; [|now apply plast_nil_inv].
    destruct (Hcons x eq_refl) as (Hr & Hin & Hcnt & _). repeat split; auto.
    - apply Hpl.
    - destruct Hpl as (_ & _ & _ & ts' & E1 & E2 & E3). exists ts'. repeat split; auto. eapply tr_expr_vars; eauto. }
  assert (Hfresh : ~ In (out k) (map out done)).
  { intros Hin. apply in_map_iff in Hin as (i & Ei & Hi). rewrite EP in Hwf. apply wfrom_app in Hwf as [Hwd _].
    pose proof (wfrom_outs 1 done Hwd i Hi). rewrite Enaf in H. lia. }
  (* atoms still readable by the remaining instructions, other than out k *)
  assert (Hold : forall x, (exists i, In i todo' /\ In x (inputs (op i))) -> out k <> x -> atom_ok (vars ts) x (operand b x)).
  { intros x (i & Hi & Hx) Hne. apply Hatoms; [exists i; simpl; auto|].
    intros Epl. destruct (Hcons x Epl) as (_ & _ & _ & Hno). apply (Hno i); [apply in_or_app; auto|assumption]. }
  unfold B.bstep. rewrite Ebo.
  destruct (anon (out k) && (reads (out k) =? 1) && match hd_error todo' with Some j => hasinput (op j) (out k) | None => false end && (S (cx b) <? limit)) eqn:Econd.
  - (* inlined *)
    eexists. split; [reflexivity|].
    apply andb_true_iff in Econd as [Econd _]. apply andb_true_iff in Econd as [Econd Hun]. apply andb_true_iff in Econd as [_ Hr1].
    apply Nat.eqb_eq in Hr1.
    exists ts, d1, (pend ++ [k]). rewrite plast_snoc.
    split; [rewrite Ed, app_assoc; reflexivity|]. split; [rewrite app_length; simpl; cbn [cx]; lia|].
    split; [exact Etr|]. split; [exact Eem|]. split; [exact En|]. split; [exact Hnames|]. split.
    + intros x Hx Hne. rewrite operand_cons_neq by congruence. apply Hold; [assumption|congruence].
    + rewrite operand_cons_eq. split; [exact Hope|]. split; [exact Hr1|]. split.
      * destruct todo' as [|j t]; [discriminate|]. exists j, t. split; [reflexivity|].
        simpl in Hun. unfold hasinput in Hun. apply existsb_exists in Hun as (y & Hy & E). apply Nat.eqb_eq in E. now subst.
      * exists ts2. auto.
  - (* committed *)
    eexists. split; [reflexivity|].
    set (ts3 := {| n := n ts2; vars := (nameof (out k), out k) :: vars ts2; emitted := emitted ts2 |}).
    assert (Hnone : lookup (nameof (out k)) (vars ts2) = None).
    { rewrite Evars2. destruct (lookup (nameof (out k)) (vars ts)) eqn:E; [|reflexivity]. exfalso.
      apply Hfresh. rewrite Ed, map_app. apply in_or_app. left. apply Hnames. congruence. }
    exists ts3, (done ++ [k]), []. cbn [plast rev].
    split; [now rewrite app_nil_r|]. split; [reflexivity|]. split.
    { cbn [stmts]. rewrite tr_stmts_app, Etr. cbn [tr_stmts]. unfold tr_stmt. cbn [fst snd]. rewrite Etr2, Hnone. reflexivity. }
    split; [unfold ts3; cbn [emitted]; rewrite Eem2, Eem, Ed, <- map_app, app_assoc; reflexivity|].
    split; [unfold ts3; cbn [n]; rewrite En2, En, <- nafter_app, Ed, app_assoc; reflexivity|].
    split.
    { intros k0 Hk0. unfold ts3 in Hk0. cbn [vars] in Hk0. rewrite map_app. apply in_or_app.
      destruct (Nat.eq_dec (nameof (out k)) (nameof k0)) as [E|Hne].
      - right. apply Hinj in E. subst. simpl; auto.
      - left. rewrite lookup_cons_neq in Hk0 by assumption. rewrite Evars2 in Hk0. rewrite Ed, map_app. apply in_or_app. left. now apply Hnames. }
    split; [|exact I].
    intros x Hx _. destruct (Nat.eq_dec (out k) x) as [<-|Hne].
    + rewrite operand_cons_eq. unfold atom_ok, ts3. cbn [vars]. apply lookup_cons_eq.
    + rewrite operand_cons_neq by assumption. specialize (Hold x Hx Hne).
      unfold ts3. cbn [vars]. rewrite Evars2. destruct (operand b x) as [i|s| | |]; cbn [atom_ok] in Hold |- *; try contradiction; [assumption|].
      destruct (Nat.eq_dec (nameof (out k)) s) as [<-|Hns]; [|now rewrite lookup_cons_neq].
      exfalso. apply Hfresh. rewrite Ed, map_app. apply in_or_app. left. apply Hnames. congruence.
Qed.

Lemma loop_inv : forall todo done b, P = done ++ todo -> Inv done todo b ->
  exists b', bloop b todo = Some b' /\ Inv P [] b'.
Proof.
  induction todo as [|k todo IH]; intros done b EP HI.
  - exists b. split; [reflexivity|]. rewrite app_nil_r in EP. now subst.
  - destruct (step done k todo b EP HI) as (b1 & E1 & HI1). cbn [B.bloop]. rewrite E1.
    apply (IH (done ++ [k]) b1); [rewrite <- app_assoc; exact EP|exact HI1].
Qed.

(* Build never hits its assertion failure, and re-translating the built statements emits exactly P (operands in canonical order) *)
Theorem build_translate : exists b ts, bloop binit P = Some b /\
  tr_stmts (stmts b) tinit = Some ts /\ emitted ts = map canon_inst P /\ n ts = nafter 1 P.
Proof.
  assert (HI : Inv [] P binit).
  { exists tinit, [], []. cbn [plast rev]. repeat split; auto.
    - intros k Hk. simpl in Hk. congruence. }
  destruct (loop_inv P [] binit eq_refl HI) as (b & Eb & (ts & d1 & pend & Ed & Hcx & Etr & Eem & En & _ & _ & Hpl)).
  exists b, ts. split; [exact Eb|]. split; [exact Etr|].
  assert (pend = []).
  { destruct (plast pend) as [x|] eqn:E; [|now apply plast_nil_inv].
    destruct Hpl as (_ & _ & (k0 & t0 & E0 & _) & _). discriminate. }
  subst pend. rewrite app_nil_r in Ed. subst d1. auto.
Qed.
End BT.
Print Assumptions build_translate.
