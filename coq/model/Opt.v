(* Model of alg/opt/opt.go (C10): Optimize and pruneuses, transcribed loop by loop.
   Executable definitions only; proofs are in proofs/OptProofs.v.

   Go                                         model
   ops := make([][]Op, len(c)); ops[k]=Ops(k) ops_table c        (fold over k = 1 .. len-1)
   counts := make([]int, len(c)); first loop  fold_left (count_single tbl) (seq 1 (n-1)) (repeat 0 n)
   for k := 1; k < len(c)-1; k++              fold_left (outer_step n) (seq 1 (n-2))
     for l := k+1; l < len(c); l++            fold_left (prune_step k) (seq (S k) (n - S k))
   removal loop                               remove_loop 0 c rem

   Slice reads ops[l], counts[i] are written with nth and a default: every index that reaches
   them is a loop index below len(c) or an operand of an Op returned by Chain.Ops(k), and those are
   < k for EVERY input (lemma ops_bounds in proofs/OptChainAux.v; rows only shrink by filtering), so
   Go cannot raise an index panic here and the default is never observed.
   counts are Go ints; they are bounded by 2*len(c)^2, so no wrap-around is reachable: nat.
   Optimize never returns a non-nil error and never validates its input. *)
From Coq Require Import String.
From Coq Require Import List NArith ZArith Bool Arith.
From AV Require Import model.Proto model.Chain.
Import ListNotations.

(* Op.Uses, Op.Operands (program.go) *)
Definition uses (o : op) (i : nat) : bool := (fst o =? i)%nat || (snd o =? i)%nat.
Definition operands (o : op) : list nat := if (fst o =? snd o)%nat then [fst o] else [fst o; snd o].

(* xs[l] = v *)
Fixpoint update {A} (l : nat) (v : A) (xs : list A) : list A :=
  match xs, l with
  | [], _ => []
  | _ :: t, O => v :: t
  | x :: t, S l' => x :: update l' v t
  end.

(* counts[i]++ ; for _, i := range o.Operands() { counts[i]++ } *)
Definition incr (cs : list nat) (i : nat) : list nat := update i (S (nth i cs O)) cs.
Definition incr_all (cs : list nat) (os : list nat) : list nat := fold_left incr os cs.

(* ops := make([][]Op, len(c)); for k := 1; k < len(c); k++ { ops[k] = c.Ops(k) } *)
Definition ops_table (c : list Z) : list (list op) :=
  fold_left (fun tbl k => update k (ops c k) tbl) (seq 1 (length c - 1)) (repeat [] (length c)).

(* if len(ops[k]) != 1 { continue }; for _, i := range ops[k][0].Operands() { counts[i]++ } *)
Definition count_single (tbl : list (list op)) (cs : list nat) (k : nat) : list nat :=
  match nth k tbl [] with
  | [o] => incr_all cs (operands o)
  | _ => cs
  end.

(* pruneuses(ops, i): keep the ops that do not use i (in place in Go; a filter) *)
Definition pruneuses (os : list op) (i : nat) : list op := filter (fun o => negb (uses o i)) os.

(* body of the l loop: ops[l] = pruneuses(ops[l], k); if len(ops[l]) == 1 { counts[operands]++ } *)
Definition prune_step (k : nat) (st : list (list op) * list nat) (l : nat) : list (list op) * list nat :=
  let '(tbl, cs) := st in
  let ol := pruneuses (nth l tbl []) k in
  let tbl' := update l ol tbl in
  (tbl', match ol with
         | [o] => incr_all cs (operands o)
         | _ => cs
         end).

(* body of the k loop: if counts[k] > 0 { continue }; l loop; remove = append(remove, k) *)
Definition outer_step (n : nat) (st : list (list op) * list nat * list nat) (k : nat)
  : list (list op) * list nat * list nat :=
  let '(tbl, cs, rem) := st in
  if (0 <? nth k cs O)%nat then st
  else let '(tbl', cs') := fold_left (prune_step k) (seq (S k) (n - S k)) (tbl, cs) in
       (tbl', cs', rem ++ [k]).

Definition opt_state (c : list Z) : list (list op) * list nat * list nat :=
  let n := length c in
  let tbl := ops_table c in
  let cs := fold_left (count_single tbl) (seq 1 (n - 1)) (repeat O n) in
  fold_left (outer_step n) (seq 1 (n - 2)) (tbl, cs, []).

(* for i, x := range c { if len(remove) > 0 && remove[0] == i { remove = remove[1:]; continue }; append } *)
Fixpoint remove_loop (i : nat) (c : list Z) (rem : list nat) : list Z :=
  match c with
  | [] => []
  | x :: r =>
      match rem with
      | k :: rem' => if (k =? i)%nat then remove_loop (S i) r rem' else x :: remove_loop (S i) r rem
      | [] => x :: remove_loop (S i) r rem
      end
  end.

Definition removed (c : list Z) : list nat := let '(_, _, rem) := opt_state c in rem.

Definition optimize (c : list Z) : outcome (list Z) := Ok (remove_loop 0 c (removed c)).
