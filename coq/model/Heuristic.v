(* Model of alg/heuristic/heuristic.go (C08): the heuristics Halving, DeltaLargest, Approximation,
   UseFirst and the Bos-Coster loop of Algorithm.FindSequence.  Executable definitions only. *)
From Coq Require Import String.
From Coq Require Import List NArith ZArith Bool Arith.
From AV Require Import model.Proto model.Bits model.Lists model.Chain.
Import ListNotations.
Open Scope Z_scope.

Inductive heur : Type :=
| Halving
| DeltaLargest
| Approximation
| UseFirst (hs : list heur).

(* big.Int.Div: Euclidean division, run-time panic on a zero divisor *)
Definition go_div (a b : Z) : outcome Z :=
  if b =? 0 then Panic ($"divzero")
  else if 0 <? b then Ok (a / b) else Ok (- (a / (- b))).

(* DeltaLargest.Suggest: n := len(f); delta := target - f[n-1]; panic if delta <= 0 *)
Definition delta_largest (f : list Z) (t : Z) : outcome (option (list Z)) :=
  match f with
  | [] => Panic ($"index")
  | _ => let delta := t - last f 0 in
         if delta <=? 0 then Panic ($"delta") else Ok (Some [delta])
  end.

(* Halving.Suggest *)
Definition halving (f : list Z) (t : Z) : outcome (option (list Z)) :=
  match f with
  | [] => Panic ($"index")
  | _ =>
    let next := last f 0 in
    obind (go_div t next) (fun r =>
      if (bitlen r <? 2)%N then Ok None
      else
        let u := (N.to_nat (bitlen r) - 1)%nat in
        let k := Z.shiftr t (Z.of_nat u) in
        (* for e := 0; e <= u; e++ { kshifts = append(kshifts, k << e) } *)
        let kshifts := map (fun e => Z.shiftl k (Z.of_nat e)) (seq 0 (S u)) in
        let d := t - nz kshifts u in
        if d =? 0 then Ok (Some (firstn u kshifts))
        else Ok (Some (insert_sorted_unique kshifts d)))
  end.

(* Approximation.Suggest: two pointers l and r = hi-1 (hi exclusive so that r = -1 is hi = 0).
   Every iteration either decrements r or increments l (or returns), so S (len f) fuel suffices. *)
Fixpoint approx_loop (fuel : nat) (f : list Z) (t : Z) (l hi : nat) (first : bool) (mindelta best : Z)
  : outcome (list Z) :=
  match fuel with
  | O => OutOfFuel
  | S fu =>
    if (l <? hi)%nat then
      let a := nz f l in
      let b := nz f (hi - 1) in
      let delta := t - (a + b) in
      if delta <? 0 then approx_loop fu f t l (hi - 1) first mindelta best
      else
        let ins := a + delta in
        if contains_sorted ins f then Ok [ins]
        else if first || (delta <? mindelta) then approx_loop fu f t (S l) hi false delta ins
        else approx_loop fu f t (S l) hi first mindelta best
    else Ok [best]
  end.

Definition approximation (f : list Z) (t : Z) : outcome (option (list Z)) :=
  obind (approx_loop (S (length f)) f t 0 (length f) true 0 0) (fun ins => Ok (Some ins)).

(* Suggest; None is Go's nil slice.  useFirst returns the first non-nil suggestion. *)
Fixpoint suggest (h : heur) (f : list Z) (t : Z) {struct h} : outcome (option (list Z)) :=
  match h with
  | Halving => halving f t
  | DeltaLargest => delta_largest f t
  | Approximation => approximation f t
  | UseFirst hs =>
      (fix first_of (l : list heur) : outcome (option (list Z)) :=
         match l with
         | [] => Ok None
         | h' :: r => match suggest h' f t with
                      | Ok None => first_of r
                      | o => o
                      end
         end) hs
  end.

(* String() *)
Fixpoint heur_name (h : heur) : list N :=
  match h with
  | Halving => $"halving"
  | DeltaLargest => $"delta_largest"
  | Approximation => $"approximation"
  | UseFirst hs => $"use_first(" ++ join [comma] (map heur_name hs) ++ $")"
  end.
Definition heuristic_alg_name (h : heur) : list N := $"heuristic(" ++ heur_name h ++ $")".

Definition noseq : list N := $"noseq".

(* one iteration of  for len(proto) > 2 { ... }  followed by the rest of the loop (rec);
   after the loop: c = MergeUnique(leader, c) *)
Definition loop_body (h : heur) (rec : list Z -> list Z -> outcome (list Z)) (proto c : list Z)
  : outcome (list Z) :=
  if (length proto <=? 2)%nat then Ok (merge_unique [1; 2] c)
  else
    let target := last proto 0 in
    let proto' := removelast proto in
    let c' := insert_sorted_unique c target in
    match suggest h proto' target with
    | Ok None => Err noseq
    | Ok (Some ins) => rec (merge_unique proto' ins) c'
    | Err e => Err e
    | Panic e => Panic e
    | OutOfFuel => OutOfFuel
    end.

(* the loop with unary fuel = number of iterations allowed *)
Fixpoint loop (h : heur) (fuel : nat) : list Z -> list Z -> outcome (list Z) :=
  match fuel with
  | O => fun _ _ => OutOfFuel
  | S f => loop_body h (loop h f)
  end.

(* the same loop allowed 2^n iterations (n stays small: bit length of the largest target) *)
Fixpoint loop_deep (h : heur) (n : nat) (rec : list Z -> list Z -> outcome (list Z))
  (proto c : list Z) {struct n} : outcome (list Z) :=
  match n with
  | O => loop_body h rec proto c
  | S m => loop_deep h m (fun proto' c' => loop_deep h m rec proto' c') proto c
  end.

(* Algorithm.FindSequence up to the loop: the {1} special case, proto = Unique(Sort({1,2} ++ targets)) *)
Definition is_just_one (targets : list Z) : bool :=
  match targets with
  | [x] => x =? 1
  | _ => false
  end.
Definition init_proto (targets : list Z) : list Z := unique (sort ([1; 2] ++ targets)).

Definition find_sequence (h : heur) (fuel : nat) (targets : list Z) : outcome (list Z) :=
  if is_just_one targets then Ok targets
  else loop h fuel (init_proto targets) [].

(* entry point with adequate fuel: every iteration pops a strictly smaller maximum, so there are
   fewer than 2^(bitlen of the largest value) iterations *)
Definition iter_bits (targets : list Z) : nat := N.to_nat (bitlen (last (init_proto targets) 0)).
Definition find_sequence_go (h : heur) (targets : list Z) : outcome (list Z) :=
  if is_just_one targets then Ok targets
  else loop_deep h (iter_bits targets) (fun _ _ => OutOfFuel) (init_proto targets) [].
