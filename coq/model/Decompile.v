(* Model of acc/decompile.go (C04): unrolled program -> concise intermediate representation.
   Executable definitions only; proofs are in proofs/DecompileProofs.v. *)
From Coq Require Import String.
From Coq Require Import List NArith ZArith Bool Arith.
From AV Require Import model.Proto model.Chain model.Program model.Ir.
Import ListNotations.

(* ir.Index(i) *)
Definition zi (i : nat) : operand := index_operand (Z.of_nat i).

(* j := i + 1; for ; j < len(p) && numreads[j] == 1 && p[j].I == j && p[j].J == j; j++ {}
   [rest] is p[j:], so "rest non-empty" is the loop's own guard j < len(p), which also keeps
   numreads[j] in range (len(numreads) = len(p)+1).  Result: the number of iterations. *)
Fixpoint run_len (nr : list nat) (j : nat) (rest : list op) : nat :=
  match rest with
  | [] => O
  | (a, b) :: r =>
      if (nth j nr O =? 1)%nat && (a =? j)%nat && (b =? j)%nat then S (run_len nr (S j) r) else O
  end.

(* The main loop over i.  [p] is p[i:].  "i = j - 1" followed by the loop's i++ skips the
   s - 1 operations folded into the shift: [skip] counts them down. *)
Fixpoint dec_loop (nr : list nat) (i skip : nat) (p : list op) : iprogram :=
  match p with
  | [] => []
  | (a, b) :: r =>
      match skip with
      | S k => dec_loop nr (S i) k r
      | O =>
          if negb (a =? b)%nat then
            (* regular addition *)
            mkInstr (zi (S i)) (IAdd (zi a) (zi b)) :: dec_loop nr (S i) O r
          else
            let s := S (run_len nr (S i) r) in
            if (s =? 1)%nat then
              (* shift size 1 encoded as a double *)
              mkInstr (zi (S i)) (IDouble (zi a)) :: dec_loop nr (S i) O r
            else
              mkInstr (zi (i + s)) (IShift (zi a) (N.of_nat s)) :: dec_loop nr (S i) (s - 1) r
      end
  end.

(* Decompile: numreads := p.ReadCounts() (which indexes out of range, i.e. panics, on an
   operand > len(p)); the error result is always nil. *)
Definition decompile (p : list op) : outcome iprogram :=
  obind (read_counts p) (fun nr => Ok (dec_loop nr O O p)).
