(* Model of /repo/internal/calc/calc.go (after the fix: division by zero is an error).
   Executable Gallina only; byte strings are list N, *big.Int is Z.
   Function by function: operators table, yard.operator / apply / result, Eval, number,
   skip / isdecimal / ishex / isbinary, and math/big's Int.SetString(s, 0). *)
From Coq Require Import String.
From Coq Require Import List NArith ZArith Bool.
From AV Require Import model.Proto.
Import ListNotations.
Open Scope N_scope.

(* ---- operators ---- *)
Inductive bop := Pow | Mul | Div | Add | Sub.

(* var operators = map[byte]operator{'^','*','/','+','-'} *)
Definition op_of_byte (c : N) : option bop :=
  if c =? 94 then Some Pow
  else if c =? 42 then Some Mul
  else if c =? 47 then Some Div
  else if c =? 43 then Some Add
  else if c =? 45 then Some Sub
  else None.

Definition prec (o : bop) : N :=
  match o with Pow | Mul | Div => 3 | Add | Sub => 2 end.

(* associativity == rightassociative *)
Definition rassoc (o : bop) : bool :=
  match o with Pow => true | _ => false end.

(* nonzero: second operand must be non-zero *)
Definition nonzero (o : bop) : bool :=
  match o with Div => true | _ => false end.

(* big.Int.Div is Euclidean: the remainder is always >= 0 *)
Definition ediv (x y : Z) : Z :=
  (if y <? 0 then - (x / (- y)) else x / y)%Z.

(* the big.Int method op.apply(z, x, y); big.Int.Div panics on a zero divisor *)
Definition arith (o : bop) (x y : Z) : outcome Z :=
  match o with
  | Pow => Ok (if y <=? 0 then 1 else x ^ y)%Z       (* z.Exp(x, y, nil) *)
  | Mul => Ok (x * y)%Z
  | Div => if (y =? 0)%Z then Panic $"divzero" else Ok (ediv x y)
  | Add => Ok (x + y)%Z
  | Sub => Ok (x - y)%Z
  end.

(* ---- yard: operand stack (top first), operator stack (top first) ---- *)

(* yard.apply *)
Definition apply (o : bop) (vs : list Z) : outcome (list Z) :=
  match vs with
  | y :: x :: vs' =>
      if nonzero o && (y =? 0)%Z then Err $"divzero"
      else obind (arith o x y) (fun z => Ok (z :: vs'))
  | _ => Err $"toofew"
  end.

(* the loop of yard.operator *)
Fixpoint pop_while (op : bop) (vs : list Z) (os : list bop) : outcome (list Z * list bop) :=
  match os with
  | [] => Ok (vs, [])
  | top :: os' =>
      if (prec top <? prec op) || ((prec top =? prec op) && rassoc op) then Ok (vs, os)
      else obind (apply top vs) (fun vs' => pop_while op vs' os')
  end.

Definition push_operator (op : bop) (vs : list Z) (os : list bop) : outcome (list Z * list bop) :=
  obind (pop_while op vs os) (fun st => Ok (fst st, op :: snd st)).

(* yard.result *)
Fixpoint result (vs : list Z) (os : list bop) : outcome Z :=
  match os with
  | top :: os' => obind (apply top vs) (fun vs' => result vs' os')
  | [] => match vs with
          | [v] => Ok v
          | _ => Err $"count"
          end
  end.

(* ---- character classes ---- *)
Definition skip (c : N) : bool := c =? 32.
Definition is_decimal (c : N) : bool := (48 <=? c) && (c <=? 57).
Definition is_hex (c : N) : bool := is_decimal c || ((97 <=? c) && (c <=? 102)).
Definition is_binary (c : N) : bool := (c =? 48) || (c =? 49).

(* ---- math/big: Int.SetString(s, 0) on a byte string ---- *)

(* digit value of a byte in nat.scan (actual base <= 16 here, so <= maxBaseSmall) *)
Definition digit_value (c : N) : option N :=
  if (48 <=? c) && (c <=? 57) then Some (c - 48)
  else if (97 <=? c) && (c <=? 122) then Some (c - 97 + 10)
  else if (65 <=? c) && (c <=? 90) then Some (c - 65 + 10)
  else None.

(* nat.scan's "prev": '0' (a digit), '_' or '.' (anything else) *)
Inductive prevk := PDigit | PSep | POther.
Definition is_pdigit (p : prevk) : bool := match p with PDigit => true | _ => false end.
Definition is_psep (p : prevk) : bool := match p with PSep => true | _ => false end.

(* the digit loop of nat.scan called with base 0 and fracOk = false:
   result (value, count, prev, invalSep, unread rest) *)
Fixpoint scan_digits (b1 : N) (s : list N) (acc : N) (count : N) (prev : prevk) (inval : bool)
  : N * N * prevk * bool * list N :=
  match s with
  | [] => (acc, count, prev, inval, [])
  | ch :: r =>
      if ch =? 95 then scan_digits b1 r acc count PSep (inval || negb (is_pdigit prev))
      else match digit_value ch with
           | Some d => if d <? b1 then scan_digits b1 r (acc * b1 + d) (count + 1) PDigit inval
                       else (acc, count, prev, inval, s)
           | None => (acc, count, prev, inval, s)
           end
  end.

Inductive pfx := NoPfx | PfxLetter | PfxZero.
Definition is_pfxzero (p : pfx) : bool := match p with PfxZero => true | _ => false end.

(* nat.scan(r, 0, false): Some (value, unread rest), None = error *)
Definition nat_scan0 (s : list N) : option (N * list N) :=
  let '(b, prefix, count0, prev0, s1) :=
    match s with
    | c0 :: t =>
        if c0 =? 48 then
          match t with
          | ch :: r =>
              if (ch =? 98) || (ch =? 66) then (2, PfxLetter, 0, PDigit, r)
              else if (ch =? 111) || (ch =? 79) then (8, PfxLetter, 0, PDigit, r)
              else if (ch =? 120) || (ch =? 88) then (16, PfxLetter, 0, PDigit, r)
              else (8, PfxZero, 0, PDigit, t)
          | [] => (10, NoPfx, 1, PDigit, [])
          end
        else (10, NoPfx, 0, POther, s)
    | [] => (10, NoPfx, 0, POther, s)
    end in
  let '(acc, count, prev, inval, rest) := scan_digits b s1 0 count0 prev0 false in
  if inval || is_psep prev then None                       (* errInvalSep *)
  else if count =? 0 then
    (if is_pfxzero prefix then Some (0, rest) else None)   (* lone octal prefix 0 / errNoDigits *)
  else Some (acc, rest).

(* Int.SetString(s, 0): sign, mantissa, and the entire content must be consumed *)
Definition set_string0 (s : list N) : option Z :=
  match s with
  | [] => None
  | c :: r =>
      let neg := c =? 45 in
      let m := if (c =? 45) || (c =? 43) then r else s in
      match nat_scan0 m with
      | Some (a, []) => Some (if neg then - Z.of_N a else Z.of_N a)%Z
      | _ => None
      end
  end.

(* ---- func number ---- *)
Fixpoint span (p : N -> bool) (l : list N) : list N * list N :=
  match l with
  | c :: r => if p c then let '(a, b) := span p r in (c :: a, b) else ([], l)
  | [] => ([], [])
  end.

Definition number (b : list N) : outcome (Z * list N) :=
  (* i := 0; if len(b) > 0 && b[0] == '-' { i++ } *)
  let '(sign, b1) :=
    match b with
    | c :: r => if c =? 45 then ([c], r) else ([], b)
    | [] => ([], b)
    end in
  (* switch on the prefix of b[i:] *)
  let '(pre, isdigit, b2) :=
    match b1 with
    | c0 :: c1 :: r =>
        if (c0 =? 48) && (c1 =? 98) then ([c0; c1], is_binary, r)
        else if (c0 =? 48) && (c1 =? 120) then ([c0; c1], is_hex, r)
        else ([], is_decimal, b1)
    | _ => ([], is_decimal, b1)
    end in
  (* for ; i < len(b) && isdigit(b[i]); i++ {} *)
  let '(ds, rest) := span isdigit b2 in
  match set_string0 (sign ++ pre ++ ds) with
  | Some x => Ok (x, rest)
  | None => Err $"number"
  end.

(* ---- func Eval ---- *)
Fixpoint eval_loop (fuel : nat) (b : list N) (operand : bool) (vs : list Z) (os : list bop)
  : outcome Z :=
  match fuel with
  | O => OutOfFuel
  | S f =>
      match b with
      | [] => result vs os
      | c :: r =>
          if skip c then eval_loop f r operand vs os
          else if operand then
            obind (number b) (fun xr => eval_loop f (snd xr) false (fst xr :: vs) os)
          else match op_of_byte c with
               | None => Err $"operator"
               | Some op =>
                   obind (push_operator op vs os) (fun st => eval_loop f r true (fst st) (snd st))
               end
      end
  end.

(* every iteration consumes at least one byte, so length + 1 iterations suffice *)
Definition eval (s : list N) : outcome Z := eval_loop (S (length s)) s true [] [].
