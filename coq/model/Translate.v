(* Model of acc/translate.go (Translate), acc/pass/eval.go (Compile, Eval) and acc/acc.go
   (LoadString), plus the specification `denote` that C03 compares them with.
   Executable definitions only.

   Translate keeps: the running element counter n (a Go int, starts at 1), the name table
   map[Identifier]*ir.Operand, and the instruction list.  Operands are heap objects shared by
   pointer: `define` writes the statement name into the operand object, so an alias `b = a`
   renames the object that earlier instructions already refer to, and the final `return e`
   (define with name "") un-names it.  The model therefore keeps an object store (list of
   operands, object id = position) and instructions over object ids; `translate` resolves the ids
   against the final store. *)
From Coq Require Import String.
From Coq Require Import List NArith ZArith Bool.
From AV Require Import model.Proto model.Chain model.Ast model.Ir model.Peg.
From AV Require model.Program.
Import ListNotations.
Open Scope Z_scope.

(* Go int arithmetic (64 bit two's complement) *)
Definition wrap64 (z : Z) : Z := (z + 2 ^ 63) mod 2 ^ 64 - 2 ^ 63.

Inductive top :=
| TAdd (x y : nat)
| TDouble (x : nat)
| TShift (x : nat) (s : N).
Record tinstr := mkT { tout : nat; topn : top }.

Record tstate := mkState {
  tn : Z;                            (* s.n *)
  tvars : list (list N * nat);       (* s.variable: name -> object id *)
  tobjs : list operand;              (* heap of ir.Operand objects *)
  tinstrs : list tinstr              (* s.prog.Instructions *)
}.

Definition tinit : tstate := mkState 1 [] [] [].

Fixpoint lookup {A} (k : list N) (m : list (list N * A)) : option A :=
  match m with
  | [] => None
  | (k', v) :: t => if str_eqb k' k then Some v else lookup k t
  end.

(* &ir.Operand{...}: allocate a fresh object *)
Definition new_obj (st : tstate) (o : operand) : nat * tstate :=
  (length (tobjs st), mkState (tn st) (tvars st) (tobjs st ++ [o]) (tinstrs st)).

(* append an instruction whose output is a fresh ir.Index(idx); n becomes n' *)
Definition emit (st : tstate) (idx n' : Z) (mk : nat -> tinstr) : nat * tstate :=
  let out := length (tobjs st) in
  (out, mkState n' (tvars st) (tobjs st ++ [index_operand idx]) (tinstrs st ++ [mk out])).

Definition obj_index (st : tstate) (id : nat) : outcome Z :=
  match nth_error (tobjs st) id with
  | Some o => Ok (oindex o)
  | None => Panic ($"index")
  end.

Fixpoint t_expr (e : expr) (st : tstate) : outcome (nat * tstate) :=
  match e with
  | EOperand i => Ok (new_obj st (index_operand i))
  | EIdent s => match lookup s (tvars st) with
                | Some id => Ok (id, st)
                | None => Err ($"undefined")
                end
  | EAdd x y =>
      obind (t_expr x st) (fun r1 => let '(ix, st1) := r1 in
      obind (t_expr y st1) (fun r2 => let '(iy, st2) := r2 in
      obind (obj_index st2 ix) (fun vx =>
      obind (obj_index st2 iy) (fun vy =>
        (* if x.Index > y.Index { x, y = y, x } *)
        let '(a, b) := if vx >? vy then (iy, ix) else (ix, iy) in
        Ok (emit st2 (tn st2) (wrap64 (tn st2 + 1)) (fun out => mkT out (TAdd a b)))))))
  | EDouble x =>
      obind (t_expr x st) (fun r1 => let '(ix, st1) := r1 in
        Ok (emit st1 (tn st1) (wrap64 (tn st1 + 1)) (fun out => mkT out (TDouble ix))))
  | EShift x s =>
      obind (t_expr x st) (fun r1 => let '(ix, st1) := r1 in
        (* shift by zero produces no element: the result is the operand itself *)
        if (s =? 0)%N then Ok (ix, st1)
        else
          (* s.n += int(sh.S); out := ir.Index(s.n - 1) *)
          let n' := wrap64 (tn st1 + wrap64 (Z.of_N s)) in
          Ok (emit st1 (wrap64 (n' - 1)) n' (fun out => mkT out (TShift ix s))))
  end.

(* op.Identifier = name (on the shared object) *)
Definition set_name (objs : list operand) (id : nat) (name : list N) : list operand :=
  match nth_error objs id with
  | Some o => firstn id objs ++ [mkOperand name (oindex o)] ++ skipn (S id) objs
  | None => objs
  end.

Definition define (st : tstate) (name : list N) (id : nat) : outcome tstate :=
  match lookup name (tvars st) with
  | Some _ => Err ($"redefine")
  | None => Ok (mkState (tn st) ((name, id) :: tvars st) (set_name (tobjs st) id name) (tinstrs st))
  end.

Definition t_stmt (st : tstate) (s : stmt) : outcome tstate :=
  obind (t_expr (sexpr s) st) (fun r => let '(out, st1) := r in define st1 (sname s) out).

Fixpoint t_stmts (ss : script) (st : tstate) : outcome tstate :=
  match ss with
  | [] => Ok st
  | s :: r => obind (t_stmt st s) (t_stmts r)
  end.

(* resolve object ids against the final heap *)
Definition resolve_op (objs : list operand) (o : top) : option iop :=
  match o with
  | TAdd x y => match nth_error objs x, nth_error objs y with
                | Some a, Some b => Some (IAdd a b)
                | _, _ => None
                end
  | TDouble x => option_map IDouble (nth_error objs x)
  | TShift x s => option_map (fun a => IShift a s) (nth_error objs x)
  end.
Definition resolve_instr (objs : list operand) (i : tinstr) : option instr :=
  match nth_error objs (tout i), resolve_op objs (topn i) with
  | Some o, Some p => Some (mkInstr o p)
  | _, _ => None
  end.

(* acc.Translate *)
Definition translate (c : script) : outcome iprogram :=
  obind (t_stmts c tinit) (fun st =>
    match map_opt (resolve_instr (tobjs st)) (tinstrs st) with
    | Some p => Ok p
    | None => Panic ($"index")
    end).

(* pass.Compile *)
Definition compile_step (p : list op) (i : instr) : list op * outcome Z :=
  match iopn i with
  | IAdd x y => Program.add p (oindex x) (oindex y)
  | IDouble x => Program.double p (oindex x)
  | IShift x s => Program.shift p (oindex x) s
  end.
Fixpoint compile_loop (p : list op) (is : iprogram) : outcome (list op) :=
  match is with
  | [] => Ok p
  | i :: r =>
      let '(p', res) := compile_step p i in
      obind res (fun out =>
        if out =? oindex (iout i) then compile_loop p' r else Err ($"outindex"))
  end.
Definition compile (is : iprogram) : outcome (list op) := compile_loop [] is.

(* Translate, then pass.Eval = Compile + Program.Evaluate *)
Definition load_tree (c : script) : outcome (iprogram * list op * list Z) :=
  obind (translate c) (fun ir =>
  obind (compile ir) (fun p =>
  obind (evaluate p) (fun ch => Ok (ir, p, ch)))).

(* acc.LoadString *)
Definition load_m (src : list N) : outcome (iprogram * list op * list Z) :=
  obind (parse src) load_tree.

(* ---------------------------------------------------------------------------------------------
   Specification: the chain a script denotes, read directly off the tree.  Statements in order,
   operands left to right; an addition or doubling appends one element, a shift by s >= 1 appends s
   successive doublings, a shift by 0 denotes its operand; `1` is element 0, [i] is element i, a name
   is the element its statement produced.  Errors: undefined name, redefinition, an operation on an
   element that does not exist (yet).  An unnamed statement binds the empty name (that is what
   `define` does; it matters only for trees with several unnamed statements, which no text denotes).
   --------------------------------------------------------------------------------------------- *)
Record dstate := mkD { dvals : list Z; dops : list op; denv : list (list N * Z) }.
Definition dinit : dstate := mkD [1] [] [].

Definition exists_at (st : dstate) (i : Z) : bool := (0 <=? i) && (i <? Z.of_nat (length (dvals st))).
Definition val_at (st : dstate) (i : Z) : Z := nth (Z.to_nat i) (dvals st) 0.
Definition append (st : dstate) (v : Z) (o : op) : dstate := mkD (dvals st ++ [v]) (dops st ++ [o]) (denv st).
Definition newest (st : dstate) : Z := Z.of_nat (length (dvals st)) - 1.

Fixpoint doublings (s : nat) (st : dstate) (i : Z) : dstate :=
  match s with
  | O => st
  | S s' => let st' := append st (2 * val_at st i) (Z.to_nat i, Z.to_nat i) in doublings s' st' (newest st')
  end.

Fixpoint den_expr (e : expr) (st : dstate) : outcome (Z * dstate) :=
  match e with
  | EOperand i => Ok (i, st)
  | EIdent s => match lookup s (denv st) with
                | Some i => Ok (i, st)
                | None => Err ($"undefined")
                end
  | EAdd x y =>
      obind (den_expr x st) (fun r1 => let '(ix, st1) := r1 in
      obind (den_expr y st1) (fun r2 => let '(iy, st2) := r2 in
        if exists_at st2 ix && exists_at st2 iy then
          let st3 := append st2 (val_at st2 ix + val_at st2 iy) (Z.to_nat (Z.min ix iy), Z.to_nat (Z.max ix iy)) in
          Ok (newest st3, st3)
        else Err ($"future")))
  | EDouble x =>
      obind (den_expr x st) (fun r1 => let '(ix, st1) := r1 in
        if exists_at st1 ix then
          let st2 := append st1 (2 * val_at st1 ix) (Z.to_nat ix, Z.to_nat ix) in Ok (newest st2, st2)
        else Err ($"future"))
  | EShift x s =>
      obind (den_expr x st) (fun r1 => let '(ix, st1) := r1 in
        if (s =? 0)%N then Ok (ix, st1)
        else if exists_at st1 ix then
          let st2 := doublings (N.to_nat s) st1 ix in Ok (newest st2, st2)
        else Err ($"future"))
  end.

Definition den_stmt (st : dstate) (s : stmt) : outcome dstate :=
  obind (den_expr (sexpr s) st) (fun r => let '(i, st1) := r in
    match lookup (sname s) (denv st1) with
    | Some _ => Err ($"redefine")
    | None => Ok (mkD (dvals st1) (dops st1) ((sname s, i) :: denv st1))
    end).

Fixpoint den_stmts (ss : script) (st : dstate) : outcome dstate :=
  match ss with
  | [] => Ok st
  | s :: r => obind (den_stmt st s) (den_stmts r)
  end.

Definition denote (c : script) : outcome (list Z * list op) :=
  obind (den_stmts c dinit) (fun st => Ok (dvals st, dops st)).

(* number of chain elements a tree asks for (no Go int overflow below 2^63) *)
Fixpoint expr_cost (e : expr) : Z :=
  match e with
  | EOperand _ | EIdent _ => 0
  | EAdd x y => expr_cost x + expr_cost y + 1
  | EDouble x => expr_cost x + 1
  | EShift x s => expr_cost x + Z.of_N s
  end.
Definition script_cost (c : script) : Z := fold_right (fun s a => expr_cost (sexpr s) + a) 1 c.
