(* C15: the ensemble argument of model/Cli.v instantiated with the modelled ensemble of C01
   (model/Ensemble.v through model/SearchEns.v): ens n = the sequential exec.Execute results of the 200
   algorithms of ensemble.Ensemble() on n, as `search` sees them (an error, or the program).
   Executable definitions only. *)
From Coq Require Import String.
From Coq Require Import List NArith ZArith Bool.
From AV Require Import model.Proto model.Chain.
From AV Require model.Search model.SearchEns.
Import ListNotations.

(* r.Err != nil -> error; otherwise r.Program *)
Definition result_of (r : Search.ares) : outcome (list op) :=
  match Search.ar_err r with
  | Some e => Err e
  | None => Ok (Search.ar_prog r)
  end.

(* a panic inside an algorithm kills the process: it stays a Panic entry of the list *)
Definition ens_of (orcs : nat -> option (list (Z * N))) (n : Z) : list (outcome (list op)) :=
  match SearchEns.ens_model orcs n with
  | Ok rs => map result_of rs
  | Err c => [Err c]
  | Panic c => [Panic c]
  | OutOfFuel => [OutOfFuel]
  end.
