(* Model of internal/metavars (C20): ordered-map operations on a property file, Go's %q
   (strconv.Quote) and strconv.Unquote for double-quoted strings, the text that Write emits
   after go/format for the file shape it produces, and a reader for exactly that shape.
   Executable definitions only.

   Unicode tables are NOT part of the model: every function that needs a rune class takes
   [cls : N -> N] (bit 0 = strconv.IsPrint, bit 1 = unicode.IsLetter, bit 2 = unicode.IsDigit;
   only consulted for runes >= 0x80).  The harness generates the relevant entries from the Go
   run time for every case line; the theorems quantify over all [cls]. *)
From Coq Require Import String.
From Coq Require Import List NArith Bool.
From AV Require Import model.Proto.
Import ListNotations.
Open Scope N_scope.

Record property := mkProp { p_name : list N; p_doc : list N; p_value : list N }.
Record file := mkFile { f_pkg : list N; f_props : list property }.

(* ------------------------------------------------------------------ *)
(* File.get / Get / Add / Set                                          *)

(* func (f *File) get(name string) *Property: first property with that name *)
Fixpoint get_prop (name : list N) (ps : list property) : option property :=
  match ps with
  | [] => None
  | p :: r => if str_eqb (p_name p) name then Some p else get_prop name r
  end.

(* Get: (value, true) / ("", false) *)
Definition file_get (name : list N) (f : file) : option (list N) :=
  option_map p_value (get_prop name (f_props f)).

(* Add: error when the name exists, else append *)
Definition file_add (p : property) (f : file) : outcome file :=
  match get_prop (p_name p) (f_props f) with
  | Some _ => Err $"exists"
  | None => Ok (mkFile (f_pkg f) (f_props f ++ [p]))
  end.

(* Set: p := f.get(name); p.Value = value  (the first property with that name, in place) *)
Fixpoint set_prop (name value : list N) (ps : list property) : option (list property) :=
  match ps with
  | [] => None
  | p :: r => if str_eqb (p_name p) name then Some (mkProp (p_name p) (p_doc p) value :: r)
              else option_map (cons p) (set_prop name value r)
  end.

Definition file_set (name value : list N) (f : file) : outcome file :=
  match set_prop name value (f_props f) with
  | Some ps => Ok (mkFile (f_pkg f) ps)
  | None => Err $"unknown"
  end.

(* ------------------------------------------------------------------ *)
(* unicode/utf8                                                        *)

Definition rune_error : N := 65533.
Definition is_cont (b : N) : bool := (128 <=? b) && (b <=? 191).

(* utf8.ValidRune *)
Definition valid_rune (r : N) : bool := (r <? 55296) || ((57343 <? r) && (r <=? 1114111)).

(* utf8.DecodeRuneInString: (rune, width); (RuneError, 1) for an invalid or short encoding *)
Definition decode_rune (s : list N) : N * nat :=
  match s with
  | [] => (rune_error, 0%nat)
  | b0 :: r =>
      if b0 <? 128 then (b0, 1%nat)
      else if (194 <=? b0) && (b0 <=? 223) then
        match r with
        | b1 :: _ => if is_cont b1 then ((b0 - 192) * 64 + (b1 - 128), 2%nat) else (rune_error, 1%nat)
        | _ => (rune_error, 1%nat)
        end
      else if (224 <=? b0) && (b0 <=? 239) then
        match r with
        | b1 :: b2 :: _ =>
            if ((if b0 =? 224 then 160 else 128) <=? b1) && (b1 <=? (if b0 =? 237 then 159 else 191)) && is_cont b2
            then ((b0 - 224) * 4096 + (b1 - 128) * 64 + (b2 - 128), 3%nat)
            else (rune_error, 1%nat)
        | _ => (rune_error, 1%nat)
        end
      else if (240 <=? b0) && (b0 <=? 244) then
        match r with
        | b1 :: b2 :: b3 :: _ =>
            if ((if b0 =? 240 then 144 else 128) <=? b1) && (b1 <=? (if b0 =? 244 then 143 else 191))
               && is_cont b2 && is_cont b3
            then ((b0 - 240) * 262144 + (b1 - 128) * 4096 + (b2 - 128) * 64 + (b3 - 128), 4%nat)
            else (rune_error, 1%nat)
        | _ => (rune_error, 1%nat)
        end
      else (rune_error, 1%nat)
  end.

(* the (RuneError, 1) answer: an invalid byte *)
Definition is_bad (rw : N * nat) : bool := (Nat.eqb (snd rw) 1) && (fst rw =? rune_error).

(* utf8.AppendRune *)
Definition encode_rune (r : N) : list N :=
  if r <? 128 then [r]
  else if r <? 2048 then [192 + r / 64; 128 + r mod 64]
  else if negb (valid_rune r) then [239; 191; 189]
  else if r <? 65536 then [224 + r / 4096; 128 + (r / 64) mod 64; 128 + r mod 64]
  else [240 + r / 262144; 128 + (r / 4096) mod 64; 128 + (r / 64) mod 64; 128 + r mod 64].

(* rune classes *)
Definition is_print (cls : N -> N) (r : N) : bool :=
  if r <? 128 then (32 <=? r) && (r <=? 126) else N.testbit (cls r) 0.
Definition is_ascii_letter (r : N) : bool :=
  ((97 <=? r) && (r <=? 122)) || ((65 <=? r) && (r <=? 90)) || (r =? 95).
Definition is_ascii_digit (r : N) : bool := (48 <=? r) && (r <=? 57).
(* go/scanner isLetter / isDigit *)
Definition is_letter (cls : N -> N) (r : N) : bool :=
  if r <? 128 then is_ascii_letter r else N.testbit (cls r) 1.
Definition is_digit (cls : N -> N) (r : N) : bool :=
  if r <? 128 then is_ascii_digit r else N.testbit (cls r) 2.

(* Loops over the runes of a string are written structurally on the byte list with a count of
   continuation bytes still to skip (no fuel). *)

(* utf8.RuneCountInString *)
Fixpoint rune_count (skip : nat) (s : list N) : nat :=
  match s with
  | [] => 0%nat
  | _ :: rest =>
      match skip with
      | S k => rune_count k rest
      | O => S (rune_count (pred (snd (decode_rune s))) rest)
      end
  end.

(* every rune is validly encoded and satisfies ok *)
Fixpoint all_runes (ok : N -> bool) (skip : nat) (s : list N) : bool :=
  match s with
  | [] => true
  | _ :: rest =>
      match skip with
      | S k => all_runes ok k rest
      | O => let rw := decode_rune s in
             negb (is_bad rw) && ok (fst rw) && all_runes ok (pred (snd rw)) rest
      end
  end.

(* ------------------------------------------------------------------ *)
(* strconv.Quote (fmt %q)                                              *)

(* k hex digits of r, most significant first: lowerhex[r>>s & 0xF] *)
Fixpoint hex_digits (k : nat) (r : N) : list N :=
  match k with
  | O => []
  | S k' => hexchar ((r / 16 ^ N.of_nat k') mod 16) :: hex_digits k' r
  end.

(* strconv.appendEscapedRune with quote = double quote, ASCIIonly = graphicOnly = false *)
Definition escape_rune (cls : N -> N) (r : N) : list N :=
  if (r =? 34) || (r =? 92) then [92; r]
  else if is_print cls r then encode_rune r
  else if r =? 7 then [92; 97]
  else if r =? 8 then [92; 98]
  else if r =? 12 then [92; 102]
  else if r =? 10 then [92; 110]
  else if r =? 13 then [92; 114]
  else if r =? 9 then [92; 116]
  else if r =? 11 then [92; 118]
  else if (r <? 32) || (r =? 127) then 92 :: 120 :: hex_digits 2 r
  else if negb (valid_rune r) then 92 :: 117 :: hex_digits 4 rune_error
  else if r <? 65536 then 92 :: 117 :: hex_digits 4 r
  else 92 :: 85 :: hex_digits 8 r.

(* what appendQuotedWith emits for the rune at the head of s (s non-empty) *)
Definition quote_unit (cls : N -> N) (s : list N) : list N :=
  let rw := decode_rune s in
  if is_bad rw then 92 :: 120 :: hex_digits 2 (hd 0 s) else escape_rune cls (fst rw).

Fixpoint quote_body (cls : N -> N) (skip : nat) (s : list N) : list N :=
  match s with
  | [] => []
  | _ :: rest =>
      match skip with
      | S k => quote_body cls k rest
      | O => quote_unit cls s ++ quote_body cls (pred (snd (decode_rune s))) rest
      end
  end.

Definition quote (cls : N -> N) (s : list N) : list N := 34 :: quote_body cls 0 s ++ [34].

(* ------------------------------------------------------------------ *)
(* strconv.Unquote, double-quoted form                                 *)

(* strconv.unhex *)
Definition unhex (c : N) : option N :=
  if (48 <=? c) && (c <=? 57) then Some (c - 48)
  else if (97 <=? c) && (c <=? 102) then Some (c - 87)
  else if (65 <=? c) && (c <=? 70) then Some (c - 55)
  else None.

(* exactly k hex digits: v = v<<4 | x *)
Fixpoint read_hex (k : nat) (acc : N) (s : list N) : option N :=
  match k with
  | O => Some acc
  | S k' => match s with
            | [] => None
            | c :: r => match unhex c with
                        | Some d => read_hex k' (acc * 16 + d) r
                        | None => None
                        end
            end
  end.

Definition octal_digit (c : N) : option N := if (48 <=? c) && (c <=? 55) then Some (c - 48) else None.

(* strconv.UnquoteChar(s, double quote) followed by the append in strconv.unquote:
   (bytes appended to the result, number of input bytes consumed) *)
Definition unquote_char (s : list N) : option (list N * nat) :=
  match s with
  | [] => None
  | c :: r =>
      if c =? 34 then None
      else if 128 <=? c then let rw := decode_rune s in Some (encode_rune (fst rw), snd rw)
      else if negb (c =? 92) then Some ([c], 1%nat)
      else match r with
           | [] => None
           | e :: r2 =>
               if e =? 97 then Some ([7], 2%nat)
               else if e =? 98 then Some ([8], 2%nat)
               else if e =? 102 then Some ([12], 2%nat)
               else if e =? 110 then Some ([10], 2%nat)
               else if e =? 114 then Some ([13], 2%nat)
               else if e =? 116 then Some ([9], 2%nat)
               else if e =? 118 then Some ([11], 2%nat)
               else if e =? 120 then
                 match read_hex 2 0 r2 with Some v => Some ([v], 4%nat) | None => None end
               else if e =? 117 then
                 match read_hex 4 0 r2 with
                 | Some v => if valid_rune v then Some (encode_rune v, 6%nat) else None
                 | None => None
                 end
               else if e =? 85 then
                 match read_hex 8 0 r2 with
                 | Some v => if valid_rune v then Some (encode_rune v, 10%nat) else None
                 | None => None
                 end
               else if (48 <=? e) && (e <=? 55) then
                 match r2 with
                 | d1 :: d2 :: _ =>
                     match octal_digit d1, octal_digit d2 with
                     | Some x1, Some x2 =>
                         let v := (e - 48) * 64 + x1 * 8 + x2 in
                         if 255 <? v then None else Some ([v], 4%nat)
                     | _, _ => None
                     end
                 | _ => None
                 end
               else if e =? 92 then Some ([92], 2%nat)
               else if e =? 34 then Some ([34], 2%nat)
               else None
           end
  end.

(* the loop of strconv.unquote after the opening quote: (value, text after the closing quote).
   The fast path of strconv.unquote (no backslash, valid UTF-8: return the text between the
   quotes) gives the same answer as this loop and is not modelled separately. *)
Fixpoint unq_loop (skip : nat) (s : list N) : option (list N * list N) :=
  match s with
  | [] => None
  | c :: rest =>
      match skip with
      | S k => unq_loop k rest
      | O => if c =? 34 then Some ([], rest)
             else if c =? 10 then None
             else match unquote_char s with
                  | None => None
                  | Some (out, n) =>
                      match unq_loop (pred n) rest with
                      | Some (v, rem) => Some (out ++ v, rem)
                      | None => None
                      end
                  end
      end
  end.

(* strconv.Unquote for input starting with a double quote (None = ErrSyntax; raw and
   single-quoted forms are outside this model and also answer None) *)
Definition unquote (s : list N) : option (list N) :=
  match s with
  | c :: r => if c =? 34 then match unq_loop 0 r with
                              | Some (v, []) => Some v
                              | _ => None
                              end
              else None
  | [] => None
  end.

(* ------------------------------------------------------------------ *)
(* Write: the text after go/format                                     *)

Definition has_doc (p : property) : bool := match p_doc p with [] => false | _ => true end.
Definition name_width (p : property) : nat := rune_count 0 (p_name p).

(* gofmt aligns the '=' of consecutive specs; a doc comment line ends the alignment block, the
   documented spec starts the next one.  Width of the leading run of undocumented specs: *)
Fixpoint block_rest_width (ps : list property) : nat :=
  match ps with
  | [] => 0%nat
  | p :: r => if has_doc p then 0%nat else Nat.max (name_width p) (block_rest_width r)
  end.

(* number of padding spaces after each name (cell width = widest name of the block, in runes) *)
Fixpoint pads_aux (w : nat) (first : bool) (ps : list property) : list nat :=
  match ps with
  | [] => []
  | p :: r =>
      let w' := if first || has_doc p then Nat.max (name_width p) (block_rest_width r) else w in
      (w' - name_width p)%nat :: pads_aux w' false r
  end.
Definition pads (ps : list property) : list nat := pads_aux 0 true ps.

Definition doc_line (d : list N) : list N :=
  match d with
  | [] => []
  | _ => 9 :: $"// " ++ d ++ [10]
  end.

(* "\t// doc\n" (if any) "\tname<pad> = <quoted>\n" *)
Definition spec_line (cls : N -> N) (pad : nat) (p : property) : list N :=
  doc_line (p_doc p) ++ 9 :: p_name p ++ repeat 32 pad ++ $" = " ++ quote cls (p_value p) ++ [10].

Fixpoint spec_lines (cls : N -> N) (pds : list nat) (ps : list property) : list N :=
  match ps with
  | [] => []
  | p :: r => spec_line cls (hd 0%nat pds) p ++ spec_lines cls (tl pds) r
  end.

(* the file text for given paddings *)
Definition write_with (cls : N -> N) (pds : list nat) (f : file) : list N :=
  $"package " ++ f_pkg f ++ [10; 10] ++ $"var (" ++
  match f_props f with
  | [] => []
  | _ => 10 :: spec_lines cls pds (f_props f)
  end ++ [41; 10].

Definition write_m (cls : N -> N) (f : file) : list N := write_with cls (pads (f_props f)) f.

(* ------------------------------------------------------------------ *)
(* Read, for exactly the shape that Write emits                        *)

Fixpoint strip_prefix (p s : list N) : option (list N) :=
  match p with
  | [] => Some s
  | a :: p' => match s with
               | b :: s' => if a =? b then strip_prefix p' s' else None
               | [] => None
               end
  end.

(* text before the first c, text after it *)
Fixpoint split_at (c : N) (s : list N) : option (list N * list N) :=
  match s with
  | [] => None
  | b :: r => if b =? c then Some ([], r)
              else match split_at c r with
                   | Some (a, t) => Some (b :: a, t)
                   | None => None
                   end
  end.

Fixpoint skip_spaces (s : list N) : list N :=
  match s with
  | c :: r => if c =? 32 then skip_spaces r else s
  | [] => []
  end.

(* one spec with its optional doc line: builder.valuespec on what go/parser delivers *)
Definition read_spec (s : list N) : option (property * list N) :=
  match strip_prefix [9] s with
  | None => None
  | Some s1 =>
      let docpart :=
        match strip_prefix $"//" s1 with
        | None => Some ([], s1)
        | Some s2 =>
            match strip_prefix [32] s2 with
            | None => None                              (* no "// " leader *)
            | Some s3 =>
                match split_at 10 s3 with
                | None => None
                | Some (d, s4) =>
                    match strip_prefix [9] s4 with
                    | Some s5 => Some (d, s5)
                    | None => None
                    end
                end
            end
        end in
      match docpart with
      | None => None
      | Some (doc, t) =>
          match split_at 32 t with
          | None => None
          | Some (name, t1) =>
              match name with
              | [] => None
              | _ =>
                  match strip_prefix $"= " (skip_spaces t1) with
                  | None => None
                  | Some t2 =>
                      match strip_prefix [34] t2 with
                      | None => None
                      | Some t3 =>
                          match unq_loop 0 t3 with
                          | None => None
                          | Some (v, t4) =>
                              match strip_prefix [10] t4 with
                              | None => None
                              | Some t5 => Some (mkProp name doc v, t5)
                              end
                          end
                      end
                  end
              end
          end
      end
  end.

Fixpoint read_specs (fuel : nat) (s : list N) : outcome (list property) :=
  match fuel with
  | O => OutOfFuel
  | S f =>
      if str_eqb s [41; 10] then Ok []
      else match read_spec s with
           | None => Err $"read"
           | Some (p, rest) =>
               match read_specs f rest with
               | Ok ps => Ok (p :: ps)
               | Err c => Err c
               | Panic c => Panic c
               | OutOfFuel => OutOfFuel
               end
           end
  end.

Definition read_m (s : list N) : outcome file :=
  match strip_prefix $"package " s with
  | None => Err $"read"
  | Some s1 =>
      match split_at 10 s1 with
      | None => Err $"read"
      | Some (pkg, s2) =>
          match strip_prefix (10 :: $"var (") s2 with
          | None => Err $"read"
          | Some s3 =>
              if str_eqb s3 [41; 10] then Ok (mkFile pkg [])
              else match strip_prefix [10] s3 with
                   | None => Err $"read"
                   | Some s4 =>
                       match read_specs (S (length s4)) s4 with
                       | Ok ps => Ok (mkFile pkg ps)
                       | Err c => Err c
                       | Panic c => Panic c
                       | OutOfFuel => OutOfFuel
                       end
                   end
          end
      end
  end.

(* ------------------------------------------------------------------ *)
(* The hypotheses of the round trip, as decidable predicates           *)

Definition keywords : list (list N) :=
  [ $"break"; $"case"; $"chan"; $"const"; $"continue"; $"default"; $"defer"; $"else";
    $"fallthrough"; $"for"; $"func"; $"go"; $"goto"; $"if"; $"import"; $"interface"; $"map";
    $"package"; $"range"; $"return"; $"select"; $"struct"; $"switch"; $"type"; $"var" ].

(* bytes that can occur in an identifier: ASCII letter, digit, '_', or part of a multi-byte rune *)
Definition ident_byte (b : N) : bool := is_ascii_letter b || is_ascii_digit b || (128 <=? b).

(* a Go identifier that is not a keyword (go/token.IsIdentifier) *)
Definition valid_name (cls : N -> N) (n : list N) : bool :=
  match n with
  | [] => false
  | _ =>
      forallb ident_byte n
      && is_letter cls (fst (decode_rune n))
      && all_runes (fun r => is_letter cls r || is_digit cls r) 0 n
      && negb (existsb (str_eqb n) keywords)
  end.

(* "// +build" lines are moved to the top of the file by go/format (go/build/constraint.IsPlusBuild) *)
Definition is_build_line (d : list N) : bool :=
  match strip_prefix $"+build" (skip_spaces d) with
  | Some [] => true
  | Some (c :: _) => (c =? 32) || (c =? 9)
  | None => false
  end.

(* plain prose: absent, or one line of printable text that does not end in a space and is not a
   +build line *)
Definition plain_doc (cls : N -> N) (d : list N) : bool :=
  match d with
  | [] => true
  | _ =>
      forallb (fun b => (32 <=? b) && negb (b =? 127)) d
      && all_runes (is_print cls) 0 d
      && negb (last d 0 =? 32)
      && negb (is_build_line d)
  end.

Definition is_byte (b : N) : bool := b <? 256.

Definition valid_names (cls : N -> N) (f : file) : bool :=
  valid_name cls (f_pkg f) && forallb (fun p => valid_name cls (p_name p)) (f_props f).
Definition plain_docs (cls : N -> N) (f : file) : bool :=
  forallb (fun p => plain_doc cls (p_doc p)) (f_props f).
Definition byte_values (f : file) : bool :=
  forallb (fun p => forallb is_byte (p_value p)) (f_props f).

(* rune class table carried by a case line: (rune, class) pairs *)
Fixpoint lookup (tab : list (N * N)) (r : N) : N :=
  match tab with
  | [] => 0
  | (k, c) :: t => if k =? r then c else lookup t r
  end.

(* ------------------------------------------------------------------ *)
(* WriteFile / ReadFile                                                *)

(* Modelling assumption about the file system: WriteFile creates the file with os.Create, which
   truncates, so afterwards the path holds exactly the bytes that Write produced, whatever it
   held before ([old] is ignored); ReadFile parses the bytes the path holds. *)
Definition write_file (cls : N -> N) (old : list N) (f : file) : list N := write_m cls f.
Definition read_file (content : list N) : outcome file := read_m content.

(* a history of WriteFile calls on one path, starting from content [old] *)
Definition write_files (cls : N -> N) (old : list N) (fs : list file) : list N :=
  fold_left (write_file cls) fs old.
