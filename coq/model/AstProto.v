(* Line protocol for the acc language checks (C03, C07): text encodings of syntax trees and IR,
   and the case dispatcher shared by dispatch/C03.v and dispatch/C07.v.  Executable only.

   Expression: prefix (Polish) token list joined by ',' --  A = add, D = dbl, S<dec> = shl by <dec>,
   O<dec> = operand (may be negative), I<hex> = identifier (hex pairs, '-' = empty).
   Statement: <hexname or ->=<expr>.  Script: statements joined by ';', '-' = no statement.
   IR operand: <hexname or ->@<index>; instruction a<out>:<x>,<y> | d<out>:<x> | s<out>:<x>:<n>;
   program: instructions joined by ';', '-' = none.  Ops: i+j joined by ','. *)
From Coq Require Import String.
From Coq Require Import List NArith ZArith Bool.
From AV Require Import model.Proto model.Chain model.Ast model.Ir model.Printer model.Peg model.Translate.
Import ListNotations.
Open Scope N_scope.

Definition semi : N := 59.

(* ---- printing ---- *)
Fixpoint enc_expr (e : expr) : list (list N) :=
  match e with
  | EOperand i => [79 :: print_decZ i]
  | EIdent s => [73 :: print_bytes s]
  | EAdd x y => [65] :: enc_expr x ++ enc_expr y
  | EShift x s => (83 :: print_decN s) :: enc_expr x
  | EDouble x => [68] :: enc_expr x
  end.
Definition enc_stmt (s : stmt) : list N := print_bytes (sname s) ++ [61] ++ join [comma] (enc_expr (sexpr s)).
Definition enc_script (c : script) : list N := print_list_sep semi enc_stmt c.

Definition enc_operand (o : operand) : list N := print_bytes (oname o) ++ [64] ++ print_decZ (oindex o).
Definition enc_instr (i : instr) : list N :=
  match iopn i with
  | IAdd x y => [97] ++ enc_operand (iout i) ++ [58] ++ enc_operand x ++ [comma] ++ enc_operand y
  | IDouble x => [100] ++ enc_operand (iout i) ++ [58] ++ enc_operand x
  | IShift x s => [115] ++ enc_operand (iout i) ++ [58] ++ enc_operand x ++ [58] ++ print_decN s
  end.
Definition enc_ir (p : iprogram) : list N := print_list_sep semi enc_instr p.
Definition enc_op (o : op) : list N := print_nat (fst o) ++ [43] ++ print_nat (snd o).
Definition enc_ops (p : list op) : list N := print_list enc_op p.
Definition enc_chain (c : list Z) : list N := print_list print_hexZ c.

(* ---- parsing (of case lines) ---- *)
Inductive tok := KA | KD | KS (n : N) | KO (i : Z) | KI (s : list N).
Definition dec_tok (t : list N) : option tok :=
  match t with
  | [65] => Some KA
  | [68] => Some KD
  | 83 :: r => option_map KS (parse_decN r)
  | 79 :: r => option_map KO (parse_decZ r)
  | 73 :: r => option_map KI (parse_bytes r)
  | _ => None
  end.
(* tokens are consumed right to left with a stack, so no fuel is needed *)
Definition dec_step (t : tok) (st : option (list expr)) : option (list expr) :=
  match st with
  | None => None
  | Some stack =>
    match t, stack with
    | KO i, _ => Some (EOperand i :: stack)
    | KI s, _ => Some (EIdent s :: stack)
    | KD, x :: r => Some (EDouble x :: r)
    | KS n, x :: r => Some (EShift x n :: r)
    | KA, x :: y :: r => Some (EAdd x y :: r)
    | _, _ => None
    end
  end.
Definition dec_expr (s : list N) : option expr :=
  match map_opt dec_tok (split comma s) with
  | Some toks => match fold_right dec_step (Some []) toks with
                 | Some [e] => Some e
                 | _ => None
                 end
  | None => None
  end.
Definition dec_stmt (s : list N) : option stmt :=
  match split 61 s with
  | [n; e] => match parse_bytes n, dec_expr e with
              | Some name, Some ex => Some (mkStmt name ex)
              | _, _ => None
              end
  | _ => None
  end.
Definition dec_script (s : list N) : option script := parse_list_sep semi dec_stmt s.

(* ---- result lines ---- *)
Definition show_parse (o : outcome script) : list N :=
  match o with Ok c => enc_script c | _ => $"!parse" end.

Definition show_load (o : outcome (iprogram * list op * list Z)) : outcome (list N) :=
  obind o (fun r => let '(ir, p, ch) := r in Ok (enc_chain ch ++ [sp] ++ enc_ops p ++ [sp] ++ enc_ir ir)).

(* Scripts with a shift amount above 4096 are not evaluated by the check (the implementation appends
   one element per doubling, so 1 << 9223372036854775808 does not terminate in practice): both sides
   print "toolarge" instead. *)
Fixpoint expr_max_shift (e : expr) : N :=
  match e with
  | EOperand _ | EIdent _ => 0
  | EAdd x y => N.max (expr_max_shift x) (expr_max_shift y)
  | EShift x s => N.max s (expr_max_shift x)
  | EDouble x => expr_max_shift x
  end.
Definition script_huge (c : script) : bool := existsb (fun s => 4096 <? expr_max_shift (sexpr s)) c.

(* load <src>: the tree is part of the line also when the script is rejected after parsing *)
Definition run_load (src : list N) : list N :=
  match parse src with
  | Ok c => if script_huge c then r_ok (enc_script c ++ [sp] ++ $"toolarge") else
            match show_load (load_tree c) with
            | Ok l => r_ok (enc_script c ++ [sp] ++ l)
            | Err cls => r_err (cls ++ [sp] ++ enc_script c)
            | Panic cls => r_panic cls
            | OutOfFuel => r_fuel
            end
  | o => print_outcome enc_script o
  end.

(* print <tree>: printed bytes and what they parse to *)
Definition run_print (c : script) : list N :=
  let b := print_script c in
  r_ok (print_bytes b ++ [sp] ++ show_parse (parse b)).

(* fmt <src>: tree, printed bytes, what they parse to *)
Definition run_fmt (src : list N) : list N :=
  match parse src with
  | Ok c => let b := print_script c in
            r_ok (enc_script c ++ [sp] ++ print_bytes b ++ [sp] ++ show_parse (parse b))
  | o => print_outcome enc_script o
  end.

(* deepparse <n>: "return 1 + 1" with the expression inside n pairs of parentheses.  The model parser is the
   un-memoised PEG (time exponential in n), so it only takes part up to n = 12; beyond that (to 5000) the
   case is an implementation-only deadline check and the expected line is "ok". *)
Definition deep_source (n : nat) : list N := $"return " ++ repeat 40 n ++ $"1 + 1" ++ repeat 41 n.
Definition deep_tree : script := [mkStmt [] (EAdd (EOperand 0) (EOperand 0))].
Definition run_deep (n : N) : list N :=
  if n <=? 12 then
    match parse (deep_source (N.to_nat n)) with
    | Ok c => if str_eqb (enc_script c) (enc_script deep_tree) then $"ok" else r_err $"tree"
    | Err cls => r_err cls
    | Panic cls => r_panic cls
    | OutOfFuel => r_fuel
    end
  else if n <=? 5000 then $"ok"
  else r_badcase.

Definition run_acc (line : list N) : list N :=
  match split sp line with
  | [f; a] =>
      if str_eqb f $"parse" then match parse_bytes a with Some s => print_outcome enc_script (parse s) | None => r_badcase end
      else if str_eqb f $"load" then match parse_bytes a with Some s => run_load s | None => r_badcase end
      else if str_eqb f $"fmt" then match parse_bytes a with Some s => run_fmt s | None => r_badcase end
      else if str_eqb f $"print" then match dec_script a with Some c => run_print c | None => r_badcase end
      else if str_eqb f $"loadtree" then match dec_script a with
                                         | Some c => if script_huge c then r_ok $"toolarge" else print_outcome (fun x => x) (show_load (load_tree c))
                                         | None => r_badcase end
      else if str_eqb f $"deepparse" then match parse_decN a with Some n => run_deep n | None => r_badcase end
      else if str_eqb f $"expr" then match dec_expr a with Some e => r_ok (print_bytes (pr_expr e)) | None => r_badcase end
      else r_badcase
  | [f; a; b] =>
      (* parsex <src> <expected tree>: the expectation is for the oracle only *)
      if str_eqb f $"parsex" then match parse_bytes a with Some s => print_outcome enc_script (parse s) | None => r_badcase end
      else r_badcase
  | _ => r_badcase
  end.
