(* Line protocol for the acc language checks (C03, C07): text encodings of syntax trees and IR,
   and the case dispatcher shared by dispatch/C03.v and dispatch/C07.v.  Executable only.

   Expression: prefix (Polish) token list joined by ',' --  A = add, D = dbl, S<dec> = shl by <dec>,
   O<dec> = operand (may be negative), I<hex> = identifier (hex pairs, '-' = empty).
   Statement: <hexname or ->=<expr>.  Script: statements joined by ';', '-' = no statement.
   IR operand: <hexname or ->@<index>; instruction a<out>:<x>,<y> | d<out>:<x> | s<out>:<x>:<n>;
   program: instructions joined by ';', '-' = none.  Ops: i+j joined by ','. *)
From Coq Require Import String.
From Coq Require Import List NArith ZArith Bool.
From AV Require Import model.Proto model.Chain model.Ast model.Ir model.Printer model.Peg model.Translate.
Import ListNotations.
Open Scope N_scope.

Definition semi : N := 59.

(* ---- printing ---- *)
Fixpoint enc_expr (e : expr) : list (list N) :=
  match e with
  | EOperand i => [79 :: print_decZ i]
  | EIdent s => [73 :: print_bytes s]
  | EAdd x y => [65] :: enc_expr x ++ enc_expr y
  | EShift x s => (83 :: print_decN s) :: enc_expr x
  | EDouble x => [68] :: enc_expr x
  end.
Definition enc_stmt (s : stmt) : list N := print_bytes (sname s) ++ [61] ++ join [comma] (enc_expr (sexpr s)).
Definition enc_script (c : script) : list N := print_list_sep semi enc_stmt c.

Definition enc_operand (o : operand) : list N := print_bytes (oname o) ++ [64] ++ print_decZ (oindex o).
Definition enc_instr (i : instr) : list N :=
  match iopn i with
  | IAdd x y => [97] ++ enc_operand (iout i) ++ [58] ++ enc_operand x ++ [comma] ++ enc_operand y
  | IDouble x => [100] ++ enc_operand (iout i) ++ [58] ++ enc_operand x
  | IShift x s => [115] ++ enc_operand (iout i) ++ [58] ++ enc_operand x ++ [58] ++ print_decN s
  end.
Definition enc_ir (p : iprogram) : list N := print_list_sep semi enc_instr p.
Definition enc_op (o : op) : list N := print_nat (fst o) ++ [43] ++ print_nat (snd o).
Definition enc_ops (p : list op) : list N := print_list enc_op p.
Definition enc_chain (c : list Z) : list N := print_list print_hexZ c.

(* ---- parsing (of case lines) ---- *)
Inductive tok := KA | KD | KS (n : N) | KO (i : Z) | KI (s : list N).
Definition dec_tok (t : list N) : option tok :=
  match t with
  | [65] => Some KA
  | [68] => Some KD
  | 83 :: r => option_map KS (parse_decN r)
  | 79 :: r => option_map KO (parse_decZ r)
  | 73 :: r => option_map KI (parse_bytes r)
  | _ => None
  end.
(* tokens are consumed right to left with a stack, so no fuel is needed *)
Definition dec_step (t : tok) (st : option (list expr)) : option (list expr) :=
  match st with
  | None => None
  | Some stack =>
    match t, stack with
    | KO i, _ => Some (EOperand i :: stack)
    | KI s, _ => Some (EIdent s :: stack)
    | KD, x :: r => Some (EDouble x :: r)
    | KS n, x :: r => Some (EShift x n :: r)
    | KA, x :: y :: r => Some (EAdd x y :: r)
    | _, _ => None
    end
  end.
Definition dec_expr (s : list N) : option expr :=
  match map_opt dec_tok (split comma s) with
  | Some toks => match fold_right dec_step (Some []) toks with
                 | Some [e] => Some e
                 | _ => None
                 end
  | None => None
  end.
Definition dec_stmt (s : list N) : option stmt :=
  match split 61 s with
  | [n; e] => match parse_bytes n, dec_expr e with
              | Some name, Some ex => Some (mkStmt name ex)
              | _, _ => None
              end
  | _ => None
  end.
Definition dec_script (s : list N) : option script := parse_list_sep semi dec_stmt s.

(* ---- result lines ---- *)
Definition show_parse (o : outcome script) : list N :=
  match o with Ok c => enc_script c | _ => $"!parse" end.

Definition show_load (o : outcome (iprogram * list op * list Z)) : outcome (list N) :=
  obind o (fun r => let '(ir, p, ch) := r in Ok (enc_chain ch ++ [sp] ++ enc_ops p ++ [sp] ++ enc_ir ir)).

(* Scripts with a shift amount above 4096 are not evaluated by the check (the implementation appends
   one element per doubling, so 1 << 9223372036854775808 does not terminate in practice): both sides
   print "toolarge" instead. *)
Fixpoint expr_max_shift (e : expr) : N :=
  match e with
  | EOperand _ | EIdent _ => 0
  | EAdd x y => N.max (expr_max_shift x) (expr_max_shift y)
  | EShift x s => N.max s (expr_max_shift x)
  | EDouble x => expr_max_shift x
  end.
Definition script_huge (c : script) : bool := existsb (fun s => 4096 <? expr_max_shift (sexpr s)) c.

(* load <src>: the tree is part of the line also when the script is rejected after parsing *)
Definition run_load (src : list N) : list N :=
  match parse src with
  | Ok c => if script_huge c then r_ok (enc_script c ++ [sp] ++ $"toolarge") else
            match show_load (load_tree c) with
            | Ok l => r_ok (enc_script c ++ [sp] ++ l)
            | Err cls => r_err (cls ++ [sp] ++ enc_script c)
            | Panic cls => r_panic cls
            | OutOfFuel => r_fuel
            end
  | o => print_outcome enc_script o
  end.

(* print <tree>: printed bytes and what they parse to *)
Definition run_print (c : script) : list N :=
  let b := print_script c in
  r_ok (print_bytes b ++ [sp] ++ show_parse (parse b)).

(* fmt <src>: tree, printed bytes, what they parse to *)
Definition run_fmt (src : list N) : list N :=
  match parse src with
  | Ok c => let b := print_script c in
            r_ok (enc_script c ++ [sp] ++ print_bytes b ++ [sp] ++ show_parse (parse b))
  | o => print_outcome enc_script o
  end.

(* deepparse <n>: "return 1 + 1" with the expression inside n pairs of parentheses.  The model parser is the
   un-memoised PEG (time exponential in n), so it only takes part up to n = 12; beyond that (to 5000) the
   case is an implementation-only deadline check and the expected line is "ok". *)
Definition deep_source (n : nat) : list N := $"return " ++ repeat 40 n ++ $"1 + 1" ++ repeat 41 n.
Definition deep_tree : script := [mkStmt [] (EAdd (EOperand 0) (EOperand 0))].
Definition run_deep (n : N) : list N :=
  if n <=? 12 then
    match parse (deep_source (N.to_nat n)) with
    | Ok c => if str_eqb (enc_script c) (enc_script deep_tree) then $"ok" else r_err $"tree"
    | Err cls => r_err cls
    | Panic cls => r_panic cls
    | OutOfFuel => r_fuel
    end
  else if n <=? 5000 then $"ok"
  else r_badcase.

(* large <shape> <n>: size-n scripts of five shapes; compact source -> parse -> intended tree; print -> parse
   -> same tree; load agrees with denote.  The model takes part while it can afford it (the un-memoised
   parser is exponential in the nesting depth: shapes b, c only to n = 12; the flat shapes to n = 1000);
   above that the case is an implementation-only check and the expected line is "ok". *)
Definition xname (k : nat) : list N := 120 :: dec_str (N.of_nat k).
Definition long_name : list N := 76 :: repeat 97 119.
Definition two : expr := EAdd (EOperand 0) (EOperand 0).
Definition large_term (k : nat) : expr :=
  match Nat.modulo k 3 with
  | O => EOperand 0
  | S O => EShift (EIdent [120]) (N.of_nat (Nat.modulo k 4) + 1)
  | _ => EDouble (EIdent [120])
  end.
Definition large_tree (shape : N) (n : nat) : option script :=
  if shape =? 97 then   (* a: left-nested sum of n mixed terms *)
    Some [mkStmt [120] two; mkStmt [] (fold_left (fun acc k => EAdd acc (large_term k)) (seq 1 (n - 1)%nat) (large_term 0))]
  else if shape =? 98 then   (* b: right-nested sum *)
    Some [mkStmt [97] two; mkStmt [] (fold_left (fun acc _ => EAdd (EIdent [97]) acc) (seq 0 n) (EIdent [97]))]
  else if shape =? 99 then   (* c: nesting depth n of doubles and shifts *)
    Some [mkStmt [120] two; mkStmt [] (fold_left (fun acc k => if Nat.even k then EDouble acc else EShift acc 1) (seq 0 n) (EIdent [120]))]
  else if (shape =? 100) || (shape =? 101) then   (* d: n chained statements; e: n/3 of them, one with a 120 character name *)
    let m := if shape =? 100 then Nat.max n 2 else Nat.max (Nat.div n 3) 2 in
    let name k := if (shape =? 101) && (k =? Nat.div m 2)%nat then long_name else xname k in
    Some (mkStmt (name O) two ::
          map (fun k => mkStmt (name k) (EAdd (EIdent (name (k - 1)%nat)) (EOperand 0))) (seq 1 (m - 1)%nat) ++
          [mkStmt [] (EIdent (name (m - 1)%nat))])
  else None.
Definition compact_stmt (s : stmt) : list N :=
  match sname s with
  | [] => $"return " ++ pr_expr (sexpr s)
  | n => n ++ [61] ++ pr_expr (sexpr s) ++ [10]
  end.
Definition script_eqb (a b : script) : bool := str_eqb (enc_script a) (enc_script b).
Definition run_large (shape : N) (n : nat) : list N :=
  match large_tree shape n with
  | None => r_badcase
  | Some t =>
    let afford := if (shape =? 98) || (shape =? 99) then (n <=? 12)%nat else (n <=? 1000)%nat in
    if negb afford then (if N.of_nat n <=? 100000 then $"ok" else r_badcase) else
    match parse (flat_map compact_stmt t) with
    | Ok c =>
      if negb (script_eqb c t) then r_err $"tree" else
      match parse (print_script c) with
      | Ok c2 =>
        if negb (script_eqb c2 c) then r_err $"retree" else
        match load_tree t, denote t with
        | Ok (_, ops, vs), Ok (vs', ops') =>
            if str_eqb (enc_chain vs) (enc_chain vs') && str_eqb (enc_ops ops) (enc_ops ops') then $"ok" else r_err $"load"
        | _, _ => r_err $"load"
        end
      | _ => r_err $"reparse"
      end
    | _ => r_err $"parse"
    end
  end.

(* printhist <tree>|<tree>|...  and  parsehist <src>|<src>|... : several prints (parses) in one process, all
   results re-read after the last call.  In the model every call is independent.  An element "!" of a print
   history is a print of an unexpected node type (an error, no text). *)
Definition bar : N := 124.
Definition hist_print (e : list N) : option (list N) :=
  if str_eqb e [33] then Some $"!err"
  else match dec_script e with
       | Some c => let b := print_script c in Some (print_bytes b ++ [58] ++ show_parse (parse b))
       | None => None
       end.
Definition hist_parse (e : list N) : option (list N) :=
  match parse_bytes e with
  | Some s => Some (show_parse (parse s))
  | None => None
  end.
Definition run_hist (f : list N -> option (list N)) (a : list N) : list N :=
  match map_opt f (split bar a) with
  | Some outs => r_ok (join [bar] outs)
  | None => r_badcase
  end.

Definition run_acc (line : list N) : list N :=
  match split sp line with
  | [f; a] =>
      if str_eqb f $"parse" then match parse_bytes a with Some s => print_outcome enc_script (parse s) | None => r_badcase end
      else if str_eqb f $"load" then match parse_bytes a with Some s => run_load s | None => r_badcase end
      else if str_eqb f $"fmt" then match parse_bytes a with Some s => run_fmt s | None => r_badcase end
      else if str_eqb f $"print" then match dec_script a with Some c => run_print c | None => r_badcase end
      else if str_eqb f $"loadtree" then match dec_script a with
                                         | Some c => if script_huge c then r_ok $"toolarge" else print_outcome (fun x => x) (show_load (load_tree c))
                                         | None => r_badcase end
      else if str_eqb f $"printhist" then run_hist hist_print a
      else if str_eqb f $"parsehist" then run_hist hist_parse a
      else if str_eqb f $"deepparse" then match parse_decN a with Some n => run_deep n | None => r_badcase end
      else if str_eqb f $"stmt" then match dec_stmt a with Some st => r_ok (print_bytes (print_script [st])) | None => r_badcase end
      else if str_eqb f $"expr" then match dec_expr a with Some e => r_ok (print_bytes (pr_expr e)) | None => r_badcase end
      else r_badcase
  | [f; a; b] =>
      (* loadx <src> <intended verdict>: the verdict is for the oracle only *)
      if str_eqb f $"loadx" then match parse_bytes a with Some s => run_load s | None => r_badcase end else
      if str_eqb f $"large" then match a, parse_nat b with [sh], Some n => run_large sh n | _, _ => r_badcase end else
      (* parsex <src> <expected tree>: the expectation is for the oracle only *)
      if str_eqb f $"parsex" then match parse_bytes a with Some s => print_outcome enc_script (parse s) | None => r_badcase end
      else r_badcase
  | _ => r_badcase
  end.
