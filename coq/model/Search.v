(* Model of cmd/addchain/search.go (C14): search.Execute after flag parsing.
   Executable definitions only; proofs are in proofs/SearchProofs.v.

   Go                                              model
   cmd.concurrency < 1  -> UsageError              Err "usage"          (exit status 2)
   calc.Eval(expr) fails -> Fail                   Err "eval"           (exit status 1)
   n.Sign() < 1 -> Fail                            Err "nonpos"         (exit status 1)
   concurrency := min(cmd.concurrency, len(as))    no effect on the result (C12), not modelled
   rs := ex.Execute(n, ensemble.Ensemble())        ens n : outcome (list ares), the SEQUENTIAL list of
                                                   exec.Execute results (C12: the parallel executor returns
                                                   exactly that list under every schedule and every limit >= 1)
   for i, r := range rs { ... }                    scan
   r.Err != nil -> Fail                            Err "alg"            (exit status 1)
   cost := double*float64(doubles) + add*float64(adds)    cost_of, over exact rationals Q
   if cost < mincost { best = i; mincost = cost }  first strictly smaller, mincost starts at +Inf (None)
   b := rs[best]                                   index panic on an empty ensemble
   b.Chain[n+1] in the (always evaluated) Debugf arguments   index panic when the chain is too short
   acc.Decompile, acc.Build, printer.Print         report = decompile, build, print_script
   Build error -> cmd.Error                        Err "build"          (exit status 1)

   Costs.  The flags are float64; the model computes over Q.  For dyadic weights with small numerators
   (all weights the check uses) every float64 operation involved is exact, so the two agree; rounding
   for arbitrary floats is NOT modelled.
   The check f.NArg() < 1 (no expression given) is not modelled: the expression is an argument. *)
From Coq Require Import String.
From Coq Require Import List NArith ZArith Bool Arith QArith.
From AV Require Import model.Proto model.Chain model.Program model.Ir model.Ast
  model.Decompile model.Naming model.Build model.Printer model.Calc.
From AV Require model.Peg model.Translate.
Import ListNotations.
Open Scope Z_scope.

(* -add and -double *)
Record weights := mkW { w_add : Q; w_dbl : Q }.

(* doubles, adds := r.Program.Count(); cost := cmd.double*float64(doubles) + cmd.add*float64(adds) *)
Definition cost_of (w : weights) (da : nat * nat) : Q :=
  (w_dbl w * inject_Z (Z.of_nat (fst da)) + w_add w * inject_Z (Z.of_nat (snd da)))%Q.

(* a < b on rationals *)
Definition qlt (a b : Q) : bool := (Qnum a * QDen b <? Qnum b * QDen a).

(* cost < mincost where mincost = None stands for math.Inf(+1) *)
Definition below (c : Q) (m : option Q) : bool :=
  match m with None => true | Some x => qlt c x end.

(* the selection loop on the table of (doubles, adds), in ensemble order *)
Fixpoint select_loop (w : weights) (tbl : list (nat * nat)) (i best : nat) (minc : option Q) : nat * option Q :=
  match tbl with
  | [] => (best, minc)
  | da :: r =>
      let c := cost_of w da in
      if below c minc then select_loop w r (S i) i (Some c) else select_loop w r (S i) best minc
  end.

(* index and cost of the selected result; None = nothing to select from (mincost still +Inf) *)
Definition select (tbl : list (nat * nat)) (w : weights) : option (nat * Q) :=
  match select_loop w tbl O O None with
  | (b, Some c) => Some (b, c)
  | (_, None) => None
  end.

(* exec.Result as far as search reads it: Err (class, None = nil), Chain, Program *)
Record ares := mkAres { ar_err : option (list N); ar_chain : list Z; ar_prog : list op }.

(* the reporting loop of search.Execute, with its early exit on an algorithm error *)
Fixpoint scan (w : weights) (rs : list ares) (i best : nat) (minc : option Q) : outcome (nat * option Q) :=
  match rs with
  | [] => Ok (best, minc)
  | r :: t =>
      match ar_err r with
      | Some _ => Err ($"alg")
      | None =>
          let c := cost_of w (count (ar_prog r)) in
          if below c minc then scan w t (S i) i (Some c) else scan w t (S i) best minc
      end
  end.

(* Decompile, Build, Print: the bytes on standard output *)
Definition report (p : list op) : outcome (list N) :=
  obind (build_program p) (fun t => Ok (print_script t)).

(* for n, op := range b.Program { Debugf("[%3d] %3d+%3d\t%x", n+1, op.I, op.J, b.Chain[n+1]) }:
   the (position, op, value) triples of the log; b.Chain[n+1] is evaluated whether or not -v is given *)
Fixpoint detail_lines (k : nat) (p : list op) (c : list Z) : outcome (list (nat * op * Z)) :=
  match p with
  | [] => Ok []
  | o :: r =>
      match nth_error c (S k) with
      | Some v => obind (detail_lines (S k) r c) (fun l => Ok ((S k, o, v) :: l))
      | None => Panic ($"index")
      end
  end.

(* everything search reports that carries data: the target (hex:/dec: lines), per algorithm the
   cost/doubles/adds line, the best index (best: line), its cost, the detail lines, standard output *)
Record sout := mkSout {
  so_n : Z;
  so_table : list (Q * (nat * nat));
  so_best : nat;
  so_cost : Q;
  so_detail : list (nat * op * Z);
  so_stdout : list N }.

Definition search_results (w : weights) (n : Z) (rs : list ares) : outcome sout :=
  obind (scan w rs O O None) (fun bm =>
    let '(best, minc) := bm in
    (* b := rs[best]: out of range exactly on an empty ensemble, where mincost is still +Inf *)
    match nth_error rs best, minc with
    | Some b, Some c =>
        obind (detail_lines O (ar_prog b) (ar_chain b)) (fun det =>
        match report (ar_prog b) with
        | Ok text =>
            Ok (mkSout n (map (fun r => (cost_of w (count (ar_prog r)), count (ar_prog r))) rs) best c det text)
        | Err _ => Err ($"build")
        | Panic e => Panic e
        | OutOfFuel => OutOfFuel
        end)
    | _, _ => Panic ($"index")
    end).

(* search.Execute; p is the -p flag, ens the ensemble run sequentially *)
Definition search_m (ens : Z -> outcome (list ares)) (expr : list N) (p : Z) (w : weights) : outcome sout :=
  if p <? 1 then Err ($"usage")
  else
    match eval expr with
    | Ok n =>
        if n <? 1 then Err ($"nonpos")
        else obind (ens n) (search_results w n)
    | Err _ => Err ($"eval")
    | Panic c => Panic c
    | OutOfFuel => OutOfFuel
    end.

(* exit status of the command *)
Definition exit_status (o : outcome sout) : option Z :=
  match o with
  | Ok _ => Some 0
  | Err c => if str_eqb c ($"usage") then Some 2 else Some 1
  | _ => None
  end.

(* ---- the commands the property applies to search's output ---- *)

(* cmd/addchain/eval.go: parse, Translate, pass.Eval (= acc.LoadString, model/Translate.v load_m), then one
   line per operation "[n+1] I+J Chain[n+1]" and the totals line: doubles, adds := p.Program.Count() *)
Definition eval_cmd (src : list N) : outcome (list (nat * op * Z) * (nat * nat)) :=
  obind (Translate.load_m src) (fun r =>
    let '(_, ops, c) := r in
    obind (detail_lines O ops c) (fun l => Ok (l, count ops))).

(* cmd/addchain/fmt.go without -b: parse, print.  (With -b the tree is rebuilt by acc.Build from the
   translated program, whose operands carry identifiers; model/Build.v covers identifier-free operands
   only, so fmt -b is not modelled: the check's oracle runs the real command.) *)
Definition fmt_cmd (src : list N) : outcome (list N) :=
  obind (Peg.parse src) (fun s => Ok (print_script s)).
