(* Model of chain.go (C02): Ops, Op, Program, Validate, Produces, Superset, IsAscending,
   Product, Plus; and Program.Evaluate.  Executable definitions and the specification
   predicates only; proofs are in proofs/ChainProofs.v. *)
From Coq Require Import String.
From Coq Require Import List NArith ZArith Bool Arith.
From AV Require Import model.Proto.
Import ListNotations.
Open Scope Z_scope.

Definition op := (nat * nat)%type.

(* c[i]; callers guard the index, the default is never observable through the *_go entry points *)
Definition nz (c : list Z) (i : nat) : Z := nth i c 0.
Definition sol (c : list Z) (k : nat) (o : op) : bool := nz c (fst o) + nz c (snd o) =? nz c k.

(* quadratic path: for i in [0,k), for j in [i,k) *)
Definition row (i hi : nat) : list op := map (pair i) (seq i (hi - i)).
Definition pairs (lo hi : nat) : list op := flat_map (fun i => row i hi) (seq lo (hi - lo)).
Definition ops_quad (c : list Z) (k : nat) : list op := filter (sol c k) (pairs 0 k).

(* two-pointer path: l from 0 up, r = hi-1 from k-1 down (hi exclusive, so Go's r = -1 exit is hi = 0) *)
Fixpoint ops_2p_loop (fuel : nat) (c : list Z) (k l hi : nat) : list op :=
  match fuel with
  | O => []
  | S f =>
    if (l <? hi)%nat then
      let s := nz c l + nz c (hi - 1) in
      if s =? nz c k then (l, (hi - 1)%nat) :: ops_2p_loop f c k (S l) hi
      else if s <? nz c k then ops_2p_loop f c k (S l) hi
      else ops_2p_loop f c k l (hi - 1)
    else []
  end.
Definition ops_2p (c : list Z) (k : nat) : list op := ops_2p_loop (S k) c k 0 k.

(* IsAscending: non-empty, first element 1, strictly increasing *)
Fixpoint strictly_inc (c : list Z) : bool :=
  match c with
  | x :: ((y :: _) as r) => (x <? y) && strictly_inc r
  | _ => true
  end.
Definition is_asc (c : list Z) : bool :=
  match c with
  | [] => false
  | x :: _ => (x =? 1) && strictly_inc c
  end.

Definition ops (c : list Z) (k : nat) : list op :=
  if is_asc (firstn k c) then ops_2p c k else ops_quad c k.

(* Chain.Ops(k) as Go runs it: c[k] is read as soon as k >= 1 *)
Definition ops_go (c : list Z) (k : nat) : outcome (list op) :=
  if (k =? 0)%nat then Ok []
  else if (k <? length c)%nat then Ok (ops c k)
  else Panic ($"index").

Definition op_at (c : list Z) (k : nat) : outcome op :=
  match ops c k with
  | [] => Err ($"notsum")
  | o :: _ => Ok o
  end.

Fixpoint has_dup (c : list Z) : bool :=
  match c with
  | [] => false
  | x :: r => existsb (Z.eqb x) r || has_dup r
  end.

(* for k := 1; k < len(c); k++ { op, err := c.Op(k) ... } *)
Fixpoint program_loop (c : list Z) (ks : list nat) : outcome (list op) :=
  match ks with
  | [] => Ok []
  | k :: r => obind (op_at c k) (fun o => obind (program_loop c r) (fun p => Ok (o :: p)))
  end.

Definition program (c : list Z) : outcome (list op) :=
  match c with
  | [] => Err ($"empty")
  | x :: _ =>
      if negb (x =? 1) then Err ($"first")
      else if existsb (Z.eqb 0) c then Err ($"zero")
      else if has_dup c then Err ($"dup")
      else program_loop c (seq 1 (length c - 1))
  end.

Definition validate (c : list Z) : outcome unit := obind (program c) (fun _ => Ok tt).

Definition produces (c : list Z) (n : Z) : outcome unit :=
  obind (validate c) (fun _ => if last c 0 =? n then Ok tt else Err ($"end")).

Definition superset (c : list Z) (ts : list Z) : outcome unit :=
  obind (validate c) (fun _ => if forallb (fun t => existsb (Z.eqb t) c) ts then Ok tt else Err ($"missing")).

(* Program.Evaluate: c := [1]; for each op append c[I] + c[J] (index panics when out of range) *)
Fixpoint evaluate_from (c : list Z) (p : list op) : outcome (list Z) :=
  match p with
  | [] => Ok c
  | (i, j) :: r =>
      match nth_error c i, nth_error c j with
      | Some a, Some b => evaluate_from (c ++ [a + b]) r
      | _, _ => Panic ($"index")
      end
  end.
Definition evaluate (p : list op) : outcome (list Z) := evaluate_from [1] p.

(* Product(a, b): a ++ [last a * x | x in b[1:]]; Plus(a, x): a ++ [last a + x].
   c.End() on an empty chain panics. *)
Definition product (a b : list Z) : outcome (list Z) :=
  match a, b with
  | [], _ => Panic ($"index")
  | _, [] => Panic ($"index")
  | _, _ :: b' => Ok (a ++ map (fun x => last a 0 * x) b')
  end.
Definition plus (a : list Z) (x : Z) : outcome (list Z) :=
  match a with
  | [] => Panic ($"index")
  | _ => Ok (a ++ [last a 0 + x])
  end.

(* ---- specification: what an addition chain is (independent of the code above) ---- *)
Definition is_chain (c : list Z) : Prop :=
  (exists r, c = 1 :: r) /\ NoDup c /\ ~ In 0 c /\
  forall k, (1 <= k < length c)%nat -> exists i j, (i <= j < k)%nat /\ nz c i + nz c j = nz c k.

Definition asc (c : list Z) : Prop :=
  (exists r, c = 1 :: r) /\ forall i j, (i < j < length c)%nat -> nz c i < nz c j.
