(* Model of `rs := ex.Execute(n, ensemble.Ensemble())` as search.go sees it (C14 on top of C01):
   the sequential list of exec.Execute results over the ensemble of model/Ensemble.v.
   Executable definitions only.

   orcs i is the sort oracle (DESIGN 3.5) for algorithm number i: None = stable sort, Some o = the
   order Go's unstable sort.Slice produced in dict.primitive.  A panic inside an algorithm kills the
   process in Go whichever goroutine it happens in: here it propagates out of the list. *)
From Coq Require Import String.
From Coq Require Import List NArith ZArith Bool.
From AV Require Import model.Proto model.Chain model.Program model.Ensemble model.Search.
Import ListNotations.
Open Scope Z_scope.

(* exec.Result -> the fields search reads *)
Definition ares_of (r : result) : ares := mkAres (res_err r) (res_chain r) (res_program r).

Fixpoint run_all (n : Z) (orcs : nat -> option (list (Z * N))) (i : nat) (algs : list alg_cfg) : outcome (list ares) :=
  match algs with
  | [] => Ok []
  | a :: t =>
      obind (execute a n (orcs i)) (fun r =>
      obind (run_all n orcs (S i) t) (fun rs => Ok (ares_of r :: rs)))
  end.

Definition ens_model (orcs : nat -> option (list (Z * N))) (n : Z) : outcome (list ares) :=
  run_all n orcs O ensemble.

(* `addchain search` with the modelled ensemble *)
Definition search_full (orcs : nat -> option (list (Z * N))) (expr : list N) (p : Z) (w : weights) : outcome sout :=
  search_m (ens_model orcs) expr p w.
